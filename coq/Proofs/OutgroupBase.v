(** C05, rooting on an outgroup / at the midpoint: base lemmas.
    Congruence of the observables (leaves, depths, tip-to-tip distances) under the replacement
    of a subtree by an equivalent one ([update_at]), and the effect of inserting a node in the
    middle of a branch ([cut_slot]): everything is preserved as soon as the weights of the two
    new branches add up to the weight of the branch that was cut. *)
From Coq Require Import String ZArith QArith Bool Arith Lia List Permutation Setoid Morphisms.
From GT Require Import Base.UTree Spec.Obs Model.Reroot Model.Outgroup Spec.Unrooted
     Proofs.RerootBase Proofs.Reroot Proofs.Reorder.
Import ListNotations.
Local Close Scope Q_scope.
Local Arguments n_up : simpl never.

(** * [PermR] through [map], [flat_map], [cross], [cross_all] *)
Lemma PermR_map {A B} (R : A -> A -> Prop) (S : B -> B -> Prop) (f : A -> B) :
  (forall x y, R x y -> S (f x) (f y)) ->
  forall l l', PermR R l l' -> PermR S (map f l) (map f l').
Proof.
  intros H l l' P; induction P; simpl.
  - constructor.
  - constructor; auto.
  - apply PR_swap.
  - eapply PR_trans; eauto.
Qed.

Lemma PermR_flat_map_F2 {A B} (Rl : A -> A -> Prop) (S : B -> B -> Prop) (ES : Equivalence S)
      (f g : A -> list B) l l' :
  Forall2 Rl l l' -> (forall x y, Rl x y -> PermR S (f x) (g y)) ->
  PermR S (flat_map f l) (flat_map g l').
Proof.
  intros F H. induction F; simpl.
  - constructor.
  - apply PermR_app; auto.
Qed.

Definition deq (l l' : list (string * Q)) : Prop := PermR pq_eq l l'.

Global Instance deq_Equivalence : Equivalence deq.
Proof. unfold deq. apply PermR_Equivalence. exact pq_eq_Equivalence. Qed.

Lemma shift_deq q q' l l' : (q == q')%Q -> deq l l' -> deq (shift q l) (shift q' l').
Proof.
  intros Hq H. unfold deq, shift.
  eapply PR_trans.
  - eapply (PermR_map pq_eq pq_eq); [|exact H].
    intros x y [E1 E2]; split; simpl; auto. now rewrite E2.
  - apply PermR_of_Forall2. apply Forall2_map_same. intros x _. split; simpl; auto.
    now rewrite Hq.
Qed.

Lemma cross_deq_r a b b' : deq b b' -> dists_equiv (cross a b) (cross a b').
Proof.
  intros H. unfold cross. induction a as [|x a IH]; simpl.
  - constructor.
  - apply dists_equiv_app; auto.
    eapply (PermR_map pq_eq tq_eq); [|exact H].
    intros u v [E1 E2]; split; simpl; [now rewrite E1 | now rewrite E2].
Qed.

Lemma cross_deq_l a a' b : deq a a' -> dists_equiv (cross a b) (cross a' b).
Proof.
  intros H. unfold cross. induction H; simpl.
  - constructor.
  - apply dists_equiv_app; auto.
    apply dists_equiv_Forall2. apply Forall2_map_same. intros u _.
    destruct H as [E1 E2]. split; simpl; [now rewrite E1 | now rewrite E2].
  - apply dists_equiv_perm. perm.
  - etransitivity; eauto.
Qed.

Lemma cross_deq a a' b b' : deq a a' -> deq b b' -> dists_equiv (cross a b) (cross a' b').
Proof.
  intros Ha Hb. etransitivity; [apply cross_deq_l, Ha | apply cross_deq_r, Hb].
Qed.

Lemma cross_all_deq L L' : Forall2 deq L L' -> dists_equiv (cross_all L) (cross_all L').
Proof.
  induction 1 as [|d d' r r' Hd Hr IH]; simpl.
  - constructor.
  - apply dists_equiv_app; auto.
    eapply (PermR_flat_map_F2 deq tq_eq tq_eq_Equivalence); [exact Hr|].
    intros x y Hxy. apply dists_equiv_app; apply cross_deq; auto.
Qed.

Lemma concat_deq L L' : Forall2 deq L L' -> deq (concat L) (concat L').
Proof.
  induction 1; simpl; [constructor|]. apply PermR_app; auto. exact pq_eq_Equivalence.
Qed.

(** * equivalence of subtrees for a weight function *)
Definition sub_equiv (w : einfo -> Q) (s s' : utree) : Prop :=
  Permutation (leaves s') (leaves s) /\
  deq (depths w s') (depths w s) /\
  dists_equiv (pairdists w s') (pairdists w s).

Lemma sub_equiv_refl w s : sub_equiv w s s.
Proof. repeat split; reflexivity. Qed.

Lemma sub_equiv_trans w a b c : sub_equiv w a b -> sub_equiv w b c -> sub_equiv w a c.
Proof.
  intros [L1 [D1 P1]] [L2 [D2 P2]]. repeat split.
  - now rewrite L2.
  - etransitivity; eauto.
  - etransitivity; eauto.
Qed.

(** a child with its branch *)
Definition kid_equiv (w : einfo -> Q) (x x' : einfo * utree) : Prop :=
  Permutation (leaves (snd x')) (leaves (snd x)) /\
  deq (shift (w (fst x')) (depths w (snd x'))) (shift (w (fst x)) (depths w (snd x))) /\
  dists_equiv (pairdists w (snd x')) (pairdists w (snd x)).

Lemma kid_equiv_refl w x : kid_equiv w x x.
Proof. repeat split; reflexivity. Qed.

Lemma kid_equiv_of_sub w e s s' : sub_equiv w s s' -> kid_equiv w (e, s) (e, s').
Proof.
  intros [L [D P]]. repeat split; simpl; auto. apply shift_deq; [reflexivity | auto].
Qed.

Lemma Forall2_refl_mid {A} (R : A -> A -> Prop) a x x' b :
  (forall y, R y y) -> R x x' -> Forall2 R (a ++ x :: b) (a ++ x' :: b).
Proof.
  intros Hr Hx. apply Forall2_app; [|constructor; auto].
  - induction a; constructor; auto.
  - induction b; constructor; auto.
Qed.

(** children replaced one by one by equivalent ones *)
Lemma F2_kleaves w K K' : Forall2 (kid_equiv w) K K' -> Permutation (kleaves K') (kleaves K).
Proof.
  unfold kleaves. induction 1 as [|x x' r r' Hx Hr IH]; simpl; auto.
  destruct Hx as [L _]. now rewrite L, IH.
Qed.
Lemma F2_kD w K K' : Forall2 (kid_equiv w) K K' -> Forall2 deq (kD w K') (kD w K).
Proof.
  unfold kD. induction 1 as [|x x' r r' Hx Hr IH]; simpl; constructor; auto.
  destruct Hx as [_ [D _]]; exact D.
Qed.
Lemma F2_kpd w K K' : Forall2 (kid_equiv w) K K' -> dists_equiv (kpd w K') (kpd w K).
Proof.
  unfold kpd. induction 1 as [|x x' r r' Hx Hr IH]; simpl; [constructor|].
  apply dists_equiv_app; auto. destruct Hx as [_ [_ P]]. exact P.
Qed.

Lemma node_equiv_F2 w n c sl c' sl' :
  Forall2 (kid_equiv w) (kids_of sl) (kids_of sl') ->
  sub_equiv w (UNode n c sl) (UNode n c' sl').
Proof.
  intros F. unfold sub_equiv. rewrite !leaves_unfold, !depths_unfold, !pairdists_unfold.
  pose proof (F2_kleaves _ _ _ F) as FL.
  pose proof (F2_kD _ _ _ F) as FD.
  pose proof (F2_kpd _ _ _ F) as FP.
  destruct (kids_of sl) as [|x r]; destruct (kids_of sl') as [|x' r']; try (inversion F; fail).
  - repeat split; reflexivity.
  - repeat split.
    + exact FL.
    + apply concat_deq, FD.
    + apply dists_equiv_app; [apply cross_all_deq, FD | exact FP].
Qed.

Lemma concat_perm {A} (L L' : list (list A)) : Permutation L L' -> Permutation (concat L) (concat L').
Proof.
  intros P. rewrite <- (map_id L), <- (map_id L'), <- !flat_map_concat_map.
  now apply Permutation_flat_map.
Qed.

(** children permuted *)
Lemma node_equiv_perm w n c sl c' sl' :
  Permutation (kids_of sl) (kids_of sl') ->
  sub_equiv w (UNode n c sl) (UNode n c' sl').
Proof.
  intros P. unfold sub_equiv. rewrite !leaves_unfold, !depths_unfold, !pairdists_unfold.
  assert (PL : Permutation (kleaves (kids_of sl')) (kleaves (kids_of sl))).
  { unfold kleaves. symmetry. now apply Permutation_flat_map. }
  assert (PD : Permutation (kD w (kids_of sl')) (kD w (kids_of sl))).
  { unfold kD. symmetry. now apply Permutation_map. }
  assert (PP : Permutation (kpd w (kids_of sl')) (kpd w (kids_of sl))).
  { unfold kpd. symmetry. now apply Permutation_flat_map. }
  destruct (kids_of sl) as [|x r] eqn:E1; destruct (kids_of sl') as [|x' r'] eqn:E2.
  - repeat split; reflexivity.
  - apply Permutation_nil in P. discriminate.
  - symmetry in P. apply Permutation_nil in P. discriminate.
  - repeat split.
    + exact PL.
    + apply PermR_of_perm; [exact pq_eq_Equivalence|].
      now apply concat_perm.
    + apply dists_equiv_perm. apply Permutation_app; auto. now apply cross_all_perm.
Qed.

(** * slot surgery *)
Lemma kids_of_set_nth_some sl k x y :
  nth_error sl k = Some (Some x) ->
  exists A B, kids_of sl = A ++ x :: B /\ kids_of (set_nth k (Some y) sl) = A ++ y :: B /\
              n_up (set_nth k (Some y) sl) = n_up sl.
Proof.
  revert k; induction sl as [|s r IH]; intros [|k]; simpl; intros H; try discriminate.
  - inversion H; subst. exists [], (kids_of r). repeat split.
  - destruct (IH _ H) as [A [B [E1 [E2 E3]]]]. unfold set_nth in *. simpl.
    destruct s as [p|]; simpl.
    + exists (p :: A), B. simpl. rewrite E1, E2. repeat split. rewrite !n_up_cons. now rewrite E3.
    + exists A, B. repeat split; auto. rewrite !n_up_cons. now rewrite E3.
Qed.

Lemma remove_nth_S {A} k (a : A) l : remove_nth (S k) (a :: l) = a :: remove_nth k l.
Proof. reflexivity. Qed.
Lemma remove_nth_0 {A} (a : A) l : remove_nth 0 (a :: l) = l.
Proof. reflexivity. Qed.
Lemma kids_of_cons s r : kids_of (s :: r) = match s with Some p => p :: kids_of r | None => kids_of r end.
Proof. destruct s; reflexivity. Qed.

Lemma kids_of_remove_nth sl k x :
  nth_error sl k = Some (Some x) ->
  exists A B, kids_of sl = A ++ x :: B /\ kids_of (remove_nth k sl) = A ++ B /\
              n_up (remove_nth k sl) = n_up sl /\ S (length (remove_nth k sl)) = length sl.
Proof.
  revert k; induction sl as [|s r IH]; intros [|k]; intros H; try discriminate.
  - simpl in H. inversion H; subst. rewrite remove_nth_0. exists [], (kids_of r). repeat split.
  - simpl in H. destruct (IH _ H) as [A [B [E1 [E2 [E3 E4]]]]].
    rewrite remove_nth_S, !kids_of_cons, !n_up_cons, E3. simpl length. rewrite E4.
    destruct s as [p|].
    + exists (p :: A), B. rewrite E1, E2. repeat split.
    + exists A, B. repeat split; auto.
Qed.

Lemma kids_of_map_Some K : kids_of (map Some K) = K.
Proof. induction K; simpl; auto. now rewrite IHK. Qed.

Lemma forallb_mid {A} (f : A -> bool) a x y b :
  forallb f (a ++ x :: b) = true -> f y = true -> forallb f (a ++ y :: b) = true.
Proof.
  rewrite !forallb_app. simpl. intros H Hy. apply andb_true_iff in H as [H1 H2].
  apply andb_true_iff in H2 as [_ H2]. now rewrite H1, Hy, H2.
Qed.

(** * [update_at]: replacing the subtree at a path by an equivalent one *)
Lemma update_at_spec w p : forall t s f s',
  node_at t p = Some s -> f s = Some s' -> sub_equiv w s s' ->
  (wf_sub s = true -> wf_sub s' = true) -> (wf s = true -> wf s' = true) ->
  degree s' = degree s ->
  exists t', update_at p f t = Some t' /\ sub_equiv w t t' /\ node_at t' p = Some s' /\
             (wf_sub t = true -> wf_sub t' = true) /\ (wf t = true -> wf t' = true) /\
             degree t' = degree t.
Proof.
  induction p as [|k r IH]; intros t s f s' Hn Hf He Hws Hw Hd.
  - simpl in *. inversion Hn; subst. exists s'.
    split; [exact Hf|]. split; [exact He|]. split; [reflexivity|]. auto.
  - destruct t as [n c sl]. simpl in Hn.
    destruct (nth_error sl k) as [[[e ch]|]|] eqn:Ek; try discriminate.
    destruct (IH ch s f s' Hn Hf He Hws Hw Hd) as [ch' [U [E [N [W1 [_ D]]]]]].
    exists (UNode n c (set_nth k (Some (e, ch')) sl)).
    destruct (kids_of_set_nth_some sl k (e, ch) (e, ch') Ek) as [A [B [K1 [K2 K3]]]].
    assert (Hk : k < length sl) by (apply nth_error_Some; congruence).
    split; [|split; [|split; [|split; [|split]]]].
    + simpl. now rewrite Ek, U.
    + apply node_equiv_F2. rewrite K1, K2.
      apply Forall2_refl_mid; [apply kid_equiv_refl | now apply kid_equiv_of_sub].
    + simpl. now rewrite nth_error_set_nth_same.
    + rewrite !wf_sub_unfold, K1, K2, K3. intros H. apply andb_true_iff in H as [H1 H2].
      rewrite H1. simpl. eapply forallb_mid; eauto. simpl. apply W1.
      rewrite forallb_app in H2. apply andb_true_iff in H2 as [_ H2]. simpl in H2.
      now apply andb_true_iff in H2 as [H2 _].
    + rewrite !wf_unfold, K1, K2, K3. intros H. apply andb_true_iff in H as [H1 H2].
      rewrite H1. simpl. eapply forallb_mid; eauto. simpl. apply W1.
      rewrite forallb_app in H2. apply andb_true_iff in H2 as [_ H2]. simpl in H2.
      now apply andb_true_iff in H2 as [H2 _].
    + unfold degree. simpl. apply length_set_nth.
Qed.

(** * [cut_slot]: a node in the middle of the branch in slot k *)
Lemma shift_shift q1 q2 q l : (q1 + q2 == q)%Q -> deq (shift q1 (shift q2 l)) (shift q l).
Proof.
  intros H. unfold deq, shift. rewrite map_map. apply PermR_of_Forall2.
  apply Forall2_map_same. intros x _. split; simpl; auto. rewrite <- H. ring.
Qed.

Definition cut_child (ch : utree) : utree :=
  match ch with UNode nc cc slc => UNode nc cc (drop_up slc ++ [None]) end.
Definition cut_node (cf : bool) (eC : einfo) (ch : utree) : utree :=
  UNode "" [] (if cf then [Some (eC, cut_child ch); None] else [None; Some (eC, cut_child ch)]).

Lemma cut_child_obs w ch :
  leaves (cut_child ch) = leaves ch /\ depths w (cut_child ch) = depths w ch /\
  pairdists w (cut_child ch) = pairdists w ch.
Proof.
  destruct ch as [nc cc slc]. simpl cut_child.
  assert (K : kids_of (drop_up slc ++ [None]) = kids_of slc).
  { rewrite kids_of_app, kids_of_drop_up. simpl. apply app_nil_r. }
  repeat split.
  - now apply leaves_kids.
  - now apply depths_kids.
  - now apply pairdists_kids.
Qed.

Lemma cut_child_wf ch : wf_sub ch = true -> wf_sub (cut_child ch) = true.
Proof.
  destruct ch as [nc cc slc]. simpl cut_child. rewrite !wf_sub_unfold.
  rewrite kids_of_app, kids_of_drop_up, n_up_app, n_up_drop_up. simpl kids_of. rewrite app_nil_r.
  intros H. apply andb_true_iff in H as [H1 H2]. apply Nat.eqb_eq in H1. rewrite H1, H2.
  reflexivity.
Qed.

Lemma cut_node_kids cf eC ch :
  kids (cut_node cf eC ch) = [(eC, cut_child ch)] /\ degree (cut_node cf eC ch) = 2 /\
  n_up (uslots (cut_node cf eC ch)) = 1.
Proof. destruct cf; repeat split. Qed.

Lemma cut_node_obs w cf eC ch :
  leaves (cut_node cf eC ch) = leaves ch /\
  depths w (cut_node cf eC ch) = shift (w eC) (depths w ch) /\
  pairdists w (cut_node cf eC ch) = pairdists w ch.
Proof.
  destruct (cut_child_obs w ch) as [L [D P]].
  unfold cut_node. rewrite leaves_unfold, depths_unfold, pairdists_unfold.
  assert (K : kids_of (if cf then [Some (eC, cut_child ch); None] else [None; Some (eC, cut_child ch)])
              = [(eC, cut_child ch)]) by (destruct cf; reflexivity).
  rewrite K. unfold kleaves, kD, kpd. simpl. rewrite !app_nil_r, L, D, P. repeat split.
Qed.

Lemma cut_node_wf cf eC ch : wf_sub ch = true -> wf_sub (cut_node cf eC ch) = true.
Proof.
  intros H. pose proof (cut_child_wf _ H) as H'. unfold cut_node.
  destruct cf; simpl; rewrite H'; reflexivity.
Qed.

Lemma n_up_one_some (x : einfo * utree) : n_up [Some x] = 0.
Proof. reflexivity. Qed.

Lemma forallb_move_end {A} (f g : A -> bool) a x b y :
  forallb f (a ++ x :: b) = true -> (f x = true -> f y = true) -> forallb f (a ++ b ++ [y]) = true.
Proof.
  rewrite !forallb_app. simpl. intros H Hy. apply andb_true_iff in H as [H1 H2].
  apply andb_true_iff in H2 as [H2 H3]. now rewrite H1, H3, (Hy H2).
Qed.

Lemma cut_slot_spec w k cf eP eC P e ch :
  nth_error (uslots P) k = Some (Some (e, ch)) -> (w eP + w eC == w e)%Q ->
  exists P', cut_slot k cf eP eC P = Some P' /\ sub_equiv w P P' /\ degree P' = degree P /\
             (wf_sub P = true -> wf_sub P' = true) /\ (wf P = true -> wf P' = true) /\
             uname P' = uname P /\
             uslots P' = remove_nth k (uslots P) ++ [Some (eP, cut_node cf eC ch)] /\
             nth_error (uslots P') (degree P - 1) = Some (Some (eP, cut_node cf eC ch)).
Proof.
  destruct P as [n c sl]. simpl uslots. intros Ek Hw.
  set (ch0 := ch). destruct ch as [nc cc slc]. fold ch0 in Ek.
  exists (UNode n c (remove_nth k sl ++ [Some (eP, cut_node cf eC ch0)])).
  destruct (kids_of_remove_nth sl k (e, ch0)) as [A [B [K1 [K2 [K3 K4]]]]]; [assumption|].
  assert (KK : kids_of (remove_nth k sl ++ [Some (eP, cut_node cf eC ch0)]) = A ++ B ++ [(eP, cut_node cf eC ch0)]).
  { rewrite kids_of_app, K2. simpl. now rewrite <- app_assoc. }
  destruct (cut_node_obs w cf eC ch0) as [XL [XD XP]].
  destruct (cut_node_kids cf eC ch0) as [XK [Xdeg Xup]].
  split; [|split; [|split; [|split; [|split; [|split; [|split]]]]]].
  - simpl. rewrite Ek. reflexivity.
  - apply sub_equiv_trans with (b := UNode n c (map Some (A ++ (eP, cut_node cf eC ch0) :: B))).
    + apply node_equiv_F2. rewrite kids_of_map_Some, K1.
      apply Forall2_refl_mid; [apply kid_equiv_refl|].
      unfold kid_equiv. cbn [fst snd]. split; [|split].
      * now rewrite XL.
      * rewrite XD. now apply shift_shift.
      * now rewrite XP.
    + apply node_equiv_perm. rewrite kids_of_map_Some, KK. perm.
  - unfold degree. simpl. rewrite app_length. simpl. lia.
  - rewrite !wf_sub_unfold, KK, K1, n_up_app, K3. intros H. apply andb_true_iff in H as [H1 H2].
    rewrite (n_up_one_some (eP, cut_node cf eC ch0)), Nat.add_0_r, H1. cbn [andb].
    eapply forallb_move_end; eauto. cbn [snd]. apply cut_node_wf.
  - rewrite !wf_unfold, KK, K1, n_up_app, K3. intros H. apply andb_true_iff in H as [H1 H2].
    rewrite (n_up_one_some (eP, cut_node cf eC ch0)), Nat.add_0_r, H1. cbn [andb].
    eapply forallb_move_end; eauto. cbn [snd]. apply cut_node_wf.
  - reflexivity.
  - reflexivity.
  - unfold degree. simpl. rewrite nth_error_app2 by lia.
    replace (length sl - 1 - length (remove_nth k sl)) with 0 by lia. reflexivity.
Qed.
