(** Tree.RemoveEdges on a list of branches, on labelled trees: the one-pass function of
    Model/Collapse.v ([proc], selection by index in Edges()) written with a selection by branch
    id ([lproc]); adding to the selection a branch that comes after every selected branch in
    Edges() order amounts to one more single contraction ([lstep]) on the result.  Hence the
    one-pass function is the succession of the single contractions, in Edges() order. *)
From Coq Require Import String ZArith QArith Bool Arith Lia Permutation List.
From GT Require Import Base.UTree Model.Reroot Model.Prune Model.Collapse Model.NNI Model.Heap Model.HeapSpec Proofs.Enum Proofs.HeapBase Proofs.HeapRep
     Proofs.HeapGood Proofs.HeapRerootL Proofs.HeapReorder Proofs.HeapUnrootL Proofs.HeapCtx Proofs.HeapCollapseTree Proofs.HeapPaths Proofs.HeapCollapseSq.
Import ListNotations.
Local Close Scope Q_scope.

Definition lname (t : ltree) : string := match t with LNode _ n _ _ => n end.
Definition lcom (t : ltree) : list string := match t with LNode _ _ c _ => c end.

Section LProc.
  Variables (rr rt : bool) (sel : nat -> bool).

  Definition lproc_go (f : ltree -> bool -> nat -> list lslot * list lslot) (top : bool) : list lslot -> nat -> list lslot * list lslot :=
    fix go (l : list lslot) (m : nat) {struct l} : list lslot * list lslot :=
      match l with
      | [] => ([], [])
      | None :: r => if top then (None :: fst (go r (S m)), snd (go r (S m))) else go r m
      | Some (x, xi, c) :: r =>
        let cnt_r := if top then length r else length (lsome_slots r) in
        let keep (xi' : einfo) :=
            (Some (x, xi', LNode (lid c) (lname c) (lcom c) (fst (f c true 0) ++ snd (f c true 0))) :: fst (go r (S m)), snd (go r (S m))) in
        if sel x then
          if Nat.eqb (length (lslots c)) 1 then keep (if rt then set_len0 xi else xi)
          else if negb rr && (Nat.eqb (length (lslots c)) 2 || Nat.eqb (m + 1 + cnt_r) 2) then keep xi
          else
            let pc := f c false (m + cnt_r) in
            let pr := go r (m + length (fst pc) + length (snd pc)) in
            (fst pr, (fst pc ++ snd pc ++ snd pr)%list)
        else keep xi
      end.

  Fixpoint lproc (t : ltree) (top : bool) (m : nat) {struct t} : list lslot * list lslot :=
    match t with
    | LNode _ _ _ sl => lproc_go (fun c top m => lproc c top m) top sl m
    end.

  Lemma lproc_eq i n c sl top m : lproc (LNode i n c sl) top m = lproc_go lproc top sl m.
  Proof. reflexivity. Qed.

  Definition lremove (t : ltree) : ltree :=
    LNode (lid t) (lname t) (lcom t) (fst (lproc t true 0) ++ snd (lproc t true 0)).
End LProc.

(** * link with the index-based model *)
Lemma kids_of_erase_length r : length (kids_of (map erase_slot r)) = length (lsome_slots r).
Proof. induction r as [|[[[e ei] c]|] r IH]; cbn; [reflexivity| |exact IH]. f_equal. exact IH. Qed.

Lemma span_erase c : lwf_sub c -> span (erase c) = length (leids c).
Proof.
  intros W. rewrite (span_espan (erase c) W). destruct c as [i n cm sl]. rewrite erase_eq. cbn [uslots].
  apply (espan_leids (LNode i n cm sl)). intros e ei ch H. exact (lwf_sub_kids_of i n cm sl W e ei ch H).
Qed.

Lemma ledges_eq i n c sl : ledges (LNode i n c sl) = sledges sl.
Proof. reflexivity. Qed.

Lemma ledges_ids : forall t, map (fun p => fst (fst p)) (ledges t) = leids t.
Proof.
  induction t as [i n cm sl IH] using ltree_ind'. rewrite ledges_eq, leids_eq. fold (seids sl).
  induction sl as [|s sl IHsl]; [reflexivity|]. apply Forall_cons_iff in IH. destruct IH as [Hc IH].
  destruct s as [[[x xi] c]|]; cbn [sledges seids flat_map]; fold (sledges sl) (seids sl); [|exact (IHsl IH)].
  rewrite map_app, map_cons, Hc, (IHsl IH). reflexivity.
Qed.
Lemma ledges_length t : length (ledges t) = length (leids t).
Proof. rewrite <- ledges_ids, map_length. reflexivity. Qed.

Lemma erase_lproc_gen rr rt sel selidx : forall t, (forall e ei ch, In (Some (e, ei, ch)) (lslots t) -> lwf_sub ch) ->
  forall top k m, (forall j x xi ch, nth_error (ledges t) j = Some (x, xi, ch) -> selidx (k + j) xi (erase ch) = sel x) ->
  proc rr rt selidx (erase t) top k m =
  (map erase_slot (fst (lproc rr rt sel t top m)), map erase_slot (snd (lproc rr rt sel t top m))).
Proof.
  induction t as [i n cm sl IH] using ltree_ind'. intros W top k m Hs. rewrite erase_eq, proc_eq, lproc_eq. cbn [lslots] in W.
  rewrite ledges_eq in Hs.
  revert k m Hs. induction sl as [|s sl IHsl]; intros k m Hs; [reflexivity|].
  apply Forall_cons_iff in IH. destruct IH as [Hc IH].
  assert (W' : forall e ei ch, In (Some (e, ei, ch)) sl -> lwf_sub ch) by (intros; eapply W; right; eassumption).
  specialize (IHsl IH W').
  destruct s as [[[x xi] c]|]; cbn [map erase_slot proc_go lproc_go].
  - assert (Wc : lwf_sub c) by (eapply W; left; reflexivity).
    cbn [sledges flat_map app] in Hs. fold (sledges sl) in Hs.
    assert (Hx : selidx k xi (erase c) = sel x).
    { rewrite <- (Hs 0 x xi c eq_refl). f_equal. lia. }
    assert (Hcs : forall j y yi ch, nth_error (ledges c) j = Some (y, yi, ch) -> selidx (S k + j) yi (erase ch) = sel y).
    { intros j y yi ch Hj. transitivity (selidx (k + S j) yi (erase ch)); [f_equal; lia|]. apply Hs. cbn [nth_error]. rewrite nth_error_app1 by (apply nth_error_Some; congruence). exact Hj. }
    assert (Hrs : forall j y yi ch, nth_error (sledges sl) j = Some (y, yi, ch) -> selidx (k + 1 + span (erase c) + j) yi (erase ch) = sel y).
    { intros j y yi ch Hj. rewrite (span_erase c Wc), <- (ledges_length c). transitivity (selidx (k + S (length (ledges c) + j)) yi (erase ch)); [f_equal; lia|]. apply Hs.
      cbn [nth_error]. rewrite nth_error_app2 by lia. replace (length (ledges c) + j - length (ledges c)) with j by lia. exact Hj. }
    assert (Wck : forall e ei ch, In (Some (e, ei, ch)) (lslots c) -> lwf_sub ch).
    { destruct c as [ci cn cc csl]. intros e ei ch H. exact (lwf_sub_kids_of ci cn cc csl Wc e ei ch H). }
    rewrite Hx. rewrite (Hc Wck true (S k) 0 Hcs).
    assert (Etip : is_tip (erase c) = Nat.eqb (length (lslots c)) 1).
    { destruct c as [ci cn cc csl]. rewrite erase_eq. unfold is_tip, degree. cbn [uslots lslots]. rewrite map_length. reflexivity. }
    assert (Edeg : degree (erase c) = length (lslots c)).
    { destruct c as [ci cn cc csl]. rewrite erase_eq. unfold degree. cbn [uslots lslots]. apply map_length. }
    assert (Enm : uname (erase c) = lname c /\ ucom (erase c) = lcom c) by (destruct c; split; reflexivity).
    destruct Enm as [En Ec].
    rewrite Etip, Edeg, map_length, kids_of_erase_length, En, Ec.
    assert (Keep : forall xi' mm, 
      (let '(b, a) := proc_go rr rt selidx top (map erase_slot sl) (k + 1 + span (erase c)) mm in
       (Some (xi', UNode (lname c) (lcom c) (map erase_slot (fst (lproc rr rt sel c true 0)) ++ map erase_slot (snd (lproc rr rt sel c true 0)))) :: b, a)) =
      (map erase_slot (Some (x, xi', LNode (lid c) (lname c) (lcom c) (fst (lproc rr rt sel c true 0) ++ snd (lproc rr rt sel c true 0))) :: fst (lproc_go rr rt sel (lproc rr rt sel) top sl mm)),
       map erase_slot (snd (lproc_go rr rt sel (lproc rr rt sel) top sl mm)))).
    { intros xi' mm. rewrite (IHsl _ mm Hrs). cbn [map erase_slot]. rewrite erase_eq, map_app. reflexivity. }
    destruct (sel x).
    + destruct (Nat.eqb (length (lslots c)) 1); [apply Keep|].
      destruct (negb rr && (Nat.eqb (length (lslots c)) 2 || Nat.eqb (m + 1 + (if top then length sl else length (lsome_slots sl))) 2)).
      * destruct top; apply Keep.
      * rewrite (Hc Wck false (S k) _ Hcs). rewrite !map_length. rewrite (IHsl _ _ Hrs). cbn [fst snd]. rewrite !map_app. destruct top; reflexivity.
    + apply Keep.
  - cbn [sledges flat_map app] in Hs. destruct top.
    + rewrite (IHsl k (S m) Hs). reflexivity.
    + exact (IHsl k m Hs).
Qed.


Lemma erase_lproc rr rt sel selidx : forall t, (forall e ei ch, In (Some (e, ei, ch)) (lslots t) -> lwf_sub ch) ->
  forall top k m, (forall j x, nth_error (leids t) j = Some x -> forall e c, selidx (k + j) e c = sel x) ->
  proc rr rt selidx (erase t) top k m =
  (map erase_slot (fst (lproc rr rt sel t top m)), map erase_slot (snd (lproc rr rt sel t top m))).
Proof.
  intros t W top k m Hs. apply erase_lproc_gen; [exact W|]. intros j x xi ch Hj. apply Hs.
  rewrite <- ledges_ids, nth_error_map, Hj. reflexivity.
Qed.

(** * the selection only matters on the branches of the tree *)
Lemma lproc_ext rr rt sel1 sel2 : forall t, (forall x, In x (leids t) -> sel1 x = sel2 x) ->
  forall top m, lproc rr rt sel1 t top m = lproc rr rt sel2 t top m.
Proof.
  induction t as [i n cm sl IH] using ltree_ind'. intros Hs top m. rewrite !lproc_eq. rewrite leids_eq in Hs. fold (seids sl) in Hs.
  revert m. induction sl as [|s sl IHsl]; intros m; [reflexivity|].
  apply Forall_cons_iff in IH. destruct IH as [Hc IH].
  destruct s as [[[x xi] c]|]; cbn [lproc_go].
  - cbn [seids flat_map app] in Hs. fold (seids sl) in Hs.
    assert (Hr : forall y, In y (seids sl) -> sel1 y = sel2 y) by (intros y Hy; apply Hs; right; apply in_or_app; right; exact Hy).
    assert (Hcc : forall y, In y (leids c) -> sel1 y = sel2 y) by (intros y Hy; apply Hs; right; apply in_or_app; left; exact Hy).
    specialize (IHsl IH Hr). rewrite (Hs x (or_introl eq_refl)). rewrite !(Hc Hcc). rewrite !IHsl. reflexivity.
  - cbn [seids flat_map app] in Hs. specialize (IHsl IH Hs). rewrite !IHsl. reflexivity.
Qed.

Lemma lproc_none rr rt sel : forall t, (forall x, In x (leids t) -> sel x = false) ->
  forall m, lproc rr rt sel t true m = (lslots t, []) /\ lproc rr rt sel t false m = (lsome_slots (lslots t), []).
Proof.
  induction t as [i n cm sl IH] using ltree_ind'. intros Hs m. rewrite !lproc_eq. cbn [lslots]. rewrite leids_eq in Hs. fold (seids sl) in Hs.
  revert m. induction sl as [|s sl IHsl]; intros m; [split; reflexivity|].
  apply Forall_cons_iff in IH. destruct IH as [Hc IH].
  destruct s as [[[x xi] c]|]; cbn [lproc_go lsome_slots filter]; fold (lsome_slots sl).
  - cbn [seids flat_map app] in Hs. fold (seids sl) in Hs.
    assert (Hr : forall y, In y (seids sl) -> sel y = false) by (intros y Hy; apply Hs; right; apply in_or_app; right; exact Hy).
    assert (Hcc : forall y, In y (leids c) -> sel y = false) by (intros y Hy; apply Hs; right; apply in_or_app; left; exact Hy).
    specialize (IHsl IH Hr). rewrite (Hs x (or_introl eq_refl)). destruct (Hc Hcc 0) as [P1 _]. rewrite P1.
    destruct (IHsl (S m)) as [Q1 Q2]. rewrite Q1, Q2. cbn [fst snd]. rewrite app_nil_r.
    destruct c as [ci cn cc csl]. cbn [lid lname lcom lslots]. split; reflexivity.
  - cbn [seids flat_map app] in Hs. specialize (IHsl IH Hs). destruct (IHsl (S m)) as [Q1 _]. destruct (IHsl m) as [_ Q2].
    rewrite Q1, Q2. split; reflexivity.
Qed.

Lemma seids_lsome_slots sl x : In x (seids (lsome_slots sl)) -> In x (seids sl).
Proof.
  induction sl as [|[[[e ei] ch]|] sl IH]; cbn [lsome_slots filter seids flat_map]; intros H; [exact H| |exact (IH H)].
  destruct H as [<-|H]; [left; reflexivity|]. right. apply in_app_or in H. apply in_or_app. destruct H as [H|H]; [left; exact H|right; exact (IH H)].
Qed.

(** the branches of the result are branches of the tree *)
Lemma lproc_eids rr rt sel : forall t top m x,
  In x (seids (fst (lproc rr rt sel t top m)) ++ seids (snd (lproc rr rt sel t top m))) -> In x (leids t).
Proof.
  induction t as [i n cm sl IH] using ltree_ind'. intros top m x. rewrite lproc_eq, leids_eq. fold (seids sl).
  revert m. induction sl as [|s sl IHsl]; intros m H; [exact H|].
  apply Forall_cons_iff in IH. destruct IH as [Hc IH]. specialize (IHsl IH).
  destruct s as [[[y yi] c]|]; cbn [lproc_go] in H; cbn [seids flat_map]; fold (seids sl).
  - assert (Keep : forall yi' mm, In x (seids (Some (y, yi', LNode (lid c) (lname c) (lcom c) (fst (lproc rr rt sel c true 0) ++ snd (lproc rr rt sel c true 0))) :: fst (lproc_go rr rt sel (lproc rr rt sel) top sl mm)) ++ seids (snd (lproc_go rr rt sel (lproc rr rt sel) top sl mm))) ->
                   In x (y :: leids c ++ seids sl)).
    { intros yi' mm H0. cbn [seids flat_map app] in H0. destruct H0 as [<-|H0]; [left; reflexivity|]. right.
      rewrite leids_eq in H0. fold (seids (fst (lproc rr rt sel c true 0) ++ snd (lproc rr rt sel c true 0))) in H0. rewrite seids_app in H0.
      rewrite <- !app_assoc in H0. rewrite !in_app_iff in H0. apply in_or_app.
      destruct H0 as [H0|[H0|H0]]; [left; apply (Hc true 0 x); apply in_or_app; left; exact H0|left; apply (Hc true 0 x); apply in_or_app; right; exact H0|].
      right. apply (IHsl mm). rewrite in_app_iff. exact H0. }
    destruct (sel y); [|exact (Keep _ _ H)].
    destruct (Nat.eqb (length (lslots c)) 1); [exact (Keep _ _ H)|].
    destruct (negb rr && _); [exact (Keep _ _ H)|].
    cbn [fst snd] in H. rewrite !seids_app, !in_app_iff in H. right. apply in_or_app.
    destruct H as [H|[H|[H|H]]].
    + right. eapply IHsl. apply in_or_app. left. exact H.
    + left. eapply Hc. apply in_or_app. left. exact H.
    + left. eapply Hc. apply in_or_app. right. exact H.
    + right. eapply IHsl. apply in_or_app. right. exact H.
  - destruct top; [cbn [fst snd seids flat_map app] in H|]; eapply IHsl; exact H.
Qed.

(** * the single contraction, found by the id of the branch *)
Section LStep.
  Variables (rr rt : bool) (e : nat).

  Definition astep_go (f : ltree -> ltree) (N : nat) : list lslot -> list lslot :=
    fix go (l : list lslot) : list lslot :=
      match l with
      | [] => []
      | None :: r => None :: go r
      | Some (x, xi, c) :: r =>
        if Nat.eqb x e then
          if Nat.eqb (length (lslots c)) 1 then Some (x, (if rt then set_len0 xi else xi), c) :: r
          else if negb rr && (Nat.eqb (length (lslots c)) 2 || Nat.eqb N 2) then Some (x, xi, c) :: r
          else (r ++ lsome_slots (lslots c))%list
        else Some (x, xi, f c) :: go r
      end.

  Fixpoint lstep (t : ltree) : ltree :=
    match t with
    | LNode i n c arr => LNode i n c (astep_go (fun ch => lstep ch) (length arr) arr)
    end.

  Lemma lstep_eq i n c arr : lstep (LNode i n c arr) = LNode i n c (astep_go lstep (length arr) arr).
  Proof. reflexivity. Qed.

  Lemma lstep_notin : forall t, ~ In e (leids t) -> lstep t = t.
  Proof.
    induction t as [i n cm sl IH] using ltree_ind'. intros H. rewrite lstep_eq. f_equal. rewrite leids_eq in H. fold (seids sl) in H.
    generalize (length sl). intros N. induction sl as [|s sl IHsl]; [reflexivity|].
    apply Forall_cons_iff in IH. destruct IH as [Hc IH].
    destruct s as [[[x xi] c]|]; cbn [astep_go]; cbn [seids flat_map] in H; fold (seids sl) in H.
    - destruct (Nat.eqb_spec x e) as [->|_]; [exfalso; apply H; left; reflexivity|].
      rewrite Hc by (intros Hy; apply H; right; apply in_or_app; left; exact Hy).
      rewrite IHsl; [reflexivity|exact IH|]. intros Hy. apply H. right. apply in_or_app. right. exact Hy.
    - rewrite IHsl; [reflexivity|exact IH|exact H].
  Qed.

  Lemma astep_notin N : forall l, ~ In e (seids l) -> astep_go lstep N l = l.
  Proof.
    induction l as [|s l IH]; intros H; [reflexivity|]. destruct s as [[[x xi] c]|]; cbn [astep_go]; cbn [seids flat_map] in H; fold (seids l) in H.
    - destruct (Nat.eqb_spec x e) as [->|_]; [exfalso; apply H; left; reflexivity|].
      rewrite lstep_notin by (intros Hy; apply H; right; apply in_or_app; left; exact Hy).
      rewrite IH; [reflexivity|]. intros Hy. apply H. right. apply in_or_app. right. exact Hy.
    - rewrite IH; [reflexivity|exact H].
  Qed.

  (** a prefix without the branch is crossed *)
  Lemma astep_app N pre l : ~ In e (seids pre) -> astep_go lstep N (pre ++ l) = pre ++ astep_go lstep N l.
  Proof.
    induction pre as [|s pre IH]; intros H; [reflexivity|]. cbn [app]. destruct s as [[[x xi] c]|]; cbn [astep_go]; cbn [seids flat_map] in H; fold (seids pre) in H.
    - destruct (Nat.eqb_spec x e) as [->|_]; [exfalso; apply H; left; reflexivity|].
      rewrite lstep_notin by (intros Hy; apply H; right; apply in_or_app; left; exact Hy).
      rewrite IH; [reflexivity|]. intros Hy. apply H. right. apply in_or_app. right. exact Hy.
    - rewrite IH; [reflexivity|exact H].
  Qed.
End LStep.

(** * one more selected branch, after all the others *)
Section Last.
  Variables (rr rt : bool) (sel : nat -> bool) (e : nat).
  Definition sel_add (x : nat) : bool := sel x || Nat.eqb x e.
  Definition free (ids : list nat) : Prop := forall y, In y ids -> sel y = false.

  (** [e] is in the scope, and no selected branch comes after it in Edges() order *)
  Definition LastL (f : ltree -> Prop) : list lslot -> Prop :=
    fix L (l : list lslot) : Prop :=
      match l with
      | [] => False
      | None :: r => L r
      | Some (x, _, c) :: r =>
        (x = e /\ free (leids c) /\ free (seids r)) \/
        (x <> e /\ In e (leids c) /\ f c /\ free (seids r)) \/
        (x <> e /\ ~ In e (leids c) /\ L r)
      end.
  Fixpoint LastT (t : ltree) : Prop := match t with LNode _ _ _ sl => LastL (fun c => LastT c) sl end.

  Definition Rel (M : nat) (p p' : list lslot * list lslot) : Prop :=
    forall pre mid N, ~ In e (seids pre) -> ~ In e (seids mid) -> length pre + length mid = M ->
      N = M + length (fst p) + length (snd p) ->
      astep_go rr rt e (lstep rr rt e) N (pre ++ fst p ++ mid ++ snd p) = pre ++ fst p' ++ mid ++ snd p'.

  Lemma lgo_none s top r m : (forall y, In y (seids r) -> s y = false) ->
    lproc_go rr rt s (lproc rr rt s) top r m = (if top then r else lsome_slots r, []).
  Proof.
    intros H. rewrite <- (lproc_eq rr rt s 0 EmptyString [] r top m).
    destruct (lproc_none rr rt s (LNode 0 EmptyString [] r)) with (m := m) as [P1 P2].
    { intros x Hx. rewrite leids_eq in Hx. apply H. exact Hx. }
    destruct top; [exact P1|exact P2].
  Qed.

  Lemma sel_add_other x : x <> e -> sel_add x = sel x.
  Proof. intros H. unfold sel_add. rewrite (proj2 (Nat.eqb_neq x e) H). apply orb_false_r. Qed.

  Lemma lnode_eta c : LNode (lid c) (lname c) (lcom c) (lslots c) = c.
  Proof. destruct c; reflexivity. Qed.

  Hypothesis Hsel : sel e = false.

  Theorem last_edge : forall t, LastT t -> NoDup (leids t) ->
    forall top m, Rel m (lproc rr rt sel t top m) (lproc rr rt sel_add t top m).
  Proof.
    induction t as [i n cm sl IH] using ltree_ind'. intros HL Nd top m. rewrite !lproc_eq. cbn [LastT] in HL.
    change (fun c => LastT c) with LastT in HL. rewrite leids_eq in Nd. fold (seids sl) in Nd.
    revert m HL Nd. induction sl as [|s sl IHsl]; intros m HL Nd; [destruct HL|].
    apply Forall_cons_iff in IH. destruct IH as [Hc IH]. specialize (IHsl IH).
    destruct s as [[[x xi] c]|]; cbn [LastL] in HL.
    2:{ cbn [seids flat_map app] in Nd. specialize (IHsl (S m) HL Nd) as R1. pose proof (IHsl m HL Nd) as R0. cbn [lproc_go]. destruct top; [|exact R0].
        intros pre mid N Hpre Hmid HM HN. cbn [fst snd] in *.
        replace (pre ++ (None :: fst (lproc_go rr rt sel (lproc rr rt sel) true sl (S m))) ++ mid ++ snd (lproc_go rr rt sel (lproc rr rt sel) true sl (S m)))
          with ((pre ++ [None]) ++ fst (lproc_go rr rt sel (lproc rr rt sel) true sl (S m)) ++ mid ++ snd (lproc_go rr rt sel (lproc rr rt sel) true sl (S m))) by (rewrite <- app_assoc; reflexivity).
        rewrite (R1 (pre ++ [None]) mid N); [rewrite <- app_assoc; reflexivity| |exact Hmid| |].
        - rewrite seids_app. cbn [seids flat_map]. rewrite app_nil_r. exact Hpre.
        - rewrite app_length. cbn [length]. lia.
        - cbn [length] in HN. lia. }
    cbn [seids flat_map app] in Nd. fold (seids sl) in Nd. apply NoDup_cons_iff in Nd. destruct Nd as [Nx Nd].
    apply NoDup_app_iff in Nd. destruct Nd as (Ndc & Ndr & Ndis).
    set (cnt_r := if top then length sl else length (lsome_slots sl)).
    set (r' := if top then sl else lsome_slots sl).
    assert (Lr' : length r' = cnt_r) by (unfold r', cnt_r; destruct top; reflexivity).
    assert (Er' : forall y, In y (seids r') -> In y (seids sl)).
    { unfold r'. destruct top; [auto|]. intros y. apply seids_lsome_slots. }
    destruct HL as [(-> & Fc & Fr)|[(Nxe & Ince & LTc & Fr)|(Nxe & Nince & LLr)]].
    - (* the branch itself *)
      assert (Nec : ~ In e (leids c)) by (intros H; apply Nx; apply in_or_app; left; exact H).
      assert (Ner : ~ In e (seids sl)) by (intros H; apply Nx; apply in_or_app; right; exact H).
      assert (Fc' : forall y, In y (leids c) -> sel_add y = false) by (intros y Hy; rewrite sel_add_other by (intros ->; contradiction); apply Fc; exact Hy).
      assert (Fr' : forall y, In y (seids sl) -> sel_add y = false) by (intros y Hy; rewrite sel_add_other by (intros ->; contradiction); apply Fr; exact Hy).
      cbn [lproc_go]. rewrite Hsel. unfold sel_add at 1. rewrite Hsel, Nat.eqb_refl. cbn [orb].
      destruct (lproc_none rr rt sel c Fc 0) as [P1 _]. destruct (lproc_none rr rt sel_add c Fc' 0) as [P1' _].
      destruct (lproc_none rr rt sel_add c Fc' (m + cnt_r)) as [_ P2']. fold cnt_r.
      rewrite P1, P1', !(lgo_none sel top sl) by exact Fr. rewrite P2'. rewrite !(lgo_none sel_add top sl) by exact Fr'. fold r'.
      cbn [fst snd]. rewrite !app_nil_r, lnode_eta.
      intros pre mid N Hpre Hmid HM HN. cbn [fst snd length] in *. rewrite app_nil_r.
      rewrite astep_app by exact Hpre. cbn [app astep_go]. rewrite Nat.eqb_refl.
      assert (EN : Nat.eqb N 2 = Nat.eqb (m + 1 + cnt_r) 2) by (f_equal; lia). rewrite EN.
      destruct (Nat.eqb (length (lslots c)) 1); [cbn [fst snd]; rewrite app_nil_r; reflexivity|].
      destruct (negb rr && (Nat.eqb (length (lslots c)) 2 || Nat.eqb (m + 1 + cnt_r) 2)); cbn [fst snd]; rewrite ?app_nil_r; [reflexivity|].
      rewrite <- !app_assoc. reflexivity.
    - (* the branch is below this slot *)
      assert (Ner : ~ In e (seids sl)) by (intros H; exact (Ndis e Ince H)).
      assert (Fr' : forall y, In y (seids sl) -> sel_add y = false) by (intros y Hy; rewrite sel_add_other by (intros ->; contradiction); apply Fr; exact Hy).
      assert (Ner' : ~ In e (seids r')) by (intros H; apply Ner; apply Er'; exact H).
      cbn [lproc_go]. rewrite (sel_add_other x Nxe). fold cnt_r.
      rewrite !(lgo_none sel top sl) by exact Fr. rewrite !(lgo_none sel_add top sl) by exact Fr'. fold r'. cbn [fst snd].
      assert (Keep : forall xi', Rel m
         (Some (x, xi', LNode (lid c) (lname c) (lcom c) (fst (lproc rr rt sel c true 0) ++ snd (lproc rr rt sel c true 0))) :: r', [])
         (Some (x, xi', LNode (lid c) (lname c) (lcom c) (fst (lproc rr rt sel_add c true 0) ++ snd (lproc rr rt sel_add c true 0))) :: r', [])).
      { intros xi' pre mid N Hpre Hmid HM HN. cbn [fst snd] in *. rewrite !app_nil_r.
        rewrite astep_app by exact Hpre. cbn [app astep_go]. rewrite (proj2 (Nat.eqb_neq x e) Nxe).
        rewrite astep_notin by (rewrite seids_app; intros H; apply in_app_or in H; destruct H; contradiction).
        rewrite lstep_eq. pose proof (Hc LTc Ndc true 0 [] [] (length (fst (lproc rr rt sel c true 0) ++ snd (lproc rr rt sel c true 0)))) as Q.
        cbn [app seids flat_map length] in Q.
        rewrite Q; [reflexivity|intros []|intros []|reflexivity|rewrite app_length; reflexivity]. }
      destruct (sel x); [|apply Keep].
      destruct (Nat.eqb (length (lslots c)) 1); [apply Keep|].
      destruct (negb rr && (Nat.eqb (length (lslots c)) 2 || Nat.eqb (m + 1 + cnt_r) 2)); [apply Keep|].
      cbn [fst snd]. intros pre mid N Hpre Hmid HM HN. cbn [fst snd] in *. rewrite !app_nil_r in *.
      pose proof (Hc LTc Ndc false (m + cnt_r) (pre ++ r' ++ mid) [] N) as Q. cbn [seids flat_map] in Q. rewrite !app_nil_l in Q.
      rewrite <- ?app_assoc in Q. rewrite <- ?app_assoc. apply Q.
      + rewrite !seids_app. intros H. apply in_app_or in H. destruct H as [H|H]; [contradiction|]. apply in_app_or in H. destruct H; contradiction.
      + intros [].
      + rewrite !app_length. cbn [length]. lia.
      + rewrite !app_length in HN. lia.
    - (* the branch is in a later slot *)
      assert (Ext : forall top0 m0, lproc rr rt sel_add c top0 m0 = lproc rr rt sel c top0 m0).
      { intros top0 m0. apply lproc_ext. intros y Hy. apply sel_add_other. intros ->. contradiction. }
      cbn [lproc_go]. rewrite (sel_add_other x Nxe). fold cnt_r. rewrite !Ext.
      assert (Nec : forall top0 m0, ~ In e (seids (fst (lproc rr rt sel c top0 m0)) ++ seids (snd (lproc rr rt sel c top0 m0)))).
      { intros top0 m0 H. apply Nince. eapply lproc_eids. exact H. }
      assert (Keep : forall xi', Rel m
         (Some (x, xi', LNode (lid c) (lname c) (lcom c) (fst (lproc rr rt sel c true 0) ++ snd (lproc rr rt sel c true 0))) :: fst (lproc_go rr rt sel (lproc rr rt sel) top sl (S m)), snd (lproc_go rr rt sel (lproc rr rt sel) top sl (S m)))
         (Some (x, xi', LNode (lid c) (lname c) (lcom c) (fst (lproc rr rt sel c true 0) ++ snd (lproc rr rt sel c true 0))) :: fst (lproc_go rr rt sel_add (lproc rr rt sel_add) top sl (S m)), snd (lproc_go rr rt sel_add (lproc rr rt sel_add) top sl (S m)))).
      { intros xi' pre mid N Hpre Hmid HM HN. cbn [fst snd] in *.
        set (S0 := Some (x, xi', LNode (lid c) (lname c) (lcom c) (fst (lproc rr rt sel c true 0) ++ snd (lproc rr rt sel c true 0)))) in *.
        pose proof (IHsl (S m) LLr Ndr (pre ++ [S0]) mid N) as Q. rewrite <- ?app_assoc in Q. cbn [app] in Q. cbn [app]. apply Q.
        - rewrite seids_app. unfold S0. cbn [seids flat_map]. rewrite app_nil_r, leids_eq.
          fold (seids (fst (lproc rr rt sel c true 0) ++ snd (lproc rr rt sel c true 0))). rewrite seids_app.
          intros H. apply in_app_or in H. destruct H as [H|[H|H]]; [contradiction|congruence|exact (Nec true 0 H)].
        - exact Hmid.
        - rewrite app_length. cbn [length]. lia.
        - cbn [length] in HN. lia. }
      destruct (sel x); [|apply Keep].
      destruct (Nat.eqb (length (lslots c)) 1); [apply Keep|].
      destruct (negb rr && (Nat.eqb (length (lslots c)) 2 || Nat.eqb (m + 1 + cnt_r) 2)); [apply Keep|].
      cbn [fst snd]. set (pc := lproc rr rt sel c false (m + cnt_r)) in *.
      intros pre mid N Hpre Hmid HM HN. cbn [fst snd] in *.
      pose proof (IHsl (m + length (fst pc) + length (snd pc)) LLr Ndr pre (mid ++ fst pc ++ snd pc) N) as Q.
      rewrite <- ?app_assoc in Q. rewrite <- ?app_assoc. apply Q.
      + exact Hpre.
      + rewrite !seids_app. intros H. apply in_app_or in H. destruct H as [H|H]; [contradiction|]. exact (Nec false (m + cnt_r) H).
      + rewrite !app_length. lia.
      + rewrite !app_length in HN. lia.
  Qed.
End Last.

(** at the level of whole trees *)
Theorem lremove_last rr rt sel e t : LastT sel e t -> NoDup (leids t) -> sel e = false ->
  lremove rr rt (sel_add sel e) t = lstep rr rt e (lremove rr rt sel t).
Proof.
  intros HL Nd Hs. unfold lremove. rewrite lstep_eq. f_equal.
  pose proof (last_edge rr rt sel e Hs t HL Nd true 0 [] [] (length (fst (lproc rr rt sel t true 0) ++ snd (lproc rr rt sel t true 0)))) as Q.
  cbn [app seids flat_map length] in Q. symmetry. apply Q; [intros []|intros []|reflexivity|rewrite app_length; reflexivity].
Qed.

(** * the single contraction is the local rewriting of Proofs/HeapCollapseSq.v *)
Lemma astep_map rr rt e (f : ltree -> ltree) N : forall sl, (forall x xi c, In (Some (x, xi, c)) sl -> x <> e) ->
  astep_go rr rt e f N sl = map (lreplace_slot f) sl.
Proof.
  induction sl as [|s sl IH]; intros H; [reflexivity|]. destruct s as [[[x xi] c]|]; cbn [astep_go map lreplace_slot].
  - rewrite (proj2 (Nat.eqb_neq x e) (H x xi c (or_introl eq_refl))). f_equal. apply IH. intros; eapply H; right; eassumption.
  - f_equal. apply IH. intros; eapply H; right; eassumption.
Qed.

Lemma lstep_lreplace rr rt e l nm cm l1 ei ch l2 : forall lt prev p, NoDup (lids lt) -> NoDup (leids lt) ->
  In (p, LNode l nm cm (l1 ++ Some (e, ei, ch) :: l2)) (lsubs prev lt) ->
  lstep rr rt e lt = lreplace l (lcontract_new rr rt l nm cm l1 e ei ch l2) lt.
Proof.
  induction lt as [i n c sl IH] using ltree_ind'. intros prev p Nd Ned Hin.
  rewrite lsubs_eq in Hin. rewrite lreplace_eq, lstep_eq. destruct Hin as [E|Hin].
  - injection E as _ -> -> -> ->. rewrite Nat.eqb_refl. rewrite leids_eq in Ned. fold (seids (l1 ++ Some (e, ei, ch) :: l2)) in Ned.
    rewrite seids_app_cons in Ned. apply NoDup_app_iff in Ned. destruct Ned as (_ & _ & N3).
    rewrite astep_app by (intros H; apply (N3 e H); left; reflexivity).
    cbn [astep_go]. rewrite Nat.eqb_refl. unfold lcontract_new.
    destruct (Nat.eqb (length (lslots ch)) 1); [reflexivity|].
    destruct (negb rr && (Nat.eqb (length (lslots ch)) 2 || Nat.eqb (length (l1 ++ Some (e, ei, ch) :: l2)) 2)); [reflexivity|].
    rewrite <- app_assoc. reflexivity.
  - apply in_flat_map in Hin. destruct Hin as [s [Hs Hin]]. destruct s as [[[x xi] chx]|]; [|destruct Hin].
    pose proof (lsubs_in_lids _ _ _ _ Hin) as Hl. cbn [lid] in Hl.
    assert (He : In e (leids chx)).
    { eapply lsubs_sub_leids; [exact Hin|]. rewrite leids_eq. fold (seids (l1 ++ Some (e, ei, ch) :: l2)). rewrite seids_app_cons.
      apply in_or_app. right. left. reflexivity. }
    rewrite lids_eq in Nd. apply NoDup_cons_iff in Nd. destruct Nd as [Ni Nd]. fold (sids sl) in Ni, Nd.
    rewrite leids_eq in Ned. fold (seids sl) in Ned.
    destruct (Nat.eqb_spec i l) as [E|_]; [exfalso; apply Ni; rewrite E; eapply in_sids; eassumption|].
    f_equal. rewrite Forall_forall in IH.
    destruct (in_split _ _ Hs) as (s1 & s2 & ->).
    rewrite sids_app_cons in Nd. rewrite seids_app_cons in Ned.
    apply NoDup_app_iff in Nd. destruct Nd as (Nd1 & Nd2 & Nd3). apply NoDup_app_iff in Nd2. destruct Nd2 as (Ndc & Nd4 & Nd5).
    apply NoDup_app_iff in Ned. destruct Ned as (Ne1 & Ne2 & Ne3). apply NoDup_cons_iff in Ne2. destruct Ne2 as [Nx Ne2].
    apply NoDup_app_iff in Ne2. destruct Ne2 as (Nec & Ne4 & Ne5).
    assert (A1 : ~ In e (seids s1)) by (intros H; apply (Ne3 e H); right; apply in_or_app; left; exact He).
    assert (A2 : ~ In e (seids s2)) by (intros H; exact (Ne5 e He H)).
    assert (B1 : ~ In l (sids s1)) by (intros H; apply (Nd3 l H); apply in_or_app; left; exact Hl).
    assert (B2 : ~ In l (sids s2)) by (intros H; exact (Nd5 l Hl H)).
    rewrite astep_app by exact A1. cbn [astep_go].
    destruct (Nat.eqb_spec x e) as [->|_]; [exfalso; apply Nx; apply in_or_app; left; exact He|].
    rewrite astep_notin by exact A2. rewrite map_app. cbn [map lreplace_slot].
    rewrite (IH _ Hs (Some (i, x)) p Ndc Nec Hin).
    assert (M : forall ss, ~ In l (sids ss) -> map (lreplace_slot (lreplace l (lcontract_new rr rt l nm cm l1 e ei ch l2))) ss = ss).
    { induction ss as [|[[[y yi] cy]|] ss IHss]; intros H; [reflexivity| |]; cbn [map lreplace_slot]; cbn [sids flat_map] in H; fold (sids ss) in H.
      - rewrite lreplace_notin by (intros Hy; apply H; apply in_or_app; left; exact Hy). f_equal. apply IHss. intros Hy. apply H. apply in_or_app. right. exact Hy.
      - f_equal. apply IHss. exact H. }
    rewrite (M s1 B1), (M s2 B2). reflexivity.
Qed.

(** * the order condition, from the list of branches *)
Lemma app_eq_mid {A} (e : A) : forall X Y L1 L2, X ++ Y = L1 ++ e :: L2 ->
  (exists L2a, X = L1 ++ e :: L2a /\ L2 = L2a ++ Y) \/ (exists L1b, L1 = X ++ L1b /\ Y = L1b ++ e :: L2).
Proof.
  induction X as [|a X IH]; intros Y L1 L2 H.
  - right. exists L1. split; [reflexivity|exact H].
  - destruct L1 as [|b L1]; cbn [app] in H.
    + injection H as -> H. left. exists X. split; [reflexivity|symmetry; exact H].
    + injection H as -> H. destruct (IH Y L1 L2 H) as [(L2a & -> & ->)|(L1b & -> & ->)].
      * left. exists L2a. split; reflexivity.
      * right. exists L1b. split; reflexivity.
Qed.

Theorem LastT_intro sel e : forall t L1 L2, NoDup (leids t) -> leids t = L1 ++ e :: L2 -> free sel L2 -> LastT sel e t.
Proof.
  induction t as [i n cm sl IH] using ltree_ind'. intros L1 L2 Nd E F. cbn [LastT]. change (fun c => LastT sel e c) with (LastT sel e).
  rewrite leids_eq in Nd, E. fold (seids sl) in Nd, E.
  revert L1 Nd E. induction sl as [|s sl IHsl]; intros L1 Nd E; [destruct L1; discriminate|].
  apply Forall_cons_iff in IH. destruct IH as [Hc IH]. specialize (IHsl IH).
  destruct s as [[[x xi] c]|]; cbn [LastL]; cbn [seids flat_map app] in Nd, E; fold (seids sl) in Nd, E.
  2:{ exact (IHsl L1 Nd E). }
  apply NoDup_cons_iff in Nd. destruct Nd as [Nx Nd]. apply NoDup_app_iff in Nd. destruct Nd as (Ndc & Ndr & Ndis).
  destruct L1 as [|y L1]; cbn [app] in E.
  - injection E as -> E. left. split; [reflexivity|]. split; intros z Hz; apply F; rewrite <- E; apply in_or_app; [left|right]; exact Hz.
  - injection E as <- E. right. destruct (app_eq_mid e _ _ _ _ E) as [(L2a & Ec & ->)|(L1b & -> & Er)].
    + left. assert (Ine : In e (leids c)) by (rewrite Ec; apply in_or_app; right; left; reflexivity).
      split; [intros ->; apply Nx; apply in_or_app; left; exact Ine|]. split; [exact Ine|]. split.
      * apply (Hc L1 L2a Ndc Ec). intros z Hz. apply F. apply in_or_app. left. exact Hz.
      * intros z Hz. apply F. apply in_or_app. right. exact Hz.
    + right. assert (Ine : In e (seids sl)) by (rewrite Er; apply in_or_app; right; left; reflexivity).
      split; [intros ->; apply Nx; apply in_or_app; right; exact Ine|]. split; [intros H; exact (Ndis e H Ine)|].
      exact (IHsl L1b Ndr Er).
Qed.

(** selection by a list of branch ids *)
Definition selL (ids : list nat) (x : nat) : bool := existsb (Nat.eqb x) ids.

Lemma selL_In ids x : selL ids x = true <-> In x ids.
Proof.
  unfold selL. rewrite existsb_exists. split.
  - intros (y & Hy & E). apply Nat.eqb_eq in E. subst. exact Hy.
  - intros H. exists x. split; [exact H|apply Nat.eqb_refl].
Qed.

Lemma selL_snoc ids e x : selL (ids ++ [e]) x = sel_add (selL ids) e x.
Proof. unfold selL, sel_add. rewrite existsb_app. cbn [existsb]. rewrite orb_false_r. reflexivity. Qed.

Lemma filter_split {A} (f : A -> bool) e : forall L X Y, filter f L = X ++ e :: Y ->
  exists L1 L2, L = L1 ++ e :: L2 /\ filter f L1 = X /\ filter f L2 = Y.
Proof.
  induction L as [|a L IH]; intros X Y H; [destruct X; discriminate|]. cbn [filter] in H. destruct (f a) eqn:Fa.
  - destruct X as [|b X]; cbn [app] in H.
    + injection H as -> H. exists [], L. split; [reflexivity|]. split; [reflexivity|exact H].
    + injection H as -> H. destruct (IH X Y H) as (L1 & L2 & -> & F1 & F2). exists (b :: L1), L2. split; [reflexivity|]. split; [cbn [filter]; rewrite Fa, F1; reflexivity|exact F2].
  - destruct (IH X Y H) as (L1 & L2 & -> & F1 & F2). exists (a :: L1), L2. split; [reflexivity|]. split; [cbn [filter]; rewrite Fa; exact F1|exact F2].
Qed.

(** the one-pass function on the first selected branches, one more branch: one more contraction *)
Theorem lremove_snoc rr rt lt done e todo : NoDup (leids lt) -> filter (selL (done ++ e :: todo)) (leids lt) = done ++ e :: todo ->
  lremove rr rt (selL (done ++ [e])) lt = lstep rr rt e (lremove rr rt (selL done) lt).
Proof.
  intros Nd Hf.
  assert (Nes : NoDup (done ++ e :: todo)) by (rewrite <- Hf; apply NoDup_filter; exact Nd).
  destruct (filter_split _ e _ _ _ Hf) as (L1 & L2 & EL & F1 & F2).
  assert (Hse : selL done e = false).
  { destruct (selL done e) eqn:E; [|reflexivity]. apply selL_In in E. exfalso. apply NoDup_remove_2 in Nes. apply Nes. apply in_or_app. left. exact E. }
  assert (Fr : free (selL done) L2).
  { intros y Hy. destruct (selL done y) eqn:E; [|reflexivity]. apply selL_In in E. exfalso.
    assert (Hy2 : In y todo).
    { rewrite <- F2. apply filter_In. split; [exact Hy|]. apply selL_In. apply in_or_app. left. exact E. }
    apply NoDup_app_iff in Nes. destruct Nes as (_ & _ & N3). apply (N3 y E). right. exact Hy2. }
  rewrite <- (lremove_last rr rt (selL done) e lt (LastT_intro _ e lt L1 L2 Nd EL Fr) Nd Hse).
  unfold lremove. rewrite !(lproc_ext rr rt (selL (done ++ [e])) (sel_add (selL done) e)); [reflexivity|intros; apply selL_snoc].
Qed.

(** the one-pass function is the succession of the single contractions, in Edges() order *)
Theorem lremove_fold rr rt lt : NoDup (leids lt) -> forall todo done, filter (selL (done ++ todo)) (leids lt) = done ++ todo ->
  lremove rr rt (selL (done ++ todo)) lt = fold_left (fun t e => lstep rr rt e t) todo (lremove rr rt (selL done) lt).
Proof.
  intros Nd. induction todo as [|e todo IH]; intros done Hf; [rewrite app_nil_r; reflexivity|].
  cbn [fold_left]. rewrite <- (lremove_snoc rr rt lt done e todo Nd Hf).
  replace (done ++ e :: todo) with ((done ++ [e]) ++ todo) in * by (rewrite <- app_assoc; reflexivity). apply IH. exact Hf.
Qed.
