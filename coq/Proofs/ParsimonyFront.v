(** The front ends ParsimonyAcr / ParsimonyAsr: when they refuse, with which message; what the
    step list of the sequence variant looks like. *)
From Coq Require Import String Ascii ZArith QArith Bool Arith Lia List.
From GT Require Import Base.UTree Spec.Obs Model.Reroot Model.Parsimony Model.ParsimonyRand.
Import ListNotations.
Local Close Scope Q_scope.
Local Open Scope string_scope.

(** [find] returns the first element that satisfies the test *)
Lemma find_first : forall A (f : A -> bool) l x, find f l = Some x ->
  exists l1 l2, l = (l1 ++ x :: l2)%list /\ f x = true /\ forall y, In y l1 -> f y = false.
Proof.
  induction l as [|a l IH]; intros x H; simpl in H; [discriminate|].
  destruct (f a) eqn:E.
  - inversion H; subst. exists [], l. split; [reflexivity|]. split; [exact E | intros y []].
  - destruct (IH x H) as [l1 [l2 [El [Fx Hl]]]]. exists (a :: l1), l2. subst l.
    split; [reflexivity|]. split; [exact Fx|]. intros y [Q|Q]; [subst; exact E | apply Hl; exact Q].
Qed.

Definition has_state {A} (m : list (string * A)) (n : string) : bool :=
  match lookup n m with Some _ => true | None => false end.

(** [n] is the first tip, in the depth-first order of the up-pass, without an entry in [m] *)
Definition first_missing {A} (m : list (string * A)) (t : utree) (n : string) : Prop :=
  exists l1 l2, all_tip_names t = (l1 ++ n :: l2)%list /\ has_state m n = false /\
                forall y, In y l1 -> has_state m y = true.

Lemma find_missing_iff : forall A (m : list (string * A)) t n,
  find (fun n => match lookup n m with Some _ => false | None => true end) (all_tip_names t) = Some n ->
  first_missing m t n.
Proof.
  intros A m t n H. destruct (find_first _ _ _ _ H) as [l1 [l2 [El [Fx Hl]]]].
  exists l1, l2. split; [exact El|]. unfold has_state. split.
  - destruct (lookup n m); [discriminate | reflexivity].
  - intros y Hy. specialize (Hl y Hy). simpl in Hl. destruct (lookup y m); [reflexivity | discriminate].
Qed.

(** ** character variant *)
(** ParsimonyAcr refuses exactly when a tip has no state, naming the first such tip *)
Theorem acr_error_iff : forall t m a e,
  parsimony_acr t m a = Err e <->
  exists n, first_missing m t n /\ e = "Tip " ++ n ++ " does not exist in the tip/state mapping file".
Proof.
  intros t m a e. unfold parsimony_acr.
  destruct (find _ (all_tip_names t)) as [n|] eqn:F.
  - split.
    + intros H. inversion H. exists n. split; [apply find_missing_iff; exact F | reflexivity].
    + intros [n' [[l1 [l2 [El [Hn Hl]]]] Ee]].
      destruct (find_first _ _ _ _ F) as [k1 [k2 [Ek [Fx Hk]]]].
      (* both are the first missing tip *)
      assert (n = n').
      { clear -El Hn Hl Ek Fx Hk. rewrite El in Ek. clear El. revert k1 Ek Hk.
        induction l1 as [|a l1 IH]; intros [|b k1] Ek Hk; simpl in Ek.
        - inversion Ek; reflexivity.
        - inversion Ek; subst. specialize (Hk _ (or_introl eq_refl)). simpl in Hk. unfold has_state in Hn.
          match goal with H : context [lookup ?x m] |- _ => destruct (lookup x m) end; discriminate.
        - inversion Ek; subst. specialize (Hl _ (or_introl eq_refl)). unfold has_state in Hl. simpl in Fx.
          match goal with H : context [lookup ?x m] |- _ => destruct (lookup x m) end; discriminate.
        - inversion Ek; subst. apply (IH (fun y Hy => Hl y (or_intror Hy)) k1 H1). intros y Hy. apply Hk. right. exact Hy. }
      subst n' e. reflexivity.
  - split.
    + destruct (parsimony _ _ _ _ t). discriminate.
    + intros [n [[l1 [l2 [El [Hn Hl]]]] _]]. exfalso.
      pose proof (find_none _ _ F n) as Q. rewrite El in Q. specialize (Q ltac:(apply in_or_app; right; left; reflexivity)).
      unfold has_state in Hn. simpl in Q. destruct (lookup n m); discriminate.
Qed.

(** the random-resolve front end refuses in the same cases, before any draw *)
Theorem acr_r_error_same : forall S draw t m a s,
  (exists e, parsimony_acr_r S draw t m a s = Err e) <-> (exists e, parsimony_acr t m a = Err e).
Proof.
  intros. unfold parsimony_acr_r, parsimony_acr.
  destruct (find _ (all_tip_names t)).
  - split; intros _; eexists; reflexivity.
  - destruct (parsimony_r _ _ _ _ _ _ t s) as [[vt st] s']. destruct (parsimony _ _ _ _ t).
    split; intros [e H]; discriminate.
Qed.

(** ALGO_NONE is accepted by ParsimonyAcr: the vectors are those of the up-pass *)
Theorem acr_none_is_uppass : forall skip tv k t, is_tip t = false ->
  fst (parsimony skip tv k NoPass t) = fst (uppass tv k t).
Proof. intros. unfold parsimony. rewrite H. destruct (uppass tv k t). reflexivity. Qed.

(** ** sequence variant *)
Theorem asr_error_cases : forall t aln a,
  match find (fun n => match lookup n aln with Some _ => false | None => true end) (all_tip_names t) with
  | Some n => parsimony_asr t aln a = Err ("sequence " ++ n ++ " does not exist in the alignment") /\
              first_missing aln t n
  | None => match a with
            | NoPass => parsimony_asr t aln a = Err "parsimony algorithm 3 unkown"
            | _ => exists r, parsimony_asr t aln a = Ok r
            end
  end.
Proof.
  intros t aln a. unfold parsimony_asr.
  destruct (find _ (all_tip_names t)) eqn:F.
  - split; [reflexivity | apply find_missing_iff; exact F].
  - destruct a; try (eexists; reflexivity).
Qed.

(** ParsimonyAsr returns one step count per site followed by one more entry, always 0
    (nsteps = make([]int, a.Length()+1)) *)
Theorem asr_steps_trailing_zero : forall t aln a r, parsimony_asr t aln a = Ok r ->
  length (asr_steps r) = aln_length aln + 1 /\ nth (aln_length aln) (asr_steps r) 1 = 0.
Proof.
  intros t aln a r H. unfold parsimony_asr in H.
  destruct (find _ (all_tip_names t)); [discriminate|].
  destruct a; try discriminate; inversion H; simpl;
    (split; [rewrite app_length, !map_length, seq_length; reflexivity|];
     rewrite app_nth2 by (rewrite !map_length, seq_length; lia);
     rewrite !map_length, seq_length, Nat.sub_diag; reflexivity).
Qed.

(** a root with a single neighbour is a "tip" for the code (Node.Tip()): the up-pass stops there.
    The reconstruction then fails unless the root's own name has a state, and otherwise reports
    0 steps: trees whose root has one child (e.g. the Newick "((a,b,c));") are outside what the
    theorems cover ([2 <= degree t]); this is what the model (and the code) does on them *)
Theorem acr_root_with_one_neighbour : forall t m a, is_tip t = true ->
  match lookup (uname t) m with
  | None => parsimony_acr t m a = Err ("Tip " ++ uname t ++ " does not exist in the tip/state mapping file")
  | Some _ => exists r, parsimony_acr t m a = Ok r /\ acr_steps r = 0
  end.
Proof.
  intros [n cm sl] m a Ht. unfold is_tip, degree in Ht. simpl in Ht. simpl uname.
  unfold parsimony_acr. simpl all_tip_names. rewrite Ht. simpl find.
  destruct (lookup n m) eqn:E.
  - unfold parsimony. unfold is_tip, degree. simpl uslots. rewrite Ht. eexists. split; reflexivity.
  - reflexivity.
Qed.
