(** C07, resolve: what [resolve_here] does to the neighbour array of one node: some children
    stay in place, the others are moved below a caterpillar of new nodes appended at the end. *)
From Coq Require Import String ZArith QArith Bool Arith Lia List Permutation Setoid Morphisms.
From GT Require Import Base.UTree Spec.Obs Model.Reroot Model.Rand Spec.Unrooted Proofs.RerootBase Proofs.PruneBase
     Model.Prune Model.Collapse Proofs.PruneStep Proofs.PruneSub Proofs.CollapseBase.
Import ListNotations.
Local Close Scope Q_scope.
Local Arguments n_up : simpl never.

(** * picking list elements by index *)
Definition pick {A} (I : list nat) (ks : list A) : list A :=
  flat_map (fun k => match nth_error ks k with Some x => [x] | None => [] end) I.

Lemma pick_app {A} I J (ks : list A) : pick (I ++ J) ks = pick I ks ++ pick J ks.
Proof. apply flat_map_app. Qed.

Lemma pick_perm {A} I J (ks : list A) : Permutation I J -> Permutation (pick I ks) (pick J ks).
Proof. intros H. now apply Permutation_flat_map. Qed.

Lemma pick_seq_gen {A} (pre r : list A) : pick (seq (length pre) (length r)) (pre ++ r) = r.
Proof.
  revert pre. induction r as [|x r IH]; intros pre; [reflexivity|].
  simpl seq. unfold pick. simpl flat_map.
  assert (E : nth_error (pre ++ x :: r) (length pre) = Some x).
  { rewrite nth_error_app2 by lia. now rewrite Nat.sub_diag. }
  rewrite E. simpl. f_equal.
  specialize (IH (pre ++ [x])). rewrite app_length in IH. simpl in IH.
  rewrite Nat.add_1_r, <- app_assoc in IH. exact IH.
Qed.

Lemma pick_seq {A} (ks : list A) : pick (seq 0 (length ks)) ks = ks.
Proof. exact (pick_seq_gen [] ks). Qed.

Lemma pick_length {A} I (ks : list A) : (forall i, In i I -> i < length ks) -> length (pick I ks) = length I.
Proof.
  induction I as [|i I IH]; intros H; [reflexivity|].
  unfold pick. simpl flat_map. rewrite app_length. fold (pick I ks). rewrite IH by (intros; apply H; now right).
  destruct (nth_error ks i) eqn:E; [reflexivity|].
  apply nth_error_None in E. specialize (H i (or_introl eq_refl)). lia.
Qed.

Definition memb (K : list nat) (i : nat) : bool := existsb (Nat.eqb i) K.

Lemma memb_In K i : memb K i = true <-> In i K.
Proof.
  unfold memb. rewrite existsb_exists. split.
  - intros [x [H1 H2]]. apply Nat.eqb_eq in H2. now subst.
  - intros H. exists i. split; auto. apply Nat.eqb_refl.
Qed.

Fixpoint fidx {A} (K : list nat) (j : nat) (ks : list A) : list A :=
  match ks with
  | [] => []
  | x :: r => (if memb K j then [x] else []) ++ fidx K (S j) r
  end.

Lemma keep_slots_kids K j sl : kids_of (keep_slots K j sl) = fidx K j (kids_of sl).
Proof.
  revert j. induction sl as [|[p|] r IH]; intros j; simpl; auto.
  rewrite kids_of_app, IH. unfold memb. destruct (existsb (Nat.eqb j) K); reflexivity.
Qed.

Lemma keep_slots_up K j sl : n_up (keep_slots K j sl) = n_up sl.
Proof.
  revert j. induction sl as [|[p|] r IH]; intros j; simpl; auto.
  - rewrite n_up_app, n_up_cons, IH. destruct (existsb (Nat.eqb j) K); reflexivity.
  - now rewrite !n_up_cons, IH.
Qed.

Lemma keep_slots_in K j sl s : In s (keep_slots K j sl) -> In s sl.
Proof.
  revert j. induction sl as [|[p|] r IH]; intros j; simpl; auto.
  - rewrite in_app_iff. intros [H|H]; [|right; eauto].
    destruct (existsb (Nat.eqb j) K); [destruct H as [H|[]]; auto | destruct H].
  - intros [H|H]; auto. right; eauto.
Qed.

Lemma fidx_pick {A} K (pre r : list A) :
  fidx K (length pre) r = pick (filter (memb K) (seq (length pre) (length r))) (pre ++ r).
Proof.
  revert pre. induction r as [|x r IH]; intros pre; [reflexivity|].
  simpl fidx. simpl seq. simpl filter.
  specialize (IH (pre ++ [x])). rewrite app_length in IH. simpl in IH.
  rewrite Nat.add_1_r, <- app_assoc in IH. simpl in IH. rewrite IH.
  destruct (memb K (length pre)); [|reflexivity].
  unfold pick at 2. simpl flat_map.
  assert (E : nth_error (pre ++ x :: r) (length pre) = Some x).
  { rewrite nth_error_app2 by lia. now rewrite Nat.sub_diag. }
  rewrite E. reflexivity.
Qed.

Lemma fidx_pick0 {A} K (ks : list A) : fidx K 0 ks = pick (filter (memb K) (seq 0 (length ks))) ks.
Proof. exact (fidx_pick K [] ks). Qed.

Lemma filter_memb_perm K n :
  NoDup K -> (forall i, In i K -> i < n) -> Permutation (filter (memb K) (seq 0 n)) K.
Proof.
  intros Hn Hb. apply NoDup_Permutation; auto.
  - apply NoDup_filter. apply seq_NoDup.
  - intros x. rewrite filter_In, in_seq, memb_In. split; [tauto|]. intros H. split; auto.
    specialize (Hb x H). lia.
Qed.

(** * the order of [togroup] is a permutation of the child indexes *)
Lemma ins_key_perm key x l : Permutation (ins_key key x l) (x :: l).
Proof.
  induction l as [|y r IH]; simpl; auto.
  destruct (Nat.leb (key x) (key y)); auto. rewrite IH. apply perm_swap.
Qed.

Lemma group_order_perm p l : Permutation (group_order p l) (seq 0 l).
Proof.
  unfold group_order. induction (seq 0 l) as [|x r IH]; simpl; auto.
  rewrite ins_key_perm. now constructor.
Qed.

(** * the array after [resolve_here] *)
Lemma resolve_here_small sl cs : length sl <= 3 -> resolve_here sl cs = sl.
Proof.
  intros H. unfold resolve_here. destruct (Nat.ltb 3 (length sl)) eqn:E; auto.
  apply Nat.ltb_lt in E. lia.
Qed.

Lemma resolve_here_big sl cs :
  n_up sl <= 1 -> 3 < length sl ->
  exists keep a rest,
    resolve_here sl cs = keep ++ [Some (fold_left join2 rest a)] /\
    n_up keep = n_up sl /\ length (kids_of keep) = 2 - n_up sl /\
    Permutation (kids_of keep ++ a :: rest) (kids_of sl) /\
    (forall s, In s keep -> In s sl).
Proof.
  intros Hu Hd. unfold resolve_here. apply Nat.ltb_lt in Hd. rewrite Hd. apply Nat.ltb_lt in Hd.
  set (ks := kids_of sl). set (l := length ks).
  set (order := group_order (go_perm (firstn l cs)) l).
  set (keepn := l - (length sl - 3) - 1).
  assert (Hl : length sl = n_up sl + l) by apply length_slots.
  assert (Hkn : keepn = 2 - n_up sl) by (unfold keepn; lia).
  assert (Hord : Permutation order (seq 0 l)) by apply group_order_perm.
  assert (Hnd : NoDup order).
  { eapply Permutation_NoDup; [symmetry; exact Hord|apply seq_NoDup]. }
  assert (Hrange : forall i, In i order -> i < l).
  { intros i Hi. apply (Permutation_in _ Hord) in Hi. apply in_seq in Hi. lia. }
  assert (Hsplit : order = firstn keepn order ++ skipn keepn order) by (symmetry; apply firstn_skipn).
  set (K := firstn keepn order) in *. set (G := skipn keepn order) in *.
  assert (HndK : NoDup K) by (rewrite Hsplit in Hnd; eapply NoDup_app_remove_r; eauto).
  assert (HrK : forall i, In i K -> i < l).
  { intros i Hi. apply Hrange. rewrite Hsplit. apply in_or_app. auto. }
  assert (HrG : forall i, In i G -> i < l).
  { intros i Hi. apply Hrange. rewrite Hsplit. apply in_or_app. auto. }
  assert (HlenK : length K = keepn).
  { unfold K. apply firstn_length_le. rewrite (Permutation_length Hord), seq_length. lia. }
  assert (HlenG : length G = l - keepn).
  { unfold G. rewrite skipn_length, (Permutation_length Hord), seq_length. reflexivity. }
  (* kept children *)
  assert (Ekeep : Permutation (kids_of (keep_slots K 0 sl)) (pick K ks)).
  { rewrite keep_slots_kids. fold ks. rewrite fidx_pick0.
    apply pick_perm. fold l. now apply filter_memb_perm. }
  assert (Eall : Permutation (kids_of (keep_slots K 0 sl) ++ pick (rev G) ks) ks).
  { rewrite Ekeep, <- (pick_perm _ _ ks (Permutation_rev G)), <- pick_app, <- Hsplit.
    rewrite (pick_perm _ _ ks Hord). unfold l. now rewrite pick_seq. }
  fold (pick (rev G) ks).
  assert (Hlen_items : length (pick (rev G) ks) = l - keepn).
  { rewrite pick_length; [now rewrite rev_length|]. intros i Hi. apply HrG. now apply in_rev. }
  destruct (pick (rev G) ks) as [|a rest] eqn:Eit.
  { simpl in Hlen_items. lia. }
  exists (keep_slots K 0 sl), a, rest. repeat split; auto.
  - apply keep_slots_up.
  - rewrite (Permutation_length Ekeep), pick_length; auto. lia.
  - intros s0. apply keep_slots_in.
Qed.

(** * the caterpillar *)
Lemma reparent_uname c : uname (reparent c) = uname c.
Proof. destruct c; reflexivity. Qed.

Lemma regroup_len0 (x : einfo * utree) : len0 (mkE (elen (fst x)) (esup (fst x)) (epv (fst x)) []) = len0 (fst x).
Proof. reflexivity. Qed.
