(** The Newick text of a tree is readable inside a Nexus TREE command ([newick_ok]) when the
    tree has no comments, its tip names are Nexus labels (one token, identifier or number),
    its inner names and printed numbers consist of identifier bytes: structural induction over
    the writer.  A word between two commas is either a tip name alone or contains one of
    ( ) : and then is neither a number nor a keyword. *)
From Coq Require Import String Ascii ZArith QArith Bool Arith Lia List.
From GT Require Import Base.Sexp Base.UTree Model.Newick Model.Nexus
     Proofs.NexusLex Proofs.NexusWords Proofs.NexusRoundTrip.
Import ListNotations.
Local Close Scope Q_scope.
Local Open Scope string_scope.

(** * pieces of a string between commas *)
Definition pieces (s : string) : list string := let '(p0, ps) := comma_split s in p0 :: ps.

Lemma pieces_nil : pieces "" = [""].
Proof. reflexivity. Qed.

Lemma pieces_cons : forall c s,
    pieces (String c s) =
    if Ascii.eqb c "," then "" :: pieces s
    else match pieces s with p0 :: ps => String c p0 :: ps | [] => [String c ""] end.
Proof.
  intros c s. unfold pieces. simpl. destruct (comma_split s) as [w0 ws].
  destruct (Ascii.eqb c ","); reflexivity.
Qed.

Lemma pieces_nonempty : forall s, pieces s <> [].
Proof. intros s. unfold pieces. destruct (comma_split s). discriminate. Qed.

Lemma wchar_not_comma : forall c, wchar c = true -> Ascii.eqb c "," = false.
Proof.
  intros c H. unfold wchar in H. apply andb_true_iff in H. destruct H as [H _].
  apply is_ident_inv in H. tauto.
Qed.

Lemma pieces_word : forall s, all_chars wchar s = true -> pieces s = [s].
Proof.
  induction s as [|c s IH]; intros H; [reflexivity|].
  simpl in H. apply andb_true_iff in H. destruct H as [Hc Hs].
  rewrite pieces_cons, (wchar_not_comma c Hc), (IH Hs). reflexivity.
Qed.

Lemma pieces_app_left : forall a s, all_chars wchar a = true ->
    pieces (a ++ s) = match pieces s with p0 :: ps => (a ++ p0) :: ps | [] => [a] end.
Proof.
  induction a as [|c a IH]; intros s H; simpl.
  - destruct (pieces s) eqn:E; [exfalso; exact (pieces_nonempty s E)|reflexivity].
  - simpl in H. apply andb_true_iff in H. destruct H as [Hc Ha].
    rewrite pieces_cons, (wchar_not_comma c Hc), (IH s Ha).
    destruct (pieces s) eqn:E; [exfalso; exact (pieces_nonempty s E)|reflexivity].
Qed.

Lemma pieces_app_comma : forall a b, pieces (a ++ "," ++ b) = (pieces a ++ pieces b)%list.
Proof.
  induction a as [|c a IH]; intros b.
  - simpl. rewrite pieces_cons. reflexivity.
  - simpl. rewrite !pieces_cons. change (String "," b) with ("," ++ b). rewrite (IH b).
    destruct (Ascii.eqb c ","); [reflexivity|].
    destruct (pieces a) eqn:E; [exfalso; exact (pieces_nonempty a E)|reflexivity].
Qed.

(** appending a comma-free string extends the last piece *)
Fixpoint snoc_last (l : list string) (t : string) : list string :=
  match l with
  | [] => [t]
  | [x] => [x ++ t]
  | x :: r => x :: snoc_last r t
  end.

Lemma pieces_app_right : forall s t, all_chars wchar t = true -> pieces (s ++ t) = snoc_last (pieces s) t.
Proof.
  induction s as [|c s IH]; intros t H.
  - simpl. rewrite (pieces_word t H). reflexivity.
  - simpl. rewrite !pieces_cons, (IH t H).
    destruct (Ascii.eqb c ",").
    + destruct (pieces s) eqn:E; [exfalso; exact (pieces_nonempty s E)|reflexivity].
    + destruct (pieces s) as [|p0 ps] eqn:E; [exfalso; exact (pieces_nonempty s E)|].
      destruct ps; reflexivity.
Qed.

(** * structural words: identifier bytes with one of ( ) : among them *)
Definition is_struct (c : ascii) : bool := Ascii.eqb c "(" || Ascii.eqb c ")" || Ascii.eqb c ":".
Fixpoint has_struct (s : string) : bool :=
  match s with EmptyString => false | String c r => is_struct c || has_struct r end.

Lemma has_struct_app : forall a b, has_struct (a ++ b) = has_struct a || has_struct b.
Proof. induction a as [|c a IH]; intros b; simpl; [reflexivity|]. rewrite IH. apply orb_assoc. Qed.

Lemma digits_val_struct : forall s a z, digits_val s a = Some z -> has_struct s = false.
Proof.
  induction s as [|c s IH]; intros a z H; [reflexivity|].
  simpl in H. destruct (digit_val c) as [d|] eqn:D; [|discriminate].
  simpl. rewrite (IH _ _ H). rewrite orb_false_r.
  unfold digit_val in D.
  destruct ((48 <=? Z.of_nat (nat_of_ascii c))%Z && (Z.of_nat (nat_of_ascii c) <=? 57)%Z) eqn:E; [|discriminate].
  apply andb_true_iff in E. destruct E as [E1 E2]. apply Z.leb_le in E1. apply Z.leb_le in E2.
  unfold is_struct.
  destruct (Ascii.eqb c "(") eqn:Q1; [apply Ascii.eqb_eq in Q1; subst c; simpl in *; lia|].
  destruct (Ascii.eqb c ")") eqn:Q2; [apply Ascii.eqb_eq in Q2; subst c; simpl in *; lia|].
  destruct (Ascii.eqb c ":") eqn:Q3; [apply Ascii.eqb_eq in Q3; subst c; simpl in *; lia|].
  reflexivity.
Qed.

Lemma parse_int_struct : forall s z, parse_int s = Some z -> has_struct s = false.
Proof.
  intros s z H. unfold parse_int in H.
  destruct s as [|c r]; [reflexivity|].
  assert (G : forall (body : string) (neg : bool), (match body with
                                | EmptyString => @None Z
                                | _ => match digits_val body 0%Z with
                                       | None => None
                                       | Some u => if neg then (if (u <=? two63)%Z then Some (- u)%Z else None)
                                                   else (if (u <? two63)%Z then Some u else None)
                                       end
                                end) = Some z -> has_struct body = false).
  { intros body neg G. destruct body as [|c' r']; [discriminate|].
    destruct (digits_val (String c' r') 0%Z) as [u|] eqn:D; [|discriminate].
    eapply digits_val_struct. exact D. }
  destruct (Ascii.eqb c "+") eqn:P.
  - apply Ascii.eqb_eq in P. subst c. simpl. apply (G r false). exact H.
  - destruct (Ascii.eqb c "-") eqn:M.
    + apply Ascii.eqb_eq in M. subst c. simpl. apply (G r true). exact H.
    + assert (S1 : (match String c r with
                    | String "+" r0 => (false, r0)
                    | String "-" r0 => (true, r0)
                    | _ => (false, String c r)
                    end) = (false, String c r)).
      { destruct c as [b0 b1 b2 b3 b4 b5 b6 b7].
        destruct b0, b1, b2, b3, b4, b5, b6, b7; try reflexivity; simpl in P, M; discriminate. }
      rewrite S1 in H. apply (G (String c r) false). exact H.
Qed.

(** [upper] keeps the structural bytes *)
Lemma up1_struct : forall c, is_struct c = true -> up1 c = c.
Proof.
  intros c H. unfold is_struct in H.
  repeat (apply orb_true_iff in H; destruct H as [H|H]); apply Ascii.eqb_eq in H; subst c; reflexivity.
Qed.

Lemma struct_not_lead : forall c, is_struct c = true -> byte_is c 196 = false /\ byte_is c 197 = false.
Proof.
  intros c H. unfold is_struct in H.
  repeat (apply orb_true_iff in H; destruct H as [H|H]); apply Ascii.eqb_eq in H; subst c; split; reflexivity.
Qed.

Lemma upper_cons2 : forall a b r2,
    upper (String a (String b r2)) =
    if byte_is a 196 && byte_is b 177 then String "I" (upper r2)
    else if byte_is a 197 && byte_is b 191 then String "S" (upper r2)
    else String (up1 a) (upper (String b r2)).
Proof. reflexivity. Qed.

Lemma upper_struct : forall n s, String.length s <= n -> has_struct s = true -> has_struct (upper s) = true.
Proof.
  induction n as [|n IH]; intros s L H.
  - destruct s; [discriminate H|simpl in L; lia].
  - destruct s as [|a r]; [discriminate H|].
    destruct r as [|b r2].
    + simpl in *. rewrite orb_false_r in H. rewrite (up1_struct a H). rewrite H. reflexivity.
    + rewrite upper_cons2. simpl in H.
      destruct (is_struct a) eqn:Sa.
      * destruct (struct_not_lead a Sa) as [N1 N2]. rewrite N1, N2. cbn [andb].
        simpl. rewrite (up1_struct a Sa), Sa. reflexivity.
      * simpl in H.
        destruct (byte_is a 196 && byte_is b 177) eqn:E1.
        { (* b = 177 is not structural *)
          apply andb_true_iff in E1. destruct E1 as [_ Eb].
          assert (Sb : is_struct b = false).
          { unfold byte_is in Eb. apply Nat.eqb_eq in Eb. unfold is_struct.
            destruct (Ascii.eqb b "(") eqn:Q1; [apply Ascii.eqb_eq in Q1; subst b; discriminate Eb|].
            destruct (Ascii.eqb b ")") eqn:Q2; [apply Ascii.eqb_eq in Q2; subst b; discriminate Eb|].
            destruct (Ascii.eqb b ":") eqn:Q3; [apply Ascii.eqb_eq in Q3; subst b; discriminate Eb|]. reflexivity. }
          rewrite Sb in H. simpl in H. simpl. apply IH; [simpl in L; lia|exact H]. }
        destruct (byte_is a 197 && byte_is b 191) eqn:E2.
        { apply andb_true_iff in E2. destruct E2 as [_ Eb].
          assert (Sb : is_struct b = false).
          { unfold byte_is in Eb. apply Nat.eqb_eq in Eb. unfold is_struct.
            destruct (Ascii.eqb b "(") eqn:Q1; [apply Ascii.eqb_eq in Q1; subst b; discriminate Eb|].
            destruct (Ascii.eqb b ")") eqn:Q2; [apply Ascii.eqb_eq in Q2; subst b; discriminate Eb|].
            destruct (Ascii.eqb b ":") eqn:Q3; [apply Ascii.eqb_eq in Q3; subst b; discriminate Eb|]. reflexivity. }
          rewrite Sb in H. simpl in H. simpl. apply IH; [simpl in L; lia|exact H]. }
        cbn [has_struct]. apply orb_true_iff. right. apply IH; [simpl in L |- *; lia|]. cbn [has_struct]. exact H.
Qed.

Lemma keyword_struct : forall w, has_struct w = true -> keyword w = IDENT.
Proof.
  intros w H. pose proof (upper_struct (String.length w) w (le_n _) H) as U.
  unfold keyword. set (u := upper w) in *.
  repeat match goal with
         | |- context [String.eqb u ?k] =>
           let E := fresh "E" in
           destruct (String.eqb u k) eqn:E;
             [apply String.eqb_eq in E; rewrite E in U; discriminate U|]
         end.
  reflexivity.
Qed.

Lemma sword_ok : forall w, all_chars wchar w = true -> has_struct w = true -> tword_b w = true.
Proof.
  intros w Hw Hs. unfold tword_b, word. rewrite Hw.
  assert (NE : String.eqb w "" = false) by (destruct w; [discriminate Hs|reflexivity]).
  rewrite NE. simpl.
  unfold classify. destruct (parse_int w) as [z|] eqn:P.
  - apply parse_int_struct in P. congruence.
  - rewrite (keyword_struct w Hs). reflexivity.
Qed.

Lemma tword_b_chars : forall w, tword_b w = true -> all_chars wchar w = true.
Proof.
  intros w H. unfold tword_b, word in H. apply andb_true_iff in H. destruct H as [H _].
  apply andb_true_iff in H. tauto.
Qed.

(** * wrapping a list of items in parentheses *)
Definition pieces_ok (s : string) : Prop := forallb tword_b (pieces s) = true.

Lemma snoc_last_ok : forall l t, l <> [] -> forallb tword_b l = true ->
    all_chars wchar t = true -> has_struct t = true ->
    forallb tword_b (snoc_last l t) = true.
Proof.
  induction l as [|x r IH]; intros t NE H Ht Hs; [contradiction NE; reflexivity|].
  simpl in H. apply andb_true_iff in H. destruct H as [Hx Hr].
  destruct r as [|y r'].
  - simpl. rewrite andb_true_r. apply sword_ok.
    + rewrite all_chars_app, (tword_b_chars x Hx), Ht. reflexivity.
    + rewrite has_struct_app, Hs. apply orb_true_r.
  - cbn [snoc_last forallb]. rewrite Hx. apply IH; [discriminate|exact Hr|exact Ht|exact Hs].
Qed.

Lemma wrap_ok : forall body tail, pieces_ok body -> all_chars wchar tail = true ->
    pieces_ok ("(" ++ body ++ ")" ++ tail).
Proof.
  intros body tail Hb Ht. unfold pieces_ok in *.
  rewrite (pieces_app_left "(" _ eq_refl).
  assert (T : all_chars wchar (")" ++ tail) = true) by (simpl; exact Ht).
  rewrite (pieces_app_right body (")" ++ tail) T).
  assert (S : forallb tword_b (snoc_last (pieces body) (")" ++ tail)) = true).
  { apply snoc_last_ok; [apply pieces_nonempty|exact Hb|exact T|reflexivity]. }
  destruct (snoc_last (pieces body) (")" ++ tail)) as [|p0 ps] eqn:E.
  - simpl. reflexivity.
  - simpl in S. apply andb_true_iff in S. destruct S as [S0 S1].
    cbn [forallb]. rewrite S1, andb_true_r. apply sword_ok.
    + simpl. apply tword_b_chars. exact S0.
    + reflexivity.
Qed.

Lemma chop_semi_snoc : forall x, chop_semi (x ++ ";") = Some x.
Proof.
  induction x as [|c r IH]; [reflexivity|].
  simpl. destruct (r ++ ";") as [|c2 r2] eqn:E.
  - destruct r; discriminate E.
  - rewrite IH. reflexivity.
Qed.

(** * the writer *)
Section Writer.
  Variable fmt : Q -> string.

  Definition numw (x : Q) : bool := negb (present x) || all_chars wchar (fmt x).
  Definition nilb {A} (l : list A) : bool := match l with [] => true | _ => false end.

  (** a subtree below the branch [e]: no comments; a tip is [None] plus a name that is a
      Nexus label; an inner node has its parent, at least one child and a name of identifier
      bytes; printed numbers consist of identifier bytes *)
  Fixpoint nx_sub (e : einfo) (t : utree) : bool :=
    match t with
    | UNode n c sl =>
      nilb c && nilb (ecom e) && numw (elen e) && numw (esup e) && numw (epv e) &&
      (if nilb (kids_of sl) then Nat.eqb (length sl) 1 && tword_b n
       else Nat.ltb 1 (length sl) && all_chars wchar n) &&
      forallb (fun s => match s with Some (e', ch) => nx_sub e' ch | None => true end) sl
    end.

  Definition nx_root (t : utree) : bool :=
    match t with
    | UNode n c sl =>
      nilb c && negb (nilb (kids_of sl)) && Nat.ltb 1 (length sl) && all_chars wchar n &&
      forallb (fun s => match s with Some (e', ch) => nx_sub e' ch | None => true end) sl
    end.

  Notation write_node := (write_node fmt).
  Notation deco := (deco fmt).

  Fixpoint joinF (first : bool) (l : list (einfo * utree)) : string :=
    match l with
    | [] => ""
    | (e, ch) :: r => (if first then "" else ",") ++ write_node ch ++ deco e ch ++ joinF false r
    end.

  Lemma write_node_eq : forall n c sl,
      write_node (UNode n c sl) =
      (if Nat.ltb 1 (length sl) then "(" ++ joinF true (kids_of sl) ++ ")" else joinF true (kids_of sl)) ++ n.
  Proof.
    intros n c sl. cbn [Newick.write_node].
    assert (H : forall first,
               (fix go (first : bool) (l : list slot) {struct l} : string :=
                  match l with
                  | [] => ""
                  | None :: r => go first r
                  | Some (e, ch) :: r => (if first then "" else ",") ++ write_node ch ++ deco e ch ++ go false r
                  end) first sl = joinF first (kids_of sl)).
    { induction sl as [|[[e ch]|] r IH]; intros first; [reflexivity| |].
      - unfold kids_of. simpl. rewrite IH. reflexivity.
      - unfold kids_of. simpl. apply IH. }
    rewrite H. reflexivity.
  Qed.

  Lemma numw_chars : forall x, numw x = true -> present x = true -> all_chars wchar (fmt x) = true.
  Proof. intros x H P. unfold numw in H. rewrite P in H. exact H. Qed.

  (** what is printed after a node: support[/p-value] (unnamed nodes only), ":length" *)
  Lemma deco_chars : forall e ch, nilb (ucom ch) = true -> nilb (ecom e) = true ->
      numw (elen e) = true -> numw (esup e) = true -> numw (epv e) = true ->
      all_chars wchar (deco e ch) = true.
  Proof.
    intros e ch Hc He Hl Hs Hp. unfold Newick.deco.
    destruct (ucom ch); [|discriminate Hc]. destruct (ecom e); [|discriminate He].
    rewrite all_chars_app. apply andb_true_iff. split.
    - destruct (present (esup e)) eqn:P1; [|reflexivity].
      destruct (String.eqb (uname ch) ""); [|reflexivity]. cbn [andb].
      rewrite all_chars_app, (numw_chars _ Hs P1).
      destruct (present (epv e)) eqn:P2; [|reflexivity]. cbn [andb]. simpl. apply (numw_chars _ Hp P2).
    - rewrite all_chars_app. apply andb_true_iff. split; [reflexivity|].
      rewrite all_chars_app. apply andb_true_iff. split; [|reflexivity].
      destruct (present (elen e)) eqn:P; [|reflexivity]. simpl. apply (numw_chars _ Hl P).
  Qed.

  Lemma andb5 : forall a b c d e f g, a && b && c && d && e && f && g = true ->
      a = true /\ b = true /\ c = true /\ d = true /\ e = true /\ f = true /\ g = true.
  Proof. intros. repeat (apply andb_true_iff in H; destruct H as [H ?]). repeat split; assumption. Qed.

  Lemma kids_forall : forall (sl : list slot),
      forallb (fun s => match s with Some (e', ch) => nx_sub e' ch | None => true end) sl = true ->
      Forall (fun p => nx_sub (fst p) (snd p) = true) (kids_of sl).
  Proof.
    induction sl as [|[[e ch]|] r IH]; intros H; unfold kids_of; simpl in *.
    - constructor.
    - apply andb_true_iff in H. destruct H. constructor; [assumption|]. apply IH. assumption.
    - apply IH. assumption.
  Qed.

  Lemma joinF_pieces : forall l,
      l <> [] ->
      Forall (fun p => pieces_ok (write_node (snd p) ++ deco (fst p) (snd p))) l ->
      pieces_ok (joinF true l).
  Proof.
    intros l NE H.
    assert (G : forall l', Forall (fun p => pieces_ok (write_node (snd p) ++ deco (fst p) (snd p))) l' ->
                forall a, pieces_ok a -> pieces_ok (a ++ joinF false l')).
    { induction l' as [|[e ch] r IH]; intros HF a Ha.
      - simpl. rewrite app_nil_r_s. exact Ha.
      - inversion HF as [|? ? Hx Hr]; subst. simpl in Hx. cbn [joinF].
        replace (a ++ "," ++ write_node ch ++ deco e ch ++ joinF false r)
          with ((a ++ "," ++ (write_node ch ++ deco e ch)) ++ joinF false r)
          by (rewrite !app_assoc_s; reflexivity).
        apply IH; [exact Hr|]. unfold pieces_ok in *. rewrite pieces_app_comma, forallb_app, Ha, Hx. reflexivity. }
    destruct l as [|[e ch] r]; [contradiction NE; reflexivity|].
    inversion H as [|? ? Hx Hr]; subst. simpl in Hx. cbn [joinF]. simpl append.
    replace (write_node ch ++ deco e ch ++ joinF false r) with ((write_node ch ++ deco e ch) ++ joinF false r)
      by (rewrite app_assoc_s; reflexivity).
    apply G; assumption.
  Qed.

  Lemma item_ok : forall t e, nx_sub e t = true -> pieces_ok (write_node t ++ deco e t).
  Proof.
    induction t as [n c sl IH] using utree_ind'. intros e H.
    cbn [nx_sub] in H. apply andb5 in H. destruct H as (Hc & He & Hl & Hs & Hp & Hn & Hk).
    assert (D : all_chars wchar (deco e (UNode n c sl)) = true) by (apply deco_chars; assumption).
    rewrite write_node_eq.
    destruct (nilb (kids_of sl)) eqn:K.
    - (* a tip *)
      apply andb_true_iff in Hn. destruct Hn as [L Hn]. apply Nat.eqb_eq in L. rewrite L. simpl Nat.ltb. cbv iota.
      destruct (kids_of sl); [|discriminate K]. simpl joinF. simpl append.
      unfold pieces_ok. rewrite pieces_word by (rewrite all_chars_app, (tword_b_chars n Hn), D; reflexivity).
      simpl. rewrite andb_true_r.
      (* the name alone, or with ":length" *)
      unfold Newick.deco in *. destruct c; [|discriminate Hc]. destruct (ecom e); [|discriminate He].
      simpl uname in *. simpl ucom in *. simpl write_coms in *.
      assert (NN : String.eqb n "" = false).
      { unfold tword_b, word in Hn. destruct (String.eqb n ""); [discriminate Hn|reflexivity]. }
      rewrite NN, andb_false_r in *. simpl append in *.
      destruct (present (elen e)) eqn:P.
      + apply sword_ok.
        * rewrite all_chars_app, (tword_b_chars n Hn). exact D.
        * rewrite has_struct_app. simpl. apply orb_true_r.
      + simpl. rewrite !app_nil_r_s. exact Hn.
    - (* an inner node *)
      apply andb_true_iff in Hn. destruct Hn as [L Hn]. rewrite L.
      replace ((("(" ++ joinF true (kids_of sl) ++ ")") ++ n) ++ deco e (UNode n c sl))
        with ("(" ++ joinF true (kids_of sl) ++ ")" ++ (n ++ deco e (UNode n c sl)))
        by (rewrite !app_assoc_s; reflexivity).
      apply wrap_ok.
      + apply joinF_pieces.
        * destruct (kids_of sl); [discriminate K|discriminate].
        * pose proof (kids_forall sl Hk) as HF.
          assert (IH' : Forall (fun p => forall e0, nx_sub e0 (snd p) = true -> pieces_ok (write_node (snd p) ++ deco e0 (snd p))) (kids_of sl)).
          { clear - IH. induction IH as [|[[e' ch]|] r Hx Hr IHr]; unfold kids_of; simpl; [constructor| |exact IHr].
            constructor; [exact Hx|exact IHr]. }
          clear - HF IH'. induction HF as [|p r Hp Hr IHr]; [constructor|].
          inversion IH' as [|? ? Hx Hy]; subst. constructor; [apply Hx; exact Hp|apply IHr; exact Hy].
      + rewrite all_chars_app, Hn, D. reflexivity.
  Qed.

  (** the Newick text of the tree is readable inside a TREE command *)
  Theorem newick_ok_write : forall t, nx_root t = true -> newick_ok (write fmt t) = true.
  Proof.
    intros [n c sl] H. cbn [nx_root] in H.
    repeat (apply andb_true_iff in H; destruct H as [H ?]).
    rename H into Hc, H3 into Hk0, H2 into L, H1 into Hn, H0 into Hk.
    unfold write. rewrite write_node_eq, L. cbn [ucom]. destruct c; [|discriminate Hc].
    unfold write_coms. cbn [fold_right]. change ("" ++ ";") with ";".
    unfold newick_ok. rewrite chop_semi_snoc.
    assert (P : pieces_ok (("(" ++ joinF true (kids_of sl) ++ ")") ++ n)).
    { rewrite app_assoc_s. rewrite app_assoc_s. apply wrap_ok; [|exact Hn].
      apply joinF_pieces.
      - destruct (kids_of sl); [discriminate Hk0|discriminate].
      - pose proof (kids_forall sl Hk) as HF.
        eapply Forall_impl; [|exact HF]. intros [e ch] Hx. apply item_ok. exact Hx. }
    unfold pieces_ok, pieces in P.
    destruct (comma_split (("(" ++ joinF true (kids_of sl) ++ ")") ++ n)) as [w0 ws]. exact P.
  Qed.
End Writer.
