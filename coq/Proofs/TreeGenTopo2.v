(** C16, AllTopologies: the returned topologies are pairwise different
    ([NoDup] of the keys of Spec/GenShape.v), for every n.

    Idea.  Work on the list [clades t] (leaf set below every branch, in the order of
    Tree.Edges()).  Grafting the new tip [x] on the branch with clade [C] gives a tree whose
    clades are those of [t], with [x] added to the ones above the branch, plus [{x}] and
    [C + x].  Hence (1) deleting [x] from the clades of the result gives back the clades of [t]
    and (2) [C + x] is the least clade of the result that contains [x] besides [{x}], so [C]
    (and, as the clades of a binary tree with distinct tips are pairwise distinct, the branch)
    is determined by the set of clades of the result. *)
From Coq Require Import String Ascii ZArith QArith Bool Arith Lia List Permutation Sorted.
From GT Require Import Base.UTree Spec.Obs Spec.GenShape Spec.Unrooted Model.Reroot Model.Rand2
     Model.TreeGen Proofs.RerootBase Proofs.Splits Proofs.TreeGenNames Proofs.TreeGenTopo.
Import ListNotations.
Local Close Scope Q_scope.
Local Open Scope list_scope.
Local Arguments n_up : simpl never.

(** * Lists *)
Lemma NoDup_app_intro {A} (a b : list A) :
  NoDup a -> NoDup b -> (forall x, In x a -> In x b -> False) -> NoDup (a ++ b).
Proof.
  induction a as [|x r IH]; simpl; intros Ha Hb Hd; auto.
  inversion Ha; subst. constructor.
  - rewrite in_app_iff. intros [H|H]; [auto|]. apply (Hd x); auto.
  - apply IH; auto. intros y Hy. apply Hd. auto.
Qed.

Lemma NoDup_app_l {A} (a b : list A) : NoDup (a ++ b) -> NoDup a.
Proof.
  induction a as [|x r IH]; simpl; intros H; [constructor|].
  inversion H; subst. constructor; auto. intros Hx. apply H2. apply in_or_app. auto.
Qed.
Lemma NoDup_app_r {A} (a b : list A) : NoDup (a ++ b) -> NoDup b.
Proof. induction a as [|x r IH]; simpl; intros H; auto. inversion H; auto. Qed.
Lemma NoDup_app_disj {A} (a b : list A) x : NoDup (a ++ b) -> In x a -> In x b -> False.
Proof. apply NoDup_app_disjoint. Qed.

Lemma FOP_app {A} (R : A -> A -> Prop) l1 l2 :
  ForallOrdPairs R l1 -> ForallOrdPairs R l2 ->
  (forall a b, In a l1 -> In b l2 -> R a b) -> ForallOrdPairs R (l1 ++ l2).
Proof.
  induction 1 as [|a l Ha Hl IH]; simpl; intros H2 Hc; auto.
  constructor.
  - apply Forall_app. split; auto. apply Forall_forall. intros b Hb. apply Hc; auto.
  - apply IH; auto.
Qed.

Lemma FOP_flat_map {A B} (R : B -> B -> Prop) (g : A -> list B) l :
  ForallOrdPairs (fun a a' => forall u u', In u (g a) -> In u' (g a') -> R u u') l ->
  (forall a, In a l -> ForallOrdPairs R (g a)) ->
  ForallOrdPairs R (flat_map g l).
Proof.
  induction 1 as [|a l Ha Hl IH]; simpl; intros Hg; [constructor|].
  apply FOP_app; auto.
  intros u u' Hu Hu'. apply in_flat_map in Hu'. destruct Hu' as [a' [Ha' Hu']].
  rewrite Forall_forall in Ha. exact (Ha a' Ha' u u' Hu Hu').
Qed.

Lemma FOP_impl_in {A} (R R' : A -> A -> Prop) l :
  (forall a b, In a l -> In b l -> R a b -> R' a b) ->
  ForallOrdPairs R l -> ForallOrdPairs R' l.
Proof.
  intros H HR. induction HR as [|a r Ha Hr IH]; constructor.
  - rewrite Forall_forall in *. intros b Hb. apply H; simpl; auto.
  - apply IH. intros x y Hx Hy. apply H; simpl; auto.
Qed.

Lemma FOP_map {A B} (R : B -> B -> Prop) (f : A -> B) l :
  ForallOrdPairs (fun a b => R (f a) (f b)) l -> ForallOrdPairs R (map f l).
Proof.
  induction 1 as [|a r Ha Hr IH]; simpl; constructor; auto.
  apply Forall_map. exact Ha.
Qed.

Lemma FOP_NoDup {A} (l : list A) : ForallOrdPairs (fun a b => a <> b) l -> NoDup l.
Proof.
  induction 1 as [|a r Ha Hr IH]; constructor; auto.
  intros Hin. rewrite Forall_forall in Ha. exact (Ha a Hin eq_refl).
Qed.

Lemma Forall2_In_l {A B} (R : A -> B -> Prop) l1 l2 a :
  Forall2 R l1 l2 -> In a l1 -> exists b, In b l2 /\ R a b.
Proof.
  induction 1 as [|x y l1 l2 Hxy H IH]; simpl; intros Ha; [tauto|].
  destruct Ha as [->|Ha]; [exists y; auto|].
  destruct (IH Ha) as [b [Hb Hab]]. exists b; auto.
Qed.

Lemma Forall2_map_in {A A' B} (R : A -> B -> Prop) (R' : A' -> B -> Prop) (P : A -> Prop)
      (f : A -> A') l1 l2 :
  Forall2 R l1 l2 -> Forall P l1 ->
  (forall a b, In b l2 -> R a b -> P a -> R' (f a) b) ->
  Forall2 R' (map f l1) l2.
Proof.
  induction 1 as [|x y l1 l2 Hxy H IH]; simpl; intros HP Himp; constructor.
  - inversion HP; subst. apply Himp; simpl; auto.
  - inversion HP; subst. apply IH; [assumption|]. intros. apply Himp; simpl; auto.
Qed.

(** positions matched with pairwise distinct labels are pairwise different *)
Lemma Forall2_FOP {A B} (R : A -> B -> Prop) (E : A -> A -> Prop) l1 l2 :
  Forall2 R l1 l2 -> NoDup l2 ->
  (forall a b a' b', In b l2 -> In b' l2 -> R a b -> R a' b' -> E a a' -> b = b') ->
  ForallOrdPairs (fun a a' => ~ E a a') l1.
Proof.
  induction 1 as [|a b l1 l2 Hab H IH]; intros ND Hinj; constructor.
  - inversion ND; subst. apply Forall_forall. intros a' Ha' HE.
    destruct (Forall2_In_l _ _ _ _ H Ha') as [b' [Hb' Hab']].
    assert (b = b') by (eapply Hinj; eauto; simpl; auto). subst b'. auto.
  - inversion ND; subst. apply IH; auto. intros. eapply Hinj; eauto; simpl; auto.
Qed.

(** * Sorted string sets *)
Lemma sinsert_incl x A B : ~ In x B -> incl B (sinsert x A) -> incl B A.
Proof.
  intros Hx H y Hy. destruct (proj1 (sinsert_In x A y) (H y Hy)) as [->|Hy']; [contradiction|exact Hy'].
Qed.

Lemma sinsert_inj x A B :
  StronglySorted slt A -> StronglySorted slt B -> ~ In x A -> ~ In x B ->
  sinsert x A = sinsert x B -> A = B.
Proof.
  intros SA SB HA HB E. apply sorted_ext; auto. intros y. split; intros Hy.
  - assert (H : In y (sinsert x B)) by (rewrite <- E; apply sinsert_In; auto).
    apply (proj1 (sinsert_In _ _ _)) in H. destruct H as [->|H]; [contradiction|exact H].
  - assert (H : In y (sinsert x A)) by (rewrite E; apply sinsert_In; auto).
    apply (proj1 (sinsert_In _ _ _)) in H. destruct H as [->|H]; [contradiction|exact H].
Qed.

Lemma sinsert_not_single x A : A <> [] -> ~ In x A -> sinsert x A <> [x].
Proof.
  intros HA Hx E. destruct A as [|y r]; [congruence|].
  assert (H : In y (sinsert x (y :: r))) by (apply sinsert_In; right; simpl; auto).
  rewrite E in H. simpl in H. destruct H as [H|[]]. subst y. apply Hx. simpl; auto.
Qed.

Lemma sset_nonempty l : l <> [] -> sset l <> [].
Proof.
  destruct l as [|y r]; [congruence|]. intros _ E.
  assert (H : In y (sset (y :: r))) by (apply sset_In; simpl; auto).
  rewrite E in H. destruct H.
Qed.

(** ** sorted sets of lists of strings *)
Lemma lcompare_eq a : forall b, lcompare a b = Eq -> a = b.
Proof.
  induction a as [|x a IH]; intros [|y b]; simpl; intros H; try discriminate; auto.
  destruct (String.compare x y) eqn:E; try discriminate.
  apply OrderedTypeEx.String_as_OT.cmp_eq in E. subst y. f_equal. apply IH, H.
Qed.

Lemma linsert_In x l y : In y (linsert x l) <-> y = x \/ In y l.
Proof.
  induction l as [|z r IH]; simpl; [intuition|].
  destruct (lcompare x z) eqn:E; simpl.
  - apply lcompare_eq in E. subst. intuition.
  - intuition.
  - rewrite IH. intuition.
Qed.

Lemma lset_In l y : In y (lset l) <-> In y l.
Proof.
  unfold lset. induction l as [|x r IH]; simpl; [tauto|].
  rewrite linsert_In, IH. intuition.
Qed.

Lemma lset_eq_In l1 l2 : lset l1 = lset l2 -> forall B, In B l1 <-> In B l2.
Proof. intros E B. rewrite <- (lset_In l1 B), <- (lset_In l2 B), E. reflexivity. Qed.

(** * The effect of one graft on a list of clades *)
(** [T] are the clades before, [G] after grafting [x] on the branch whose clade is [C] *)
Definition GR (x : string) (T G : list (list string)) (C : list string) : Prop :=
  In (sinsert x C) G /\
  (forall A, In A G -> In x A -> A = [x] \/ incl C A) /\
  (forall A, In A G -> A = [x] \/ exists A0, In A0 T /\ (A = A0 \/ A = sinsert x A0)) /\
  (forall A0, In A0 T -> In A0 G \/ In (sinsert x A0) G).

Lemma GR_wrap x P R T G C :
  GR x T G C -> (forall A, In A (P ++ R) -> ~ In x A) -> GR x (P ++ T ++ R) (P ++ G ++ R) C.
Proof.
  intros (H1 & H2 & H3 & H4) HPR. repeat split.
  - rewrite !in_app_iff. auto.
  - intros A HA Hx. rewrite !in_app_iff in HA. destruct HA as [HA|[HA|HA]]; auto.
    + exfalso. apply (HPR A); auto. apply in_or_app; auto.
    + exfalso. apply (HPR A); auto. apply in_or_app; auto.
  - intros A HA. rewrite !in_app_iff in HA. destruct HA as [HA|[HA|HA]].
    + right. exists A. rewrite !in_app_iff. auto.
    + destruct (H3 A HA) as [E|[A0 [HA0 E]]]; auto. right. exists A0. rewrite !in_app_iff. auto.
    + right. exists A. rewrite !in_app_iff. auto.
  - intros A0 HA0. rewrite !in_app_iff in *. destruct HA0 as [HA|[HA|HA]]; auto.
    destruct (H4 A0 HA); auto.
Qed.

Lemma GR_head x D K :
  ~ In x D -> (forall A, In A K -> ~ In x A) ->
  GR x (D :: K) (sinsert x D :: [x] :: D :: K) D.
Proof.
  intros HD HK. repeat split.
  - simpl; auto.
  - intros A HA Hx. simpl in HA. destruct HA as [<-|[<-|[<-|HA]]]; auto.
    + right. intros y Hy. apply sinsert_In. auto.
    + contradiction.
    + exfalso. exact (HK A HA Hx).
  - intros A HA. simpl in HA. destruct HA as [<-|[<-|[<-|HA]]]; auto.
    + right. exists D. simpl; auto.
    + right. exists D. simpl; auto.
    + right. exists A. simpl; auto.
  - intros A0 HA0. left. simpl in *. tauto.
Qed.

Lemma GR_deep x D K K' C :
  GR x K K' C -> incl C D -> GR x (D :: K) (sinsert x D :: K') C.
Proof.
  intros (H1 & H2 & H3 & H4) HCD. repeat split.
  - simpl; auto.
  - intros A HA Hx. simpl in HA. destruct HA as [<-|HA]; auto.
    right. intros y Hy. apply sinsert_In. auto.
  - intros A HA. simpl in HA. destruct HA as [<-|HA].
    + right. exists D. simpl; auto.
    + destruct (H3 A HA) as [E|[A0 [HA0 E]]]; auto. right. exists A0. simpl; auto.
  - intros A0 HA0. simpl in HA0. destruct HA0 as [<-|HA0].
    + right. simpl; auto.
    + destruct (H4 A0 HA0); simpl; auto.
Qed.

(** * Clades of a tree *)
Definition slots_clades (sl : list slot) : list (list string) :=
  flat_map (fun s => match s with
                     | Some (_, c) => sset (leaves c) :: clades c
                     | None => [] end) sl.
Definition kclades (ks : list (einfo * utree)) : list (list string) :=
  flat_map (fun p => sset (leaves (snd p)) :: clades (snd p)) ks.

Lemma clades_unfold n c sl : clades (UNode n c sl) = slots_clades sl.
Proof. reflexivity. Qed.
Lemma slots_clades_app a b : slots_clades (a ++ b) = slots_clades a ++ slots_clades b.
Proof. apply flat_map_app. Qed.
Lemma slots_clades_kids sl : slots_clades sl = kclades (kids_of sl).
Proof. induction sl as [|[[e ch]|] r IH]; simpl; auto. now rewrite IH. Qed.

Lemma leaves_nonempty t : leaves t <> [].
Proof.
  induction t as [n c sl IH] using utree_ind'. rewrite leaves_unfold.
  apply Forall_slots_kids in IH.
  destruct (kids_of sl) as [|[e ch] ks]; [discriminate|].
  inversion IH; subst. simpl in *. unfold kleaves. simpl.
  destruct (leaves ch); [congruence|discriminate].
Qed.

Lemma leaves_child n cm sl e c : In (Some (e, c)) sl -> incl (leaves c) (leaves (UNode n cm sl)).
Proof.
  intros H y Hy. rewrite leaves_unfold. apply kids_of_In in H.
  destruct (kids_of sl) as [|p ks] eqn:E; [destruct H|].
  unfold kleaves. apply in_flat_map. exists (e, c). auto.
Qed.

(** every clade is the sorted set of a non-empty list of leaves of the tree *)
Lemma clades_spec t A :
  In A (clades t) -> exists l, A = sset l /\ l <> [] /\ incl l (leaves t).
Proof.
  revert A. induction t as [n c sl IH] using utree_ind'. intros A HA.
  rewrite clades_unfold in HA. unfold slots_clades in HA. apply in_flat_map in HA.
  destruct HA as [[[e ch]|] [Hs HA]]; [|destruct HA].
  rewrite Forall_forall in IH. specialize (IH _ Hs). simpl in IH.
  pose proof (leaves_child n c sl e ch Hs) as Hinc.
  destruct HA as [<-|HA].
  - exists (leaves ch). split; auto. split; auto. apply leaves_nonempty.
  - destruct (IH A HA) as [l [E [Hne Hl]]]. exists l. split; auto. split; auto.
    intros y Hy. apply Hinc, Hl, Hy.
Qed.

Lemma clades_sub t A : In A (clades t) -> incl A (leaves t).
Proof.
  intros H. destruct (clades_spec t A H) as [l [-> [_ Hl]]]. intros y Hy.
  apply (proj1 (sset_In _ _)) in Hy. exact (Hl y Hy).
Qed.
Lemma clades_sorted t A : In A (clades t) -> StronglySorted slt A.
Proof. intros H. destruct (clades_spec t A H) as [l [-> _]]. apply sset_sorted. Qed.
Lemma clades_nonempty t A : In A (clades t) -> A <> [].
Proof.
  intros H. destruct (clades_spec t A H) as [l [-> [Hne _]]]. now apply sset_nonempty.
Qed.

Lemma kclades_single p A : In A (kclades [p]) -> A <> [] /\ incl A (leaves (snd p)).
Proof.
  unfold kclades. simpl. rewrite app_nil_r. intros [<-|H].
  - split; [apply sset_nonempty, leaves_nonempty|]. intros y Hy. now apply (proj1 (sset_In _ _)) in Hy.
  - split; [eapply clades_nonempty; eauto|now apply clades_sub].
Qed.

Lemma kclades_incl ks A : In A (kclades ks) -> A <> [] /\ incl A (kleaves ks).
Proof.
  unfold kclades at 1. intros H. apply in_flat_map in H. destruct H as [p [Hp HA]].
  destruct (kclades_single p A) as [H1 H2].
  { unfold kclades. simpl. rewrite app_nil_r. exact HA. }
  split; auto. intros y Hy. unfold kleaves. apply in_flat_map. exists p. auto.
Qed.

(** ** the clades of a binary tree with distinct tips are pairwise distinct *)
Definition proper (c : utree) : Prop :=
  forall A, In A (clades c) -> exists y, In y (leaves c) /\ ~ In y A.

Lemma kclades_nodup ks :
  Forall (fun p => NoDup (clades (snd p)) /\ proper (snd p)) ks ->
  NoDup (kleaves ks) -> NoDup (kclades ks).
Proof.
  induction 1 as [|[e c] ks [Hc Hp] Hks IH]; intros ND; [constructor|].
  change (kleaves ((e, c) :: ks)) with (leaves c ++ kleaves ks) in ND.
  change (kclades ((e, c) :: ks)) with (sset (leaves c) :: clades c ++ kclades ks).
  simpl snd in *.
  assert (Hdisj : forall y, In y (leaves c) -> In y (kleaves ks) -> False).
  { intros y. apply NoDup_app_disj. exact ND. }
  constructor.
  - rewrite in_app_iff. intros [H|H].
    + destruct (Hp _ H) as [y [Hy1 Hy2]]. apply Hy2. apply sset_In. exact Hy1.
    + destruct (kclades_incl ks _ H) as [_ Hinc].
      destruct (leaves c) as [|y r] eqn:E; [exact (leaves_nonempty c E)|].
      apply (Hdisj y); [simpl; auto|]. apply Hinc. apply sset_In. simpl; auto.
  - apply NoDup_app_intro; auto.
    + apply IH. eapply NoDup_app_r; eauto.
    + intros A HA1 HA2. destruct (kclades_incl ks _ HA2) as [Hne Hinc].
      destruct A as [|y r]; [congruence|].
      apply (Hdisj y); [|apply Hinc; simpl; auto].
      apply (clades_sub c _ HA1). simpl; auto.
Qed.

Lemma kleaves_nodup_in ks p : In p ks -> NoDup (kleaves ks) -> NoDup (leaves (snd p)).
Proof.
  induction ks as [|q ks IH]; simpl; intros Hp ND; [tauto|].
  change (kleaves (q :: ks)) with (leaves (snd q) ++ kleaves ks) in ND.
  destruct Hp as [->|Hp].
  - eapply NoDup_app_l; eauto.
  - apply IH; auto. eapply NoDup_app_r; eauto.
Qed.

Lemma sub_nodup c :
  wf_sub c = true -> bin_sub c = true -> NoDup (leaves c) -> NoDup (clades c) /\ proper c.
Proof.
  induction c as [n cm sl IH] using utree_ind'. intros Hw Hb ND.
  rewrite wf_sub_eq in Hw. apply andb_prop in Hw. destruct Hw as [Hw1 Hw2].
  rewrite bin_sub_eq in Hb. apply andb_prop in Hb. destruct Hb as [Hb1 Hb2].
  apply Nat.eqb_eq in Hw1. rewrite length_slots, Hw1 in Hb1.
  rewrite sub_all_kids in Hw2, Hb2. apply Forall_slots_kids in IH.
  unfold proper. rewrite clades_unfold, slots_clades_kids. rewrite leaves_unfold in *.
  destruct (kids_of sl) as [|[e1 c1] [|[e2 c2] [|p3 ks]]]; simpl in Hb1; try discriminate.
  - simpl. split; [constructor|intros A []].
  - assert (F : Forall (fun p => NoDup (clades (snd p)) /\ proper (snd p)) [(e1, c1); (e2, c2)]).
    { apply Forall_forall. intros p Hp. rewrite Forall_forall in IH.
      rewrite forallb_forall in Hw2, Hb2. apply IH; auto.
      eapply kleaves_nodup_in; eauto. }
    split; [apply kclades_nodup; auto|].
    change (kleaves [(e1, c1); (e2, c2)]) with (leaves c1 ++ leaves c2 ++ []) in ND.
    change (kleaves [(e1, c1); (e2, c2)]) with (leaves c1 ++ leaves c2 ++ []).
    rewrite app_nil_r in ND. rewrite app_nil_r.
    assert (EK : kclades [(e1, c1); (e2, c2)] = kclades [(e1, c1)] ++ kclades [(e2, c2)])
      by (exact (flat_map_app _ [(e1, c1)] [(e2, c2)])).
    rewrite EK.
    intros A HA. apply in_app_or in HA. destruct HA as [HA|HA].
    + destruct (kclades_single _ _ HA) as [_ Hinc]. simpl snd in Hinc.
      destruct (leaves c2) as [|y r] eqn:E; [exact (False_ind _ (leaves_nonempty c2 E))|].
      exists y. split; [apply in_or_app; simpl; auto|]. intros Hy.
      apply (NoDup_app_disj _ _ y ND); [apply Hinc, Hy|simpl; auto].
    + destruct (kclades_single _ _ HA) as [_ Hinc]. simpl snd in Hinc.
      destruct (leaves c1) as [|y r] eqn:E; [exact (False_ind _ (leaves_nonempty c1 E))|].
      exists y. split; [apply in_or_app; simpl; auto|]. intros Hy.
      apply (NoDup_app_disj _ _ y ND); [simpl; auto|apply Hinc, Hy].
Qed.

Lemma root_nodup t :
  sub_all wf_sub (uslots t) = true -> sub_all bin_sub (uslots t) = true ->
  kids t <> [] -> NoDup (leaves t) -> NoDup (clades t).
Proof.
  destruct t as [n cm sl]. unfold kids. simpl uslots. intros Hw Hb Hk ND.
  rewrite clades_unfold, slots_clades_kids. rewrite leaves_unfold in ND.
  destruct (kids_of sl) as [|p0 ks0] eqn:E; [congruence|]. rewrite <- E in *.
  rewrite sub_all_kids in Hw, Hb. rewrite forallb_forall in Hw, Hb.
  apply kclades_nodup; auto. apply Forall_forall. intros p Hp.
  apply sub_nodup; auto. eapply kleaves_nodup_in; eauto.
Qed.

(** * One graft, on the tree *)
Lemma clades_replace n c pre e ch r :
  clades (UNode n c (pre ++ Some (e, ch) :: r)) =
  slots_clades pre ++ (sset (leaves ch) :: clades ch) ++ slots_clades r.
Proof. rewrite clades_unfold, slots_clades_app. reflexivity. Qed.

Lemma clades_graft_node x e1 e2 ch :
  sset (leaves (graft_node e1 e2 (tip_node x) ch)) :: clades (graft_node e1 e2 (tip_node x) ch) =
  sinsert x (sset (leaves ch)) :: [x] :: sset (leaves ch) :: clades ch.
Proof.
  unfold graft_node, tip_node. simpl. rewrite !app_nil_r. reflexivity.
Qed.

Lemma grafts_go_GR x n c l :
  Forall (fun s => match s with
                   | Some (_, t) =>
                     ~ In x (leaves t) ->
                     sub_all wf_sub (uslots t) = true -> sub_all bin_sub (uslots t) = true ->
                     Forall2 (fun g C => GR x (clades t) (clades g) C)
                             (grafts (tip_node x) t) (clades t)
                   | None => True end) l ->
  forall pre,
    (forall A, In A (slots_clades (pre ++ l)) -> ~ In x A) ->
    sub_all wf_sub (pre ++ l) = true -> sub_all bin_sub (pre ++ l) = true ->
    Forall2 (fun g C => GR x (slots_clades (pre ++ l)) (clades g) C)
            (grafts_go (tip_node x) n c pre l) (slots_clades l).
Proof.
  induction 1 as [|[[e ch]|] r Hs Hr IH]; intros pre Hx Hsw Hsb.
  - constructor.
  - assert (Hch : wf_sub ch = true /\ bin_sub ch = true).
    { rewrite sub_all_app in Hsw, Hsb. simpl in Hsw, Hsb.
      apply andb_prop in Hsw. destruct Hsw as [_ Hsw]. apply andb_prop in Hsw.
      apply andb_prop in Hsb. destruct Hsb as [_ Hsb]. apply andb_prop in Hsb. tauto. }
    destruct Hch as [Hw Hb].
    pose proof (clades_replace n c pre e ch r) as ET. rewrite clades_unfold in ET.
    set (D := sset (leaves ch)) in *.
    assert (HxPR : forall A, In A (slots_clades pre ++ slots_clades r) -> ~ In x A).
    { intros A HA. apply Hx. rewrite ET. rewrite !in_app_iff in *. tauto. }
    assert (HxD : ~ In x D).
    { apply Hx. rewrite ET. rewrite !in_app_iff. right; left. simpl; auto. }
    assert (HxK : forall A, In A (clades ch) -> ~ In x A).
    { intros A HA. apply Hx. rewrite ET. rewrite !in_app_iff. right; left. simpl; auto. }
    assert (Hxl : ~ In x (leaves ch)).
    { intros H. apply HxD. apply sset_In. exact H. }
    simpl grafts_go. change (slots_clades (Some (e, ch) :: r)) with ((D :: clades ch) ++ slots_clades r).
    simpl app. constructor; [|apply Forall2_app].
    + rewrite ET, clades_replace, clades_graft_node. fold D.
      apply GR_wrap; auto. apply GR_head; auto.
    + destruct ch as [n' c' sl'].
      rewrite wf_sub_eq in Hw. apply andb_prop in Hw. destruct Hw as [Hw1 Hw2].
      rewrite bin_sub_eq in Hb. apply andb_prop in Hb. destruct Hb as [Hb1 Hb2].
      pose proof (grafts_ok x (UNode n' c' sl') Hw2 Hb2) as Hok.
      eapply Forall2_map_in; [exact (Hs Hxl Hw2 Hb2)|exact Hok|].
      intros g' C HC HGR (Q1 & Q2 & Q3 & Q4 & Q5 & Q6 & Q7 & Q8 & Q9).
      rewrite ET, clades_replace.
      assert (EL : sset (leaves g') = sinsert x D).
      { rewrite (leaves_kleaves g' Q6). rewrite (sset_perm _ _ Q9).
        rewrite <- (leaves_kleaves _ Q5). reflexivity. }
      rewrite EL. apply GR_wrap; auto. apply GR_deep; auto.
      intros y Hy. apply sset_In. exact (clades_sub _ _ HC y Hy).
    + specialize (IH (pre ++ [Some (e, ch)])). rewrite <- !app_assoc in IH. simpl in IH.
      apply IH; assumption.
  - simpl grafts_go. change (slots_clades (None :: r)) with (slots_clades r).
    specialize (IH (pre ++ [None])). rewrite <- !app_assoc in IH. simpl in IH.
    apply IH; assumption.
Qed.

Lemma grafts_GR x t :
  ~ In x (leaves t) ->
  sub_all wf_sub (uslots t) = true -> sub_all bin_sub (uslots t) = true ->
  Forall2 (fun g C => GR x (clades t) (clades g) C) (grafts (tip_node x) t) (clades t).
Proof.
  induction t as [n c sl IH] using utree_ind'. intros Hx Hw Hb.
  rewrite grafts_unfold, clades_unfold.
  apply (grafts_go_GR x n c sl IH []); auto.
  intros A HA Hx'. apply Hx. exact (clades_sub (UNode n c sl) A HA x Hx').
Qed.

(** * What the set of clades of the result determines *)
Definition clade_ok (x : string) (T : list (list string)) : Prop :=
  forall A, In A T -> StronglySorted slt A /\ A <> [] /\ ~ In x A.

Lemma clades_clade_ok x t : ~ In x (leaves t) -> clade_ok x (clades t).
Proof.
  intros Hx A HA. split; [eapply clades_sorted; eauto|]. split; [eapply clades_nonempty; eauto|].
  intros H. apply Hx. exact (clades_sub t A HA x H).
Qed.

Lemma GR_same_branch x T1 T2 G1 G2 C1 C2 :
  GR x T1 G1 C1 -> GR x T2 G2 C2 -> (forall A, In A G1 <-> In A G2) ->
  StronglySorted slt C1 /\ C1 <> [] /\ ~ In x C1 ->
  StronglySorted slt C2 /\ C2 <> [] /\ ~ In x C2 ->
  C1 = C2.
Proof.
  intros (N1 & A1 & _ & _) (N2 & A2 & _ & _) HG (S1 & E1 & X1) (S2 & E2 & X2).
  assert (H12 : incl C2 C1).
  { apply HG in N1. destruct (A2 _ N1) as [E|Hinc].
    - apply sinsert_In; auto.
    - exfalso. exact (sinsert_not_single x C1 E1 X1 E).
    - eapply sinsert_incl; eauto. }
  assert (H21 : incl C1 C2).
  { apply HG in N2. destruct (A1 _ N2) as [E|Hinc].
    - apply sinsert_In; auto.
    - exfalso. exact (sinsert_not_single x C2 E2 X2 E).
    - eapply sinsert_incl; eauto. }
  apply sorted_ext; auto. intros y. split; auto.
Qed.

Lemma GR_project x T1 T2 G1 G2 C1 C2 :
  GR x T1 G1 C1 -> GR x T2 G2 C2 -> (forall A, In A G1 <-> In A G2) ->
  clade_ok x T1 -> clade_ok x T2 ->
  forall A, In A T1 -> In A T2.
Proof.
  intros (_ & _ & _ & U1) (_ & _ & D2 & _) HG K1 K2 A HA.
  destruct (K1 A HA) as (SA & EA & XA).
  destruct (U1 A HA) as [H|H]; apply HG in H; destruct (D2 _ H) as [E|[B [HB [E|E]]]].
  - subst A. exfalso. apply XA. simpl; auto.
  - subst B. exact HB.
  - exfalso. apply XA. rewrite E. apply sinsert_In. auto.
  - exfalso. exact (sinsert_not_single x A EA XA E).
  - destruct (K2 B HB) as (_ & _ & XB). exfalso. apply XB. rewrite <- E. apply sinsert_In. auto.
  - destruct (K2 B HB) as (SB & _ & XB). rewrite (sinsert_inj x A B SA SB XA XB E). exact HB.
Qed.

Definition ceq (t1 t2 : utree) : Prop := forall A, In A (clades t1) <-> In A (clades t2).

Lemma topo_inv_notin d L t x : topo_inv d L t -> ~ In x L -> ~ In x (leaves t).
Proof.
  intros (_ & _ & _ & _ & _ & HP) Hx H. apply Hx. eapply Permutation_in; eauto.
Qed.

Lemma grafts_distinct d L x t :
  topo_inv d L t -> NoDup L -> ~ In x L ->
  ForallOrdPairs (fun g1 g2 => ~ ceq g1 g2) (grafts (tip_node x) t).
Proof.
  intros Ht ND Hx. pose proof (topo_inv_notin _ _ _ _ Ht Hx) as Hxl.
  destruct Ht as (H1 & H2 & H3 & H4 & H5 & H6).
  apply (Forall2_FOP (fun g C => GR x (clades t) (clades g) C) ceq _ (clades t)).
  - apply grafts_GR; auto.
  - apply root_nodup; auto. eapply Permutation_NoDup; [symmetry; exact H6|exact ND].
  - intros g1 C1 g2 C2 HC1 HC2 G1 G2 HE.
    eapply GR_same_branch; eauto; apply (clades_clade_ok x t Hxl); auto.
Qed.

Lemma grafts_project d L x t1 t2 g1 g2 :
  topo_inv d L t1 -> topo_inv d L t2 -> ~ In x L ->
  In g1 (grafts (tip_node x) t1) -> In g2 (grafts (tip_node x) t2) ->
  ceq g1 g2 -> ceq t1 t2.
Proof.
  intros Ht1 Ht2 Hx Hg1 Hg2 HE.
  pose proof (topo_inv_notin _ _ _ _ Ht1 Hx) as Hx1.
  pose proof (topo_inv_notin _ _ _ _ Ht2 Hx) as Hx2.
  destruct Ht1 as (_ & _ & _ & W1 & B1 & _). destruct Ht2 as (_ & _ & _ & W2 & B2 & _).
  destruct (Forall2_In_l _ _ _ _ (grafts_GR x t1 Hx1 W1 B1) Hg1) as [C1 [_ G1]].
  destruct (Forall2_In_l _ _ _ _ (grafts_GR x t2 Hx2 W2 B2) Hg2) as [C2 [_ G2]].
  intros A. split.
  - eapply GR_project; eauto using clades_clade_ok.
  - eapply GR_project; eauto using clades_clade_ok. intros B. symmetry. apply HE.
Qed.

(** * The recursion, before the final [clone] *)
Fixpoint topo_pre (fuel : nat) (names : list string) (total : nat) (t : utree) : list utree :=
  match fuel with
  | O => [t]
  | S f => flat_map (topo_pre f names (S total)) (grafts (tip_node (topo_name names total)) t)
  end.

Lemma map_flat_map {A B C} (f : B -> C) (g : A -> list B) l :
  map f (flat_map g l) = flat_map (fun x => map f (g x)) l.
Proof. induction l as [|a l IH]; simpl; auto. now rewrite map_app, IH. Qed.

Lemma topo_rec_pre names fuel : forall total t,
  topo_rec fuel names total t = map clone (topo_pre fuel names total t).
Proof.
  induction fuel as [|f IH]; intros total t; simpl; auto.
  rewrite map_flat_map. apply flat_map_ext. intros a. apply IH.
Qed.

Lemma topo_pre_inv d names fuel : forall total t L,
  topo_inv d L t ->
  Forall (topo_inv d (L ++ map (topo_name names) (seq total fuel))) (topo_pre fuel names total t).
Proof.
  induction fuel as [|f IH]; intros total t L Ht.
  - simpl. constructor; [|constructor]. now rewrite app_nil_r.
  - simpl topo_pre. apply Forall_flat_map.
    eapply Forall_impl; [|exact (grafts_inv d L (topo_name names total) t Ht)].
    intros t1 Ht1. simpl in Ht1.
    eapply Forall_impl; [|exact (IH (S total) t1 _ Ht1)].
    intros t'. apply topo_inv_perm. simpl. apply Permutation_middle.
Qed.

Lemma NoDup_step (L : list string) x R :
  NoDup (L ++ x :: R) -> ~ In x L /\ NoDup ((x :: L) ++ R).
Proof.
  intros H. split.
  - intros Hx. apply NoDup_remove_2 in H. apply H. apply in_or_app. auto.
  - eapply Permutation_NoDup; [|exact H]. symmetry. apply Permutation_middle.
Qed.

Lemma topo_pre_project d names fuel : forall total t1 t2 L u1 u2,
  topo_inv d L t1 -> topo_inv d L t2 ->
  NoDup (L ++ map (topo_name names) (seq total fuel)) ->
  In u1 (topo_pre fuel names total t1) -> In u2 (topo_pre fuel names total t2) ->
  ceq u1 u2 -> ceq t1 t2.
Proof.
  induction fuel as [|f IH]; intros total t1 t2 L u1 u2 Ht1 Ht2 ND H1 H2 HE.
  - simpl in H1, H2. destruct H1 as [<-|[]]. destruct H2 as [<-|[]]. exact HE.
  - simpl in H1, H2, ND. apply NoDup_step in ND. destruct ND as [Hx ND].
    apply in_flat_map in H1. destruct H1 as [g1 [Hg1 H1]].
    apply in_flat_map in H2. destruct H2 as [g2 [Hg2 H2]].
    pose proof (grafts_inv d L (topo_name names total) t1 Ht1) as I1.
    pose proof (grafts_inv d L (topo_name names total) t2 Ht2) as I2.
    rewrite Forall_forall in I1, I2.
    eapply grafts_project; eauto.
Qed.

Lemma topo_pre_distinct d names fuel : forall total t L,
  topo_inv d L t -> NoDup (L ++ map (topo_name names) (seq total fuel)) ->
  ForallOrdPairs (fun u1 u2 => ~ ceq u1 u2) (topo_pre fuel names total t).
Proof.
  induction fuel as [|f IH]; intros total t L Ht ND.
  - simpl. constructor; constructor.
  - simpl in ND. pose proof ND as ND0. apply NoDup_step in ND. destruct ND as [Hx ND].
    pose proof (grafts_inv d L (topo_name names total) t Ht) as I1. rewrite Forall_forall in I1.
    simpl topo_pre. apply FOP_flat_map.
    + eapply FOP_impl_in; [|apply (grafts_distinct d L _ t Ht); auto].
      * intros a b Ha Hb Hab u u' Hu Hu' HE. apply Hab.
        eapply (topo_pre_project d names f (S total) a b); eauto.
      * eapply NoDup_app_l; eauto.
    + intros a Ha. eapply IH; eauto.
Qed.

(** * From the keys of Spec/GenShape.v to the set of clades *)
Lemma kclades_clone ks :
  Forall (fun q => clades (clone_sub (snd q)) = clades (snd q)) ks ->
  kclades (map (fun p => (clone_e (fst p), clone_sub (snd p))) ks) = kclades ks.
Proof.
  induction 1 as [|q r Hq Hr IH]; [reflexivity|].
  unfold kclades in *. simpl. now rewrite clone_sub_leaves, Hq, IH.
Qed.

Lemma clone_sub_clades t : clades (clone_sub t) = clades t.
Proof.
  induction t as [n c sl IH] using utree_ind'.
  rewrite clone_sub_eq, !clades_unfold. apply Forall_slots_kids in IH.
  change (slots_clades (None :: cl_slots sl)) with (slots_clades (cl_slots sl)).
  rewrite !slots_clades_kids, kids_of_cl_slots. now apply kclades_clone.
Qed.

Lemma clone_clades t : clades (clone t) = clades t.
Proof.
  destruct t as [n c sl]. rewrite clone_eq, !clades_unfold.
  rewrite !slots_clades_kids, kids_of_cl_slots. apply kclades_clone.
  apply Forall_forall. intros q _. apply clone_sub_clades.
Qed.

Lemma clone_tipset L d t : topo_inv d L t -> tipset (clone t) = sset L.
Proof.
  intros (_ & _ & _ & _ & _ & HP). unfold tipset. rewrite clone_leaves. now apply sset_perm.
Qed.

Lemma str_list_eqb_eq a : forall b, list_eqb String.eqb a b = true -> a = b.
Proof.
  induction a as [|x a IH]; intros [|y b]; simpl; intros H; try discriminate; auto.
  apply andb_prop in H. destruct H as [H1 H2]. apply String.eqb_eq in H1. subst y.
  f_equal. auto.
Qed.

(** ** rooted: the key is the set of clades minus the clade of all tips, which every planted
    tree has *)
Lemma key_rooted_ceq L u1 u2 :
  topo_inv 1 L u1 -> topo_inv 1 L u2 ->
  topo_key true (clone u1) = topo_key true (clone u2) -> ceq u1 u2.
Proof.
  intros I1 I2. unfold topo_key.
  rewrite (clone_tipset L 1 u1 I1), (clone_tipset L 1 u2 I2), !clone_clades.
  assert (Hall : forall u, topo_inv 1 L u -> In (sset L) (clades u)).
  { intros [n c sl] (H1 & H2 & _ & _ & _ & H6). simpl uslots in *.
    destruct sl as [|[[e ch]|] [|s2 r]]; try discriminate.
    rewrite clades_unfold. simpl. left. apply sset_perm. rewrite <- H6.
    rewrite leaves_unfold. simpl. unfold kleaves. simpl. now rewrite app_nil_r. }
  intros HK A.
  assert (HF : forall B, In B (filter (fun s => negb (sset_eqb s (sset L))) (clades u1)) <->
                         In B (filter (fun s => negb (sset_eqb s (sset L))) (clades u2))).
  { exact (lset_eq_In _ _ HK). }
  specialize (HF A). rewrite !filter_In in HF.
  destruct (sset_eqb A (sset L)) eqn:E.
  - apply str_list_eqb_eq in E. subst A. split; intros _; apply Hall; auto.
  - simpl in HF. tauto.
Qed.

(** ** unrooted: the root is the node where the paths between the first three tips meet, so a
    clade contains at most one of them and its complement at least two: the clade is
    recovered from either side of the bipartition *)
Section Few3.
  Variables r1 r2 r3 : string.
  Variable all : list string.

  Definition many3 (B : list string) : bool :=
    (smem r1 B && smem r2 B) || (smem r1 B && smem r3 B) || (smem r2 B && smem r3 B).
  Definition few3 (A : list string) : Prop := many3 A = false.
  Definition side3 (B : list string) : list string := if many3 B then sdiff all B else B.

  Lemma side3_id A : few3 A -> side3 A = A.
  Proof. unfold few3, side3. now intros ->. Qed.

  Lemma smem_sdiff r A : In r all -> smem r (sdiff all A) = negb (smem r A).
  Proof.
    intros Hr. destruct (smem r A) eqn:E; simpl.
    - destruct (smem r (sdiff all A)) eqn:F; auto. apply smem_In in F.
      unfold sdiff in F. apply filter_In in F. destruct F as [_ F]. rewrite E in F. discriminate.
    - apply smem_In. unfold sdiff. apply filter_In. rewrite E. auto.
  Qed.

  Lemma sdiff_sdiff A :
    StronglySorted slt all -> StronglySorted slt A -> incl A all -> sdiff all (sdiff all A) = A.
  Proof.
    intros Sall SA Hinc. apply sorted_ext; auto.
    - unfold sdiff. apply filter_sorted. exact Sall.
    - intros y. unfold sdiff at 1. rewrite filter_In. split.
      + intros [Hy H]. rewrite (smem_sdiff y A Hy), negb_involutive in H. now apply smem_In.
      + intros Hy. split; [auto|]. rewrite (smem_sdiff y A (Hinc y Hy)), negb_involutive.
        now apply smem_In.
  Qed.

  Lemma side3_compl A :
    In r1 all -> In r2 all -> In r3 all ->
    StronglySorted slt all -> StronglySorted slt A -> incl A all ->
    few3 A -> side3 (sdiff all A) = A.
  Proof.
    intros H1 H2 H3 Sall SA Hinc HA. unfold side3.
    assert (E : many3 (sdiff all A) = true).
    { unfold few3, many3 in *. rewrite !smem_sdiff by assumption.
      destruct (smem r1 A), (smem r2 A), (smem r3 A); simpl in *; auto; discriminate. }
    rewrite E. now apply sdiff_sdiff.
  Qed.

  Lemma side3_canon A :
    In r1 all -> In r2 all -> In r3 all ->
    StronglySorted slt all -> StronglySorted slt A -> incl A all ->
    few3 A -> side3 (canon_side all A) = A.
  Proof.
    intros. unfold canon_side. destruct all as [|m all'] eqn:E; [now apply side3_id|].
    rewrite <- E in *. destruct (smem m A); [now apply side3_compl|now apply side3_id].
  Qed.

  (** adding a tip other than the three keeps the invariant *)
  Lemma few3_weaken A A0 :
    (forall r, (r = r1 \/ r = r2 \/ r = r3) -> In r A -> In r A0) -> few3 A0 -> few3 A.
  Proof.
    unfold few3, many3. intros H H0.
    assert (F : forall r, (r = r1 \/ r = r2 \/ r = r3) -> smem r A0 = false -> smem r A = false).
    { intros r Hr E. destruct (smem r A) eqn:F; auto. apply smem_In in F.
      apply H in F; auto. apply smem_In in F. congruence. }
    destruct (smem r1 A0) eqn:E1, (smem r2 A0) eqn:E2, (smem r3 A0) eqn:E3; simpl in H0;
      try discriminate;
      repeat match goal with
             | E : smem ?r A0 = false |- _ => rewrite (F r) by (auto; tauto); clear E
             end; simpl; rewrite ?andb_false_r; auto.
  Qed.

  Lemma GR_few3 x T G C :
    GR x T G C -> x <> r1 -> x <> r2 -> x <> r3 ->
    (forall A, In A T -> few3 A) -> forall A, In A G -> few3 A.
  Proof.
    intros (_ & _ & D & _) X1 X2 X3 HT A HA.
    destruct (D A HA) as [->|[A0 [HA0 [-> | ->]]]].
    - unfold few3, many3.
      assert (F : forall r, r <> x -> smem r [x] = false).
      { intros r Hr. destruct (smem r [x]) eqn:E; auto. apply smem_In in E. simpl in E.
        destruct E as [E|[]]. congruence. }
      rewrite !F by congruence. reflexivity.
    - auto.
    - apply (few3_weaken _ A0); auto. intros r Hr Hin. apply sinsert_In in Hin.
      destruct Hin as [->|Hin]; auto. exfalso. destruct Hr as [Hr|[Hr|Hr]]; congruence.
  Qed.
End Few3.

Lemma topo_pre_few3 r1 r2 r3 d names fuel : forall total t L,
  In r1 L -> In r2 L -> In r3 L ->
  topo_inv d L t -> NoDup (L ++ map (topo_name names) (seq total fuel)) ->
  (forall A, In A (clades t) -> few3 r1 r2 r3 A) ->
  Forall (fun u => forall A, In A (clades u) -> few3 r1 r2 r3 A) (topo_pre fuel names total t).
Proof.
  induction fuel as [|f IH]; intros total t L R1 R2 R3 Ht ND HF.
  - simpl. constructor; auto.
  - simpl in ND. apply NoDup_step in ND. destruct ND as [Hx ND].
    simpl topo_pre. apply Forall_flat_map. apply Forall_forall. intros g Hg.
    pose proof (grafts_inv d L (topo_name names total) t Ht) as I1. rewrite Forall_forall in I1.
    apply (IH (S total) g (topo_name names total :: L)); simpl; auto.
    pose proof (topo_inv_notin _ _ _ _ Ht Hx) as Hxl.
    destruct Ht as (_ & _ & _ & W & B & _).
    destruct (Forall2_In_l _ _ _ _ (grafts_GR _ t Hxl W B) Hg) as [C [_ G]].
    eapply GR_few3; eauto; intros E; apply Hx; rewrite E; assumption.
Qed.

Lemma key_unrooted_ceq r1 r2 r3 L d u1 u2 :
  In r1 L -> In r2 L -> In r3 L ->
  topo_inv d L u1 -> topo_inv d L u2 ->
  (forall A, In A (clades u1) -> few3 r1 r2 r3 A) ->
  (forall A, In A (clades u2) -> few3 r1 r2 r3 A) ->
  topo_key false (clone u1) = topo_key false (clone u2) -> ceq u1 u2.
Proof.
  intros R1 R2 R3 I1 I2 F1 F2. unfold topo_key.
  rewrite (clone_tipset L d u1 I1), (clone_tipset L d u2 I2), !clone_clades.
  intros HK.
  assert (HM : forall B, In B (map (canon_side (sset L)) (clades u1)) <->
                         In B (map (canon_side (sset L)) (clades u2))).
  { exact (lset_eq_In _ _ HK). }
  assert (Hside : forall u, topo_inv d L u -> (forall A, In A (clades u) -> few3 r1 r2 r3 A) ->
                  forall A, In A (clades u) ->
                            side3 r1 r2 r3 (sset L) (canon_side (sset L) A) = A).
  { intros u (_ & _ & _ & _ & _ & HP) HF A HA.
    apply side3_canon; auto; try (apply sset_In; assumption).
    - apply sset_sorted.
    - eapply clades_sorted; eauto.
    - intros y Hy. apply sset_In. eapply Permutation_in; [exact HP|].
      exact (clades_sub u A HA y Hy). }
  assert (Hdir : forall u u', topo_inv d L u -> topo_inv d L u' ->
                 (forall A, In A (clades u) -> few3 r1 r2 r3 A) ->
                 (forall A, In A (clades u') -> few3 r1 r2 r3 A) ->
                 (forall B, In B (map (canon_side (sset L)) (clades u)) ->
                            In B (map (canon_side (sset L)) (clades u'))) ->
                 forall A, In A (clades u) -> In A (clades u')).
  { intros u u' I I' F F' Hm A HA.
    assert (H := Hm _ (in_map (canon_side (sset L)) _ _ HA)).
    apply in_map_iff in H. destruct H as [A' [E HA']].
    rewrite <- (Hside u I F A HA), <- E, (Hside u' I' F' A' HA'). exact HA'. }
  intros A. split; eapply Hdir; eauto; intros B; apply HM.
Qed.

(** * Distinctness *)
Lemma names_prefix names k n : k <= n ->
  NoDup (map (topo_name names) (seq 0 n)) ->
  NoDup (map (topo_name names) (seq 0 k) ++ map (topo_name names) (seq k (n - k))).
Proof.
  intros Hk ND. rewrite <- map_app, <- seq_app. replace (k + (n - k)) with n by lia. exact ND.
Qed.

Theorem all_topologies_rooted_distinct_names n names ts : 2 <= n ->
  NoDup (map (topo_name names) (seq 0 n)) ->
  all_topologies n true names = Ok ts -> NoDup (map (topo_key true) ts).
Proof.
  intros Hn ND H. rewrite (all_topologies_rooted_eq n names ts Hn H).
  rewrite topo_rec_pre, map_map. apply FOP_NoDup. apply FOP_map.
  pose proof (names_prefix names 1 n ltac:(lia) ND) as ND1.
  pose proof (topo_pre_inv 1 names (n - 1) 1 _ _ (start_rooted_inv names)) as Hinv.
  rewrite Forall_forall in Hinv.
  eapply FOP_impl_in;
    [|exact (topo_pre_distinct 1 names (n - 1) 1 _ _ (start_rooted_inv names) ND1)].
  intros a b Ha Hb Hab HK. apply Hab. eapply key_rooted_ceq; eauto.
Qed.

Lemma start_unrooted_few3 names :
  NoDup (map (topo_name names) (seq 0 3)) ->
  forall A, In A (clades (start_unrooted names)) ->
            few3 (topo_name names 0) (topo_name names 1) (topo_name names 2) A.
Proof.
  intros ND A HA. simpl in ND.
  inversion ND as [|? ? N0 ND']; subst. inversion ND' as [|? ? N1 ND'']; subst.
  simpl in N0, N1.
  assert (F : forall a b, a <> b -> smem a [b] = false).
  { intros a b Hab. destruct (smem a [b]) eqn:E; auto. apply smem_In in E. simpl in E.
    destruct E as [E|[]]. congruence. }
  unfold start_unrooted, tip_node in HA. simpl in HA.
  unfold few3, many3.
  destruct HA as [<-|[<-|[<-|[]]]].
  - rewrite (F (topo_name names 1) (topo_name names 0)), (F (topo_name names 2) (topo_name names 0)) by (intros E; rewrite E in *; tauto).
    rewrite !andb_false_r. reflexivity.
  - rewrite (F (topo_name names 0) (topo_name names 1)), (F (topo_name names 2) (topo_name names 1)) by (intros E; rewrite E in *; tauto).
    rewrite !andb_false_r. reflexivity.
  - rewrite (F (topo_name names 0) (topo_name names 2)), (F (topo_name names 1) (topo_name names 2)) by (intros E; rewrite E in *; tauto).
    reflexivity.
Qed.

Theorem all_topologies_unrooted_distinct_names n names ts : 3 <= n ->
  NoDup (map (topo_name names) (seq 0 n)) ->
  all_topologies n false names = Ok ts -> NoDup (map (topo_key false) ts).
Proof.
  intros Hn ND H. rewrite (all_topologies_unrooted_eq n names ts Hn H).
  rewrite topo_rec_pre, map_map. apply FOP_NoDup. apply FOP_map.
  pose proof (names_prefix names 3 n ltac:(lia) ND) as ND3.
  assert (ND0 : NoDup (map (topo_name names) (seq 0 3))) by (eapply NoDup_app_l; eauto).
  pose proof (topo_pre_inv 3 names (n - 3) 3 _ _ (start_unrooted_inv names)) as Hinv.
  rewrite Forall_forall in Hinv.
  assert (R : In (topo_name names 0) (map (topo_name names) (seq 0 3)) /\
              In (topo_name names 1) (map (topo_name names) (seq 0 3)) /\
              In (topo_name names 2) (map (topo_name names) (seq 0 3))) by (simpl; repeat split; auto 6).
  destruct R as (R1 & R2 & R3).
  pose proof (topo_pre_few3 _ _ _ 3 names (n - 3) 3 _ _ R1 R2 R3 (start_unrooted_inv names) ND3
                            (start_unrooted_few3 names ND0)) as Hfew.
  rewrite Forall_forall in Hfew.
  eapply FOP_impl_in;
    [|exact (topo_pre_distinct 3 names (n - 3) 3 _ _ (start_unrooted_inv names) ND3)].
  intros a b Ha Hb Hab HK. apply Hab.
  apply (key_unrooted_ceq (topo_name names 0) (topo_name names 1) (topo_name names 2)
           (map (topo_name names) (seq 0 3) ++ map (topo_name names) (seq 3 (n - 3))) 3 a b);
    [apply in_or_app; left; assumption | apply in_or_app; left; assumption
     | apply in_or_app; left; assumption
     | exact (Hinv a Ha) | exact (Hinv b Hb) | exact (Hfew a Ha) | exact (Hfew b Hb) | exact HK].
Qed.

(** ** default tip names "Tip1", "Tip2", ...: pairwise distinct (Proofs/TreeGenNames.v) *)
Lemma topo_names_nil_NoDup n : NoDup (map (topo_name []) (seq 0 n)).
Proof.
  apply FinFun.Injective_map_NoDup; [|apply seq_NoDup]. intros a b. apply topo_name_inj.
Qed.

Theorem all_topologies_unrooted_distinct n ts : 3 <= n ->
  all_topologies n false [] = Ok ts -> NoDup (map (topo_key false) ts).
Proof.
  intros Hn. apply all_topologies_unrooted_distinct_names; auto. apply topo_names_nil_NoDup.
Qed.

Theorem all_topologies_rooted_distinct n ts : 2 <= n ->
  all_topologies n true [] = Ok ts -> NoDup (map (topo_key true) ts).
Proof.
  intros Hn. apply all_topologies_rooted_distinct_names; auto. apply topo_names_nil_NoDup.
Qed.

(** ** user-supplied tip names: pairwise distinct by hypothesis *)
Lemma map_nth_seq {A} (d : A) l : map (fun k => nth k l d) (seq 0 (length l)) = l.
Proof.
  induction l as [|a l IH]; simpl; auto.
  f_equal. rewrite <- seq_shift, map_map. exact IH.
Qed.

Lemma topo_names_given names : names <> [] ->
  map (topo_name names) (seq 0 (length names)) = names.
Proof.
  destruct names as [|a l]; [congruence|]. intros _.
  exact (map_nth_seq EmptyString (a :: l)).
Qed.

Theorem all_topologies_unrooted_distinct_given n names ts : 3 <= n ->
  length names = n -> NoDup names ->
  all_topologies n false names = Ok ts -> NoDup (map (topo_key false) ts).
Proof.
  intros Hn Hl ND. apply all_topologies_unrooted_distinct_names; auto.
  rewrite <- Hl, topo_names_given; auto. intros ->. simpl in Hl. lia.
Qed.

Theorem all_topologies_rooted_distinct_given n names ts : 2 <= n ->
  length names = n -> NoDup names ->
  all_topologies n true names = Ok ts -> NoDup (map (topo_key true) ts).
Proof.
  intros Hn Hl ND. apply all_topologies_rooted_distinct_names; auto.
  rewrite <- Hl, topo_names_given; auto. intros ->. simpl in Hl. lia.
Qed.
