(** C05, midpoint rooting, ties between longest paths: which one is chosen.
    - MaxLengthPath: at every node the branch taken is the FIRST neighbour (smallest index in
      neigh[]) whose value (branch length + longest path behind it) is the largest: the
      neighbours before it have a strictly smaller value, those after it a smaller or equal one;
    - RerootMidPoint: the start tip is the FIRST tip, in the order of Tree.Tips(), whose longest
      path has the largest length: the tips before it have a strictly shorter longest path. *)
From Coq Require Import String ZArith QArith Bool Arith Lia Lqa List Permutation Setoid Morphisms.
From GT Require Import Base.UTree Spec.Obs Model.Reroot Model.Outgroup Spec.Unrooted
     Proofs.RerootBase Proofs.Reroot Proofs.Reorder
     Proofs.OutgroupBase Proofs.OutgroupCut Proofs.OutgroupKeep Proofs.OutgroupMidpoint
     Proofs.OutgroupMidDist Proofs.OutgroupMlp Proofs.OutgroupHalf.
Import ListNotations.
Local Close Scope Q_scope.
Local Arguments n_up : simpl never.

(** the value of the neighbour in slot j *)
Definition slot_value (rec : utree -> option (list nat * Q)) (l : list slot) (j : nat) (v : Q) : Prop :=
  exists e c p l', nth_error l j = Some (Some (e, c)) /\ rec c = Some (p, l') /\ v = (l' + elen e)%Q.

Lemma mlp_go_first rec l : forall i best cur best' cur',
  mlp_go rec i l best cur = Some (best', cur') ->
  (best' = best /\ cur' = cur /\ (best <> [] -> forall j v, slot_value rec l j v -> (v <= cur)%Q) /\
   (best = [] -> forall j v, ~ slot_value rec l j v)) \/
  (exists j p, best' = (i + j) :: p /\ slot_value rec l j cur' /\
               (exists e c l', nth_error l j = Some (Some (e, c)) /\ rec c = Some (p, l')) /\
               (best <> [] -> (cur < cur')%Q) /\
               (forall j' v, j' < j -> slot_value rec l j' v -> (v < cur')%Q) /\
               (forall j' v, j < j' -> slot_value rec l j' v -> (v <= cur')%Q)).
Proof.
  induction l as [|s r IH]; intros i best cur best' cur' H.
  - simpl in H. inversion H; subst. left. split; [reflexivity|]. split; [reflexivity|]. split.
    + intros _ j v (e & c & p & l' & Hj & _). destruct j; discriminate.
    + intros _ j v (e & c & p & l' & Hj & _). destruct j; discriminate.
  - destruct s as [[e c]|].
    + simpl in H. destruct (qeqb (elen e) nilv); [discriminate|].
      destruct (rec c) as [[p l']|] eqn:Ec; [|discriminate].
      assert (V0 : forall v, slot_value rec (Some (e, c) :: r) 0 v -> v = (l' + elen e)%Q).
      { intros v (e0 & c0 & p0 & l0 & Hj & Hr & ->). simpl in Hj. inversion Hj; subst. congruence. }
      assert (VS : forall j v, slot_value rec (Some (e, c) :: r) (S j) v <-> slot_value rec r j v).
      { intros j v. unfold slot_value. simpl. tauto. }
      destruct (qltb cur (l' + elen e) || no_path best) eqn:Econd.
      * destruct (IH _ _ _ _ _ H) as [(Hb & Hc & Hle & _)|(j & p1 & Hb & Hv & Hx & Hlt & Hbef & Haft)].
        -- right. exists 0, p. subst best' cur'. rewrite Nat.add_0_r. split; [reflexivity|].
           split; [exists e, c, p, l'; auto|]. split; [exists e, c, l'; auto|].
           split; [|split].
           ++ intros Hne. apply orb_true_iff in Econd as [E|E]; [now apply qltb_true|].
              destruct best; [congruence|discriminate].
           ++ intros j' v Hj'. lia.
           ++ intros [|j'] v Hj' Hv; [lia|]. apply VS in Hv. eapply Hle; [discriminate | exact Hv].
        -- right. exists (S j), p1. replace (i + S j) with (S i + j) by lia. split; [exact Hb|].
           split; [apply VS; exact Hv|].
           split; [destruct Hx as (e1 & c1 & l1 & H1 & H2); exists e1, c1, l1; auto|].
           assert (Hv1 : (l' + elen e < cur')%Q) by (apply Hlt; discriminate).
           split; [|split].
           ++ intros Hne. apply orb_true_iff in Econd as [E|E].
              ** apply qltb_true in E. lra.
              ** destruct best; [congruence|discriminate].
           ++ intros [|j'] v Hj' Hv'.
              ** rewrite (V0 v Hv'). exact Hv1.
              ** apply VS in Hv'. apply (Hbef j'); [lia | exact Hv'].
           ++ intros [|j'] v Hj' Hv'; [lia|]. apply VS in Hv'. apply (Haft j'); [lia | exact Hv'].
      * apply orb_false_iff in Econd as [E1 E2]. apply qltb_false in E1.
        assert (Hne : best <> []) by (intros ->; discriminate).
        destruct (IH _ _ _ _ _ H) as [(Hb & Hc & Hle & _)|(j & p1 & Hb & Hv & Hx & Hlt & Hbef & Haft)].
        -- left. split; [exact Hb|]. split; [exact Hc|]. split.
           ++ intros _ [|j] v Hv; [rewrite (V0 v Hv); exact E1|]. apply VS in Hv. now apply (Hle Hne j).
           ++ intros E. congruence.
        -- right. exists (S j), p1. replace (i + S j) with (S i + j) by lia. split; [exact Hb|].
           split; [apply VS; exact Hv|].
           split; [destruct Hx as (e1 & c1 & l1 & H1 & H2); exists e1, c1, l1; auto|].
           specialize (Hlt Hne).
           split; [intros _; exact Hlt|]. split.
           ++ intros [|j'] v Hj' Hv'.
              ** rewrite (V0 v Hv'). lra.
              ** apply VS in Hv'. apply (Hbef j'); [lia | exact Hv'].
           ++ intros [|j'] v Hj' Hv'; [lia|]. apply VS in Hv'. apply (Haft j'); [lia | exact Hv'].
    + simpl in H.
      assert (V0 : forall v, ~ slot_value rec (None :: r) 0 v).
      { intros v (e0 & c0 & p0 & l0 & Hj & _). discriminate. }
      assert (VS : forall j v, slot_value rec (None :: r) (S j) v <-> slot_value rec r j v).
      { intros j v. unfold slot_value. simpl. tauto. }
      destruct (IH _ _ _ _ _ H) as [(Hb & Hc & Hle & Hno)|(j & p1 & Hb & Hv & Hx & Hlt & Hbef & Haft)].
      * left. split; [exact Hb|]. split; [exact Hc|]. split.
        -- intros Hne [|j] v Hv; [exfalso; eapply V0; eauto|]. apply VS in Hv. now apply (Hle Hne j).
        -- intros E [|j] v Hv; [eapply V0; eauto|]. apply VS in Hv. eapply Hno; eauto.
      * right. exists (S j), p1. replace (i + S j) with (S i + j) by lia. split; [exact Hb|].
        split; [apply VS; exact Hv|].
        split; [destruct Hx as (e1 & c1 & l1 & H1 & H2); exists e1, c1, l1; auto|].
        split; [exact Hlt|]. split.
        -- intros [|j'] v Hj' Hv'; [exfalso; eapply V0; eauto|]. apply VS in Hv'. apply (Hbef j'); [lia | exact Hv'].
        -- intros [|j'] v Hj' Hv'; [lia|]. apply VS in Hv'. apply (Haft j'); [lia | exact Hv'].
Qed.

(** ** MaxLengthPath: the first neighbour with the largest value *)
Theorem mlp_first n c sl j p l :
  mlp (UNode n c sl) = Some (j :: p, l) ->
  slot_value mlp sl j l /\
  (exists e ch l', nth_error sl j = Some (Some (e, ch)) /\ mlp ch = Some (p, l')) /\
  (forall j' v, j' < j -> slot_value mlp sl j' v -> (v < l)%Q) /\
  (forall j' v, j < j' -> slot_value mlp sl j' v -> (v <= l)%Q).
Proof.
  intros H. rewrite mlp_unfold in H.
  destruct (mlp_go_first mlp sl 0 [] 0%Q _ _ H) as [(Hb & _)|(j0 & p0 & Hb & Hv & Hx & _ & Hbef & Haft)];
    [discriminate|].
  simpl in Hb. inversion Hb; subst j0 p0. auto.
Qed.

(** ** RerootMidPoint: the first tip with the largest eccentricity *)
Definition ecc (t1 : utree) (pn : list nat * utree) (l : Q) : Prop :=
  exists v p, view_from t1 (fst pn) = Some v /\ mlp_tip v = Some (Some p, l).

Definition scan_inv1 (t1 : utree) (done : list (list nat * utree)) (st : mp_state) (cur : Q) : Prop :=
  (0 <= cur)%Q /\
  (forall pn l, In pn done -> ecc t1 pn l -> (l <= cur)%Q) /\
  match st with
  | MPNone => True
  | MPBest v p => exists d1 pn d2, done = d1 ++ pn :: d2 /\ view_from t1 (fst pn) = Some v /\
                                   mlp_tip v = Some (Some p, cur) /\
                                   (forall pn' l, In pn' d1 -> ecc t1 pn' l -> (l < cur)%Q)
  end.

Theorem reroot_midpoint_first_tip t t' :
  2 <= degree (unroot t) ->
  reroot_midpoint t = Ok t' ->
  let t1 := unroot t in
  exists d1 q lf d2 v pA cur ea,
    tip_paths t1 = d1 ++ (q, lf) :: d2 /\
    view_from t1 q = Some v /\ mlp_tip v = Some (Some pA, cur) /\
    (forall pn l, In pn d1 -> ecc t1 pn l -> (l < cur)%Q) /\
    (forall pn l, In pn d2 -> ecc t1 pn l -> (l <= cur)%Q) /\
    edge_at (tv_tree v) (tv_slot v) = Some ea /\ mp_result v pA cur ea = Some t'.
Proof.
  intros D0. rewrite (reroot_midpoint_gen_eq t D0). unfold reroot_midpoint_gen.
  set (t1 := unroot t).
  set (f := fun (st : res (mp_state * Q)) (pn : list nat * utree) => _).
  assert (FE : forall l m, fold_left f l (Err m) = Err m) by (induction l; simpl; auto).
  assert (INV : forall l done st cur,
             scan_inv1 t1 done st cur ->
             match fold_left f l (Ok (st, cur)) with
             | Ok (s', c') => scan_inv1 t1 (done ++ l) s' c'
             | Err _ => True
             end).
  { induction l as [|pn l IH]; intros done st cur Hinv; simpl.
    - now rewrite app_nil_r.
    - destruct (view_from t1 (fst pn)) as [v|] eqn:Ev.
      2:{ now rewrite FE. }
      destruct (mlp_tip v) as [[op l0]|] eqn:Em.
      2:{ now rewrite FE. }
      destruct (mlp_tip_some _ _ _ Em) as [p ->].
      destruct Hinv as [H0 [Hall Hbest]].
      assert (Eun : forall l', ecc t1 pn l' -> l' = l0).
      { intros l' (v' & p' & Hv' & Hm'). rewrite Ev in Hv'. inversion Hv'; subst v'. congruence. }
      replace (done ++ pn :: l) with ((done ++ [pn]) ++ l) by (rewrite <- app_assoc; reflexivity).
      destruct (qltb cur l0) eqn:Eq.
      + apply qltb_true in Eq. apply IH. split; [lra|split].
        * intros pn' l' Hin He. apply in_app_or in Hin as [Hin|[<-|[]]].
          -- specialize (Hall _ _ Hin He). lra.
          -- rewrite (Eun _ He). lra.
        * exists done, pn, []. repeat split; auto.
          intros pn' l' Hin He. specialize (Hall _ _ Hin He). lra.
      + apply qltb_false in Eq. apply IH. split; [exact H0|split].
        * intros pn' l' Hin He. apply in_app_or in Hin as [Hin|[<-|[]]]; eauto.
          rewrite (Eun _ He). exact Eq.
        * destruct st as [|v0 p0]; auto. destruct Hbest as (d1 & pn0 & d2 & E & Hv0 & Hm0 & Hlt).
          exists d1, pn0, (d2 ++ [pn]). rewrite E, <- app_assoc. simpl. repeat split; auto. }
  assert (I0 : scan_inv1 t1 [] MPNone 0%Q).
  { split; [lra|]. split; [intros pn l []|exact I]. }
  specialize (INV (tip_paths t1) [] MPNone 0%Q I0). simpl app in INV.
  destruct (fold_left f (tip_paths t1) (Ok (MPNone, 0%Q))) as [[[|v pA] cur]|m]; try discriminate.
  destruct INV as [H0 [Hall (d1 & [q lf] & d2 & E & Hv & Hm & Hlt)]]. simpl in Hv.
  destruct (edge_at (tv_tree v) (tv_slot v)) as [ea|] eqn:Ee; [|discriminate].
  intros H. exists d1, q, lf, d2, v, pA, cur, ea. repeat split; auto.
  - intros pn l Hin. apply Hall. rewrite E. apply in_or_app. right. now right.
  - unfold mp_result. cbv zeta.
    destruct (walk _ _ 0 0%Q) as [i len].
    match type of H with
    | match ?r with Some _ => _ | None => _ end = _ =>
      destruct r as [t4|] eqn:Er; [|discriminate]
    end.
    inversion H; subst t4. first [reflexivity | exact Er].
Qed.
