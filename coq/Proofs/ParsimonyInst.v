(** The general theorems instantiated on ParsimonyAcr (character variant: every tip holds
    one state of the sorted alphabet) and ParsimonyAsr (sequence variant: IUPAC sets). *)
From Coq Require Import String Ascii ZArith QArith Bool Arith Lia List.
From GT Require Proofs.Reroot.
From GT Require Import Base.UTree Spec.Obs Spec.Parsimony Model.Reroot Model.Parsimony
     Proofs.ParsimonyVec Proofs.ParsimonyHartigan Proofs.ParsimonyReroot Proofs.ParsimonyMain
     Proofs.ParsimonyCtx Proofs.ParsimonyDown Proofs.ParsimonyFinal Proofs.ParsimonyAcctran
     Proofs.ParsimonyTips Proofs.ParsimonyUnamb Proofs.ParsimonyDeltran.
Import ListNotations.
Local Close Scope Q_scope.

(** * a single state cannot be narrowed *)
Lemma refine_onehot : forall k i p, i < k -> good k p -> refine p (onehot k i) = onehot k i.
Proof.
  intros k i p Hi Gp.
  assert (Gc : good k (onehot k i)).
  { split; [apply onehot_length|]. intros x. rewrite nth_onehot by exact Hi. destruct (Nat.eqb x i); lia. }
  destruct (refine_cases k p (onehot k i) Gp Gc) as [[[z [Hzp Hzc]] [Hiff Gr]]|[_ He]]; [|exact He].
  rewrite nth_onehot in Hzc by exact Hi.
  destruct (Nat.eqb z i) eqn:E; [|discriminate]. apply Nat.eqb_eq in E. subst z.
  destruct Gr as [Lr Br]. destruct Gc as [Lc Bc].
  apply (nth_ext _ _ 0 0); [lia|].
  intros x _.
  pose proof (Br x). pose proof (Bc x). specialize (Hiff x).
  rewrite nth_onehot in * by exact Hi.
  destruct (Nat.eqb x i) eqn:Ex.
  - apply Nat.eqb_eq in Ex. subst x. apply Hiff. split; [exact Hzp | reflexivity].
  - destruct (Nat.eq_dec (nth x (refine p (onehot k i)) 0) 1) as [Q|Q]; [|lia].
    apply Hiff in Q. destruct Q as [_ Q]. discriminate.
Qed.

(** * character variant *)
Section Acr.
Variable m : list (string * string).
Variable t : utree.
Hypothesis Hwf : wf t = true.
Hypothesis Hdeg : 2 <= degree t.
(** every tip of the tree has a state in the map (otherwise ParsimonyAcr returns an error) *)
Hypothesis Hmap : forall n, In n (leaves t) -> exists s, lookup n m = Some s.

Definition acr_k : nat := length (acr_alphabet m).
Definition acr_tv : string -> vec := acr_tipvec m (acr_alphabet m).
(** what ParsimonyAcr computes for algorithm [a], as a tree of vectors *)
Definition acr_vt (a : algo) : vtree := fst (parsimony false acr_tv acr_k a t).

Lemma acr_tips : forall n, In n (leaves t) -> tip_ok acr_tv (acr_ts m) acr_k n.
Proof. intros n Hn. destruct (Hmap n Hn) as [s Hs]. eapply acr_tip_ok; eauto. Qed.

Lemma parsimony_acr_ok : forall a, exists r, parsimony_acr t m a = Ok r /\
  acr_vecs r = vflat (acr_vt a) /\ acr_steps r = up_steps acr_tv acr_k t.
Proof.
  intros a. unfold parsimony_acr.
  destruct (find _ (all_tip_names t)) eqn:F.
  - apply find_some in F. destruct F as [Hin Q].
    rewrite all_tip_names_leaves in Hin by assumption.
    destruct (Hmap _ Hin) as [s' Hs']. rewrite Hs' in Q. discriminate.
  - unfold acr_vt, acr_tv, acr_k.
    assert (Ht : is_tip t = false) by (unfold is_tip; apply Nat.eqb_neq; lia).
    unfold up_steps, parsimony. rewrite Ht.
    destruct (uppass _ _ t) as [u s]. simpl. eexists. split; [reflexivity|]. split; reflexivity.
Qed.

Theorem acr_downpass_exact : forall q x v,
  node_at t q = Some x -> is_leaf x = false -> vec_at t (acr_vt Downpass) q = Some v ->
  forall y, nth y v 0 = 1 <-> opt_state_at (acr_ts m) t q y.
Proof. intros. eapply (downpass_exact acr_tv (acr_ts m) acr_k t Hwf Hdeg acr_tips false); eauto. Qed.

Theorem acr_deltran_sound : forall q x v,
  node_at t q = Some x -> is_leaf x = false -> vec_at t (acr_vt Deltran) q = Some v ->
  forall y, nth y v 0 = 1 -> opt_state_at (acr_ts m) t q y.
Proof. intros. eapply (deltran_sound acr_tv (acr_ts m) acr_k t Hwf Hdeg acr_tips false); eauto. Qed.

Theorem acr_acctran_sound : forall q x v,
  node_at t q = Some x -> is_leaf x = false -> vec_at t (acr_vt Acctran) q = Some v ->
  forall y, nth y v 0 = 1 -> opt_state_at (acr_ts m) t q y.
Proof. intros. eapply (acctran_sound acr_tv (acr_ts m) acr_k t Hwf Hdeg acr_tips false); eauto. Qed.

Theorem acr_tips_unaltered : forall a q x v,
  node_at t q = Some x -> is_leaf x = true -> vec_at t (acr_vt a) q = Some v ->
  v = acr_tv (uname x).
Proof.
  intros a q x v Hq Hx Hv.
  eapply (tips_unaltered acr_tv acr_k (acr_ts m) false a t q x v Hwf Hdeg acr_tips); eauto.
  intros _. right. intros n Hn p Gp.
  destruct (Hmap n Hn) as [s Hs].
  assert (Hin : In s (acr_alphabet m)).
  { unfold acr_alphabet. apply In_sset. eapply lookup_In; eauto. }
  destruct (index_of_In s _ Hin) as [i [Hi Hl]].
  unfold acr_tv, acr_tipvec. rewrite Hs, Hi. apply refine_onehot; assumption.
Qed.

Theorem acr_acctran_unambiguous :
  vall single (acr_vt Acctran) -> optimal (acr_ts m) t (lab_of t (acr_vt Acctran)).
Proof. apply (acctran_unambiguous acr_tv (acr_ts m) acr_k t Hwf Hdeg acr_tips). Qed.

Theorem acr_downpass_unambiguous :
  vall single (acr_vt Downpass) -> optimal (acr_ts m) t (lab_of t (acr_vt Downpass)).
Proof. apply (downpass_unambiguous acr_tv (acr_ts m) acr_k t Hwf Hdeg acr_tips). Qed.

Theorem acr_deltran_unambiguous :
  vall single (acr_vt Deltran) -> optimal (acr_ts m) t (lab_of t (acr_vt Deltran)).
Proof. apply (deltran_unambiguous acr_tv (acr_ts m) acr_k t Hwf Hdeg acr_tips). Qed.

End Acr.

(** * sequence variant *)
(** the states marked by a 0/1 vector *)
Definition idx_set (v : vec) : list nat := filter (fun i => Nat.eqb (nth i v 0) 1) (seq 0 (length v)).

Lemma mem_idx_set : forall v x, mem x (idx_set v) = Nat.ltb x (length v) && Nat.eqb (nth x v 0) 1.
Proof.
  intros v x. unfold mem, idx_set.
  destruct (Nat.ltb x (length v) && Nat.eqb (nth x v 0) 1) eqn:E.
  - apply andb_prop in E. destruct E as [E1 E2]. apply Nat.ltb_lt in E1.
    apply existsb_exists. exists x. split; [|apply Nat.eqb_refl].
    apply filter_In. split; [apply in_seq; lia | exact E2].
  - destruct (existsb (Nat.eqb x) _) eqn:E2; [|reflexivity].
    apply existsb_exists in E2. destruct E2 as [y [Hy Exy]]. apply Nat.eqb_eq in Exy. subst y.
    apply filter_In in Hy. destruct Hy as [Hs Hn]. apply in_seq in Hs.
    assert (Nat.ltb x (length v) = true) by (apply Nat.ltb_lt; lia). rewrite H, Hn in E. discriminate.
Qed.

Lemma tip_ok_idx : forall tv k n, good k (tv n) -> (exists x, nth x (tv n) 0 = 1) ->
  tip_ok tv (fun n => idx_set (tv n)) k n.
Proof.
  intros tv k n [L B] [x Hx]. split; [exact L|]. split.
  - intros y. rewrite mem_idx_set.
    destruct (Nat.ltb y (length (tv n))) eqn:E; simpl.
    + pose proof (B y). destruct (Nat.eqb (nth y (tv n) 0) 1) eqn:E2.
      * apply Nat.eqb_eq in E2. exact E2.
      * apply Nat.eqb_neq in E2. lia.
    + apply Nat.ltb_ge in E. apply nth_overflow. exact E.
  - exists x. rewrite mem_idx_set, Hx.
    destruct (Nat.lt_ge_cases x (length (tv n))) as [Q|Q].
    + apply Nat.ltb_lt in Q. rewrite Q. reflexivity.
    + rewrite nth_overflow in Hx by exact Q. discriminate.
Qed.

Lemma nt_vec_good : forall c, good 6 (nt_vec c).
Proof.
  intros c. split; [reflexivity|]. intros x. unfold nt_vec, nt_alphabet.
  do 6 (destruct x as [|x];
        [simpl; match goal with |- context [if ?b then _ else _] => destruct b end; lia|]).
  simpl. destruct x; lia.
Qed.

Lemma vzero6_good : good 6 (vzero 6).
Proof.
  split; [reflexivity|]. intros x. do 6 (destruct x as [|x]; [simpl; lia|]). simpl. destruct x; lia.
Qed.

Lemma asr_tipvec_good : forall aln j n, good 6 (asr_tipvec aln j n).
Proof.
  intros. unfold asr_tipvec.
  destruct (lookup n aln) as [s|]; [destruct (string_nth j s)|];
    first [apply nt_vec_good | apply vzero6_good].
Qed.

Section Asr.
Variable aln : list (string * string).
Variable t : utree.
Variable j : nat.
Hypothesis Hwf : wf t = true.
Hypothesis Hdeg : 2 <= degree t.
(** at site j every tip holds a character that stands for at least one state *)
Hypothesis Hvalid : forall n, In n (leaves t) -> exists x, nth x (asr_tipvec aln j n) 0 = 1.

Definition asr_tv : string -> vec := asr_tipvec aln j.
Definition asr_ts : string -> list nat := fun n => idx_set (asr_tipvec aln j n).
Definition asr_vt (a : algo) : vtree := fst (parsimony true asr_tv 6 a t).

Lemma asr_tips : forall n, In n (leaves t) -> tip_ok asr_tv asr_ts 6 n.
Proof. intros n Hn. apply tip_ok_idx; [apply asr_tipvec_good | apply Hvalid; exact Hn]. Qed.

(** the number of steps of the site is the minimum over all labellings, a tip with an
    ambiguity code costing nothing against any of its states *)
Theorem asr_site_steps_optimal : forall a,
  is_mincost asr_ts t (snd (parsimony true asr_tv 6 a t)).
Proof.
  intros a.
  assert (Ht : is_tip t = false) by (unfold is_tip; apply Nat.eqb_neq; lia).
  unfold parsimony. rewrite Ht.
  pose proof (up_steps_mincost asr_tv asr_ts 6 t Hwf ltac:(lia) asr_tips) as M.
  unfold up_steps in M. destruct (uppass asr_tv 6 t) as [u s]. exact M.
Qed.

Theorem asr_downpass_exact : forall q x v,
  node_at t q = Some x -> is_leaf x = false -> vec_at t (asr_vt Downpass) q = Some v ->
  forall y, nth y v 0 = 1 <-> opt_state_at asr_ts t q y.
Proof. intros. eapply (downpass_exact asr_tv asr_ts 6 t Hwf Hdeg asr_tips true); eauto. Qed.

Theorem asr_deltran_sound : forall q x v,
  node_at t q = Some x -> is_leaf x = false -> vec_at t (asr_vt Deltran) q = Some v ->
  forall y, nth y v 0 = 1 -> opt_state_at asr_ts t q y.
Proof. intros. eapply (deltran_sound asr_tv asr_ts 6 t Hwf Hdeg asr_tips true); eauto. Qed.

Theorem asr_acctran_sound : forall q x v,
  node_at t q = Some x -> is_leaf x = false -> vec_at t (asr_vt Acctran) q = Some v ->
  forall y, nth y v 0 = 1 -> opt_state_at asr_ts t q y.
Proof. intros. eapply (acctran_sound asr_tv asr_ts 6 t Hwf Hdeg asr_tips true); eauto. Qed.

(** after the fix of asr.parsimonyACCTRAN (tips skipped) the IUPAC set of a tip is kept
    by the three algorithms *)
Theorem asr_tips_unaltered : forall a q x v,
  node_at t q = Some x -> is_leaf x = true -> vec_at t (asr_vt a) q = Some v ->
  v = asr_tv (uname x).
Proof.
  intros a q x v Hq Hx Hv.
  eapply (tips_unaltered asr_tv 6 asr_ts true a t q x v Hwf Hdeg asr_tips); eauto.
Qed.

Theorem asr_downpass_unambiguous :
  vall single (asr_vt Downpass) -> optimal asr_ts t (lab_of t (asr_vt Downpass)).
Proof. apply (downpass_unambiguous asr_tv asr_ts 6 t Hwf Hdeg asr_tips). Qed.

Theorem asr_deltran_unambiguous :
  vall single (asr_vt Deltran) -> optimal asr_ts t (lab_of t (asr_vt Deltran)).
Proof. apply (deltran_unambiguous asr_tv asr_ts 6 t Hwf Hdeg asr_tips). Qed.

Theorem asr_acctran_unambiguous :
  vall single (asr_vt Acctran) -> optimal asr_ts t (lab_of t (asr_vt Acctran)).
Proof. apply (acctran_unambiguous asr_tv asr_ts 6 t Hwf Hdeg asr_tips). Qed.

(** the site's step count does not depend on the rooting *)
Theorem asr_site_steps_reroot : forall a i t',
  reroot t i = Ok t' ->
  snd (parsimony true asr_tv 6 a t') = snd (parsimony true asr_tv 6 a t).
Proof.
  intros a i t' Hr.
  destruct (GT.Proofs.Reroot.reroot_preserves t i t' Hwf Hdeg Hr) as [_ [Hd' _]].
  assert (Ht : is_tip t = false) by (unfold is_tip; apply Nat.eqb_neq; lia).
  assert (Ht' : is_tip t' = false) by (unfold is_tip; apply Nat.eqb_neq; lia).
  pose proof (up_steps_reroot asr_tv asr_ts 6 t i t' Hwf Hdeg asr_tips Hr) as E.
  unfold parsimony, up_steps in *. rewrite Ht, Ht'.
  destruct (uppass asr_tv 6 t), (uppass asr_tv 6 t'). simpl in *. exact E.
Qed.

End Asr.

(** the sequence variant is the per-site computation: steps and vectors *)
Lemma parsimony_asr_sites : forall t aln a r, parsimony_asr t aln a = Ok r ->
  asr_steps r = map (fun j => snd (parsimony true (asr_tipvec aln j) 6 a t)) (seq 0 (aln_length aln)) ++ [0] /\
  asr_vecs r = map (fun j => vflat (fst (parsimony true (asr_tipvec aln j) 6 a t))) (seq 0 (aln_length aln)).
Proof.
  intros t aln a r H. unfold parsimony_asr in H.
  destruct (find _ (all_tip_names t)); [discriminate|].
  destruct a; try discriminate; inversion H; simpl; rewrite !map_map; split; reflexivity.
Qed.

(** ** the defect of the unfixed code, on the model: rewriting tip children in ACCTRAN
    (as acr/parsimony.go still does, harmlessly, for single states) narrows an ambiguous tip *)
Local Open Scope string_scope.
Definition witness_tree : utree :=
  UNode "" [] [Some (e0, UNode "a" [] [None]); Some (e0, UNode "b" [] [None]); Some (e0, UNode "c" [] [None])].
Definition witness_tv (n : string) : vec := if String.eqb n "a" then [1; 0; 1; 0; 0; 0] else [1; 0; 0; 0; 0; 0].

Example acctran_rewriting_tips_keeps_ambiguous_tip_refuted :
  exists t tv q x v, wf t = true /\ 2 <= degree t /\
    node_at t q = Some x /\ is_leaf x = true /\
    vec_at t (fst (parsimony false tv 6 Acctran t)) q = Some v /\ v <> tv (uname x).
Proof.
  exists witness_tree, witness_tv, [0], (UNode "a" [] [None]), [1; 0; 0; 0; 0; 0].
  split; [reflexivity|]. split; [unfold degree; simpl; lia|].
  split; [reflexivity|]. split; [reflexivity|]. split; [vm_compute; reflexivity|].
  vm_compute. discriminate.
Qed.

(** with the tips skipped (the fixed sequence variant) the same input keeps its tip *)
Example acctran_skipping_tips_witness :
  vec_at witness_tree (fst (parsimony true witness_tv 6 Acctran witness_tree)) [0] = Some (witness_tv "a").
Proof. vm_compute. reflexivity. Qed.
