(** Nexus reader entry points (Model/Nexus.v): the single-tree accessor returns the first
    record of the iteration; ids are consecutive; both always return (no panic, no hang). *)
From Coq Require Import String Ascii ZArith Bool Arith Lia List.
From GT Require Import Base.UTree Model.Nexus Model.Clade Proofs.NexusLex Proofs.NexusTotal Proofs.Clade.
Import ListNotations.
Local Open Scope string_scope.

Section First.
  Variable nparse : string -> utree + string.

  Theorem nexus_first_is_head : forall s,
      exists f l, first_tree_nexus nparse s = Some f /\ iterate_nexus nparse s = Some l /\
                  f = head_rec l "No tree in the input Nexus file".
  Proof.
    intros s. unfold first_tree_nexus, iterate_nexus.
    destruct (nexus_parse_total nparse s) as [NP NF].
    destruct (nexus_parse nparse s) as [d|e| |]; try contradiction.
    - destruct (doc_trees d) as [|[n t] r]; simpl; eauto.
    - simpl. eauto.
  Qed.

  Theorem nexus_ids_consecutive : forall s d,
      nexus_parse nparse s = POk d ->
      exists l, iterate_nexus nparse s = Some l /\
                map fst l = seq 0 (length (doc_trees d)) /\
                map snd l = map (fun p => inl (snd p)) (doc_trees d).
  Proof.
    intros s d H. unfold iterate_nexus. rewrite H. eexists. split; [reflexivity|].
    generalize (doc_trees d) as ts. intros ts. generalize 0 as k.
    induction ts as [|a ts IH]; intros k; simpl; [split; reflexivity|].
    destruct (IH (S k)) as [A B]. rewrite A, B. split; reflexivity.
  Qed.
End First.

(** Tree.Rename only changes names: the delivered tree has the structure the Newick parser built *)
Definition ren_slot (tbl : list (string * string)) (s : slot) : slot :=
  match s with Some (e, ch) => Some (e, rename_nodes tbl ch) | None => None end.

Lemma n_up_ren : forall tbl sl, n_up (map (ren_slot tbl) sl) = n_up sl.
Proof.
  intros tbl sl. unfold n_up. induction sl as [|[[e ch]|] r IHr]; simpl; auto.
Qed.

Lemma forallb_ren : forall tbl sl,
    Forall (fun s : slot => match s with Some (_, t) => wf_sub (rename_nodes tbl t) = wf_sub t | None => True end) sl ->
    forallb (fun s : slot => match s with Some (_, c) => wf_sub c | None => true end) (map (ren_slot tbl) sl) =
    forallb (fun s : slot => match s with Some (_, c) => wf_sub c | None => true end) sl.
Proof.
  intros tbl sl H. induction H as [|s r Hs Hr IH]; simpl; [reflexivity|].
  destruct s as [[e ch]|]; simpl.
  - rewrite Hs, IH. reflexivity.
  - exact IH.
Qed.

Lemma rename_nodes_wf_sub : forall tbl t, wf_sub (rename_nodes tbl t) = wf_sub t.
Proof.
  intros tbl. induction t as [n c sl IH] using utree_ind'.
  change (rename_nodes tbl (UNode n c sl)) with
      (UNode (if String.eqb n "" then n else match assoc_get n tbl with Some v => v | None => n end) c (map (ren_slot tbl) sl)).
  simpl. rewrite n_up_ren. rewrite forallb_ren; [reflexivity|]. exact IH.
Qed.

Lemma rename_nodes_wf : forall tbl t, wf (rename_nodes tbl t) = wf t.
Proof.
  intros tbl [n c sl].
  change (rename_nodes tbl (UNode n c sl)) with
      (UNode (if String.eqb n "" then n else match assoc_get n tbl with Some v => v | None => n end) c (map (ren_slot tbl) sl)).
  simpl. rewrite n_up_ren. rewrite forallb_ren; [reflexivity|].
  apply Forall_forall. intros [[e ch]|] _; [apply rename_nodes_wf_sub|trivial].
Qed.

Lemma rename_tree_wf : forall tbl t t', rename_tree tbl t = inl t' -> wf t' = wf t.
Proof.
  intros tbl t t' H. unfold rename_tree in H.
  destruct (has_dup _); [discriminate|]. destruct (has_dup _); [discriminate|].
  inversion H; subst. apply rename_nodes_wf.
Qed.
