(** C08/C09: the models over the real hash index never reach the "index out of the bucket array"
    panic for realistic sizes: with the load policy 0.75 the capacity stays below
    max(initial capacity, 3 * number of entries), hence below 2^63 when the initial capacity is
    below 2^62 and fewer than 2^60 branches are inserted.  With the bridge (Proofs/CompareBridge.v)
    the hash-index instances then EQUAL the association-list instances. *)
From Coq Require Import String NArith ZArith QArith Bool Arith Lia List Permutation.
From GT Require Import Base.UTree Spec.Obs Model.Reroot Model.Index Model.HashMap Model.EdgeIndex
     Model.Compare Model.Consensus
     Proofs.IndexBase Proofs.IndexTree Proofs.IndexSplit Proofs.HashMap Proofs.EdgeIndex
     Proofs.CompareBase Proofs.CompareTree Proofs.CompareMain Proofs.ConsensusCount Proofs.ConsensusMain
     Proofs.CompareBridge Proofs.CompareCor.
Import ListNotations.
Local Close Scope Q_scope.
Local Arguments leaves : simpl never.

(** the same policy, cut off where doubling would overflow uint64 *)
Definition need75b (t : nat) (c : N) : bool := need75 t c && (c * 2 <? W64)%N.

Lemma no_overflow_75b : no_overflow need75b.
Proof. intros t c H. unfold need75b in H. apply andb_prop in H. destruct H as [_ H]. now apply N.ltb_lt in H. Qed.

Section Put.
  Variables K V : Type.
  Variable hash : K -> N.
  Variable eqb : K -> K -> bool.

  Lemma put_same (m : hmap K V) k v :
    (hm_cap m * 2 < W64)%N -> put K V hash eqb need75 m k v = put K V hash eqb need75b m k v.
  Proof.
    intros H. unfold put. destruct (nthN (hm_arr m) (slot_of K V hash m k)); auto.
    destruct (bucket_set K V eqb k v l); auto.
    unfold rehash, need75b. simpl hm_cap. simpl hm_total.
    apply N.ltb_lt in H. rewrite H, andb_true_r. reflexivity.
  Qed.

  (** capacity bound kept by PutValue *)
  Definition cap_ok (c0 : N) (m : hmap K V) : Prop :=
    (hm_cap m <= N.max c0 (3 * N.of_nat (hm_total m)))%N.

  Lemma put_cap c0 (m m' : hmap K V) k v :
    (hm_cap m * 2 < W64)%N -> cap_ok c0 m -> put K V hash eqb need75 m k v = Some m' ->
    cap_ok c0 m' /\ hm_total m' <= S (hm_total m).
  Proof.
    intros B C H. unfold put in H.
    destruct (nthN (hm_arr m) (slot_of K V hash m k)); [|discriminate].
    destruct (bucket_set K V eqb k v l).
    - inversion H; subst. unfold cap_ok in *. simpl. split; auto.
    - unfold rehash in H. simpl hm_cap in H. simpl hm_total in H. simpl hm_arr in H.
      destruct (need75 (S (hm_total m)) (hm_cap m)) eqn:N75.
      + destruct (fold_left _ _ _) as [arr|]; [|discriminate]. inversion H; subst. unfold cap_ok in *. simpl.
        split; auto. unfold w64. rewrite N.mod_small by exact B.
        unfold need75 in N75. apply Z.leb_le in N75. lia.
      + inversion H; subst. unfold cap_ok in *. simpl. split; auto. lia.
  Qed.
End Put.

(** * EdgeIndex: PutEdgeValue and AddEdgeCount never panic below the bound *)
Section EI.
  Variable L : list string.
  Notation EInv := (Inv ekey einfo_v ekey_hash ekey_eqb (ok_key L)).
  Notation capok := (cap_ok ekey einfo_v).

  Lemma ei_put_total (m : eindex) a k c l :
    EInv m a -> (hm_cap m * 2 < W64)%N -> ei_put need75 m k c l <> None.
  Proof.
    intros I B. unfold ei_put. rewrite put_same by exact B.
    apply (put_total ekey einfo_v ekey_hash ekey_eqb need75b (ok_key L) m a); auto. apply no_overflow_75b.
  Qed.

  Lemma ei_add_total (m : eindex) a k :
    ok_key L k -> EInv m a -> (hm_cap m * 2 < W64)%N -> ei_add need75 m k <> None.
  Proof.
    intros Ok I B. unfold ei_add. rewrite (ei_value_ref L m a k Ok I).
    destruct (ea_value a k) as [[c l]|]; rewrite put_same by exact B;
      apply (put_total ekey einfo_v ekey_hash ekey_eqb need75b (ok_key L) m a); auto; apply no_overflow_75b.
  Qed.

  Lemma ei_add_cap c0 (m m' : eindex) a k :
    ok_key L k -> EInv m a -> (hm_cap m * 2 < W64)%N -> capok c0 m -> ei_add need75 m k = Some m' ->
    capok c0 m' /\ hm_total m' <= S (hm_total m).
  Proof.
    intros Ok I B C H. unfold ei_add in H. rewrite (ei_value_ref L m a k Ok I) in H.
    destruct (ea_value a k) as [[c l]|]; eapply put_cap; eauto.
  Qed.

  Definition bound (c0 : N) (n : nat) : Prop := (N.max c0 (3 * N.of_nat n) * 2 < W64)%N.

  Lemma cap_small c0 (m : eindex) n : capok c0 m -> hm_total m <= n -> bound c0 n -> (hm_cap m * 2 < W64)%N.
  Proof.
    unfold cap_ok, bound. intros C T B.
    assert (N.max c0 (3 * N.of_nat (hm_total m)) <= N.max c0 (3 * N.of_nat n))%N by (apply N.max_le_compat_l; lia).
    eapply N.le_lt_trans; [|exact B]. apply N.mul_le_mono_r. eapply N.le_trans; eauto.
  Qed.

  Lemma put_all_total ks : Forall (ok_key L) ks ->
    forall (m : eindex) a i c0, EInv m a -> capok c0 m -> bound c0 (hm_total m + length ks) ->
      exists m', put_all eindex (ei_put need75) m i ks = Some m'.
  Proof.
    induction 1 as [|k ks Hk Hks IH]; intros m a i c0 I C B; simpl; eauto.
    assert (Bm : (hm_cap m * 2 < W64)%N) by (apply (cap_small c0 m (hm_total m + S (length ks))); auto; lia).
    destruct (ei_put need75 m k i (ek_len k)) as [m1|] eqn:P; [|exfalso; eapply ei_put_total; eauto].
    destruct (put_cap ekey einfo_v ekey_hash ekey_eqb c0 m m1 k (i, ek_len k) Bm C P) as [C1 T1].
    apply (IH m1 (ea_put a k (i, ek_len k)) (i + 1)%Z c0); auto.
    - apply (ei_put_ref L need75 m a k (i, ek_len k) m1 Hk I P).
    - unfold bound in *. simpl length in B.
      assert (N.max c0 (3 * N.of_nat (hm_total m1 + length ks)) <= N.max c0 (3 * N.of_nat (hm_total m + S (length ks))))%N
        by (apply N.max_le_compat_l; lia).
      eapply N.le_lt_trans; [|exact B]. now apply N.mul_le_mono_r.
  Qed.

  Lemma add_all_total ks : Forall (ok_key L) ks ->
    forall (m : eindex) a c0, EInv m a -> capok c0 m -> bound c0 (hm_total m + length ks) ->
      exists m', add_all eindex (ei_add need75) m ks = Some m' /\ capok c0 m' /\ hm_total m' <= hm_total m + length ks.
  Proof.
    induction 1 as [|k ks Hk Hks IH]; intros m a c0 I C B; simpl.
    - exists m. rewrite Nat.add_0_r. auto.
    - assert (Bm : (hm_cap m * 2 < W64)%N) by (apply (cap_small c0 m (hm_total m + S (length ks))); auto; lia).
      destruct (ei_add need75 m k) as [m1|] eqn:P; [|exfalso; eapply ei_add_total; eauto].
      destruct (ei_add_cap c0 m m1 a k Hk I Bm C P) as [C1 T1].
      destruct (IH m1 (ea_add a k) c0) as (m' & E & C' & T'); auto.
      + apply (ei_add_ref L need75 m a k m1 Hk I P).
      + unfold bound in *. simpl length in B.
        assert (N.max c0 (3 * N.of_nat (hm_total m1 + length ks)) <= N.max c0 (3 * N.of_nat (hm_total m + S (length ks))))%N
          by (apply N.max_le_compat_l; lia).
        eapply N.le_lt_trans; [|exact B]. now apply N.mul_le_mono_r.
      + exists m'. split; auto. split; auto. simpl length. lia.
  Qed.
End EI.

Lemma new_cap_ok c0 : cap_ok ekey einfo_v (if N.eqb c0 0 then 1%N else c0) (new_edge_index c0).
Proof. unfold cap_ok, new_edge_index, new_hashmap. simpl. lia. Qed.

(** * Compare: the hash-index instance equals the association-list instance *)
Definition small_tree (t : utree) : Prop := length (edges t) < 2 ^ 58.

Lemma keys_length tag t : good t -> length (branch_keys tag t) = length (edges t).
Proof.
  intros G. rewrite <- (map_length ek_row). unfold branch_keys, branch_keys_of.
  rewrite map_map. rewrite map_length.
  assert (forall {A} i (l : list A), length (number_from i l) = length l).
  { intros A i l. revert i. induction l; simpl; auto. }
  rewrite H, combine_length, (rows_length t G). lia.
Qed.

Lemma build_index_total L ks :
  Forall (ok_key L) ks -> length ks < 2 ^ 58 ->
  exists m, build_index eindex new_edge_index (ei_put need75) ks = Some m.
Proof.
  intros F S. unfold build_index.
  set (c0 := N.of_nat (length ks * 2)).
  assert (P58 : (N.of_nat (2 ^ 58) = 2 ^ 58)%N) by (rewrite Nat2N.inj_pow; reflexivity).
  assert (Hc0 : (c0 < 2 ^ 59)%N).
  { unfold c0. rewrite Nat2N.inj_mul. change (N.of_nat 2) with 2%N.
    assert (N.of_nat (length ks) < 2 ^ 58)%N by (rewrite <- P58; lia).
    change (2 ^ 59)%N with (2 ^ 58 * 2)%N. lia. }
  apply (put_all_total L ks F _ [] 0%Z (if N.eqb c0 0 then 1%N else c0)).
  - apply inv_new. unfold W64. lia.
  - apply new_cap_ok.
  - unfold bound, new_edge_index, new_hashmap. simpl hm_total. simpl plus.
    assert (N.of_nat (length ks) < 2 ^ 58)%N by (rewrite <- P58; lia).
    unfold W64. destruct (N.eqb c0 0); change (2 ^ 59)%N with 576460752303423488%N in Hc0;
      change (2 ^ 58)%N with 288230376151711744%N in H; lia.
Qed.

Theorem compare_hm_eq tips ident t1 t2 :
  good t1 -> good t2 -> Permutation (leaves t1) (leaves t2) -> small_tree t1 ->
  compare_hm tips ident t1 t2 = compare tips ident t1 t2.
Proof.
  intros G1 G2 P S.
  assert (K1 : Forall (ok_key (leaves t1)) (branch_keys 0 t1)) by (apply keys_ok; auto).
  assert (SZ : length (branch_keys 0 t1) < 2 ^ 58) by (rewrite keys_length; auto).
  destruct (compare_hm tips ident t1 t2) as [r|] eqn:E.
  - symmetry. apply compare_hm_refines; auto.
    assert (P58 : (N.of_nat (2 ^ 58) = 2 ^ 58)%N) by (rewrite Nat2N.inj_pow; reflexivity).
    rewrite Nat2N.inj_mul. change (N.of_nat 2) with 2%N.
    assert (N.of_nat (length (branch_keys 0 t1)) < 2 ^ 58)%N by (rewrite <- P58; lia).
    unfold W64. change (2 ^ 58)%N with 288230376151711744%N in H. lia.
  - exfalso. unfold compare_hm, compare_gen in E.
    rewrite (reinit_good 0 t1 G1), (reinit_good 1 t2 G2) in E.
    destruct (build_index_total (leaves t1) _ K1 SZ) as (m & Em). rewrite Em in E.
    assert (SZN : (N.of_nat (length (branch_keys 0 t1) * 2) < W64)%N).
    { assert (P58 : (N.of_nat (2 ^ 58) = 2 ^ 58)%N) by (rewrite Nat2N.inj_pow; reflexivity).
      rewrite Nat2N.inj_mul. change (N.of_nat 2) with 2%N.
      assert (N.of_nat (length (branch_keys 0 t1)) < 2 ^ 58)%N by (rewrite <- P58; lia).
      unfold W64. change (2 ^ 58)%N with 288230376151711744%N in H. lia. }
    destruct (build_index_bridge (leaves t1) _ m K1 SZN Em) as (a & Ea & I).
    rewrite (cmp_fold_bridge (leaves t1) tips ident m a _ (keys_ok (leaves t1) 1 t2 G2 P) I) in E.
    destruct (CompareCor.fold_cmp_total tips ident a (branch_keys 1 t2) (0%Z, 0%Z, true, false)) as ([[[tt cc] ss] st] & X).
    unfold cmp_state in *. rewrite X in E. discriminate.
Qed.

(** * CompareWeighted *)
Lemma fold_w1_total tips ident a ks : forall st,
    exists st', fold_left (w1_step aindex ai_value tips ident a) ks (Some st) = Some st'.
Proof.
  induction ks as [|k r IH]; intros st; [simpl; eauto|]. cbn [fold_left].
  assert (S1 : exists st1, w1_step aindex ai_value tips ident a (Some st) k = Some st1).
  { destruct st as [[[com cmp] s] stop]. unfold w1_step, ai_value. destruct stop; eauto.
    destruct (tips || negb (key_tip k)); eauto.
    destruct (assoc_value ekey einfo_v ekey_eqb a k) as [[i l]|]; [|destruct ident; eauto].
    destruct (qeqb l (ek_len k)); eauto. destruct ident; eauto. }
  destruct S1 as (st1 & ->). apply IH.
Qed.

Lemma fold_w2_total tips ident a ks : forall st,
    exists st', fold_left (w2_step aindex ai_value tips ident a) ks (Some st) = Some st'.
Proof.
  induction ks as [|k r IH]; intros st; [simpl; eauto|]. cbn [fold_left].
  assert (S1 : exists st1, w2_step aindex ai_value tips ident a (Some st) k = Some st1).
  { destruct st as [[rf s] stop]. unfold w2_step, ai_value. destruct stop; eauto.
    destruct (tips || negb (key_tip k)); eauto.
    destruct (assoc_value ekey einfo_v ekey_eqb a k); eauto. destruct ident; eauto. }
  destruct S1 as (st1 & ->). apply IH.
Qed.

Lemma small_bound n : n < 2 ^ 58 -> (N.of_nat (n * 2) < W64)%N.
Proof.
  intros H. assert (P58 : (N.of_nat (2 ^ 58) = 2 ^ 58)%N) by (rewrite Nat2N.inj_pow; reflexivity).
  rewrite Nat2N.inj_mul. change (N.of_nat 2) with 2%N.
  assert (N.of_nat n < 2 ^ 58)%N by (rewrite <- P58; lia).
  unfold W64. change (2 ^ 58)%N with 288230376151711744%N in H0. lia.
Qed.

Theorem compare_weighted_hm_eq tips ident t1 t2 :
  good t1 -> good t2 -> Permutation (leaves t1) (leaves t2) -> small_tree t1 -> small_tree t2 ->
  compare_weighted_hm tips ident t1 t2 = compare_weighted tips ident t1 t2.
Proof.
  intros G1 G2 P S1 S2.
  assert (K1 : Forall (ok_key (leaves t1)) (branch_keys 0 t1)) by (apply keys_ok; auto).
  assert (K2 : Forall (ok_key (leaves t1)) (branch_keys 1 t2)) by (apply keys_ok; auto).
  assert (Z1 : length (branch_keys 0 t1) < 2 ^ 58) by (rewrite keys_length; auto).
  assert (Z2 : length (branch_keys 1 t2) < 2 ^ 58) by (rewrite keys_length; auto).
  destruct (compare_weighted_hm tips ident t1 t2) as [r|] eqn:E.
  - symmetry. apply compare_weighted_hm_refines; auto using small_bound.
  - exfalso. unfold compare_weighted_hm, compare_weighted_gen in E.
    rewrite (reinit_good 0 t1 G1), (reinit_good 1 t2 G2) in E.
    destruct (build_index_total (leaves t1) _ K1 Z1) as (m1 & Em1). rewrite Em1 in E.
    destruct (build_index_total (leaves t1) _ K2 Z2) as (m2 & Em2). rewrite Em2 in E.
    destruct (build_index_bridge (leaves t1) _ m1 K1 (small_bound _ Z1) Em1) as (a1 & _ & I1).
    destruct (build_index_bridge (leaves t1) _ m2 K2 (small_bound _ Z2) Em2) as (a2 & _ & I2).
    rewrite (w1_fold_bridge (leaves t1) tips ident m1 a1 _ K2 I1) in E.
    destruct (fold_w1_total tips ident a1 (branch_keys 1 t2) ([], [], true, false)) as ([[[com cmp] s1] st1] & X1).
    unfold w1_state in *. rewrite X1 in E.
    rewrite (w2_fold_bridge (leaves t1) tips ident m2 a2 _ K1 I2) in E.
    destruct (fold_w2_total tips ident a2 (branch_keys 0 t1) ([], s1, false)) as ([[rf s2] st2] & X2).
    unfold w2_state in *. rewrite X2 in E. discriminate.
Qed.

(** * Consensus: the counting loop *)
Section Loop.
  Variable t0 : utree.
  Hypothesis G0 : ok_input t0.
  Let L := leaves (prep_input t0).
  Notation EInv := (Inv ekey einfo_v ekey_hash ekey_eqb (ok_key L)).

  Lemma cons_loop_hm_total ts : forall i (m : eindex) a,
      Forall (fun t => ok_input t /\ Permutation (leaves (prep_input t)) L) ts ->
      EInv m a -> cap_ok ekey einfo_v 128 m -> bound 128 (hm_total m + length (keys_from i ts)) ->
      exists mf, cons_loop eindex (ei_add need75) i m (Some (star_of t0)) ts =
                 Some (Ok (mf, Some (star_of t0), Z.of_nat (i + length ts))).
  Proof.
    induction ts as [|t r IH]; intros i m a F I C B.
    - simpl. rewrite Nat.add_0_r. eauto.
    - inversion F as [|? ? [G P] F']; subst. simpl cons_loop.
      rewrite (cons_step_hm_next t0 G0 i m t G P).
      assert (K : Forall (ok_key L) (branch_keys i (prep_input t))) by (apply keys_ok; auto; now apply Permutation_sym).
      simpl keys_from in B. rewrite app_length in B.
      destruct (add_all_total L _ K m a 128%N I C) as (m1 & E1 & C1 & T1).
      { unfold bound in *.
        assert (N.max 128 (3 * N.of_nat (hm_total m + length (branch_keys i (prep_input t)))) <=
                N.max 128 (3 * N.of_nat (hm_total m + (length (branch_keys i (prep_input t)) + length (keys_from (S i) r)))))%N
          by (apply N.max_le_compat_l; lia).
        eapply N.le_lt_trans; [|exact B]. now apply N.mul_le_mono_r. }
      rewrite E1.
      destruct (IH (S i) m1 (add_list a (branch_keys i (prep_input t)))) as (mf & EF); auto.
      + apply (add_all_bridge L _ K m a m1 I E1).
      + unfold bound in *.
        assert (N.max 128 (3 * N.of_nat (hm_total m1 + length (keys_from (S i) r))) <=
                N.max 128 (3 * N.of_nat (hm_total m + (length (branch_keys i (prep_input t)) + length (keys_from (S i) r)))))%N
          by (apply N.max_le_compat_l; lia).
        eapply N.le_lt_trans; [|exact B]. now apply N.mul_le_mono_r.
      + exists mf. rewrite EF. replace (S i + length r) with (i + length (t :: r)) by (simpl; lia). reflexivity.
  Qed.
End Loop.

Theorem cons_counts_hm_eq ts :
  collection_ok ts -> length (keys_from 0 ts) < 2 ^ 58 ->
  exists kvs, cons_counts_hm ts = Some (Ok (kvs, Z.of_nat (length ts))) /\
              Permutation kvs (add_list [] (keys_from 0 ts)).
Proof.
  intros CO SZ.
  assert (T : exists kvs n, cons_counts_hm ts = Some (Ok (kvs, n))).
  { destruct ts as [|t0 r]; [destruct CO|]. destruct CO as [G0 F].
    unfold cons_counts_hm, cons_counts. simpl cons_loop.
    rewrite (cons_step_hm_first t0 G0 0).
    assert (K : Forall (ok_key (leaves (prep_input t0))) (branch_keys 0 (prep_input t0))) by (apply keys_ok; auto).
    assert (I0 : Inv ekey einfo_v ekey_hash ekey_eqb (ok_key (leaves (prep_input t0))) (new_edge_index 128) []).
    { apply inv_new. reflexivity. }
    assert (C0 : cap_ok ekey einfo_v 128 (new_edge_index 128)) by apply (new_cap_ok 128).
    simpl keys_from in SZ. rewrite app_length in SZ.
    assert (BIG : forall n, n < 2 ^ 58 -> bound 128 n).
    { intros n Hn. unfold bound.
      assert (P58 : (N.of_nat (2 ^ 58) = 2 ^ 58)%N) by (rewrite Nat2N.inj_pow; reflexivity).
      assert (N.of_nat n < 2 ^ 58)%N by (rewrite <- P58; lia).
      unfold W64. change (2 ^ 58)%N with 288230376151711744%N in H. lia. }
    destruct (add_all_total _ _ K (new_edge_index 128) [] 128%N I0 C0) as (m1 & E1 & C1 & T1).
    { apply BIG. change (hm_total (new_edge_index 128)) with 0. lia. }
    rewrite E1.
    destruct (cons_loop_hm_total t0 G0 r 1 m1 (add_list [] (branch_keys 0 (prep_input t0)))) as (mf & EF); auto.
    - apply (add_all_bridge _ _ K _ _ m1 I0 E1).
    - apply BIG. change (hm_total (new_edge_index 128)) with 0 in T1. lia.
    - rewrite EF. eauto. }
  destruct T as (kvs & n & E). destruct (cons_counts_hm_refines ts kvs n CO E) as (a & Ea & P).
  rewrite (cons_counts_ok ts CO) in Ea. inversion Ea; subst. exists kvs. auto.
Qed.
