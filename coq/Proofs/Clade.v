(** PhyloXML / Nextstrain conversions (Model/Clade.v): [clade_to_tree] is total and its trees
    are well formed; writing a tree as a clade and converting it back gives the same rooted
    tree up to what PhyloXML carries; the single-tree accessors return the head of the
    iteration. *)
From Coq Require Import String Ascii ZArith QArith Bool Arith Lia List.
From GT Require Import Base.UTree Spec.NewickSpec Model.Clade.
Import ListNotations.
Local Close Scope Q_scope.
Local Open Scope string_scope.

(** * cladeToTree delivers well-formed trees or the one error *)
Definition conv_ok (r : utree + string) (root : bool) : Prop :=
  match r with
  | inl t => (if root then wf t else wf_sub t) = true
  | inr e => e = "One tip has no name"
  end.

Lemma n_up_cons_some : forall p (sl : list slot), n_up (Some p :: sl) = n_up sl.
Proof. reflexivity. Qed.

Section CladeInd.
  Variable P : clade -> Prop.
  Hypothesis H : forall n s c b f ks, Forall P ks -> P (Clade n s c b f ks).
  Fixpoint clade_ind' (c : clade) : P c :=
    match c with
    | Clade n s cd b f ks =>
      H n s cd b f ks ((fix go (l : list clade) : Forall P l :=
                          match l with
                          | [] => Forall_nil _
                          | k :: r => Forall_cons k (clade_ind' k) (go r)
                          end) ks)
    end.
End CladeInd.

(** the inner loop of clade_node, named *)
Fixpoint conv_kids (l : list clade) : list slot + string :=
  match l with
  | [] => inl []
  | k :: r =>
    match clade_node false k with
    | inr e => inr e
    | inl t => match conv_kids r with
               | inr e => inr e
               | inl sl => inl (Some (clade_edge k, t) :: sl)
               end
    end
  end.

Lemma clade_node_unfold : forall root c,
    clade_node root c =
    match conv_kids (ckids c) with
    | inr e => inr e
    | inl sl =>
      if is_nil (ckids c) && String.eqb (cname c) "" then inr "One tip has no name"
      else inl (UNode (cname c) [] ((if root then [] else [None]) ++ sl))
    end.
Proof.
  intros root c. destruct c as [n s cd b f ks]. simpl.
  assert (E : (fix go (l : list clade) : list slot + string :=
                 match l with
                 | [] => inl []
                 | k :: r =>
                   match clade_node false k with
                   | inr e => inr e
                   | inl t => match go r with
                              | inr e => inr e
                              | inl sl => inl (Some (clade_edge k, t) :: sl)
                              end
                   end
                 end) ks = conv_kids ks).
  { induction ks as [|k r IH]; simpl; [reflexivity|]. rewrite IH. reflexivity. }
  rewrite E. reflexivity.
Qed.

Definition slots_ok (sl : list slot) : Prop :=
  n_up sl = 0 /\ forallb (fun s => match s with Some (_, c) => wf_sub c | None => true end) sl = true.

Lemma conv_kids_ok : forall ks,
    Forall (fun k => forall root, conv_ok (clade_node root k) root) ks ->
    match conv_kids ks with
    | inl sl => slots_ok sl
    | inr e => e = "One tip has no name"
    end.
Proof.
  induction ks as [|k r IH]; intros HF; simpl.
  - split; reflexivity.
  - inversion HF as [|? ? Hk Hr]; subst.
    specialize (Hk false). destruct (clade_node false k) as [t|e]; simpl in Hk; [|assumption].
    specialize (IH Hr). destruct (conv_kids r) as [sl|e]; [|assumption].
    destruct IH as [U W]. split.
    + rewrite n_up_cons_some. assumption.
    + simpl. rewrite Hk, W. reflexivity.
Qed.

Theorem clade_node_ok : forall c root, conv_ok (clade_node root c) root.
Proof.
  induction c as [n s cd b f ks IH] using clade_ind'. intros root.
  rewrite clade_node_unfold. simpl ckids.
  pose proof (conv_kids_ok ks IH) as HK.
  destruct (conv_kids ks) as [sl|e]; [|exact HK].
  destruct (is_nil ks && String.eqb (cname (Clade n s cd b f ks)) ""); [reflexivity|].
  destruct HK as [U W]. destruct root; simpl.
  - rewrite U, W. reflexivity.
  - unfold n_up in *. simpl. rewrite U. rewrite W. reflexivity.
Qed.

(** cladeToTree is a total function (structural recursion): a well-formed tree or the error *)
Theorem clade_to_tree_total : forall c,
    (exists t, clade_to_tree c = inl t /\ wf t = true) \/ clade_to_tree c = inr "One tip has no name".
Proof.
  intros c. pose proof (clade_node_ok c true) as H. unfold clade_to_tree.
  destruct (clade_node true c) as [t|e]; simpl in H.
  - left. eauto.
  - right. subst. reflexivity.
Qed.

(** * write_clade then clade_to_tree *)
(** what PhyloXML carries of a branch: the length, and the support when the node below has
    children *)
Definition px_edge (e : einfo) (ch : utree) : einfo :=
  mkE (if present (elen e) then elen e else nilv)
      (if is_nil (kids ch) then nilv
       else if negb (Nat.eqb (degree ch) 1) && present (esup e) then esup e else nilv)
      nilv [].

(** the tree that comes back: parent slot first, comments and p-values dropped *)
Fixpoint px_norm (root : bool) (t : utree) : utree :=
  match t with
  | UNode n _ sl =>
    UNode n [] ((if root then [] else [None]) ++
                flat_map (fun s => match s with
                                   | Some (e, ch) => [Some (px_edge e ch, px_norm false ch)]
                                   | None => []
                                   end) sl)
  end.

(** every node without children has a name *)
Fixpoint named (t : utree) : bool :=
  match t with
  | UNode n _ sl =>
    negb (is_nil (kids_of sl) && String.eqb n "") &&
    forallb (fun s => match s with Some (_, c) => named c | None => true end) sl
  end.

Lemma cname_written : forall up t, cname (write_clade up t) = uname t.
Proof.
  intros up [n c sl]. simpl. destruct (String.eqb n "") eqn:E; simpl; [|reflexivity].
  apply String.eqb_eq in E. subst. reflexivity.
Qed.

Lemma ckids_written : forall up t,
    ckids (write_clade up t) =
    flat_map (fun s => match s with Some (e, ch) => [write_clade (Some e) ch] | None => [] end) (uslots t).
Proof. intros up [n c sl]. reflexivity. Qed.

Lemma is_nil_flat_map_kids : forall (sl : list slot),
    is_nil (flat_map (fun s => match s with Some (e, ch) => [write_clade (Some e) ch] | None => [] end) sl)
    = is_nil (kids_of sl).
Proof.
  induction sl as [|[[e ch]|] r IH]; simpl; auto.
Qed.

Lemma clade_edge_written : forall e ch, clade_edge (write_clade (Some e) ch) = px_edge e ch.
Proof.
  intros e [n c sl]. unfold clade_edge, px_edge. simpl cblen. simpl cconf. rewrite ckids_written.
  simpl uslots. rewrite is_nil_flat_map_kids. unfold kids, degree. simpl uslots.
  destruct (present (elen e)); destruct (is_nil (kids_of sl));
    destruct (negb (Nat.eqb (length sl) 1) && present (esup e)); reflexivity.
Qed.

Lemma conv_kids_written : forall sl,
    Forall (fun s => match s with
                     | Some (_, ch) => named ch = true -> forall up, clade_node false (write_clade up ch) = inl (px_norm false ch)
                     | None => True
                     end) sl ->
    forallb (fun s => match s with Some (_, c) => named c | None => true end) sl = true ->
    conv_kids (flat_map (fun s => match s with Some (e, ch) => [write_clade (Some e) ch] | None => [] end) sl)
    = inl (flat_map (fun s => match s with
                              | Some (e, ch) => [Some (px_edge e ch, px_norm false ch)]
                              | None => []
                              end) sl).
Proof.
  induction sl as [|[[e ch]|] r IH]; intros HF HN; simpl.
  - reflexivity.
  - inversion HF as [|? ? Hk Hr]; subst. simpl in HN. apply andb_true_iff in HN. destruct HN as [N1 N2].
    rewrite (Hk N1). rewrite (IH Hr N2). rewrite clade_edge_written. reflexivity.
  - inversion HF as [|? ? Hk Hr]; subst. simpl in HN. apply IH; assumption.
Qed.

Theorem clade_node_written : forall t, named t = true ->
    forall root up, clade_node root (write_clade up t) = inl (px_norm root t).
Proof.
  induction t as [n c sl IH] using utree_ind'. intros HN root up.
  rewrite clade_node_unfold. rewrite cname_written, ckids_written. simpl uslots. simpl uname.
  simpl in HN. apply andb_true_iff in HN. destruct HN as [N1 N2].
  rewrite conv_kids_written; [| |exact N2].
  2:{ eapply Forall_impl; [|exact IH]. intros [[e ch]|]; [intros Hx Hn up0; apply Hx; assumption|trivial]. }
  rewrite is_nil_flat_map_kids.
  destruct (is_nil (kids_of sl) && String.eqb n ""); [discriminate N1|].
  reflexivity.
Qed.

(** Newick -> PhyloXML -> tree: the tree comes back in normal form *)
Theorem clade_round_trip : forall t, named t = true ->
    clade_to_tree (write_clade None t) = inl (px_norm true t).
Proof. intros t H. apply clade_node_written. assumption. Qed.

(** * ... which is the same rooted tree when the tree carries only what PhyloXML can carry:
    no comments, no p-values, supports only on branches above nodes that have children *)
Definition px_plain_edge (e : einfo) (ch : utree) : bool :=
  qeqb (epv e) nilv && is_nil (ecom e) &&
  (if Nat.eqb (degree ch) 1 then qeqb (esup e) nilv else true).

Fixpoint px_plain (t : utree) : bool :=
  match t with
  | UNode _ c sl =>
    is_nil c &&
    forallb (fun s => match s with Some (e, ch) => px_plain_edge e ch && px_plain ch | None => true end) sl
  end.

Lemma qeqb_refl : forall x, qeqb x x = true.
Proof. intros x. unfold qeqb. apply Qeq_bool_iff. reflexivity. Qed.

Lemma qeqb_sym : forall x y, qeqb x y = true -> qeqb y x = true.
Proof. intros x y H. unfold qeqb in *. apply Qeq_bool_iff in H. apply Qeq_bool_iff. symmetry. assumption. Qed.

Lemma present_false : forall x, present x = false -> qeqb nilv x = true.
Proof. intros x H. unfold present in H. apply negb_false_iff in H. apply qeqb_sym. assumption. Qed.

Lemma streqb_refl : forall s : string, String.eqb s s = true.
Proof. intros s. apply String.eqb_refl. Qed.

(** in a well-formed subtree "one neighbour" is "no children" *)
Lemma length_kids_of : forall sl : list slot, length sl = n_up sl + length (kids_of sl).
Proof.
  induction sl as [|[[e ch]|] r IH]; simpl; unfold n_up in *; simpl; lia.
Qed.

Lemma px_edge_eqb : forall e ch,
    wf_sub ch = true -> px_plain_edge e ch = true -> einfo_eqb (px_edge e ch) e = true.
Proof.
  intros e [n c sl] W Hp. unfold px_plain_edge in Hp. unfold px_edge, einfo_eqb, kids, degree in *. simpl uslots in *.
  simpl in W. apply andb_true_iff in W. destruct W as [W1 _]. apply Nat.eqb_eq in W1.
  apply andb_true_iff in Hp. destruct Hp as [Hp Hs]. apply andb_true_iff in Hp. destruct Hp as [Hpv Hec].
  pose proof (length_kids_of sl) as L. rewrite W1 in L.
  simpl.
  assert (E1 : qeqb (if present (elen e) then elen e else nilv) (elen e) = true).
  { destruct (present (elen e)) eqn:P; [apply qeqb_refl|apply present_false; assumption]. }
  rewrite E1. clear E1.
  assert (E3 : qeqb nilv (epv e) = true) by (apply qeqb_sym; assumption). rewrite E3.
  destruct (ecom e); [|discriminate Hec].
  assert (E2 : qeqb (if is_nil (kids_of sl) then nilv
                     else if negb (Nat.eqb (length sl) 1) && present (esup e) then esup e else nilv) (esup e) = true).
  { destruct (kids_of sl) as [|k kr] eqn:K; simpl.
    - simpl in L. rewrite L in Hs. simpl in Hs. apply qeqb_sym. assumption.
    - destruct (Nat.eqb (length sl) 1) eqn:D; simpl.
      + apply Nat.eqb_eq in D. simpl in L. lia.
      + destruct (present (esup e)) eqn:P; [apply qeqb_refl|apply present_false; assumption]. }
  rewrite E2. reflexivity.
Qed.

Lemma rose_px_norm : forall t (root : bool),
    (if root then wf t else wf_sub t) = true -> px_plain t = true ->
    rose_eqb (rose_of (px_norm root t)) (rose_of t) = true.
Proof.
  induction t as [n c sl IH] using utree_ind'. intros root W Hp.
  assert (WS : forallb (fun s => match s with Some (_, c) => wf_sub c | None => true end) sl = true).
  { destruct root; simpl in W; apply andb_true_iff in W; destruct W; assumption. }
  simpl in Hp. apply andb_true_iff in Hp. destruct Hp as [Hc Hk].
  destruct c; [|discriminate Hc].
  simpl px_norm.
  assert (G : forall pre : list slot,
             (forall s, In s pre -> s = None) ->
             rose_eqb (rose_of (UNode n [] (pre ++ flat_map (fun s => match s with
                                                                       | Some (e, ch) => [Some (px_edge e ch, px_norm false ch)]
                                                                       | None => []
                                                                       end) sl)))
                      (rose_of (UNode n [] sl)) = true).
  { intros pre Hpre. simpl. rewrite streqb_refl. simpl.
    assert (Gpre : forall (tl : list slot),
               (fix go (l : list slot) : list (einfo * rose) :=
                  match l with
                  | [] => []
                  | None :: r => go r
                  | Some (e, ch) :: r => (e, rose_of ch) :: go r
                  end) (pre ++ tl)%list =
               (fix go (l : list slot) : list (einfo * rose) :=
                  match l with
                  | [] => []
                  | None :: r => go r
                  | Some (e, ch) :: r => (e, rose_of ch) :: go r
                  end) tl).
    { induction pre as [|p pr IHp]; intros tl; simpl; [reflexivity|].
      rewrite (Hpre p (or_introl eq_refl)). apply IHp. intros s Hs. apply Hpre. right. assumption. }
    rewrite Gpre. clear Gpre Hpre pre W.
    induction sl as [|[[e ch]|] r IHr]; simpl.
    - reflexivity.
    - inversion IH as [|? ? Hch Hr]; subst.
      simpl in WS. apply andb_true_iff in WS. destruct WS as [W1 W2].
      simpl in Hk. apply andb_true_iff in Hk. destruct Hk as [K1 K2].
      apply andb_true_iff in K1. destruct K1 as [K1a K1b].
      rewrite (px_edge_eqb e ch W1 K1a). rewrite (Hch false W1 K1b). simpl.
      apply IHr; assumption.
    - inversion IH as [|? ? Hch Hr]; subst.
      simpl in WS. simpl in Hk. apply IHr; assumption. }
  destruct root.
  - apply (G []). intros s [].
  - apply (G [None]). intros s [Hs|[]]. symmetry. assumption.
Qed.

(** the PhyloXML round trip preserves shape, child order, names, lengths and supports *)
Theorem clade_round_trip_same_tree : forall t,
    wf t = true -> named t = true -> px_plain t = true ->
    exists t', clade_to_tree (write_clade None t) = inl t' /\
               rose_eqb (rose_of t') (rose_of t) = true.
Proof.
  intros t W N P. exists (px_norm true t). split.
  - apply clade_round_trip. assumption.
  - apply (rose_px_norm t true); assumption.
Qed.

(** * first tree = head of the iteration *)
Definition head_rec (l : list (nat * (utree + string))) (none : string) : utree + string :=
  match l with
  | [] => inr none
  | (_, r) :: _ => r
  end.

Theorem phyloxml_first_is_head : forall d,
    first_tree_phyloxml d = head_rec (iterate_phyloxml d) "No tree in the input PhyloXML file".
Proof. intros [|c d]; reflexivity. Qed.

Lemma combine_seq_ids : forall {A} (l : list A) k, map fst (combine (seq k (length l)) l) = seq k (length l).
Proof. induction l as [|a l IH]; intros k; simpl; [reflexivity|]. rewrite IH. reflexivity. Qed.

Theorem phyloxml_ids_consecutive : forall d, map fst (iterate_phyloxml d) = seq 0 (length d).
Proof.
  intros d. unfold iterate_phyloxml.
  rewrite <- (map_length clade_to_tree d). apply combine_seq_ids.
Qed.

Theorem phyloxml_all_delivered : forall d, map snd (iterate_phyloxml d) = map clade_to_tree d.
Proof.
  intros d. unfold iterate_phyloxml.
  assert (G : forall {A} (l : list A) k, map snd (combine (seq k (length l)) l) = l).
  { intros A l. induction l as [|a l IH]; intros k; simpl; [reflexivity|]. rewrite IH. reflexivity. }
  rewrite <- (map_length clade_to_tree d). apply G.
Qed.

(** before the fix 2b87fca FirstTree returned no tree on every file, also when the iterator
    delivers one *)
Theorem phyloxml_first_is_head_unfixed_refuted :
  exists d, first_tree_phyloxml_unfixed d <> head_rec (iterate_phyloxml d) "No tree in the input PhyloXML file".
Proof.
  exists [Clade "" "" "" None None [Clade "a" "" "" None None []; Clade "b" "" "" None None []]].
  vm_compute. discriminate.
Qed.

Theorem nextstrain_first_is_head : forall c,
    first_tree_nextstrain c = head_rec (iterate_nextstrain c) "No tree in the input Nextstrain file".
Proof. reflexivity. Qed.

(** the Nextstrain conversion is total as well: a tree or its one error *)
Section NsInd.
  Variable P : nsnode -> Prop.
  Hypothesis H : forall n d c ks, Forall P ks -> P (NsNode n d c ks).
  Fixpoint nsnode_ind' (c : nsnode) : P c :=
    match c with
    | NsNode n d cm ks =>
      H n d cm ks ((fix go (l : list nsnode) : Forall P l :=
                      match l with
                      | [] => Forall_nil _
                      | k :: r => Forall_cons k (nsnode_ind' k) (go r)
                      end) ks)
    end.
End NsInd.

Fixpoint ns_conv_kids (d : Q) (l : list nsnode) : list slot + string :=
  match l with
  | [] => inl []
  | k :: r =>
    match ns_node false k with
    | inr e => inr e
    | inl t => match ns_conv_kids d r with
               | inr e => inr e
               | inl sl => inl (Some (mkE (nsdiv k - d)%Q nilv nilv [], t) :: sl)
               end
    end
  end.

Lemma ns_node_unfold : forall root n d cm ks,
    ns_node root (NsNode n d cm ks) =
    match ns_conv_kids d ks with
    | inr e => inr e
    | inl sl =>
      if is_nil ks && String.eqb n "" then inr "one tip has no name"
      else inl (UNode n (match cm with Some x => [x] | None => [] end)
                      ((if root then [] else [None]) ++ sl))
    end.
Proof.
  intros root n d cm ks. simpl.
  assert (E : (fix go (l : list nsnode) : list slot + string :=
                 match l with
                 | [] => inl []
                 | k :: r =>
                   match ns_node false k with
                   | inr e => inr e
                   | inl t => match go r with
                              | inr e => inr e
                              | inl sl => inl (Some (mkE (nsdiv k - d)%Q nilv nilv [], t) :: sl)
                              end
                   end
                 end) ks = ns_conv_kids d ks).
  { induction ks as [|k r IH]; simpl; [reflexivity|]. rewrite IH. reflexivity. }
  rewrite E. reflexivity.
Qed.

Theorem ns_node_total : forall c root,
    (exists t, ns_node root c = inl t) \/ ns_node root c = inr "one tip has no name".
Proof.
  induction c as [n d cm ks IH] using nsnode_ind'. intros root. rewrite ns_node_unfold.
  assert (HR : (exists sl, ns_conv_kids d ks = inl sl) \/ ns_conv_kids d ks = inr "one tip has no name").
  { induction ks as [|k kr IHk]; simpl; [left; eauto|].
    inversion IH as [|? ? Hk Hr]; subst.
    destruct (Hk false) as [[t Ht]|He].
    - rewrite Ht. destruct (IHk Hr) as [[sl Hs]|Hs]; rewrite Hs; [left; eauto|right; reflexivity].
    - rewrite He. right. reflexivity. }
  destruct HR as [[sl Hs]|Hs]; rewrite Hs.
  - destruct (is_nil ks && String.eqb n ""); [right; reflexivity|left; eauto].
  - right. reflexivity.
Qed.
