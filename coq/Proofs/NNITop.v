(** C17: the statements of the property in their final form (proposals taken from
    [nni_list t], binary trees), and the refutation of "two per inner branch" on rooted trees. *)
From Coq Require Import String ZArith QArith Bool Arith Lia List Permutation.
From GT Require Import Base.UTree Spec.Obs Spec.Unrooted Spec.NNISpec Model.Reroot Model.NNI Model.Newick
     Proofs.RerootBase Proofs.Splits Proofs.NNIBase Proofs.NNISem Proofs.NNIMain Proofs.NNICount
     Proofs.NNISets Proofs.NNIDistinct Proofs.NNIList Proofs.NNITrees Proofs.NNIInner Proofs.NNIUSplits Proofs.USplits.
Import ListNotations.
Local Close Scope Q_scope.
Local Open Scope string_scope.

Theorem undo_apply_list t r :
  wf t = true -> In r (nni_list t) ->
  exists t', apply r t = Some t' /\ undo r t' = Some t.
Proof. intros W I. apply undo_apply; auto. now apply nni_list_valid. Qed.

(** whatever is read off the tree after the enumeration is what was read before *)
Theorem rearrange_observation (A : Type) (obs : utree -> A) t l tf :
  wf t = true -> rearrange t = Some (l, tf) -> obs tf = obs t.
Proof.
  intros W H. destruct (rearrange_restores t W) as (l' & E & _). rewrite E in H. now inversion H.
Qed.

Theorem rearrange_text fmt t l tf :
  wf t = true -> rearrange t = Some (l, tf) -> write fmt tf = write fmt t.
Proof. apply rearrange_observation. Qed.

Theorem apply_neighbour t r t' :
  wf t = true -> In r (nni_list t) -> apply r t = Some t' ->
  wf t' = true /\
  Permutation (leaves t) (leaves t') /\
  Permutation (map fst (edges t)) (map fst (edges t')).
Proof.
  intros W I Ha. apply nni_list_valid in I. repeat split.
  - eapply apply_wf; eauto.
  - eapply apply_leaves; eauto.
  - eapply apply_edges_einfo; eauto.
Qed.

Theorem apply_one_split_list t r t' :
  wf t = true -> In r (nni_list t) -> apply r t = Some t' ->
  exists ec A B C D old new rest rest',
    Permutation (leaves t) (A ++ B ++ C ++ D) /\
    B <> [] /\ D <> [] /\ (2 <= length (kids t) -> A <> [] /\ C <> []) /\
    Permutation old (B ++ D) /\
    (Permutation new (A ++ D) \/ Permutation new (C ++ B)) /\
    Permutation (bsplits t) ((ec, old, false) :: rest) /\
    Permutation (bsplits t') ((ec, new, false) :: rest') /\
    PermR bs_same rest rest'.
Proof. intros W I. apply apply_one_split; auto. now apply nni_list_valid. Qed.

Lemma binary_two_kids t : wf t = true -> binary t = true -> 2 <= length (kids t).
Proof.
  destruct t as [n c sl]. unfold binary, kids, degree. cbn [wf uslots]. intros W B.
  apply andb_true_iff in W. destruct W as [U _]. apply Nat.eqb_eq in U.
  apply andb_true_iff in B. destruct B as [B _]. apply orb_true_iff in B.
  pose proof (length_slots sl). destruct B as [B|B]; apply Nat.eqb_eq in B; lia.
Qed.

Theorem neighbours_distinct_binary t r1 r2 t1 t2 :
  wf t = true -> binary t = true -> NoDup (leaves t) ->
  In r1 (nni_list t) -> In r2 (nni_list t) ->
  (r_path r1, r_k r1, r_cross r1) <> (r_path r2, r_k r2, r_cross r2) ->
  apply r1 t = Some t1 -> apply r2 t = Some t2 ->
  ~ same_splits t1 t2.
Proof. intros W B ND. apply neighbours_distinct; auto. now apply binary_two_kids. Qed.

(** * the clause "exactly two rearrangements per inner branch" *)
Definition two_per_inner_branch : Prop :=
  forall t, wf t = true -> binary t = true -> NoDup (leaves t) -> 4 <= length (leaves t) ->
            length (nni_list t) = 2 * inner_branch_count t.

Definition lf (n : string) : utree := UNode n [] [None].
Definition cherry (a b : string) : utree := UNode "" [] [None; Some (e0, lf a); Some (e0, lf b)].
(** the rooted tree ((a,b),(c,d)); *)
Definition witness_rooted : utree := UNode "" [] [Some (e0, cherry "a" "b"); Some (e0, cherry "c" "d")].
(** the unrooted tree (a,b,(c,d)); and the rooted (a,(b,(c,d))); with the parent slot in the middle *)
Definition witness_unrooted : utree :=
  UNode "" [] [Some (e0, lf "a"); Some (e0, lf "b"); Some (e0, cherry "c" "d")].
Definition witness_rooted_tip : utree :=
  UNode "" [] [Some (e0, lf "a");
               Some (e0, UNode "" [] [Some (e0, lf "b"); None; Some (e0, cherry "c" "d")])].

Lemma nodup4 (a b c d : string) :
  a <> b -> a <> c -> a <> d -> b <> c -> b <> d -> c <> d -> NoDup [a; b; c; d].
Proof.
  intros. repeat constructor; simpl; intuition congruence.
Qed.

Theorem witness_rooted_facts :
  wf witness_rooted = true /\ binary witness_rooted = true /\
  leaves witness_rooted = ["a"; "b"; "c"; "d"] /\
  inner_branch_count witness_rooted = 1 /\ inner_split_count witness_rooted = 1 /\
  nni_list witness_rooted = [].
Proof. vm_compute. repeat split. Qed.

Theorem two_per_inner_branch_refuted : ~ two_per_inner_branch.
Proof.
  intros H. specialize (H witness_rooted).
  destruct witness_rooted_facts as (W & B & L & I & _ & N).
  rewrite N, I, L in H. cbn [length] in H.
  assert (X : 0 = 2 * 1) by (apply H; auto; try lia; apply nodup4; discriminate).
  discriminate.
Qed.

(** the hypotheses are satisfiable and the proposals exist: plain exchange and inversion *)
Theorem witness_unrooted_facts :
  wf witness_unrooted = true /\ binary witness_unrooted = true /\
  leaves witness_unrooted = ["a"; "b"; "c"; "d"] /\
  map (fun r => (r_edge r, r_path r, r_k r, r_j r, r_cross r, r_flip r)) (nni_list witness_unrooted)
  = [(2, [], 2, 0, false, false); (2, [], 2, 0, true, false)] /\
  inner_branch_count witness_unrooted = 1.
Proof. vm_compute. repeat split. Qed.

Theorem witness_rooted_tip_facts :
  wf witness_rooted_tip = true /\ binary witness_rooted_tip = true /\
  leaves witness_rooted_tip = ["a"; "b"; "c"; "d"] /\
  map (fun r => (r_edge r, r_path r, r_k r, r_j r, r_cross r, r_flip r)) (nni_list witness_rooted_tip)
  = [(3, [1], 2, 0, false, true); (3, [1], 2, 0, true, true)] /\
  inner_branch_count witness_rooted_tip = 1 /\ inner_root_kids witness_rooted_tip = 1.
Proof. vm_compute. repeat split. Qed.

(** * the proposal object and its [applied] flag; proposals kept and used later *)
Theorem object_sequences t r :
  wf t = true -> In r (nni_list t) ->
  exists t1, apply r t = Some t1 /\
    run_ops r [OpApply; OpUndo; OpApply; OpUndo] (false, t) = Some ([t1; t; t1; t], (false, t)) /\
    run_ops r [OpApply; OpApply; OpUndo; OpUndo] (false, t) = Some ([t1; t1; t; t], (false, t)) /\
    run_ops r [OpUndo; OpApply; OpUndo] (false, t) = Some ([t; t1; t], (false, t)).
Proof.
  intros W I. destruct (undo_apply_list t r W I) as (t1 & Ha & Hu). exists t1. split; [exact Ha|].
  repeat split; cbn -[apply undo]; repeat (rewrite ?Ha, ?Hu; cbn -[apply undo]); reflexivity.
Qed.

Lemma pick_valid t order : forall rs, Model.NNI.pick t order = Some rs -> Forall (fun r => valid r t) rs.
Proof.
  unfold Model.NNI.pick. induction order as [|i l IH]; intros rs H.
  - inversion H. constructor.
  - destruct (nth_error (nni_list t) i) as [r|] eqn:E; [|discriminate].
    match type of H with context [match ?g with Some _ => _ | None => _ end] => destruct g as [rl|] eqn:G end;
      [|discriminate].
    inversion H; subst. constructor; [|now apply IH].
    apply nni_list_valid. eapply nth_error_In; eauto.
Qed.

(** proposals kept by the caller: in any order, with repetitions, each gives [apply r t] of
    the original tree and the tree is left as it was *)
Theorem kept_proposals t order rs :
  wf t = true -> Model.NNI.pick t order = Some rs ->
  exists l, enumerate rs t = Some (l, t) /\ Forall2 (fun r t' => apply r t = Some t') rs l.
Proof. intros W H. apply enumerate_valid; auto. eapply pick_valid; eauto. Qed.

(** * last round: the list itself, counts on splits, distinct trees, multifurcations *)
Theorem proposals_exactly_two t :
  wf t = true ->
  NoDup (nni_list t) /\
  length (nni_list t) = 2 * length (filter both3 (edges_pc t)) /\
  (forall r, In r (nni_list t) ->
     nth_error (edge_locs t) (r_edge r) = Some (r_path r, r_k r) /\
     In (mkNNI (r_edge r) (r_path r) (r_k r) (r_j r) (negb (r_cross r)) (r_flip r)) (nni_list t)) /\
  (forall r1 r2, In r1 (nni_list t) -> In r2 (nni_list t) ->
     r_path r1 = r_path r2 -> r_k r1 = r_k r2 -> r_cross r1 = r_cross r2 -> r1 = r2).
Proof.
  intros W. split; [apply nni_list_nodup|]. split; [now apply nni_count|]. split.
  - intros r H. split; [apply (nni_list_in t r H) | now apply nni_list_pair].
  - apply nni_list_unique.
Qed.

Theorem two_per_inner_split_unrooted t :
  wf t = true -> binary t = true -> NoDup (leaves t) -> degree t = 3 ->
  length (nni_list t) = 2 * inner_split_count t.
Proof. intros W B ND D. rewrite <- inner_counts; auto. now apply nni_count_unrooted. Qed.

Theorem neighbours_distinct_trees t r1 r2 t1 t2 :
  wf t = true -> binary t = true -> NoDup (leaves t) ->
  In r1 (nni_list t) -> In r2 (nni_list t) ->
  (r_path r1, r_k r1, r_cross r1) <> (r_path r2, r_k r2, r_cross r2) ->
  apply r1 t = Some t1 -> apply r2 t = Some t2 ->
  t1 <> t2 /\ utree_eqb t1 t2 = false.
Proof.
  intros W B ND I1 I2 Ne A1 A2. apply not_same_splits_trees.
  exact (neighbours_distinct_binary t r1 r2 t1 t2 W B ND I1 I2 Ne A1 A2).
Qed.

Theorem neighbour_differs t r t1 :
  wf t = true -> binary t = true -> NoDup (leaves t) ->
  In r (nni_list t) -> apply r t = Some t1 ->
  ~ same_splits t1 t /\ t1 <> t /\ utree_eqb t1 t = false.
Proof.
  intros W B ND I A1.
  assert (H : ~ same_splits t1 t).
  { eapply neighbour_not_original; eauto; [now apply binary_two_kids | now apply nni_list_valid]. }
  split; auto. now apply not_same_splits_trees.
Qed.

(** a tree with a multifurcation: ((a,b),((c,d),(e,f,g)),h); -- the branch to (e,f,g) has an
    end with four neighbours and is skipped, the three other inner branches get two proposals *)
Definition witness_multi : utree :=
  UNode "" [] [Some (e0, cherry "a" "b");
               Some (e0, UNode "" [] [None; Some (e0, cherry "c" "d");
                                      Some (e0, UNode "" [] [None; Some (e0, lf "e"); Some (e0, lf "f"); Some (e0, lf "g")])]);
               Some (e0, lf "h")].

Theorem witness_multi_facts :
  wf witness_multi = true /\ binary witness_multi = false /\
  map (fun x => (degree (fst (fst x)), degree (snd x))) (filter (fun x => negb (is_tip (snd x))) (edges_pc witness_multi))
  = [(3, 3); (3, 3); (3, 3); (3, 4)] /\
  map (fun r => (r_edge r, r_path r, r_k r, r_cross r)) (nni_list witness_multi)
  = [(0, [], 0, false); (0, [], 0, true); (3, [], 1, false); (3, [], 1, true);
     (4, [1], 1, false); (4, [1], 1, true)].
Proof. vm_compute. repeat split. Qed.

(** * stretch 5: the count in one statement, the neighbours at the level of [usplits],
    nested and interleaved enumerations *)
Lemma no_inner_kids_no_internal t :
  inner_root_kids t = 0 -> internal_edges t = [].
Proof.
  destruct t as [n c sl]. unfold inner_root_kids, kids. cbn [uslots internal_edges].
  induction sl as [|[[e ch]|] r IH]; cbn [kids_of flat_map filter app snd]; auto.
  destruct (is_tip ch); cbn [negb]; [auto|discriminate].
Qed.

Lemma filter_len_le {A} (f : A -> bool) l : length (filter f l) <= length l.
Proof. induction l as [|a l IH]; cbn; auto. destruct (f a); cbn; lia. Qed.

Lemma rooted_kids_le t : wf t = true -> degree t = 2 -> inner_root_kids t <= 2.
Proof.
  intros W D. unfold inner_root_kids. etransitivity; [apply filter_len_le|].
  destruct t as [n c sl]. unfold kids, degree in *. cbn [uslots wf] in *.
  pose proof (length_slots sl). lia.
Qed.

(** exactly two per inner branch, except that the inner branch through a degree-2 root
    (both root children inner nodes) gets none *)
Theorem nni_count_exact t :
  wf t = true -> binary t = true ->
  length (nni_list t) =
  2 * (inner_branch_count t - (if rooted t && Nat.eqb (inner_root_kids t) 2 then 1 else 0)).
Proof.
  intros W B. pose proof (binary_count t W B) as H. unfold inner_branch_count, rooted.
  destruct (root_setup t W B) as (_ & _ & _ & [D|D] & _); rewrite D in *; cbn [Nat.eqb andb] in *.
  - pose proof (rooted_kids_le t W D) as LE.
    destruct (inner_root_kids t) as [|[|[|k]]] eqn:EK; cbn [Nat.eqb] in *; try lia.
    rewrite (no_inner_kids_no_internal t EK) in *. cbn [length] in *. lia.
  - lia.
Qed.

Theorem nni_count_exact_splits t :
  wf t = true -> binary t = true -> NoDup (leaves t) ->
  length (nni_list t) =
  2 * (inner_split_count t - (if rooted t && Nat.eqb (inner_root_kids t) 2 then 1 else 0)).
Proof. intros W B ND. rewrite <- inner_counts; auto. now apply nni_count_exact. Qed.

(** the neighbour's [usplits]: one key replaced, every other split found with the same data *)
Theorem usplits_replaced_list t r t' :
  wf t = true -> binary t = true -> NoDup (leaves t) -> In r (nni_list t) -> apply r t = Some t' ->
  exists c_old c_new,
    (slen c_new == slen c_old)%Q /\ (ssup c_new == ssup c_old)%Q /\
    sside c_old <> sside c_new /\
    orel split_qeq (find_split (sside c_old) (usplits t)) (Some c_old) /\
    find_split (sside c_new) (usplits t) = None /\
    orel split_qeq (find_split (sside c_new) (usplits t')) (Some c_new) /\
    find_split (sside c_old) (usplits t') = None /\
    forall k, k <> sside c_old -> k <> sside c_new ->
              orel split_qeq (find_split k (usplits t')) (find_split k (usplits t)).
Proof.
  intros W B ND I A1. apply (usplits_replaced r); auto; [now apply binary_two_kids | now apply nni_list_valid].
Qed.

(** different proposals: different sets of [usplits] keys; a neighbour: not the keys of [t] *)
Theorem neighbours_distinct_usplits t r1 r2 t1 t2 :
  wf t = true -> binary t = true -> NoDup (leaves t) ->
  In r1 (nni_list t) -> In r2 (nni_list t) ->
  (r_path r1, r_k r1, r_cross r1) <> (r_path r2, r_k r2, r_cross r2) ->
  apply r1 t = Some t1 -> apply r2 t = Some t2 ->
  ~ (forall k, In k (map sside (usplits t1)) <-> In k (map sside (usplits t2))).
Proof.
  intros W B ND I1 I2 Ne A1 A2.
  pose proof (apply_leaves r1 t t1 W (nni_list_valid _ _ I1) A1) as L1.
  pose proof (apply_leaves r2 t t2 W (nni_list_valid _ _ I2) A2) as L2.
  apply distinct_keys.
  - eapply Permutation_NoDup; eauto.
  - etransitivity; [symmetry; exact L1 | exact L2].
  - exact (neighbours_distinct_binary t r1 r2 t1 t2 W B ND I1 I2 Ne A1 A2).
Qed.

Theorem neighbour_differs_usplits t r t1 :
  wf t = true -> binary t = true -> NoDup (leaves t) ->
  In r (nni_list t) -> apply r t = Some t1 ->
  ~ (forall k, In k (map sside (usplits t1)) <-> In k (map sside (usplits t))).
Proof.
  intros W B ND I A1.
  pose proof (apply_leaves r t t1 W (nni_list_valid _ _ I) A1) as L1.
  apply distinct_keys.
  - eapply Permutation_NoDup; eauto.
  - now symmetry.
  - exact (proj1 (neighbour_differs t r t1 W B ND I A1)).
Qed.

(** a second enumeration started while proposal [r] is applied (the 2-step neighbourhood):
    it proposes the neighbours of the neighbour, leaves it as it is, and Undo then restores [t] *)
Theorem nested_enumeration t r :
  wf t = true -> In r (nni_list t) ->
  exists t1 l1, apply r t = Some t1 /\ wf t1 = true /\
                rearrange t1 = Some (l1, t1) /\
                Forall2 (fun r' t' => apply r' t1 = Some t') (nni_list t1) l1 /\
                undo r t1 = Some t.
Proof.
  intros W I. destruct (undo_apply_list t r W I) as (t1 & A1 & U1).
  pose proof (apply_wf r t t1 W (nni_list_valid _ _ I) A1) as W1.
  destruct (rearrange_restores t1 W1) as (l1 & R1 & F1).
  exists t1, l1. auto.
Qed.

(** two enumerations interleaved in any way are the two enumerations: the steps of one never
    read or write the tree of the other (the model has no state besides the trees) *)
Definition ostep := utree -> option utree.
Fixpoint run_seq (ops : list ostep) (t : utree) : option utree :=
  match ops with
  | [] => Some t
  | f :: r => match f t with Some t' => run_seq r t' | None => None end
  end.
(** [sched]: true = next step of the first enumeration, false = of the second *)
Fixpoint run_two (sched : list bool) (oa ob : list ostep) (a b : utree) : option (utree * utree) :=
  match sched with
  | [] => match oa, ob with [], [] => Some (a, b) | _, _ => None end
  | true :: s => match oa with
                 | f :: ra => match f a with Some a' => run_two s ra ob a' b | None => None end
                 | [] => None end
  | false :: s => match ob with
                  | f :: rb => match f b with Some b' => run_two s oa rb a b' | None => None end
                  | [] => None end
  end.

Theorem interleaving_independent sched : forall oa ob a b a' b',
  run_seq oa a = Some a' -> run_seq ob b = Some b' ->
  length (filter (fun x => x) sched) = length oa -> length (filter negb sched) = length ob ->
  run_two sched oa ob a b = Some (a', b').
Proof.
  induction sched as [|[|] s IH]; intros oa ob a b a' b' HA HB LA LB; cbn [run_two filter negb length] in *.
  - destruct oa, ob; try discriminate. cbn in HA, HB. congruence.
  - destruct oa as [|f ra]; [discriminate|]. cbn [run_seq length] in *. destruct (f a); [|discriminate].
    apply IH; auto.
  - destruct ob as [|f rb]; [discriminate|]. cbn [run_seq length] in *. destruct (f b); [|discriminate].
    apply IH; auto.
Qed.

(** the steps of the cmd/nni.go loop on [t]: Apply, Undo for every proposal of the enumeration *)
Definition enum_steps (t : utree) : list ostep :=
  flat_map (fun r => [apply r; undo r]) (nni_list t).

Lemma enum_steps_run t : wf t = true -> run_seq (enum_steps t) t = Some t.
Proof.
  intros W. unfold enum_steps.
  assert (F : Forall (fun r => valid r t) (nni_list t)) by (apply Forall_forall; intros r; apply nni_list_valid).
  induction F as [|r rs V _ IH]; cbn [flat_map app run_seq]; auto.
  destruct (undo_apply r t W V) as (t1 & -> & U). cbn [run_seq]. now rewrite U.
Qed.

Theorem two_enumerations_interleaved ta tb sched :
  wf ta = true -> wf tb = true ->
  length (filter (fun x => x) sched) = length (enum_steps ta) ->
  length (filter negb sched) = length (enum_steps tb) ->
  run_two sched (enum_steps ta) (enum_steps tb) ta tb = Some (ta, tb).
Proof. intros WA WB. apply interleaving_independent; now apply enum_steps_run. Qed.

(** non-vacuity: ((a,b),(c,d),(e,f)); three inner branches, six neighbours, each with one of
    the three non-trivial keys replaced by a new one, six different key sets *)
Definition witness6 : utree :=
  UNode "" [] [Some (e0, cherry "a" "b"); Some (e0, cherry "c" "d"); Some (e0, cherry "e" "f")].
Definition nt_keys (t : utree) : list (list string) :=
  map sside (filter (nontrivial_split (length (tipset t))) (usplits t)).

Theorem witness6_facts :
  wf witness6 = true /\ binary witness6 = true /\ leaves witness6 = ["a"; "b"; "c"; "d"; "e"; "f"] /\
  nt_keys witness6 = [["c"; "d"; "e"; "f"]; ["c"; "d"]; ["e"; "f"]] /\
  length (nni_list witness6) = 6 /\ inner_split_count witness6 = 3 /\ inner_branch_count witness6 = 3 /\
  map (fun r => match apply r witness6 with Some t' => nt_keys t' | None => [] end) (nni_list witness6) =
  [[["b"; "c"; "d"]; ["e"; "f"]; ["c"; "d"]];
   [["b"; "e"; "f"]; ["e"; "f"]; ["c"; "d"]];
   [["d"; "e"; "f"]; ["c"; "d"; "e"; "f"]; ["e"; "f"]];
   [["c"; "e"; "f"]; ["c"; "d"; "e"; "f"]; ["e"; "f"]];
   [["c"; "d"; "e"; "f"]; ["c"; "d"; "e"]; ["c"; "d"]];
   [["c"; "d"; "e"; "f"]; ["c"; "d"; "f"]; ["c"; "d"]]].
Proof. vm_compute. repeat split. Qed.
