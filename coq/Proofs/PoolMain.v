(** Worker-pool model: the statements in their final form (re-exported by Properties/C11Pool.v).
    Everything quantifies over every schedule, every number of workers, every job list and
    every job body. *)
From Coq Require Import Bool Arith Lia List Permutation.
From GT Require Import Model.Pool Proofs.Pool Proofs.PoolLive.
Import ListNotations.

Local Arguments pending {job res err} s.
Local Arguments closed {job res err} s.
Local Arguments queue {job res err} s.
Local Arguments ws {job res err} s.
Local Arguments out {job res err} s.
Local Arguments errs {job res err} s.
Local Arguments run {job res err}.
Local Arguments init {job res err}.
Local Arguments finished {job res err} s.
Local Arguments busy_jobs {job res err} s.
Local Arguments drain_schedule {job res err} s.

Section Main.
  Variables (job res err : Type).
  Variable f : job -> res.
  Variable fails : job -> bool.
  Variable e_of : job -> err.

  (** ** T1 *)

  Lemma conservation_jobs on_fail done_on_exit (jobs : list job) n sched :
    let s := run f fails e_of on_fail done_on_exit sched (init jobs n) in
    exists processed,
      Permutation jobs (pending s ++ queue s ++ busy_jobs s ++ processed)
      /\ out s = match on_fail with
                 | Continue => map f processed
                 | Stop => map f (filter (fun j => negb (fails j)) processed)
                 end
      /\ errs s = map e_of (filter fails processed).
  Proof. apply conservation_general. Qed.

  Lemma conservation_results_continue done_on_exit (jobs : list job) n sched :
    let s := run f fails e_of Continue done_on_exit sched (init jobs n) in
    Permutation (map f jobs)
                (out s ++ map f (busy_jobs s) ++ map f (queue s) ++ map f (pending s)).
  Proof. apply conservation_results. left. reflexivity. Qed.

  Lemma conservation_results_nofail on_fail done_on_exit (jobs : list job) n sched :
    (forall j, In j jobs -> fails j = false) ->
    let s := run f fails e_of on_fail done_on_exit sched (init jobs n) in
    Permutation (map f jobs)
                (out s ++ map f (busy_jobs s) ++ map f (queue s) ++ map f (pending s)).
  Proof. intros H. apply conservation_results. right. exact H. Qed.

  (** ** T2 *)

  Lemma results_continue done_on_exit (jobs : list job) n sched :
    1 <= n ->
    let s := run f fails e_of Continue done_on_exit sched (init jobs n) in
    finished s = true -> Permutation (out s) (map f jobs).
  Proof. intros H. apply results_schedule_independent; auto. left. reflexivity. Qed.

  Lemma results_nofail on_fail done_on_exit (jobs : list job) n sched :
    (forall j, In j jobs -> fails j = false) -> 1 <= n ->
    let s := run f fails e_of on_fail done_on_exit sched (init jobs n) in
    finished s = true -> Permutation (out s) (map f jobs).
  Proof. intros H Hn. apply results_schedule_independent; auto. right. exact H. Qed.

  (** two runs, any two schedules, any two numbers of workers: the same multiset of results *)
  Lemma results_two_runs on_fail done_on_exit (jobs : list job) n1 n2 sched1 sched2 :
    on_fail = Continue \/ (forall j, In j jobs -> fails j = false) ->
    1 <= n1 -> 1 <= n2 ->
    let s1 := run f fails e_of on_fail done_on_exit sched1 (init jobs n1) in
    let s2 := run f fails e_of on_fail done_on_exit sched2 (init jobs n2) in
    finished s1 = true -> finished s2 = true -> Permutation (out s1) (out s2).
  Proof.
    intros H H1 H2 s1 s2 F1 F2.
    eapply Permutation_trans.
    - apply (results_schedule_independent _ _ _ f fails e_of on_fail done_on_exit jobs n1 sched1 H H1 F1).
    - symmetry.
      apply (results_schedule_independent _ _ _ f fails e_of on_fail done_on_exit jobs n2 sched2 H H2 F2).
  Qed.

  (** with no worker at all "finished" is vacuous: the hypothesis 1 <= n of T2 is needed *)
  Lemma results_need_a_worker on_fail done_on_exit (jobs : list job) sched :
    let s := run f fails e_of on_fail done_on_exit sched (init jobs 0) in
    finished s = true /\ out s = [] /\ errs s = [].
  Proof. apply zero_workers_finished. Qed.

  (** ** T3 *)

  Lemma errors_reach_caller' on_fail done_on_exit (jobs : list job) n sched :
    1 <= n ->
    let s := run f fails e_of on_fail done_on_exit sched (init jobs n) in
    finished s = true -> (exists j, In j jobs /\ fails j = true) -> errs s <> [].
  Proof. apply errors_reach_caller. Qed.

  Lemma errors_all_reported_continue done_on_exit (jobs : list job) n sched :
    1 <= n ->
    let s := run f fails e_of Continue done_on_exit sched (init jobs n) in
    finished s = true -> Permutation (errs s) (map e_of (filter fails jobs)).
  Proof. apply errors_all_reported. reflexivity. Qed.

  (** ** T6 *)

  Lemma stop_without_done_can_hang j rest n sched :
    fails j = true -> 1 <= n ->
    finished (run f fails e_of Stop false ([0; 1; 1] ++ sched) (init (j :: rest) n)) = false.
  Proof.
    intros F Hn. destruct n as [|n]; [lia|]. apply stop_without_done_hangs. exact F.
  Qed.

  Lemma stop_without_done_one_worker_one_job j sched :
    fails j = true -> finished (run f fails e_of Stop false sched (init [j] 1)) = false.
  Proof. apply single_worker_single_job_never_finishes. Qed.

  (** ** T4 *)

  Lemma termination_reachable_done on_fail (jobs : list job) n sched :
    let s := run f fails e_of on_fail true sched (init jobs n) in
    finished (run f fails e_of on_fail true (drain_schedule s) s) = true.
  Proof. apply drain_schedule_finishes. left. reflexivity. Qed.

  Lemma termination_reachable_continue done_on_exit (jobs : list job) n sched :
    let s := run f fails e_of Continue done_on_exit sched (init jobs n) in
    finished (run f fails e_of Continue done_on_exit (drain_schedule s) s) = true.
  Proof. apply drain_schedule_finishes. right. reflexivity. Qed.

  (** ** T5 *)

  Lemma fair_schedule_done on_fail (jobs : list job) n sched1 sched2 :
    length jobs + 1 <= count_occ Nat.eq_dec sched1 0 ->
    (forall k, k < n -> 2 * length jobs + 2 <= count_occ Nat.eq_dec sched2 (S k)) ->
    finished (run f fails e_of on_fail true (sched1 ++ sched2) (init jobs n)) = true.
  Proof. apply fair_schedule_finishes. left. reflexivity. Qed.

  Lemma fair_schedule_continue done_on_exit (jobs : list job) n sched1 sched2 :
    length jobs + 1 <= count_occ Nat.eq_dec sched1 0 ->
    (forall k, k < n -> 2 * length jobs + 2 <= count_occ Nat.eq_dec sched2 (S k)) ->
    finished (run f fails e_of Continue done_on_exit (sched1 ++ sched2) (init jobs n)) = true.
  Proof. apply fair_schedule_finishes. right. reflexivity. Qed.

  Lemma fair_blocks_done on_fail (jobs : list job) n (blocks : list (list nat)) :
    (forall b, In b blocks -> In 0 b /\ forall k, k < n -> In (S k) b) ->
    3 * length jobs + 3 <= length blocks ->
    finished (run f fails e_of on_fail true (concat blocks) (init jobs n)) = true.
  Proof. apply fair_blocks_finish. left. reflexivity. Qed.

  Lemma fair_blocks_continue done_on_exit (jobs : list job) n (blocks : list (list nat)) :
    (forall b, In b blocks -> In 0 b /\ forall k, k < n -> In (S k) b) ->
    3 * length jobs + 3 <= length blocks ->
    finished (run f fails e_of Continue done_on_exit (concat blocks) (init jobs n)) = true.
  Proof. apply fair_blocks_finish. right. reflexivity. Qed.

End Main.

(** * Concrete instances (jobs are numbers) *)

Definition ex_f (j : nat) : nat := 10 * j.
Definition ex_fails (j : nat) : bool := j =? 2.
Definition ex_err (j : nat) : nat := 100 + j.
(** worker 0 does everything *)
Definition ex_sched_a : list nat := [0;0;0;0; 1;1; 1;1; 1;1; 1; 2].
(** the two workers overlap, the second job is finished before the first *)
Definition ex_sched_b : list nat := [0;0;0;0; 1;2; 2;1; 2;2; 1;2].

Lemma example_two_interleavings :
  let sa := run ex_f ex_fails ex_err Continue true ex_sched_a (init [1;2;3] 2) in
  let sb := run ex_f ex_fails ex_err Continue true ex_sched_b (init [1;2;3] 2) in
  finished sa = true /\ finished sb = true
  /\ out sa = [10; 20; 30] /\ out sb = [20; 10; 30]
  /\ errs sa = [102] /\ errs sb = [102].
Proof. vm_compute. repeat split. Qed.

(** Stop with Done on every path (FBP as fixed): it finishes, the error is reported, but the
    results are partial — so T2 really needs its hypothesis *)
Lemma example_stop_loses_results :
  let s := run ex_f ex_fails ex_err Stop true [0;0;0;0;1;1;1;1] (init [1;2;3] 1) in
  finished s = true /\ out s = [10] /\ queue s = [3] /\ errs s = [102].
Proof. vm_compute. repeat split. Qed.

(** Stop without Done (FBP before the fix), two workers: the draining schedule that completes
    with Done does not complete without *)
Lemma example_hang :
  let run_from d :=
    let s := run ex_f ex_fails ex_err Stop d [0;1;2] (init [1;2;3] 2) in
    run ex_f ex_fails ex_err Stop d (drain_schedule s) s in
  finished (run_from true) = true /\ finished (run_from false) = false
  /\ ws (run_from false) = [Exited; Dead].
Proof. vm_compute. repeat split. Qed.
