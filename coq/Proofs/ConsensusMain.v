(** C09, the loop of Consensus over the input trees: on a collection of good trees on the same
    taxa it does not fail, and leaves in the index exactly the branch counts of
    Proofs/ConsensusCount.v; thresholds outside [0.5,1] and a tree on other taxa are rejected. *)
From Coq Require Import String NArith ZArith QArith Bool Arith Lia List Permutation Sorted.
From GT Require Import Base.UTree Spec.Obs Spec.ConsensusSpec Model.Reroot Model.Index Model.HashMap Model.EdgeIndex
     Model.Compare Model.Consensus Proofs.IndexBase Proofs.IndexTree Proofs.IndexSplit Proofs.Splits
     Proofs.CompareBase Proofs.CompareTree Proofs.CompareMain Proofs.ConsensusCount.
Import ListNotations.
Local Close Scope Q_scope.
Local Arguments leaves : simpl never.
Local Open Scope string_scope.

(** * thresholds outside [0.5, 1] *)
Theorem consensus_bad_cutoff ts (c64 : Q) :
  cutoff_ok c64 = false ->
  consensus_gen aindex ai_new ai_add (fun a => a) ts c64 =
  Some (Err "min frequency for bipartition must be >=0.5 and <=1").
Proof. unfold cutoff_ok, consensus_gen. intros ->. reflexivity. Qed.

(** * tips as the code enumerates them *)
Lemma tip_edges_names u :
  children_wf (uslots u) = true -> kids u <> [] ->
  map (fun p => uname (snd p)) (tip_edges u) = leaves u.
Proof.
  induction u as [n cm sl IH] using utree_ind'. simpl uslots. unfold kids. simpl. intros W K.
  rewrite leaves_node by auto. rewrite map_flat_map. unfold sub_leaves.
  apply flat_map_ext_in. intros [[e c]|] Hin; auto.
  pose proof (children_wf_in _ _ _ W Hin) as Wc.
  rewrite Forall_forall in IH. specialize (IH _ Hin). simpl in IH.
  unfold slot_leaves. rewrite (is_tip_isleafb c Wc). unfold isleafb.
  destruct c as [n' cm' sl']. pose proof Wc as Wc'. apply wf_sub_inv in Wc'. destruct Wc' as [Hup Hch].
  pose proof (length_slots sl') as HL. rewrite Hup in HL.
  unfold kids, degree. simpl uslots.
  destruct (kids_of sl') eqn:Ks.
  - simpl in HL. rewrite HL. simpl. rewrite leaves_no_kids by auto. reflexivity.
  - assert (D : Nat.ltb 1 (length sl') = true) by (apply Nat.ltb_lt; simpl in HL; lia).
    rewrite D. simpl. apply IH; auto. unfold kids. simpl. rewrite Ks. discriminate.
Qed.

Lemma all_tip_names_sub c : wf_sub c = true -> all_tip_names c = leaves c.
Proof.
  induction c as [n cm sl IH] using utree_ind'. intros W.
  pose proof W as W'. apply wf_sub_inv in W'. destruct W' as [Hup Hch].
  pose proof (length_slots sl) as HL. rewrite Hup in HL.
  simpl. destruct (kids_of sl) eqn:K.
  - simpl in HL. rewrite HL. simpl. rewrite leaves_no_kids by auto. reflexivity.
  - assert (D : Nat.eqb (length sl) 1 = false) by (apply Nat.eqb_neq; simpl in HL; lia).
    rewrite D. rewrite leaves_node by (rewrite K; discriminate). unfold sub_leaves.
    apply flat_map_ext_in. intros [[e c]|] Hin; auto. simpl.
    rewrite Forall_forall in IH. apply (IH _ Hin). apply (children_wf_in _ _ _ Hch Hin).
Qed.

Lemma all_tip_names_good t : good t -> all_tip_names t = leaves t.
Proof.
  intros G. pose proof (good_kids t G) as K. destruct G as (W & D & _).
  destruct t as [n cm sl]. apply wf_inv in W. destruct W as [Hup Hch].
  unfold degree, kids in *. simpl in *.
  destruct (Nat.eqb_spec (length sl) 1); [lia|].
  rewrite leaves_node by auto. unfold sub_leaves.
  apply flat_map_ext_in. intros [[e c]|] Hin; auto. simpl.
  apply all_tip_names_sub. apply (children_wf_in _ _ _ Hch Hin).
Qed.

Lemma good_two_leaves t : good t -> 2 <= length (leaves t).
Proof.
  intros G. pose proof G as (W & D & _).
  destruct t as [n cm sl]. apply wf_inv in W. destruct W as [Hup Hch].
  unfold degree in D. simpl in D.
  pose proof (length_slots sl) as HL. rewrite Hup in HL. simpl in HL.
  assert (K : kids_of sl <> []) by (intro Z; rewrite Z in HL; simpl in HL; lia).
  rewrite leaves_node by auto.
  assert (NoNone : forall s, In s sl -> s <> None).
  { intros s Hs ->. clear - Hs Hup. unfold n_up in Hup. induction sl as [|[p|] r IH]; simpl in *; try lia; auto.
    destruct Hs; [discriminate | auto]. }
  destruct sl as [|s1 [|s2 r]]; simpl in D; try lia.
  destruct s1 as [[e1 c1]|]; [|exfalso; apply (NoNone None); simpl; auto].
  destruct s2 as [[e2 c2]|]; [|exfalso; apply (NoNone None); simpl; auto].
  unfold sub_leaves. simpl. rewrite !app_length.
  destruct (sub_spec [] c1) as (_ & _ & _ & N1); [apply (children_wf_in _ _ _ Hch (or_introl eq_refl))|].
  destruct (sub_spec [] c2) as (_ & _ & _ & N2); [apply (children_wf_in _ e2 c2 Hch); simpl; auto|].
  destruct (leaves c1); [congruence|]. destruct (leaves c2); [congruence|]. simpl. lia.
Qed.

(** * one turn of the loop *)
Definition ok_input (t : utree) : Prop := good (prep_input t).

(** the star-tree data taken from the first tree *)
Definition star_of (t : utree) : star_info :=
  let p := prep_input t in
  mkStar (all_tip_names p) (map (fun q => (uname (snd q), elen (fst q))) (tip_edges p))
         (sort_names (map fst (map (fun q => (uname (snd q), elen (fst q))) (tip_edges p)))).

Lemma star_ids t : ok_input t -> st_ids (star_of t) = sorted_tip_names (prep_input t).
Proof.
  intros G. unfold star_of, st_ids. rewrite map_map. simpl.
  pose proof G as (W & D & _).
  rewrite tip_edges_names.
  - unfold sorted_tip_names. destruct (root_NI _ W D) as [_ ->]. reflexivity.
  - destruct (prep_input t). apply wf_inv in W. apply W.
  - now apply good_kids.
Qed.

Lemma cons_step_first i (m : aindex) t :
  ok_input t ->
  cons_step aindex ai_add i m None t =
  Some (Ok (add_list m (branch_keys i (prep_input t)), star_of t)).
Proof.
  intros G. unfold cons_step. rewrite (reinit_good i _ G).
  pose proof G as (W & D & ND).
  assert (Wc : children_wf (uslots (prep_input t)) = true) by (destruct (prep_input t); apply wf_inv in W; apply W).
  assert (TE : map fst (map (fun q => (uname (snd q), elen (fst q))) (tip_edges (prep_input t))) = leaves (prep_input t)).
  { rewrite map_map. simpl. apply tip_edges_names; auto. now apply good_kids. }
  assert (L2 : Nat.ltb (length (map (fun q => (uname (snd q), elen (fst q))) (tip_edges (prep_input t)))) 2 = false).
  { apply Nat.ltb_ge. rewrite <- (map_length fst), TE. now apply good_two_leaves. }
  rewrite L2.
  assert (ND' : has_dup_sorted (sort_names (map fst (map (fun q => (uname (snd q), elen (fst q))) (tip_edges (prep_input t))))) = false).
  { apply no_dup_sorted. rewrite TE. eapply Permutation_NoDup; [apply Permutation_sym, sort_names_perm|]. exact ND. }
  rewrite ND'. rewrite add_all_assoc. reflexivity.
Qed.

Lemma cons_step_next i (m : aindex) t0 t :
  ok_input t0 -> ok_input t -> Permutation (leaves (prep_input t)) (leaves (prep_input t0)) ->
  cons_step aindex ai_add i m (Some (star_of t0)) t =
  Some (Ok (add_list m (branch_keys i (prep_input t)), star_of t0)).
Proof.
  intros G0 G P. unfold cons_step. rewrite (reinit_good i _ G).
  rewrite (all_tip_names_good _ G).
  assert (E0 : st_alltips (star_of t0) = leaves (prep_input t0)) by (unfold star_of; simpl; now apply all_tip_names_good).
  rewrite E0, (Permutation_length P), Nat.eqb_refl. simpl negb. cbv iota.
  rewrite (star_ids t0 G0).
  pose proof G0 as (W0 & D0 & ND0). destruct (tables_spec _ W0 D0 ND0) as (P0 & _ & _).
  assert (F : forallb (fun x => existsb (String.eqb x) (sorted_tip_names (prep_input t0))) (leaves (prep_input t)) = true).
  { apply forallb_forall. intros x Hx. apply existsb_exists. exists x. split; [|apply String.eqb_refl].
    apply (Permutation_in _ (Permutation_sym P0)). apply (Permutation_in _ P). exact Hx. }
  rewrite F. rewrite add_all_assoc. reflexivity.
Qed.

(** all the branches of the collection, as the loop numbers them *)
Fixpoint keys_from (i : nat) (ts : list utree) : list ekey :=
  match ts with
  | [] => []
  | t :: r => branch_keys i (prep_input t) ++ keys_from (S i) r
  end.

Lemma cons_loop_next ts : forall i (m : aindex) t0,
    ok_input t0 ->
    Forall (fun t => ok_input t /\ Permutation (leaves (prep_input t)) (leaves (prep_input t0))) ts ->
    cons_loop aindex ai_add i m (Some (star_of t0)) ts =
    Some (Ok (add_list m (keys_from i ts), Some (star_of t0), Z.of_nat (i + length ts))).
Proof.
  induction ts as [|t r IH]; intros i m t0 G0 F.
  - simpl. rewrite Nat.add_0_r. reflexivity.
  - inversion F as [|? ? [G P] F']; subst. simpl cons_loop.
    rewrite (cons_step_next i m t0 t G0 G P). rewrite (IH (S i) _ t0 G0 F').
    simpl keys_from. rewrite add_list_app.
    replace (S i + length r) with (i + length (t :: r)) by (simpl; lia). reflexivity.
Qed.

(** a collection of good trees on the taxa of the first one *)
Definition collection_ok (ts : list utree) : Prop :=
  match ts with
  | [] => False
  | t0 :: r => ok_input t0 /\
               Forall (fun t => ok_input t /\ Permutation (leaves (prep_input t)) (leaves (prep_input t0))) r
  end.

(** the counting phase succeeds and returns the entries described by [add_all_counts] *)
Theorem cons_counts_ok ts :
  collection_ok ts ->
  cons_counts_assoc ts = Some (Ok (add_list [] (keys_from 0 ts), Z.of_nat (length ts))).
Proof.
  destruct ts as [|t0 r]; [intros []|]. intros [G0 F].
  unfold cons_counts_assoc, cons_counts. simpl cons_loop.
  rewrite (cons_step_first 0 (ai_new 128) t0 G0).
  rewrite (cons_loop_next r 1 _ t0 G0 F). simpl keys_from. rewrite add_list_app. reflexivity.
Qed.

Theorem cons_counts_entries ts :
  collection_ok ts ->
  exists a, cons_counts_assoc ts = Some (Ok (a, Z.of_nat (length ts))) /\
            (forall k c l, In (k, (c, l)) a ->
                           c = class_count k (keys_from 0 ts) /\ (l == class_len k (keys_from 0 ts))%Q) /\
            (forall k', In k' (keys_from 0 ts) -> exists kv, In kv a /\ ekey_eqb k' (fst kv) = true) /\
            (forall pre k v post, a = (pre ++ (k, v) :: post)%list ->
                                  forall kv, In kv (pre ++ post)%list -> ekey_eqb k (fst kv) = false).
Proof.
  intros H. exists (add_list [] (keys_from 0 ts)). split; [now apply cons_counts_ok|].
  destruct (add_all_counts (keys_from 0 ts)) as (a & E & P). rewrite add_all_assoc in E. inversion E; subst. exact P.
Qed.

(** * a tree on other taxa is rejected *)
Theorem cons_loop_other_taxa pre t post : forall i (m : aindex) t0,
    ok_input t0 ->
    Forall (fun u => ok_input u /\ Permutation (leaves (prep_input u)) (leaves (prep_input t0))) pre ->
    ok_input t -> ~ (forall x, In x (leaves (prep_input t)) <-> In x (leaves (prep_input t0))) ->
    cons_loop aindex ai_add i m (Some (star_of t0)) (pre ++ t :: post)%list =
    Some (Err "Trees do not have the same set of tips").
Proof.
  induction pre as [|u pre IH]; intros i m t0 G0 F G NS.
  - simpl app. simpl cons_loop. unfold cons_step. rewrite (reinit_good i _ G).
    rewrite (all_tip_names_good _ G).
    assert (E0 : st_alltips (star_of t0) = leaves (prep_input t0)) by (unfold star_of; simpl; now apply all_tip_names_good).
    rewrite E0, (star_ids t0 G0).
    destruct (Nat.eqb (length (leaves (prep_input t))) (length (leaves (prep_input t0)))) eqn:EL; simpl; auto.
    destruct (forallb (fun x => existsb (String.eqb x) (sorted_tip_names (prep_input t0))) (leaves (prep_input t))) eqn:Fb; auto.
    exfalso. apply NS.
    pose proof G0 as (W0 & D0 & ND0). destruct (tables_spec _ W0 D0 ND0) as (P0 & _ & _).
    assert (I : incl (leaves (prep_input t)) (leaves (prep_input t0))).
    { intros x Hx. rewrite forallb_forall in Fb. specialize (Fb x Hx). apply existsb_exists in Fb.
      destruct Fb as (y & Hy & Exy). apply String.eqb_eq in Exy. subst. apply (Permutation_in _ P0 Hy). }
    intros x. split; [apply I|]. apply NoDup_length_incl; auto; [apply G|]. apply Nat.eqb_eq in EL. lia.
  - inversion F as [|? ? [Gu Pu] F']; subst. simpl app. simpl cons_loop.
    rewrite (cons_step_next i m t0 u G0 Gu Pu). apply IH; auto.
Qed.

Theorem consensus_other_taxa t0 pre t post c64 :
  ok_input t0 ->
  Forall (fun u => ok_input u /\ Permutation (leaves (prep_input u)) (leaves (prep_input t0))) pre ->
  ok_input t -> ~ (forall x, In x (leaves (prep_input t)) <-> In x (leaves (prep_input t0))) ->
  cutoff_ok c64 = true ->
  consensus_gen aindex ai_new ai_add (fun a => a) (t0 :: pre ++ t :: post)%list c64 =
  Some (Err "Trees do not have the same set of tips").
Proof.
  intros G0 F G NS C. unfold consensus_gen. unfold cutoff_ok in C. rewrite C.
  simpl cons_loop. rewrite (cons_step_first 0 (ai_new 128) t0 G0).
  rewrite (cons_loop_other_taxa pre t post 1 _ t0 G0 F G NS). reflexivity.
Qed.
