(** C20: Tree.ShuffleTips assigns to the tips (in Tips() order) the tip names permuted by
    rand.Perm: the new list of tip names is [names[perm[0]]; names[perm[1]]; ...].  With
    Proofs/SamplingPerm.v (choice vectors <-> permutations is a bijection) every assignment of
    the names to the tips is produced by exactly one choice vector. *)
From Coq Require Import String Bool Arith Lia List Permutation.
From GT Require Import Base.UTree Model.Reroot Model.Rand Model.Sampling Spec.Counting
     Proofs.SamplingBase Proofs.SamplingPerm.
Import ListNotations.

Lemma map_flat_map' {A B C} (f : B -> C) (g : A -> list B) l :
  map f (flat_map g l) = flat_map (fun x => map f (g x)) l.
Proof. induction l as [|x l IH]; simpl; auto. now rewrite map_app, IH. Qed.

Definition tips_sl (sl : list slot) : list utree :=
  flat_map (fun s => match s with Some (_, c) => tips c | None => [] end) sl.

Lemma tips_unfold n c sl :
  tips (UNode n c sl) = (if Nat.eqb (length sl) 1 then [UNode n c sl] else []) ++ tips_sl sl.
Proof. reflexivity. Qed.

Lemma rename_tips_unfold f n c sl i :
  rename_tips f (UNode n c sl) i =
  let '(n', i1) := if Nat.eqb (length sl) 1 then (f i, S i) else (n, i) in
  let '(sl', i2) :=
      (fix go (l : list slot) (i : nat) : list slot * nat :=
         match l with
         | [] => ([], i)
         | None :: r => let '(r', i') := go r i in (None :: r', i')
         | Some (e, ch) :: r =>
           let '(ch', i') := rename_tips f ch i in
           let '(r', i'') := go r i' in
           (Some (e, ch') :: r', i'')
         end) sl i1 in
  (UNode n' c sl', i2).
Proof. reflexivity. Qed.

(** the renamed tree has the same number of neighbours at every node, its tips are named
    f i, f (i+1), ... in Tips() order *)
Lemma rename_tips_spec f t : forall i,
  degree (fst (rename_tips f t i)) = degree t /\
  tip_names (fst (rename_tips f t i)) = map f (seq i (length (tips t))) /\
  snd (rename_tips f t i) = i + length (tips t).
Proof.
  induction t as [n c sl IH] using utree_ind'. intros i.
  rewrite rename_tips_unfold.
  set (go := fix go (l : list slot) (i : nat) : list slot * nat :=
         match l with
         | [] => ([], i)
         | None :: r => let '(r', i') := go r i in (None :: r', i')
         | Some (e, ch) :: r =>
           let '(ch', i') := rename_tips f ch i in
           let '(r', i'') := go r i' in
           (Some (e, ch') :: r', i'')
         end).
  assert (G : forall j, length (fst (go sl j)) = length sl /\
                        map uname (tips_sl (fst (go sl j))) = map f (seq j (length (tips_sl sl))) /\
                        snd (go sl j) = j + length (tips_sl sl)).
  { induction IH as [|s r Hs Hr IHr]; intros j.
    - simpl. repeat split; lia.
    - destruct s as [[e ch]|].
      + cbn [go]. fold go.
        destruct (Hs j) as [D1 [T1 S1]].
        destruct (rename_tips f ch j) as [ch' j1]. cbn [fst snd] in *.
        destruct (IHr j1) as [L2 [T2 S2]].
        destruct (go r j1) as [r' j2]. cbn [fst snd] in *.
        unfold tips_sl in *. cbn [flat_map length].
        rewrite !map_app, !app_length, seq_app, map_app.
        unfold tip_names in T1. rewrite T1, T2, S1. repeat split; lia.
      + cbn [go]. fold go.
        destruct (IHr j) as [L2 [T2 S2]].
        destruct (go r j) as [r' j2]. cbn [fst snd] in *.
        unfold tips_sl in *. cbn [flat_map length app]. repeat split; auto. }
  destruct (Nat.eqb (length sl) 1) eqn:E.
  - destruct (G (S i)) as [L [T Sn]]. destruct (go sl (S i)) as [sl' i2]. cbn [fst snd] in *.
    unfold degree, tip_names. cbn [uslots]. rewrite !tips_unfold, L, E.
    cbn [app length map uname]. fold (tips_sl sl'). rewrite T.
    cbn [seq map]. repeat split; auto. lia.
  - destruct (G i) as [L [T Sn]]. destruct (go sl i) as [sl' i2]. cbn [fst snd] in *.
    unfold degree, tip_names. cbn [uslots]. rewrite !tips_unfold, L, E.
    cbn [app length]. repeat split; auto.
Qed.

Lemma map_nth_seq (l : list nat) : map (fun i => nth i l 0) (seq 0 (length l)) = l.
Proof.
  induction l as [|x l IH]; [reflexivity|].
  cbn [length seq map nth]. f_equal. rewrite <- seq_shift, map_map. exact IH.
Qed.

Lemma go_perm_length cs : length (go_perm cs) = length cs.
Proof.
  unfold go_perm.
  assert (H : forall cs i m, length (perm_of_choices i cs m) = length m + length cs).
  { induction cs0 as [|j r IH]; intros i m; simpl; [lia|].
    rewrite IH. unfold set_nth_nat. rewrite app_length, firstn_length.
    destruct (skipn j (m ++ [nth j m 0])) eqn:E.
    - assert (L : length (skipn j (m ++ [nth j m 0])) = 0) by now rewrite E.
      rewrite skipn_length, app_length in L. simpl in *. rewrite app_length. simpl. lia.
    - assert (L : length (skipn j (m ++ [nth j m 0])) = S (length l)) by now rewrite E.
      rewrite skipn_length, app_length in L. simpl in *. rewrite app_length. simpl. lia. }
  now rewrite H.
Qed.

(** Tree.ShuffleTips: the new names of the tips, in Tips() order, are the old names (in
    AllTipNames() order) read through the permutation *)
Theorem shuffle_tips_names t cs :
  length (tips t) = length (all_tip_names t) ->
  in_bounds cs (shuffle_bounds t) ->
  tip_names (shuffle_tips t cs) = map (fun p => nth p (all_tip_names t) EmptyString) (go_perm cs) /\
  Permutation (go_perm cs) (seq 0 (length (all_tip_names t))).
Proof.
  intros HL Hb. unfold shuffle_bounds in Hb. split; [|now apply go_perm_is_perm].
  unfold shuffle_tips.
  destruct (rename_tips_spec (fun i => nth (nth i (go_perm cs) 0) (all_tip_names t) EmptyString) t 0) as [_ [T _]].
  rewrite T.
  assert (L : length (tips t) = length (go_perm cs)).
  { rewrite go_perm_length, (in_bounds_length _ _ Hb). unfold perm_bounds. now rewrite map_length, seq_length. }
  rewrite L.
  transitivity (map (fun p => nth p (all_tip_names t) EmptyString)
                    (map (fun i => nth i (go_perm cs) 0) (seq 0 (length (go_perm cs))))).
  - now rewrite map_map.
  - now rewrite map_nth_seq.
Qed.
