(** C05: the hypotheses of the judge-level theorems of Proofs/C05Judge.v are satisfiable on encoded
    observations of the model's output, with and without unreduced numbers. *)
From Coq Require Import String ZArith QArith Bool Arith List.
From GT Require Import Base.Sexp Base.UTree Base.Codec Spec.Obs Model.Reroot Model.Outgroup
     Judge.Common Judge.C05 Proofs.C05Main Proofs.OutgroupWitness Proofs.OracleIndex
     Proofs.C05Judge Proofs.C05Multi Proofs.C05Merge.
Import ListNotations.
Local Close Scope Q_scope.
Local Open Scope string_scope.

Definition case_of (op : string) (t : utree) (extra : list sexp) : sexp :=
  SList ([SList [Atom "op"; Atom op]; SList [Atom "tree"; enc_utree t]] ++ extra).

Ltac check_obs_tree := eapply obs_tree_check; [vm_compute; reflexivity ..].

(** reroot on node 8 of the multifurcating tree; midpoint and strict outgroup on [og_w1] (the two
    new root branches have length 2 * (1 # 2): the decoded tree is not the model's term) *)
Lemma judge_examples :
  (exists t', reroot c05_tree 8 = Ok t' /\ obs_tree true t' (enc_obs_tree t') /\
              judge (case_of "reroot" c05_tree [SList [Atom "i"; Atom "8"]]) (enc_obs_tree t') = VOk true "reroot") /\
  (obs_tree true (unroot c05_rooted_tree) (enc_obs_tree (unroot c05_rooted_tree)) /\
   judge (case_of "unroot" c05_rooted_tree []) (enc_obs_tree (unroot c05_rooted_tree)) = VOk true "unroot") /\
  (obs_tree false (sort_by_tips c05_tree) (enc_obs_tree (sort_by_tips c05_tree)) /\
   judge (case_of "sort" c05_tree []) (enc_obs_tree (sort_by_tips c05_tree)) = VOk true "sort") /\
  (exists t' g, reroot_outgroup false true og_w1 ["a"; "b"] = Ok t' /\
                obs_tree true t' (enc_obs_tree t') /\
                get_tree "tree" (enc_obs_tree t') = Some g /\ utree_eqb t' g = true /\ t' <> g /\
                judge (case_of "outgroup" og_w1 [SList [Atom "names"; enc_strings ["a"; "b"]];
                                                 SList [Atom "remove"; Atom "F"]; SList [Atom "strict"; Atom "T"]])
                      (enc_obs_tree t') = VOk true "outgroup:side-strict") /\
  (exists t', reroot_midpoint og_w1 = Ok t' /\ obs_tree true t' (enc_obs_tree t') /\
              judge (case_of "midpoint" og_w1 []) (enc_obs_tree t') = VOk true "midpoint").
Proof.
  split.
  { eexists. split; [vm_compute; reflexivity|]. split; [check_obs_tree|vm_compute; reflexivity]. }
  split.
  { split; [check_obs_tree|vm_compute; reflexivity]. }
  split.
  { split; [check_obs_tree|vm_compute; reflexivity]. }
  split.
  { do 2 eexists. split; [vm_compute; reflexivity|]. split; [check_obs_tree|].
    split; [vm_compute; reflexivity|]. split; [vm_compute; reflexivity|].
    split; [|vm_compute; reflexivity].
    intros E. apply (f_equal (fun t => map (fun p : einfo * utree => elen (fst p)) (kids t))) in E.
    vm_compute in E. discriminate E. }
  eexists. split; [vm_compute; reflexivity|]. split; [check_obs_tree|vm_compute; reflexivity].
Qed.
