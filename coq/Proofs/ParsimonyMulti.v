(** The sequence variant with random resolution (node-major draws, Model/ParsimonyRand.v
    [parsimony_asr_r]) projects, site by site, onto the one-character run with the list of the
    draws that belonged to that site; hence the per-site theorems of Proofs/ParsimonyRandom.v. *)
From Coq Require Import String Ascii ZArith QArith Bool Arith Lia List.
From GT Require Import Base.UTree Spec.Obs Spec.Parsimony Model.Reroot Model.Parsimony Model.ParsimonyRand
     Proofs.ParsimonyVec Proofs.ParsimonyHartigan Proofs.ParsimonyReroot Proofs.ParsimonyCtx
     Proofs.ParsimonyDown Proofs.ParsimonyFinal Proofs.ParsimonyUnamb Proofs.ParsimonyDeltran
     Proofs.ParsimonyMain Proofs.ParsimonyInst Proofs.ParsimonyRandom.
Import ListNotations.
Local Close Scope Q_scope.

(** * runs on a list of choices that consume a prefix *)
Definition sim {X : Type} (f : list nat -> X * list nat) (x : X) : Prop :=
  exists cs, forall rest, f (cs ++ rest) = (x, rest).

Lemma sim_ret : forall X (x : X), sim (fun s => (x, s)) x.
Proof. intros. exists []. reflexivity. Qed.

Lemma sim_bind : forall X Y (f : list nat -> X * list nat) (g : X -> list nat -> Y * list nat) x y,
  sim f x -> sim (g x) y -> sim (fun s => let '(a, s1) := f s in g a s1) y.
Proof.
  intros X Y f g x y [c1 H1] [c2 H2]. exists (c1 ++ c2). intros rest.
  rewrite <- app_assoc, H1. apply H2.
Qed.

Lemma sim_ext : forall X (f g : list nat -> X * list nat) x, (forall s, f s = g s) -> sim g x -> sim f x.
Proof. intros X f g x H [cs Hc]. exists cs. intros. rewrite H. apply Hc. Qed.

Lemma sim_map : forall X Y (f : list nat -> X * list nat) (h : X -> Y) x,
  sim f x -> sim (fun s => let '(a, s1) := f s in (h a, s1)) (h x).
Proof. intros X Y f h x [cs H]. exists cs. intros. rewrite H. reflexivity. Qed.

(** * projection on a site *)
Fixpoint sproj (j : nat) (t : stree) : vtree :=
  match t with SNode c ks => VNode (cell_nth j c) (map (sproj j) ks) end.

Lemma vroot_sproj : forall j t, vroot (sproj j t) = cell_nth j (sroot t).
Proof. intros j [c ks]. reflexivity. Qed.
Lemma is_vtip_sproj : forall j t, is_vtip (sproj j t) = is_stip t.
Proof. intros j [c [|k0 ks]]; reflexivity. Qed.
Lemma roots_sproj : forall j ks, map vroot (map (sproj j) ks) = col j (map sroot ks).
Proof. intros. unfold col. rewrite !map_map. apply map_ext. intros. apply vroot_sproj. Qed.

Lemma cell_per_site : forall (L : nat) (f : nat -> vec) j, j < L -> cell_nth j (per_site L f) = f j.
Proof.
  intros L f j H. unfold cell_nth, per_site.
  rewrite (nth_indep _ [] (f 0)) by (rewrite map_length, seq_length; exact H).
  rewrite map_nth, seq_nth by exact H. reflexivity.
Qed.

Lemma cell_nth_nil : forall j, cell_nth j [] = [].
Proof. intros [|j]; reflexivity. Qed.

Lemma per_site_length : forall A (L : nat) (f : nat -> A), length (per_site L f) = L.
Proof. intros. unfold per_site. rewrite map_length, seq_length. reflexivity. Qed.

Section SInd.
  Variable P : stree -> Prop.
  Hypothesis H : forall c ks, Forall P ks -> P (SNode c ks).
  Fixpoint stree_ind' (t : stree) : P t :=
    match t with
    | SNode c ks =>
      H c ks ((fix go (l : list stree) : Forall P l :=
                 match l with
                 | [] => Forall_nil _
                 | x :: r => Forall_cons x (stree_ind' x) (go r)
                 end) ks)
    end.
End SInd.

(** every cell has one vector per site *)
Definition scells (L : nat) (t : stree) : Prop := forall c, In c (sflat t) -> length c = L.

Lemma scells_node : forall L c ks, scells L (SNode c ks) <-> length c = L /\ Forall (scells L) ks.
Proof.
  intros. unfold scells. simpl. split.
  - intros H. split; [apply H; left; reflexivity|].
    apply Forall_forall. intros x Hx w Hw. apply H. right. apply in_flat_map. eauto.
  - intros [Hc Hf] w [E|Hin]; [rewrite <- E; exact Hc|].
    apply in_flat_map in Hin. destruct Hin as [x [Hx Hw]].
    rewrite Forall_forall in Hf. apply (Hf x Hx w Hw).
Qed.

Lemma col_sflat : forall j t, col j (sflat t) = vflat (sproj j t).
Proof.
  induction t using stree_ind'. simpl. unfold col in *. simpl. f_equal.
  induction H as [|x l Hx Hl IH]; simpl; [reflexivity|].
  rewrite map_app, Hx, IH. reflexivity.
Qed.

Section Multi.
Variable S : Type.
Variable draw : nat -> S -> nat * S.
Hypothesis draw_lt : forall b s, 0 < b -> fst (draw b s) < b.
Variable L k : nat.

Notation resolveL := (resolve (list nat) draw_list).

(** ** resolving a cell *)
Lemma resolve_sim : forall v s, sim (resolveL v) (fst (resolve S draw v s)).
Proof.
  intros v s. unfold resolve.
  destruct (Nat.ltb 1 (count_pos v)) eqn:E.
  - apply Nat.ltb_lt in E.
    pose proof (draw_lt (count_pos v) s ltac:(lia)) as Hr.
    destruct (draw (count_pos v) s) as [r s']. simpl in *.
    exists [r]. intros rest. simpl. rewrite Nat.mod_small by exact Hr. reflexivity.
  - simpl. exists []. reflexivity.
Qed.

Lemma resolve_len : forall v s, length (fst (resolve S draw v s)) = length v.
Proof.
  intros v s. unfold resolve. destruct (Nat.ltb 1 (count_pos v)); [|reflexivity].
  destruct (draw (count_pos v) s). simpl. apply keep_nth_length.
Qed.

Lemma sresolve_proj : forall c s j,
  length (fst (sresolve S draw c s)) = length c /\
  sim (resolveL (cell_nth j c)) (cell_nth j (fst (sresolve S draw c s))).
Proof.
  unfold sresolve. induction c as [|v c IH]; intros s j; simpl.
  - split; [reflexivity|]. unfold cell_nth. destruct j; simpl; exists []; reflexivity.
  - pose proof (resolve_sim v s) as Hs.
    destruct (resolve S draw v s) as [v' s1] eqn:E. simpl in Hs.
    specialize (IH s1). destruct (mapS (resolve S draw) c s1) as [c' s2]. simpl in *.
    split; [f_equal; apply (IH 0)|].
    destruct j; unfold cell_nth in *; simpl; [exact Hs | apply (IH j)].
Qed.

(** ** the down-pass *)
Definition sdown_kids_r (isroot : bool) (up : list vec) (cells : list (list vec))
  : nat -> list stree -> S -> list stree * S :=
  fix go (i : nat) (l : list stree) (s : S) : list stree * S :=
    match l with
    | [] => ([], s)
    | ch :: r =>
      let upi := per_site L (fun j => compute_parsimony (vsum k ((if isroot then [] else [cell_nth j up]) ++ remove_nth i (col j cells)))) in
      let '(ch', sa) := sdownpass_r S draw false upi L k ch s in
      let '(r', sb) := go (Datatypes.S i) r sa in
      (ch' :: r', sb)
    end.

Lemma sdownpass_r_node : forall isroot up c c0 ks s,
  sdownpass_r S draw isroot up L k (SNode c (c0 :: ks)) s =
  let cells := map sroot (c0 :: ks) in
  let c' := if isroot then c
            else per_site L (fun j => compute_parsimony (vsum k ((if isroot then [] else [cell_nth j up]) ++ col j cells))) in
  let '(c'', s1) := sresolve S draw c' s in
  let '(ks', s2) := sdown_kids_r isroot up cells 0 (c0 :: ks) s1 in
  (SNode c'' ks', s2).
Proof. reflexivity. Qed.

Notation down_kids_rL := (down_kids_r (list nat) draw_list k).

Lemma sdown_kids_proj : forall j (isroot : bool) (up : list vec) cells l i s, j < L ->
  Forall (fun t => forall (isroot : bool) (up : list vec) (s : S), scells L t ->
                   sim (downpass_r (list nat) draw_list isroot (cell_nth j up) k (sproj j t))
                       (sproj j (fst (sdownpass_r S draw isroot up L k t s))) /\
                   scells L (fst (sdownpass_r S draw isroot up L k t s))) l ->
  Forall (scells L) l ->
  sim (down_kids_rL (if isroot then [] else [cell_nth j up]) (col j cells) i (map (sproj j) l))
      (map (sproj j) (fst (sdown_kids_r isroot up cells i l s))) /\
  Forall (scells L) (fst (sdown_kids_r isroot up cells i l s)).
Proof.
  intros j isroot up cells l. induction l as [|ch l IH]; intros i s Hj Hf Hg; simpl.
  - split; [apply sim_ret | constructor].
  - inversion Hf; inversion Hg; subst.
    set (upi := per_site L (fun j0 => compute_parsimony (vsum k ((if isroot then [] else [cell_nth j0 up]) ++ remove_nth i (col j0 cells))))).
    destruct (H1 false upi s H5) as [Sc Cc].
    destruct (sdownpass_r S draw false upi L k ch s) as [ch' sa]. simpl in Sc, Cc.
    destruct (IH (Datatypes.S i) sa Hj H2 H6) as [Sr Cr].
    destruct (sdown_kids_r isroot up cells (Datatypes.S i) l sa) as [r' sb]. simpl in *.
    split; [|constructor; assumption].
    assert (Eup : cell_nth j upi = compute_parsimony (vsum k ((if isroot then [] else [cell_nth j up]) ++ remove_nth i (col j cells)))).
    { unfold upi. apply cell_per_site. exact Hj. }
    rewrite Eup in Sc.
    apply (sim_bind _ _ _ (fun a s1 => let '(r0, sb0) := down_kids_rL _ _ (Datatypes.S i) (map (sproj j) l) s1 in (a :: r0, sb0)) _ _ Sc).
    apply (sim_map _ _ _ (cons (sproj j ch')) _ Sr).
Qed.

Theorem sdownpass_r_proj : forall j t isroot up s, j < L -> scells L t ->
  sim (downpass_r (list nat) draw_list isroot (cell_nth j up) k (sproj j t))
      (sproj j (fst (sdownpass_r S draw isroot up L k t s))) /\
  scells L (fst (sdownpass_r S draw isroot up L k t s)).
Proof.
  intros j t. induction t using stree_ind'. intros isroot up s Hj Hg.
  destruct ks as [|c0 ks].
  { simpl. split; [apply sim_ret | exact Hg]. }
  apply scells_node in Hg. destruct Hg as [Hc Hk].
  rewrite sdownpass_r_node. cbv zeta.
  set (cells := map sroot (c0 :: ks)).
  set (c' := if isroot then c else per_site L (fun j0 => compute_parsimony (vsum k ((if isroot then [] else [cell_nth j0 up]) ++ col j0 cells)))).
  assert (Lc' : length c' = L) by (unfold c'; destruct isroot; [exact Hc | apply per_site_length]).
  destruct (sresolve_proj c' s j) as [Lr Sr].
  destruct (sresolve S draw c' s) as [c'' s1]. simpl in Lr, Sr.
  assert (Hf : Forall (fun t => forall isroot up s, scells L t ->
                   sim (downpass_r (list nat) draw_list isroot (cell_nth j up) k (sproj j t))
                       (sproj j (fst (sdownpass_r S draw isroot up L k t s))) /\
                   scells L (fst (sdownpass_r S draw isroot up L k t s))) (c0 :: ks)).
  { eapply Forall_impl; [|exact H]. intros t Ht ir u0 s0 Hs. apply Ht; assumption. }
  destruct (sdown_kids_proj j isroot up cells (c0 :: ks) 0 s1 Hj Hf Hk) as [Sk Ck].
  destruct (sdown_kids_r isroot up cells 0 (c0 :: ks) s1) as [ks' s2]. simpl fst in *.
  split; [|apply scells_node; split; [lia | exact Ck]].
  change (sproj j (SNode c (c0 :: ks))) with (VNode (cell_nth j c) (sproj j c0 :: map (sproj j) ks)).
  eapply sim_ext; [intros s0; apply downpass_r_node|]. cbv zeta.
  change (sproj j c0 :: map (sproj j) ks) with (map (sproj j) (c0 :: ks)).
  rewrite roots_sproj. fold cells.
  assert (Ec' : (if isroot then cell_nth j c
                 else compute_parsimony (vsum k ((if isroot then [] else [cell_nth j up]) ++ col j cells))) = cell_nth j c').
  { unfold c'. destruct isroot; [reflexivity|]. symmetry. apply cell_per_site. exact Hj. }
  rewrite Ec'.
  apply (sim_bind _ _ _ (fun v'' s1 => let '(ks0, s3) := down_kids_rL _ _ 0 (map (sproj j) (c0 :: ks)) s1 in (VNode v'' ks0, s3)) _ _ Sr).
  simpl sproj. apply (sim_map _ _ _ (VNode (cell_nth j c'')) _ Sk).
Qed.

(** the plain down-pass of every site *)
Definition sdown_kids (isroot : bool) (up : list vec) (cells : list (list vec)) : nat -> list stree -> list stree :=
  fix go (i : nat) (l : list stree) : list stree :=
    match l with
    | [] => []
    | ch :: r =>
      sdownpass false (per_site L (fun j => compute_parsimony (vsum k ((if isroot then [] else [cell_nth j up]) ++ remove_nth i (col j cells))))) L k ch
      :: go (Datatypes.S i) r
    end.

Lemma sdownpass_node : forall isroot up c c0 ks,
  sdownpass isroot up L k (SNode c (c0 :: ks)) =
  let cells := map sroot (c0 :: ks) in
  SNode (if isroot then c
         else per_site L (fun j => compute_parsimony (vsum k ((if isroot then [] else [cell_nth j up]) ++ col j cells))))
        (sdown_kids isroot up cells 0 (c0 :: ks)).
Proof. reflexivity. Qed.

Lemma sdown_kids_cons : forall isroot up cells i ch l,
  sdown_kids isroot up cells i (ch :: l) =
  sdownpass false (per_site L (fun j => compute_parsimony (vsum k ((if isroot then [] else [cell_nth j up]) ++ remove_nth i (col j cells))))) L k ch
  :: sdown_kids isroot up cells (Datatypes.S i) l.
Proof. reflexivity. Qed.

Theorem sdownpass_proj : forall j t (isroot : bool) (up : list vec), j < L ->
  sproj j (sdownpass isroot up L k t) = downpass isroot (cell_nth j up) k (sproj j t) /\
  (scells L t -> scells L (sdownpass isroot up L k t)).
Proof.
  intros j t. induction t using stree_ind'. intros isroot up Hj.
  destruct ks as [|c0 ks]; [simpl; auto|].
  change (sproj j (SNode c (c0 :: ks))) with (VNode (cell_nth j c) (sproj j c0 :: map (sproj j) ks)).
  rewrite downpass_node, sdownpass_node. cbv zeta.
  change (sproj j c0 :: map (sproj j) ks) with (map (sproj j) (c0 :: ks)). rewrite roots_sproj.
  set (cells := map sroot (c0 :: ks)).
  assert (K : forall l i, Forall (fun t => forall (isroot : bool) (up : list vec), j < L ->
                 sproj j (sdownpass isroot up L k t) = downpass isroot (cell_nth j up) k (sproj j t) /\
                 (scells L t -> scells L (sdownpass isroot up L k t))) l ->
              map (sproj j) (sdown_kids isroot up cells i l)
              = down_kids (if isroot then [] else [cell_nth j up]) (col j cells) k i (map (sproj j) l)
              /\ (Forall (scells L) l -> Forall (scells L) (sdown_kids isroot up cells i l))).
  { induction l as [|ch l IHl]; intros i Hf; [split; [reflexivity | constructor]|].
    inversion Hf; subst. destruct (IHl (Datatypes.S i) H3) as [I1 I2].
    rewrite sdown_kids_cons.
    destruct (H2 false (per_site L (fun j0 => compute_parsimony (vsum k ((if isroot then [] else [cell_nth j0 up]) ++ remove_nth i (col j0 cells))))) Hj) as [E1 E2].
    split.
    - change (map (sproj j) (?x :: ?y)) with (sproj j x :: map (sproj j) y).
      rewrite E1, I1, cell_per_site by exact Hj. reflexivity.
    - intros Hg. inversion Hg; subst. constructor; auto. }
  destruct (K (c0 :: ks) 0 H) as [K1 K2].
  split.
  - change (sproj j (SNode ?x ?y)) with (VNode (cell_nth j x) (map (sproj j) y)). rewrite K1. f_equal.
    destruct isroot; [reflexivity|]. apply cell_per_site. exact Hj.
  - intros Hg. apply scells_node in Hg. destruct Hg as [Hc Hk]. apply scells_node. split.
    + destruct isroot; [exact Hc | apply per_site_length].
    + apply K2. exact Hk.
Qed.

(** ** DELTRAN *)
Lemma srefine_proj : forall p c j, j < length p -> j < length c ->
  cell_nth j (srefine p c) = refine (cell_nth j p) (cell_nth j c).
Proof.
  induction p as [|a p IH]; intros [|b c] j Hp Hc; simpl in *; try lia.
  destruct j; unfold cell_nth in *; simpl; [reflexivity | apply IH; lia].
Qed.

Lemma srefine_length : forall p c, length p = length c -> length (srefine p c) = length c.
Proof. intros. unfold srefine. rewrite map_length, combine_length. lia. Qed.

Lemma sdeltran_r_node : forall par c c0 ks s,
  sdeltran_r S draw par (SNode c (c0 :: ks)) s =
  let c' := match par with Some p => srefine p c | None => c end in
  let '(c'', s1) := sresolve S draw c' s in
  let '(ks', s2) := mapS (sdeltran_r S draw (Some c'')) (c0 :: ks) s1 in
  (SNode c'' ks', s2).
Proof. reflexivity. Qed.

Lemma mapS_sim : forall A B X Y (f : A -> S -> B * S) (g : X -> list nat -> Y * list nat)
                        (pa : A -> X) (pb : B -> Y) (Q : B -> Prop) l s,
  Forall (fun a => forall s, sim (g (pa a)) (pb (fst (f a s))) /\ Q (fst (f a s))) l ->
  sim (mapS g (map pa l)) (map pb (fst (mapS f l s))) /\ Forall Q (fst (mapS f l s)).
Proof.
  intros A B X Y f g pa pb Q. induction l as [|a l IH]; intros s Hf; simpl.
  - split; [apply sim_ret | constructor].
  - inversion Hf; subst. destruct (H1 s) as [Sa Qa].
    destruct (f a s) as [b s1]. simpl in Sa, Qa.
    destruct (IH s1 H2) as [Sr Qr]. destruct (mapS f l s1) as [bs s2]. simpl in *.
    split; [|constructor; assumption].
    apply (sim_bind _ _ _ (fun b0 s0 => let '(bs0, s3) := mapS g (map pa l) s0 in (b0 :: bs0, s3)) _ _ Sa).
    apply (sim_map _ _ _ (cons (pb b)) _ Sr).
Qed.

Theorem sdeltran_r_proj : forall j t par s, j < L -> scells L t ->
  (forall p, par = Some p -> length p = L) ->
  sim (deltran_r (list nat) draw_list (option_map (cell_nth j) par) (sproj j t))
      (sproj j (fst (sdeltran_r S draw par t s))) /\
  scells L (fst (sdeltran_r S draw par t s)).
Proof.
  intros j t. induction t using stree_ind'. intros par s Hj Hg Hp.
  destruct ks as [|c0 ks].
  { simpl. split; [apply sim_ret | exact Hg]. }
  apply scells_node in Hg. destruct Hg as [Hc Hk].
  rewrite sdeltran_r_node. cbv zeta.
  set (c' := match par with Some p => srefine p c | None => c end).
  assert (Lc' : length c' = L).
  { unfold c'. destruct par as [p|]; [|exact Hc]. rewrite srefine_length; [exact Hc|]. rewrite (Hp p eq_refl). lia. }
  destruct (sresolve_proj c' s j) as [Lr Sr].
  destruct (sresolve S draw c' s) as [c'' s1]. simpl in Lr, Sr.
  assert (Hf : Forall (fun a => forall s0, sim (deltran_r (list nat) draw_list (Some (cell_nth j c'')) (sproj j a))
                                           (sproj j (fst (sdeltran_r S draw (Some c'') a s0))) /\
                                       scells L (fst (sdeltran_r S draw (Some c'') a s0))) (c0 :: ks)).
  { rewrite Forall_forall in H, Hk. apply Forall_forall. intros a Ha s0.
    apply (H a Ha (Some c'') s0 Hj (Hk a Ha)). intros p Ep. inversion Ep; subst. lia. }
  destruct (mapS_sim _ _ _ _ (sdeltran_r S draw (Some c'')) (deltran_r (list nat) draw_list (Some (cell_nth j c'')))
                     (sproj j) (sproj j) (scells L) (c0 :: ks) s1 Hf) as [Sk Ck].
  destruct (mapS (sdeltran_r S draw (Some c'')) (c0 :: ks) s1) as [ks' s2]. simpl fst in *.
  split; [|apply scells_node; split; [lia | exact Ck]].
  change (sproj j (SNode c (c0 :: ks))) with (VNode (cell_nth j c) (sproj j c0 :: map (sproj j) ks)).
  eapply sim_ext; [intros s0; apply (deltran_r_node (list nat) draw_list)|]. cbv zeta.
  change (sproj j c0 :: map (sproj j) ks) with (map (sproj j) (c0 :: ks)).
  assert (Ec' : match option_map (cell_nth j) par with Some p => refine p (cell_nth j c) | None => cell_nth j c end
                = cell_nth j c').
  { unfold c'. destruct par as [p|]; simpl; [|reflexivity]. symmetry. apply srefine_proj; [rewrite (Hp p eq_refl) | rewrite Hc]; exact Hj. }
  rewrite Ec'.
  apply (sim_bind _ _ _ (fun v'' s1 => let '(ks0, s3) := mapS (deltran_r (list nat) draw_list (Some v'')) (map (sproj j) (c0 :: ks)) s1 in (VNode v'' ks0, s3)) _ _ Sr).
  simpl sproj. apply (sim_map _ _ _ (VNode (cell_nth j c'')) _ Sk).
Qed.

(** ** ACCTRAN (tip children skipped) *)
Lemma sacctran_r_node : forall c' c c0 ks s,
  sacctran_r S draw c' (SNode c (c0 :: ks)) s =
  let '(c'', s1) := sresolve S draw c' s in
  let '(ks', s2) :=
      mapS (fun ch => sacctran_r S draw (if is_stip ch then sroot ch else srefine c'' (sroot ch)) ch) (c0 :: ks) s1 in
  (SNode c'' ks', s2).
Proof. reflexivity. Qed.

Theorem sacctran_r_proj : forall j t c' s, j < L -> scells L t -> length c' = L ->
  sim (acctran_r (list nat) draw_list true (cell_nth j c') (sproj j t))
      (sproj j (fst (sacctran_r S draw c' t s))) /\
  scells L (fst (sacctran_r S draw c' t s)).
Proof.
  intros j t. induction t using stree_ind'. intros c' s Hj Hg Lc'.
  destruct ks as [|c0 ks].
  { simpl. split; [apply sim_ret|]. apply scells_node. split; [exact Lc' | constructor]. }
  apply scells_node in Hg. destruct Hg as [Hc Hk].
  rewrite sacctran_r_node.
  destruct (sresolve_proj c' s j) as [Lr Sr].
  destruct (sresolve S draw c' s) as [c'' s1]. simpl in Lr, Sr.
  set (fS := fun ch => sacctran_r S draw (if is_stip ch then sroot ch else srefine c'' (sroot ch)) ch).
  set (gL := fun c1 => acctran_r (list nat) draw_list true
                                 (if true && is_vtip c1 then vroot c1 else refine (cell_nth j c'') (vroot c1)) c1).
  assert (Hf : Forall (fun a => forall s0, sim (gL (sproj j a)) (sproj j (fst (fS a s0))) /\ scells L (fst (fS a s0))) (c0 :: ks)).
  { rewrite Forall_forall in H, Hk. apply Forall_forall. intros a Ha s0.
    assert (La : length (sroot a) = L).
    { specialize (Hk a Ha). apply Hk. destruct a; simpl; auto. }
    unfold gL, fS. rewrite is_vtip_sproj, vroot_sproj. simpl andb.
    assert (Earg : (if is_stip a then cell_nth j (sroot a) else refine (cell_nth j c'') (cell_nth j (sroot a)))
                   = cell_nth j (if is_stip a then sroot a else srefine c'' (sroot a))).
    { destruct (is_stip a); [reflexivity|]. symmetry. apply srefine_proj; lia. }
    rewrite Earg. apply (H a Ha); [exact Hj | apply Hk; exact Ha|].
    destruct (is_stip a); [exact La | rewrite srefine_length; lia]. }
  destruct (mapS_sim _ _ _ _ fS gL (sproj j) (sproj j) (scells L) (c0 :: ks) s1 Hf) as [Sk Ck].
  destruct (mapS fS (c0 :: ks) s1) as [ks' s2]. simpl fst in *.
  split; [|apply scells_node; split; [lia | exact Ck]].
  change (sproj j (SNode c (c0 :: ks))) with (VNode (cell_nth j c) (sproj j c0 :: map (sproj j) ks)).
  eapply sim_ext; [intros s0; apply (acctran_r_node (list nat) draw_list)|].
  change (sproj j c0 :: map (sproj j) ks) with (map (sproj j) (c0 :: ks)).
  apply (sim_bind _ _ _ (fun v'' s1 => let '(ks0, s3) := mapS (fun c1 => acctran_r (list nat) draw_list true
                                 (if true && is_vtip c1 then vroot c1 else refine v'' (vroot c1)) c1) (map (sproj j) (c0 :: ks)) s1 in (VNode v'' ks0, s3)) _ _ Sr).
  simpl sproj. apply (sim_map _ _ _ (VNode (cell_nth j c'')) _ Sk).
Qed.

End Multi.

(** * the up-pass of every site *)
Lemma nth_per_site : forall A (L : nat) (f : nat -> A) j d, j < L -> nth j (per_site L f) d = f j.
Proof.
  intros A L f j d H. unfold per_site.
  rewrite (nth_indep _ d (f 0)) by (rewrite map_length, seq_length; exact H).
  rewrite map_nth, seq_nth by exact H. reflexivity.
Qed.

Section Up.
Variable tvs : nat -> string -> vec.
Variable L k : nat.

Definition skid_results (sl : list slot) : list (stree * list nat) :=
  flat_map (fun s => match s with Some (_, c) => [suppass tvs L k c] | None => [] end) sl.

Lemma suppass_unfold : forall n cm sl,
  suppass tvs L k (UNode n cm sl) =
  if Nat.eqb (length sl) 1 then (SNode (per_site L (fun j => tvs j n)) [], repeat 0 L)
  else
    let rs := skid_results sl in
    let cells := map (fun r => sroot (fst r)) rs in
    (SNode (per_site L (fun j => compute_parsimony (vsum k (col j cells)))) (map fst rs),
     per_site L (fun j =>
       let vs := col j cells in
       fold_right (fun r acc => nth j (snd r) 0 + acc) 0 rs
       + length (filter (fun v => Nat.eqb (nth (first_max (vsum k vs)) v 0) 0) vs))).
Proof. reflexivity. Qed.

Theorem suppass_proj : forall t j, j < L ->
  sproj j (fst (suppass tvs L k t)) = fst (uppass (tvs j) k t) /\
  nth j (snd (suppass tvs L k t)) 0 = snd (uppass (tvs j) k t) /\
  scells L (fst (suppass tvs L k t)) /\ length (snd (suppass tvs L k t)) = L.
Proof.
  induction t using utree_ind'. intros j Hj.
  rewrite suppass_unfold, uppass_unfold.
  destruct (Nat.eqb (length sl) 1).
  - simpl. rewrite cell_per_site by exact Hj. split; [reflexivity|]. split.
    + clear. revert j. induction L; intros [|j]; simpl; auto.
    + split; [|apply repeat_length]. apply scells_node. split; [apply per_site_length | constructor].
  - cbv zeta. cbn [fst snd].
    assert (K : map (fun r => sproj j (fst r)) (skid_results sl) = map fst (kid_results (tvs j) k sl) /\
                col j (map (fun r => sroot (fst r)) (skid_results sl)) = kvecs (kid_results (tvs j) k sl) /\
                fold_right (fun r acc => nth j (snd r) 0 + acc) 0 (skid_results sl) = sumc (kid_results (tvs j) k sl) /\
                Forall (scells L) (map fst (skid_results sl))).
    { clear -H Hj. induction H as [|[[e d]|] sl Hs Hf IH]; simpl.
      - repeat split; constructor.
      - destruct (Hs j Hj) as [E1 [E2 [E3 _]]]. destruct IH as [I1 [I2 [I3 I4]]].
        repeat split.
        + rewrite E1, I1. reflexivity.
        + unfold col in *. simpl. rewrite I2. f_equal. rewrite <- vroot_sproj, E1. reflexivity.
        + rewrite E2, I3. reflexivity.
        + constructor; assumption.
      - exact IH. }
    destruct K as [K1 [K2 [K3 K4]]].
    split; [|split; [|split]].
    + simpl sproj. rewrite cell_per_site by exact Hj. rewrite K2. f_equal. rewrite map_map. exact K1.
    + rewrite nth_per_site by exact Hj. cbv zeta. rewrite K2, K3. reflexivity.
    + apply scells_node. split; [apply per_site_length | exact K4].
    + apply per_site_length.
Qed.

End Up.

(** * ParsimonyAsr with random resolution, site by site *)
Section AsrRand.
Variable S : Type.
Variable draw : nat -> S -> nat * S.
Hypothesis draw_lt : forall b s, 0 < b -> fst (draw b s) < b.

(** the vectors and the step count of site j are those of the one-character reconstruction
    with random resolution, run on the list of the draws made for that site *)
Theorem parsimony_asr_r_site : forall t aln a s r s' j,
  2 <= degree t ->
  parsimony_asr_r S draw t aln a s = Ok (r, s') -> j < aln_length aln ->
  exists cs,
    nth j (asr_vecs r) [] = vflat (rr_vt (list nat) draw_list (asr_tipvec aln j) 6 t true a cs) /\
    nth j (asr_steps r) 0 = snd (parsimony true (asr_tipvec aln j) 6 a t).
Proof.
  intros t aln a s r s' j Hd H Hj. unfold parsimony_asr_r in H.
  destruct (find _ (all_tip_names t)); [discriminate|].
  assert (Ht : is_tip t = false) by (unfold is_tip; apply Nat.eqb_neq; lia).
  rewrite Ht in H.
  set (L := aln_length aln) in *.
  destruct (suppass_proj (asr_tipvec aln) L 6 t j Hj) as [Pu [Ps [Cu Ls]]].
  destruct (suppass (asr_tipvec aln) L 6 t) as [u steps] eqn:Eu. simpl fst in *. simpl snd in *.
  assert (Hsteps : forall (R : stree), nth j (steps ++ [0]) 0 = snd (parsimony true (asr_tipvec aln j) 6 a t)).
  { intros _. rewrite app_nth1 by lia. rewrite Ps. unfold parsimony. rewrite Ht.
    destruct (uppass (asr_tipvec aln j) 6 t). destruct a; reflexivity. }
  assert (Hvec : forall R : stree, nth j (per_site L (fun j0 => col j0 (sflat R))) [] = vflat (sproj j R)).
  { intros R. rewrite nth_per_site by exact Hj. apply col_sflat. }
  unfold rr_vt, parsimony_r. rewrite Ht.
  destruct (uppass (asr_tipvec aln j) 6 t) as [u1 st1] eqn:Eu1. simpl in Pu. subst u1.
  destruct a.
  - (* deltran *)
    destruct (sdownpass_proj L 6 j u true [] Hj) as [Pd Cd].
    destruct (sdeltran_r_proj S draw draw_lt L j (sdownpass true [] L 6 u) None s Hj (Cd Cu) ltac:(discriminate)) as [[cs Hcs] _].
    destruct (sdeltran_r S draw None (sdownpass true [] L 6 u) s) as [R s2] eqn:ER.
    inversion H; subst r s'. simpl. exists cs. split; [|apply Hsteps; exact R].
    rewrite Hvec. simpl passes_r. simpl option_map in Hcs. rewrite Pd in Hcs.
    specialize (Hcs []). rewrite app_nil_r in Hcs.
    rewrite cell_nth_nil in Hcs. rewrite Hcs. reflexivity.
  - (* acctran *)
    assert (Lr : length (sroot u) = L) by (apply Cu; destruct u; simpl; auto).
    destruct (sacctran_r_proj S draw draw_lt L j u (sroot u) s Hj Cu Lr) as [[cs Hcs] _].
    destruct (sacctran_r S draw (sroot u) u s) as [R s2] eqn:ER.
    inversion H; subst r s'. simpl. exists cs. split; [|apply Hsteps; exact R].
    rewrite Hvec. simpl passes_r. rewrite vroot_sproj.
    specialize (Hcs []). rewrite app_nil_r in Hcs. rewrite Hcs. reflexivity.
  - (* downpass *)
    destruct (sdownpass_r_proj S draw draw_lt L 6 j u true [] s Hj Cu) as [[cs Hcs] _].
    destruct (sdownpass_r S draw true [] L 6 u s) as [R s2] eqn:ER.
    inversion H; subst r s'. simpl. exists cs. split; [|apply Hsteps; exact R].
    rewrite Hvec. simpl passes_r.
    specialize (Hcs []). rewrite app_nil_r in Hcs.
    rewrite cell_nth_nil in Hcs. rewrite Hcs. reflexivity.
  - discriminate.
Qed.

(** hence, per site: the step count is the minimum; exactly one state at every inner node;
    DOWNPASS / DELTRAN states occur in most-parsimonious labellings; ACCTRAN's labelling is
    most parsimonious *)
Theorem parsimony_asr_r_site_props : forall t aln a s r s' j,
  wf t = true -> 2 <= degree t ->
  parsimony_asr_r S draw t aln a s = Ok (r, s') -> j < aln_length aln ->
  (forall n, In n (leaves t) -> exists x, nth x (asr_tipvec aln j n) 0 = 1) ->
  exists vt,
    nth j (asr_vecs r) [] = vflat vt /\
    is_mincost (asr_ts aln j) t (nth j (asr_steps r) 0) /\
    (forall w, In w (vinners vt) -> single w) /\
    (a = Downpass \/ a = Deltran ->
     forall q x v, node_at t q = Some x -> is_leaf x = false -> vec_at t vt q = Some v ->
                   forall y, nth y v 0 = 1 -> opt_state_at (asr_ts aln j) t q y) /\
    (a = Acctran -> optimal (asr_ts aln j) t (lab_of t vt)).
Proof.
  intros t aln a s r s' j Hwf Hd H Hj Hvalid.
  destruct (parsimony_asr_r_site t aln a s r s' j Hd H Hj) as [cs [Hv Hs]].
  pose proof (asr_tips aln t j Hvalid) as Htips. unfold asr_tv in Htips.
  assert (Ha : a <> NoPass).
  { intro Q. subst a. unfold parsimony_asr_r in H.
    destruct (find _ (all_tip_names t)); [discriminate|].
    assert (Ht : is_tip t = false) by (unfold is_tip; apply Nat.eqb_neq; lia).
    rewrite Ht in H. destruct (suppass _ _ _ t). discriminate. }
  exists (rr_vt (list nat) draw_list (asr_tipvec aln j) 6 t true a cs).
  split; [exact Hv|]. split; [|split; [|split]].
  - rewrite Hs. apply (asr_site_steps_optimal aln t j Hwf Hd Hvalid a).
  - apply (rr_inner_single (list nat) draw_list draw_list_lt _ (asr_ts aln j) 6 t Hwf Hd Htips true a cs Ha).
  - intros Hda q x v Hq Hx Hvq y Hy.
    apply (rr_down_sound (list nat) draw_list draw_list_lt _ (asr_ts aln j) 6 t Hwf Hd Htips true a cs q x v Hda Hq Hx Hvq y Hy).
  - intros Ea. subst a.
    apply (rr_acctran_optimal (list nat) draw_list draw_list_lt _ (asr_ts aln j) 6 t Hwf Hd Htips true cs).
Qed.

End AsrRand.
