(** C05, one outgroup list applied in a loop to several trees (judge_multi of Judge/C05.v).
    In Go the list is a slice: a callee that filtered or sorted it in place would make the next
    call of the loop root on other tips.  The model of a call as the caller sees it is the pair
    (result, list afterwards); the loop threads the list from one call to the next.  Statements:
    the list comes back unchanged and the i-th result is what a single call on the i-th tree
    with the ORIGINAL list gives, whatever the other trees are; and the whole judge_multi --
    every per-tree oracle, the index clause, the correspondence test and the clause
    [names_after = names] -- answers VOk on any observation that decodes to the output of the
    model. *)
From Coq Require Import String ZArith QArith Bool Arith Lia List Permutation.
From GT Require Import Base.Sexp Base.UTree Base.Codec Spec.Obs Model.Reroot Model.Index Model.Outgroup
     Spec.Unrooted Judge.Common Judge.C05
     Proofs.Reroot Proofs.Unroot Proofs.Splits Proofs.C05Main Proofs.OracleDist Proofs.OracleSup
     Proofs.OracleIndex Proofs.OracleOut Proofs.OracleRm Proofs.OutgroupMidpoint Proofs.USplits
     Proofs.TreeEq Proofs.OracleEq Proofs.C05Judge.
Import ListNotations.
Local Close Scope Q_scope.
Local Open Scope string_scope.

(** * the loop *)
Definition outgroup_call (remove strict : bool) (t : utree) (names : list string)
  : res utree * list string :=
  (reroot_outgroup remove strict t names, names).

Fixpoint multi_loop (remove strict : bool) (ts : list utree) (names : list string)
  : list (res utree) * list string :=
  match ts with
  | [] => ([], names)
  | t :: r =>
    let '(x, names1) := outgroup_call remove strict t names in
    let '(xs, names2) := multi_loop remove strict r names1 in
    (x :: xs, names2)
  end.

Theorem multi_loop_independent remove strict ts names :
  multi_loop remove strict ts names =
  (map (fun t => reroot_outgroup remove strict t names) ts, names).
Proof.
  induction ts as [|t r IH]; simpl; [reflexivity|]. now rewrite IH.
Qed.

(** the i-th result does not depend on the other trees of the stream *)
Corollary multi_loop_nth remove strict ts names i t :
  nth_error ts i = Some t ->
  nth_error (fst (multi_loop remove strict ts names)) i = Some (reroot_outgroup remove strict t names) /\
  snd (multi_loop remove strict ts names) = names.
Proof.
  intros H. rewrite multi_loop_independent. simpl. split; auto.
  now rewrite nth_error_map, H.
Qed.

(** * the trees on which the oracle of one call is proved to accept the model *)
Lemma outgroup_oracles_data remove strict t names t' :
  multi_tree_ok remove t -> reroot_outgroup remove strict t names = Ok t' ->
  oracle_outgroup_ok remove strict t t' names = None /\
  (let '(idx, st, bs) := tables_obs t' in index_ok_data t' idx st bs = None).
Proof.
  intros (W & D & Hi & ND & Hne & Hl) H. destruct remove.
  - eapply oracle_outgroup_remove_accepts; eauto.
  - destruct (Hl eq_refl) as [Hn Hs]. eapply oracle_outgroup_accepts; eauto.
Qed.

(** * the data-level oracle of the multi-tree case, and the model *)
Definition oracle_one (remove strict : bool) (names : list string) (t : utree) (r : res utree)
  : option string :=
  match r with
  | Err _ => oracle_outgroup_refused remove strict t names
  | Ok g => first_some [oracle_outgroup_ok remove strict t g names;
                        let '(idx, st, bs) := tables_obs g in index_ok_data g idx st bs]
  end.

Fixpoint oracle_each (remove strict : bool) (names : list string) (ts : list utree) (rs : list (res utree))
  : option string :=
  match ts, rs with
  | [], [] => None
  | t :: ts', r :: rs' =>
    match oracle_one remove strict names t r with
    | Some m => Some m
    | None => oracle_each remove strict names ts' rs'
    end
  | _, _ => Some "results and trees do not match"
  end.

Definition oracle_multi (remove strict : bool) (names : list string) (ts : list utree)
           (out : list (res utree) * list string) : option string :=
  match oracle_each remove strict names ts (fst out) with
  | Some m => Some m
  | None => if list_eqb String.eqb names (snd out) then None
            else Some "the outgroup list of the caller was modified by the call"
  end.

Theorem oracle_multi_accepts_model remove strict names ts :
  Forall (multi_tree_ok remove) ts ->
  oracle_multi remove strict names ts (multi_loop remove strict ts names) = None.
Proof.
  intros F. rewrite multi_loop_independent. unfold oracle_multi. cbn [fst snd].
  rewrite list_eqb_refl_string.
  assert (E : oracle_each remove strict names ts
                (map (fun t => reroot_outgroup remove strict t names) ts) = None).
  { induction F as [|t r Ht F IH]; simpl; auto.
    destruct (reroot_outgroup remove strict t names) as [t'|m] eqn:H; simpl.
    - destruct (outgroup_oracles_data remove strict t names t' Ht H) as [O1 O2].
      unfold tables_obs in O2. cbn beta iota zeta in O2. rewrite O1, O2. exact IH.
    - exact IH. }
  now rewrite E.
Qed.

(** * the judge itself, on observations of the model's output (tree equal up to Qeq) *)
Definition obs_is_model (remove strict : bool) (names : list string) (t : utree) (r : sexp) : Prop :=
  get_string "panic" r = None /\ obs_result true (reroot_outgroup remove strict t names) r.

Lemma judge_root_on_model remove strict names t c r :
  get_strings "names" c = Some names ->
  get_bool "remove" c = Some remove -> get_bool "strict" c = Some strict ->
  multi_tree_ok remove t -> obs_is_model remove strict names t r ->
  exists b tag, judge_root_on "outgroup" t true c r = VOk b tag.
Proof.
  intros Hn Hr Hs Ht [Hp Ho]. eapply judge_root_on_outgroup; eauto.
Qed.

Lemma judge_each_model remove strict names c ts rs :
  get_strings "names" c = Some names ->
  get_bool "remove" c = Some remove -> get_bool "strict" c = Some strict ->
  Forall (multi_tree_ok remove) ts ->
  Forall2 (obs_is_model remove strict names) ts rs ->
  judge_each c ts rs = VOk true "outgroup_multi".
Proof.
  intros Hn Hr Hs F F2. induction F2 as [|t r ts' rs' Ho F2 IH]; simpl; [reflexivity|].
  inversion F as [|? ? Ht F']; subst.
  destruct (judge_root_on_model remove strict names t c r Hn Hr Hs Ht Ho) as (b & tag & E).
  rewrite E. now apply IH.
Qed.

(** judge_multi answers VOk on an observation that decodes to the output of the model: results
    of [multi_loop], one observation per tree, and the list as the loop left it *)
Theorem judge_multi_accepts_model remove strict names c o ts rs :
  get_string "panic" o = None ->
  (x <- get "trees" c ;; dec_list dec_utree x) = Some ts ->
  (x <- get "results" o ;; list_of x) = Some rs ->
  get_strings "names" c = Some names ->
  get_bool "remove" c = Some remove -> get_bool "strict" c = Some strict ->
  get_strings "names_after" o = Some (snd (multi_loop remove strict ts names)) ->
  Forall (multi_tree_ok remove) ts ->
  Forall2 (obs_is_model remove strict names) ts rs ->
  judge_multi c o = VOk true "outgroup_multi".
Proof.
  intros Hp Hts Hrs Hn Hr Hs Ha F F2. unfold judge_multi.
  rewrite Hp, Hts, Hrs, Hn, Ha, multi_loop_independent. cbn [snd].
  rewrite (judge_each_model remove strict names c ts rs Hn Hr Hs F F2).
  now rewrite list_eqb_refl_string.
Qed.

(** a list that did not come back unchanged is reported, whatever the trees *)
Theorem judge_multi_rejects_modified c o ts rs names after :
  get_string "panic" o = None ->
  (x <- get "trees" c ;; dec_list dec_utree x) = Some ts ->
  (x <- get "results" o ;; list_of x) = Some rs ->
  get_strings "names" c = Some names ->
  get_strings "names_after" o = Some after -> after <> names ->
  forall b tag, judge_multi c o <> VOk b tag.
Proof.
  intros Hp Hts Hrs Hn Ha Hne b tag. unfold judge_multi. rewrite Hp, Hts, Hrs, Hn, Ha.
  destruct (judge_each c ts rs); try discriminate.
  destruct (list_eqb String.eqb names after) eqn:E; [|discriminate].
  apply GT.Proofs.USplits.list_eqb_eq in E. congruence.
Qed.

(** * midpoint rooting of a tree with negative lengths (outside the quantifier): the reduced
    oracle of the judge -- well-formed result, same tips -- accepts the model *)
Theorem oracle_reduced_accepts_midpoint t t' :
  wf t = true -> 2 <= degree t -> (rooted t = true -> root_has_inner_child t = true) ->
  reroot_midpoint t = Ok t' -> oracle_reduced t t' = None.
Proof.
  intros W D Hi H. destruct (reroot_midpoint_wf_leaves t t' W D Hi H) as (W' & _ & L).
  unfold oracle_reduced. rewrite W'. simpl.
  rewrite (ssort_eq_perm _ _ L). unfold sset_eqb. now rewrite list_eqb_refl_string.
Qed.

Lemma obs_tree_check wi t' r g idx st bs :
  get_string "err" r = Some "" -> get_tree "tree" r = Some g -> utree_eqb t' g = true ->
  get_strings "audit" r = Some [] -> tables_obs g = (idx, st, bs) ->
  get_strings "tipidx" r = Some idx ->
  (x <- get "tipstate" r ;; dec_list dec_tipstate x) = Some st ->
  (x <- get "bitsets" r ;; dec_list dec_Z x) = Some bs ->
  obs_tree wi t' r.
Proof.
  intros H1 H2 H3 H4 H5 H6 H7 H8. split; [exact H1|]. exists g.
  split; [exact H2|]. split; [exact H3|]. split; [exact H4|].
  intros _. rewrite H5. repeat split; assumption.
Qed.

Ltac check_obs_is_model :=
  split; [vm_compute; reflexivity|];
  match goal with |- obs_result _ ?m _ => let v := eval vm_compute in m in change m with v end;
  cbn [obs_result];
  first [ eapply obs_tree_check; [vm_compute; reflexivity ..]
        | eexists; split; vm_compute; reflexivity ].

(** * a concrete stream: the hypotheses are satisfiable and the judge is run on it *)
Definition enc_obs (r : res utree) : sexp :=
  match r with
  | Err m => SList [SList [Atom "err"; Atom m]]
  | Ok t' =>
    let '(idx, st, bs) := tables_obs t' in
    SList [SList [Atom "err"; Atom ""]; SList [Atom "tree"; enc_utree t'];
           SList [Atom "audit"; SList []];
           SList [Atom "tipidx"; enc_strings idx];
           SList [Atom "tipstate";
                  SList (map (fun x : string * bool * Z =>
                                SList [Atom (fst (fst x)); Atom (if snd (fst x) then "T" else "F");
                                       Atom (string_of_Z (snd x))]) st)];
           SList [Atom "bitsets"; SList (map (fun z => Atom (string_of_Z z)) bs)]]
  end.

Definition multi_trees : list utree :=
  [Proofs.OutgroupWitness.og_w1; c05_tree; Proofs.OutgroupWitness.og_w0].
Definition multi_names : list string := ["zz"; "b"; "a"; "b"].
Definition multi_case : sexp :=
  SList [SList [Atom "op"; Atom "outgroup_multi"];
         SList [Atom "trees"; SList (map enc_utree multi_trees)];
         SList [Atom "names"; enc_strings multi_names];
         SList [Atom "remove"; Atom "T"]; SList [Atom "strict"; Atom "T"]].
Definition multi_obs : sexp :=
  let out := multi_loop true true multi_trees multi_names in
  SList [SList [Atom "results"; SList (map enc_obs (fst out))];
         SList [Atom "names_after"; enc_strings (snd out)]].

Lemma nodup_b (l : list string) : has_dup l = false -> NoDup l.
Proof.
  induction l as [|x l IH]; simpl; intros H; [constructor|].
  apply orb_false_iff in H as [H1 H2]. constructor; auto.
  intros Hin. clear - H1 Hin. induction l as [|y l IHl]; simpl in *; [tauto|].
  apply orb_false_iff in H1 as [A B]. destruct Hin as [->|Hin]; auto.
  rewrite String.eqb_refl in A. discriminate.
Qed.

Lemma multi_tree_ok_b t :
  wf t = true -> Nat.leb 2 (degree t) = true -> rooted t = false ->
  has_dup (leaves t) = false -> smem "" (leaves t) = false ->
  multi_tree_ok true t.
Proof.
  intros W D R ND E. repeat split; auto.
  - now apply Nat.leb_le.
  - congruence.
  - now apply nodup_b.
  - intros H. apply GT.Proofs.Splits.smem_In in H. congruence.
  - discriminate.
  - discriminate.
Qed.

Lemma multi_example :
  Forall (multi_tree_ok true) multi_trees /\
  (exists t1 m2 t3, fst (multi_loop true true multi_trees multi_names) = [Ok t1; Err m2; Ok t3] /\
                    leaves t1 = ["c"; "d"] /\ leaves t3 = ["c"; "d"]) /\
  Forall2 (obs_is_model true true multi_names) multi_trees
          (map enc_obs (fst (multi_loop true true multi_trees multi_names))) /\
  judge multi_case multi_obs = VOk true "outgroup_multi".
Proof.
  split.
  { unfold multi_trees. constructor; [|constructor; [|constructor; [|constructor]]];
      apply multi_tree_ok_b; vm_compute; reflexivity. }
  split.
  { do 3 eexists. split; [vm_compute; reflexivity|]. split; vm_compute; reflexivity. }
  split.
  { rewrite multi_loop_independent. unfold multi_trees. cbn [fst map].
    constructor; [|constructor; [|constructor; [|constructor]]];
      check_obs_is_model. }
  vm_compute. reflexivity.
Qed.

(** * the same stream without removal: the model's trees carry unreduced numbers (2 * (1 # 2)),
    the encoded observation carries the reduced ones, the decoded tree is a different term that is
    [utree_eqb]-equal -- the situation of every real keep-mode observation *)
Lemma multi_tree_ok_keep_b t :
  wf t = true -> Nat.leb 2 (degree t) = true -> rooted t = false ->
  has_dup (leaves t) = false -> smem "" (leaves t) = false ->
  forallb (fun x => Qle_bool 0 (elen (fst (fst x)))) (bsplits t) = true ->
  forallb (fun p : einfo * utree => qeqb (esup (fst p)) nilv || Qle_bool 0 (esup (fst p))) (kids t) = true ->
  multi_tree_ok false t.
Proof.
  intros W D R ND E L S. destruct (multi_tree_ok_b t W D R ND E) as (A1 & A2 & A3 & A4 & A5 & _).
  repeat split; auto.
  - intros x Hx. rewrite forallb_forall in L. apply Qle_bool_iff. now apply L.
  - intros p Hp. rewrite forallb_forall in S. specialize (S p Hp).
    apply orb_true_iff in S as [S|S]; [left; exact S|right; now apply Qle_bool_iff].
Qed.

Definition multi_names_keep : list string := ["b"; "zz"; "a"].
Definition multi_case_keep : sexp :=
  SList [SList [Atom "op"; Atom "outgroup_multi"];
         SList [Atom "trees"; SList (map enc_utree multi_trees)];
         SList [Atom "names"; enc_strings multi_names_keep];
         SList [Atom "remove"; Atom "F"]; SList [Atom "strict"; Atom "T"]].
Definition multi_obs_keep : sexp :=
  let out := multi_loop false true multi_trees multi_names_keep in
  SList [SList [Atom "results"; SList (map enc_obs (fst out))];
         SList [Atom "names_after"; enc_strings (snd out)]].

Lemma multi_example_keep :
  Forall (multi_tree_ok false) multi_trees /\
  Forall2 (obs_is_model false true multi_names_keep) multi_trees
          (map enc_obs (fst (multi_loop false true multi_trees multi_names_keep))) /\
  (exists t1 g, nth_error (fst (multi_loop false true multi_trees multi_names_keep)) 0 = Some (Ok t1) /\
                get_tree "tree" (enc_obs (Ok t1)) = Some g /\ utree_eqb t1 g = true /\ t1 <> g) /\
  judge multi_case_keep multi_obs_keep = VOk true "outgroup_multi".
Proof.
  split.
  { unfold multi_trees. constructor; [|constructor; [|constructor; [|constructor]]];
      apply multi_tree_ok_keep_b; vm_compute; reflexivity. }
  split.
  { rewrite multi_loop_independent. unfold multi_trees. cbn [fst map].
    constructor; [|constructor; [|constructor; [|constructor]]];
      check_obs_is_model. }
  split.
  { do 2 eexists. split; [vm_compute; reflexivity|]. split; [vm_compute; reflexivity|].
    split; [vm_compute; reflexivity|]. intros E.
    apply (f_equal (fun t => map (fun p : einfo * utree => elen (fst p)) (kids t))) in E.
    vm_compute in E. discriminate E. }
  vm_compute. reflexivity.
Qed.
