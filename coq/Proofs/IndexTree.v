(** The tables computed by Model/Index.v describe the actual tree: for every branch, the bitset is
    the characteristic vector of the tips below it, the counts are the sizes of both sides, the
    partial hashes are the additive name hashes of both sides. *)
From Coq Require Import String Ascii NArith ZArith Bool Arith Lia List Permutation Sorted.
From GT Require Import Base.UTree Spec.Obs Model.Reroot Model.Index Proofs.IndexBase.
Import ListNotations.

(** * slots *)
Definition slot_leaves (s : slot) : list string := match s with Some (_, c) => leaves c | None => [] end.
Definition sub_leaves (sl : list slot) : list string := flat_map slot_leaves sl.
Definition slot_side0 (s : slot) : N * nat := match s with Some (_, c) => right_of c | None => (0%N, 0) end.
Definition children_wf (sl : list slot) : bool :=
  forallb (fun s => match s with Some (_, c) => wf_sub c | None => true end) sl.

Lemma flat_map_ext_in : forall A B (f g : A -> list B) l,
    (forall a, In a l -> f a = g a) -> flat_map f l = flat_map g l.
Proof.
  induction l; simpl; intros; auto. rewrite H by now left. f_equal. apply IHl. intros. apply H. now right.
Qed.

Lemma map_flat_map : forall A B C (f : A -> list B) (g : B -> C) l,
    map g (flat_map f l) = flat_map (fun a => map g (f a)) l.
Proof. induction l; simpl; auto. now rewrite map_app, IHl. Qed.

Lemma length_slots : forall sl : list slot, length sl = n_up sl + length (kids_of sl).
Proof.
  unfold n_up, kids_of. induction sl as [|[[e c]|] r IH]; simpl; auto. lia.
Qed.

Lemma kids_nil_flat : forall A (f : utree -> list A) (sl : list slot),
    kids_of sl = [] -> flat_map (fun s => match s with Some (_, c) => f c | None => [] end) sl = [].
Proof.
  unfold kids_of. induction sl as [|[[e c]|] r IH]; simpl; intros; auto. discriminate.
Qed.

Lemma leaves_node : forall n cm sl, kids_of sl <> [] -> leaves (UNode n cm sl) = sub_leaves sl.
Proof. intros. simpl. destruct (kids_of sl); [congruence | reflexivity]. Qed.

Lemma kids_of_in : forall (sl : list slot) e c, In (Some (e, c)) sl -> kids_of sl <> [].
Proof.
  unfold kids_of. intros sl e c H E.
  assert (In (e, c) (flat_map (fun s : slot => match s with Some p => [p] | None => [] end) sl)).
  { apply in_flat_map. exists (Some (e, c)). split; auto. now left. }
  rewrite E in H0. contradiction.
Qed.

Lemma children_wf_in : forall sl e c, children_wf sl = true -> In (Some (e, c)) sl -> wf_sub c = true.
Proof. unfold children_wf. intros. rewrite forallb_forall in H. apply (H _ H0). Qed.

Lemma wf_sub_inv : forall n cm sl, wf_sub (UNode n cm sl) = true -> n_up sl = 1 /\ children_wf sl = true.
Proof. simpl. intros. apply andb_prop in H. destruct H. apply Nat.eqb_eq in H. auto. Qed.

Lemma wf_inv : forall n cm sl, wf (UNode n cm sl) = true -> n_up sl = 0 /\ children_wf sl = true.
Proof. simpl. intros. apply andb_prop in H. destruct H. apply Nat.eqb_eq in H. auto. Qed.

(** * sums of pairs *)
Definition psum (l : list (N * nat)) : N * nat :=
  (fold_right (fun p a => (fst p + a)%N) 0%N l, fold_right (fun p a => snd p + a) 0 l).

Lemma psum_cons : forall a l, psum (a :: l) = ((fst a + fst (psum l))%N, snd a + snd (psum l)).
Proof. reflexivity. Qed.

Lemma psum_app : forall l1 l2, psum (l1 ++ l2) = ((fst (psum l1) + fst (psum l2))%N, snd (psum l1) + snd (psum l2)).
Proof.
  induction l1; intros; [simpl app; destruct (psum l2) eqn:E; unfold psum at 1 2; simpl; reflexivity|].
  rewrite <- app_comm_cons, !psum_cons, IHl1. simpl. f_equal; lia.
Qed.

Lemma fold_hadd_spec : forall l acc,
    (fst acc < W64)%N ->
    fold_left hadd l acc = (w64 (fst acc + fst (psum l)), snd acc + snd (psum l)).
Proof.
  induction l as [|a l IH]; intros acc Hacc.
  - simpl. rewrite N.add_0_r, Nat.add_0_r, w64_small by auto. now destruct acc.
  - simpl fold_left. rewrite IH by (apply w64_lt). rewrite psum_cons. unfold hadd. simpl.
    rewrite w64_add_l. now rewrite N.add_assoc, Nat.add_assoc.
Qed.

Lemma psum_in_le : forall (l : list (N * nat)) x, In x l -> snd x <= snd (psum l).
Proof.
  induction l; intros; [contradiction|]. rewrite psum_cons. cbn [snd].
  destruct H; [subst; lia | apply IHl in H; lia].
Qed.

(** sums over the children of a node *)
Lemma psum_sides : forall (f : slot -> N * nat) (g : slot -> list string) (sl : list slot),
    (forall s, In s sl -> f s = (hsum (g s), length (g s))) ->
    w64 (fst (psum (map f sl))) = hsum (flat_map g sl) /\ snd (psum (map f sl)) = length (flat_map g sl).
Proof.
  induction sl as [|s r IH]; intros Hs.
  - split; reflexivity.
  - destruct IH as [I1 I2]; [intros; apply Hs; now right|].
    simpl map. rewrite psum_cons. simpl flat_map. rewrite hsum_app, app_length.
    rewrite (Hs s) by now left. cbn [fst snd]. split; [|lia].
    rewrite <- I1. now rewrite w64_add_r.
Qed.

Lemma psum_sides_pl : forall pl (sl : list slot),
    psum (map (side_of_slot pl) sl) =
    ((N.of_nat (n_up sl) * fst pl + fst (psum (map slot_side0 sl)))%N,
     n_up sl * snd pl + snd (psum (map slot_side0 sl))).
Proof.
  unfold n_up. induction sl as [|[[e c]|] r IH]; [reflexivity| |]; simpl map; rewrite !psum_cons, IH;
    cbn [fst snd side_of_slot slot_side0 filter length]; f_equal; lia.
Qed.

Lemma fnv1a_lt : forall s h, (h < W64)%N -> (fnv1a s h < W64)%N.
Proof. induction s; simpl; intros; auto. apply IHs, w64_lt. Qed.
Lemma tax_hash_lt : forall s, (tax_hash s < W64)%N.
Proof. intros. apply fnv1a_lt. reflexivity. Qed.

Lemma psum_split : forall pl (pre : list slot) s post,
    psum (map (side_of_slot pl) (pre ++ s :: post)) =
    ((fst (psum (map (side_of_slot pl) (pre ++ post))) + fst (side_of_slot pl s))%N,
     snd (psum (map (side_of_slot pl) (pre ++ post))) + snd (side_of_slot pl s)).
Proof.
  intros. rewrite !map_app, !psum_app, map_cons, psum_cons. cbn [fst snd]. apply f_equal2; lia.
Qed.

(** * what lies below a non-root node *)
Section Below.
  Variable ids : list string.

  Lemma sub_spec : forall c, wf_sub c = true ->
      tip_names c = leaves c /\
      tip_ids_below ids c = map (fun n => index_of n ids) (leaves c) /\
      right_of c = (hsum (leaves c), length (leaves c)) /\
      leaves c <> [].
  Proof.
    induction c as [n cm sl IH] using utree_ind'. intros W.
    apply wf_sub_inv in W. destruct W as [Hup Hch].
    pose proof (length_slots sl) as HL.
    assert (IH' : forall e c, In (Some (e, c)) sl ->
                tip_names c = leaves c /\ tip_ids_below ids c = map (fun n => index_of n ids) (leaves c) /\
                right_of c = (hsum (leaves c), length (leaves c)) /\ leaves c <> []).
    { intros e c Hin. rewrite Forall_forall in IH. specialize (IH _ Hin). simpl in IH.
      apply IH. eapply children_wf_in; eauto. }
    unfold tip_names. simpl tips. simpl tip_ids_below. simpl right_of. unfold is_tip, degree. simpl uslots.
    destruct (Nat.eqb_spec (length sl) 1) as [E|E].
    - assert (K : kids_of sl = []) by (destruct (kids_of sl); [reflexivity | simpl in HL; lia]).
      simpl leaves. rewrite K. rewrite kids_nil_flat by auto. simpl.
      repeat split; auto. rewrite N.add_0_r. rewrite w64_small; auto. apply tax_hash_lt.
      discriminate.
    - assert (K : kids_of sl <> []) by (intro K; rewrite K in HL; simpl in HL; lia).
      rewrite leaves_node by auto. simpl app.
      split; [|split; [|split]].
      + rewrite map_flat_map. unfold sub_leaves. apply flat_map_ext_in.
        intros [[e c]|] Hin; simpl; auto. apply (IH' _ _ Hin).
      + unfold sub_leaves. rewrite map_flat_map. apply flat_map_ext_in.
        intros [[e c]|] Hin; simpl; auto. apply (IH' _ _ Hin).
      + rewrite fold_hadd_spec by reflexivity. cbn [fst snd]. rewrite N.add_0_l, Nat.add_0_l.
        destruct (psum_sides slot_side0 slot_leaves sl) as [P1 P2].
        { intros [[e c]|] Hin; simpl; auto. apply (IH' _ _ Hin). }
        fold slot_side0. unfold sub_leaves. now rewrite P1, P2.
      + destruct (kids_of sl) as [|[e c] r] eqn:KK; [congruence|].
        assert (Hin : In (Some (e, c)) sl).
        { assert (In (e, c) (kids_of sl)) by (rewrite KK; now left).
          unfold kids_of in H. apply in_flat_map in H. destruct H as ([p|] & Hs & Hp); simpl in Hp; [|contradiction].
          destruct Hp as [<-|[]]. exact Hs. }
        destruct (IH' _ _ Hin) as (_ & _ & _ & NE).
        intro Z. apply NE. unfold sub_leaves in Z.
        destruct (leaves c) eqn:LC; auto.
        assert (In s (flat_map slot_leaves sl)).
        { apply in_flat_map. exists (Some (e, c)). split; auto. simpl. rewrite LC. now left. }
        rewrite Z in H. contradiction.
  Qed.

  (** the bitset of the branch above [c] *)
  Lemma bitset_of_spec : forall c,
      wf_sub c = true -> NoDup ids -> incl (leaves c) ids ->
      length (bitset_of ids c) = length ids /\
      forall i, test_bit (bitset_of ids c) i = true <-> exists x, nth_error ids i = Some x /\ In x (leaves c).
  Proof.
    intros c W ND Hincl. unfold bitset_of.
    destruct (sub_spec c W) as (_ & T & _ & _). rewrite T. split.
    - rewrite fold_set_bit_length; unfold bits_new; rewrite repeat_length; auto.
      apply Forall_forall. intros i Hi. apply in_map_iff in Hi. destruct Hi as (x & <- & Hx).
      apply index_of_lt. auto.
    - intros i. rewrite fold_set_bit_test, test_bit_new, orb_false_r. rewrite existsb_exists. split.
      + intros (j & Hj & E). apply Nat.eqb_eq in E. subst j.
        apply in_map_iff in Hj. destruct Hj as (x & <- & Hx). exists x. split; auto.
        apply index_of_nth. auto.
      + intros (x & Hn & Hx). exists i. split; [|apply Nat.eqb_refl].
        apply in_map_iff. exists x. split; auto. now apply nth_index_of.
  Qed.
End Below.

(** * all branches *)
Lemma edges_below_in : forall t ec,
    In ec (edges_below t) ->
    exists e c, In (Some (e, c)) (uslots t) /\ (ec = (e, c) \/ (Nat.ltb 1 (degree c) = true /\ In ec (edges_below c))).
Proof.
  destruct t as [n cm sl]. simpl. intros ec H. apply in_flat_map in H.
  destruct H as ([[e c]|] & Hs & Hin); [|contradiction].
  exists e, c. split; auto. destruct Hin as [<-|Hin]; auto.
  right. destruct (Nat.ltb 1 (degree c)); [auto | contradiction].
Qed.

Lemma edges_below_leaves : forall t ec, In ec (edges_below t) -> incl (leaves (snd ec)) (leaves t).
Proof.
  induction t as [n cm sl IH] using utree_ind'. intros ec H.
  apply edges_below_in in H. destruct H as (e & c & Hs & Hc). simpl uslots in Hs.
  rewrite leaves_node by (eapply kids_of_in; eauto).
  assert (incl (leaves c) (sub_leaves sl)).
  { intros x Hx. apply in_flat_map. exists (Some (e, c)). auto. }
  destruct Hc as [->|[_ Hin]]; auto.
  rewrite Forall_forall in IH. specialize (IH _ Hs). simpl in IH.
  eapply incl_tran; [apply IH|]; eauto.
Qed.

Lemma edges_below_wf : forall t ec,
    children_wf (uslots t) = true -> In ec (edges_below t) -> wf_sub (snd ec) = true.
Proof.
  induction t as [n cm sl IH] using utree_ind'. intros ec W H.
  apply edges_below_in in H. destruct H as (e & c & Hs & Hc). simpl uslots in *.
  pose proof (children_wf_in _ _ _ W Hs) as Wc.
  destruct Hc as [->|[_ Hin]]; auto.
  rewrite Forall_forall in IH. specialize (IH _ Hs). simpl in IH. apply IH; auto.
  destruct c. apply wf_sub_inv in Wc. apply Wc.
Qed.

Section Rows.
  Variable ids : list string.
  Variable H : N.        (* additive hash of all tip names *)
  Variable Nt : nat.     (* number of tips *)

  Definition Rrow (ec : einfo * utree) (r : erow) : Prop :=
    r_bits r = bitset_of ids (snd ec) /\
    r_nright r = length (leaves (snd ec)) /\
    r_hright r = hsum (leaves (snd ec)) /\
    r_nleft r + r_nright r = Nt /\
    w64 (r_hleft r + r_hright r) = H /\
    (r_hleft r < W64)%N /\
    1 <= r_nleft r /\
    r_tip r = is_tip (snd ec).

  (** the sides seen from a node add up to the whole tree; and apart from any child there is
      at least one tip *)
  Definition NI (pl : N * nat) (sl : list slot) : Prop :=
    (fst pl < W64)%N /\
    w64 (fst (psum (map (side_of_slot pl) sl))) = H /\
    snd (psum (map (side_of_slot pl) sl)) = Nt /\
    (forall pre s post, sl = pre ++ s :: post -> s <> None ->
                        1 <= snd (psum (map (side_of_slot pl) (pre ++ post)))).

  Lemma left_sum_after : forall pl i l k acc,
      i < k -> left_sum pl i k l acc = fold_left hadd (map (side_of_slot pl) l) acc.
  Proof.
    induction l; simpl; intros; auto.
    destruct (Nat.eqb_spec k i); [lia|]. apply IHl. lia.
  Qed.

  Lemma left_sum_split : forall pl pre s post k acc,
      left_sum pl (k + length pre) k (pre ++ s :: post) acc =
      fold_left hadd (map (side_of_slot pl) (pre ++ post)) acc.
  Proof.
    induction pre as [|a pre IH]; simpl; intros.
    - rewrite Nat.add_0_r, Nat.eqb_refl. apply left_sum_after. lia.
    - destruct (Nat.eqb_spec k (k + S (length pre))); [lia|].
      replace (k + S (length pre)) with (S k + length pre) by lia. apply IH.
  Qed.

  Lemma left_for_split : forall pl pre s post,
      left_for pl (pre ++ s :: post) (length pre) =
      (w64 (fst (psum (map (side_of_slot pl) (pre ++ post)))), snd (psum (map (side_of_slot pl) (pre ++ post)))).
  Proof.
    intros. unfold left_for. rewrite (left_sum_split pl pre s post 0).
    rewrite fold_hadd_spec by reflexivity. cbn [fst snd]. now rewrite N.add_0_l, Nat.add_0_l.
  Qed.

  Lemma in_none_of_nup : forall sl : list slot, 1 <= n_up sl -> In None sl.
  Proof.
    unfold n_up. induction sl as [|[p|] r IH]; simpl; intros; try lia; auto.
  Qed.

  (** invariant of a child node *)
  Lemma NI_child : forall pl pre e n cm sl' post,
      NI pl (pre ++ Some (e, UNode n cm sl') :: post) ->
      wf_sub (UNode n cm sl') = true -> Nat.ltb 1 (length sl') = true ->
      NI (left_for pl (pre ++ Some (e, UNode n cm sl') :: post) (length pre)) sl'.
  Proof.
    intros pl pre e n cm sl' post (Hpl & HH & HN & HP) W D.
    set (c := UNode n cm sl') in *.
    pose proof (wf_sub_inv _ _ _ W) as [Hup Hch].
    rewrite left_for_split.
    set (oth := psum (map (side_of_slot pl) (pre ++ post))) in *.
    assert (Hr : right_of c = (w64 (fst (psum (map slot_side0 sl'))), snd (psum (map slot_side0 sl')))).
    { unfold c. simpl right_of. apply Nat.ltb_lt in D.
      destruct (Nat.eqb_spec (length sl') 1); [lia|].
      rewrite fold_hadd_spec by reflexivity. cbn [fst snd]. now rewrite N.add_0_l, Nat.add_0_l. }
    assert (Hall : psum (map (side_of_slot pl) (pre ++ Some (e, c) :: post)) =
                   ((fst oth + fst (right_of c))%N, snd oth + snd (right_of c))).
    { exact (psum_split pl pre (Some (e, c)) post). }
    rewrite Hall in HH, HN. cbn [fst snd] in HH, HN.
    assert (Hpos : 1 <= snd oth) by (apply (HP pre (Some (e, c)) post); [reflexivity | discriminate]).
    unfold NI. rewrite psum_sides_pl, Hup. cbn [fst snd].
    change (N.of_nat 1) with 1%N. rewrite N.mul_1_l, Nat.mul_1_l.
    split; [apply w64_lt|]. split; [|split].
    - rewrite w64_add_l. rewrite Hr in HH. cbn [fst snd] in HH. rewrite w64_add_r in HH. exact HH.
    - rewrite Hr in HN. cbn [fst snd] in HN. lia.
    - intros pre' s post' E NS.
      assert (Hin : In None (pre' ++ post')).
      { assert (In None sl') by (apply in_none_of_nup; lia).
        rewrite E in H0. apply in_app_or in H0. apply in_or_app.
        destruct H0 as [?|[?|?]]; auto. congruence. }
      eapply Nat.le_trans; [|apply psum_in_le; apply in_map; exact Hin]. cbn [side_of_slot snd]. lia.
  Qed.

  (** main lemma: rows and branches correspond, from any node whose sides add up *)
  Lemma rows_below_spec : forall t pl,
      children_wf (uslots t) = true -> NI pl (uslots t) ->
      Forall2 Rrow (edges_below t) (rows_below ids t pl).
  Proof.
    induction t as [n cm sl IH] using utree_ind'. intros pl W I. simpl uslots in *.
    simpl edges_below. simpl rows_below.
    assert (G : forall l pre, sl = pre ++ l ->
      Forall2 Rrow
        (flat_map (fun s : slot => match s with
                                   | Some (e, c) => (e, c) :: (if Nat.ltb 1 (degree c) then edges_below c else [])
                                   | None => [] end) l)
        ((fix go (i : nat) (l : list slot) {struct l} : list erow :=
            match l with
            | [] => []
            | None :: r => go (S i) r
            | Some (_, c) :: r =>
              let lf := left_for pl sl i in
              let rg := right_of c in
              mkRow (bitset_of ids c) (snd rg) (snd lf) (fst rg) (fst lf) (is_tip c)
              :: (if Nat.ltb 1 (degree c) then rows_below ids c lf else []) ++ go (S i) r
            end) (length pre) l)).
    { induction l as [|s r IHl]; intros pre E; [constructor|].
      assert (E' : sl = (pre ++ [s]) ++ r) by (rewrite <- app_assoc; exact E).
      specialize (IHl _ E'). rewrite app_length in IHl. simpl in IHl. rewrite Nat.add_1_r in IHl.
      destruct s as [[e c]|]; [|exact IHl].
      simpl flat_map.
      assert (Hin : In (Some (e, c)) sl) by (rewrite E; apply in_or_app; right; now left).
      pose proof (children_wf_in _ _ _ W Hin) as Wc.
      destruct (sub_spec ids c Wc) as (_ & _ & Hr & Hne).
      destruct I as (Hpl & HH & HN & HP).
      pose proof (left_for_split pl pre (Some (e, c)) r) as LF. rewrite <- E in LF.
      assert (Hall : psum (map (side_of_slot pl) sl) =
                     ((fst (psum (map (side_of_slot pl) (pre ++ r))) + fst (right_of c))%N,
                      snd (psum (map (side_of_slot pl) (pre ++ r))) + snd (right_of c))).
      { rewrite E. exact (psum_split pl pre (Some (e, c)) r). }
      constructor.
      - unfold Rrow. cbn [r_bits r_nright r_nleft r_hright r_hleft r_tip snd fst]. rewrite LF, Hr. cbn [fst snd].
        rewrite Hall, Hr in HH, HN. cbn [fst snd] in HH, HN.
        split; [reflexivity|]. split; [reflexivity|]. split; [reflexivity|].
        split; [exact HN|]. split; [now rewrite w64_add_l|]. split; [apply w64_lt|].
        split; [|reflexivity].
        apply (HP pre (Some (e, c)) r E). discriminate.
      - apply Forall2_app; [|exact IHl].
        destruct (Nat.ltb 1 (degree c)) eqn:D; [|constructor].
        rewrite Forall_forall in IH. specialize (IH _ Hin). simpl in IH.
        destruct c as [n' cm' sl']. apply IH.
        + apply (wf_sub_inv _ _ _ Wc).
        + simpl uslots. rewrite E. apply NI_child; auto.
          rewrite <- E. repeat split; auto. }
    apply (G sl []). reflexivity.
  Qed.
End Rows.

(** * the root *)
Lemma root_NI : forall t,
    wf t = true -> 2 <= degree t ->
    NI (hsum (leaves t)) (length (leaves t)) (0%N, 0) (uslots t) /\ tip_names t = leaves t.
Proof.
  destruct t as [n cm sl]. intros W D. unfold degree in D. simpl uslots in *.
  apply wf_inv in W. destruct W as [Hup Hch].
  pose proof (length_slots sl) as HL. rewrite Hup in HL. simpl in HL.
  assert (K : kids_of sl <> []) by (intro K; rewrite K in HL; simpl in HL; lia).
  assert (S : forall e c, In (Some (e, c)) sl ->
              tip_names c = leaves c /\ right_of c = (hsum (leaves c), length (leaves c)) /\ leaves c <> []).
  { intros e c Hin. destruct (sub_spec [] c (children_wf_in _ _ _ Hch Hin)) as (A & _ & B & C). auto. }
  assert (NoNone : ~ In None sl).
  { intro Hn. clear - Hn Hup. unfold n_up in Hup. induction sl as [|[p|] r IH]; simpl in *; try lia; auto.
    destruct Hn; [discriminate | auto]. }
  rewrite leaves_node by auto. split.
  - unfold NI. rewrite psum_sides_pl, Hup. cbn [fst snd]. change (N.of_nat 0) with 0%N.
    rewrite N.mul_0_l, N.add_0_l, Nat.mul_0_l, Nat.add_0_l.
    destruct (psum_sides slot_side0 slot_leaves sl) as [P1 P2].
    { intros [[e c]|] Hin; simpl; auto. apply (S _ _ Hin). }
    split; [reflexivity|]. split; [exact P1|]. split; [exact P2|].
    intros pre s post E NS.
    (* another child exists and has at least one tip *)
    assert (Hlen : 1 <= length (pre ++ post)).
    { rewrite E in D. rewrite !app_length in *. simpl in D. lia. }
    destruct (pre ++ post) as [|s' r'] eqn:PP; [simpl in Hlen; lia|].
    assert (Hin' : In s' sl).
    { rewrite E. assert (In s' (pre ++ post)) by (rewrite PP; now left).
      apply in_app_or in H. apply in_or_app. destruct H; auto. right. now right. }
    destruct s' as [[e' c']|]; [|contradiction].
    destruct (S _ _ Hin') as (_ & R & NE).
    simpl map. rewrite psum_cons. cbn [fst snd side_of_slot]. rewrite R. cbn [snd].
    destruct (leaves c'); [congruence | simpl length; lia].
  - unfold tip_names. simpl tips. unfold is_tip, degree. simpl uslots.
    destruct (Nat.eqb_spec (length sl) 1); [lia|]. simpl app.
    rewrite map_flat_map. unfold sub_leaves. apply flat_map_ext_in.
    intros [[e c]|] Hin; simpl; auto. apply (S _ _ Hin).
Qed.

(** * statements about the tables *)
Definition row_describes (ids : list string) (t : utree) (ec : einfo * utree) (r : erow) : Prop :=
  let below := leaves (snd ec) in
  (* bitset = characteristic vector of the tips below the branch, by rank *)
  length (r_bits r) = length ids /\
  (forall i, test_bit (r_bits r) i = true <-> exists x, nth_error ids i = Some x /\ In x below) /\
  (* counts = sizes of both sides, depth = the light side *)
  r_nright r = length below /\
  r_nleft r = length (leaves t) - length below /\
  1 <= r_nright r /\ 1 <= r_nleft r /\
  topo_depth r = Some (Nat.min (length (leaves t) - length below) (length below)) /\
  (* partial hashes = additive hashes of both sides *)
  r_hright r = hsum below /\
  w64 (r_hleft r + r_hright r) = hsum (leaves t) /\ (r_hleft r < W64)%N /\
  r_tip r = is_tip (snd ec).

Lemma Forall2_impl_in : forall A B (P Q : A -> B -> Prop) l1 l2,
    (forall a b, In a l1 -> P a b -> Q a b) -> Forall2 P l1 l2 -> Forall2 Q l1 l2.
Proof.
  induction 2; constructor.
  - apply H; auto. now left.
  - apply IHForall2. intros. apply H; auto. now right.
Qed.

Theorem tables_spec : forall t,
    wf t = true -> 2 <= degree t -> NoDup (leaves t) ->
    let ids := sorted_tip_names t in
    Permutation ids (leaves t) /\
    StronglySorted name_le ids /\
    Forall2 (row_describes ids t) (edges t) (rows t).
Proof.
  intros t W D ND ids.
  destruct (root_NI t W D) as [I TN].
  assert (P : Permutation ids (leaves t)).
  { unfold ids, sorted_tip_names. rewrite TN. apply sort_names_perm. }
  split; [exact P|]. split; [apply sort_names_sorted|].
  assert (NDi : NoDup ids) by (eapply Permutation_NoDup; [apply Permutation_sym|]; eauto).
  assert (Wc : children_wf (uslots t) = true) by (destruct t; apply wf_inv in W; apply W).
  unfold rows, edges. fold ids.
  eapply Forall2_impl_in; [|apply (rows_below_spec ids _ _ t (0%N, 0) Wc I)].
  intros ec r Hin (Rb & Rn & Rh & Rs & Rw & Rl & Rp & Rt).
  pose proof (edges_below_wf _ _ Wc Hin) as Wec.
  pose proof (edges_below_leaves _ _ Hin) as Incl.
  destruct (sub_spec ids _ Wec) as (_ & _ & _ & NE).
  destruct (bitset_of_spec ids _ Wec NDi) as [BL BT].
  { intros x Hx. eapply Permutation_in; [apply Permutation_sym, P|]. auto. }
  assert (1 <= length (leaves (snd ec))) by (destruct (leaves (snd ec)); [congruence | simpl; lia]).
  unfold row_describes. rewrite Rb. repeat split; auto; try lia.
  - apply BT.
  - apply BT.
  - unfold topo_depth.
    destruct (Nat.eqb_spec (r_nleft r) 0); [lia|]. destruct (Nat.eqb_spec (r_nright r) 0); [lia|].
    simpl. f_equal. lia.
Qed.

(** tip ids are ranks in the sorted names *)
Theorem tipids_spec : forall t,
    wf t = true -> 2 <= degree t ->
    Forall2 (fun name id => nth_error (sorted_tip_names t) id = Some name)
            (tip_names t) (map (fun n => index_of n (sorted_tip_names t)) (tip_names t)).
Proof.
  intros t W D. unfold sorted_tip_names.
  assert (forall l, incl l (tip_names t) ->
                    Forall2 (fun name id => nth_error (sort_names (tip_names t)) id = Some name)
                            l (map (fun n => index_of n (sort_names (tip_names t))) l)).
  { induction l; simpl; intros; constructor.
    - apply index_of_nth. eapply Permutation_in; [apply Permutation_sym, sort_names_perm|]. apply H. now left.
    - apply IHl. intros x Hx. apply H. now right. }
  apply H. apply incl_refl.
Qed.

(** the model does not refuse such a tree, and returns exactly these tables *)
Lemma no_dup_sorted : forall l, NoDup l -> has_dup_sorted l = false.
Proof.
  induction l as [|x l IH]; intros ND; auto. destruct l as [|y r]; auto.
  inversion ND; subst.
  change (has_dup_sorted (x :: y :: r)) with (String.eqb x y || has_dup_sorted (y :: r)).
  rewrite IH by auto.
  destruct (String.eqb_spec x y); auto. subst. exfalso. apply H1. now left.
Qed.

Theorem index_tables_ok : forall t,
    wf t = true -> 2 <= degree t -> NoDup (leaves t) ->
    index_tables t = Ok (mkTables (sorted_tip_names t)
                                  (map (fun n => index_of n (sorted_tip_names t)) (tip_names t))
                                  (rows t)).
Proof.
  intros t W D ND. destruct (root_NI t W D) as [_ TN].
  assert (P : Permutation (sorted_tip_names t) (leaves t)).
  { unfold sorted_tip_names. rewrite TN. apply sort_names_perm. }
  unfold index_tables.
  rewrite no_dup_sorted by (eapply Permutation_NoDup; [apply Permutation_sym|]; eauto).
  assert (leaves t <> []).
  { destruct t as [n cm sl]. simpl. destruct (kids_of sl) eqn:K; [discriminate|].
    unfold degree in D. simpl in D. apply wf_inv in W. destruct W as [Hup Hch].
    destruct p as [e c].
    assert (Hin : In (Some (e, c)) sl).
    { assert (In (e, c) (kids_of sl)) by (rewrite K; now left).
      unfold kids_of in H. apply in_flat_map in H. destruct H as ([q|] & Hs & Hp); simpl in Hp; [|contradiction].
      destruct Hp as [<-|[]]. exact Hs. }
    destruct (sub_spec [] c (children_wf_in _ _ _ Hch Hin)) as (_ & _ & _ & NE).
    intro Z. destruct (leaves c) eqn:LC; [congruence|].
    assert (In s (flat_map (fun s0 : slot => match s0 with Some (_, c0) => leaves c0 | None => [] end) sl)).
    { apply in_flat_map. exists (Some (e, c)). split; auto. rewrite LC. now left. }
    rewrite Z in H. contradiction. }
  destruct (Nat.eqb_spec (length (sorted_tip_names t)) 0) as [E|E].
  - exfalso. apply Permutation_length in P. destruct (leaves t); [congruence | simpl in P; lia].
  - unfold is_tip. destruct (Nat.eqb_spec (degree t) 1); [lia|]. reflexivity.
Qed.
