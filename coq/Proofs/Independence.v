(** Operations on different trees do not influence one another, whatever the interleaving, as long as
    no step touches the shared store; a shared scratch buffer breaks exactly that. *)
From Coq Require Import String Bool Arith List Lia.
From GT Require Import Model.Globals.
Import ListNotations.

Section Indep.
  Variables L G : Type.
  Variable step : nat -> L -> G -> L * G.
  Hypothesis Hloc : local_only L G step.

  Lemma alone_snoc : forall i k l g, alone L G step i (S k) l g = fst (step i (alone L G step i k l g) g).
  Proof.
    intros i k. induction k as [|k IH]; intros l g; [reflexivity|].
    change (alone L G step i (S (S k)) l g) with (alone L G step i (S k) (fst (step i l g)) g).
    rewrite IH. reflexivity.
  Qed.

  (** every interleaving: the shared store is unchanged and every thread ends where it would have
      ended running alone for as many steps as the schedule gave it *)
  Theorem run_independent :
    forall sch ls g,
      snd (run L G step sch (ls, g)) = g /\
      forall i, fst (run L G step sch (ls, g)) i = alone L G step i (count_occ Nat.eq_dec sch i) (ls i) g.
  Proof.
    intros sch. induction sch as [|j sch IH] using rev_ind; intros ls g.
    - split; [reflexivity|]. intros i. reflexivity.
    - unfold run in *. rewrite fold_left_app. cbn [fold_left].
      destruct (IH ls g) as [Hg Hl].
      destruct (fold_left (sched1 L G step) sch (ls, g)) as [ls1 g1] eqn:E. cbn [fst snd] in *. subst g1.
      unfold sched1. cbn [fst snd]. destruct (step j (ls1 j) g) as [l' g'] eqn:Es.
      destruct (Hloc j (ls1 j) g) as [Hs _]. rewrite Es in Hs. cbn [snd] in Hs. subst g'.
      split; [reflexivity|]. intros i. cbn [fst]. unfold upd.
      rewrite count_occ_app. cbn [count_occ].
      destruct (Nat.eqb_spec i j) as [->|Hne].
      + destruct (Nat.eq_dec j j) as [_|C]; [|congruence].
        replace (count_occ Nat.eq_dec sch j + 1) with (S (count_occ Nat.eq_dec sch j)) by lia.
        rewrite alone_snoc. rewrite <- Hl. rewrite Es. reflexivity.
      + destruct (Nat.eq_dec j i) as [C|_]; [congruence|]. rewrite Nat.add_0_r. apply Hl.
  Qed.

  (** two schedules that give every thread the same number of steps end in the same state *)
  Corollary schedule_independent :
    forall s1 s2 ls g,
      (forall i, count_occ Nat.eq_dec s1 i = count_occ Nat.eq_dec s2 i) ->
      forall i, fst (run L G step s1 (ls, g)) i = fst (run L G step s2 (ls, g)) i.
  Proof.
    intros s1 s2 ls g H i.
    rewrite (proj2 (run_independent s1 ls g) i), (proj2 (run_independent s2 ls g) i), H. reflexivity.
  Qed.
End Indep.

(** * a shared scratch buffer is not local: the result depends on the schedule
    Each thread collects its own items into the package-level buffer (two steps: reset and append,
    then read back), as `buf := scratch[:0]; buf = append(buf, x); use(buf)` does. *)
Definition scratch_step (i : nat) (l : nat * list nat) (g : list nat) : (nat * list nat) * list nat :=
  match fst l with
  | 0 => ((1, snd l), [i])              (* scratch[:0] then append own item *)
  | _ => ((2, g), g)                    (* read the buffer back as the own result *)
  end.

Example scratch_depends_on_schedule :
  fst (run _ _ scratch_step [0; 0; 1; 1] (fun _ => (0, []), [])) 0 = (2, [0]) /\
  fst (run _ _ scratch_step [0; 1; 0; 1] (fun _ => (0, []), [])) 0 = (2, [1]).
Proof. split; reflexivity. Qed.

Example scratch_not_local : ~ local_only _ _ scratch_step.
Proof. intros H. destruct (H 0 (0, []) []) as [C _]. discriminate C. Qed.
