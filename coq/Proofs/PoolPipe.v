(** Reader -> channel -> workers -> result channel -> caller (Model/PoolPipe.v).
    The composed system runs in lock-step with Model/Pool2.v on the job list "records, then the
    error record" — so every theorem of Pool2 (hence of Pool) holds for it — and, because the
    error record is the LAST thing the reader sends, Stop mode loses nothing: when the caller's
    loop ends it holds the results of all trees before the error, and the error. *)
From Coq Require Import Bool Arith Lia List Permutation.
From GT Require Import Model.Pool Model.Pool2 Model.PoolPipe.
From GT Require Import Proofs.Pool Proofs.PoolLive Proofs.Pool2 Proofs.Pool2Live.
Import ListNotations.

Local Arguments pending {job res err} s.
Local Arguments closed {job res err} s.
Local Arguments queue {job res err} s.
Local Arguments ws {job res err} s.
Local Arguments out {job res err} s.
Local Arguments errs {job res err} s.
Local Arguments mkSt {job res err}.
Local Arguments producer_step {job res err} s.
Local Arguments worker_step {job res err}.
Local Arguments step {job res err}.
Local Arguments run {job res err}.
Local Arguments init {job res err}.
Local Arguments finished {job res err} s.
Local Arguments busy_jobs {job res err} s.
Local Arguments worker_step_spec {job res err}.
Local Arguments inv {job res err}.
Local Arguments inv_reach {job res err}.
Local Arguments pending2 {job res err} s.
Local Arguments rchan {job res err} s.
Local Arguments recvd {job res err} s.
Local Arguments caller_done {job res err} s.
Local Arguments errs2 {job res err} s.
Local Arguments mkSt2 {job res err}.
Local Arguments step2 {job res err}.
Local Arguments run2 {job res err}.
Local Arguments init2 {job res err}.
Local Arguments abs {job res err}.
Local Arguments psrc {job res err} _.
Local Arguments perr {job res err} _.
Local Arguments pclosed {job res err} _.
Local Arguments pqueue {job res err} _.
Local Arguments pws {job res err} _.
Local Arguments prchan {job res err} _.
Local Arguments pclosed_out {job res err} _.
Local Arguments precvd {job res err} _.
Local Arguments pcaller_done {job res err} _.
Local Arguments perrs {job res err} _.
Local Arguments mkP {job res err}.
Local Arguments pstep {job res err}.
Local Arguments prun {job res err}.
Local Arguments pinit {job res err}.
Local Arguments abs2 {job res err}.
Local Arguments olist {job}.

(** * Pool level: when only the last job can fail, a failing job leaves nothing behind *)
Section Tail.
  Variables (job res err : Type).
  Variable f : job -> res.
  Variable fails : job -> bool.
  Variable e_of : job -> err.
  Variable on_fail : fail_mode.
  Variable done_on_exit : bool.

  Local Notation state := (st job res err).
  Local Notation stepf := (step f fails e_of on_fail done_on_exit).
  Local Notation runf := (run f fails e_of on_fail done_on_exit).

  Variable jobs : list job.
  Hypothesis last_only : forall pre j rest, jobs = pre ++ j :: rest -> fails j = true -> rest = [].

  Definition tail_inv (s : state) : Prop :=
    (exists pre, jobs = pre ++ queue s ++ pending s)
    /\ ((errs s <> [] \/ exists j, In j (busy_jobs s) /\ fails j = true)
        -> queue s = [] /\ pending s = []).

  Lemma in_busy_mid l1 l2 (w : wstate job) j :
    In j (flat_map (bjw job) (l1 ++ w :: l2)) ->
    In j (bjw job w) \/ In j (flat_map (bjw job) (l1 ++ Idle :: l2)).
  Proof.
    rewrite !bj_mid. simpl. intros H. apply in_app_or in H. destruct H as [H|H].
    - right. apply in_or_app. auto.
    - apply in_app_or in H. destruct H as [H|H]; auto. right. apply in_or_app. auto.
  Qed.

  Lemma in_busy_mid_rev l1 l2 (w : wstate job) j :
    In j (flat_map (bjw job) (l1 ++ Idle :: l2)) -> In j (flat_map (bjw job) (l1 ++ w :: l2)).
  Proof.
    rewrite !bj_mid. simpl. intros H. apply in_app_or in H. apply in_or_app.
    destruct H; auto. right. apply in_or_app. auto.
  Qed.

  Lemma tail_inv_step s a : tail_inv s -> tail_inv (stepf s a).
  Proof.
    intros [(pre & Hpre) Hq]. destruct a as [|i]; simpl.
    - unfold producer_step. destruct (pending s) as [|j p] eqn:P.
      + split; simpl; eauto.
      + split; simpl.
        * exists pre. rewrite <- app_assoc. exact Hpre.
        * intros H. destruct (Hq H) as [_ X]. discriminate.
    - unfold busy_jobs in *.
      destruct (worker_step_spec f fails e_of on_fail done_on_exit s i) as
        [St | l1 l2 j q Hw Hi Q | l1 l2 Hw Hi Q C | l1 l2 j Hw Hi F | l1 l2 j Hw Hi F O | l1 l2 j Hw Hi F O];
        [split; eauto| | | | | ]; rewrite Hw in Hq; split; simpl.
      + exists (pre ++ [j]). rewrite Q in Hpre. rewrite <- app_assoc. exact Hpre.
      + intros [H|(j' & Hj' & Fj')].
        * destruct Hq as [X _]; auto. rewrite Q in X. discriminate.
        * apply in_busy_mid in Hj'. destruct Hj' as [[<-|[]]|Hj'].
          -- rewrite Q in Hpre. simpl in Hpre.
             pose proof (last_only _ _ _ Hpre Fj') as R. apply app_eq_nil in R. exact R.
          -- destruct Hq as [X _]; [right; eauto|]. rewrite Q in X. discriminate.
      + exists pre. rewrite Q in Hpre. exact Hpre.
      + intros H. split; auto. apply Hq. destruct H as [H|(j' & Hj' & Fj')]; auto.
        right. exists j'. split; auto. apply in_busy_mid in Hj'. destruct Hj' as [[]|Hj']; auto.
      + exists pre. exact Hpre.
      + intros H. apply Hq. destruct H as [H|(j' & Hj' & Fj')]; auto.
        right. exists j'. split; auto. apply in_busy_mid_rev. exact Hj'.
      + exists pre. exact Hpre.
      + intros _. apply Hq. right. exists j. split; auto.
        rewrite bj_mid. apply in_or_app. right. left. reflexivity.
      + exists pre. exact Hpre.
      + intros _. apply Hq. right. exists j. split; auto.
        rewrite bj_mid. apply in_or_app. right. left. reflexivity.
  Qed.

  Lemma tail_inv_reach n sched : tail_inv (runf sched (init jobs n)).
  Proof.
    apply (run_inv _ _ _ f fails e_of on_fail done_on_exit tail_inv).
    - intros; apply tail_inv_step; auto.
    - split; simpl.
      + exists []. reflexivity.
      + intros [H|(j & Hj & _)]; [congruence|]. exfalso.
        unfold busy_jobs in Hj. simpl in Hj. clear -Hj. induction n; simpl in Hj; auto.
  Qed.

  (** at the end everything has been processed, also under Stop *)
  Lemma finished_all_processed_tail n sched :
    1 <= n ->
    let s := runf sched (init jobs n) in
    finished s = true ->
    exists processed,
      Permutation jobs processed /\ out s = outs_of _ _ f fails on_fail processed
      /\ errs s = map e_of (filter fails processed).
  Proof.
    intros Hn s F.
    destruct (inv_reach f fails e_of on_fail done_on_exit jobs n sched)
      as [Hc He (p & Hp & Ho & Her) Hl Hd]. fold s in Hc, He, Hp, Ho, Her, Hl.
    destruct (tail_inv_reach n sched) as [_ Hq]. fold s in Hq.
    exists p. repeat split; auto.
    assert (Hex : In Exited (ws s)) by (apply finished_in_exited; auto; lia).
    assert (Q : queue s = [] /\ pending s = []).
    { destruct (He Hex) as [[C Q]|[_ R]]; auto. }
    destruct Q as [Q P]. rewrite (finished_busy_nil _ _ _ s F), Q, P in Hp. simpl in Hp.
    now rewrite app_nil_r in Hp.
  Qed.
End Tail.

Lemma last_only_shape {job} (fails : job -> bool) (items : list job) e :
  (forall x, In x items -> fails x = false) ->
  forall pre j rest, items ++ [e] = pre ++ j :: rest -> fails j = true -> rest = [].
Proof.
  intros Hi pre j rest E Fj. destruct rest as [|r rest'] using rev_ind; auto.
  exfalso. clear IHrest'.
  replace (pre ++ j :: rest' ++ [r]) with ((pre ++ j :: rest') ++ [r]) in E
    by (rewrite <- app_assoc; reflexivity).
  apply app_inj_tail in E. destruct E as [E _].
  rewrite (Hi j) in Fj; [discriminate|]. rewrite E. apply in_or_app. right. left. reflexivity.
Qed.

Lemma last_only_nofail {job} (fails : job -> bool) (items : list job) :
  (forall x, In x items -> fails x = false) ->
  forall pre j rest, items = pre ++ j :: rest -> fails j = true -> rest = [].
Proof.
  intros Hi pre j rest E Fj. rewrite (Hi j) in Fj; [discriminate|].
  rewrite E. apply in_or_app. right. left. reflexivity.
Qed.

(** * the composed system *)
Section PipeProofs.
  Variables (job res err : Type).
  Variable f : job -> res.
  Variable fails : job -> bool.
  Variable e_of : job -> err.
  Variable on_fail : fail_mode.
  Variable done_on_exit : bool.
  Variables cj cr : nat.

  Local Notation pstate := (pst job res err).
  Local Notation pstepf := (pstep f fails e_of on_fail done_on_exit cj cr).
  Local Notation prunf := (prun f fails e_of on_fail done_on_exit cj cr).
  Local Notation step2f := (step2 f fails e_of on_fail done_on_exit cj cr).
  Local Notation run2f := (run2 f fails e_of on_fail done_on_exit cj cr).

  Lemma lockstep (s : pstate) a : abs2 (pstepf s a) = step2f (abs2 s) a.
  Proof.
    destruct a as [|[|[|i]]]; simpl.
    - unfold pproducer_step, producer_step2, abs2. simpl.
      destruct (psrc s) as [|x r] eqn:Sr; simpl.
      + destruct (perr s) as [e|] eqn:Er; simpl; [|reflexivity].
        destruct (length (pqueue s) <? cj); simpl; rewrite ?Sr, ?Er; reflexivity.
      + destruct (length (pqueue s) <? cj); simpl; rewrite ?Sr; reflexivity.
    - unfold pcloser_step, closer_step, abs2. simpl.
      destruct (forallb _ (pws s)); reflexivity.
    - unfold pcaller_step, caller_step, abs2. simpl.
      destruct (pcaller_done s) eqn:D; [simpl; rewrite ?D; reflexivity|].
      destruct (prchan s) eqn:R; [destruct (pclosed_out s) eqn:Co|]; simpl;
        rewrite ?D, ?R, ?Co; reflexivity.
    - assert (Hsend : forall j e', abs2 (psend_result _ _ _ f cr s i j e')
                                  = send_result _ _ _ f cr (abs2 s) i j e').
      { intros j e'. unfold psend_result, send_result, abs2. simpl.
        destruct (length (prchan s) <? cr); [reflexivity|].
        destruct cr; [|reflexivity]. destruct (prchan s) eqn:R; [|simpl; rewrite ?R; reflexivity].
        destruct (pcaller_done s) eqn:D; simpl; rewrite ?R, ?D; reflexivity. }
      unfold pworker_step, worker_step2. simpl.
      destruct (nth_error (pws s) i) as [[|j| |]|]; try reflexivity.
      + destruct (pqueue s) as [|j q]; [|reflexivity].
        destruct cj as [|c'].
        * destruct (psrc s) as [|x r] eqn:Sr; simpl.
          -- destruct (perr s) as [e|] eqn:Er; simpl; [reflexivity|].
             destruct (pclosed s); simpl; rewrite ?Sr, ?Er; reflexivity.
          -- reflexivity.
        * destruct (pclosed s); simpl; reflexivity.
      + destruct (fails j); [destruct on_fail|]; try apply Hsend. reflexivity.
  Qed.

  Lemma lockstep_run sched (s : pstate) : abs2 (prunf sched s) = run2f sched (abs2 s).
  Proof.
    revert s. induction sched as [|a sched IH]; intros s; simpl; auto.
    rewrite IH, lockstep. reflexivity.
  Qed.

  Lemma abs2_init items e k : abs2 (pinit items e k : pstate) = init2 (items ++ olist e) k.
  Proof. reflexivity. Qed.

  Lemma pipe_is_pool2 items e k sched :
    abs2 (prunf sched (pinit items e k)) = run2f sched (init2 (items ++ olist e) k).
  Proof. rewrite lockstep_run, abs2_init. reflexivity. Qed.

  Lemma prun_app s1 s2 (s : pstate) : prunf (s1 ++ s2) s = prunf s2 (prunf s1 s).
  Proof. unfold prun. apply fold_left_app. Qed.

  (** from every reachable state the caller can still finish *)
  Lemma pipe_deadlock_free items e k sched :
    live_mode on_fail done_on_exit ->
    exists cont, pcaller_done (prunf cont (prunf sched (pinit items e k))) = true.
  Proof.
    intros L.
    destruct (deadlock_free _ _ _ f fails e_of on_fail done_on_exit cj cr (items ++ olist e) k sched L)
      as (cont & H).
    exists cont. rewrite <- prun_app.
    change (pcaller_done (prunf (sched ++ cont) (pinit items e k)))
      with (caller_done (abs2 (prunf (sched ++ cont) (pinit items e k)))).
    rewrite pipe_is_pool2, run2_app. exact H.
  Qed.

  (** end to end: the trees before the error are all processed and the error is reported *)
  Lemma pipe_end_to_end items e k sched :
    (forall x, In x items -> fails x = false) ->
    (forall x, e = Some x -> fails x = true) ->
    on_fail = Stop -> 1 <= k ->
    let s := prunf sched (pinit items e k) in
    pcaller_done s = true ->
    Permutation (precvd s) (map f items) /\ perrs s = map e_of (olist e).
  Proof.
    intros Hi He O Hk s D.
    pose proof (pipe_is_pool2 items e k sched) as E. fold s in E.
    assert (D2 : caller_done (run2f sched (init2 (items ++ olist e) k)) = true)
      by (rewrite <- E; exact D).
    destruct (caller_done_finished _ _ _ f fails e_of on_fail done_on_exit cj cr _ k sched D2)
      as (F & _ & _ & Ho).
    destruct (simulation _ _ _ f fails e_of on_fail done_on_exit cj cr (items ++ olist e) k sched)
      as (s1 & E1).
    rewrite E1 in F, Ho.
    assert (LO : forall pre j rest, items ++ olist e = pre ++ j :: rest -> fails j = true -> rest = []).
    { destruct e as [x|]; simpl.
      - apply last_only_shape; auto.
      - rewrite app_nil_r. apply last_only_nofail; auto. }
    destruct (finished_all_processed_tail _ _ _ f fails e_of on_fail done_on_exit _ LO k s1 Hk F)
      as (p & Hp & Hout & Herr).
    assert (R : precvd s = recvd (abs2 s)) by reflexivity.
    assert (R' : perrs s = errs2 (abs2 s)) by reflexivity.
    rewrite R, R', E. clear R R'.
    rewrite <- Ho.
    change (errs2 (run2f sched (init2 (items ++ olist e) k)))
      with (errs (abs (run2f sched (init2 (items ++ olist e) k)))).
    rewrite E1, Hout, Herr. unfold outs_of. rewrite O.
    assert (FN : filter (fun j => negb (fails j)) (items ++ olist e) = items).
    { rewrite filter_app. rewrite (filter_all_true _ items) by (intros x Hx; rewrite Hi; auto).
      destruct e as [x|]; simpl; [rewrite (He x eq_refl)|]; simpl; apply app_nil_r. }
    assert (FF : filter fails (items ++ olist e) = olist e).
    { rewrite filter_app. rewrite (filter_all_false _ items) by auto.
      destruct e as [x|]; simpl; [rewrite (He x eq_refl)|]; reflexivity. }
    split.
    - rewrite <- FN. apply Permutation_map, Permutation_filter'. symmetry. exact Hp.
    - assert (P : Permutation (filter fails p) (olist e)).
      { rewrite <- FF. apply Permutation_filter'. symmetry. exact Hp. }
      destruct e as [x|]; simpl in *.
      + apply Permutation_sym, Permutation_length_1_inv in P. rewrite P. reflexivity.
      + apply Permutation_sym, Permutation_nil in P. rewrite P. reflexivity.
  Qed.

  (** Continue mode (Compare): every record, the erroneous one included, yields a result *)
  Lemma pipe_end_to_end_continue items e k sched :
    on_fail = Continue -> 1 <= k ->
    let s := prunf sched (pinit items e k) in
    pcaller_done s = true ->
    Permutation (precvd s) (map f (items ++ olist e))
    /\ Permutation (perrs s) (map e_of (filter fails (items ++ olist e))).
  Proof.
    intros O Hk s D.
    pose proof (pipe_is_pool2 items e k sched) as E. fold s in E.
    assert (D2 : caller_done (run2f sched (init2 (items ++ olist e) k)) = true)
      by (rewrite <- E; exact D).
    assert (R : precvd s = recvd (abs2 s)) by reflexivity.
    assert (R' : perrs s = errs2 (abs2 s)) by reflexivity.
    rewrite R, R', E. split.
    - apply (results2 _ _ _ f fails e_of on_fail done_on_exit cj cr _ k sched (or_introl O) Hk D2).
    - apply (errors_all2 _ _ _ f fails e_of on_fail done_on_exit cj cr _ k sched O Hk D2).
  Qed.

End PipeProofs.
