(** C05: why the split-level statements assume that a branch length is absent or not negative
    ([good_len]).  gotree codes "no length" as -1, so a branch of length -2 is cut into two
    halves of length -1, which read as absent: the split keeps neither -2 nor any length.
    Negative lengths are outside the property ("trees with branch lengths"). *)
From Coq Require Import String ZArith QArith Bool Arith Lia List Permutation.
From GT Require Import Base.UTree Spec.Obs Model.Reroot Model.Outgroup Spec.Unrooted
     Proofs.USplits Proofs.OutgroupKeep Proofs.OutgroupMidpoint Proofs.OutgroupWitness Proofs.OutgroupSplitsMain.
Import ListNotations.
Local Close Scope Q_scope.
Local Open Scope string_scope.

(** ((a:1,b:1):-2,c:1,d:1);  rooted on {a,b} *)
Definition og_neg : utree :=
  UNode "" [] [Some (Ez (-2)%Q, UNode "" [] [None; Some (Ez 1%Q, tipn "a"); Some (Ez 1%Q, tipn "b")]);
               Some (Ez 1%Q, tipn "c"); Some (Ez 1%Q, tipn "d")].

Theorem outgroup_negative_length_refuted :
  exists t names t' k,
    wf t = true /\ 3 <= degree t /\ rooted t = false /\ NoDup (leaves t) /\
    (exists x, In x (bsplits t) /\ ~ good_len (fst (fst x))) /\
    reroot_outgroup false true t names = Ok t' /\
    ~ orel split_weq (find_split k (usplits t')) (find_split k (usplits (unroot t))).
Proof.
  exists og_neg, ["a"; "b"].
  destruct (reroot_outgroup false true og_neg ["a"; "b"]) as [t'|] eqn:E; [|vm_compute in E; discriminate].
  exists t', ["c"; "d"]. vm_compute in E. inversion E; subst t'. clear E.
  split; [reflexivity|]. split; [vm_compute; lia|]. split; [reflexivity|]. split.
  { vm_compute. repeat constructor; simpl; intuition discriminate. }
  split.
  { eexists. split; [vm_compute; left; reflexivity|]. intros [H|H]; vm_compute in H; [discriminate|].
    apply H. reflexivity. }
  split; [reflexivity|].
  intros H. vm_compute in H. destruct H as [_ H]. vm_compute in H. discriminate.
Qed.
