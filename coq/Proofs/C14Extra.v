(** C14: corollaries and non-vacuity examples for the inputs added to the judges in the later
    rounds (single-child roots and negative lengths in the cut, non-default metrics in the
    average). *)
From Coq Require Import String ZArith QArith Bool Arith Lia List Permutation.
From GT Require Import Base.UTree Spec.Obs Model.Reroot Model.Matrix
     Proofs.MatrixMain Proofs.CutBase Proofs.CutSem Proofs.CutSpec.
Import ListNotations.
Local Close Scope Q_scope.

(** the groups are pairwise disjoint: with distinct tip names no name occurs twice in all the
    groups together (for every well-formed tree: a root with a single neighbour is a tip, the
    lengths may be negative or absent) *)
Theorem cut_groups_disjoint maxlen t :
  wf t = true -> NoDup (tip_names t) -> NoDup (concat (sgroups maxlen t false)).
Proof.
  intros W N. eapply Permutation_NoDup; [symmetry; apply sgroups_partition; exact W|exact N].
Qed.

(** a root with a single neighbour and a negative length: ((A:-1/4,B:1/2):3/4)r; cut at 1/2 *)
Definition root1_tree : utree :=
  UNode "r" [] [Some (mkE (3#4) nilv nilv [],
                      UNode "" [] [None; Some (mkE (-1#4) nilv nilv [], UNode "A" [] [None]);
                                   Some (mkE (1#2) nilv nilv [], UNode "B" [] [None])])]%string.

Lemma root1_example :
  wf root1_tree = true /\ tip_names root1_tree = ["r"; "A"; "B"]%string /\
  cut (1#2) root1_tree = [["r"]; ["A"]; ["B"]]%string /\
  cut 1 root1_tree = [["A"; "B"; "r"]]%string /\
  cut (-1#4) root1_tree = [["r"]; ["A"]; ["B"]]%string /\
  cut (-1#8) root1_tree = [["r"]; ["A"]; ["B"]]%string.
Proof. repeat split; vm_compute; reflexivity. Qed.

(** the average for the non-default metrics: ((a:1,b:2)0.5:3,c:4,d); and (a:1,(b:1,c:1)0.25:1,d:1); *)
Definition avg_tree2 : utree :=
  UNode "" [] [Some (mkE 1 nilv nilv [], UNode "a" [] [None]);
               Some (mkE 1 (1#4) nilv [], UNode "" [] [None; Some (mkE 1 nilv nilv [], UNode "b" [] [None]);
                                                        Some (mkE 1 nilv nilv [], UNode "c" [] [None])]);
               Some (mkE 1 nilv nilv [], UNode "d" [] [None])]%string.

Definition avg_is (r : res (list string * list (list Q))) (names : list string) (m : list (list Q)) : bool :=
  match r with
  | Ok (n, a) => list_eqb String.eqb n names && list_eqb (list_eqb qeqb) a m
  | Err _ => false
  end.

Lemma avg_example :
  avg_is (avg_matrix MBoots [c14_tree; avg_tree2]) ["a"; "b"; "c"; "d"]%string
         [[0; 17#8; 19#8; 9#4]; [17#8; 0; 9#4; 19#8]; [19#8; 9#4; 0; 17#8]; [9#4; 19#8; 17#8; 0]]%Q = true /\
  avg_is (avg_matrix MNone [c14_tree; avg_tree2]) ["a"; "b"; "c"; "d"]%string
         [[0; 5#2; 3; 5#2]; [5#2; 0; 5#2; 3]; [3; 5#2; 0; 5#2]; [5#2; 3; 5#2; 0]]%Q = true.
Proof. split; vm_compute; reflexivity. Qed.
