(** Heap model: one contraction of Tree.RemoveEdges keeps [Good]; it never fails on a good
    heap. *)
From Coq Require Import String ZArith QArith Bool Arith Lia Permutation List.
From GT Require Import Base.UTree Model.Reroot Model.Heap Proofs.Enum Proofs.HeapBase Proofs.HeapRep
     Proofs.HeapGood Proofs.HeapGoodRep Proofs.HeapRerootL Proofs.HeapReorder Proofs.HeapUnrootL Proofs.HeapUnroot
     Proofs.HeapCtx Proofs.HeapGraft.
Import ListNotations.
Local Close Scope Q_scope.

(** the loop of RemoveEdges over the children of the right node *)
Definition contract_loop (l r : nat) : list nat -> heap -> hres heap :=
  fix loop (cs : list nat) (h : heap) : hres heap :=
    match cs with
    | [] => HOk h
    | child :: rest =>
      if Nat.eqb child l then loop rest h
      else
        do idx <- node_index h child r;
        do h <- set_neigh_at h child idx l;
        do b <- br_at h child idx;
        do bd <- get_edge h b;
        if Nat.eqb (hleft bd) r then
          let h := set_edge h b (mkHE l (hright bd) (hinfo bd)) in
          do h <- add_child l child b h;
          loop rest h
        else HErr "Problem in edge orientation"%string
    end.

Lemma remove_edge_eq rr rt e h :
  remove_edge rr rt e h =
  do ed <- get_edge h e;
  let l := hleft ed in
  let r := hright ed in
  do hr <- get_node h r;
  do hl <- get_node h l;
  if Nat.eqb (length (hneigh hr)) 1 then
    (if rt then set_info h e (fun i => mkE 0%Q (esup i) (epv i) (ecom i)) else HOk h)
  else if negb rr && (Nat.eqb (length (hneigh hr)) 2 || Nat.eqb (length (hneigh hl)) 2)
  then HOk h
  else
    do h <- ignore_err h (del_neighbor l r h);
    do h <- ignore_err h (del_neighbor r l h);
    do hr <- get_node h r;
    do h <- contract_loop l r (hneigh hr) h;
    do h <- unconnect_node r h;
    HOk (mkHeap (hnodes h) (arem e (hedges h)) (hroot h) (hnextn h) (hnexte h)).
Proof. reflexivity. Qed.

Definition upd_neigh (hc : hnode) (idx m : nat) : hnode :=
  mkHN (hname hc) (hcom hc) (put_nth idx m (hneigh hc)) (hbr hc).

Definition kid_ok (h : heap) (r : nat) (k : nat * nat) : Prop :=
  exists hc idx eic, alookup (fst k) (hnodes h) = Some hc /\ index_of r (hneigh hc) = Some idx /\
    idx < length (hneigh hc) /\ nth_error (hbr hc) idx = Some (snd k) /\
    alookup (snd k) (hedges h) = Some (mkHE r (fst k) eic).

Lemma contract_loop_ok l r : forall ks h hl,
  alookup l (hnodes h) = Some hl -> Forall (kid_ok h r) ks ->
  NoDup (map fst ks) -> NoDup (map snd ks) -> ~ In l (map fst ks) ->
  exists h', contract_loop l r (map fst ks) h = HOk h' /\
    alookup l (hnodes h') = Some (mkHN (hname hl) (hcom hl) (hneigh hl ++ map fst ks) (hbr hl ++ map snd ks)) /\
    (forall c ec hc idx eic, In (c, ec) ks -> alookup c (hnodes h) = Some hc -> index_of r (hneigh hc) = Some idx ->
       alookup ec (hedges h) = Some (mkHE r c eic) ->
       alookup c (hnodes h') = Some (upd_neigh hc idx l) /\ alookup ec (hedges h') = Some (mkHE l c eic)) /\
    (forall x, x <> l -> ~ In x (map fst ks) -> alookup x (hnodes h') = alookup x (hnodes h)) /\
    (forall y, ~ In y (map snd ks) -> alookup y (hedges h') = alookup y (hedges h)) /\
    hroot h' = hroot h /\ hnextn h' = hnextn h /\ hnexte h' = hnexte h.
Proof.
  induction ks as [|[c ec] ks IH]; intros h hl Hl Hk Nc Ne Nl.
  { exists h. cbn [map contract_loop]. rewrite !app_nil_r. split; [reflexivity|]. split; [destruct hl; exact Hl|].
    split; [intros ? ? ? ? ? []|]. repeat split. }
  cbn [map fst snd] in *. apply NoDup_cons_iff in Nc. destruct Nc as [Nc1 Nc2]. apply NoDup_cons_iff in Ne. destruct Ne as [Ne1 Ne2].
  apply Forall_cons_iff in Hk. destruct Hk as [(hc & idx & eic & K1 & K2 & K3 & K4 & K5) Hk]. cbn [fst snd] in *.
  assert (Ncl : c <> l) by (intros E; apply Nl; left; exact E).
  cbn [contract_loop]. destruct (Nat.eqb_spec c l) as [E|_]; [contradiction|].
  unfold node_index, get_node. rewrite K1. cbn [hbind]. rewrite K2. cbn [hbind].
  unfold set_neigh_at, get_node. rewrite K1. cbn [hbind]. rewrite (proj2 (Nat.ltb_lt _ _) K3). cbn [hbind].
  unfold br_at, get_node. cbn [set_node hnodes]. rewrite alookup_aupd_eq. cbn [hbind hbr]. unfold nth_res. rewrite K4. cbn [hbind].
  unfold get_edge. cbn [set_node hedges]. rewrite K5. cbn [hbind hleft hright hinfo]. rewrite Nat.eqb_refl.
  unfold add_child, get_node. cbn [set_edge set_node hnodes]. rewrite alookup_aupd_ne by (intros E; apply Ncl; symmetry; exact E).
  rewrite Hl. cbn [hbind].
  match goal with |- exists h', contract_loop l r _ ?H1 = _ /\ _ => set (h1 := H1) end.
  assert (L1 : alookup l (hnodes h1) = Some (app_slot hl c ec)) by (unfold h1; cbn; apply alookup_aupd_eq).
  assert (N1 : forall x, x <> l -> x <> c -> alookup x (hnodes h1) = alookup x (hnodes h)).
  { intros x X1 X2. unfold h1. cbn. rewrite !alookup_aupd_ne by assumption. reflexivity. }
  assert (C1 : alookup c (hnodes h1) = Some (upd_neigh hc idx l)).
  { unfold h1. cbn. rewrite alookup_aupd_ne by exact Ncl. rewrite alookup_aupd_eq. reflexivity. }
  assert (E1 : forall y, y <> ec -> alookup y (hedges h1) = alookup y (hedges h)).
  { intros y Y. unfold h1. cbn. apply alookup_aupd_ne. exact Y. }
  assert (E1' : alookup ec (hedges h1) = Some (mkHE l c eic)) by (unfold h1; cbn; apply alookup_aupd_eq).
  destruct (IH h1 (app_slot hl c ec) L1) as [h' (I1 & I2 & I3 & I4 & I5 & I6 & I7 & I8)].
  - apply Forall_forall. intros [c' ec'] Hin. rewrite Forall_forall in Hk.
    destruct (Hk _ Hin) as (hc' & idx' & eic' & Q1 & Q2 & Q3 & Q4 & Q5). cbn [fst snd] in *.
    assert (c' <> c) by (intros ->; apply Nc1; apply in_map_iff; exists (c, ec'); split; [reflexivity|exact Hin]).
    assert (c' <> l) by (intros ->; apply Nl; right; apply in_map_iff; exists (l, ec'); split; [reflexivity|exact Hin]).
    assert (ec' <> ec) by (intros ->; apply Ne1; apply in_map_iff; exists (c', ec); split; [reflexivity|exact Hin]).
    exists hc', idx', eic'. cbn [fst snd]. rewrite N1, E1 by assumption. repeat split; assumption.
  - exact Nc2.
  - exact Ne2.
  - intros Hi. apply Nl. right. exact Hi.
  - exists h'. split; [exact I1|]. split; [rewrite I2; unfold app_slot; cbn [hname hcom hneigh hbr]; rewrite <- !app_assoc; reflexivity|].
    split; [|split; [|split; [|repeat split; assumption]]].
    + intros c' ec' hc' idx' eic' [[= <- <-]|Hin] X1 X2 X3.
      * rewrite K1 in X1. injection X1 as <-. rewrite K2 in X2. injection X2 as <-. rewrite K5 in X3. injection X3 as <-.
        rewrite I4, I5; [split; assumption| |exact Ncl|]; [exact Ne1|exact Nc1].
      * apply (I3 c' ec' hc' idx' eic' Hin).
        -- rewrite N1; [exact X1| |].
           ++ intros ->. apply Nl. right. apply in_map_iff. exists (l, ec'). split; [reflexivity|exact Hin].
           ++ intros ->. apply Nc1. apply in_map_iff. exists (c, ec'). split; [reflexivity|exact Hin].
        -- exact X2.
        -- rewrite E1; [exact X3|]. intros ->. apply Ne1. apply in_map_iff. exists (c', ec). split; [reflexivity|exact Hin].
    + intros x X1 X2. rewrite I4; [apply N1; [exact X1|]|exact X1|]; intros E; apply X2; [left; symmetry; exact E|right; exact E].
    + intros y Y. rewrite I5; [apply E1|]; intros E; apply Y; [left; symmetry; exact E|right; exact E].
Qed.

(** * changing only the data of an edge keeps [Good] *)
Lemma Good_set_info h e ed i' : Good h -> alookup e (hedges h) = Some ed ->
  Good (set_edge h e (mkHE (hleft ed) (hright ed) i')).
Proof.
  intros G He. set (h' := set_edge h e (mkHE (hleft ed) (hright ed) i')).
  assert (HS : forall n m y, has_slot h' n m y <-> has_slot h n m y) by (intros; reflexivity).
  assert (HE : forall y ed', alookup y (hedges h') = Some ed' ->
             exists ed0, alookup y (hedges h) = Some ed0 /\ hleft ed0 = hleft ed' /\ hright ed0 = hright ed').
  { intros y ed' H. unfold h' in H. cbn in H. rewrite alookup_aupd in H. destruct (Nat.eqb_spec y e) as [->|_].
    - injection H as <-. exists ed. repeat split. exact He.
    - exists ed'. repeat split. exact H. }
  assert (HN : forall y, alookup y (hedges h') <> None <-> alookup y (hedges h) <> None).
  { intros y. unfold h'. cbn. rewrite alookup_aupd. destruct (Nat.eqb_spec y e) as [->|_]; [|reflexivity].
    split; intros _; [congruence|discriminate]. }
  constructor.
  - exact (g_root _ G).
  - intros n m y Hs. destruct (g_slot_exists _ G n m y Hs) as [A B]. split; [exact A|apply HN; exact B].
  - exact (g_fresh_n _ G).
  - intros y Hy. apply (g_fresh_e _ G). apply HN. exact Hy.
  - exact (g_len _ G).
  - exact (g_sym _ G).
  - intros n m y ed' Hs Hy. destruct (HE y ed' Hy) as [ed0 (A & B & C)]. rewrite <- B, <- C. exact (g_ends _ G n m y ed0 Hs A).
  - intros y ed' Hy. destruct (HE y ed' Hy) as [ed0 (A & B & C)]. rewrite <- B, <- C. exact (g_edge_listed _ G y ed0 A).
  - exact (g_nodup _ G).
  - destruct (g_rank _ G) as [rank [R0 R1]]. exists rank. split; [exact R0|].
    intros y ed' Hy. destruct (HE y ed' Hy) as [ed0 (A & B & C)]. rewrite <- B, <- C. exact (R1 y ed0 A).
  - intros n m1 e1 ed1 m2 e2 ed2 S1 S2 Y1 Y2 R1 R2.
    destruct (HE e1 ed1 Y1) as [a1 (A1 & B1 & C1)]. destruct (HE e2 ed2 Y2) as [a2 (A2 & B2 & C2)].
    eapply (g_one_parent _ G n m1 e1 a1 m2 e2 a2); try eassumption; congruence.
  - intros n Hn. pose proof (g_reach _ G n Hn) as Hr. clear Hn. induction Hr as [|n m y ed0 _ IH Hs Hy Hl]; [exact (reach_root h')|].
    destruct (Nat.eq_dec y e) as [->|Ne].
    + rewrite He in Hy. injection Hy as <-. apply (reach_step h' n m e (mkHE (hleft ed) (hright ed) i')); [exact IH|exact Hs| |exact Hl].
      unfold h'. cbn. apply alookup_aupd_eq.
    + eapply (reach_step h' n m y ed0); [exact IH|exact Hs| |exact Hl]. unfold h'. cbn. rewrite alookup_aupd_ne by exact Ne. exact Hy.
Qed.

(** heads of slots are not strictly inside other slots *)
Lemma sids_head_inside sl e1 i1 ch1 e2 i2 ch2 : NoDup (sids sl) ->
  In (Some (e1, i1, ch1)) sl -> In (Some (e2, i2, ch2)) sl -> In (lid ch2) (lids ch1) -> lid ch2 = lid ch1.
Proof.
  intros Nd H1 H2 Hin. destruct (In_nth_error _ _ H1) as [j1 J1]. destruct (In_nth_error _ _ H2) as [j2 J2].
  assert (j1 = j2) by (eapply (NoDup_flat_map_nth _ _ _ _ _ _ (lid ch2) Nd J1 J2); cbn; [exact Hin|apply lid_in_lids]).
  subst j2. rewrite J1 in J2. injection J2 as _ _ ->. reflexivity.
Qed.

Lemma seids_head_inside sl e1 i1 ch1 e2 i2 ch2 : NoDup (seids sl) ->
  In (Some (e1, i1, ch1)) sl -> In (Some (e2, i2, ch2)) sl -> ~ In e2 (leids ch1).
Proof.
  intros Nd H1 H2 Hin. destruct (In_nth_error _ _ H1) as [j1 J1]. destruct (In_nth_error _ _ H2) as [j2 J2].
  assert (j1 = j2) by (eapply (NoDup_flat_map_nth _ _ _ _ _ _ e2 Nd J1 J2); cbn; [right; exact Hin|left; reflexivity]).
  subst j2. rewrite J1 in J2. injection J2 as -> _ _.
  pose proof (NoDup_flat_map_in _ _ _ Nd H1) as Hd. cbn in Hd. apply NoDup_cons_iff in Hd. exact (proj1 Hd Hin).
Qed.

(** * the heap after one contraction, by lookups *)
Record contract_desc (h h' : heap) (l r e : nat) (hl' : hnode) (ks : list (nat * nat)) : Prop := {
  cd_l : alookup l (hnodes h') = Some hl';
  cd_r : alookup r (hnodes h') = None;
  cd_kids : forall c ec hc idx eic, In (c, ec) ks -> alookup c (hnodes h) = Some hc ->
     index_of r (hneigh hc) = Some idx -> alookup ec (hedges h) = Some (mkHE r c eic) ->
     alookup c (hnodes h') = Some (upd_neigh hc idx l) /\ alookup ec (hedges h') = Some (mkHE l c eic);
  cd_nodes : forall x, x <> l -> x <> r -> ~ In x (map fst ks) -> alookup x (hnodes h') = alookup x (hnodes h);
  cd_e : alookup e (hedges h') = None;
  cd_edges : forall y, y <> e -> ~ In y (map snd ks) -> alookup y (hedges h') = alookup y (hedges h);
  cd_root : hroot h' = hroot h;
  cd_nextn : hnextn h' = hnextn h;
  cd_nexte : hnexte h' = hnexte h
}.

Lemma contract_eval h l r e hl hr j0 j1 ks :
  alookup l (hnodes h) = Some hl -> alookup r (hnodes h) = Some hr -> l <> r ->
  index_of r (hneigh hl) = Some j0 -> j0 < length (hbr hl) ->
  index_of l (hneigh hr) = Some j1 -> j1 < length (hbr hr) ->
  del_nth j1 (hneigh hr) = map fst ks ->
  Forall (kid_ok h r) ks -> NoDup (map fst ks) -> NoDup (map snd ks) ->
  ~ In l (map fst ks) -> ~ In r (map fst ks) -> ~ In e (map snd ks) ->
  exists h',
    (do h1 <- ignore_err h (del_neighbor l r h);
     do h2 <- ignore_err h1 (del_neighbor r l h1);
     do hr2 <- get_node h2 r;
     do h3 <- contract_loop l r (hneigh hr2) h2;
     do h4 <- unconnect_node r h3;
     HOk (mkHeap (hnodes h4) (arem e (hedges h4)) (hroot h4) (hnextn h4) (hnexte h4))) = HOk h' /\
    contract_desc h h' l r e
      (mkHN (hname hl) (hcom hl) (del_nth j0 (hneigh hl) ++ map fst ks) (del_nth j0 (hbr hl) ++ map snd ks)) ks.
Proof.
  intros Hl Hr Nlr I0 L0 I1 L1 Hks Hk Nc Ne Nl Nr Nee.
  destruct (del_neighbor_step h l r hl j0 Hl I0 L0) as [h1 (S1 & Nd1 & (Ed1 & Rt1 & Nn1 & Ne1))].
  rewrite S1. cbn [ignore_err hbind].
  assert (Hr1 : alookup r (hnodes h1) = Some hr).
  { rewrite Nd1. destruct (Nat.eqb_spec r l); [congruence|exact Hr]. }
  destruct (del_neighbor_step h1 r l hr j1 Hr1 I1 L1) as [h2 (S2 & Nd2 & (Ed2 & Rt2 & Nn2 & Ne2))].
  rewrite S2. cbn [ignore_err hbind].
  set (hl1 := mkHN (hname hl) (hcom hl) (del_nth j0 (hneigh hl)) (del_nth j0 (hbr hl))) in *.
  set (hr1 := mkHN (hname hr) (hcom hr) (del_nth j1 (hneigh hr)) (del_nth j1 (hbr hr))) in *.
  assert (Hr2 : alookup r (hnodes h2) = Some hr1) by (rewrite Nd2, Nat.eqb_refl; reflexivity).
  assert (Hl2 : alookup l (hnodes h2) = Some hl1).
  { rewrite Nd2. destruct (Nat.eqb_spec l r); [congruence|]. rewrite Nd1, Nat.eqb_refl. reflexivity. }
  assert (N2 : forall x, x <> l -> x <> r -> alookup x (hnodes h2) = alookup x (hnodes h)).
  { intros x X1 X2. rewrite Nd2. destruct (Nat.eqb_spec x r); [contradiction|]. rewrite Nd1. destruct (Nat.eqb_spec x l); [contradiction|reflexivity]. }
  assert (E2 : hedges h2 = hedges h) by congruence.
  unfold get_node. rewrite Hr2. cbn [hbind hr1 hneigh]. rewrite Hks.
  destruct (contract_loop_ok l r ks h2 hl1 Hl2) as [h3 (I1' & I2 & I3 & I4 & I5 & I6 & I7 & I8)].
  - apply Forall_forall. intros [c ec] Hin. rewrite Forall_forall in Hk.
    destruct (Hk _ Hin) as (hc & idx & eic & Q1 & Q2 & Q3 & Q4 & Q5). cbn [fst snd] in *.
    assert (c <> l) by (intros ->; apply Nl; apply in_map_iff; exists (l, ec); split; [reflexivity|exact Hin]).
    assert (c <> r) by (intros ->; apply Nr; apply in_map_iff; exists (r, ec); split; [reflexivity|exact Hin]).
    exists hc, idx, eic. cbn [fst snd]. rewrite N2, E2 by assumption. repeat split; assumption.
  - exact Nc.
  - exact Ne.
  - exact Nl.
  - rewrite I1'. cbn [hbind]. unfold unconnect_node, get_node.
    rewrite (I4 r) by (try exact Nr; intros E; apply Nlr; symmetry; exact E). rewrite Hr2. cbn [hbind].
    eexists. split; [reflexivity|]. constructor; cbn [hnodes hedges hroot hnextn hnexte].
    + rewrite alookup_arem. destruct (Nat.eqb_spec l r); [congruence|]. rewrite I2. reflexivity.
    + rewrite alookup_arem, Nat.eqb_refl. reflexivity.
    + intros c ec hc idx eic Hin X1 X2 X3.
      assert (c <> l) by (intros ->; apply Nl; apply in_map_iff; exists (l, ec); split; [reflexivity|exact Hin]).
      assert (c <> r) by (intros ->; apply Nr; apply in_map_iff; exists (r, ec); split; [reflexivity|exact Hin]).
      assert (ec <> e) by (intros ->; apply Nee; apply in_map_iff; exists (c, e); split; [reflexivity|exact Hin]).
      destruct (I3 c ec hc idx eic Hin) as [Y1 Y2]; [rewrite N2 by assumption; exact X1|exact X2|rewrite E2; exact X3|].
      rewrite !alookup_arem. destruct (Nat.eqb_spec c r); [contradiction|]. destruct (Nat.eqb_spec ec e); [contradiction|]. split; assumption.
    + intros x X1 X2 X3. rewrite alookup_arem. destruct (Nat.eqb_spec x r); [contradiction|]. rewrite I4 by assumption. apply N2; assumption.
    + rewrite alookup_arem, Nat.eqb_refl. reflexivity.
    + intros y Y1 Y2. rewrite alookup_arem. destruct (Nat.eqb_spec y e); [contradiction|]. rewrite I5 by exact Y2. rewrite E2. reflexivity.
    + congruence.
    + congruence.
    + congruence.
Qed.

Lemma combine_fst_snd {A B} (l : list (A * B)) : combine (map fst l) (map snd l) = l.
Proof. induction l as [|[a b] l IH]; [reflexivity|]. cbn. f_equal. exact IH. Qed.

Lemma del_nth_app_mid {A} (l1 : list A) a l2 : del_nth (length l1) (l1 ++ a :: l2) = l1 ++ l2.
Proof. induction l1 as [|b l1 IH]; [reflexivity|]. cbn [length app]. rewrite del_nth_S, IH. reflexivity. Qed.

Lemma lnup_zero_all_some sl : lnup sl = 0 -> forall s, In s sl -> s <> None.
Proof. intros H s Hs ->. exact (lnup_zero_notin _ H Hs). Qed.

Lemma lnup_cons_none sl : lnup (None :: sl) = S (lnup sl).
Proof. reflexivity. Qed.

Lemma index_of_NoDup x l j : NoDup l -> nth_error l j = Some x -> index_of x l = Some j.
Proof.
  intros Nd Hj. apply index_of_unique; [exact Hj|]. intros j' Hj'.
  apply (proj1 (NoDup_nth_error l) Nd); [apply nth_error_Some; congruence|congruence].
Qed.

Lemma Forall2_impl_in {A B} (P Q : A -> B -> Prop) l l' :
  Forall2 P l l' -> (forall a b, In a l -> In b l' -> P a b -> Q a b) -> Forall2 Q l l'.
Proof.
  induction 1 as [|a b l l' Hab _ IH]; intros HPQ; constructor.
  - apply HPQ; [left; reflexivity|left; reflexivity|exact Hab].
  - apply IH. intros a0 b0 Ha Hb. apply HPQ; right; assumption.
Qed.

Section Contract.
  Variables (h h' : heap) (lt : ltree).
  Hypothesis R : Rep h lt.
  Variables (p : option (nat * nat)) (l : nat) (nm : string) (cm : list string) (l1 l2 : list lslot).
  Variables (e : nat) (ei : einfo) (r : nat) (nmr : string) (cmr : list string) (s1 s2 : list lslot).
  Let ch := LNode r nmr cmr (s1 ++ None :: s2).
  Let sl := l1 ++ Some (e, ei, ch) :: l2.
  Let sub := LNode l nm cm sl.
  Hypothesis Hsub : In (p, sub) (lsubs None lt).
  Variables (hl hr : hnode).
  Hypothesis Hl : alookup l (hnodes h) = Some hl.
  Hypothesis Hr : alookup r (hnodes h) = Some hr.
  Let ks := del_nth (length s1) (slots_of hr).
  Let hl' := mkHN (hname hl) (hcom hl) (del_nth (length l1) (hneigh hl) ++ map fst ks) (del_nth (length l1) (hbr hl) ++ map snd ks).
  Hypothesis D : contract_desc h h' l r e hl' ks.
  Let new := LNode l nm cm ((l1 ++ l2) ++ (s1 ++ s2)).

  Let Bn := sids (s1 ++ None :: s2).
  Let Be := seids (s1 ++ None :: s2).

  Lemma CT_sub_shape : shape true h p sub.
  Proof. exact (shape_lsubs _ _ _ _ _ _ (rep_shape _ _ R) Hsub). Qed.

  Lemma CT_Hsubr : In (Some (l, e), ch) (lsubs None lt).
  Proof. eapply lsubs_trans; [exact Hsub|]. unfold sub, sl. eapply lsubs_child. apply in_or_app. right. left. reflexivity. Qed.

  Lemma CT_wf_ch : lnup s1 = 0 /\ lnup s2 = 0 /\ forall e' ei' ch', In (Some (e', ei', ch')) (s1 ++ s2) -> lwf_sub ch'.
  Proof.
    destruct (lwf_sub_lsubs lt None _ _ (or_introl (rep_wf _ _ R)) CT_Hsubr) as [E|W]; [discriminate|].
    unfold ch in W. apply lwf_sub_iff in W. destruct W as [W1 W2]. rewrite lnup_app, lnup_cons_none in W1.
    split; [lia|]. split; [lia|]. intros e' ei' ch' Hin. apply (W2 e' ei' ch'). apply in_app_or in Hin.
    apply in_or_app. destruct Hin; [left|right; right]; assumption.
  Qed.

  (** the decomposition of the two records *)
  Lemma CT_slots : exists c1 c2 d1 d2,
    slots_of hl = c1 ++ (r, e) :: c2 /\ length c1 = length l1 /\
    Forall2 (slot_ok true h p l) c1 l1 /\ Forall2 (slot_ok true h p l) c2 l2 /\
    slots_of hr = d1 ++ (l, e) :: d2 /\ length d1 = length s1 /\
    Forall2 (slot_ok true h (Some (l, e)) r) d1 s1 /\ Forall2 (slot_ok true h (Some (l, e)) r) d2 s2 /\
    length (hneigh hl) = length (hbr hl) /\ length (hneigh hr) = length (hbr hr) /\
    hname hl = nm /\ hcom hl = cm /\
    alookup e (hedges h) = Some (mkHE l r ei) /\ p <> Some (r, e).
  Proof.
    pose proof CT_sub_shape as Sh. unfold sub in Sh. apply shape_unfold in Sh. destruct Sh as [hl0 (A1 & A2 & A3 & A4 & A5)].
    rewrite Hl in A1. injection A1 as <-.
    unfold sl in A5. apply Forall2_app_inv_r in A5. destruct A5 as (c1 & c2' & F1 & F2 & Ec).
    apply Forall2_cons_inv_r in F2. destruct F2 as (ce & c2 & Ec2 & Ok0 & F2'). rewrite Ec2 in Ec. clear Ec2 c2'.
    destruct ce as [r0 e0]. cbn [slot_ok fst snd] in Ok0. destruct Ok0 as (P0 & Ee & Er & [ed (E1 & E2 & E3 & E4)] & Shc).
    subst e0. unfold ch in Er. cbn [lid] in Er. subst r0.
    unfold ch in Shc. apply shape_unfold in Shc. destruct Shc as [hr0 (B1 & B2 & B3 & B4 & B5)].
    rewrite Hr in B1. injection B1 as <-.
    apply Forall2_app_inv_r in B5. destruct B5 as (d1 & d2' & G1 & G2 & Ed).
    apply Forall2_cons_inv_r in G2. destruct G2 as (de & d2 & Ed2 & Ok1 & G2'). rewrite Ed2 in Ed. clear Ed2 d2'.
    cbn [slot_ok] in Ok1. injection Ok1 as <-.
    exists c1, c2, d1, d2. destruct ed as [el er eii]. cbn [hleft hright hinfo] in *. subst.
    repeat split; try assumption; try reflexivity; try (eapply Forall2_length'; eassumption).
  Qed.

  Lemma CT_disj : l <> r /\
    (forall y, In y (sids l1) \/ In y (sids l2) -> In y (lids sub) /\ y <> l /\ y <> r /\ ~ In y Bn) /\
    (forall y, In y Bn -> In y (lids sub) /\ y <> l /\ y <> r) /\
    (forall y, In y (seids l1) \/ In y (seids l2) -> In y (leids sub) /\ y <> e /\ ~ In y Be) /\
    (forall y, In y Be -> In y (leids sub) /\ y <> e) /\ NoDup Bn /\ NoDup Be.
  Proof.
    destruct (GF_sub_nd h lt R p l nm cm l1 l2 e ei r nmr cmr s1 s2 Hsub) as [Nd Ned].
    pose proof (GF_lids_sub l nm cm l1 l2 e ei r nmr cmr s1 s2) as E1. pose proof (GF_leids_sub l nm cm l1 l2 e ei r nmr cmr s1 s2) as E2.
    fold ch sl sub in E1, E2, Nd, Ned. fold Bn in E1. fold Be in E2. rewrite E1 in Nd. rewrite E2 in Ned.
    apply NoDup_cons_iff in Nd. destruct Nd as [A1 A2]. apply NoDup_app_iff in A2. destruct A2 as (B1 & B2 & B3).
    apply NoDup_app_iff in B2. destruct B2 as (C1 & C2 & C3). apply NoDup_cons_iff in C1. destruct C1 as [D1 D2].
    apply NoDup_app_iff in Ned. destruct Ned as (X1 & X2 & X3). apply NoDup_cons_iff in X2. destruct X2 as [Y1 Y2].
    apply NoDup_app_iff in Y2. destruct Y2 as (Z1 & Z2 & Z3).
    split; [intros E0; apply A1; rewrite E0; apply in_or_app; right; left; reflexivity|].
    split; [|split; [|split; [|split; [|split; assumption]]]].
    - intros y Hy. split; [rewrite E1; right; rewrite !in_app_iff; cbn [In]; tauto|]. repeat split.
      + intros ->. apply A1. rewrite !in_app_iff. tauto.
      + intros ->. destruct Hy as [Hy|Hy]; [apply (B3 r Hy); apply in_or_app; left; left; reflexivity|apply (C3 r); [left; reflexivity|exact Hy]].
      + intros Hb. destruct Hy as [Hy|Hy]; [apply (B3 y Hy); apply in_or_app; left; right; exact Hb|apply (C3 y); [right; exact Hb|exact Hy]].
    - intros y Hy. split; [rewrite E1; right; rewrite !in_app_iff; cbn [In]; tauto|]. split; intros ->.
      + apply A1. rewrite !in_app_iff. cbn [In]. tauto.
      + exact (D1 Hy).
    - intros y Hy. split; [rewrite E2; rewrite !in_app_iff; cbn [In]; rewrite in_app_iff; tauto|]. split.
      + intros ->. destruct Hy as [Hy|Hy]; [apply (X3 e Hy); left; reflexivity|apply Y1; apply in_or_app; right; exact Hy].
      + intros Hb. destruct Hy as [Hy|Hy]; [apply (X3 y Hy); right; apply in_or_app; left; exact Hb|exact (Z3 y Hb Hy)].
    - intros y Hy. split; [rewrite E2; rewrite !in_app_iff; cbn [In]; rewrite in_app_iff; tauto|].
      intros ->. apply Y1. apply in_or_app. left. exact Hy.
  Qed.

  Lemma CT_in_s12 s : In s (s1 ++ s2) -> In s (s1 ++ None :: s2).
  Proof. intros H. apply in_app_or in H. apply in_or_app. destruct H; [left|right; right]; assumption. Qed.

  (** every entry of [ks] is a child slot of r *)
  Lemma CT_kid c ec : In (c, ec) ks ->
    exists eic chc, In (Some (ec, eic, chc)) (s1 ++ s2) /\ lid chc = c /\
      alookup ec (hedges h) = Some (mkHE r c eic) /\ shape true h (Some (r, ec)) chc.
  Proof.
    destruct CT_slots as (c1 & c2 & d1 & d2 & _ & _ & _ & _ & Ed & Ld & G1 & G2 & _).
    destruct CT_wf_ch as (Z1 & Z2 & _).
    unfold ks. rewrite Ed, <- Ld, del_nth_app_mid. intros Hin. apply in_app_or in Hin.
    assert (Hcase : exists s, In s (s1 ++ s2) /\ slot_ok true h (Some (l, e)) r (c, ec) s).
    { destruct Hin as [Hin|Hin].
      - destruct (Forall2_in_l _ _ _ _ G1 Hin) as [s [Hs Hok]]. exists s. split; [apply in_or_app; left; exact Hs|exact Hok].
      - destruct (Forall2_in_l _ _ _ _ G2 Hin) as [s [Hs Hok]]. exists s. split; [apply in_or_app; right; exact Hs|exact Hok]. }
    destruct Hcase as [s [Hs Hok]]. destruct s as [[[e' ei'] ch']|].
    - cbn [slot_ok fst snd] in Hok. destruct Hok as (_ & -> & B3 & [ed (B4 & B5 & B6 & B7)] & B8).
      exists ei', ch'. repeat split; try assumption. destruct ed as [a b c0]. cbn in *. subst. exact B4.
    - exfalso. apply in_app_or in Hs. destruct Hs as [Hs|Hs]; [exact (lnup_zero_notin _ Z1 Hs)|exact (lnup_zero_notin _ Z2 Hs)].
  Qed.

  Lemma CT_kid_in c ec : In (c, ec) ks -> In c Bn /\ In ec Be.
  Proof.
    intros Hin. destruct (CT_kid c ec Hin) as (eic & chc & H1 & H2 & _). apply CT_in_s12 in H1. split.
    - unfold Bn. eapply in_sids; [exact H1|]. rewrite <- H2. apply lid_in_lids.
    - unfold Be. eapply in_seids_here. exact H1.
  Qed.

  (** what the loop needs to know about each child of r *)
  Lemma CT_kid_ok c ec : In (c, ec) ks -> kid_ok h r (c, ec).
  Proof.
    intros Hks. destruct (CT_kid c ec Hks) as (eic & chc & Hin & Hlid & Hedge & Shc).
    destruct chc as [c0 nmc cmc slc]. cbn [lid] in Hlid. subst c0.
    destruct CT_wf_ch as (_ & _ & Wk). pose proof (Wk _ _ _ Hin) as Wc. apply lwf_sub_iff in Wc. destruct Wc as [Wc1 _].
    destruct (lnup_split slc) as [t1 [t2 Et]]; [lia|]. subst slc.
    apply shape_unfold in Shc. destruct Shc as [hc (C1 & C2 & C3 & C4 & C5)].
    apply Forall2_app_inv_r in C5. destruct C5 as (q1 & q2' & H1 & H2 & Eq).
    apply Forall2_cons_inv_r in H2. destruct H2 as (qe & q2 & Eq2 & Okn & H2'). rewrite Eq2 in Eq. clear Eq2 q2'.
    cbn [slot_ok] in Okn. injection Okn as <-. pose proof (Forall2_length' _ _ _ H1) as Lq1.
    assert (Hnr : nth_error (hneigh hc) (length t1) = Some r).
    { rewrite <- (slots_of_fst hc C4). unfold slots_of. rewrite Eq, nth_error_map, <- Lq1, nth_error_app_mid. reflexivity. }
    assert (Hbr : nth_error (hbr hc) (length t1) = Some ec).
    { rewrite <- (slots_of_snd hc C4). unfold slots_of. rewrite Eq, nth_error_map, <- Lq1, nth_error_app_mid. reflexivity. }
    exists hc, (length t1), eic. cbn [fst snd]. split; [exact C1|]. split.
    - apply index_of_NoDup; [|exact Hnr]. exact (g_nodup _ (Rep_Good h lt R) c hc C1).
    - split; [apply nth_error_Some; congruence|]. split; [exact Hbr|exact Hedge].
  Qed.

  (** subtrees away from l, r and the children of r are unchanged *)
  Lemma CT_untouched X q : shape true h q X ->
    (forall y, In y (lids X) -> y <> l /\ y <> r /\ ~ In y (map fst ks)) ->
    (forall y, In y (leids X) -> y <> e /\ ~ In y (map snd ks)) -> shape true h' q X.
  Proof.
    intros Sh Hn He. eapply shape_frame; [| |exact Sh].
    - intros y Hy. destruct (Hn y Hy) as (A & B & C). apply (cd_nodes _ _ _ _ _ _ _ D); assumption.
    - intros y Hy. destruct (He y Hy) as (A & B). apply (cd_edges _ _ _ _ _ _ _ D); assumption.
  Qed.

  Lemma CT_kid_fst y : In y (map fst ks) -> exists ec, In (y, ec) ks.
  Proof. intros H. apply in_map_iff in H. destruct H as [[c ec] [<- Hin]]. exists ec. exact Hin. Qed.
  Lemma CT_kid_snd y : In y (map snd ks) -> exists c, In (c, y) ks.
  Proof. intros H. apply in_map_iff in H. destruct H as [[c ec] [<- Hin]]. exists c. exact Hin. Qed.

  (** siblings of r *)
  Lemma CT_sibling_slot ce e' ei' ch' : In (Some (e', ei', ch')) (l1 ++ l2) ->
    slot_ok true h p l ce (Some (e', ei', ch')) -> slot_ok true h' p l ce (Some (e', ei', ch')).
  Proof.
    intros Hin Hok. destruct CT_disj as (_ & Dn & _ & De & _).
    assert (Hn : forall y, In y (lids ch') -> In y (sids l1) \/ In y (sids l2)).
    { intros y Hy. apply in_app_or in Hin. destruct Hin as [Hin|Hin]; [left|right]; eapply in_sids; eassumption. }
    assert (He : forall y, In y (e' :: leids ch') -> In y (seids l1) \/ In y (seids l2)).
    { intros y Hy. apply in_app_or in Hin. destruct Hin as [Hin|Hin]; [left|right];
        (destruct Hy as [<-|Hy]; [eapply in_seids_here|eapply in_seids]; eassumption). }
    cbn [slot_ok] in *. destruct Hok as (B1 & B2 & B3 & B4 & B5). repeat split; try assumption.
    - eapply edge_ok_eq; [|exact B4]. rewrite <- B2. destruct (De e' (He e' (or_introl eq_refl))) as (_ & X & Y).
      apply (cd_edges _ _ _ _ _ _ _ D); [exact X|]. intros Hk. apply CT_kid_snd in Hk. destruct Hk as [c Hk]. apply CT_kid_in in Hk. tauto.
    - apply CT_untouched; [exact B5| |].
      + intros y Hy. destruct (Dn y (Hn y Hy)) as (_ & X & Y & Z). repeat split; try assumption.
        intros Hk. apply CT_kid_fst in Hk. destruct Hk as [ec Hk]. apply CT_kid_in in Hk. tauto.
      + intros y Hy. destruct (De y (He y (or_intror Hy))) as (_ & X & Y). split; [exact X|].
        intros Hk. apply CT_kid_snd in Hk. destruct Hk as [c Hk]. apply CT_kid_in in Hk. tauto.
  Qed.

  (** the children of r, re-attached to l *)
  Lemma CT_kid_slot ce ec eic chc : In (Some (ec, eic, chc)) (s1 ++ s2) -> In ce ks ->
    slot_ok true h (Some (l, e)) r ce (Some (ec, eic, chc)) -> slot_ok true h' p l ce (Some (ec, eic, chc)).
  Proof.
    intros Hin Hks Hok. destruct ce as [c ec']. cbn [slot_ok fst snd] in Hok.
    destruct Hok as (_ & E2 & E3 & [ed (E4 & E5 & E6 & E7)] & Shc). subst ec'.
    destruct chc as [c0 nmc cmc slc]. cbn [lid] in E3. subst c0.
    destruct ed as [a b i0]. cbn [hleft hright hinfo] in E5, E6, E7. subst a b i0.
    destruct CT_disj as (Nlr & Dn & Db & De & Dbe & NdB & NdBe).
    destruct CT_wf_ch as (_ & _ & Wk). pose proof (Wk _ _ _ Hin) as Wc. apply lwf_sub_iff in Wc. destruct Wc as [Wc1 Wc2].
    destruct (lnup_split slc) as [t1 [t2 Et]]; [lia|]. subst slc.
    rewrite lnup_app, lnup_cons_none in Wc1. assert (Zt1 : lnup t1 = 0) by lia. assert (Zt2 : lnup t2 = 0) by lia.
    pose proof Shc as Shc0. apply shape_unfold in Shc. destruct Shc as [hc (C1 & C2 & C3 & C4 & C5)].
    apply Forall2_app_inv_r in C5. destruct C5 as (q1 & q2' & H1 & H2 & Eq).
    apply Forall2_cons_inv_r in H2. destruct H2 as (qe & q2 & Eq2 & Okn & H2'). rewrite Eq2 in Eq. clear Eq2 q2'.
    cbn [slot_ok] in Okn. injection Okn as <-. pose proof (Forall2_length' _ _ _ H1) as Lq1.
    assert (Hnr : nth_error (hneigh hc) (length t1) = Some r).
    { rewrite <- (slots_of_fst hc C4). unfold slots_of. rewrite Eq, nth_error_map, <- Lq1, nth_error_app_mid. reflexivity. }
    assert (Hbr : nth_error (hbr hc) (length t1) = Some ec).
    { rewrite <- (slots_of_snd hc C4). unfold slots_of. rewrite Eq, nth_error_map, <- Lq1, nth_error_app_mid. reflexivity. }
    assert (Idx : index_of r (hneigh hc) = Some (length t1)).
    { apply index_of_NoDup; [|exact Hnr]. exact (g_nodup _ (Rep_Good h lt R) c hc C1). }
    destruct (cd_kids _ _ _ _ _ _ _ D c ec hc (length t1) eic Hks C1 Idx E4) as [K1 K2].
    pose proof (CT_in_s12 _ Hin) as Hin'.
    assert (Hsubc : forall y, In y (lids (LNode c nmc cmc (t1 ++ None :: t2))) -> In y Bn) by (intros y Hy; eapply in_sids; eassumption).
    assert (Hsube : forall y, In y (leids (LNode c nmc cmc (t1 ++ None :: t2))) -> In y Be) by (intros y Hy; eapply in_seids; eassumption).
    assert (Ndc : NoDup (lids (LNode c nmc cmc (t1 ++ None :: t2)))) by exact (NoDup_flat_map_in _ _ _ NdB Hin').
    (* grandchildren are untouched *)
    assert (Gr : forall ce' e2 ei2 X, In (Some (e2, ei2, X)) (t1 ++ None :: t2) ->
               slot_ok true h (Some (r, ec)) c ce' (Some (e2, ei2, X)) -> slot_ok true h' (Some (l, ec)) c ce' (Some (e2, ei2, X))).
    { intros ce' e2 ei2 X HinX Hok. cbn [slot_ok] in *. destruct Hok as (_ & B2 & B3 & B4 & B5).
      assert (HXn : forall y, In y (lids X) -> In y (lids (LNode c nmc cmc (t1 ++ None :: t2)))) by (intros y Hy; eapply in_lids_child; eassumption).
      assert (HXe : forall y, In y (e2 :: leids X) -> In y (leids (LNode c nmc cmc (t1 ++ None :: t2)))).
      { intros y [<-|Hy]; [eapply in_leids_here|eapply in_leids_child]; eassumption. }
      assert (NotKidN : forall y, In y (lids X) -> ~ In y (map fst ks)).
      { intros y Hy Hk. apply CT_kid_fst in Hk. destruct Hk as [ec2 Hk]. destruct (CT_kid y ec2 Hk) as (ei3 & ch3 & G1 & G2 & _).
        apply CT_in_s12 in G1.
        assert (lid ch3 = c).
        { apply (sids_head_inside _ _ _ _ _ _ _ NdB Hin' G1). rewrite G2. apply HXn. exact Hy. }
        eapply (lids_head_notin _ _ _ _ Ndc); [exact HinX|]. rewrite <- H, G2. exact Hy. }
      assert (NotKidE : forall y, In y (e2 :: leids X) -> ~ In y (map snd ks)).
      { intros y Hy Hk. apply CT_kid_snd in Hk. destruct Hk as [c2 Hk]. destruct (CT_kid c2 y Hk) as (ei3 & ch3 & G1 & _).
        apply CT_in_s12 in G1. eapply (seids_head_inside _ _ _ _ _ _ _ NdBe Hin' G1). apply HXe. exact Hy. }
      split.
      { intros E0. injection E0 as E0. destruct (Db (fst ce')) as (_ & Y & _); [apply Hsubc, HXn; rewrite <- B3; apply lid_in_lids|]. apply Y. rewrite <- E0. reflexivity. }
      split; [exact B2|]. split; [exact B3|]. split.
      - eapply edge_ok_eq; [|exact B4]. rewrite <- B2. apply (cd_edges _ _ _ _ _ _ _ D).
        + apply (Dbe e2). apply Hsube, HXe. left. reflexivity.
        + apply NotKidE. left. reflexivity.
      - apply CT_untouched; [exact B5| |].
        + intros y Hy. destruct (Db y (Hsubc y (HXn y Hy))) as (_ & Y1 & Y2). repeat split; try assumption. apply NotKidN. exact Hy.
        + intros y Hy. split; [apply (Dbe y); apply Hsube, HXe; right; exact Hy|apply NotKidE; right; exact Hy]. }
    cbn [slot_ok fst snd lid]. split.
    { destruct p as [[pp pe]|]; [|discriminate]. intros [= X1 X2]. subst pp.
      destruct (Rep_parent h lt R c pe sub Hsub) as (hm & ed0 & P1 & P2 & P3 & P4 & P5 & P6). apply P6.
      apply (Db c). apply Hsubc. left. reflexivity. }
    split; [reflexivity|]. split; [reflexivity|]. split; [eexists; split; [exact K2|]; repeat split|].
    apply shape_unfold. eexists. split; [exact K1|]. unfold upd_neigh. cbn [hname hcom hneigh hbr].
    split; [exact C2|]. split; [exact C3|]. split; [unfold put_nth; rewrite length_set_nth; exact C4|].
    unfold put_nth. rewrite (combine_set_nth_l _ _ ec) by exact Hbr. rewrite Eq, <- Lq1, set_nth_app.
    apply Forall2_app; [|constructor; [reflexivity|]].
    - eapply Forall2_impl_r; [exact H1|]. intros ce' s Hs Hok. destruct s as [[[e2 ei2] X]|]; [|exfalso; exact (lnup_zero_notin _ Zt1 Hs)].
      apply Gr; [apply in_or_app; left; exact Hs|exact Hok].
    - eapply Forall2_impl_r; [exact H2'|]. intros ce' s Hs Hok. destruct s as [[[e2 ei2] X]|]; [|exfalso; exact (lnup_zero_notin _ Zt2 Hs)].
      apply Gr; [apply in_or_app; right; right; exact Hs|exact Hok].
  Qed.

  Lemma CT_shape_new : shape true h' p new.
  Proof.
    destruct CT_slots as (c1 & c2 & d1 & d2 & Ec & Lc & F1 & F2 & Ed & Ld & G1 & G2 & A4 & B4 & A2 & A3 & Ee & Pne).
    destruct CT_wf_ch as (Z1 & Z2 & _).
    assert (Eks : ks = d1 ++ d2) by (unfold ks; rewrite Ed, <- Ld; apply del_nth_app_mid).
    unfold new. apply shape_unfold. eexists. split; [exact (cd_l _ _ _ _ _ _ _ D)|]. unfold hl'. cbn [hname hcom hneigh hbr].
    split; [exact A2|]. split; [exact A3|].
    assert (Ldel : length (del_nth (length l1) (hneigh hl)) = length (del_nth (length l1) (hbr hl))).
    { assert (length l1 < length (hneigh hl)).
      { rewrite <- (slots_of_fst hl A4), map_length. unfold slots_of in *. rewrite Ec, app_length. cbn. lia. }
      pose proof (del_nth_length (length l1) (hneigh hl) H). pose proof (del_nth_length (length l1) (hbr hl) ltac:(lia)). lia. }
    split; [rewrite !app_length, !map_length; lia|].
    rewrite combine_app_eq by exact Ldel. rewrite combine_del_nth, combine_fst_snd.
    change (combine (hneigh hl) (hbr hl)) with (slots_of hl). rewrite Ec, <- Lc, del_nth_app_mid, Eks.
    apply Forall2_app; apply Forall2_app.
    - eapply Forall2_impl_r; [exact F1|]. intros ce s Hs Hok. destruct s as [[[e2 ei2] X]|]; [|exact Hok].
      apply CT_sibling_slot; [apply in_or_app; left; exact Hs|exact Hok].
    - eapply Forall2_impl_r; [exact F2|]. intros ce s Hs Hok. destruct s as [[[e2 ei2] X]|]; [|exact Hok].
      apply CT_sibling_slot; [apply in_or_app; right; exact Hs|exact Hok].
    - eapply Forall2_impl_in; [exact G1|]. intros ce s Hc Hs Hok.
      destruct s as [[[e2 ei2] X]|]; [|exfalso; exact (lnup_zero_notin _ Z1 Hs)].
      apply CT_kid_slot; [apply in_or_app; left; exact Hs|rewrite Eks; apply in_or_app; left; exact Hc|exact Hok].
    - eapply Forall2_impl_in; [exact G2|]. intros ce s Hc Hs Hok.
      destruct s as [[[e2 ei2] X]|]; [|exfalso; exact (lnup_zero_notin _ Z2 Hs)].
      apply CT_kid_slot; [apply in_or_app; right; exact Hs|rewrite Eks; apply in_or_app; right; exact Hc|exact Hok].
  Qed.

  Lemma CT_ks_slots : exists d1 d2, ks = d1 ++ d2 /\ Forall2 (slot_ok true h (Some (l, e)) r) (d1 ++ d2) (s1 ++ s2).
  Proof.
    destruct CT_slots as (c1 & c2 & d1 & d2 & _ & _ & _ & _ & Ed & Ld & G1 & G2 & _).
    exists d1, d2. split; [unfold ks; rewrite Ed, <- Ld; apply del_nth_app_mid|]. apply Forall2_app; assumption.
  Qed.

  Lemma CT_B_eq : Bn = sids (s1 ++ s2) /\ Be = seids (s1 ++ s2).
  Proof. unfold Bn, Be. rewrite !sids_app, !seids_app. split; reflexivity. Qed.

  Lemma CT_ks_nodup : NoDup (map fst ks) /\ NoDup (map snd ks).
  Proof.
    destruct CT_ks_slots as (d1 & d2 & Eks & F). destruct CT_disj as (_ & _ & _ & _ & _ & NdB & NdBe).
    destruct CT_B_eq as [E1 E2]. rewrite E1 in NdB. rewrite E2 in NdBe.
    destruct CT_wf_ch as (Z1 & Z2 & _).
    assert (Zs : lnup (s1 ++ s2) = 0) by (rewrite lnup_app; lia).
    rewrite Eks. split; apply NoDup_map_nth; intros j1 j2 [c1 e1] [c2 e2] J1 J2 E; cbn in E; subst.
    - destruct (Forall2_nth _ _ _ _ _ F J1) as [t1 [T1 O1]]. destruct (Forall2_nth _ _ _ _ _ F J2) as [t2 [T2 O2]].
      destruct t1 as [[[a1 b1] x1]|]; [|exfalso; exact (lnup_zero_notin _ Zs (nth_error_In _ _ T1))].
      destruct t2 as [[[a2 b2] x2]|]; [|exfalso; exact (lnup_zero_notin _ Zs (nth_error_In _ _ T2))].
      cbn [slot_ok fst snd] in O1, O2. destruct O1 as (_ & _ & L1 & _). destruct O2 as (_ & _ & L2 & _).
      eapply (NoDup_flat_map_nth _ _ _ _ _ _ c2 NdB T1 T2); cbn; [rewrite <- L1|rewrite <- L2]; apply lid_in_lids.
    - destruct (Forall2_nth _ _ _ _ _ F J1) as [t1 [T1 O1]]. destruct (Forall2_nth _ _ _ _ _ F J2) as [t2 [T2 O2]].
      destruct t1 as [[[a1 b1] x1]|]; [|exfalso; exact (lnup_zero_notin _ Zs (nth_error_In _ _ T1))].
      destruct t2 as [[[a2 b2] x2]|]; [|exfalso; exact (lnup_zero_notin _ Zs (nth_error_In _ _ T2))].
      cbn [slot_ok fst snd] in O1, O2. destruct O1 as (_ & -> & _). destruct O2 as (_ & -> & _).
      eapply (NoDup_flat_map_nth _ _ _ _ _ _ e2 NdBe T1 T2); cbn; left; reflexivity.
  Qed.

  Lemma CT_lids_new : Permutation (r :: lids new) (lids sub) /\ Permutation (e :: leids new) (leids sub).
  Proof.
    pose proof (GF_lids_sub l nm cm l1 l2 e ei r nmr cmr s1 s2) as E1. pose proof (GF_leids_sub l nm cm l1 l2 e ei r nmr cmr s1 s2) as E2.
    fold ch sl sub in E1, E2. rewrite E1, E2. unfold new. rewrite lids_eq, leids_eq.
    fold (sids ((l1 ++ l2) ++ s1 ++ s2)) (seids ((l1 ++ l2) ++ s1 ++ s2)). rewrite !sids_app, !seids_app. cbn [sids seids flat_map app].
    fold (sids s2) (seids s2). split.
    - rewrite perm_swap. apply perm_skip. rewrite <- !app_assoc. rewrite Permutation_middle. apply Permutation_app_head.
      cbn [app]. rewrite (Permutation_app_comm (sids l2)). rewrite <- app_assoc. reflexivity.
    - rewrite <- !app_assoc. rewrite Permutation_middle. apply Permutation_app_head.
      rewrite (Permutation_app_comm (seids l2)). cbn [app]. rewrite <- app_assoc. reflexivity.
  Qed.

  Theorem CT_Rep : Rep h' (lreplace l new lt).
  Proof.
    destruct CT_lids_new as [PN PE]. destruct (GF_sub_nd h lt R p l nm cm l1 l2 e ei r nmr cmr s1 s2 Hsub) as [NdS NedS].
    fold ch sl sub in NdS, NedS.
    pose proof (Permutation_NoDup (Permutation_sym PN) NdS) as NdN. apply NoDup_cons_iff in NdN. destruct NdN as [Rn NdN].
    pose proof (Permutation_NoDup (Permutation_sym PE) NedS) as NdE. apply NoDup_cons_iff in NdE. destruct NdE as [Re NdE].
    assert (InN : forall y, In y (lids new) <-> In y (lids sub) /\ y <> r).
    { intros y. split.
      - intros Hy. split; [eapply Permutation_in; [exact PN|right; exact Hy]|intros ->; contradiction].
      - intros [Hy Hne]. apply (Permutation_in _ (Permutation_sym PN)) in Hy. destruct Hy as [E0|Hy]; [congruence|exact Hy]. }
    assert (InE : forall y, In y (leids new) <-> In y (leids sub) /\ y <> e).
    { intros y. split.
      - intros Hy. split; [eapply Permutation_in; [exact PE|right; exact Hy]|intros ->; contradiction].
      - intros [Hy Hne]. apply (Permutation_in _ (Permutation_sym PE)) in Hy. destruct Hy as [E0|Hy]; [congruence|exact Hy]. }
    assert (SubN : forall y, In y (lids sub) -> In y (lids lt)) by (intros y Hy; eapply lsubs_sub_lids; eassumption).
    assert (SubE : forall y, In y (leids sub) -> In y (leids lt)) by (intros y Hy; eapply lsubs_sub_leids; eassumption).
    destruct CT_disj as (Nlr & Dn & Db & De & Dbe & NdB & NdBe).
    assert (Inl : In l (lids sub)) by (left; reflexivity).
    assert (Inr : In r (lids sub)) by (unfold sub, sl; eapply in_lids_child; [apply in_or_app; right; left; reflexivity|left; reflexivity]).
    assert (Ine : In e (leids sub)) by (unfold sub, sl; eapply in_leids_here; apply in_or_app; right; left; reflexivity).
    assert (KidN : forall y, In y (map fst ks) -> In y (lids sub) /\ y <> l /\ y <> r /\ alookup y (hnodes h') <> None).
    { intros y Hy. apply CT_kid_fst in Hy. destruct Hy as [ec Hk]. destruct (CT_kid_in y ec Hk) as [Y1 _].
      destruct (Db y Y1) as (A & B & C). repeat split; try assumption.
      destruct (CT_kid_ok y ec Hk) as (hc & idx & eic & Q1 & Q2 & Q3 & Q4 & Q5). cbn [fst snd] in *.
      destruct (cd_kids _ _ _ _ _ _ _ D y ec hc idx eic Hk Q1 Q2 Q5) as [K1 _]. congruence. }
    assert (KidE : forall y, In y (map snd ks) -> In y (leids sub) /\ y <> e /\ alookup y (hedges h') <> None).
    { intros y Hy. apply CT_kid_snd in Hy. destruct Hy as [c Hk]. destruct (CT_kid_in c y Hk) as [_ Y1].
      destruct (Dbe y Y1) as (A & B). repeat split; try assumption.
      destruct (CT_kid_ok c y Hk) as (hc & idx & eic & Q1 & Q2 & Q3 & Q4 & Q5). cbn [fst snd] in *.
      destruct (cd_kids _ _ _ _ _ _ _ D c y hc idx eic Hk Q1 Q2 Q5) as [_ K2]. congruence. }
    apply (Rep_replace h h' lt l p sub new R Hsub eq_refl eq_refl).
    - exact CT_shape_new.
    - intros y Hy Hy'. apply (cd_nodes _ _ _ _ _ _ _ D); [intros ->; contradiction|intros ->; contradiction|].
      intros Hk. apply KidN in Hk. tauto.
    - intros y Hy Hy'. apply (cd_edges _ _ _ _ _ _ _ D); [intros ->; contradiction|]. intros Hk. apply KidE in Hk. tauto.
    - intros Wsub. unfold sub, sl in Wsub. apply lwf_iff in Wsub. destruct Wsub as [X1 X2]. destruct CT_wf_ch as (Z1 & Z2 & Z3).
      unfold new. apply lwf_iff. split.
      + rewrite !lnup_app in *. unfold lnup in X1 at 2. cbn in X1. fold (lnup l2) in X1. lia.
      + intros e' ei' ch' Hin. apply in_app_or in Hin. destruct Hin as [Hin|Hin]; [|exact (Z3 _ _ _ Hin)].
        apply (X2 e' ei' ch'). apply in_app_or in Hin. apply in_or_app. destruct Hin; [left|right; right]; assumption.
    - intros Wsub. unfold sub, sl in Wsub. apply lwf_sub_iff in Wsub. destruct Wsub as [X1 X2]. destruct CT_wf_ch as (Z1 & Z2 & Z3).
      unfold new. apply lwf_sub_iff. split.
      + rewrite !lnup_app in *. unfold lnup in X1 at 2. cbn in X1. fold (lnup l2) in X1. lia.
      + intros e' ei' ch' Hin. apply in_app_or in Hin. destruct Hin as [Hin|Hin]; [|exact (Z3 _ _ _ Hin)].
        apply (X2 e' ei' ch'). apply in_app_or in Hin. apply in_or_app. destruct Hin; [left|right; right]; assumption.
    - exact (cd_root _ _ _ _ _ _ _ D).
    - exact NdN.
    - intros y Hy. left. apply InN in Hy. tauto.
    - exact NdE.
    - intros y Hy. left. apply InE in Hy. tauto.
    - intros y. rewrite InN. destruct (Nat.eq_dec y r) as [->|Nr].
      { rewrite (cd_r _ _ _ _ _ _ _ D). split; [congruence|]. intros [[_ X]|[_ X]]; [congruence|contradiction]. }
      destruct (Nat.eq_dec y l) as [->|Nl].
      { rewrite (cd_l _ _ _ _ _ _ _ D). split; [intros _; left; tauto|discriminate]. }
      destruct (in_dec Nat.eq_dec y (map fst ks)) as [Hk|Hk].
      { destruct (KidN y Hk) as (A & B & C & E0). split; [intros _; left; tauto|intros _; exact E0]. }
      rewrite (cd_nodes _ _ _ _ _ _ _ D y Nl Nr Hk). rewrite <- (rep_nodes _ _ R y). split.
      + intros Hy. destruct (in_dec Nat.eq_dec y (lids sub)); tauto.
      + intros [[X _]|[X _]]; [apply SubN; exact X|exact X].
    - intros y. rewrite InE. destruct (Nat.eq_dec y e) as [->|Nee].
      { rewrite (cd_e _ _ _ _ _ _ _ D). split; [congruence|]. intros [[_ X]|[_ X]]; [congruence|contradiction]. }
      destruct (in_dec Nat.eq_dec y (map snd ks)) as [Hk|Hk].
      { destruct (KidE y Hk) as (A & B & E0). split; [intros _; left; tauto|intros _; exact E0]. }
      rewrite (cd_edges _ _ _ _ _ _ _ D y Nee Hk). rewrite <- (rep_edges _ _ R y). split.
      + intros Hy. destruct (in_dec Nat.eq_dec y (leids sub)); tauto.
      + intros [[X _]|[X _]]; [apply SubE; exact X|exact X].
    - intros y Hy. rewrite (cd_nextn _ _ _ _ _ _ _ D). apply (rep_fn _ _ R).
      destruct (Nat.eq_dec y r) as [->|Nr]; [rewrite (cd_r _ _ _ _ _ _ _ D) in Hy; congruence|].
      destruct (Nat.eq_dec y l) as [->|Nl]; [apply SubN; exact Inl|].
      destruct (in_dec Nat.eq_dec y (map fst ks)) as [Hk|Hk]; [apply SubN; apply (KidN y Hk)|].
      rewrite (cd_nodes _ _ _ _ _ _ _ D y Nl Nr Hk) in Hy. apply (rep_nodes _ _ R). exact Hy.
    - intros y Hy. rewrite (cd_nexte _ _ _ _ _ _ _ D). apply (rep_fe _ _ R).
      destruct (Nat.eq_dec y e) as [->|Nee]; [rewrite (cd_e _ _ _ _ _ _ _ D) in Hy; congruence|].
      destruct (in_dec Nat.eq_dec y (map snd ks)) as [Hk|Hk]; [apply SubE; apply (KidE y Hk)|].
      rewrite (cd_edges _ _ _ _ _ _ _ D y Nee Hk) in Hy. apply (rep_edges _ _ R). exact Hy.
  Qed.
End Contract.

Lemma map_del_nth {A B} (f : A -> B) j l : map f (del_nth j l) = del_nth j (map f l).
Proof. unfold del_nth. rewrite map_app, firstn_map, skipn_map. reflexivity. Qed.

(** * one contraction never fails on a good heap and keeps it good *)
Theorem remove_edge_good rr rt h e : Good h -> alookup e (hedges h) <> None ->
  exists h', remove_edge rr rt e h = HOk h' /\ Good h'.
Proof.
  intros G He0. destruct (Good_Rep h G) as [lt R]. pose proof He0 as He. apply (rep_edges _ _ R) in He.
  destruct (in_leids_lsubs lt None e He) as (p & l & nm & cm & sl0 & ei & ch0 & Hsub & Hs).
  destruct (in_split _ _ Hs) as [l1 [l2 Esl]]. subst sl0.
  destruct ch0 as [r nmr cmr slr].
  assert (Hsubr : In (Some (l, e), LNode r nmr cmr slr) (lsubs None lt)).
  { eapply lsubs_trans; [exact Hsub|]. eapply lsubs_child. exact Hs. }
  destruct (lwf_sub_lsubs lt None _ _ (or_introl (rep_wf _ _ R)) Hsubr) as [E|W]; [discriminate|].
  apply lwf_sub_iff in W. destruct W as [W1 Wk].
  destruct (lnup_split slr) as [s1 [s2 Eslr]]; [lia|]. subst slr.
  pose proof (shape_lsubs _ _ _ _ _ _ (rep_shape _ _ R) Hsub) as Sh. apply shape_unfold in Sh. destruct Sh as [hl (A1 & _)].
  pose proof (shape_lsubs _ _ _ _ _ _ (rep_shape _ _ R) Hsubr) as Shr. apply shape_unfold in Shr. destruct Shr as [hr (B1 & _)].
  destruct (CT_slots h lt R p l nm cm l1 l2 e ei r nmr cmr s1 s2 Hsub hl hr A1 B1)
    as (c1 & c2 & d1 & d2 & Ec & Lc & F1 & F2 & Ed & Ld & G1 & G2 & A4 & B4 & A2 & A3 & Ee & Pne).
  rewrite remove_edge_eq. unfold get_edge. rewrite Ee. cbn [hbind hleft hright]. unfold get_node. rewrite B1, A1. cbn [hbind].
  destruct (Nat.eqb (length (hneigh hr)) 1).
  { destruct rt.
    - unfold set_info, get_edge. rewrite Ee. cbn [hbind hleft hright hinfo]. eexists. split; [reflexivity|].
      exact (Good_set_info h e (mkHE l r ei) _ G Ee).
    - exists h. split; [reflexivity|exact G]. }
  destruct (negb rr && (Nat.eqb (length (hneigh hr)) 2 || Nat.eqb (length (hneigh hl)) 2)).
  { exists h. split; [reflexivity|exact G]. }
  (* the contraction *)
  assert (Hnl : nth_error (hneigh hl) (length l1) = Some r).
  { rewrite <- (slots_of_fst hl A4), Ec, nth_error_map, <- Lc, nth_error_app_mid. reflexivity. }
  assert (Hnr : nth_error (hneigh hr) (length s1) = Some l).
  { rewrite <- (slots_of_fst hr B4), Ed, nth_error_map, <- Ld, nth_error_app_mid. reflexivity. }
  assert (I0 : index_of r (hneigh hl) = Some (length l1)) by (apply index_of_NoDup; [exact (g_nodup _ G l hl A1)|exact Hnl]).
  assert (I1 : index_of l (hneigh hr) = Some (length s1)) by (apply index_of_NoDup; [exact (g_nodup _ G r hr B1)|exact Hnr]).
  assert (L0 : length l1 < length (hbr hl)) by (rewrite <- A4; apply nth_error_Some; congruence).
  assert (L1 : length s1 < length (hbr hr)) by (rewrite <- B4; apply nth_error_Some; congruence).
  set (ks := del_nth (length s1) (slots_of hr)).
  assert (Hks : del_nth (length s1) (hneigh hr) = map fst ks).
  { unfold ks. rewrite map_del_nth, (slots_of_fst hr B4). reflexivity. }
  destruct (CT_disj h lt R p l nm cm l1 l2 e ei r nmr cmr s1 s2 Hsub) as (Nlr & Dn & Db & De & Dbe & NdB & NdBe).
  destruct (CT_ks_nodup h lt R p l nm cm l1 l2 e ei r nmr cmr s1 s2 Hsub hl hr A1 B1) as [Nk1 Nk2]. fold ks in Nk1, Nk2.
  assert (KinN : forall y, In y (map fst ks) -> In y (sids (s1 ++ None :: s2))).
  { intros y Hy. apply in_map_iff in Hy. destruct Hy as [[c ec] [<- Hin]].
    exact (proj1 (CT_kid_in h lt R p l nm cm l1 l2 e ei r nmr cmr s1 s2 Hsub hl hr A1 B1 c ec Hin)). }
  assert (KinE : forall y, In y (map snd ks) -> In y (seids (s1 ++ None :: s2))).
  { intros y Hy. apply in_map_iff in Hy. destruct Hy as [[c ec] [<- Hin]].
    exact (proj2 (CT_kid_in h lt R p l nm cm l1 l2 e ei r nmr cmr s1 s2 Hsub hl hr A1 B1 c ec Hin)). }
  destruct (contract_eval h l r e hl hr (length l1) (length s1) ks A1 B1 Nlr I0 L0 I1 L1 Hks) as [h' [Ev D]].
  - apply Forall_forall. intros [c ec] Hin. exact (CT_kid_ok h lt R p l nm cm l1 l2 e ei r nmr cmr s1 s2 Hsub hl hr A1 B1 c ec Hin).
  - exact Nk1.
  - exact Nk2.
  - intros Hy. apply KinN in Hy. destruct (Db l Hy) as (_ & X & _). congruence.
  - intros Hy. apply KinN in Hy. destruct (Db r Hy) as (_ & _ & X). congruence.
  - intros Hy. apply KinE in Hy. destruct (Dbe e Hy) as (_ & X). congruence.
  - exists h'. split; [exact Ev|]. eapply Rep_Good.
    exact (CT_Rep h h' lt R p l nm cm l1 l2 e ei r nmr cmr s1 s2 Hsub hl hr A1 B1 D).
Qed.
