(** Quartet.Compare / HashEquals on quartets over four distinct taxa: "not QUARTET_DIFF" is
    exactly "same four taxa"; hence HashEquals is an equivalence compatible with HashCode, and
    a HashMap keyed by quartets (IndexQuartets) behaves like an association list. *)
From Coq Require Import NArith ZArith Bool Lia List Permutation.
From GT Require Import Model.Index Model.HashMap Model.Quartet Proofs.HashMap Proofs.Quartet.
Import ListNotations.

Definition q_taxa (q : quartet) : list N := [qt1 q; qt2 q; qt3 q; qt4 q].
Definition q_distinct (q : quartet) : Prop := NoDup (q_taxa q).
Definition same_taxa (q q' : quartet) : Prop := forall x, In x (q_taxa q) <-> In x (q_taxa q').

Lemma q_distinct_neq : forall a1 a2 a3 a4,
    q_distinct (mkQ a1 a2 a3 a4) ->
    a1 <> a2 /\ a1 <> a3 /\ a1 <> a4 /\ a2 <> a3 /\ a2 <> a4 /\ a3 <> a4.
Proof.
  unfold q_distinct, q_taxa. simpl. intros a1 a2 a3 a4 H.
  inversion H as [|? ? N1 H1]; subst. inversion H1 as [|? ? N2 H2]; subst. inversion H2 as [|? ? N3 H3]; subst.
  simpl in *. repeat split; intro; subst; tauto.
Qed.

(** evaluate every [N.eqb] between variables known equal or different *)
Ltac eval_eqb :=
  repeat match goal with
         | |- context[N.eqb ?x ?y] => destruct (N.eqb_spec x y); try congruence
         end.

(** not DIFF => same taxa (no distinctness needed) *)
Lemma hash_equals_same_taxa : forall q q', q_hash_equals q q' = true -> same_taxa q q'.
Proof.
  intros [a1 a2 a3 a4] [b1 b2 b3 b4]. unfold q_hash_equals, q_compare. simpl.
  repeat match goal with |- context[if ?c then _ else _] => destruct c eqn:? end; try discriminate; intros _;
    match goal with H : _ = true |- _ =>
      rewrite !andb_true_iff, !orb_true_iff, !andb_true_iff, !N.eqb_eq in H; clear - H;
      destruct H as [[[? ?]|[? ?]] [[? ?]|[? ?]]]; subst end;
    unfold same_taxa, q_taxa; simpl; intros x; tauto.
Qed.

(** same four distinct taxa => not DIFF *)
Lemma same_taxa_hash_equals : forall q q',
    q_distinct q -> q_distinct q' -> same_taxa q q' -> q_hash_equals q q' = true.
Proof.
  intros [a1 a2 a3 a4] [b1 b2 b3 b4] D D' S.
  apply q_distinct_neq in D. apply q_distinct_neq in D'.
  destruct D as (A12 & A13 & A14 & A23 & A24 & A34).
  destruct D' as (B12 & B13 & B14 & B23 & B24 & B34).
  assert (I1 : In b1 [a1; a2; a3; a4]) by (apply (S b1); simpl; auto).
  assert (I2 : In b2 [a1; a2; a3; a4]) by (apply (S b2); simpl; auto).
  assert (I3 : In b3 [a1; a2; a3; a4]) by (apply (S b3); simpl; auto).
  assert (I4 : In b4 [a1; a2; a3; a4]) by (apply (S b4); simpl; auto).
  clear S. simpl in I1, I2, I3, I4.
  destruct I1 as [<-|[<-|[<-|[<-|[]]]]];
    destruct I2 as [<-|[<-|[<-|[<-|[]]]]]; try congruence;
    destruct I3 as [<-|[<-|[<-|[<-|[]]]]]; try congruence;
    destruct I4 as [<-|[<-|[<-|[<-|[]]]]]; try congruence;
    unfold q_hash_equals, q_compare; simpl; eval_eqb; reflexivity.
Qed.

Theorem q_hash_equals_iff : forall q q',
    q_distinct q -> q_distinct q' -> (q_hash_equals q q' = true <-> same_taxa q q').
Proof. intros. split; [apply hash_equals_same_taxa | now apply same_taxa_hash_equals]. Qed.

Theorem q_compare_diff_iff : forall q q',
    q_distinct q -> q_distinct q' -> (q_compare q q' <> QDiff <-> same_taxa q q').
Proof.
  intros q q' D D'. rewrite <- (q_hash_equals_iff q q' D D'). unfold q_hash_equals.
  destruct (q_compare q q'); split; intros; try congruence; try discriminate.
Qed.

(** the comparison says EQUALS exactly when the pairs are the same (as unordered pairs of
    unordered pairs) *)
Definition same_pair (a b c d : N) : Prop := (a = c /\ b = d) \/ (a = d /\ b = c).
Theorem q_compare_equals_iff : forall q q',
    q_compare q q' = QEquals <->
    (same_pair (qt1 q) (qt2 q) (qt1 q') (qt2 q') /\ same_pair (qt3 q) (qt4 q) (qt3 q') (qt4 q')) \/
    (same_pair (qt1 q) (qt2 q) (qt3 q') (qt4 q') /\ same_pair (qt3 q) (qt4 q) (qt1 q') (qt2 q')).
Proof.
  intros [a1 a2 a3 a4] [b1 b2 b3 b4]. unfold q_compare, same_pair. simpl.
  match goal with |- (if ?c then _ else _) = _ <-> _ => destruct c eqn:E1 end.
  - split; [intros _ | reflexivity]. left.
    rewrite !andb_true_iff, !orb_true_iff, !andb_true_iff, !N.eqb_eq in E1. exact E1.
  - match goal with |- (if ?c then _ else _) = _ <-> _ => destruct c eqn:E2 end.
    + split; [intros _ | reflexivity]. right.
      rewrite !andb_true_iff, !orb_true_iff, !andb_true_iff, !N.eqb_eq in E2. exact E2.
    + split.
      * intros H. exfalso.
        repeat match type of H with (if ?c then _ else _) = _ => destruct c end; discriminate.
      * intros [[P1 P2]|[P1 P2]]; exfalso;
          destruct P1 as [[-> ->]|[-> ->]], P2 as [[-> ->]|[-> ->]];
          rewrite !N.eqb_refl in *; simpl in *; rewrite ?orb_true_r in *; discriminate.
Qed.

(** HashEquals is an equivalence on distinct-taxa quartets *)
Lemma same_taxa_refl : forall q, same_taxa q q.
Proof. unfold same_taxa. tauto. Qed.
Lemma same_taxa_sym : forall q q', same_taxa q q' -> same_taxa q' q.
Proof. unfold same_taxa. intros q q' H x. specialize (H x). tauto. Qed.
Lemma same_taxa_trans : forall a b c, same_taxa a b -> same_taxa b c -> same_taxa a c.
Proof. unfold same_taxa. intros a b c H1 H2 x. specialize (H1 x). specialize (H2 x). tauto. Qed.

Theorem q_hash_equals_refl : forall q, q_hash_equals q q = true.
Proof.
  intros [a b c d]. unfold q_hash_equals, q_compare. simpl. rewrite !N.eqb_refl. reflexivity.
Qed.
Theorem q_hash_equals_sym : forall q q',
    q_distinct q -> q_distinct q' -> q_hash_equals q q' = true -> q_hash_equals q' q = true.
Proof.
  intros q q' D D' H. apply q_hash_equals_iff; auto. apply same_taxa_sym. now apply hash_equals_same_taxa.
Qed.
Theorem q_hash_equals_trans : forall a b c,
    q_distinct a -> q_distinct b -> q_distinct c ->
    q_hash_equals a b = true -> q_hash_equals b c = true -> q_hash_equals a c = true.
Proof.
  intros a b c Da Db Dc H1 H2. apply q_hash_equals_iff; auto.
  eapply same_taxa_trans; apply hash_equals_same_taxa; eauto.
Qed.

(** the map keyed by quartets *)
Theorem quartet_map_refines :
  forall (V : Type) (need : nat -> N -> bool) (cap : N) (ops : list (op quartet V)) rs mf,
    (cap < W64)%N ->
    ops_ok quartet V q_distinct ops ->
    run quartet V q_hash_code q_hash_equals need (new_hashmap quartet V cap) ops = Some (rs, mf) ->
    rs = fst (run_assoc quartet V q_hash_equals [] ops) /\
    Permutation (key_values quartet V mf) (snd (run_assoc quartet V q_hash_equals [] ops)) /\
    hm_total mf = length (snd (run_assoc quartet V q_hash_equals [] ops)).
Proof.
  intros V need cap ops rs mf Hc HO H.
  eapply (hashmap_refines_gen quartet V q_hash_code q_hash_equals need q_distinct); eauto.
  - apply q_hash_equals_sym.
  - apply q_hash_equals_trans.
  - intros a b _ _. apply quartet_hash_compat.
Qed.

Theorem quartet_map_total :
  forall (V : Type) (need : nat -> N -> bool) (cap : N) (ops : list (op quartet V)),
    (cap < W64)%N -> ops_ok quartet V q_distinct ops -> no_overflow need ->
    run quartet V q_hash_code q_hash_equals need (new_hashmap quartet V cap) ops <> None.
Proof.
  intros V need cap ops Hc HO NO.
  eapply (hashmap_total_gen quartet V q_hash_code q_hash_equals need q_distinct); eauto.
  - apply q_hash_equals_sym.
  - apply q_hash_equals_trans.
  - intros a b _ _. apply quartet_hash_compat.
Qed.
