(** The common domain of C13 for the Nexus chain, stated on the tree itself: a tree inside
    C01's quantifier ([wfN]) without comments whose tip names are Nexus labels and whose
    inner names consist of identifier bytes.  For such a tree the writer's text is readable
    inside a TREE command, and the tree the Newick parser reads back ([canon_root]) has the
    tips of the tree, in order. *)
From Coq Require Import String Ascii ZArith QArith Bool Arith Lia List.
From GT Require Import Base.Sexp Base.UTree Spec.NewickSpec Model.Newick Model.Nexus
     Proofs.NewickCanon Proofs.NexusLex Proofs.NexusWords Proofs.NexusRoundTrip Proofs.NexusNewickText.
Import ListNotations.
Local Close Scope Q_scope.
Local Open Scope string_scope.

(** no comments; tip names are labels, inner names identifier bytes *)
Fixpoint plain_sub (e : einfo) (t : utree) : bool :=
  match t with
  | UNode n c sl =>
    nilb c && nilb (ecom e) &&
    (if nilb (kids_of sl) then tword_b n else all_chars wchar n) &&
    forallb (fun s => match s with Some (e', ch) => plain_sub e' ch | None => true end) sl
  end.

Definition plain_root (t : utree) : bool :=
  match t with
  | UNode n c sl =>
    nilb c && all_chars wchar n &&
    forallb (fun s => match s with Some (e', ch) => plain_sub e' ch | None => true end) sl
  end.

Section Domain.
  Variable fmt : Q -> string.
  Variable numeric : string -> bool.
  Variable parse_num : string -> option Q.
  Variable numok : Q -> bool.
  Hypothesis SC : strconv_ok fmt numeric parse_num numok.
  (** printed numbers consist of identifier bytes of the Nexus scanner (strconv_ok already
      excludes blanks, brackets, ',', ';', ':'; this adds '=') *)
  Hypothesis fmt_wchar : forall x, numok x = true -> all_chars wchar (fmt x) = true.

  Lemma numw_of_num_ok : forall x, num_ok numok x = true -> numw fmt x = true.
  Proof.
    intros x H. unfold numw, num_ok in *. destruct (present x); simpl in *; [|reflexivity].
    apply fmt_wchar. exact H.
  Qed.

  Lemma nx_of_wfN_sub : forall t e,
      wfN_sub numeric numok e t = true -> plain_sub e t = true -> nx_sub fmt e t = true.
  Proof.
    induction t as [n c sl IH] using utree_ind'. intros e W P.
    pose proof (wfN_sub_inv numeric numok e n c sl W) as (Hup & _ & _ & He & _).
    destruct (edge_ok_nums numok e n He) as (N1 & N2 & N3).
    cbn [plain_sub] in P. repeat (apply andb_true_iff in P; destruct P as [P ?]).
    rename P into Pc, H1 into Pe, H0 into Pn, H into Pk.
    cbn [nx_sub]. rewrite Pc, Pe, !numw_of_num_ok by assumption. cbn [andb].
    pose proof (n_up_length sl) as L. rewrite Hup in L.
    apply andb_true_iff. split.
    - destruct (kids_of sl) as [|k r] eqn:K; simpl nilb in *.
      + simpl in L. rewrite L. rewrite Pn. reflexivity.
      + simpl in L. rewrite Pn, andb_true_r. apply Nat.ltb_lt. lia.
    - cbn [wfN_sub] in W. repeat (apply andb_true_iff in W; destruct W as [W ?]).
      rename H into Wk. clear - IH Wk Pk.
      induction sl as [|[[e' ch]|] r IHr]; simpl in *; [reflexivity| |].
      + inversion IH as [|? ? Hc Hr]; subst.
        apply andb_true_iff in Wk. destruct Wk as [W1 W2].
        apply andb_true_iff in Pk. destruct Pk as [P1 P2].
        rewrite (Hc e' W1 P1). simpl. apply IHr; assumption.
      + inversion IH as [|? ? Hc Hr]; subst. apply IHr; assumption.
  Qed.

  Theorem nx_of_wfN : forall t, wfN numeric numok t = true -> plain_root t = true -> nx_root fmt t = true.
  Proof.
    intros [n c sl] W P.
    pose proof (wfN_inv numeric numok n c sl W) as (Hup & Hlen & _ & _ & _).
    cbn [plain_root] in P. repeat (apply andb_true_iff in P; destruct P as [P ?]).
    rename P into Pc, H0 into Pn, H into Pk.
    cbn [nx_root]. rewrite Pc, Pn. cbn [andb].
    pose proof (n_up_length sl) as L. rewrite Hup in L.
    assert (K : nilb (kids_of sl) = false) by (destruct (kids_of sl); [simpl in Hlen; lia|reflexivity]).
    rewrite K. cbn [negb andb].
    replace (Nat.ltb 1 (length sl)) with true by (symmetry; apply Nat.ltb_lt; lia). cbn [andb].
    cbn [wfN] in W. repeat (apply andb_true_iff in W; destruct W as [W ?]).
    rename H into Wk. clear - Wk Pk fmt_wchar SC.
    induction sl as [|[[e' ch]|] r IHr]; simpl in *; [reflexivity| |].
    - apply andb_true_iff in Wk. destruct Wk as [W1 W2].
      apply andb_true_iff in Pk. destruct Pk as [P1 P2].
      rewrite (nx_of_wfN_sub ch e' W1 P1). simpl. apply IHr; assumption.
    - apply IHr; assumption.
  Qed.

  (** (1) no [newick_ok] hypothesis is needed inside the domain *)
  Theorem newick_ok_domain : forall t,
      wfN numeric numok t = true -> plain_root t = true -> newick_ok (write fmt t) = true.
  Proof. intros t W P. apply newick_ok_write. apply nx_of_wfN; assumption. Qed.

  (** (2) the tree read back has the tips of the tree, in order *)
  Lemma tips_canon_sub : forall t e, wfN_sub numeric numok e t = true ->
      tip_names (canon_sub fmt parse_num t) = tip_names t.
  Proof.
    induction t as [n c sl IH] using utree_ind'. intros e W.
    pose proof (wfN_sub_inv numeric numok e n c sl W) as (Hup & _ & _ & _ & Hk).
    rewrite canon_sub_eq. unfold tip_names. cbn [tips].
    unfold is_tip, degree. cbn [uslots length]. rewrite length_ckids.
    pose proof (n_up_length sl) as L. rewrite Hup in L. rewrite L.
    rewrite !map_app. f_equal;
      [change (1 + length (kids_of sl)) with (S (length (kids_of sl)));
       destruct (Nat.eqb (S (length (kids_of sl))) 1); reflexivity|].
    apply Forall_slots_kids in IH.
    cbn [flat_map app]. clear Hup L W.
    assert (G : forall l, Forall (fun p => forall e0, wfN_sub numeric numok e0 (snd p) = true ->
                                                   tip_names (canon_sub fmt parse_num (snd p)) = tip_names (snd p)) l ->
                          Forall (fun p => wfN_sub numeric numok (fst p) (snd p) = true) l ->
                          map uname (flat_map (fun s : slot => match s with Some (_, c0) => tips c0 | None => [] end) (ckids fmt parse_num l)) =
                          map uname (flat_map (fun p => tips (snd p)) l)).
    { induction l as [|[e' ch] r IHr]; intros H1 H2; [reflexivity|].
      inversion H1; subst. inversion H2; subst. cbn [ckids map flat_map fst snd].
      rewrite !map_app. fold (ckids fmt parse_num r). rewrite (IHr H4 H6).
      f_equal. exact (H3 e' H5). }
    rewrite (G (kids_of sl) IH Hk). clear.
    induction sl as [|[[e ch]|] r IHr]; unfold kids_of in *; simpl; [reflexivity| |exact IHr].
    rewrite !map_app, IHr. reflexivity.
  Qed.

  Theorem tips_canon_root : forall t, wfN numeric numok t = true ->
      tip_names (canon_root fmt parse_num t) = tip_names t.
  Proof.
    intros [n c sl] W.
    pose proof (wfN_inv numeric numok n c sl W) as (Hup & Hlen & _ & _ & Hk).
    unfold canon_root, tip_names. cbn [uname ucom kids uslots tips].
    unfold is_tip, degree. cbn [uslots]. rewrite length_ckids.
    pose proof (n_up_length sl) as L. rewrite Hup in L. simpl in L. rewrite L.
    unfold kids. cbn [uslots].
    rewrite !map_app. f_equal; [destruct (Nat.eqb (length (kids_of sl)) 1); reflexivity|].
    assert (G : forall l, Forall (fun p => wfN_sub numeric numok (fst p) (snd p) = true) l ->
                          map uname (flat_map (fun s : slot => match s with Some (_, c0) => tips c0 | None => [] end) (ckids fmt parse_num l)) =
                          map uname (flat_map (fun p => tips (snd p)) l)).
    { induction l as [|[e' ch] r IHr]; intros H2; [reflexivity|].
      inversion H2; subst. cbn [ckids map flat_map fst snd].
      rewrite !map_app. fold (ckids fmt parse_num r). rewrite (IHr H3).
      f_equal. exact (tips_canon_sub ch e' H1). }
    rewrite (G (kids_of sl) Hk). clear.
    induction sl as [|[[e ch]|] r IHr]; unfold kids_of in *; simpl; [reflexivity| |exact IHr].
    rewrite !map_app, IHr. reflexivity.
  Qed.
End Domain.
