(** C10 (iii) and the rest of (ii): on collections inside the domain (well-formed trees with
    distinct tip names on the same taxa) the per-branch values of the model are the
    definitions of Spec/Support.v; transfer support >= Felsenstein support, and it is 1 exactly
    when Felsenstein support is 1; which collections are refused. *)
From Coq Require Import String ZArith QArith Lqa Bool Arith Lia Permutation List.
From GT Require Import Base.UTree Spec.Obs Spec.Support Model.Support
     Proofs.SupportBase Proofs.SupportMTD Proofs.SupportClosed.
Import ListNotations.
Local Close Scope Q_scope.
Local Open Scope string_scope.

Ltac smem2mem :=
  repeat match goal with
         | |- context [smem ?a ?b] => change (smem a b) with (mem a b)
         | H : context [smem ?a ?b] |- _ => change (smem a b) with (mem a b) in H
         end.

(** * pointwise readings of the boolean tests *)
Lemma forallb_ext_in : forall A (f g : A -> bool) l,
    (forall x, In x l -> f x = g x) -> forallb f l = forallb g l.
Proof.
  intros A f g l H. induction l as [|a l IH]; [reflexivity|]. simpl.
  rewrite (H a (or_introl eq_refl)), IH; [reflexivity|]. intros; apply H; right; assumption.
Qed.

Lemma existsb_ext_in : forall A (f g : A -> bool) l,
    (forall x, In x l -> f x = g x) -> existsb f l = existsb g l.
Proof.
  intros A f g l H. induction l as [|a l IH]; [reflexivity|]. simpl.
  rewrite (H a (or_introl eq_refl)), IH; [reflexivity|]. intros; apply H; right; assumption.
Qed.

Lemma same_side_spec : forall X A B,
    same_side X A B = true <-> (forall x, In x X -> mem x A = mem x B).
Proof.
  intros X A B. unfold same_side. rewrite forallb_forall. split; intros H x Hx.
  - apply eqb_prop. apply (H x Hx).
  - smem2mem. rewrite (H x Hx). apply eqb_reflx.
Qed.

Lemma mem_sdiff : forall X B x, In x X -> mem x (sdiff X B) = negb (mem x B).
Proof.
  intros X B x Hx. unfold sdiff. rewrite mem_filter. apply mem_In in Hx. rewrite Hx. reflexivity.
Qed.

Lemma mem_sinter : forall X B x, In x X -> mem x (sinter X B) = mem x B.
Proof.
  intros X B x Hx. unfold sinter. rewrite mem_filter. apply mem_In in Hx. rewrite Hx. reflexivity.
Qed.

Lemma same_side_compl_spec : forall X A B,
    same_side X A (sdiff X B) = true <-> (forall x, In x X -> mem x A = negb (mem x B)).
Proof.
  intros X A B. rewrite same_side_spec. split; intros H x Hx.
  - rewrite (H x Hx). apply mem_sdiff. exact Hx.
  - rewrite (H x Hx). symmetry. apply mem_sdiff. exact Hx.
Qed.

Lemma same_split_spec : forall X A B,
    same_split X A B = true <->
    (forall x, In x X -> mem x A = mem x B) \/ (forall x, In x X -> mem x A = negb (mem x B)).
Proof.
  intros X A B. unfold same_split. rewrite orb_true_iff, same_side_spec, same_side_compl_spec. tauto.
Qed.

(** bitset.EqualOrComplement is the equality of bipartitions *)
Lemma equal_or_complement_same_split : forall X A B, equal_or_complement X A B = same_split X A B.
Proof.
  intros X A B. unfold equal_or_complement, same_split. f_equal.
  unfold bits_compl, same_side. apply forallb_ext_in. intros x Hx.
  smem2mem. rewrite (mem_sdiff X B x Hx).
  destruct (mem x A), (mem x B); reflexivity.
Qed.

(** * counting readings *)
Lemma cnt_zero : forall A (f : A -> bool) l, cnt f l = 0 <-> (forall x, In x l -> f x = false).
Proof.
  intros A f l. unfold cnt. induction l as [|a l IH]; simpl.
  - split; [intros _ x []|reflexivity].
  - destruct (f a) eqn:E; simpl.
    + split; [discriminate|]. intros H. rewrite (H a (or_introl eq_refl)) in E. discriminate.
    + rewrite IH. split; intros H x; [intros [->|Hx]; auto|intros Hx; apply H; right; exact Hx].
Qed.

Lemma cnt_full : forall A (f : A -> bool) l, cnt f l = length l <-> (forall x, In x l -> f x = true).
Proof.
  intros A f l. pose proof (cnt_neg A f l) as N.
  assert (E : cnt f l = length l <-> cnt (fun x => negb (f x)) l = 0) by lia.
  rewrite E, cnt_zero. split; intros H x Hx; specialize (H x Hx); destruct (f x); simpl in *; congruence.
Qed.

Lemma symdiff_zero : forall X L B,
    symdiff X L B = 0 <-> (forall x, In x X -> mem x L = mem x B).
Proof.
  intros X L B. unfold symdiff. fold (cnt (fun x => xorb (smem x L) (smem x B)) X).
  rewrite cnt_zero. split; intros H x Hx; specialize (H x Hx); smem2mem;
    destruct (mem x L), (mem x B); simpl in *; congruence.
Qed.

Lemma symdiff_full : forall X L B,
    symdiff X L B = length X <-> (forall x, In x X -> mem x L = negb (mem x B)).
Proof.
  intros X L B. unfold symdiff. fold (cnt (fun x => xorb (smem x L) (smem x B)) X).
  rewrite cnt_full. split; intros H x Hx; specialize (H x Hx); smem2mem;
    destruct (mem x L), (mem x B); simpl in *; congruence.
Qed.

Lemma symdiff_le : forall X L B, symdiff X L B <= length X.
Proof. intros. unfold symdiff. apply (cnt_le _ _ X). Qed.

Lemma tdist_zero : forall X L B,
    tdist X L B = 0 <->
    (forall x, In x X -> mem x L = mem x B) \/ (forall x, In x X -> mem x L = negb (mem x B)).
Proof.
  intros X L B. rewrite <- symdiff_zero, <- symdiff_full. unfold tdist.
  pose proof (symdiff_le X L B). lia.
Qed.

(** the light side is one of the two sides *)
Lemma light_cases : forall X A,
    (forall x, In x X -> mem x (light X A) = mem x A) \/
    (forall x, In x X -> mem x (light X A) = negb (mem x A)).
Proof.
  intros X A. unfold light. destruct (Nat.leb _ _).
  - left. intros x Hx. apply mem_sinter. exact Hx.
  - right. intros x Hx. apply mem_sdiff. exact Hx.
Qed.

Lemma tdist_zero_split : forall X A B, tdist X (light X A) B = 0 <-> same_split X A B = true.
Proof.
  intros X A B. rewrite tdist_zero, same_split_spec.
  destruct (light_cases X A) as [H|H]; split; intros [K|K]; [left|right|left|right|right|left|right|left];
    intros x Hx; specialize (H x Hx); specialize (K x Hx);
    destruct (mem x (light X A)), (mem x A), (mem x B); simpl in *; congruence.
Qed.

Lemma lmin_zero : forall l m, lmin m l = 0 -> m = 0 \/ In 0 l.
Proof.
  induction l as [|d l IH]; intros m H; [left; exact H|].
  rewrite lmin_cons in H. destruct d; [right; left; reflexivity|].
  destruct (IH m) as [E|E]; [lia|left; exact E|right; right; exact E].
Qed.

(** the split is in the tree iff the transfer index is 0 *)
Lemma has_split_delta : forall X A T,
    X <> [] -> (has_split X A T = true <-> delta X (light X A) T = 0).
Proof.
  intros X A T HX. unfold has_split, delta. fold (lmin (length X) (map (tdist X (light X A)) (clades T))).
  rewrite existsb_exists. split.
  - intros [B [HB HS]]. apply tdist_zero_split in HS.
    pose proof (lmin_le_in (map (tdist X (light X A)) (clades T)) (length X) _
                           (in_map (tdist X (light X A)) _ _ HB)) as H.
    lia.
  - intros H. apply lmin_zero in H. destruct H as [H|H].
    + destruct X; [congruence|discriminate].
    + apply in_map_iff in H. destruct H as [B [HB Hin]]. exists B. split; [exact Hin|].
      apply tdist_zero_split. exact HB.
Qed.

(** * a tip branch never matches a branch with two or more taxa on both sides *)
Lemma cnt_single : forall X x, NoDup X -> cnt (fun y => mem y [x]) X <= 1.
Proof.
  intros X x N. induction N as [|a X Ha N IH]; [unfold cnt; simpl; lia|].
  unfold cnt in *. cbn [filter]. destruct (mem a [x]) eqn:E; [|exact IH].
  apply mem_In in E. destruct E as [<-|[]]. cbn [length].
  assert (Z : cnt (fun y => mem y [x]) X = 0).
  { apply cnt_zero. intros y Hy. apply mem_false. intros [->|[]]. contradiction. }
  unfold cnt in Z. lia.
Qed.

Lemma tip_split_false : forall X A x,
    NoDup X -> NoDup A -> incl A X ->
    2 <= Nat.min (length X - length A) (length A) ->
    same_split X A [x] = false.
Proof.
  intros X A x HX HA HAX P.
  destruct (same_split X A [x]) eqn:S; [|reflexivity]. exfalso.
  apply same_split_spec in S. pose proof (cnt_mem_length X A HX HA HAX) as R.
  pose proof (cnt_single X x HX) as C1. destruct S as [S|S].
  - rewrite (cnt_ext_in _ _ (fun y => mem y [x]) X S) in R. lia.
  - rewrite (cnt_ext_in _ _ (fun y => negb (mem y [x])) X S) in R.
    pose proof (cnt_neg _ (fun y => mem y [x]) X). lia.
Qed.

Lemma existsb_filter_skip : forall (f : list string -> bool) (l : list (einfo * utree)),
    (forall ec, In ec l -> is_tip (snd ec) = true -> f (below (snd ec)) = false) ->
    existsb f (map (fun ec => below (snd ec)) (filter (fun ec => negb (is_tip (snd ec))) l))
    = existsb f (map (fun ec => below (snd ec)) l).
Proof.
  intros f l H. induction l as [|ec l IH]; [reflexivity|].
  assert (IH' := IH (fun ec' H' => H ec' (or_intror H'))).
  cbn [filter map existsb]. destruct (is_tip (snd ec)) eqn:T; cbn [negb map existsb].
  - rewrite (H ec (or_introl eq_refl) T). exact IH'.
  - rewrite IH'. reflexivity.
Qed.

(** * one reference branch, one bootstrap tree *)
Section PerTree.
  Variables (ref boot : utree) (e : einfo) (c : utree).
  Hypothesis Gref : good ref.
  Hypothesis Gboot : good boot.
  Hypothesis Same : forall x, In x (leaves ref) <-> In x (leaves boot).
  Hypothesis Hin : In (e, c) (edges ref).

  Let X := leaves ref.
  Let A := leaves c.

  Lemma X_nonempty : X <> [].
  Proof.
    pose proof (A_incl ref e c Gref Hin) as I. pose proof (c_wf ref e c Gref Hin) as W.
    fold X A in I. destruct X; [|discriminate].
    assert (A = []) by (destruct A as [|a A']; [reflexivity|destruct (I a (or_introl eq_refl))]).
    unfold A in H. destruct c as [n cm sl]. simpl in H. destruct (kids_of sl) eqn:K; [discriminate|].
    exfalso. clear -H K I. rewrite flat_map_kids in H. rewrite K in H. simpl in H.
    apply app_eq_nil in H. destruct H as [H _]. destruct p as [e' ch]. simpl in H.
    revert H. generalize ch. induction ch0 as [n' c' sl' IH] using utree_ind'. simpl.
    destruct (kids_of sl') eqn:K'; [discriminate|]. intros H. rewrite flat_map_kids, K' in H. simpl in H.
    apply app_eq_nil in H. destruct H as [H _]. destruct p as [e'' ch'']. simpl in H.
    rewrite Forall_forall in IH. apply (IH (Some (e'', ch''))); [|exact H].
    apply in_kids_of. rewrite K'. left. reflexivity.
  Qed.

  Lemma tbe_index_clades : tbe_index boot = clades boot.
  Proof.
    destruct Gboot as [Wb _]. unfold tbe_index. rewrite clades_subs, <- (edges_subs boot Wb), map_map.
    apply map_ext_in. intros [e' c'] Hc. cbn [snd]. apply all_tip_names_leaves.
    eapply subs_wf; [exact Wb|]. eapply edges_in_subs; eassumption.
  Qed.

  (** (a) TBE's index lookup is "the tree has the split" *)
  Lemma tbe_lookup : index_has (tip_names ref) (tbe_index boot) (below c) = has_split X A boot.
  Proof.
    destruct Gref as [W [D _]]. destruct (model_args ref e c Gref Hin) as [_ [_ [E3 _]]].
    rewrite (tip_names_leaves ref W D), E3, tbe_index_clades. unfold index_has, has_split.
    apply existsb_ext_in. intros B _. apply equal_or_complement_same_split.
  Qed.

  (** (b) FBP's index holds the inner branches only; enough for a branch with >= 2 taxa on
      both sides *)
  Lemma fbp_lookup :
    2 <= topo_depth ref c ->
    index_has (tip_names ref) (fbp_index boot) (below c) = has_split X A boot.
  Proof.
    intros P. rewrite <- tbe_lookup. unfold index_has, fbp_index, tbe_index.
    destruct (model_args ref e c Gref Hin) as [_ [_ [E3 E4]]]. rewrite E4 in P.
    destruct Gref as [W [D N]]. destruct Gboot as [Wb [Db Nb]].
    rewrite (tip_names_leaves ref W D), E3. fold X A.
    apply existsb_filter_skip. intros [e' c'] Hc T. cbn [snd] in *.
    assert (EB : below c' = [uname c']).
    { unfold below. destruct c' as [n' cm' sl']. unfold is_tip, degree in T. simpl in T. simpl. rewrite T. reflexivity. }
    rewrite EB, equal_or_complement_same_split.
    apply (tip_split_false X A (uname c') (X_nodup ref (conj W (conj D N))) (A_nodup ref e c (conj W (conj D N)) Hin)
                           (A_incl ref e c (conj W (conj D N)) Hin) P).
  Qed.

  Lemma delta_le :
    1 <= topo_depth ref c -> delta X (light X A) boot <= topo_depth ref c - 1.
  Proof.
    intros P. destruct (model_args ref e c Gref Hin) as [_ [_ [_ E4]]]. rewrite E4 in *.
    destruct (close_branch ref boot e c Gref Gboot Same Hin P) as [d [Hd Hle]].
    unfold delta. pose proof (lmin_le_in _ (length X) d Hd). unfold X, A, lmin in *. lia.
  Qed.

  (** (c) the distance TBE adds for this tree is the transfer index *)
  Lemma tree_dist_delta :
    2 <= topo_depth ref c -> tree_dist ref c boot = delta X (light X A) boot.
  Proof.
    intros P. unfold tree_dist. rewrite tbe_lookup.
    destruct (has_split X A boot) eqn:H.
    - symmetry. apply (has_split_delta X A boot X_nonempty). exact H.
    - apply (min_transfer_dist_absent_delta ref boot e c Gref Gboot Same Hin P).
      assert (Dz : delta X (light X A) boot <> 0).
      { intros Dz. apply (has_split_delta X A boot X_nonempty) in Dz. congruence. }
      unfold X, A in Dz. lia.
  Qed.
End PerTree.

Lemma sum_bound : forall (has : utree -> bool) (d : utree -> nat) k l,
    (forall b, In b l -> has b = true -> d b = 0) -> (forall b, In b l -> d b <= k) ->
    sumd d l <= (length l - cnt has l) * k.
Proof.
  intros has d k l H0 Hk.
  induction l as [|b l IH]; [simpl; lia|].
  assert (IH' : sumd d l <= (length l - cnt has l) * k).
  { apply IH; [intros; apply H0; [right|]; assumption|intros; apply Hk; right; assumption]. }
  pose proof (cnt_le _ has l) as CL'.
  set (m := length l - cnt has l) in *.
  unfold cnt in *. cbn [sumd fold_right filter length]. fold (sumd d l).
  destruct (has b) eqn:E; cbn [length].
  - rewrite (H0 b (or_introl eq_refl) E).
    replace (S (length l) - S (length (filter has l))) with m by (unfold m; lia). lia.
  - pose proof (Hk b (or_introl eq_refl)).
    replace (S (length l) - length (filter has l)) with (S m) by (unfold m; lia).
    simpl. lia.
Qed.

Lemma sum_zero : forall (d : utree -> nat) l, sumd d l = 0 <-> (forall b, In b l -> d b = 0).
Proof.
  intros d l. induction l as [|b l IH]; simpl.
  - split; [intros _ b []|reflexivity].
  - split.
    + intros H b' [<-|Hb]; [lia|]. apply IH; [lia|exact Hb].
    + intros H. rewrite (H b (or_introl eq_refl)). simpl. apply IH. intros; apply H; right; assumption.
Qed.


Local Open Scope Q_scope.
Lemma q_ineq : forall a N P C,
    0 < N -> 0 < P -> a <= (N - C) * P -> C / N <= 1 - a / N / P.
Proof.
  intros a N P C HN HP H.
  assert (W : a / N / P <= (N - C) / N).
  { apply Qle_shift_div_r; [exact HP|]. apply Qle_shift_div_r; [exact HN|].
    setoid_replace ((N - C) / N * P * N) with ((N - C) * P) by (field; lra). exact H. }
  assert (E : C / N + (N - C) / N == 1) by (field; lra).
  set (u := C / N) in *. set (v := (N - C) / N) in *. set (w := a / N / P) in *.
  clearbody u v w. lra.
Qed.

Lemma qnat_sub : forall a b, (b <= a)%nat -> qnat (a - b) == qnat a - qnat b.
Proof.
  intros a b H. unfold qnat. rewrite Nat2Z.inj_sub by exact H.
  unfold Qeq, Qminus, Qplus, Qopp. simpl. lia.
Qed.

Lemma qnat_inj : forall a b, qnat a == qnat b -> a = b.
Proof. intros a b H. unfold qnat, Qeq in H. simpl in H. lia. Qed.

Local Close Scope Q_scope.

(** * collections *)
Definition same_taxa_p (ref b : utree) : Prop := forall x, In x (leaves ref) <-> In x (leaves b).

Definition domain (ref : utree) (boots : list utree) : Prop :=
  good ref /\ Forall (fun b => good b /\ same_taxa_p ref b) boots.

Section Collection.
  Variables (ref : utree) (boots : list utree) (e : einfo) (c : utree).
  Hypothesis Dom : domain ref boots.
  Hypothesis Hin : In (e, c) (edges ref).

  Let X := leaves ref.
  Let A := leaves c.

  Lemma dom_boot : forall b, In b boots -> good b /\ same_taxa_p ref b.
  Proof. destruct Dom as [_ F]. rewrite Forall_forall in F. exact F. Qed.

  (** (iii) Felsenstein support of the model = the fraction of trees with the split *)
  Theorem fbp_model_spec :
    2 <= topo_depth ref c -> fbp_val ref boots c = fbp_spec X A boots.
  Proof.
    intros P. destruct Dom as [G _]. unfold fbp_val, fbp_spec, n_with_split.
    fold (cnt (has_split X A) boots).
    rewrite (cnt_ext_in _ (fbp_has ref c) (has_split X A) boots); [reflexivity|].
    intros b Hb. destruct (dom_boot b Hb) as [Gb Sb].
    apply (fbp_lookup ref b e c G Gb Hin P).
  Qed.

  Lemma sumd_delta :
    2 <= topo_depth ref c -> sumd (tree_dist ref c) boots = sum_delta X (light X A) boots.
  Proof.
    intros P. destruct Dom as [G _]. unfold sumd, sum_delta.
    pose proof dom_boot as DB. clear Dom. induction boots as [|b bs IH]; [reflexivity|].
    simpl. rewrite IH by (intros; apply DB; right; assumption).
    destruct (DB b (or_introl eq_refl)) as [Gb Sb].
    rewrite (tree_dist_delta ref b e c G Gb Sb Hin P). reflexivity.
  Qed.

  (** transfer support of the model = 1 - mean transfer index / (p - 1) *)
  Theorem tbe_model_spec :
    2 <= topo_depth ref c -> boots <> [] -> tbe_val ref boots c = tbe_spec X A boots.
  Proof.
    intros P NE. destruct Dom as [G _]. unfold tbe_val, tbe_spec.
    replace (Nat.ltb 1 (topo_depth ref c)) with true by (symmetry; apply Nat.ltb_lt; lia).
    destruct boots as [|b0 bs] eqn:B; [congruence|]. rewrite <- B in *.
    rewrite sumd_delta by exact P.
    destruct (model_args ref e c G Hin) as [_ [_ [_ E4]]].
    rewrite (light_length X A (X_nodup ref G) (A_nodup ref e c G Hin) (A_incl ref e c G Hin)).
    rewrite E4. reflexivity.
  Qed.

  (** ** transfer support against Felsenstein support *)
  Lemma has_zero : forall b, In b boots -> 2 <= topo_depth ref c ->
                             (fbp_has ref c b = true <-> tree_dist ref c b = 0).
  Proof.
    intros b Hb P. destruct Dom as [G _]. destruct (dom_boot b Hb) as [Gb Sb].
    unfold fbp_has. rewrite (fbp_lookup ref b e c G Gb Hin P).
    rewrite (tree_dist_delta ref b e c G Gb Sb Hin P).
    apply has_split_delta. apply (X_nonempty ref e c G Hin).
  Qed.

  Local Open Scope Q_scope.

  (** transfer support is never below Felsenstein support *)
  Theorem tbe_ge_fbp :
    (2 <= topo_depth ref c)%nat -> boots <> [] -> fbp_val ref boots c <= tbe_val ref boots c.
  Proof.
    intros P NE. unfold fbp_val, tbe_val.
    replace (Nat.ltb 1 (topo_depth ref c)) with true by (symmetry; apply Nat.ltb_lt; lia).
    destruct boots as [|b0 bs] eqn:B; [congruence|]. rewrite <- B in *.
    assert (Ln : (0 < length boots)%nat) by (rewrite B; simpl; lia).
    apply q_ineq.
    - apply qnat_pos. exact Ln.
    - apply qnat_pos. lia.
    - rewrite <- qnat_sub by apply cnt_le. rewrite <- qnat_mul. apply qnat_le.
      apply sum_bound.
      + intros b Hb H. apply (has_zero b Hb P). exact H.
      + intros b _. apply tree_dist_le.
  Qed.

  Lemma fbp_one : boots <> [] -> (fbp_val ref boots c == 1 <-> cnt (fbp_has ref c) boots = length boots).
  Proof.
    intros NE. unfold fbp_val.
    assert (Ln : 0 < qnat (length boots)).
    { apply qnat_pos. destruct boots; [congruence|simpl; lia]. }
    split.
    - intros H. apply qnat_inj.
      assert (E : qnat (cnt (fbp_has ref c) boots) == qnat (cnt (fbp_has ref c) boots) / qnat (length boots) * qnat (length boots))
        by (field; lra).
      rewrite E, H. ring.
    - intros H. rewrite H. field. lra.
  Qed.

  Lemma tbe_one :
    (2 <= topo_depth ref c)%nat -> boots <> [] ->
    (tbe_val ref boots c == 1 <-> sumd (tree_dist ref c) boots = 0%nat).
  Proof.
    intros P NE. unfold tbe_val.
    replace (Nat.ltb 1 (topo_depth ref c)) with true by (symmetry; apply Nat.ltb_lt; lia).
    destruct boots as [|b0 bs] eqn:B; [congruence|]. rewrite <- B in *.
    assert (Ln : 0 < qnat (length boots)) by (apply qnat_pos; rewrite B; simpl; lia).
    assert (Lp : 0 < qnat (topo_depth ref c - 1)) by (apply qnat_pos; lia).
    set (s := sumd (tree_dist ref c) boots). split.
    - intros H. apply qnat_inj. change (qnat 0) with 0.
      assert (E : qnat s == (qnat s / qnat (length boots) / qnat (topo_depth ref c - 1))
                             * qnat (topo_depth ref c - 1) * qnat (length boots)) by (field; lra).
      assert (Z : qnat s / qnat (length boots) / qnat (topo_depth ref c - 1) == 0).
      { set (w := qnat s / qnat (length boots) / qnat (topo_depth ref c - 1)) in *. clearbody w. lra. }
      rewrite E, Z. ring.
    - intros H. rewrite H. change (qnat 0) with 0. field. lra.
  Qed.

  (** transfer support is 1 exactly when Felsenstein support is 1, i.e. when every bootstrap
      tree has the split *)
  Theorem tbe_one_iff_fbp_one :
    (2 <= topo_depth ref c)%nat -> boots <> [] ->
    (tbe_val ref boots c == 1 <-> fbp_val ref boots c == 1).
  Proof.
    intros P NE. rewrite (tbe_one P NE), (fbp_one NE), sum_zero, cnt_full.
    split; intros H b Hb; apply (has_zero b Hb P); apply H; exact Hb.
  Qed.

  Theorem fbp_one_iff_all :
    (2 <= topo_depth ref c)%nat -> boots <> [] ->
    (fbp_val ref boots c == 1 <-> forall b, In b boots -> has_split X A b = true).
  Proof.
    intros P NE. rewrite (fbp_one NE), cnt_full. destruct Dom as [G _].
    split; intros H b Hb; destruct (dom_boot b Hb) as [Gb Sb]; specialize (H b Hb);
      unfold fbp_has in *; rewrite (fbp_lookup ref b e c G Gb Hin P) in *; exact H.
  Qed.
End Collection.
