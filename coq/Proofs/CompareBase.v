(** C08, part 1: list-level facts.
    - counting lemmas on filters;
    - the loop of Compare over an association-list index, in closed form;
    - transport of the closed form along a relation "key k is the branch whose split is s";
    - set algebra on split lists with pairwise distinct keys. *)
From Coq Require Import String NArith ZArith QArith Bool Arith Lia List Permutation.
From GT Require Import Base.UTree Spec.Obs Spec.CompareSpec Model.Reroot Model.Index Model.HashMap Model.EdgeIndex
     Model.Compare Proofs.Splits Proofs.USplits.
Import ListNotations.
Local Close Scope Q_scope.

(** * filters and counts *)
Lemma filter_partition_length {A} (f : A -> bool) l :
  length (filter f l) + length (filter (fun x => negb (f x)) l) = length l.
Proof. induction l; simpl; auto. destruct (f a); simpl; lia. Qed.

Lemma filter_filter {A} (f g : A -> bool) l : filter f (filter g l) = filter (fun x => g x && f x) l.
Proof.
  induction l as [|a l IH]; simpl; auto.
  destruct (g a); simpl.
  - destruct (f a); now rewrite IH.
  - exact IH.
Qed.

Lemma filter_ext_in' {A} (f g : A -> bool) l : (forall x, In x l -> f x = g x) -> filter f l = filter g l.
Proof.
  induction l; simpl; intros; auto. rewrite (H a) by now left.
  rewrite IHl by (intros; apply H; now right). reflexivity.
Qed.

Lemma count_if_nil {A} (f : A -> bool) : count_if f [] = 0%Z.
Proof. reflexivity. Qed.

Lemma count_if_cons {A} (f : A -> bool) a l :
  count_if f (a :: l) = ((if f a then 1 else 0) + count_if f l)%Z.
Proof. unfold count_if. simpl. destruct (f a); simpl length; lia. Qed.

Lemma forallb_filter_nil {A} (f : A -> bool) l :
  forallb f l = Nat.eqb (length (filter (fun x => negb (f x)) l)) 0.
Proof. induction l; simpl; auto. destruct (f a); simpl; auto. Qed.

Lemma Forall2_in_l {A B} (R : A -> B -> Prop) l l' a :
  Forall2 R l l' -> In a l -> exists b, In b l' /\ R a b.
Proof.
  induction 1; simpl; intros; [contradiction|]. destruct H1 as [->|H1].
  - exists y. auto.
  - destruct (IHForall2 H1) as (b & ? & ?). exists b. auto.
Qed.

Lemma Forall2_app' {A B} (R : A -> B -> Prop) l1 l1' l2 l2' :
  Forall2 R l1 l1' -> Forall2 R l2 l2' -> Forall2 R (l1 ++ l2) (l1' ++ l2').
Proof. induction 1; simpl; auto. Qed.

(** * bucket operations of the association list *)
Lemma bucket_set_none {K V} (eqb : K -> K -> bool) k v (b : list (K * V)) :
  (forall kv, In kv b -> eqb k (fst kv) = false) -> bucket_set K V eqb k v b = None.
Proof.
  induction b as [|[k' v'] r IH]; simpl; intros H; auto.
  pose proof (H (k', v') (or_introl eq_refl)) as E. simpl in E. rewrite E.
  rewrite IH; auto.
Qed.

Lemma assoc_put_fresh {K V} (eqb : K -> K -> bool) k v (a : list (K * V)) :
  (forall kv, In kv a -> eqb k (fst kv) = false) -> assoc_put K V eqb a k v = a ++ [(k, v)].
Proof. intros H. unfold assoc_put. now rewrite bucket_set_none. Qed.

Definition is_some {A} (o : option A) : bool := match o with Some _ => true | None => false end.

Lemma assoc_value_existsb {K V} (eqb : K -> K -> bool) q (a : list (K * V)) :
  is_some (assoc_value K V eqb a q) = existsb (eqb q) (map fst a).
Proof.
  unfold assoc_value, bucket_find. induction a as [|[k v] r IH]; simpl; auto.
  destruct (eqb q k); simpl; auto.
Qed.

Lemma st_eq (a b : Z) (c d : bool) a' b' c' d' :
  a = a' -> b = b' -> c = c' -> d = d' -> Some (a, b, c, d) = Some (a', b', c', d').
Proof. intros; subst; reflexivity. Qed.

(** * the loop of Compare in closed form (association-list index, no identical-only shortcut) *)
Section Loop.
  Variable tips : bool.
  Variable a : aindex.

  Definition cnt (k : ekey) : bool := tips || negb (key_tip k).
  Definition okf (k : ekey) : bool := key_tip k || is_some (assoc_value ekey einfo_v ekey_eqb a k).

  Lemma fold_cmp_noident : forall K2 t c s,
      fold_left (cmp_step aindex ai_value tips false a) K2 (Some (t, c, s, false)) =
      Some ((t + count_if cnt K2)%Z, (c + count_if (fun k => cnt k && okf k) K2)%Z, s && forallb okf K2, false).
  Proof.
    induction K2 as [|k r IH]; intros t c s.
    - simpl. rewrite !count_if_nil, !Z.add_0_r, andb_true_r. reflexivity.
    - simpl fold_left. rewrite !count_if_cons. simpl forallb.
      change (tips || negb (key_tip k)) with (cnt k).
      assert (Eok : okf k = key_tip k || is_some (assoc_value ekey einfo_v ekey_eqb a k)) by reflexivity.
      rewrite Eok. clear Eok.
      destruct (key_tip k), (assoc_value ekey einfo_v ekey_eqb a k), (cnt k);
        cbn [orb andb negb is_some]; cbv iota; rewrite IH;
        rewrite ?andb_true_r, ?andb_false_r, ?andb_false_l, ?andb_true_l;
        apply st_eq; auto; lia.
  Qed.
End Loop.

(** * keys and splits in correspondence *)
Section Abs.
  (** [KS k s]: the key [k] is a branch (of either tree) whose split is [s] *)
  Variable KS : ekey -> split -> Prop.
  Hypothesis KS_eqb : forall k s k' s', KS k s -> KS k' s' -> ekey_eqb k k' = split_key_eqb s s'.
  Hypothesis KS_tip : forall k s, KS k s -> key_tip k = stip s.

  Lemma put_all_fresh : forall K B,
      Forall2 KS K B -> NoDup (map sside B) ->
      forall pre Bpre (a : aindex) i,
        Forall2 KS pre Bpre -> map fst a = pre ->
        (forall s s', In s Bpre -> In s' B -> sside s <> sside s') ->
        exists a', put_all aindex ai_put a i K = Some a' /\ map fst a' = pre ++ K.
  Proof.
    induction 1 as [|k s K B Hks HF IH]; intros ND pre Bpre a i Hpre Ha Hdis.
    - exists a. simpl. now rewrite app_nil_r.
    - simpl in ND. inversion ND as [|? ? Hnin ND']; subst.
      simpl put_all. unfold ai_put at 1.
      rewrite assoc_put_fresh.
      + destruct (IH ND' (map fst a ++ [k]) (Bpre ++ [s]) (a ++ [(k, (i, ek_len k))]) (i + 1)%Z) as (a' & E & M).
        * apply Forall2_app'; auto.
        * now rewrite map_app.
        * intros s1 s2 H1 H2. apply in_app_or in H1. destruct H1 as [H1|[<-|[]]].
          -- apply Hdis; auto. now right.
          -- intro E. apply Hnin. rewrite E. now apply in_map.
        * exists a'. split; auto. rewrite M, <- app_assoc. reflexivity.
      + intros [k' v'] Hin. simpl.
        assert (Hk' : In k' (map fst a)) by (apply in_map_iff; exists (k', v'); auto).
        destruct (Forall2_in_l _ _ _ _ Hpre Hk') as (s' & Hs' & Hks').
        rewrite (KS_eqb _ _ _ _ Hks Hks'). unfold split_key_eqb. apply sset_eqb_false.
        intro E. apply (Hdis s' s); auto. now left.
  Qed.

  Lemma build_index_keys K B :
    Forall2 KS K B -> NoDup (map sside B) ->
    exists a, build_index aindex ai_new ai_put K = Some a /\ map fst a = K.
  Proof.
    intros HF ND. unfold build_index, ai_new.
    destruct (put_all_fresh K B HF ND [] [] [] 0%Z (Forall2_nil _) eq_refl) as (a & E & M).
    { intros ? ? []. }
    exists a. auto.
  Qed.

  Lemma existsb_transport K B q sq :
    Forall2 KS K B -> KS q sq -> existsb (ekey_eqb q) K = has_key B sq.
  Proof.
    intros HF Hq. unfold has_key. induction HF as [|k s K B Hks HF IH]; simpl; auto.
    now rewrite (KS_eqb _ _ _ _ Hq Hks), IH.
  Qed.

  (** counts over keys = counts over splits *)
  Lemma count_transport (f : ekey -> bool) (g : split -> bool) K B :
    Forall2 KS K B -> (forall k s, KS k s -> f k = g s) ->
    count_if f K = Z.of_nat (length (filter g B)) /\ forallb f K = forallb g B.
  Proof.
    intros HF Hfg. induction HF as [|k s K B Hks HF [IH1 IH2]].
    - split; reflexivity.
    - rewrite count_if_cons. simpl. rewrite (Hfg _ _ Hks), IH1, IH2. split; auto.
      destruct (g s); simpl length; lia.
  Qed.
End Abs.

(** * split lists with pairwise distinct keys *)
Lemma has_key_In l s : has_key l s = true <-> exists s', In s' l /\ sside s' = sside s.
Proof.
  unfold has_key. rewrite existsb_exists. split; intros (x & Hx & E); exists x; split; auto.
  - unfold split_key_eqb in E. apply sset_eqb_eq in E. auto.
  - unfold split_key_eqb. apply sset_eqb_eq. auto.
Qed.

Lemma has_key_sides l s : has_key l s = true <-> In (sside s) (map sside l).
Proof.
  rewrite has_key_In, in_map_iff. split; intros (x & H1 & H2); exists x; auto.
Qed.

Lemma NoDup_map_filter {A B} (f : A -> B) (p : A -> bool) l : NoDup (map f l) -> NoDup (map f (filter p l)).
Proof.
  induction l; simpl; intros; auto. inversion H; subst. destruct (p a); simpl; auto.
  constructor; auto. intro Hin. apply H2. apply in_map_iff in Hin. destruct Hin as (x & E & Hx).
  apply filter_In in Hx. apply in_map_iff. exists x. tauto.
Qed.

(** |A /\ B| computed from either side *)
Lemma in_both_sym a b :
  NoDup (map sside a) -> NoDup (map sside b) ->
  length (in_both a b) = length (in_both b a).
Proof.
  intros Na Nb. unfold in_both.
  rewrite <- (map_length sside (filter (has_key b) a)), <- (map_length sside (filter (has_key a) b)).
  apply Permutation_length. apply NoDup_Permutation.
  - now apply NoDup_map_filter.
  - now apply NoDup_map_filter.
  - intros k. rewrite !in_map_iff. split; intros (s & <- & Hs); apply filter_In in Hs; destruct Hs as [Hin Hk].
    + apply has_key_In in Hk. destruct Hk as (s' & Hs' & E). exists s'. split; auto.
      apply filter_In. split; auto. apply has_key_In. exists s. auto.
    + apply has_key_In in Hk. destruct Hk as (s' & Hs' & E). exists s'. split; auto.
      apply filter_In. split; auto. apply has_key_In. exists s. auto.
Qed.

Lemma only_in_length a b : length (only_in a b) = length a - length (in_both a b).
Proof.
  unfold only_in, in_both. pose proof (filter_partition_length (has_key b) a). lia.
Qed.

Lemma in_both_le a b : length (in_both a b) <= length a.
Proof. unfold in_both. pose proof (filter_partition_length (has_key b) a). lia. Qed.

(** * no merge happens in [usplits] when the branches define pairwise distinct bipartitions *)
Lemma add_split_fresh s acc :
  ~ In (sside s) (map sside acc) -> add_split s acc = acc ++ [s].
Proof.
  induction acc as [|x r IH]; simpl; intros H; auto.
  unfold split_key_eqb. destruct (sset_eqb (sside s) (sside x)) eqn:E.
  - apply sset_eqb_eq in E. exfalso. apply H. left. auto.
  - f_equal. apply IH. intro. apply H. now right.
Qed.

Lemma foldsplits_nodup l : NoDup (map sside l) -> foldsplits l = l.
Proof.
  unfold foldsplits.
  assert (G : forall l acc, NoDup (map sside (acc ++ l)) ->
                            fold_left (fun acc s => add_split s acc) l acc = acc ++ l).
  { clear l. induction l as [|s l IH]; simpl; intros acc H.
    - now rewrite app_nil_r.
    - rewrite add_split_fresh.
      + rewrite IH; rewrite <- app_assoc; simpl; auto.
      + rewrite map_app in H. simpl in H. apply NoDup_remove_2 in H.
        intro Hin. apply H. apply in_or_app. now left. }
  intros H. apply (G l []). exact H.
Qed.
