(** C08, part 4: corollaries of [compare_counts]: swapping the trees, independence from the
    rooting / child order (through the order-free specification), rejection of trees on
    different taxa, and the old one-directional identity test (refuted). *)
From Coq Require Import String NArith ZArith QArith Bool Arith Lia List Permutation Sorted.
From GT Require Import Base.UTree Spec.Obs Spec.CompareSpec Spec.Unrooted Model.Reroot Model.Index Model.HashMap Model.EdgeIndex
     Model.Compare Proofs.IndexBase Proofs.IndexTree Proofs.IndexSplit Proofs.Splits Proofs.USplits
     Proofs.CompareBase Proofs.CompareTree Proofs.CompareMain.
Import ListNotations.
Local Close Scope Q_scope.
Local Arguments leaves : simpl never.

(** * swap *)
Lemma dupfree_split_list tips t : dupfree t -> NoDup (map sside (split_list tips t)).
Proof. intros D. unfold split_list. rewrite (usplits_dupfree t D). now apply NoDup_map_filter. Qed.

Lemma spec_counts_swap tips t1 t2 :
  dupfree t1 -> dupfree t2 ->
  spec_counts tips t2 t1 =
  mkCounts (c_only2 (spec_counts tips t1 t2)) (c_both (spec_counts tips t1 t2)) (c_only1 (spec_counts tips t1 t2)).
Proof.
  intros D1 D2. unfold spec_counts. cbn [c_only1 c_only2 c_both]. f_equal.
  apply in_both_sym; now apply dupfree_split_list.
Qed.

Theorem compare_swap tips t1 t2 r :
  good t1 -> good t2 -> Permutation (leaves t1) (leaves t2) ->
  dupfree t1 -> dupfree t2 -> tipflags t1 -> tipflags t2 ->
  compare tips false t1 t2 = Some (Ok r) ->
  compare tips false t2 t1 = Some (Ok (mkBS (bs_tree2 r) (bs_tree1 r) (bs_common r) (bs_same r) (bs_err r))).
Proof.
  intros G1 G2 P D1 D2 F1 F2 H.
  rewrite (compare_counts tips t1 t2 G1 G2 P D1 D2 F1 F2) in H. inversion H; subst; clear H.
  rewrite (compare_counts tips t2 t1 G2 G1 (Permutation_sym P) D2 D1 F2 F1).
  cbn [bs_tree1 bs_tree2 bs_common bs_same bs_err].
  unfold spec_identical. rewrite (spec_counts_swap tips t1 t2 D1 D2). cbn [c_only1 c_only2 c_both].
  now rewrite andb_comm.
Qed.

(** * the specification does not see the order of the branches *)
Lemma has_key_perm l l' s : Permutation l l' -> has_key l s = has_key l' s.
Proof.
  intros P. unfold has_key.
  destruct (existsb (split_key_eqb s) l) eqn:E.
  - symmetry. apply existsb_exists in E. destruct E as (x & Hx & E). apply existsb_exists. exists x. split; auto.
    eapply Permutation_in; eauto.
  - symmetry. destruct (existsb (split_key_eqb s) l') eqn:E'; auto.
    apply existsb_exists in E'. destruct E' as (x & Hx & E').
    assert (existsb (split_key_eqb s) l = true).
    { apply existsb_exists. exists x. split; auto. eapply Permutation_in; [apply Permutation_sym|]; eauto. }
    congruence.
Qed.

Lemma filter_perm' {A} (f : A -> bool) l l' : Permutation l l' -> Permutation (filter f l) (filter f l').
Proof.
  induction 1; simpl; auto.
  - destruct (f x); auto.
  - destruct (f x), (f y); auto. apply perm_swap.
  - eapply Permutation_trans; eauto.
Qed.

Lemma spec_counts_perm tips t1 t1' t2 t2' :
  Permutation (usplits t1) (usplits t1') -> Permutation (usplits t2) (usplits t2') ->
  spec_counts tips t1 t2 = spec_counts tips t1' t2'.
Proof.
  intros P1 P2. unfold spec_counts, split_list.
  set (a := filter (counted tips) (usplits t1)). set (a' := filter (counted tips) (usplits t1')).
  set (b := filter (counted tips) (usplits t2)). set (b' := filter (counted tips) (usplits t2')).
  assert (Pa : Permutation a a') by now apply filter_perm'.
  assert (Pb : Permutation b b') by now apply filter_perm'.
  assert (O : forall x x' y y', Permutation x x' -> Permutation y y' ->
                                length (only_in x y) = length (only_in x' y') /\ length (in_both x y) = length (in_both x' y')).
  { intros x x' y y' Px Py. unfold only_in, in_both. split; apply Permutation_length.
    - rewrite (filter_ext_in' (fun s => negb (has_key y s)) (fun s => negb (has_key y' s)) x).
      + now apply filter_perm'.
      + intros. f_equal. now apply has_key_perm.
    - rewrite (filter_ext_in' (has_key y) (has_key y') x).
      + now apply filter_perm'.
      + intros. now apply has_key_perm. }
  destruct (O a a' b b' Pa Pb) as [E1 E2]. destruct (O b b' a a' Pb Pa) as [E3 _].
  now rewrite E1, E2, E3.
Qed.

(** the record only depends on the multiset of splits of each tree: re-rooting either tree or
    permuting the children of any node (which keep this multiset, Proofs/Splits.v) does not
    change it *)
Theorem compare_invariant tips t1 t1' t2 t2' :
  good t1 -> good t2 -> Permutation (leaves t1) (leaves t2) ->
  dupfree t1 -> dupfree t2 -> tipflags t1 -> tipflags t2 ->
  good t1' -> good t2' ->
  tipset t1' = tipset t1 -> tipset t2' = tipset t2 ->
  Permutation (branch_splits (tipset t1') t1') (branch_splits (tipset t1) t1) ->
  Permutation (branch_splits (tipset t2') t2') (branch_splits (tipset t2) t2) ->
  Permutation (leaves t1') (leaves t2') ->
  compare tips false t1' t2' = compare tips false t1 t2.
Proof.
  intros G1 G2 P D1 D2 F1 F2 G1' G2' E1 E2 P1 P2 P'.
  assert (D1' : dupfree t1').
  { unfold dupfree in *. eapply Permutation_NoDup; [apply Permutation_map, Permutation_sym, P1|]. auto. }
  assert (D2' : dupfree t2').
  { unfold dupfree in *. eapply Permutation_NoDup; [apply Permutation_map, Permutation_sym, P2|]. auto. }
  assert (F1' : tipflags t1').
  { intros s Hs. rewrite E1. apply F1. eapply Permutation_in; eauto. }
  assert (F2' : tipflags t2').
  { intros s Hs. rewrite E2. apply F2. eapply Permutation_in; eauto. }
  rewrite (compare_counts tips t1 t2 G1 G2 P D1 D2 F1 F2).
  rewrite (compare_counts tips t1' t2' G1' G2' P' D1' D2' F1' F2').
  unfold spec_identical.
  rewrite (spec_counts_perm tips t1' t1 t2' t2); auto.
  - rewrite (usplits_dupfree _ D1'), (usplits_dupfree _ D1). exact P1.
  - rewrite (usplits_dupfree _ D2'), (usplits_dupfree _ D2). exact P2.
Qed.

(** instances: re-rooting ([reroot], Model/Reroot.v) and reordering ([tperm], Spec/Unrooted.v) of
    the reference tree *)
Corollary compare_reroot_ref tips t1 i t1' t2 :
  good t1 -> good t2 -> Permutation (leaves t1) (leaves t2) ->
  dupfree t1 -> dupfree t2 -> tipflags t1 -> tipflags t2 ->
  reroot t1 i = Ok t1' -> good t1' ->
  compare tips false t1' t2 = compare tips false t1 t2.
Proof.
  intros G1 G2 P D1 D2 F1 F2 R G1'. pose proof G1 as (W & Dg & ND).
  destruct (reroot_branch_splits t1 i t1' W Dg ND R) as [ET PB].
  apply compare_invariant; auto.
  assert (PL : Permutation (leaves t1') (leaves t1)).
  { apply NoDup_Permutation; [apply G1'|apply G1|]. intros x. rewrite <- !tipset_In, ET. tauto. }
  eapply Permutation_trans; eauto.
Qed.

Corollary compare_tperm_ref tips t1 t1' t2 :
  good t1 -> good t2 -> Permutation (leaves t1) (leaves t2) ->
  dupfree t1 -> dupfree t2 -> tipflags t1 -> tipflags t2 ->
  tperm t1 t1' -> good t1' ->
  compare tips false t1' t2 = compare tips false t1 t2.
Proof.
  intros G1 G2 P D1 D2 F1 F2 T G1'.
  pose proof (tperm_tipset t1 t1' T) as ET.
  apply compare_invariant; auto.
  - rewrite ET. now apply tperm_branch_splits.
  - assert (PL : Permutation (leaves t1') (leaves t1)).
    { apply NoDup_Permutation; [apply G1'|apply G1|]. intros x. rewrite <- !tipset_In, ET. tauto. }
    eapply Permutation_trans; eauto.
Qed.

(** * trees on different taxa: the record carries an error *)
Lemma put_all_assoc_total ks : forall a i, exists a', put_all aindex ai_put a i ks = Some a'.
Proof. induction ks; simpl; intros; eauto. Qed.

Lemma fold_cmp_total tips ident a ks : forall st,
    exists st', fold_left (cmp_step aindex ai_value tips ident a) ks (Some st) = Some st'.
Proof.
  induction ks as [|k r IH]; intros st.
  - simpl. eauto.
  - cbn [fold_left].
    assert (S1 : exists st1, cmp_step aindex ai_value tips ident a (Some st) k = Some st1).
    { destruct st as [[[t c] s] stop]. unfold cmp_step, ai_value. destruct stop; eauto.
      destruct (key_tip k); simpl; eauto.
      destruct (assoc_value ekey einfo_v ekey_eqb a k); eauto. }
    destruct S1 as (st1 & ->). apply IH.
Qed.

Lemma compare_tip_indexes_diff n1 n2 :
  NoDup n1 -> NoDup n2 -> compare_tip_indexes n1 n2 = EmptyString -> forall x, In x n1 <-> In x n2.
Proof.
  intros N1 N2. unfold compare_tip_indexes.
  destruct (Nat.eqb (length n1) 0 || Nat.eqb (length n2) 0 || negb (Nat.eqb (length n1) (length n2))) eqn:E; [discriminate|].
  apply orb_false_iff in E. destruct E as [_ E]. apply negb_false_iff, Nat.eqb_eq in E.
  destruct (forallb (fun k => existsb (String.eqb k) n2) n1) eqn:F; [|discriminate].
  intros _.
  assert (I : incl n1 n2).
  { intros x Hx. rewrite forallb_forall in F. specialize (F x Hx). apply existsb_exists in F.
    destruct F as (y & Hy & Exy). apply String.eqb_eq in Exy. now subst. }
  intros x. split; [apply I|]. apply NoDup_length_incl; auto. lia.
Qed.

Theorem compare_different_taxa tips ident t1 t2 :
  good t1 -> good t2 -> ~ (forall x, In x (leaves t1) <-> In x (leaves t2)) ->
  exists r, compare tips ident t1 t2 = Some (Ok r) /\ bs_err r <> EmptyString.
Proof.
  intros G1 G2 ND. unfold compare, compare_gen.
  rewrite (reinit_good 0 t1 G1), (reinit_good 1 t2 G2).
  unfold build_index. destruct (put_all_assoc_total (branch_keys 0 t1) (ai_new (N.of_nat (length (branch_keys 0 t1) * 2))) 0%Z) as (a & ->).
  destruct (fold_cmp_total tips ident a (branch_keys 1 t2) (0%Z, 0%Z, true, false)) as ([[[tt cc] ss] st] & X).
  unfold cmp_state in *. rewrite X. clear X.
  eexists. split; [reflexivity|]. cbn [bs_err]. intro E. apply ND.
  pose proof G1 as (W1 & Dg1 & N1). pose proof G2 as (W2 & Dg2 & N2).
  destruct (tables_spec t1 W1 Dg1 N1) as (P1 & _ & _). destruct (tables_spec t2 W2 Dg2 N2) as (P2 & _ & _).
  assert (I := compare_tip_indexes_diff _ _ (Permutation_NoDup (Permutation_sym P1) N1)
                                        (Permutation_NoDup (Permutation_sym P2) N2) E).
  intros x. split; intros Hx.
  - apply (Permutation_in _ P2). apply I. apply (Permutation_in _ (Permutation_sym P1)). exact Hx.
  - apply (Permutation_in _ P1). apply I. apply (Permutation_in _ (Permutation_sym P2)). exact Hx.
Qed.

(** * the identity test before the fix eda8b7a: Sametree was set from the compared tree's branches
    only.  [compare_old] is the model without the final test; it reports a strict contraction
    of the reference as identical. *)
Definition compare_old_same (tips : bool) (t1 t2 : utree) : option bool :=
  match reinit 0 t1, reinit 1 t2 with
  | Some (Ok (_, ks1)), Some (Ok (_, ks2)) =>
    match build_index aindex ai_new ai_put ks1 with
    | Some idx =>
      match fold_left (cmp_step aindex ai_value tips false idx) ks2 (Some (0%Z, 0%Z, true, false)) with
      | Some (_, _, same, _) => Some same
      | None => None
      end
    | None => None
    end
  | _, _ => None
  end.

Local Open Scope string_scope.
Definition tipn (s : string) : utree := UNode s [] [None].
Definition br (c : utree) : slot := Some (mkE 1%Q nilv nilv [], c).
(** ((a,b),c,d) and its contraction (a,b,c,d) *)
Definition wit_ref : utree := UNode "" [] [br (UNode "" [] [None; br (tipn "a"); br (tipn "b")]); br (tipn "c"); br (tipn "d")].
Definition wit_star : utree := UNode "" [] [br (tipn "a"); br (tipn "b"); br (tipn "c"); br (tipn "d")].

Theorem sametree_old_refuted :
  exists t1 t2, compare_old_same false t1 t2 = Some true /\ spec_identical false t1 t2 = false.
Proof. exists wit_ref, wit_star. split; vm_compute; reflexivity. Qed.

(** after the fix the model agrees with the specification on the witness (and, by
    [compare_counts], on every pair of the domain) *)
Example sametree_witness_fixed :
  compare false false wit_ref wit_star = Some (Ok (mkBS 1 0 0 false "")).
Proof. vm_compute. reflexivity. Qed.
