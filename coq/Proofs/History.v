(** C03: every successful history of edits leaves a well-formed tree.

    One wf-preservation lemma per operation of Model/History.v -- taken from the developments
    of C05 (reroot, unroot, outgroup, midpoint, rotate, sort), C06 (prune), C07 (collapse,
    resolve), C15 (local edits, copies), C17 (NNI), C02 (rename) -- then induction over the
    history.  Where the lemma of an operation needs more than [wf] of the current tree the
    requirement is the explicit side condition [side] of that step. *)
From Coq Require Import String ZArith QArith Bool Arith Lia List Permutation.
From GT Require Import Base.UTree Spec.Obs Model.Reroot Model.History.
From GT Require Model.Outgroup Model.Prune Model.Collapse Model.LocalEdit Model.NNI Model.Nexus
     Model.Newick Model.NewickNum Spec.NewickSpec.
From GT Require Proofs.ParsimonyReroot Proofs.Unroot Proofs.C05Main Proofs.OutgroupKeep Proofs.OutgroupRemoveMain
     Proofs.OutgroupMidpoint Proofs.Prune Proofs.CollapseBase Proofs.CollapseResolve Proofs.LocalEdit
     Proofs.LocalEditClone Proofs.LocalEditInsertAll Proofs.LocalEditSingle Proofs.NNITop Proofs.NexusFirst
     Proofs.Enum Proofs.NewickTheorem Proofs.NewickNumC Proofs.NewickWf.
Import ListNotations.
Local Close Scope Q_scope.
Local Open Scope string_scope.

(** * Reroot: from the one-step lemma *)
Lemma reroot_path_wf : forall p t t', wf t = true -> reroot_path t p = Some t' -> wf t' = true.
Proof.
  induction p as [|k p IH]; intros t t' W H; simpl in H.
  - inversion H; subst; exact W.
  - destruct (rotate_to t k) as [t1|] eqn:E; [|discriminate].
    apply (IH t1 t'); [|exact H]. eapply Proofs.ParsimonyReroot.rotate_to_wf; eauto.
Qed.

Lemma reroot_wf : forall t i t', wf t = true -> reroot t i = Ok t' -> wf t' = true.
Proof.
  intros t i t' W H. unfold reroot in H.
  destruct (nth_error (paths t) i) as [p|]; [|discriminate].
  destruct (node_at t p) as [n|]; [|discriminate].
  destruct (Nat.ltb (degree n) 2); [discriminate|].
  destruct (reroot_path t p) as [t1|] eqn:E; [|discriminate].
  inversion H; subst. eapply reroot_path_wf; eauto.
Qed.

(** * the tip-name index after ReinitIndexes *)
Lemma name_in_In : forall x l, Model.Prune.name_in x l = true <-> In x l.
Proof.
  intros x l. unfold Model.Prune.name_in. rewrite existsb_exists. split.
  - intros [y [Hy E]]. apply String.eqb_eq in E. subst. exact Hy.
  - intros H. exists x. split; [exact H|apply String.eqb_refl].
Qed.

Lemma has_dup_NoDup : forall l, Model.Prune.has_dup l = false -> NoDup l.
Proof.
  induction l as [|x r IH]; intros H; [constructor|].
  simpl in H. apply orb_false_iff in H as [H1 H2]. constructor; [|auto].
  intros HIn. apply name_in_In in HIn. congruence.
Qed.

(** when ReinitIndexes succeeds the tip names are pairwise distinct *)
Lemma reinit_NoDup_tips : forall t u, reinit t = Ok u -> NoDup (tip_names t).
Proof.
  intros t u H. unfold reinit, Model.Prune.update_tip_index in H.
  destruct (Model.Prune.has_dup (tip_names t)) eqn:E; [discriminate|].
  now apply has_dup_NoDup.
Qed.

Lemma reinit_NoDup_leaves : forall t u,
  wf t = true -> 2 <= degree t -> reinit t = Ok u -> NoDup (leaves t).
Proof.
  intros t u W D H. rewrite <- (Proofs.Prune.tip_names_leaves t W D). eapply reinit_NoDup_tips; eauto.
Qed.

(** * a rooted tree with at least three tips has an inner node next to its root *)
Lemma rooted_three_tips : forall t,
  wf t = true -> 3 <= length (tips t) -> rooted t = true -> Proofs.Unroot.root_has_inner_child t = true.
Proof.
  intros t W L R.
  destruct (Proofs.Unroot.rooted_shape t W R) as (n0&c0&e1&n1&c1&sl1&e2&n2&c2&sl2&->).
  unfold Proofs.Unroot.root_has_inner_child, kids. simpl.
  destruct (is_tip (UNode n1 c1 sl1)) eqn:T1; [|reflexivity].
  destruct (is_tip (UNode n2 c2 sl2)) eqn:T2; [|reflexivity].
  exfalso.
  unfold wf in W. simpl in W. apply andb_true_iff in W as [W1 W2]. apply andb_true_iff in W2 as [W2 _].
  unfold is_tip, degree in T1, T2. simpl in T1, T2. apply Nat.eqb_eq in T1, T2.
  assert (S1 : sl1 = [None]) by (apply (Proofs.Enum.wf_sub_small n1 c1); [exact W1|lia]).
  assert (S2 : sl2 = [None]) by (apply (Proofs.Enum.wf_sub_small n2 c2); [exact W2|lia]).
  subst. simpl in L. lia.
Qed.

(** * NNI *)
Lemma nni_pick_In : forall k t r, nni_pick k t = Some r -> In r (Model.NNI.nni_list t).
Proof.
  intros k t r H. unfold nni_pick in H.
  destruct (Model.NNI.nni_list t) as [|a l] eqn:E; [discriminate|].
  eapply nth_error_In; eauto.
Qed.

Lemma nni_step_wf : forall k u t t', wf t = true -> nni_step k u t = Ok t' -> wf t' = true.
Proof.
  intros k u t t' W H. unfold nni_step in H.
  destruct (nni_pick k t) as [r|] eqn:P; [|inversion H; subst; exact W].
  apply nni_pick_In in P.
  destruct (Model.NNI.apply r t) as [t1|] eqn:A; [|discriminate].
  destruct (Proofs.NNITop.apply_neighbour t r t1 W P A) as [W1 _].
  destruct u; [|inversion H; subst; exact W1].
  destruct (Proofs.NNITop.undo_apply_list t r W P) as [t1' [A' U']].
  rewrite A in A'. inversion A'; subst t1'. rewrite U' in H. inversion H; subst. exact W.
Qed.

(** * side conditions *)
(** what the lemma of an operation needs beyond [wf] of the current tree:
    - trees given as arguments are well formed;
    - RerootOutGroup: the root has at least two neighbours (with removal: distinct tip names);
    - RerootMidPoint: the root has at least two neighbours and UnRoot does not root at a tip;
    - RemoveTips: no single-child inner node (the proviso of the property), the root has at
      least two neighbours, distinct tip names;
    - InsertIdenticalTips: the root has at least two neighbours, no empty name among the tips or
      in the groups.
    Distinct tip names follow from the success of ReinitIndexes when the step starts with it. *)
Definition distinct_tips (re : bool) (t : utree) : Prop := re = true \/ NoDup (leaves t).

Definition side (s : bool * op) (t : utree) : Prop :=
  match snd s with
  | OOutgroup remove _ _ => 2 <= degree t /\ (remove = true -> distinct_tips (fst s) t)
  | OMidpoint => 2 <= degree t /\ (rooted t = true -> Proofs.Unroot.root_has_inner_child t = true)
  | OPrune _ _ => no_single t = true /\ 2 <= degree t /\ distinct_tips (fst s) t
  | OInsert groups => 2 <= degree t /\ ~ In "" (tip_names t) /\ Forall (fun g => ~ In "" g) groups
  | OGraft _ g => wf g = true
  | OMerge t2 => wf t2 = true
  | _ => True
  end.

(** operations whose step needs no side condition at all *)
Definition unconditional (o : op) : bool :=
  match o with
  | OOutgroup _ _ _ | OMidpoint | OPrune _ _ | OInsert _ | OGraft _ _ | OMerge _ => false
  | _ => true
  end.

Lemma unconditional_side : forall re o t, unconditional o = true -> side (re, o) t.
Proof. intros re o t H. destruct o; simpl in *; try discriminate; exact I. Qed.

(** * one operation *)
Lemma run_op_wf : forall o t t',
  wf t = true -> side (false, o) t -> run_op o t = Ok t' -> wf t' = true.
Proof.
  intros o t t' W S H. destruct o; simpl in S, H.
  - (* reroot *) eapply reroot_wf; eauto.
  - (* unroot *) inversion H; subst. now apply Proofs.Unroot.unroot_wf_any.
  - (* outgroup *)
    destruct (Nat.ltb (length (tips t)) 3) eqn:L; [discriminate|].
    apply Nat.ltb_ge in L. destruct S as [D N].
    pose proof (rooted_three_tips t W L) as R.
    destruct remove.
    + destruct (N eq_refl) as [F|N']; [discriminate|].
      now destruct (Proofs.OutgroupRemoveMain.reroot_outgroup_remove strict t names t' W D R N' H) as [W' _].
    + now destruct (Proofs.OutgroupKeep.reroot_outgroup_keep_preserves strict t names t' W D R H) as [W' _].
  - (* midpoint *)
    destruct S as [D R].
    now destruct (Proofs.OutgroupMidpoint.reroot_midpoint_wf_leaves t t' W D R H) as [W' _].
  - (* rotate *)
    inversion H; subst. destruct (Proofs.C05Main.rotate_all_all t cs) as [_ [W' _]]. now apply W'.
  - (* sort *)
    inversion H; subst. destruct (Proofs.C05Main.sort_by_tips_all t) as [_ [W' _]]. now apply W'.
  - (* prune *)
    destruct S as [NS [D [F|N]]]; [discriminate|].
    now destruct (Proofs.Prune.remove_tips_ok revert names t t' W NS D N H) as [W' _].
  - (* collapse by length *)
    inversion H; subst. unfold Model.Collapse.collapse_len. now apply Proofs.CollapseBase.remove_edges_wf.
  - (* collapse by support *)
    inversion H; subst. unfold Model.Collapse.collapse_sup. now apply Proofs.CollapseBase.remove_edges_wf.
  - (* collapse by depth *)
    unfold Model.Collapse.collapse_depth in H.
    destruct (existsb _ (edges t)); [discriminate|].
    inversion H; subst. now apply Proofs.CollapseBase.remove_edges_wf.
  - (* resolve *)
    inversion H; subst. now apply Proofs.CollapseResolve.resolve_wf.
  - (* remove single nodes *)
    inversion H; subst. now destruct (Proofs.LocalEditSingle.remove_single_wf t W).
  - (* graft *)
    eapply Proofs.LocalEdit.graft_wf; eauto.
  - (* insert identical tips *)
    destruct S as [D [E G]].
    eapply (Proofs.LocalEditInsertAll.insert_identical_wf t t' (tip_names t) groups); eauto.
    intros x Hx. rewrite (Proofs.Prune.tip_names_leaves t W D). exact Hx.
  - (* merge *)
    now destruct (Proofs.LocalEdit.merge_wf t t2 t' _ _ H W S).
  - (* NNI *)
    eapply nni_step_wf; eauto.
  - (* rename *)
    destruct (Model.Nexus.rename_tree [(old, new)] t) as [t1|m] eqn:E; [|discriminate].
    inversion H; subst. rewrite (Proofs.NexusFirst.rename_tree_wf _ _ _ E). exact W.
  - (* clone *)
    inversion H; subst. apply Proofs.LocalEditClone.clone_wf.
  - (* subtree *)
    destruct (Model.LocalEdit.subtree t i) as [s|] eqn:E; [|discriminate].
    inversion H; subst.
    destruct (Proofs.LocalEditClone.subtree_spec t i t' E) as [node [_ [_ [W' _]]]]. exact W'.
Qed.

(** * one step: optionally ReinitIndexes first *)
Lemma side_after_reinit : forall re o t u,
  wf t = true -> side (re, o) t -> (re = true -> reinit t = Ok u) -> side (false, o) t.
Proof.
  intros re o t u W S R. destruct o; simpl in *; try exact S.
  - destruct S as [D N]. split; [exact D|]. intros Hr. destruct (N Hr) as [F|N']; [|now right].
    right. eapply reinit_NoDup_leaves; eauto.
  - destruct S as [NS [D [F|N]]]; (split; [exact NS|split; [exact D|right]]); [|exact N].
    eapply reinit_NoDup_leaves; eauto.
Qed.

Lemma run_step_wf : forall s t t',
  wf t = true -> side s t -> run_step s t = Ok t' -> wf t' = true.
Proof.
  intros [re o] t t' W S H. unfold run_step in H. simpl in H.
  destruct re.
  - destruct (reinit t) as [u|m] eqn:R; [|discriminate].
    eapply run_op_wf; eauto. eapply side_after_reinit; eauto.
  - eapply run_op_wf; eauto.
Qed.

(** * histories *)
(** the side conditions hold at every state the history goes through *)
Fixpoint sides (ops : list (bool * op)) (t : utree) : Prop :=
  match ops with
  | [] => True
  | s :: r => side s t /\ forall t', run_step s t = Ok t' -> sides r t'
  end.

Theorem history_wf : forall ops t0 t,
  wf t0 = true -> sides ops t0 -> run ops t0 = Ok t -> wf t = true.
Proof.
  induction ops as [|s r IH]; intros t0 t W S H; simpl in H.
  - inversion H; subst; exact W.
  - destruct S as [S1 S2].
    destruct (run_step s t0) as [t1|m] eqn:E; [|discriminate].
    apply (IH t1 t); [eapply run_step_wf; eauto | now apply S2 | exact H].
Qed.

(** histories over the operations that need no side condition: reroot, unroot, rotate, sort,
    collapse (all three), resolve, remove single nodes, NNI apply/undo, rename, clone, subtree *)
Lemma unconditional_sides : forall ops t,
  Forall (fun s => unconditional (snd s) = true) ops -> sides ops t.
Proof.
  induction ops as [|[re o] r IH]; intros t F; simpl; [exact I|].
  inversion F; subst. split; [now apply unconditional_side|]. intros t' _. now apply IH.
Qed.

Theorem history_wf_unconditional : forall ops t0 t,
  Forall (fun s => unconditional (snd s) = true) ops ->
  wf t0 = true -> run ops t0 = Ok t -> wf t = true.
Proof.
  intros ops t0 t F W H. eapply history_wf; eauto. now apply unconditional_sides.
Qed.

(** every state of a successful history is well formed, not only the last one *)
Theorem history_prefix_wf : forall ops1 ops2 t0 t,
  wf t0 = true -> sides (ops1 ++ ops2) t0 -> run (ops1 ++ ops2) t0 = Ok t ->
  exists t1, run ops1 t0 = Ok t1 /\ wf t1 = true /\ run ops2 t1 = Ok t.
Proof.
  induction ops1 as [|s r IH]; intros ops2 t0 t W S H.
  - exists t0. simpl. auto.
  - simpl in H, S. destruct S as [S1 S2].
    destruct (run_step s t0) as [t1|m] eqn:E; [|discriminate].
    destruct (IH ops2 t1 t) as [t2 [R1 [W2 R2]]]; [eapply run_step_wf; eauto | now apply S2 | exact H |].
    exists t2. simpl. rewrite E. auto.
Qed.

(** * corollaries: the enumerations agree, the text is the structure *)
Theorem history_enumerations : forall ops t0 t,
  wf t0 = true -> sides ops t0 -> run ops t0 = Ok t ->
  length (edges t) + 1 = length (nodes t) /\
  Permutation (edges t) (internal_edges t ++ tip_edges t) /\
  (forall p, In p (tip_edges t) -> is_tip (snd p) = true) /\
  (forall p, In p (internal_edges t) -> is_tip (snd p) = false) /\
  (is_tip t = false -> length (tip_edges t) = length (tips t)).
Proof.
  intros ops t0 t W S H. pose proof (history_wf ops t0 t W S H) as Wt.
  split; [now apply Proofs.Enum.edges_nodes|].
  split; [apply Proofs.Enum.edges_split|].
  split; [apply Proofs.Enum.tip_edges_are_tips|].
  split; [apply Proofs.Enum.internal_edges_are_inner|].
  now apply Proofs.Enum.tip_edges_tips.
Qed.

(** when the final tree is inside the writer's domain (the quantifier of C01) the reference
    reader accepts the text written for it and gives back the same rooted ordered tree with
    all its decorations; writing that tree again gives the same text *)
Theorem history_text : forall ops t0 t,
  wf t0 = true -> sides ops t0 -> run ops t0 = Ok t ->
  Spec.NewickSpec.wfN Model.NewickNum.numericC Model.NewickNum.numokC t = true ->
  exists t', Model.Newick.parse Model.NewickNum.numericC Model.NewickNum.parse_numC
                                (Model.Newick.write Model.NewickNum.fmt_go t) = Model.Newick.POk t' /\
             Spec.NewickSpec.rose_eqb (Spec.NewickSpec.rose_of t') (Spec.NewickSpec.rose_of t) = true /\
             Model.Newick.write Model.NewickNum.fmt_go t' = Model.Newick.write Model.NewickNum.fmt_go t /\
             wf t' = true.
Proof.
  intros ops t0 t W S H N.
  destruct (Proofs.NewickTheorem.round_trip Model.NewickNum.fmt_go Model.NewickNum.numericC
              Model.NewickNum.parse_numC Model.NewickNum.numokC Proofs.NewickNumC.strconv_ok_C t N)
    as [t' [P [R Wr]]].
  exists t'. repeat split; auto.
  eapply Proofs.NewickWf.parse_wf; eauto.
Qed.

(** * the boolean side conditions of Model/History.v imply the propositional ones *)
Lemma distinct_tips_b_sound : forall re t, distinct_tips_b re t = true -> distinct_tips re t.
Proof.
  intros re t H. unfold distinct_tips_b in H. apply orb_true_iff in H as [H|H].
  - left. exact H.
  - right. apply has_dup_NoDup. now apply negb_true_iff in H.
Qed.

Lemma name_in_false : forall x l, Model.Prune.name_in x l = false -> ~ In x l.
Proof. intros x l H HIn. apply name_in_In in HIn. congruence. Qed.

Lemma side_b_sound : forall s t, side_b s t = true -> side s t.
Proof.
  intros [re o] t H. destruct o; unfold side_b in H; unfold side; cbn [snd fst] in *; try exact I.
  - apply andb_true_iff in H as [D N]. apply Nat.leb_le in D. split; [exact D|].
    intros ->. simpl in N. now apply distinct_tips_b_sound.
  - apply andb_true_iff in H as [D N]. apply Nat.leb_le in D. split; [exact D|].
    intros R. rewrite R in N. simpl in N. exact N.
  - apply andb_true_iff in H as [H N]. apply andb_true_iff in H as [S D]. apply Nat.leb_le in D.
    split; [exact S|]. split; [exact D|]. now apply distinct_tips_b_sound.
  - exact H.
  - apply andb_true_iff in H as [H G]. apply andb_true_iff in H as [D E]. apply Nat.leb_le in D.
    split; [exact D|]. split.
    + apply name_in_false. now apply negb_true_iff in E.
    + apply Forall_forall. intros g Hg. rewrite forallb_forall in G.
      apply name_in_false. specialize (G g Hg). now apply negb_true_iff in G.
  - exact H.
Qed.

Lemma sides_b_sound : forall ops t, sides_b ops t = true -> sides ops t.
Proof.
  induction ops as [|s r IH]; intros t H; simpl in *; [exact I|].
  apply andb_true_iff in H as [S R]. split; [now apply side_b_sound|].
  intros t' E. rewrite E in R. now apply IH.
Qed.

(** the history theorem with decidable hypotheses *)
Theorem history_wf_b : forall ops t0 t,
  wf t0 = true -> sides_b ops t0 = true -> run ops t0 = Ok t -> wf t = true.
Proof. intros ops t0 t W S H. eapply history_wf; eauto. now apply sides_b_sound. Qed.
