(** C05, midpoint rooting, the two refusals:
    - a branch without length anywhere in the (unrooted) tree: "some branches have no length";
    - every branch of length 0: "cannot reroot at midpoint: all tip to tip paths have a null length". *)
From Coq Require Import String ZArith QArith Bool Arith Lia Lqa List Permutation Setoid Morphisms.
From GT Require Import Base.UTree Spec.Obs Model.Reroot Model.Outgroup Spec.Unrooted
     Proofs.RerootBase Proofs.Reroot Proofs.Reorder Proofs.Unroot Proofs.Splits Proofs.USplits Proofs.C05Main
     Proofs.OutgroupBase Proofs.OutgroupCut Proofs.OutgroupKeep Proofs.OutgroupLCA Proofs.OutgroupClade
     Proofs.OutgroupMain Proofs.OutgroupSide Proofs.OutgroupRemove Proofs.OutgroupMidpoint
     Proofs.OutgroupMidDist Proofs.OutgroupMlp Proofs.OutgroupHalf Proofs.OutgroupSplits Proofs.OutgroupSplitsMain.
Import ListNotations.
Local Close Scope Q_scope.
Local Arguments n_up : simpl never.

Definition is_nil_len (x : bentry) : bool := qeqb (elen (fst (fst x))) nilv.

(** * MaxLengthPath fails exactly when some branch below has no length *)
Lemma mlp_go_none rec l :
  (exists j e c, nth_error l j = Some (Some (e, c)) /\ (qeqb (elen e) nilv = true \/ rec c = None)) ->
  forall i best cur, mlp_go rec i l best cur = None.
Proof.
  induction l as [|s r IH]; intros (j & e & c & Hj & Hc) i best cur.
  - destruct j; discriminate.
  - destruct s as [[e0 c0]|]; simpl.
    + destruct j as [|j]; simpl in Hj.
      * inversion Hj; subst e0 c0. destruct Hc as [Hc|Hc]; [now rewrite Hc|].
        destruct (qeqb (elen e) nilv); auto. now rewrite Hc.
      * destruct (qeqb (elen e0) nilv); auto. destruct (rec c0) as [[p l']|]; auto.
        destruct (qltb cur (l' + elen e0) || no_path best); apply IH; eauto 6.
    + destruct j as [|j]; simpl in Hj; [discriminate|]. apply IH; eauto 6.
Qed.

Lemma mlp_none s : (exists x, In x (bsplits s) /\ is_nil_len x = true) -> mlp s = None.
Proof.
  induction s as [n c sl IH] using utree_ind'. intros (x & Hx & Hn).
  rewrite mlp_unfold. apply mlp_go_none.
  simpl in Hx. apply in_flat_map in Hx as [s [Hs Hx]].
  destruct s as [[e ch]|]; [|destruct Hx].
  destruct (In_nth_error _ _ Hs) as [j Hj]. exists j, e, ch. split; auto.
  destruct Hx as [<-|Hx].
  - left. exact Hn.
  - right. rewrite Forall_forall in IH. apply (IH _ Hs). eauto.
Qed.

Lemma mlp_go_some rec l :
  (forall j e c, nth_error l j = Some (Some (e, c)) ->
                 qeqb (elen e) nilv = false /\ exists p l', rec c = Some (p, l')) ->
  forall i best cur, exists best' cur', mlp_go rec i l best cur = Some (best', cur').
Proof.
  induction l as [|s r IH]; intros H i best cur; simpl; eauto.
  destruct s as [[e c]|].
  - destruct (H 0 e c eq_refl) as [E [p [l' Er]]]. rewrite E, Er.
    destruct (qltb cur (l' + elen e) || no_path best); apply IH; intros j e' c' Hj; apply (H (S j)); auto.
  - apply IH. intros j e' c' Hj. apply (H (S j)); auto.
Qed.

Lemma mlp_some s : (forall x, In x (bsplits s) -> is_nil_len x = false) -> exists p l, mlp s = Some (p, l).
Proof.
  induction s as [n c sl IH] using utree_ind'. intros H.
  rewrite mlp_unfold. apply mlp_go_some. intros j e ch Hj.
  assert (Hs : In (Some (e, ch)) sl) by (eapply nth_error_In; eauto).
  split.
  - apply (H (e, leaves ch, match kids ch with [] => true | _ => false end)).
    simpl. apply in_flat_map. exists (Some (e, ch)). split; auto. now left.
  - rewrite Forall_forall in IH. apply (IH _ Hs). intros x Hx. apply H.
    simpl. apply in_flat_map. exists (Some (e, ch)). split; auto. now right.
Qed.

(** * the view from every tip exists and has the branches of the unrooted tree *)
Lemma view_from_defined t1 q lf :
  wf t1 = true -> 2 <= degree t1 -> In (q, lf) (tip_paths t1) ->
  exists v, view_from t1 q = Some v /\
            splits_equiv (leaves t1) (bsplits (tv_tree v)) (bsplits t1).
Proof.
  intros W1 D1 Hin. apply tip_paths_In in Hin as [Hn Htip].
  unfold view_from. destruct q as [|k0 r0].
  - simpl in Hn. inversion Hn; subst. unfold is_tip in Htip. apply Nat.eqb_eq in Htip. lia.
  - cbv zeta.
    assert (Hq : k0 :: r0 = removelast (k0 :: r0) ++ [last (k0 :: r0) 0])
      by (apply removelast_last_nat; discriminate).
    remember (removelast (k0 :: r0)) as q' eqn:Eq'.
    remember (last (k0 :: r0) 0) as j eqn:Ej'.
    rewrite Hq, node_at_app in Hn.
    destruct (node_at t1 q') as [A|] eqn:EA; [|discriminate].
    cbn [node_at] in Hn.
    destruct (nth_error (uslots A) j) as [[[e ch]|]|] eqn:Ej; try discriminate.
    assert (DA : 2 <= degree A).
    { destruct q' as [|k1 r1].
      - simpl in EA. now inversion EA; subst.
      - eapply wf_sub_with_child; eauto.
        apply (node_at_wf_sub (k1 :: r1) t1 A); [left; exact W1 | discriminate | exact EA]. }
    assert (PO : path_ok t1 q') by (apply (node_at_path_ok q' t1 A); [left; exact W1 | exact EA | exact DA]).
    destruct (reroot_path_preserves _ _ W1 D1 PO) as [t2 [E2 _]].
    rewrite E2. eexists. split; [reflexivity|]. cbn [tv_tree].
    apply (reroot_path_bsplits q' t1 t2 W1 D1 PO E2).
Qed.

(** the branches of the view: that of the start tip, and those below its neighbour *)
Lemma view_bsplits n c sl j ea lf x :
  nth_error sl j = Some (Some (ea, lf)) -> kids lf = [] ->
  In x (bsplits (UNode n c sl)) ->
  fst (fst x) = ea \/ In x (bsplits (UNode n c (set_nth j None sl))).
Proof.
  intros Hj Klf Hx. destruct (kids_of_set_nth sl j (ea, lf) Hj) as [K1 [K2 [F1 F2]]].
  rewrite bsplits_unfold, F1, kbs_app, kbs_cons in Hx. cbn [fst snd] in Hx.
  assert (Bl : bsplits lf = []).
  { destruct lf as [nm cm slm]. unfold kids in Klf. simpl in Klf. rewrite bsplits_unfold, Klf. reflexivity. }
  rewrite Bl in Hx. simpl in Hx.
  rewrite bsplits_unfold, F2, kbs_app.
  apply in_app_or in Hx as [Hx|[<-|Hx]]; [right|left|right]; auto; apply in_or_app; auto.
Qed.

Lemma tip_paths_nonempty t1 : wf t1 = true -> 2 <= degree t1 -> tip_paths t1 <> [].
Proof.
  intros W D E.
  assert (Hl : leaves t1 <> []).
  { clear. induction t1 as [n c sl IH] using utree_ind'. rewrite leaves_unfold.
    destruct (kids_of sl) as [|[e ch] K] eqn:EK; [discriminate|].
    rewrite kleaves_cons. cbn [snd]. intros H. apply app_eq_nil in H as [H _].
    rewrite Forall_forall in IH. assert (In (Some (e, ch)) sl) by (apply kids_of_In; rewrite EK; now left).
    exact (IH _ H0 H). }
  destruct (leaves t1) as [|x r] eqn:El; [congruence|].
  destruct (tip_paths_of_leaf t1 x W D) as (q & lf & Hin & _); [rewrite El; now left|].
  rewrite E in Hin. destruct Hin.
Qed.

(** * a branch without length *)
Theorem reroot_midpoint_missing_length t :
  wf t = true -> 2 <= degree t -> (rooted t = true -> root_has_inner_child t = true) ->
  (exists x, In x (bsplits (unroot t)) /\ is_nil_len x = true) ->
  reroot_midpoint t = Err "some branches have no length"%string.
Proof.
  intros Hwf Hd Hi (x & Hx & Hn).
  destruct (unroot_stage t Hwf Hd Hi) as [W1 [D1 _]].
  rewrite (reroot_midpoint_gen_eq t D1). unfold reroot_midpoint_gen.
  set (t1 := unroot t) in *.
  set (f := fun (st : res (mp_state * Q)) (pn : list nat * utree) => _).
  assert (FE : forall l m, fold_left f l (Err m) = Err m) by (induction l; simpl; auto).
  destruct (tip_paths t1) as [|[q lf] l] eqn:Et; [exfalso; now apply (tip_paths_nonempty t1 W1 D1)|].
  assert (Hin : In (q, lf) (tip_paths t1)) by (rewrite Et; now left).
  destruct (view_from_defined t1 q lf W1 D1 Hin) as [v [Hv SE]].
  assert (Hm : mlp_tip v = None).
  { pose proof Hin as Hin'. apply tip_paths_In in Hin' as [Hnq Htip].
    destruct (view_tip_slot t1 q lf v Hnq Hv) as [ea Ha].
    destruct (view_from_spec _ _ _ _ W1 D1 Hnq Hv) as [W2 _].
    symmetry in SE.
    destruct (PermR_In _ _ (bs_eq_Equivalence (leaves t1)) _ _ SE _ Hx) as [[[e' X'] b'] [Hy [E1 _]]].
    simpl in E1.
    unfold mlp_tip. destruct (tv_tree v) as [n c sl] eqn:E2. simpl uslots in Ha. rewrite Ha.
    assert (Wlf : wf_sub lf = true).
    { rewrite wf_unfold in W2. apply andb_true_iff in W2 as [_ W2]. rewrite forallb_forall in W2.
      apply (W2 (ea, lf)). apply kids_of_In. eapply nth_error_In; eauto. }
    assert (Klf : kids lf = []).
    { destruct lf as [nl cl sll]. rewrite wf_sub_unfold in Wlf. apply andb_true_iff in Wlf as [U _].
      apply Nat.eqb_eq in U. unfold is_tip, degree in Htip. simpl in Htip. apply Nat.eqb_eq in Htip.
      unfold kids. simpl. pose proof (length_slots sll) as HL. rewrite U, Htip in HL.
      destruct (kids_of sll); [reflexivity | simpl in HL; lia]. }
    destruct (view_bsplits n c sl (tv_slot v) ea lf _ Ha Klf Hy) as [Ee|Hin2].
    - simpl in Ee. unfold is_nil_len in Hn. rewrite <- Ee, <- E1. now rewrite Hn.
    - destruct (qeqb (elen ea) nilv); auto.
      rewrite (mlp_none (UNode n c (set_nth (tv_slot v) None sl))); auto.
      exists (e', X', b'). split; auto. unfold is_nil_len in *. cbn [fst]. now rewrite <- E1. }
  simpl fold_left. unfold f at 1. simpl fst. rewrite Hv, Hm. now rewrite FE.
Qed.

(** * every branch of length 0 *)
Theorem reroot_midpoint_all_zero t :
  wf t = true -> 2 <= degree t -> (rooted t = true -> root_has_inner_child t = true) ->
  (forall x, In x (bsplits (unroot t)) -> (elen (fst (fst x)) == 0)%Q) ->
  reroot_midpoint t = Err "cannot reroot at midpoint: all tip to tip paths have a null length"%string.
Proof.
  intros Hwf Hd Hi Hz.
  destruct (unroot_stage t Hwf Hd Hi) as [W1 [D1 _]].
  rewrite (reroot_midpoint_gen_eq t D1). unfold reroot_midpoint_gen.
  set (t1 := unroot t) in *.
  set (f := fun (st : res (mp_state * Q)) (pn : list nat * utree) => _).
  assert (Step : forall pn, In pn (tip_paths t1) -> f (Ok (MPNone, 0%Q)) pn = Ok (MPNone, 0%Q)).
  { intros [q lf] Hin. unfold f. simpl fst.
    destruct (view_from_defined t1 q lf W1 D1 Hin) as [v [Hv SE]]. rewrite Hv.
    pose proof Hin as Hin'. apply tip_paths_In in Hin' as [Hnq Htip].
    destruct (view_tip_slot t1 q lf v Hnq Hv) as [ea Ha].
    (* every branch of the view has length 0 *)
    assert (Z2 : forall y, In y (bsplits (tv_tree v)) -> (elen (fst (fst y)) == 0)%Q).
    { intros y Hy.
      destruct (PermR_In _ _ (bs_eq_Equivalence (leaves t1)) _ _ SE _ Hy) as [[[e' X'] b'] [Hy' [E1 _]]].
      rewrite E1. exact (Hz _ Hy'). }
    unfold mlp_tip. destruct (tv_tree v) as [n c sl] eqn:E2. simpl uslots in Ha. rewrite Ha.
    assert (Zea : (elen ea == 0)%Q).
    { apply (Z2 (ea, leaves lf, isleaf lf)). apply (node_at_bsplits [] (UNode n c sl) (UNode n c sl) _ ea lf eq_refl Ha). }
    assert (Nea : qeqb (elen ea) nilv = false).
    { destruct (qeqb (elen ea) nilv) eqn:E; auto. apply isnil_iff in E. lra. }
    rewrite Nea.
    set (A' := UNode n c (set_nth (tv_slot v) None sl)).
    assert (ZA : forall y, In y (bsplits A') -> (elen (fst (fst y)) == 0)%Q).
    { intros y Hy. apply Z2. unfold A' in Hy.
      destruct (kids_of_set_nth sl _ _ Ha) as [K1 [K2 [F1 F2]]].
      rewrite bsplits_unfold, F2, kbs_app in Hy. rewrite bsplits_unfold, F1, kbs_app, kbs_cons.
      apply in_app_or in Hy as [Hy|Hy]; apply in_or_app; [left; auto | right; right; apply in_or_app; auto]. }
    destruct (mlp_some A') as [p [l0 Em]].
    { intros y Hy. unfold is_nil_len. specialize (ZA y Hy).
      destruct (qeqb (elen (fst (fst y))) nilv) eqn:E; auto. apply isnil_iff in E. lra. }
    rewrite Em.
    destruct (mlp_spec _ _ _ Em) as [Hl0 _].
    assert (Zl0 : (l0 == 0)%Q).
    { rewrite Hl0. clear Hl0.
      assert (F : Forall (fun e => (elen e == 0)%Q) (path_edges A' p)).
      { destruct (mlp_leaf _ _ _ Em) as [[_ ->]|[_ [_ [b [Hb _]]]]]; [constructor|].
        eapply Forall_impl; [|apply (path_edges_in p A' b Hb)]. intros e (L & bb & Hin2). exact (ZA _ Hin2). }
      induction F as [|e r He Hr IH]; simpl; [reflexivity|]. rewrite He, IH. ring. }
    assert (Eq : qltb 0 (l0 + elen ea) = false).
    { unfold qltb. apply negb_false_iff. apply Qle_bool_iff. rewrite Zl0, Zea. lra. }
    now rewrite Eq. }
  assert (Scan : forall l, incl l (tip_paths t1) -> fold_left f l (Ok (MPNone, 0%Q)) = Ok (MPNone, 0%Q)).
  { induction l as [|pn l IH]; intros Hi'; [reflexivity|].
    change (fold_left f (pn :: l) (Ok (MPNone, 0%Q))) with (fold_left f l (f (Ok (MPNone, 0%Q)) pn)).
    rewrite Step by (apply Hi'; now left). apply IH. intros y Hy. apply Hi'. now right. }
  rewrite (Scan _ (incl_refl _)). reflexivity.
Qed.
