(** hashmap.HashMap's RWMutex discipline (Model/RWLock.v): mutual exclusion, linearizability at
    the granularity of whole operations (every interleaving is equivalent to a sequential
    order of the operations that respects each thread's program order; linearization points:
    the read inside Value, the end of the update inside PutValue), and the read-only case
    (index built before the workers start, then only Value calls — Compare, FBP, TBE). *)
From Coq Require Import Bool Arith Lia List.
From GT Require Import Model.Pool Model.RWLock Proofs.Pool.
Import ListNotations.

Local Arguments threads {key val mp} _.
Local Arguments readers {key val mp} _.
Local Arguments writer {key val mp} _.
Local Arguments themap {key val mp} _.
Local Arguments torn {key val mp} _.
Local Arguments rlog {key val mp} _.
Local Arguments mkRW {key val mp}.
Local Arguments rwstep {key val mp}.
Local Arguments rwrun {key val mp}.
Local Arguments rwinit {key val mp}.
Local Arguments quiescent {key val mp}.
Local Arguments seq_step {key val mp}.
Local Arguments seq_exec {key val mp}.
Local Arguments proj {key val}.
Local Arguments upd_thr {key val mp}.

Lemma nth_mid_cases {A} (l1 l2 : list A) (x x' y : A) t :
  nth_error (l1 ++ x' :: l2) t = Some y ->
  (t = length l1 /\ y = x') \/ (t <> length l1 /\ nth_error (l1 ++ x :: l2) t = Some y).
Proof.
  intros H. destruct (Nat.eq_dec t (length l1)) as [E|E].
  - left. subst t. rewrite nth_error_mid_eq in H. injection H as <-. auto.
  - right. split; auto. rewrite (nth_error_mid_neq l1 l2 x x') by auto. exact H.
Qed.

Section RWProofs.
  Variables (key val mp : Type).
  Variable get : mp -> key -> option val.
  Variable put : mp -> key -> val -> mp.
  Variable garbage : option val.

  Local Notation state := (rw key val mp).
  Local Notation thread := (thr key val).
  Local Notation oper := (op key val).
  Local Notation stepf := (rwstep get put garbage).
  Local Notation runf := (rwrun get put garbage).
  Local Notation entry := (nat * key * option val)%type.

  (** * the step as a relation *)

  Inductive rstep (s : state) (t : nat) : state -> Prop :=
  | R_stutter : rstep s t s
  | R_rlock l1 l2 k rest :
      threads s = l1 ++ mkThr (Get k :: rest) P0 :: l2 -> length l1 = t -> writer s = false ->
      rstep s t (mkRW (l1 ++ mkThr (Get k :: rest) PR :: l2) (S (readers s)) (writer s)
                      (themap s) (torn s) (rlog s))
  | R_wlock l1 l2 k v rest :
      threads s = l1 ++ mkThr (Put k v :: rest) P0 :: l2 -> length l1 = t ->
      writer s = false -> readers s = 0 ->
      rstep s t (mkRW (l1 ++ mkThr (Put k v :: rest) PW :: l2) (readers s) true
                      (themap s) (torn s) (rlog s))
  | R_read l1 l2 k rest :
      threads s = l1 ++ mkThr (Get k :: rest) PR :: l2 -> length l1 = t ->
      rstep s t (mkRW (l1 ++ mkThr (Get k :: rest) PRd :: l2) (readers s) (writer s)
                      (themap s) (torn s)
                      (rlog s ++ [(t, k, if torn s then garbage else get (themap s) k)]))
  | R_runlock l1 l2 o rest :
      threads s = l1 ++ mkThr (o :: rest) PRd :: l2 -> length l1 = t ->
      rstep s t (mkRW (l1 ++ mkThr rest P0 :: l2) (pred (readers s)) (writer s)
                      (themap s) (torn s) (rlog s))
  | R_tear l1 l2 k v rest :
      threads s = l1 ++ mkThr (Put k v :: rest) PW :: l2 -> length l1 = t ->
      rstep s t (mkRW (l1 ++ mkThr (Put k v :: rest) PWt :: l2) (readers s) (writer s)
                      (themap s) true (rlog s))
  | R_write l1 l2 k v rest :
      threads s = l1 ++ mkThr (Put k v :: rest) PWt :: l2 -> length l1 = t ->
      rstep s t (mkRW (l1 ++ mkThr (Put k v :: rest) PWd :: l2) (readers s) (writer s)
                      (put (themap s) k v) false (rlog s))
  | R_wunlock l1 l2 o rest :
      threads s = l1 ++ mkThr (o :: rest) PWd :: l2 -> length l1 = t ->
      rstep s t (mkRW (l1 ++ mkThr rest P0 :: l2) (readers s) false
                      (themap s) (torn s) (rlog s)).

  Lemma rwstep_spec s t : rstep s t (stepf s t).
  Proof.
    unfold rwstep, upd_thr.
    destruct (nth_error (threads s) t) as [th|] eqn:E; [|apply R_stutter].
    destruct (nth_error_mid _ _ _ E) as (l1 & l2 & Hl & Hlen & Hset).
    destruct th as [td p]. simpl.
    destruct p; destruct td as [|[k|k v] rest]; try apply R_stutter.
    - destruct (writer s) eqn:W; [apply R_stutter|].
      rewrite Hset. rewrite <- W. eapply R_rlock; eauto.
    - destruct (writer s) eqn:W; simpl; [apply R_stutter|].
      destruct (readers s =? 0) eqn:Z; simpl; [|apply R_stutter].
      apply Nat.eqb_eq in Z. rewrite Hset. eapply R_wlock; eauto.
    - rewrite Hset. eapply R_read; eauto.
    - rewrite Hset. eapply R_runlock; eauto.
    - rewrite Hset. eapply R_runlock; eauto.
    - rewrite Hset. eapply R_tear; eauto.
    - rewrite Hset. eapply R_write; eauto.
    - rewrite Hset. eapply R_wunlock; eauto.
    - rewrite Hset. eapply R_wunlock; eauto.
  Qed.

  (** * the lock: mutual exclusion *)

  Definition cR (th : thread) : nat := match ph th with PR | PRd => 1 | _ => 0 end.
  Definition cW (th : thread) : nat := match ph th with PW | PWt | PWd => 1 | _ => 0 end.
  Definition cT (th : thread) : nat := match ph th with PWt => 1 | _ => 0 end.
  Definition cnt (g : thread -> nat) (l : list thread) : nat := list_sum (map g l).

  Lemma cnt_mid g l1 th l2 : cnt g (l1 ++ th :: l2) = cnt g l1 + g th + cnt g l2.
  Proof. unfold cnt. rewrite map_app, list_sum_app. simpl. lia. Qed.

  Lemma cnt_T_le_W l : cnt cT l <= cnt cW l.
  Proof.
    unfold cnt. induction l as [|th l IH]; simpl; auto.
    assert (cT th <= cW th) by (unfold cT, cW; destruct (ph th); lia). lia.
  Qed.

  Definition b1 (b : bool) : nat := if b then 1 else 0.

  Record lock_inv (s : state) : Prop := mkLI {
    li_readers : readers s = cnt cR (threads s);
    li_writer : b1 (writer s) = cnt cW (threads s);
    li_excl : writer s = true -> readers s = 0;
    li_torn : b1 (torn s) = cnt cT (threads s)
  }.

  Lemma lock_inv_init progs m0 : lock_inv (rwinit progs m0).
  Proof.
    assert (Z : forall g, g (mkThr (@nil oper) P0) = 0 -> (forall p, g (mkThr p P0) = 0) ->
                cnt g (map (fun p => mkThr p P0) progs) = 0).
    { intros g _ Hg. unfold cnt. induction progs as [|p l IH]; simpl; auto. rewrite Hg. auto. }
    split; simpl; try rewrite Z; auto; discriminate.
  Qed.

  Lemma lock_inv_step s t : lock_inv s -> lock_inv (stepf s t).
  Proof.
    intros [Hr Hw He Ht].
    pose proof (cnt_T_le_W (threads s)) as Hle.
    destruct (rwstep_spec s t) as
      [ | l1 l2 k rest Hth Hl W | l1 l2 k v rest Hth Hl W Z | l1 l2 k rest Hth Hl
        | l1 l2 o rest Hth Hl | l1 l2 k v rest Hth Hl | l1 l2 k v rest Hth Hl
        | l1 l2 o rest Hth Hl ];
      [split; auto| | | | | | | ];
      pose proof (cnt_T_le_W l1); pose proof (cnt_T_le_W l2);
      rewrite Hth in *; split; simpl; rewrite ?cnt_mid in *;
      unfold cR, cW, cT, b1 in *; simpl in *;
      try (destruct (writer s)); try (destruct (torn s)); simpl in *;
      try lia; try discriminate; try (intros; lia).
  Qed.

  Lemma lock_inv_run sched s : lock_inv s -> lock_inv (runf sched s).
  Proof.
    revert s. induction sched as [|a sched IH]; intros s H; simpl; auto.
    apply IH, lock_inv_step, H.
  Qed.

  (** a thread that holds the read lock sees a consistent map *)
  Lemma reader_sees_whole s l1 l2 td :
    lock_inv s -> threads s = l1 ++ mkThr td PR :: l2 -> torn s = false.
  Proof.
    intros [Hr Hw He Ht] Hth.
    pose proof (cnt_T_le_W (threads s)) as Hle.
    rewrite Hth in *. rewrite !cnt_mid in *. unfold cR, cW, cT, b1 in *. simpl in *.
    destruct (torn s); auto. destruct (writer s); simpl in *; [specialize (He eq_refl)|]; lia.
  Qed.

  (** * the history *)

  Definition unlin (th : thread) : list oper :=
    match ph th with PRd | PWd => tl (todo th) | _ => todo th end.

  Variable progs : list (list oper).
  Variable m0 : mp.

  Definition hist_inv (ths : list thread) (m : mp) (log : list entry) : Prop :=
    length ths = length progs /\
    exists h,
      seq_exec get put h m0 = (m, log)
      /\ (forall t th, nth_error ths t = Some th ->
                       exists p, nth_error progs t = Some p /\ p = proj t h ++ unlin th)
      /\ (forall t o, In (t, o) h -> exists p, nth_error progs t = Some p /\ In o p).

  Lemma hist_silent l1 th th' l2 m log :
    hist_inv (l1 ++ th :: l2) m log -> unlin th' = unlin th -> hist_inv (l1 ++ th' :: l2) m log.
  Proof.
    intros (Hlen & h & Hs & Hp & Hi) Hu. split.
    - rewrite <- Hlen. rewrite !app_length. reflexivity.
    - exists h. repeat split; auto.
      intros t th'' Hn. destruct (nth_mid_cases l1 l2 th th' th'' t Hn) as [[-> ->]|[Hne Hn']].
      + rewrite Hu. apply Hp. apply nth_error_mid_eq.
      + apply Hp. exact Hn'.
  Qed.

  Lemma proj_snoc_same t h (o : oper) : proj t (h ++ [(t, o)]) = proj t h ++ [o].
  Proof. unfold proj. rewrite filter_app, map_app. simpl. now rewrite Nat.eqb_refl. Qed.

  Lemma proj_snoc_other t t' h (o : oper) : t' <> t -> proj t' (h ++ [(t, o)]) = proj t' h.
  Proof.
    intros H. unfold proj. rewrite filter_app, map_app. simpl.
    destruct (Nat.eqb_spec t t'); [congruence|]. simpl. apply app_nil_r.
  Qed.

  Lemma hist_lin l1 th th' l2 m log o m' log' :
    hist_inv (l1 ++ th :: l2) m log -> unlin th = o :: unlin th' ->
    seq_step get put (m, log) (length l1, o) = (m', log') ->
    hist_inv (l1 ++ th' :: l2) m' log'.
  Proof.
    intros (Hlen & h & Hs & Hp & Hi) Hu Hstep. split.
    - rewrite <- Hlen. rewrite !app_length. reflexivity.
    - exists (h ++ [(length l1, o)]).
      destruct (Hp (length l1) th (nth_error_mid_eq _ _ _)) as (p0 & Hp0 & Ep0).
      repeat split.
      + unfold seq_exec in *. rewrite fold_left_app, Hs. simpl. exact Hstep.
      + intros t th'' Hn.
        destruct (nth_mid_cases l1 l2 th th' th'' t Hn) as [[-> ->]|[Hne Hn']].
        * exists p0. split; auto. rewrite proj_snoc_same, <- app_assoc. simpl.
          rewrite <- Hu. exact Ep0.
        * rewrite proj_snoc_other by auto. apply Hp. exact Hn'.
      + intros t o' Hin. apply in_app_or in Hin. destruct Hin as [Hin|[Hin|[]]].
        * apply (Hi _ _ Hin).
        * injection Hin as <- <-. exists p0. split; auto. rewrite Ep0, Hu.
          apply in_or_app. right. left. reflexivity.
  Qed.

  Definition hinv (s : state) : Prop := hist_inv (threads s) (themap s) (rlog s).

  Lemma nth_error_map_some {A B} (g : A -> B) l t y :
    nth_error (map g l) t = Some y -> exists x, nth_error l t = Some x /\ y = g x.
  Proof.
    revert t. induction l as [|a l IH]; intros [|t] H; simpl in *; try discriminate.
    - injection H as <-. eauto.
    - apply IH. exact H.
  Qed.

  Lemma hinv_init : hinv (rwinit progs m0).
  Proof.
    split; simpl.
    - apply map_length.
    - exists []. repeat split; auto.
      + intros t th H. apply nth_error_map_some in H. destruct H as (p & Hp & ->).
        exists p. auto.
      + intros t o [].
  Qed.

  Lemma hinv_step s t : lock_inv s -> hinv s -> hinv (stepf s t).
  Proof.
    intros LI H. unfold hinv in *.
    destruct (rwstep_spec s t) as
      [ | l1 l2 k rest Hth Hl W | l1 l2 k v rest Hth Hl W Z | l1 l2 k rest Hth Hl
        | l1 l2 o rest Hth Hl | l1 l2 k v rest Hth Hl | l1 l2 k v rest Hth Hl
        | l1 l2 o rest Hth Hl ]; auto; simpl; rewrite Hth in H.
    - eapply hist_silent; [exact H|reflexivity].
    - eapply hist_silent; [exact H|reflexivity].
    - rewrite (reader_sees_whole s l1 l2 _ LI Hth).
      eapply hist_lin; [exact H|reflexivity|subst t; reflexivity].
    - eapply hist_silent; [exact H|reflexivity].
    - eapply hist_silent; [exact H|reflexivity].
    - eapply hist_lin; [exact H|reflexivity|subst t; reflexivity].
    - eapply hist_silent; [exact H|reflexivity].
  Qed.

  Lemma invs_run sched s : lock_inv s -> hinv s -> lock_inv (runf sched s) /\ hinv (runf sched s).
  Proof.
    revert s. induction sched as [|a sched IH]; intros s L H; simpl; auto.
    apply IH; [apply lock_inv_step|apply hinv_step]; auto.
  Qed.

  (** * linearizability *)

  Lemma quiescent_unlin (s : state) t th :
    quiescent s = true -> nth_error (threads s) t = Some th -> unlin th = [].
  Proof.
    unfold quiescent. rewrite forallb_forall. intros Q E.
    specialize (Q th (nth_error_In _ _ E)). unfold unlin.
    destruct (todo th); [|discriminate]. destruct (ph th); auto.
  Qed.

  Lemma linearizable sched :
    let s := runf sched (rwinit progs m0) in
    exists h,
      seq_exec get put h m0 = (themap s, rlog s)
      /\ (forall t p, nth_error progs t = Some p -> exists rest, p = proj t h ++ rest)
      /\ (forall t o, In (t, o) h -> exists p, nth_error progs t = Some p /\ In o p)
      /\ (quiescent s = true -> forall t p, nth_error progs t = Some p -> proj t h = p).
  Proof.
    intros s.
    destruct (invs_run sched _ (lock_inv_init progs m0) hinv_init) as [_ (Hlen & h & Hs & Hp & Hi)].
    fold s in Hlen, Hs, Hp.
    assert (Hth : forall t p, nth_error progs t = Some p ->
                  exists th, nth_error (threads s) t = Some th /\ p = proj t h ++ unlin th).
    { intros t p Hn.
      destruct (nth_error (threads s) t) as [th|] eqn:E.
      - exists th. split; auto. destruct (Hp t th E) as (p' & Hp' & Ep'). congruence.
      - apply nth_error_None in E. rewrite Hlen in E.
        assert (nth_error progs t <> None) by congruence.
        apply nth_error_Some in H. lia. }
    exists h. repeat split; auto.
    - intros t p Hn. destruct (Hth t p Hn) as (th & _ & E). eauto.
    - intros Q t p Hn. destruct (Hth t p Hn) as (th & E1 & E2).
      rewrite (quiescent_unlin s t th Q E1), app_nil_r in E2. auto.
  Qed.

  (** * read-only workloads *)

  Definition key_of (o : oper) : key := match o with Get k => k | Put k _ => k end.
  Definition is_get (o : oper) : bool := match o with Get _ => true | Put _ _ => false end.

  (** what thread [t] got back, in order: (key, value) *)
  Definition results (t : nat) (log : list entry) : list (key * option val) :=
    map (fun e => (snd (fst e), snd e)) (filter (fun e => Nat.eqb (fst (fst e)) t) log).

  Definition entry_of (m : mp) (x : nat * oper) : entry := (fst x, key_of (snd x), get m (key_of (snd x))).

  Lemma seq_exec_gets h : forall m log,
    (forall x, In x h -> is_get (snd x) = true) ->
    fold_left (seq_step get put) h (m, log) = (m, log ++ map (entry_of m) h).
  Proof.
    induction h as [|[t o] h IH]; intros m log H; simpl.
    - now rewrite app_nil_r.
    - assert (is_get o = true) as G by (apply (H (t, o)); left; auto).
      destruct o as [k|k v]; [|discriminate]. unfold seq_step at 2. simpl.
      rewrite IH by (intros; apply H; right; auto).
      rewrite <- app_assoc. reflexivity.
  Qed.

  Lemma results_entries m t h :
    results t (map (entry_of m) h) = map (fun o => (key_of o, get m (key_of o))) (proj t h).
  Proof.
    unfold results, proj. induction h as [|[t' o] h IH]; simpl; auto.
    destruct (Nat.eqb t' t); simpl; rewrite IH; auto.
  Qed.

  Lemma read_only sched :
    (forall p o, In p progs -> In o p -> is_get o = true) ->
    let s := runf sched (rwinit progs m0) in
    themap s = m0
    /\ (forall t k v, In (t, k, v) (rlog s) -> v = get m0 k)
    /\ (quiescent s = true -> forall t p, nth_error progs t = Some p ->
        results t (rlog s) = map (fun o => (key_of o, get m0 (key_of o))) p).
  Proof.
    intros Hg s. destruct (linearizable sched) as (h & Hs & Hpre & Hin & Hq). fold s in Hs, Hq.
    assert (Hall : forall x, In x h -> is_get (snd x) = true).
    { intros [t o] Hx. destruct (Hin t o Hx) as (p & Hp & Ho). simpl.
      apply (Hg p o); auto. eapply nth_error_In; eauto. }
    unfold seq_exec in Hs. rewrite (seq_exec_gets h m0 [] Hall) in Hs. simpl in Hs.
    injection Hs as Hm Hl. repeat split; auto.
    - intros t k v Hi. rewrite <- Hl in Hi. apply in_map_iff in Hi.
      destruct Hi as ([t' o] & E & _). unfold entry_of in E. simpl in E.
      injection E as _ <- <-. reflexivity.
    - intros Q t p Hn. rewrite <- Hl, results_entries, (Hq Q t p Hn). reflexivity.
  Qed.

End RWProofs.
