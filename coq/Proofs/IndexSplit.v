(** Branches of trees on the same taxa: equal-or-complement of the bitsets is "same
    bipartition", and the same bipartition always has the same HashCode, whatever the rooting,
    the orientation of the branch or the order of the children. *)
From Coq Require Import String Ascii NArith ZArith Bool Arith Lia List Permutation Sorted.
From GT Require Import Base.UTree Spec.Obs Model.Reroot Model.Index Proofs.IndexBase Proofs.IndexTree.
Import ListNotations.

(** * bit vectors *)
Lemma list_eqb_bool_eq : forall a b : list bool, list_eqb Bool.eqb a b = true <-> a = b.
Proof.
  induction a; destruct b; simpl; split; intros; try discriminate; auto.
  - apply andb_prop in H. destruct H. apply eqb_prop in H. apply IHa in H0. congruence.
  - inversion H; subst. rewrite eqb_reflx. simpl. now apply IHa.
Qed.

Lemma bits_equal_iff : forall a b, bits_equal a b = true <-> a = b.
Proof.
  unfold bits_equal. split; intros.
  - apply andb_prop in H. destruct H. now apply list_eqb_bool_eq.
  - subst. rewrite Nat.eqb_refl. simpl. now apply list_eqb_bool_eq.
Qed.

Lemma bits_complement_iff : forall a b, bits_complement a b = true <-> map negb a = b.
Proof.
  unfold bits_complement. split; intros.
  - apply andb_prop in H. destruct H. now apply list_eqb_bool_eq.
  - subst. rewrite map_length, Nat.eqb_refl. simpl. now apply list_eqb_bool_eq.
Qed.

Lemma map_negb_invol : forall a, map negb (map negb a) = a.
Proof. induction a; simpl; auto. now rewrite negb_involutive, IHa. Qed.

Lemma eoc_iff : forall a b, equal_or_complement a b = true <-> (a = b \/ map negb a = b).
Proof.
  unfold equal_or_complement. intros. rewrite orb_true_iff, bits_equal_iff, bits_complement_iff. tauto.
Qed.

Lemma eoc_sym : forall a b, equal_or_complement a b = true -> equal_or_complement b a = true.
Proof.
  intros a b. rewrite !eoc_iff. intros [->|<-]; auto. right. apply map_negb_invol.
Qed.

Lemma eoc_trans : forall a b c,
    equal_or_complement a b = true -> equal_or_complement b c = true -> equal_or_complement a c = true.
Proof.
  intros a b c. rewrite !eoc_iff. intros [->|<-] [->|<-]; auto. left. symmetry. apply map_negb_invol.
Qed.

Lemma list_ext_test : forall a b : list bool,
    length a = length b -> (forall i, i < length a -> test_bit a i = test_bit b i) -> a = b.
Proof.
  unfold test_bit. induction a; destruct b; simpl; intros; try lia; auto.
  f_equal.
  - apply (H0 0). lia.
  - apply IHa; [lia|]. intros i Hi. apply (H0 (S i)). lia.
Qed.

Lemma test_bit_map_negb : forall a i, i < length a -> test_bit (map negb a) i = negb (test_bit a i).
Proof.
  unfold test_bit. induction a; simpl; intros; [lia|]. destruct i; auto. apply IHa. lia.
Qed.

Lemma eoc_test : forall a b,
    length a = length b ->
    (equal_or_complement a b = true <->
     (forall i, i < length a -> test_bit a i = test_bit b i) \/
     (forall i, i < length a -> test_bit a i = negb (test_bit b i))).
Proof.
  intros a b HL. rewrite eoc_iff. split.
  - intros [->|<-]; [left; auto|]. right. intros. rewrite test_bit_map_negb by auto. now rewrite negb_involutive.
  - intros [E|C]; [left; now apply list_ext_test|].
    right. apply list_ext_test; [now rewrite map_length|].
    intros i Hi. rewrite map_length in Hi. rewrite test_bit_map_negb by auto. rewrite (C i Hi). apply negb_involutive.
Qed.

(** * modular cancellation *)
Lemma w64_cancel : forall a b c, (a < W64)%N -> (b < W64)%N -> w64 (a + c) = w64 (b + c) -> a = b.
Proof.
  intros a b c Ha Hb E. unfold w64 in E.
  assert (W : W64 <> 0%N) by discriminate.
  pose proof (N.div_mod c W64 W) as Dc.
  set (q := (c / W64)%N) in *. set (r := (c mod W64)%N) in *.
  assert (Hr : (r < W64)%N) by (apply N.mod_lt; auto).
  assert (forall x, (x < W64)%N -> ((x + c + (W64 - r)) mod W64 = x)%N) as F.
  { intros x Hx. replace (x + c + (W64 - r))%N with (x + (q + 1) * W64)%N by lia.
    rewrite N.mod_add by auto. now apply N.mod_small. }
  rewrite <- (F a Ha), <- (F b Hb).
  rewrite <- (N.add_mod_idemp_l (a + c)), <- (N.add_mod_idemp_l (b + c)) by auto.
  now rewrite E.
Qed.

(** * rows attached to branches *)
Definition branch_row (t : utree) (ec : einfo * utree) (r : erow) : Prop :=
  In (ec, r) (combine (edges t) (rows t)).

Lemma Forall2_combine_in : forall A B (P : A -> B -> Prop) l1 l2 a b,
    Forall2 P l1 l2 -> In (a, b) (combine l1 l2) -> P a b.
Proof.
  induction 1; simpl; intros; [contradiction|].
  destruct H1; [inversion H1; subst; auto | auto].
Qed.

Definition good (t : utree) : Prop := wf t = true /\ 2 <= degree t /\ NoDup (leaves t).

Lemma branch_row_describes : forall t ec r,
    good t -> branch_row t ec r -> row_describes (sorted_tip_names t) t ec r /\ In ec (edges t).
Proof.
  intros t ec r (W & D & ND) B. split.
  - destruct (tables_spec t W D ND) as (_ & _ & F). eapply Forall2_combine_in; eauto.
  - eapply in_combine_l; eauto.
Qed.

Lemma nodup_app_r : forall A (l l' : list A), NoDup (l ++ l') -> NoDup l'.
Proof. induction l; simpl; intros; auto. inversion H; subst. auto. Qed.
Lemma nodup_app_l : forall A (l l' : list A), NoDup (l ++ l') -> NoDup l.
Proof.
  induction l; simpl; intros; [constructor|]. inversion H; subst. constructor; eauto.
  intro. apply H2. apply in_or_app. now left.
Qed.
Lemma nodup_app : forall A (l l' : list A),
    NoDup l -> NoDup l' -> (forall x, In x l -> In x l' -> False) -> NoDup (l ++ l').
Proof.
  induction l; simpl; intros; auto. inversion H; subst. constructor.
  - intro Hin. apply in_app_or in Hin. destruct Hin; auto. apply (H1 a); auto.
  - apply IHl; auto. intros. apply (H1 x); auto.
Qed.

(** the tips below a branch are distinct and are tips of the tree *)
Lemma sub_leaves_split : forall (pre : list slot) s post,
    sub_leaves (pre ++ s :: post) = sub_leaves pre ++ slot_leaves s ++ sub_leaves post.
Proof. intros. unfold sub_leaves. rewrite flat_map_app. reflexivity. Qed.

Lemma edges_below_nodup : forall t ec, NoDup (leaves t) -> In ec (edges_below t) -> NoDup (leaves (snd ec)).
Proof.
  induction t as [n cm sl IH] using utree_ind'. intros ec ND H.
  apply edges_below_in in H. destruct H as (e & c & Hs & Hc). simpl uslots in Hs.
  rewrite leaves_node in ND by (eapply kids_of_in; eauto).
  assert (NDc : NoDup (leaves c)).
  { apply in_split in Hs. destruct Hs as (pre & post & ->).
    rewrite sub_leaves_split in ND. simpl slot_leaves in ND.
    apply nodup_app_r in ND. now apply nodup_app_l in ND. }
  destruct Hc as [->|[_ Hin]]; auto.
  rewrite Forall_forall in IH. specialize (IH _ Hs). simpl in IH. now apply IH.
Qed.

(** two trees on the same taxa rank the tips identically *)
Lemma same_taxa_same_ids : forall t1 t2,
    good t1 -> good t2 -> Permutation (leaves t1) (leaves t2) -> sorted_tip_names t1 = sorted_tip_names t2.
Proof.
  intros t1 t2 (W1 & D1 & _) (W2 & D2 & _) P. unfold sorted_tip_names.
  destruct (root_NI t1 W1 D1) as [_ ->]. destruct (root_NI t2 W2 D2) as [_ ->].
  now apply sort_names_perm_eq.
Qed.

(** * same bipartition *)
(** in terms of membership, relative to the taxa of the tree *)
Definition same_side (all a b : list string) : Prop := forall x, In x all -> (In x a <-> In x b).
Definition other_side (all a b : list string) : Prop := forall x, In x all -> (In x a <-> ~ In x b).
Definition same_split (all a b : list string) : Prop := same_side all a b \/ other_side all a b.

Theorem equal_or_complement_iff : forall t1 t2 ec1 r1 ec2 r2,
    good t1 -> good t2 -> Permutation (leaves t1) (leaves t2) ->
    branch_row t1 ec1 r1 -> branch_row t2 ec2 r2 ->
    (equal_or_complement (r_bits r1) (r_bits r2) = true <->
     same_split (leaves t1) (leaves (snd ec1)) (leaves (snd ec2))).
Proof.
  intros t1 t2 ec1 r1 ec2 r2 G1 G2 P B1 B2.
  pose proof (same_taxa_same_ids _ _ G1 G2 P) as Eids.
  destruct (branch_row_describes _ _ _ G1 B1) as [(L1 & T1 & _) _].
  destruct (branch_row_describes _ _ _ G2 B2) as [(L2 & T2 & _) _].
  rewrite <- Eids in L2, T2.
  set (ids := sorted_tip_names t1) in *.
  destruct G1 as (W1 & D1 & ND1).
  destruct (tables_spec t1 W1 D1 ND1) as (Pids & _ & _). fold ids in Pids.
  rewrite eoc_test by congruence. rewrite L1.
  assert (Hnth : forall x, In x (leaves t1) -> exists i, i < length ids /\ nth_error ids i = Some x).
  { intros x Hx. apply (Permutation_in _ (Permutation_sym Pids)) in Hx.
    apply In_nth_error in Hx. destruct Hx as [i Hi]. exists i. split; auto.
    apply nth_error_Some. congruence. }
  assert (NDi : NoDup ids) by (eapply Permutation_NoDup; [apply Permutation_sym|]; eauto).
  assert (Hbit : forall (r : erow) (c : utree),
             (forall i, test_bit (r_bits r) i = true <-> exists x, nth_error ids i = Some x /\ In x (leaves c)) ->
             forall i x, nth_error ids i = Some x -> (test_bit (r_bits r) i = true <-> In x (leaves c))).
  { intros r c T i x Hi. rewrite T. split.
    - intros (y & Hy & Hin). congruence.
    - intros. exists x. auto. }
  unfold same_split, same_side, other_side. split.
  - intros [E|C]; [left|right]; intros x Hx; destruct (Hnth x Hx) as (i & Hi & Hn).
    + rewrite <- (Hbit r1 _ T1 i x Hn), <- (Hbit r2 _ T2 i x Hn). now rewrite (E i Hi).
    + rewrite <- (Hbit r1 _ T1 i x Hn), <- (Hbit r2 _ T2 i x Hn). rewrite (C i Hi).
      destruct (test_bit (r_bits r2) i); simpl; split; intros; try discriminate; auto;
        try (intro; discriminate); try (exfalso; apply H; reflexivity).
  - intros [E|C]; [left|right]; intros i Hi.
    + destruct (nth_error ids i) as [x|] eqn:Hn; [|apply nth_error_None in Hn; lia].
      assert (Hx : In x (leaves t1)) by (eapply Permutation_in; [apply Pids|]; eapply nth_error_In; eauto).
      pose proof (Hbit r1 _ T1 i x Hn) as A. pose proof (Hbit r2 _ T2 i x Hn) as B. specialize (E x Hx).
      destruct (test_bit (r_bits r1) i), (test_bit (r_bits r2) i); auto.
      * assert (false = true) by (apply B, E, A; auto). auto.
      * assert (false = true) by (apply A, E, B; auto). auto.
    + destruct (nth_error ids i) as [x|] eqn:Hn; [|apply nth_error_None in Hn; lia].
      assert (Hx : In x (leaves t1)) by (eapply Permutation_in; [apply Pids|]; eapply nth_error_In; eauto).
      pose proof (Hbit r1 _ T1 i x Hn) as A. pose proof (Hbit r2 _ T2 i x Hn) as B. specialize (C x Hx).
      destruct (test_bit (r_bits r1) i), (test_bit (r_bits r2) i); simpl; auto.
      * exfalso. apply C; [apply A | apply B]; auto.
      * exfalso. assert (In x (leaves (snd ec1))).
        { apply C. intro Hin. apply B in Hin. discriminate. }
        apply A in H. discriminate.
Qed.

(** the same bipartition has the same HashCode *)
Theorem hashcode_same_split : forall t1 t2 ec1 r1 ec2 r2,
    good t1 -> good t2 -> Permutation (leaves t1) (leaves t2) ->
    branch_row t1 ec1 r1 -> branch_row t2 ec2 r2 ->
    same_split (leaves t1) (leaves (snd ec1)) (leaves (snd ec2)) ->
    hash_code r1 = hash_code r2.
Proof.
  intros t1 t2 ec1 r1 ec2 r2 G1 G2 P B1 B2 S.
  destruct (branch_row_describes _ _ _ G1 B1) as [(_ & _ & Nr1 & Nl1 & _ & _ & _ & Hr1 & Hw1 & Hl1 & _) In1].
  destruct (branch_row_describes _ _ _ G2 B2) as [(_ & _ & Nr2 & Nl2 & _ & _ & _ & Hr2 & Hw2 & Hl2 & _) In2].
  destruct G1 as (W1 & D1 & ND1). destruct G2 as (W2 & D2 & ND2).
  pose proof (edges_below_nodup _ _ ND1 In1) as NDc1.
  pose proof (edges_below_nodup _ _ ND2 In2) as NDc2.
  pose proof (edges_below_leaves _ _ In1) as I1.
  pose proof (edges_below_leaves _ _ In2) as I2.
  assert (I2' : incl (leaves (snd ec2)) (leaves t1)).
  { intros x Hx. eapply Permutation_in; [apply Permutation_sym, P|]. auto. }
  set (c1 := leaves (snd ec1)) in *. set (c2 := leaves (snd ec2)) in *.
  rewrite <- (Permutation_length P) in Nl2. rewrite <- (hsum_perm _ _ P) in Hw2.
  unfold hash_code. destruct S as [S|S].
  - (* same side *)
    assert (Pc : Permutation c1 c2).
    { apply NoDup_Permutation; auto. intros x. split; intros Hx.
      - apply (S x); auto.
      - apply (S x); auto. }
    assert (r_hright r1 = r_hright r2) by (rewrite Hr1, Hr2; now apply hsum_perm).
    assert (r_nright r1 = r_nright r2) by (rewrite Nr1, Nr2; now apply Permutation_length).
    assert (r_nleft r1 = r_nleft r2) by (rewrite Nl1, Nl2; rewrite (Permutation_length Pc); reflexivity).
    assert (r_hleft r1 = r_hleft r2).
    { apply (w64_cancel _ _ (r_hright r1)); auto. rewrite Hw1. rewrite H. now rewrite Hw2. }
    congruence.
  - (* complementary sides *)
    assert (Pc : Permutation (c1 ++ c2) (leaves t1)).
    { apply NoDup_Permutation; auto.
      - apply nodup_app; auto. intros x H1 H2. apply (S x); auto.
      - intros x. split; intros Hx.
        + apply in_app_or in Hx. destruct Hx; auto.
        + apply in_or_app. destruct (in_dec string_dec x c2); auto. left. apply (S x); auto. }
    pose proof (Permutation_length Pc) as PL. rewrite app_length in PL.
    pose proof (hsum_perm _ _ Pc) as PH. rewrite hsum_app in PH.
    assert (E1 : r_hleft r1 = r_hright r2).
    { apply (w64_cancel _ _ (r_hright r1)); auto.
      - rewrite Hr2. apply hsum_lt.
      - rewrite Hw1, <- PH, Hr1, Hr2. f_equal. lia. }
    assert (E2 : r_hleft r2 = r_hright r1).
    { apply (w64_cancel _ _ (r_hright r2)); auto.
      - rewrite Hr1. apply hsum_lt.
      - rewrite Hw2, <- PH, Hr1, Hr2. reflexivity. }
    rewrite (hashcode_sym (r_nleft r2)).
    replace (r_nright r2) with (r_nleft r1) by lia.
    replace (r_nleft r2) with (r_nright r1) by lia.
    now rewrite E1, E2.
Qed.

(** SameBipartition (HashCode test, then equal-or-complement) decides "same bipartition" *)
Theorem same_bipartition_iff : forall t1 t2 ec1 r1 ec2 r2,
    good t1 -> good t2 -> Permutation (leaves t1) (leaves t2) ->
    branch_row t1 ec1 r1 -> branch_row t2 ec2 r2 ->
    (same_bipartition r1 r2 = true <-> same_split (leaves t1) (leaves (snd ec1)) (leaves (snd ec2))).
Proof.
  intros. unfold same_bipartition.
  rewrite <- (equal_or_complement_iff t1 t2 ec1 r1 ec2 r2) by auto.
  destruct (equal_or_complement (r_bits r1) (r_bits r2)) eqn:E.
  - apply (equal_or_complement_iff t1 t2 ec1 r1 ec2 r2) in E; auto.
    rewrite (hashcode_same_split t1 t2 ec1 r1 ec2 r2) by auto.
    rewrite N.eqb_refl. simpl. tauto.
  - destruct (N.eqb (hash_code r1) (hash_code r2)); simpl; tauto.
Qed.

(** * per-branch readings of [tables_spec] *)
Theorem bitset_spec : forall t ec r,
    good t -> branch_row t ec r ->
    length (r_bits r) = length (sorted_tip_names t) /\
    forall i, test_bit (r_bits r) i = true <->
              exists x, nth_error (sorted_tip_names t) i = Some x /\ In x (leaves (snd ec)).
Proof. intros t ec r G B. destruct (branch_row_describes _ _ _ G B) as [(A & C & _) _]. auto. Qed.

Theorem counts_spec : forall t ec r,
    good t -> branch_row t ec r ->
    r_nright r = length (leaves (snd ec)) /\
    r_nleft r = length (leaves t) - length (leaves (snd ec)) /\
    1 <= r_nright r /\ 1 <= r_nleft r /\
    topo_depth r = Some (Nat.min (length (leaves t) - length (leaves (snd ec))) (length (leaves (snd ec)))).
Proof.
  intros t ec r G B. destruct (branch_row_describes _ _ _ G B) as [(_ & _ & A & C & D & E & F & _) _]. auto.
Qed.

Theorem hashes_spec : forall t ec r,
    good t -> branch_row t ec r ->
    r_hright r = hsum (leaves (snd ec)) /\
    w64 (r_hleft r + r_hright r) = hsum (leaves t) /\ (r_hleft r < W64)%N.
Proof.
  intros t ec r G B. destruct (branch_row_describes _ _ _ G B) as [(_ & _ & _ & _ & _ & _ & _ & A & C & D & _) _]. auto.
Qed.

(** every branch has its row *)
Lemma rows_length : forall t, good t -> length (rows t) = length (edges t).
Proof.
  intros t (W & D & ND). destruct (tables_spec t W D ND) as (_ & _ & F).
  clear - F. induction F; simpl; auto.
Qed.
