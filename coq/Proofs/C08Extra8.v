(** C08, round 8 additions:
    1. the pairwise variant by linear search (CommonEdges / FindEdge) AGREES with the split-index
       variant (Compare) on the domain of the property;
    2. independence of the record from the rooting / child order of BOTH trees at once, for every
       re-rooting index;
    3. the numbers printed by cmd/comparetrees.go (Model/C08Extra8.v): RF = |S1 symmetric
       difference S2|, symmetric, zero exactly when identical, independent of the rootings; weighted
       RF and KF^2 from the specification terms;
    4. the identical-only shortcut of CompareWeighted: for ANY two trees the Sametree flag and the
       error are those of the full weighted comparison. *)
From Coq Require Import String NArith ZArith QArith Qabs Bool Arith Lia List Permutation.
From GT Require Import Base.UTree Spec.Obs Spec.CompareSpec Spec.Unrooted Model.Reroot Model.Index Model.HashMap Model.EdgeIndex
     Model.Compare Model.C08Extra8 Proofs.IndexSplit Proofs.Splits Proofs.CompareBase Proofs.CompareTree Proofs.CompareMain
     Proofs.CompareCor Proofs.CompareDomain Proofs.CompareDupfree Proofs.CompareWeighted Proofs.CompareAll
     Proofs.CompareCommon Proofs.USplits.
Import ListNotations.
Local Close Scope Q_scope.

(** * 1. CommonEdges agrees with Compare *)
Theorem common_edges_agrees_compare te t1 t2 :
  unrooted t1 -> unrooted t2 -> Permutation (leaves t1) (leaves t2) ->
  exists r, compare te false t1 t2 = Some (Ok r) /\
            common_edges te t1 t2 = Ok (bs_tree1 r, bs_common r).
Proof.
  intros U1 U2 P. eexists. split.
  - apply compare_counts_unrooted; auto.
  - cbn [bs_tree1 bs_common]. apply common_edges_counts; auto.
    + apply U1.
    + apply U2.
    + now apply unrooted_dupfree.
    + now apply unrooted_dupfree.
    + now apply unrooted_tipflags.
    + now apply unrooted_tipflags.
Qed.

(** * 2. both trees re-rooted / reordered at once *)
Lemma good_perm_leaves t t' : good t -> good t' -> tipset t' = tipset t -> Permutation (leaves t') (leaves t).
Proof.
  intros G G' ET. apply NoDup_Permutation; [apply G'|apply G|].
  intros x. rewrite <- !tipset_In, ET. tauto.
Qed.

Theorem compare_reroot_both tips t1 t2 i j t1' t2' :
  unrooted t1 -> unrooted t2 -> Permutation (leaves t1) (leaves t2) ->
  reroot t1 i = Ok t1' -> good t1' ->
  reroot t2 j = Ok t2' -> good t2' ->
  compare tips false t1' t2' = compare tips false t1 t2.
Proof.
  intros U1 U2 P R1 G1' R2 G2'.
  pose proof U1 as (G1 & _ & _). pose proof U2 as (G2 & _ & _).
  pose proof G1 as (W1 & Dg1 & ND1). pose proof G2 as (W2 & Dg2 & ND2).
  destruct (reroot_branch_splits t1 i t1' W1 Dg1 ND1 R1) as [ET1 PB1].
  destruct (reroot_branch_splits t2 j t2' W2 Dg2 ND2 R2) as [ET2 PB2].
  apply compare_invariant; auto.
  - now apply unrooted_dupfree.
  - now apply unrooted_dupfree.
  - now apply unrooted_tipflags.
  - now apply unrooted_tipflags.
  - eapply Permutation_trans; [apply (good_perm_leaves t1 t1'); auto|].
    eapply Permutation_trans; [exact P|]. apply Permutation_sym. now apply good_perm_leaves.
Qed.

Theorem compare_tperm_both tips t1 t2 t1' t2' :
  unrooted t1 -> unrooted t2 -> Permutation (leaves t1) (leaves t2) ->
  tperm t1 t1' -> good t1' ->
  tperm t2 t2' -> good t2' ->
  compare tips false t1' t2' = compare tips false t1 t2.
Proof.
  intros U1 U2 P T1 G1' T2 G2'.
  pose proof U1 as (G1 & _ & _). pose proof U2 as (G2 & _ & _).
  pose proof (tperm_tipset t1 t1' T1) as ET1. pose proof (tperm_tipset t2 t2' T2) as ET2.
  apply compare_invariant; auto.
  - now apply unrooted_dupfree.
  - now apply unrooted_dupfree.
  - now apply unrooted_tipflags.
  - now apply unrooted_tipflags.
  - rewrite ET1. now apply tperm_branch_splits.
  - rewrite ET2. now apply tperm_branch_splits.
  - eapply Permutation_trans; [apply (good_perm_leaves t1 t1'); auto|].
    eapply Permutation_trans; [exact P|]. apply Permutation_sym. now apply good_perm_leaves.
Qed.

(** * 3. Robinson-Foulds distance printed by --rf *)
Theorem rf_symdiff tips t1 t2 r :
  unrooted t1 -> unrooted t2 -> Permutation (leaves t1) (leaves t2) ->
  compare tips false t1 t2 = Some (Ok r) ->
  rf_of r = Z.of_nat (c_only1 (spec_counts tips t1 t2) + c_only2 (spec_counts tips t1 t2)).
Proof.
  intros U1 U2 P H. rewrite (compare_counts_unrooted tips t1 t2 U1 U2 P) in H.
  inversion H; subst; clear H. unfold rf_of. cbn [bs_tree1 bs_tree2]. now rewrite Nat2Z.inj_add.
Qed.

Theorem rf_zero_iff_same tips t1 t2 r :
  unrooted t1 -> unrooted t2 -> Permutation (leaves t1) (leaves t2) ->
  compare tips false t1 t2 = Some (Ok r) ->
  (rf_of r = 0%Z <-> bs_same r = true).
Proof.
  intros U1 U2 P H. rewrite (compare_counts_unrooted tips t1 t2 U1 U2 P) in H.
  inversion H; subst; clear H. unfold rf_of, spec_identical. cbn [bs_tree1 bs_tree2 bs_same].
  rewrite andb_true_iff, !Nat.eqb_eq. unfold spec_counts. cbn [c_only1 c_only2].
  generalize (length (only_in (split_list tips t1) (split_list tips t2))) (length (only_in (split_list tips t2) (split_list tips t1))). intros a b.
  split; [intros E; split|intros [E1 E2]; subst; reflexivity].
  - destruct a; auto. exfalso. rewrite Nat2Z.inj_succ in E. pose proof (Nat2Z.is_nonneg a). pose proof (Nat2Z.is_nonneg b). Lia.lia.
  - destruct b; auto. exfalso. rewrite Nat2Z.inj_succ in E. pose proof (Nat2Z.is_nonneg a). pose proof (Nat2Z.is_nonneg b). Lia.lia.
Qed.

Theorem rf_swap tips t1 t2 r r' :
  unrooted t1 -> unrooted t2 -> Permutation (leaves t1) (leaves t2) ->
  compare tips false t1 t2 = Some (Ok r) -> compare tips false t2 t1 = Some (Ok r') ->
  rf_of r' = rf_of r.
Proof.
  intros U1 U2 P H H'.
  assert (S := compare_swap tips t1 t2 r (proj1 U1) (proj1 U2) P
                 (unrooted_dupfree _ U1) (unrooted_dupfree _ U2) (unrooted_tipflags _ U1) (unrooted_tipflags _ U2) H).
  rewrite S in H'. inversion H'; subst; clear H'. unfold rf_of. cbn [bs_tree1 bs_tree2]. lia.
Qed.

Theorem rf_reroot_both tips t1 t2 i j t1' t2' r r' :
  unrooted t1 -> unrooted t2 -> Permutation (leaves t1) (leaves t2) ->
  reroot t1 i = Ok t1' -> good t1' -> reroot t2 j = Ok t2' -> good t2' ->
  compare tips false t1 t2 = Some (Ok r) -> compare tips false t1' t2' = Some (Ok r') ->
  rf_of r' = rf_of r.
Proof.
  intros U1 U2 P R1 G1' R2 G2' H H'.
  rewrite (compare_reroot_both tips t1 t2 i j t1' t2' U1 U2 P R1 G1' R2 G2'), H in H'.
  now inversion H'.
Qed.

(** weighted RF and KF^2 *)
Definition qsum (l : list Q) : Q := fold_right Qplus 0%Q l.

Lemma fold_left_qsum (f : Q -> Q) (l : list Q) : forall a,
  (fold_left (fun a d => a + f d) l a == a + qsum (map f l))%Q.
Proof.
  induction l as [|x r IH]; intros a; cbn [fold_left map qsum fold_right].
  - ring.
  - rewrite IH. unfold qsum. ring.
Qed.

Lemma fold_left_qplus (l : list Q) a : (fold_left Qplus l a == a + qsum l)%Q.
Proof.
  pose proof (fold_left_qsum (fun x => x) l a) as H. rewrite map_id in H. exact H.
Qed.

Theorem wrf_terms tips t1 t2 w :
  unrooted t1 -> unrooted t2 -> Permutation (leaves t1) (leaves t2) ->
  compare_weighted tips false t1 t2 = Some (Ok w) ->
  (wrf_of w == qsum (map Qabs (spec_w_common tips t1 t2)) + qsum (spec_w_only1 tips t1 t2) + qsum (spec_w_only2 tips t1 t2))%Q.
Proof.
  intros U1 U2 P H. rewrite (compare_weighted_unrooted tips t1 t2 U1 U2 P) in H.
  inversion H; subst; clear H. unfold wrf_of. cbn [ws_tree1 ws_tree2 ws_common].
  rewrite !fold_left_qplus, (fold_left_qsum Qabs). ring.
Qed.

Theorem kf2_terms tips t1 t2 w :
  unrooted t1 -> unrooted t2 -> Permutation (leaves t1) (leaves t2) ->
  compare_weighted tips false t1 t2 = Some (Ok w) ->
  (kf2_of w == qsum (map (fun d => d * d) (spec_w_common tips t1 t2))
               + qsum (map (fun l => l * l) (spec_w_only1 tips t1 t2))
               + qsum (map (fun l => l * l) (spec_w_only2 tips t1 t2)))%Q.
Proof.
  intros U1 U2 P H. rewrite (compare_weighted_unrooted tips t1 t2 U1 U2 P) in H.
  inversion H; subst; clear H. unfold kf2_of. cbn [ws_tree1 ws_tree2 ws_common].
  rewrite !(fold_left_qsum (fun d => d * d)%Q). ring.
Qed.

(** * 4. the identical-only shortcut of CompareWeighted *)
Section WLoops.
  Variable tips : bool.
  Variable ra ca : aindex.

  Lemma fold_w1_stopped K : forall st,
      snd st = true ->
      fold_left (w1_step aindex ai_value tips true ra) K (Some st) = Some st.
  Proof.
    induction K as [|k r IH]; intros [[[com cmp] s] stop] E; cbn in E; subst; [reflexivity|].
    cbn [fold_left]. change (w1_step aindex ai_value tips true ra (Some (com, cmp, s, true)) k) with (Some (com, cmp, s, true)).
    apply (IH (com, cmp, s, true)). reflexivity.
  Qed.

  Lemma fold_w1_ident K : forall com cmp s,
      exists com' cmp' stop,
        fold_left (w1_step aindex ai_value tips true ra) K (Some (com, cmp, s, false)) =
        Some (com', cmp', s && forallb (wsame1 tips ra) K, stop).
  Proof.
    induction K as [|k r IH]; intros com cmp s.
    - exists com, cmp, false. simpl. now rewrite andb_true_r.
    - cbn [fold_left forallb].
      unfold w1_step at 2. unfold ai_value. unfold wsame1 at 1. unfold oreflen. fold (wcnt tips k).
      destruct (wcnt tips k) eqn:C; cbn [negb orb].
      + destruct (assoc_value ekey einfo_v ekey_eqb ra k) as [[i l]|] eqn:E; cbn [snd].
        * destruct (qeqb l (ek_len k)) eqn:Q.
          -- cbn [andb]. apply IH.
          -- fold ai_value. rewrite (fold_w1_stopped r (com, cmp, false, true) eq_refl).
             exists com, cmp, true. now rewrite andb_false_r.
        * fold ai_value. rewrite (fold_w1_stopped r (com, cmp, false, true) eq_refl).
          exists com, cmp, true. now rewrite andb_false_r.
      + cbn [andb]. apply IH.
  Qed.

  Lemma fold_w2_stopped K : forall st,
      snd st = true ->
      fold_left (w2_step aindex ai_value tips true ca) K (Some st) = Some st.
  Proof.
    induction K as [|k r IH]; intros [[rf s] stop] E; cbn in E; subst; [reflexivity|].
    cbn [fold_left]. change (w2_step aindex ai_value tips true ca (Some (rf, s, true)) k) with (Some (rf, s, true)).
    apply (IH (rf, s, true)). reflexivity.
  Qed.

  Lemma fold_w2_ident K : forall rf s,
      exists rf' stop,
        fold_left (w2_step aindex ai_value tips true ca) K (Some (rf, s, false)) =
        Some (rf', s && forallb (wsame2 tips ca) K, stop).
  Proof.
    induction K as [|k r IH]; intros rf s.
    - exists rf, false. simpl. now rewrite andb_true_r.
    - cbn [fold_left forallb].
      unfold w2_step at 2. unfold ai_value. unfold wsame2 at 1. unfold wfound. fold (wcnt tips k).
      destruct (wcnt tips k) eqn:C; cbn [negb orb].
      + destruct (assoc_value ekey einfo_v ekey_eqb ca k) as [v|] eqn:E; cbn [is_some].
        * cbn [andb]. rewrite ?andb_true_r. apply IH.
        * fold ai_value. rewrite (fold_w2_stopped r (rf, false, true) eq_refl).
          exists rf, true. now rewrite andb_false_r.
      + cbn [andb]. rewrite ?andb_true_r. apply IH.
  Qed.
End WLoops.

Theorem compare_weighted_ident_same tips t1 t2 w :
  compare_weighted tips false t1 t2 = Some (Ok w) ->
  exists w', compare_weighted tips true t1 t2 = Some (Ok w') /\ ws_same w' = ws_same w /\ ws_err w' = ws_err w.
Proof.
  unfold compare_weighted, compare_weighted_gen.
  destruct (reinit 0 t1) as [[[names1 ks1]|m1]|]; try discriminate.
  destruct (build_index aindex ai_new ai_put ks1) as [ridx|]; try discriminate.
  destruct (reinit 1 t2) as [[[names2 ks2]|m2]|]; try discriminate.
  - destruct (build_index aindex ai_new ai_put ks2) as [cidx|]; try discriminate.
    rewrite fold_w1. cbn [app]. rewrite fold_w2. cbn [app].
    destruct (fold_w1_ident tips ridx ks2 [] [] true) as (com' & cmp' & stop & E1).
    unfold w1_state in *. rewrite E1. clear E1.
    destruct (fold_w2_ident tips cidx ks1 [] (true && forallb (wsame1 tips ridx) ks2)) as (rf' & stop2 & E2).
    unfold w2_state in *. rewrite E2. clear E2.
    intros H. inversion H; subst; clear H. eexists. split; [reflexivity|]. cbn [ws_same ws_err]. auto.
  - intros H. inversion H; subst. eexists. split; [reflexivity|]. auto.
Qed.

Corollary compare_weighted_ident_identical tips t1 t2 :
  unrooted t1 -> unrooted t2 -> Permutation (leaves t1) (leaves t2) ->
  exists w', compare_weighted tips true t1 t2 = Some (Ok w') /\
             ws_same w' = (Nat.eqb (length (spec_w_only1 tips t1 t2)) 0 && Nat.eqb (length (spec_w_only2 tips t1 t2)) 0
                           && all_zero (spec_w_common tips t1 t2)) /\
             ws_err w' = EmptyString.
Proof.
  intros U1 U2 P.
  destruct (compare_weighted_ident_same tips t1 t2 _ (compare_weighted_unrooted tips t1 t2 U1 U2 P)) as (w' & E & S & Er).
  exists w'. auto.
Qed.

(** * non-vacuity: ((a,b),c,d) re-rooted on its inner node, against the star tree *)
Definition wit_ref_rr : utree :=
  match reroot wit_ref 1 with Ok t => t | Err _ => wit_ref end.
Definition wit_star_rr : utree :=
  match reroot wit_star 0 with Ok t => t | Err _ => wit_star end.

Lemma reroot_both_example :
  unrooted wit_ref /\ unrooted wit_star /\ Permutation (leaves wit_ref) (leaves wit_star) /\
  reroot wit_ref 1 = Ok wit_ref_rr /\ good wit_ref_rr /\ wit_ref_rr <> wit_ref /\
  reroot wit_star 0 = Ok wit_star_rr /\ good wit_star_rr /\
  compare false false wit_ref_rr wit_star_rr = Some (Ok (mkBS 1 0 0 false EmptyString)) /\
  common_edges false wit_ref wit_star = Ok (1%Z, 0%Z) /\
  rf_of (mkBS 1 0 0 false EmptyString) = 1%Z.
Proof.
  destruct domain_inhabited as (U1 & U2 & P).
  assert (L1 : leaves wit_ref_rr = ["c"; "d"; "a"; "b"]%string) by (vm_compute; reflexivity).
  assert (L2 : leaves wit_star_rr = ["a"; "b"; "c"; "d"]%string) by (vm_compute; reflexivity).
  assert (N1 : NoDup ["c"; "d"; "a"; "b"]%string) by (repeat constructor; simpl; intuition discriminate).
  assert (N2 : NoDup ["a"; "b"; "c"; "d"]%string) by (repeat constructor; simpl; intuition discriminate).
  assert (D1 : degree wit_ref_rr = 3) by (vm_compute; reflexivity).
  assert (D2 : degree wit_star_rr = 4) by (vm_compute; reflexivity).
  split; [exact U1|]. split; [exact U2|]. split; [exact P|].
  unfold good. rewrite L1, L2, D1, D2.
  repeat split; auto; try (vm_compute; reflexivity); try lia.
  intros E. assert (E' : leaves wit_ref_rr = leaves wit_ref) by now rewrite E.
  rewrite L1 in E'. vm_compute in E'. discriminate.
Qed.

(** weighted: ((a:1,b:1):2,c:1,d:1) against ((a:1,c:3):1/2,b:1,d:1) *)
Definition brl (l : Q) (c : utree) : slot := Some (mkE l nilv nilv [], c).
Definition wit_w1 : utree :=
  UNode "" [] [brl 2%Q (UNode "" [] [None; brl 1%Q (tipn "a"); brl 1%Q (tipn "b")]); brl 1%Q (tipn "c"); brl 1%Q (tipn "d")].
Definition wit_w2 : utree :=
  UNode "" [] [brl (1#2)%Q (UNode "" [] [None; brl 1%Q (tipn "a"); brl 3%Q (tipn "c")]); brl 1%Q (tipn "b"); brl 1%Q (tipn "d")].

Lemma weighted_example :
  unrooted wit_w1 /\ unrooted wit_w2 /\ Permutation (leaves wit_w1) (leaves wit_w2) /\
  compare_weighted true false wit_w1 wit_w2 = Some (Ok (mkWS [2%Q] [(1#2)%Q] [0%Q; (-2)%Q; 0%Q; 0%Q] false EmptyString)) /\
  compare_weighted true true wit_w1 wit_w2 = Some (Ok (mkWS [] [] [] false EmptyString)) /\
  Qred (wrf_of (mkWS [2%Q] [(1#2)%Q] [0%Q; (-2)%Q; 0%Q; 0%Q] false EmptyString)) = (9#2)%Q /\
  Qred (kf2_of (mkWS [2%Q] [(1#2)%Q] [0%Q; (-2)%Q; 0%Q; 0%Q] false EmptyString)) = (33#4)%Q.
Proof.
  assert (L1 : leaves wit_w1 = ["a"; "b"; "c"; "d"]%string) by (vm_compute; reflexivity).
  assert (L2 : leaves wit_w2 = ["a"; "c"; "b"; "d"]%string) by (vm_compute; reflexivity).
  assert (N1 : NoDup ["a"; "b"; "c"; "d"]%string) by (repeat constructor; simpl; intuition discriminate).
  assert (N2 : NoDup ["a"; "c"; "b"; "d"]%string) by (repeat constructor; simpl; intuition discriminate).
  unfold unrooted, good. rewrite L1, L2.
  repeat split; auto; try (vm_compute; reflexivity); try (unfold degree; simpl; lia).
  apply perm_skip. apply perm_swap.
Qed.

(** * 5. the weighted terms do not depend on the rooting / child order of either tree: the three
    lists are the same up to the order of the branches, Sametree, weighted RF and KF^2 are the same *)
Lemma find_split_perm k l l' : NoDup (map sside l) -> Permutation l l' -> find_split k l = find_split k l'.
Proof.
  intros N P. revert N. unfold find_split. induction P as [|x l l' P IH|x y l|l l' l'' P1 IH1 P2 IH2]; intros N.
  - reflexivity.
  - cbn [find]. destruct (sset_eqb (sside x) k); auto. apply IH. cbn [map] in N. now inversion N.
  - cbn [find]. destruct (sset_eqb (sside y) k) eqn:Ey, (sset_eqb (sside x) k) eqn:Ex; auto.
    apply USplits.sset_eqb_eq in Ex. apply USplits.sset_eqb_eq in Ey. cbn [map] in N.
    inversion N as [|? ? NI _]; subst. exfalso. apply NI. left. congruence.
  - rewrite IH1 by exact N. apply IH2. eapply Permutation_NoDup; [apply Permutation_map; exact P1|exact N].
Qed.

Lemma qsum_perm l l' : Permutation l l' -> (qsum l == qsum l')%Q.
Proof.
  induction 1 as [|x l l' P IH|x y l|l l' l'' P1 IH1 P2 IH2]; cbn [qsum fold_right].
  - reflexivity.
  - unfold qsum in IH. rewrite IH. reflexivity.
  - ring.
  - now rewrite IH1.
Qed.

Lemma forallb_perm {A} (f : A -> bool) l l' : Permutation l l' -> forallb f l = forallb f l'.
Proof.
  induction 1 as [|x l l' P IH|x y l|l l' l'' P1 IH1 P2 IH2]; cbn [forallb]; auto.
  - now rewrite IH.
  - destruct (f x), (f y); reflexivity.
  - now rewrite IH1.
Qed.

Lemma spec_w_perm tips t1 t1' t2 t2' :
  dupfree t1 -> dupfree t1' ->
  Permutation (usplits t1') (usplits t1) -> Permutation (usplits t2') (usplits t2) ->
  Permutation (spec_w_only1 tips t1' t2') (spec_w_only1 tips t1 t2) /\
  Permutation (spec_w_only2 tips t1' t2') (spec_w_only2 tips t1 t2) /\
  Permutation (spec_w_common tips t1' t2') (spec_w_common tips t1 t2).
Proof.
  intros D1 D1' P1 P2.
  pose proof (dupfree_split_list tips t1' D1') as Na'.
  unfold spec_w_only1, spec_w_only2, spec_w_common, split_list in *.
  set (a := filter (counted tips) (usplits t1)) in *. set (a' := filter (counted tips) (usplits t1')) in *.
  set (b := filter (counted tips) (usplits t2)). set (b' := filter (counted tips) (usplits t2')).
  assert (Pa : Permutation a' a) by now apply filter_perm'.
  assert (Pb : Permutation b' b) by now apply filter_perm'.
  unfold only_in, in_both. repeat split.
  - apply Permutation_map.
    rewrite (filter_ext_in' (fun s => negb (has_key b' s)) (fun s => negb (has_key b s)) a').
    + now apply filter_perm'.
    + intros. f_equal. now apply has_key_perm.
  - apply Permutation_map.
    rewrite (filter_ext_in' (fun s => negb (has_key a' s)) (fun s => negb (has_key a s)) b').
    + now apply filter_perm'.
    + intros. f_equal. now apply has_key_perm.
  - rewrite (map_ext (fun s2 => (len_in a' s2 - slen s2)%Q) (fun s2 => (len_in a s2 - slen s2)%Q)).
    + apply Permutation_map.
      rewrite (filter_ext_in' (has_key a') (has_key a) b').
      * now apply filter_perm'.
      * intros. now apply has_key_perm.
    + intros s. unfold len_in. now rewrite (find_split_perm (sside s) a' a Na' Pa).
Qed.

Lemma wrf_of_qsum a b c s e :
  (wrf_of (mkWS a b c s e) == qsum (map Qabs c) + qsum a + qsum b)%Q.
Proof.
  unfold wrf_of. cbn [ws_tree1 ws_tree2 ws_common].
  rewrite !fold_left_qplus, (fold_left_qsum Qabs). ring.
Qed.

Lemma kf2_of_qsum a b c s e :
  (kf2_of (mkWS a b c s e) == qsum (map (fun d => d * d) c) + qsum (map (fun d => d * d) a) + qsum (map (fun d => d * d) b))%Q.
Proof.
  unfold kf2_of. cbn [ws_tree1 ws_tree2 ws_common].
  rewrite !(fold_left_qsum (fun d => d * d)%Q). ring.
Qed.

Theorem compare_weighted_invariant tips t1 t1' t2 t2' :
  good t1 -> good t2 -> Permutation (leaves t1) (leaves t2) ->
  dupfree t1 -> dupfree t2 -> tipflags t1 -> tipflags t2 ->
  good t1' -> good t2' ->
  tipset t1' = tipset t1 -> tipset t2' = tipset t2 ->
  Permutation (branch_splits (tipset t1') t1') (branch_splits (tipset t1) t1) ->
  Permutation (branch_splits (tipset t2') t2') (branch_splits (tipset t2) t2) ->
  Permutation (leaves t1') (leaves t2') ->
  exists w w',
    compare_weighted tips false t1 t2 = Some (Ok w) /\ compare_weighted tips false t1' t2' = Some (Ok w') /\
    Permutation (ws_tree1 w') (ws_tree1 w) /\ Permutation (ws_tree2 w') (ws_tree2 w) /\
    Permutation (ws_common w') (ws_common w) /\
    ws_same w' = ws_same w /\ ws_err w' = ws_err w /\
    (wrf_of w' == wrf_of w)%Q /\ (kf2_of w' == kf2_of w)%Q.
Proof.
  intros G1 G2 P D1 D2 F1 F2 G1' G2' E1 E2 P1 P2 P'.
  assert (D1' : dupfree t1').
  { unfold dupfree in *. eapply Permutation_NoDup; [apply Permutation_map, Permutation_sym, P1|]. auto. }
  assert (D2' : dupfree t2').
  { unfold dupfree in *. eapply Permutation_NoDup; [apply Permutation_map, Permutation_sym, P2|]. auto. }
  assert (F1' : tipflags t1').
  { intros s Hs. rewrite E1. apply F1. eapply Permutation_in; eauto. }
  assert (F2' : tipflags t2').
  { intros s Hs. rewrite E2. apply F2. eapply Permutation_in; eauto. }
  assert (U1 : Permutation (usplits t1') (usplits t1)).
  { rewrite (usplits_dupfree _ D1'), (usplits_dupfree _ D1). exact P1. }
  assert (U2 : Permutation (usplits t2') (usplits t2)).
  { rewrite (usplits_dupfree _ D2'), (usplits_dupfree _ D2). exact P2. }
  destruct (spec_w_perm tips t1 t1' t2 t2' D1 D1' U1 U2) as (Q1 & Q2 & Qc).
  eexists. eexists.
  split; [apply (compare_weighted_terms tips t1 t2 G1 G2 P D1 D2 F1 F2)|].
  split; [apply (compare_weighted_terms tips t1' t2' G1' G2' P' D1' D2' F1' F2')|].
  cbn [ws_tree1 ws_tree2 ws_common ws_same ws_err].
  split; [exact Q1|]. split; [exact Q2|]. split; [exact Qc|].
  split.
  { rewrite (Permutation_length Q1), (Permutation_length Q2). unfold all_zero. now rewrite (forallb_perm _ _ _ Qc). }
  split; [reflexivity|].
  split.
  - rewrite !wrf_of_qsum.
    rewrite (qsum_perm _ _ Q1), (qsum_perm _ _ Q2), (qsum_perm _ _ (Permutation_map Qabs Qc)). reflexivity.
  - rewrite !kf2_of_qsum.
    rewrite (qsum_perm _ _ (Permutation_map _ Q1)), (qsum_perm _ _ (Permutation_map _ Q2)), (qsum_perm _ _ (Permutation_map _ Qc)).
    reflexivity.
Qed.

Corollary compare_weighted_reroot_both tips t1 t2 i j t1' t2' :
  unrooted t1 -> unrooted t2 -> Permutation (leaves t1) (leaves t2) ->
  reroot t1 i = Ok t1' -> good t1' ->
  reroot t2 j = Ok t2' -> good t2' ->
  exists w w',
    compare_weighted tips false t1 t2 = Some (Ok w) /\ compare_weighted tips false t1' t2' = Some (Ok w') /\
    Permutation (ws_tree1 w') (ws_tree1 w) /\ Permutation (ws_tree2 w') (ws_tree2 w) /\
    Permutation (ws_common w') (ws_common w) /\
    ws_same w' = ws_same w /\ ws_err w' = ws_err w /\
    (wrf_of w' == wrf_of w)%Q /\ (kf2_of w' == kf2_of w)%Q.
Proof.
  intros U1 U2 P R1 G1' R2 G2'.
  pose proof U1 as (G1 & _ & _). pose proof U2 as (G2 & _ & _).
  pose proof G1 as (W1 & Dg1 & ND1). pose proof G2 as (W2 & Dg2 & ND2).
  destruct (reroot_branch_splits t1 i t1' W1 Dg1 ND1 R1) as [ET1 PB1].
  destruct (reroot_branch_splits t2 j t2' W2 Dg2 ND2 R2) as [ET2 PB2].
  apply compare_weighted_invariant; auto.
  - now apply unrooted_dupfree.
  - now apply unrooted_dupfree.
  - now apply unrooted_tipflags.
  - now apply unrooted_tipflags.
  - eapply Permutation_trans; [apply (good_perm_leaves t1 t1'); auto|].
    eapply Permutation_trans; [exact P|]. apply Permutation_sym. now apply good_perm_leaves.
Qed.

Corollary compare_weighted_tperm_both tips t1 t2 t1' t2' :
  unrooted t1 -> unrooted t2 -> Permutation (leaves t1) (leaves t2) ->
  tperm t1 t1' -> good t1' ->
  tperm t2 t2' -> good t2' ->
  exists w w',
    compare_weighted tips false t1 t2 = Some (Ok w) /\ compare_weighted tips false t1' t2' = Some (Ok w') /\
    Permutation (ws_tree1 w') (ws_tree1 w) /\ Permutation (ws_tree2 w') (ws_tree2 w) /\
    Permutation (ws_common w') (ws_common w) /\
    ws_same w' = ws_same w /\ ws_err w' = ws_err w /\
    (wrf_of w' == wrf_of w)%Q /\ (kf2_of w' == kf2_of w)%Q.
Proof.
  intros U1 U2 P T1 G1' T2 G2'.
  pose proof U1 as (G1 & _ & _). pose proof U2 as (G2 & _ & _).
  pose proof (tperm_tipset t1 t1' T1) as ET1. pose proof (tperm_tipset t2 t2' T2) as ET2.
  apply compare_weighted_invariant; auto.
  - now apply unrooted_dupfree.
  - now apply unrooted_dupfree.
  - now apply unrooted_tipflags.
  - now apply unrooted_tipflags.
  - rewrite ET1. now apply tperm_branch_splits.
  - rewrite ET2. now apply tperm_branch_splits.
  - eapply Permutation_trans; [apply (good_perm_leaves t1 t1'); auto|].
    eapply Permutation_trans; [exact P|]. apply Permutation_sym. now apply good_perm_leaves.
Qed.

(** non-vacuity: both weighted witnesses re-rooted on their inner node; the list of differences comes
    out in another order *)
Definition wit_w1_rr : utree := match reroot wit_w1 1 with Ok t => t | Err _ => wit_w1 end.
Definition wit_w2_rr : utree := match reroot wit_w2 1 with Ok t => t | Err _ => wit_w2 end.

Lemma weighted_reroot_example :
  reroot wit_w1 1 = Ok wit_w1_rr /\ good wit_w1_rr /\ reroot wit_w2 1 = Ok wit_w2_rr /\ good wit_w2_rr /\
  compare_weighted true false wit_w1_rr wit_w2_rr =
  Some (Ok (mkWS [2%Q] [(1#2)%Q] [0%Q; 0%Q; 0%Q; (-2)%Q] false EmptyString)).
Proof.
  assert (L1 : leaves wit_w1_rr = ["c"; "d"; "a"; "b"]%string) by (vm_compute; reflexivity).
  assert (L2 : leaves wit_w2_rr = ["b"; "d"; "a"; "c"]%string) by (vm_compute; reflexivity).
  assert (N1 : NoDup ["c"; "d"; "a"; "b"]%string) by (repeat constructor; simpl; intuition discriminate).
  assert (N2 : NoDup ["b"; "d"; "a"; "c"]%string) by (repeat constructor; simpl; intuition discriminate).
  assert (D1 : degree wit_w1_rr = 3) by (vm_compute; reflexivity).
  assert (D2 : degree wit_w2_rr = 3) by (vm_compute; reflexivity).
  unfold good. rewrite L1, L2, D1, D2.
  repeat split; auto; try (vm_compute; reflexivity); try lia.
Qed.
