(** C05 (iv): after midpoint rooting the root lies halfway along a longest tip-to-tip path. *)
From Coq Require Import String ZArith QArith Bool Arith Lia Lqa List Permutation Setoid Morphisms.
From GT Require Import Base.UTree Spec.Obs Model.Reroot Model.Outgroup Spec.Unrooted
     Proofs.RerootBase Proofs.Reroot Proofs.Reorder Proofs.Unroot Proofs.Splits Proofs.C05Main
     Proofs.OutgroupBase Proofs.OutgroupCut Proofs.OutgroupKeep Proofs.OutgroupLCA Proofs.OutgroupClade
     Proofs.OutgroupMain Proofs.OutgroupSide Proofs.OutgroupRemove Proofs.OutgroupMidpoint
     Proofs.OutgroupMidDist Proofs.OutgroupMlp Proofs.OutgroupHalf.
Import ListNotations.
Local Close Scope Q_scope.
Local Arguments n_up : simpl never.

Definition halfway_w (w : einfo -> Q) (t t' : utree) : Prop :=
  exists a b d da db,
    In (a, b, d) (pairdists w t) /\
    (forall x, In x (pairdists w t) -> (snd x <= d)%Q) /\ (0 < d)%Q /\
    In (a, da) (depths w t') /\ In (b, db) (depths w t') /\
    (da == d * (1 # 2))%Q /\ (db == d * (1 # 2))%Q.

(** the two children of a root: depths and the distances across the root *)
Lemma root2_depths w e1 c1 e2 c2 :
  depths w (UNode "" [] [Some (e1, c1); Some (e2, c2)]) =
  shift (w e1) (depths w c1) ++ shift (w e2) (depths w c2).
Proof. rewrite depths_unfold. simpl. now rewrite app_nil_r. Qed.

Lemma root2_cross w e1 c1 e2 c2 x dx y dy :
  In (x, dx) (depths w c1) -> In (y, dy) (depths w c2) ->
  In (x, y, ((w e1 + dx) + (w e2 + dy))%Q) (pairdists w (UNode "" [] [Some (e1, c1); Some (e2, c2)])) /\
  In (y, x, ((w e2 + dy) + (w e1 + dx))%Q) (pairdists w (UNode "" [] [Some (e1, c1); Some (e2, c2)])).
Proof.
  intros Hx Hy. rewrite pairdists_unfold. simpl kids_of. simpl kD. simpl cross_all.
  assert (H1 : In (x, (w e1 + dx)%Q) (shift (w e1) (depths w c1)))
    by (unfold shift; apply in_map_iff; exists (x, dx); auto).
  assert (H2 : In (y, (w e2 + dy)%Q) (shift (w e2) (depths w c2)))
    by (unfold shift; apply in_map_iff; exists (y, dy); auto).
  assert (C1 : In (x, y, ((w e1 + dx) + (w e2 + dy))%Q)
                  (cross (shift (w e1) (depths w c1)) (shift (w e2) (depths w c2)))).
  { apply cross_In. exists (x, (w e1 + dx)%Q), (y, (w e2 + dy)%Q). auto. }
  assert (C2 : In (y, x, ((w e2 + dy) + (w e1 + dx))%Q)
                  (cross (shift (w e2) (depths w c2)) (shift (w e1) (depths w c1)))).
  { apply cross_In. exists (y, (w e2 + dy)%Q), (x, (w e1 + dx)%Q). auto. }
  split; rewrite !in_app_iff; tauto.
Qed.

Lemma skipn_map_cons {A B} (f : A -> B) (l : list A) k d0 :
  k < length l -> skipn k (map f l) = f (nth k l d0) :: map f (skipn (S k) l).
Proof.
  revert k; induction l as [|x l IH]; intros k Hk; simpl in Hk; [lia|].
  destruct k; simpl; [reflexivity|]. apply IH. lia.
Qed.

Theorem reroot_midpoint_halfway t t' :
  wf t = true -> 2 <= degree t -> (rooted t = true -> root_has_inner_child t = true) ->
  (rooted t = true -> forall p, In p (kids t) -> (0 <= elen (fst p))%Q) ->
  NoDup (leaves t) ->
  reroot_midpoint t = Ok t' ->
  halfway_w elen t t'.
Proof.
  intros Hwf Hd Hi Hnn HND H.
  destruct (unroot_stage t Hwf Hd Hi) as [W1 [D1 [L1 _]]].
  destruct (reroot_midpoint_scan _ _ D1 H) as (q&lf&v&pA&cur&ea0&Hin&Hv&Hm&Hcur&Hall&He&Hres).
  assert (P1 : dists_equiv (pairdists elen (unroot t)) (pairdists elen t)).
  { destruct (rooted t) eqn:Hr.
    - apply unroot_pairdists_elen; auto.
    - rewrite (unroot_not_rooted t Hr). reflexivity. }
  assert (ND1 : NoDup (leaves (unroot t))) by (now rewrite L1).
  (* the chosen view *)
  destruct (view_shape _ _ _ _ _ _ W1 D1 Hin Hv Hm)
    as (n&c&sl&ea&l0&E2&Hj&Klf&Emlp&Ecur&Kmask&W2&D2&L2&P2).
  assert (ea0 = ea).
  { unfold edge_at in He. rewrite E2 in He. simpl uslots in He. rewrite Hj in He. congruence. }
  subst ea0.
  rewrite E2 in *.
  set (j := tv_slot v) in *. set (t2 := UNode n c sl) in *.
  set (A' := UNode n c (set_nth j None sl)) in *.
  assert (ND2 : NoDup (leaves t2)) by (now rewrite L2).
  assert (PT : dists_equiv (pairdists elen t2) (pairdists elen t))
    by (etransitivity; [apply P2 | exact P1]).
  set (na := uname lf). set (da := (elen ea + 0)%Q).
  (* the far end *)
  destruct (mlp_leaf _ _ _ Emlp) as [[K0 _]|[_ [HpA [b [HbA Kb]]]]]; [contradiction|].
  destruct (mlp_spec _ _ _ Emlp) as [Hl0 Hmax0].
  unfold A' in Hl0. rewrite (path_edges_masked n c sl j pA b HbA) in Hl0. fold t2 in Hl0.
  assert (Hb : node_at t2 pA = Some b) by (apply (node_at_masked n c sl j pA b HpA HbA)).
  destruct (depth_of_path elen pA A' b HbA Kb) as [dB [HdB EdB]].
  unfold A' in EdB. rewrite (path_edges_masked n c sl j pA b HbA) in EdB. fold t2 in EdB.
  set (nb := uname b) in *.
  set (PE := path_edges t2 pA) in *.
  assert (LPE : length PE = length pA) by (unfold PE; eapply path_edges_length; eauto).
  assert (EdB' : (dB == l0)%Q) by (rewrite EdB, Hl0; reflexivity).
  (* the distance between the two ends is cur, the largest of all *)
  destruct (view_pairs_in n c sl j ea lf Hj Klf Kmask nb dB HdB) as [Hab _].
  fold t2 in Hab. fold na in Hab. fold da in Hab.
  destruct (dists_equiv_In _ _ PT _ _ _ Hab) as [D0 [HD0 ED0]].
  assert (ED : (D0 == cur)%Q).
  { rewrite <- ED0. unfold da. rewrite EdB', Ecur. ring. }
  exists na, nb, D0.
  assert (Hmax : forall x, In x (pairdists elen t) -> (snd x <= D0)%Q).
  { intros [[x1 y1] d] Hx. simpl.
    pose proof (pairdists_names_in elen t) as FN. rewrite Forall_forall in FN.
    destruct (FN _ Hx) as [Hx1 _]. simpl in Hx1.
    assert (Hx1' : In x1 (leaves (unroot t))) by (apply (Permutation_in _ (Permutation_sym L1)); exact Hx1).
    destruct (tip_paths_of_leaf (unroot t) x1 W1 D1 Hx1') as (qx & lfx & Hinx & Enx).
    destruct (Hall _ Hinx) as (vx & px & lx & Hvx & Hmx & Hlx). simpl in Hvx.
    destruct (view_shape _ _ _ _ _ _ W1 D1 Hinx Hvx Hmx)
      as (n'&c'&sl'&ea'&l0'&E2'&Hj'&Klf'&Emlp'&Elx&Kmask'&W2'&D2'&L2'&P2').
    assert (ND2' : NoDup (leaves (UNode n' c' sl'))) by (rewrite <- E2', L2'; exact ND1).
    assert (PT' : dists_equiv (pairdists elen t) (pairdists elen (UNode n' c' sl'))).
    { symmetry. rewrite <- E2'. etransitivity; [apply P2' | exact P1]. }
    destruct (dists_equiv_In _ _ PT' _ _ _ Hx) as [d' [Hd' Ed']].
    destruct (view_pairs_inv n' c' sl' (tv_slot vx) ea' lfx Hj' Klf' Kmask' ND2' x1 y1 d' Hd') as [Hinv _].
    destruct (Hinv (eq_sym Enx)) as [dy [Hdy Ed]].
    destruct (mlp_spec _ _ _ Emlp') as [_ Hmax'].
    rewrite Forall_forall in Hmax'. specialize (Hmax' _ Hdy). simpl in Hmax'.
    rewrite Ed', Ed, ED. eapply Qle_trans; [|exact Hlx]. rewrite Elx.
    setoid_replace (elen ea' + 0 + dy)%Q with (dy + elen ea')%Q by ring.
    now apply Qplus_le_l. }
  (* the new root *)
  assert (NS : is_prefix pA (tv_root v) = false).
  { pose proof Hin as Hin'. apply tip_paths_In in Hin' as [Hq _].
    apply (not_stale (unroot t) q lf v pA b W1 D1 Hq Hv HpA); [rewrite E2; exact Hb | exact Kb]. }
  unfold mp_result in Hres. cbv zeta in Hres. rewrite E2, NS in Hres. fold j t2 PE in Hres.
  set (m := length pA) in *.
  assert (LPE' : length PE = m) by exact LPE.
  set (half := qhalf cur) in *.
  assert (Hhalf : (0 < half)%Q).
  { unfold half, qhalf. apply Qmult_lt_0_compat; [exact Hcur | reflexivity]. }
  set (PEl := map elen PE).
  assert (Els : map elen (rev PE ++ [ea]) = rev PEl ++ [elen ea]).
  { rewrite map_app, map_rev. reflexivity. }
  rewrite Els in Hres.
  destruct (walk half (rev PEl ++ [elen ea]) 0 0%Q) as [i len] eqn:Ew.
  assert (Hi1 : 1 <= i).
  { destruct (rev PEl ++ [elen ea]) as [|x r] eqn:El; [destruct (rev PEl); discriminate|].
    eapply walk_pos; eauto. }
  destruct (walk_sum _ _ _ _ _ _ Ew) as [_ Hlen]. rewrite Nat.sub_0_r in Hlen.
  assert (Hi' : i <= m + 1).
  { apply walk_le in Ew. rewrite app_length, rev_length in Ew. unfold PEl in Ew.
    rewrite map_length, LPE' in Ew. simpl in Ew. lia. }
  assert (LPEl : length PEl = m) by (unfold PEl; now rewrite map_length).
  (* the leaves below the root of the view *)
  assert (NEsl : kids_of sl <> []).
  { intros K. assert (In (ea, lf) (kids_of sl)) by (apply kids_of_In; eapply nth_error_In; eauto).
    rewrite K in H0. destruct H0. }
  assert (Lt2 : leaves t2 = slot_leaves sl) by (apply leaves_node; exact NEsl).
  assert (Llf : leaves lf = [na]).
  { destruct lf as [nm cm slm]. unfold kids in Klf. simpl in Klf. rewrite leaves_unfold, Klf. reflexivity. }
  assert (NDsl : NoDup (slot_leaves sl)) by (rewrite <- Lt2; exact ND2).
  assert (NDA : NoDup (leaves A')).
  { unfold A'. destruct (kids_of_set_nth sl j (ea, lf) Hj) as [K1 [K2 [F1 F2]]].
    rewrite leaves_node by (unfold A', kids in Kmask; exact Kmask). rewrite F2.
    unfold slot_leaves in NDsl. rewrite F1, kleaves_app, kleaves_cons in NDsl. rewrite kleaves_app.
    apply NoDup_remove_1 with (a := na). cbn [snd] in NDsl. rewrite Llf in NDsl. exact NDsl. }
  destruct (Nat.ltb (i - 1) m) eqn:Elt.
  - (* the root is inserted on a branch of the path below the neighbour of the start tip *)
    apply Nat.ltb_lt in Elt.
    set (d := m - (i - 1)) in *.
    assert (Hd1 : d - 1 < length pA) by (fold m; unfold d; lia).
    destruct (path_edges_nth pA t2 b (d - 1) Hb Hd1) as [P [ch [HP HK]]].
    fold PE in HK.
    assert (Ece : nth (i - 1) (rev PE ++ [ea]) e0 = nth (d - 1) PE e0).
    { rewrite app_nth1 by (rewrite rev_length; lia). rewrite rev_nth by lia.
      f_equal. unfold d. lia. }
    rewrite Ece in Hres.
    set (ce := nth (d - 1) PE e0) in *.
    set (cut := (len - half)%Q) in *.
    destruct (cut_and_root_spec elen t2 (firstn (d - 1) pA) (nth (d - 1) pA 0) true
                (mkE cut (esup ce) nilv []) (mkE (elen ce - cut) (esup ce) nilv [])
                P ce ch W2 D2 HP HK) as [t4 [R [E4 [S4 [_ [L4 P4]]]]]].
    { simpl. ring. }
    assert (Et : t4 = t') by congruence. rewrite Et in *. clear Et E4.
    (* the far end below the cut *)
    assert (HSd : S (d - 1) = d) by (unfold d; lia).
    assert (Hch : node_at t2 (firstn d pA) = Some ch).
    { rewrite <- HSd, (firstn_S_nth pA 0 (d - 1) Hd1), node_at_app, HP. simpl. now rewrite HK. }
    assert (Hbch : node_at ch (skipn d pA) = Some b).
    { rewrite <- (firstn_skipn d pA), node_at_app, Hch in Hb. exact Hb. }
    destruct (depth_of_path elen (skipn d pA) ch b Hbch Kb) as [dbc [Hdbc Edbc]].
    assert (Esk : path_edges ch (skipn d pA) = skipn d PE).
    { unfold PE. rewrite <- (firstn_skipn d pA) at 2. rewrite (path_edges_app _ _ _ _ Hch).
      rewrite skipn_app.
      assert (Lf : length (path_edges t2 (firstn d pA)) = d).
      { rewrite (path_edges_length _ _ _ Hch), firstn_length. fold m. unfold d. lia. }
      rewrite (skipn_all2 (path_edges t2 (firstn d pA))) by (rewrite Lf; lia).
      rewrite Lf, Nat.sub_diag. reflexivity. }
    rewrite Esk in Edbc.
    (* the length walked *)
    assert (Hlen' : (len == elen ce + qsum (map elen (skipn d PE)))%Q).
    { rewrite Hlen. rewrite firstn_app, rev_length, LPEl.
      replace (i - m) with 0 by lia. simpl firstn. rewrite app_nil_r.
      rewrite firstn_rev, LPEl, qsum_rev.
      replace (m - i) with (d - 1) by (unfold d; lia).
      assert (Esp : skipn (d - 1) PEl = elen ce :: map elen (skipn d PE)).
      { unfold PEl, ce.
        rewrite (skipn_map_cons elen PE (d - 1) e0) by (rewrite LPE'; fold m in Hd1; exact Hd1).
        now rewrite HSd. }
      rewrite Esp. simpl. ring. }
    rewrite S4.
    set (eC := mkE (elen ce - cut) (esup ce) nilv []) in *.
    set (eP := mkE cut (esup ce) nilv []) in *.
    assert (Dcc : depths elen (cut_child ch) = depths elen ch) by (destruct (cut_child_obs elen ch) as [_ [D _]]; exact D).
    assert (Lcc : leaves (cut_child ch) = leaves ch) by (destruct (cut_child_obs elen ch) as [L _]; exact L).
    (* the start tip is on the other side of the new root *)
    assert (Hna2 : In na (leaves t2)).
    { rewrite Lt2. destruct (child_leaves_split sl j ea lf Hj) as [X [Y E]]. rewrite E, Llf, !in_app_iff. simpl. auto. }
    assert (HnaR : In na (leaves R)).
    { assert (Hin' : In na (leaves (UNode "" [] [Some (eC, cut_child ch); Some (eP, R)]))).
      { rewrite <- S4. apply (Permutation_in _ (Permutation_sym L4)). exact Hna2. }
      rewrite leaves_node in Hin' by (simpl; discriminate). simpl in Hin'. rewrite app_nil_r, Lcc in Hin'.
      apply in_app_or in Hin' as [Hin'|Hin']; auto. exfalso.
      (* ch is below a child of the root other than the start tip *)
      destruct (firstn d pA) as [|k0 r0] eqn:Ef; [rewrite <- HSd in Ef; destruct pA; [congruence|discriminate]|].
      assert (Hk0 : k0 <> j).
      { destruct pA as [|k1 r1]; [congruence|]. rewrite <- HSd in Ef. simpl in Ef. inversion Ef; subst k1.
        eapply masked_first_index; eauto. }
      simpl in Hch. destruct (nth_error sl k0) as [[[e0' c0']|]|] eqn:Ek0; try discriminate.
      eapply (two_children_disjoint sl k0 j); eauto.
      - apply (node_at_incl c0' r0 ch Hch). exact Hin'.
      - rewrite Llf. now left. }
    destruct (leaf_has_depth elen R na HnaR) as [daR HdaR].
    rewrite <- Dcc in Hdbc.
    destruct (root2_cross elen eC (cut_child ch) eP R nb dbc na daR Hdbc HdaR) as [Hcr _].
    rewrite <- S4 in Hcr.
    destruct (dists_equiv_In _ _ P4 _ _ _ Hcr) as [d2 [Hd2 Ed2]].
    destruct (view_pairs_inv n c sl j ea lf Hj Klf Kmask ND2 nb na d2 Hd2) as [_ Hinv].
    destruct (Hinv eq_refl) as [dx [Hdx Edx]].
    assert (dx = dB) by (eapply (depth_unique elen A'); eauto). subst dx.
    exists (elen eP + daR)%Q, (elen eC + dbc)%Q.
    split; [exact HD0|]. split; [exact Hmax|]. split; [rewrite ED; exact Hcur|].
    rewrite root2_depths.
    split; [apply in_or_app; right; unfold shift; apply in_map_iff; exists (na, daR); auto|].
    split; [apply in_or_app; left; unfold shift; apply in_map_iff; exists (nb, dbc); auto|].
    assert (Eb : (elen eC + dbc == half)%Q).
    { unfold eC. cbn [elen]. unfold cut. rewrite Edbc, Hlen'. ring. }
    split.
    + (* the start tip: the whole path minus the far half *)
      assert (Esum : (elen eC + dbc + (elen eP + daR) == cur)%Q).
      { rewrite Ed2, Edx. fold da. unfold da. rewrite EdB', Ecur. ring. }
      rewrite ED. rewrite Eb in Esum. unfold half, qhalf in Esum. lra.
    + rewrite Eb, ED. reflexivity.
  - (* the root is inserted on the branch of the start tip *)
    apply Nat.ltb_ge in Elt. assert (Ei : i - 1 = m) by lia.
    assert (Ece : nth (i - 1) (rev PE ++ [ea]) e0 = ea).
    { rewrite Ei, app_nth2 by (rewrite rev_length; lia). rewrite rev_length, LPE', Nat.sub_diag. reflexivity. }
    rewrite Ece in Hres.
    set (cut := (len - half)%Q) in *.
    destruct (cut_and_root_spec elen t2 [] j false
                (mkE (elen ea - cut) (esup ea) nilv []) (mkE cut (esup ea) nilv [])
                t2 ea lf W2 D2 eq_refl Hj) as [t4 [R [E4 [S4 [_ [L4 P4]]]]]].
    { simpl. ring. }
    assert (Et : t4 = t') by congruence. rewrite Et in *. clear Et E4.
    set (eP := mkE (elen ea - cut) (esup ea) nilv []) in *.
    set (eC := mkE cut (esup ea) nilv []) in *.
    assert (Hlen' : (len == cur)%Q).
    { rewrite Hlen. replace i with (m + 1) by lia.
      rewrite firstn_all2 by (rewrite app_length, rev_length, LPEl; simpl; lia).
      rewrite qsum_app, qsum_rev. simpl. rewrite Ecur, Hl0. unfold PEl. ring. }
    assert (Dcc : depths elen (cut_child lf) = [(na, 0%Q)]).
    { destruct (cut_child_obs elen lf) as [_ [D _]]. rewrite D.
      destruct lf as [nm cm slm]. unfold kids in Klf. simpl in Klf. rewrite depths_unfold, Klf. reflexivity. }
    assert (Lcc : leaves (cut_child lf) = [na]) by (destruct (cut_child_obs elen lf) as [L _]; now rewrite L).
    (* the far end is on the other side *)
    assert (Hnb2 : In nb (leaves t2)) by (apply (node_at_incl t2 pA b Hb); destruct b as [nm cm slm]; unfold kids in Kb; simpl in Kb; rewrite leaves_unfold, Kb; now left).
    assert (Hnab : nb <> na).
    { intros E. destruct pA as [|k0 r0]; [congruence|].
      assert (Hk0 : k0 <> j) by (eapply masked_first_index; eauto).
      simpl in Hb. destruct (nth_error sl k0) as [[[e0' c0']|]|] eqn:Ek0; try discriminate.
      eapply (two_children_disjoint sl k0 j e0' c0' ea lf nb); eauto.
      - apply (node_at_incl c0' r0 b Hb). destruct b as [nm cm slm]. unfold kids in Kb. simpl in Kb.
        rewrite leaves_unfold, Kb. now left.
      - rewrite Llf, E. now left. }
    assert (HnbR : In nb (leaves R)).
    { assert (Hin' : In nb (leaves (UNode "" [] [Some (eP, R); Some (eC, cut_child lf)]))).
      { rewrite <- S4. apply (Permutation_in _ (Permutation_sym L4)). exact Hnb2. }
      rewrite leaves_node in Hin' by (simpl; discriminate). simpl in Hin'. rewrite app_nil_r, Lcc in Hin'.
      apply in_app_or in Hin' as [Hin'|[Hin'|[]]]; auto. congruence. }
    destruct (leaf_has_depth elen R nb HnbR) as [dbR HdbR].
    assert (Hda' : In (na, 0%Q) (depths elen (cut_child lf))) by (rewrite Dcc; now left).
    destruct (root2_cross elen eP R eC (cut_child lf) nb dbR na 0%Q HdbR Hda') as [Hcr _].
    rewrite <- S4 in Hcr.
    destruct (dists_equiv_In _ _ P4 _ _ _ Hcr) as [d2 [Hd2 Ed2]].
    destruct (view_pairs_inv n c sl j ea lf Hj Klf Kmask ND2 nb na d2 Hd2) as [_ Hinv].
    destruct (Hinv eq_refl) as [dx [Hdx Edx]].
    assert (dx = dB) by (eapply (depth_unique elen A'); eauto). subst dx.
    exists (elen eC + 0)%Q, (elen eP + dbR)%Q.
    split; [exact HD0|]. split; [exact Hmax|]. split; [rewrite ED; exact Hcur|].
    rewrite S4, root2_depths.
    split; [apply in_or_app; right; rewrite Dcc; simpl; now left|].
    split; [apply in_or_app; left; unfold shift; apply in_map_iff; exists (nb, dbR); auto|].
    assert (Ea : (elen eC + 0 == half)%Q).
    { unfold eC. cbn [elen]. unfold cut. rewrite Hlen'. unfold half, qhalf. ring. }
    split.
    + rewrite Ea, ED. reflexivity.
    + assert (Esum : (elen eP + dbR + (elen eC + 0) == cur)%Q).
      { rewrite Ed2, Edx. fold da. unfold da. rewrite EdB', Ecur. ring. }
      rewrite ED. rewrite Ea in Esum. unfold half, qhalf in Esum. lra.
Qed.
