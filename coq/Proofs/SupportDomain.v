(** C10: which collections FBP and TBE accept (exactly those on the taxa of the reference),
    tip branches, and the statements of the property that are false of the code as it is
    (witnesses). *)
From Coq Require Import String ZArith QArith Lqa Bool Arith Lia Permutation List.
From GT Require Import Base.UTree Spec.Obs Spec.Support Model.Support
     Proofs.SupportBase Proofs.SupportMTD Proofs.SupportClosed Proofs.SupportSpec.
Import ListNotations.
Local Close Scope Q_scope.
Local Open Scope string_scope.

Lemma has_dup_false : forall l, has_dup l = false <-> NoDup l.
Proof.
  induction l as [|x l IH]; simpl.
  - split; [constructor|reflexivity].
  - rewrite orb_false_iff, IH, mem_false. split.
    + intros [H1 H2]. constructor; assumption.
    + intros H. inversion H; subst. split; assumption.
Qed.

Lemma leaves_nonempty : forall t, leaves t <> [].
Proof.
  induction t as [n cm sl IH] using utree_ind'. simpl.
  destruct (kids_of sl) as [|[e c] k] eqn:K; [discriminate|].
  assert (Hin : In (Some (e, c)) sl) by (apply in_kids_of; rewrite K; left; reflexivity).
  rewrite Forall_forall in IH. specialize (IH _ Hin). simpl in IH.
  apply in_split in Hin. destruct Hin as [l1 [l2 ->]]. rewrite flat_map_app. simpl.
  intros H. apply app_eq_nil in H. destruct H as [_ H]. apply app_eq_nil in H. destruct H as [H _]. contradiction.
Qed.

(** ReinitIndexes + CompareTipIndexes accept a bootstrap tree iff it is on the taxa of the
    reference *)
Lemma boot_err_ok : forall ref b,
    good ref -> good b -> (boot_err ref b = "" <-> same_taxa_p ref b).
Proof.
  intros ref b [W [D N]] [Wb [Db Nb]]. unfold boot_err, same_taxa_p.
  rewrite (tip_names_leaves ref W D), (tip_names_leaves b Wb Db).
  replace (has_dup (leaves b)) with false by (symmetry; apply has_dup_false; exact Nb).
  unfold compare_tip_indexes.
  pose proof (leaves_nonempty ref) as Nr. pose proof (leaves_nonempty b) as Nbb.
  replace (Nat.eqb (length (leaves ref)) 0) with false
    by (symmetry; apply Nat.eqb_neq; destruct (leaves ref); [congruence|discriminate]).
  replace (Nat.eqb (length (leaves b)) 0) with false
    by (symmetry; apply Nat.eqb_neq; destruct (leaves b); [congruence|discriminate]).
  cbn [orb]. destruct (Nat.eqb (length (leaves ref)) (length (leaves b))) eqn:L; cbn [negb].
  - apply Nat.eqb_eq in L.
    destruct (forallb (fun k => mem k (leaves b)) (leaves ref)) eqn:F.
    + split; [intros _|reflexivity]. rewrite forallb_forall in F.
      assert (I : incl (leaves ref) (leaves b)) by (intros x Hx; apply mem_In; apply F; exact Hx).
      intros x. split; [apply I|].
      apply (NoDup_length_incl N); [lia|exact I].
    + split; [discriminate|]. intros S. exfalso.
      assert (forallb (fun k => mem k (leaves b)) (leaves ref) = true); [|congruence].
      apply forallb_forall. intros x Hx. apply mem_In. apply S. exact Hx.
  - apply Nat.eqb_neq in L. split; [discriminate|]. intros S. exfalso. apply L.
    apply Permutation_length. apply NoDup_Permutation; assumption.
Qed.

Lemma taxa_ok_domain : forall ref boots,
    good ref -> Forall good boots ->
    (taxa_ok ref boots = true <-> Forall (same_taxa_p ref) boots).
Proof.
  intros ref boots G F. unfold taxa_ok. destruct G as [W [D N]].
  rewrite (tip_names_leaves ref W D).
  replace (has_dup (leaves ref)) with false by (symmetry; apply has_dup_false; exact N).
  cbn [negb andb]. rewrite forallb_forall, Forall_forall. rewrite Forall_forall in F.
  split; intros H b Hb; specialize (H b Hb).
  - apply (boot_err_ok ref b (conj W (conj D N)) (F b Hb)). apply String.eqb_eq. exact H.
  - apply String.eqb_eq. apply (boot_err_ok ref b (conj W (conj D N)) (F b Hb)). exact H.
Qed.

Lemma domain_taxa_ok : forall ref boots, domain ref boots -> taxa_ok ref boots = true.
Proof.
  intros ref boots [G F]. apply taxa_ok_domain; [exact G| |].
  - eapply Forall_impl; [|exact F]. intros b [H _]. exact H.
  - eapply Forall_impl; [|exact F]. intros b [_ H]. exact H.
Qed.

(** a collection on the taxa of the reference is accepted *)
Theorem same_taxa_accepted : forall ref boots,
    domain ref boots -> oerr (fbp ref boots) = "" /\ oerr (tbe ref boots) = "".
Proof.
  intros ref boots Dom. pose proof (domain_taxa_ok ref boots Dom) as T.
  rewrite (fbp_closed ref boots T), (tbe_closed ref boots T). split; reflexivity.
Qed.

(** a collection with a bootstrap tree on other taxa is refused with an error, wherever the
    tree stands *)
Theorem foreign_taxa_rejected : forall ref boots,
    good ref -> Forall good boots ->
    (exists b, In b boots /\ ~ same_taxa_p ref b) ->
    oerr (fbp ref boots) <> "" /\ oerr (tbe ref boots) <> "".
Proof.
  intros ref boots G F [b [Hb NS]].
  assert (T : taxa_ok ref boots = false).
  { destruct (taxa_ok ref boots) eqn:T; [|reflexivity]. exfalso.
    apply (taxa_ok_domain ref boots G F) in T. rewrite Forall_forall in T. apply NS. apply T. exact Hb. }
  assert (D : has_dup (tip_names ref) = false).
  { destruct G as [W [D N]]. rewrite (tip_names_leaves ref W D). apply has_dup_false. exact N. }
  rewrite (fbp_err ref boots D), (tbe_err ref boots D).
  unfold taxa_ok in T. rewrite D in T. cbn [negb andb] in T. rewrite <- first_err_ok in T.
  unfold no_err in T. apply String.eqb_neq in T. split; exact T.
Qed.

(** * tip branches receive no support *)
Lemma tip_topo_depth : forall ref c, is_tip c = true -> topo_depth ref c <= 1.
Proof.
  intros ref [n cm sl] T. unfold is_tip, degree in T. simpl in T.
  unfold topo_depth, ntax_right. simpl. rewrite T. simpl. lia.
Qed.

Theorem tbe_tip_no_support : forall ref boots c, is_tip c = true -> tbe_val ref boots c = nilv.
Proof.
  intros ref boots c T. unfold tbe_val. pose proof (tip_topo_depth ref c T).
  replace (Nat.ltb 1 (topo_depth ref c)) with false by (symmetry; apply Nat.ltb_ge; assumption).
  reflexivity.
Qed.

(** with [fbp_closed] / [tbe_closed]: in the result of FBP a tip branch keeps the support
    field it had, in the result of TBE it holds NIL_SUPPORT *)
Theorem tips_no_support : forall ref boots e c,
    taxa_ok ref boots = true -> In (e, c) (edges ref) -> is_tip c = true ->
    In (true, esup e) (osup (fbp ref boots)) /\ In (true, nilv) (osup (tbe ref boots)).
Proof.
  intros ref boots e c T Hin Tip.
  rewrite (fbp_closed ref boots T), (tbe_closed ref boots T). cbn [osup]. split.
  - apply in_map_iff. exists (e, c). cbn [fst snd]. rewrite Tip. split; [reflexivity|exact Hin].
  - apply in_map_iff. exists (e, c). cbn [fst snd]. rewrite Tip, (tbe_tip_no_support ref boots c Tip).
    split; [reflexivity|exact Hin].
Qed.

(** * witnesses: a rooted reference whose root has a tip child *)
Definition wtip (n : string) : utree := UNode n [] [None].
Definition wnode (l : list utree) : utree := UNode "" [] (None :: map (fun c => Some (e0, c)) l).
Definition wroot (l : list utree) : utree := UNode "" [] (map (fun c => Some (e0, c)) l).

(** ((b,(c,d)),a) rooted: root branches to the tip a and to the inner node (b,(c,d)) *)
Definition w_inner : utree := wnode [wtip "b"; wnode [wtip "c"; wtip "d"]].
Definition w_ref : utree := wroot [wtip "a"; w_inner].
(** the same tree, unrooted *)
Definition w_boot : utree := wroot [wtip "a"; wtip "b"; wnode [wtip "c"; wtip "d"]].

Lemma w_good_ref : good w_ref.
Proof.
  split; [reflexivity|]. split; [unfold degree; simpl; lia|].
  simpl. repeat constructor; simpl; intuition discriminate.
Qed.

Lemma w_good_boot : good w_boot.
Proof.
  split; [reflexivity|]. split; [unfold degree; simpl; lia|].
  simpl. repeat constructor; simpl; intuition discriminate.
Qed.

Lemma w_domain : domain w_ref [w_boot].
Proof.
  split; [exact w_good_ref|]. constructor; [|constructor]. split; [exact w_good_boot|].
  intros x. simpl. tauto.
Qed.

Lemma w_edge : In (e0, w_inner) (edges w_ref) /\ is_tip w_inner = false /\ topo_depth w_ref w_inner = 1.
Proof. split; [simpl; tauto|]. split; reflexivity. Qed.

Local Open Scope Q_scope.

(** the branch beside the tip a is an inner branch defining the split {a} | {b,c,d}, which the
    bootstrap tree contains (as the tip branch of a): the definition gives Felsenstein support 1,
    the model (and the code) 0 *)
Theorem fbp_model_spec_refuted :
  exists ref boots e c,
    domain ref boots /\ In (e, c) (edges ref) /\ is_tip c = false /\
    fbp_spec (leaves ref) (leaves c) boots == 1 /\ fbp_val ref boots c == 0 /\
    In (false, 0 / 1) (osup (fbp ref boots)).
Proof.
  exists w_ref, [w_boot], e0, w_inner.
  split; [exact w_domain|]. split; [apply w_edge|]. split; [reflexivity|].
  split; [vm_compute; reflexivity|]. split; [vm_compute; reflexivity|].
  vm_compute. tauto.
Qed.

(** ... and TBE leaves NIL_SUPPORT (-1) on it: outside [0,1], although the split is in every
    bootstrap tree (transfer index 0) *)
Theorem tbe_bounds_refuted :
  exists ref boots e c,
    domain ref boots /\ In (e, c) (edges ref) /\ is_tip c = false /\
    delta (leaves ref) (light (leaves ref) (leaves c)) w_boot = 0%nat /\
    tbe_val ref boots c == -1 /\ ~ (0 <= tbe_val ref boots c) /\
    In (false, nilv) (osup (tbe ref boots)).
Proof.
  exists w_ref, [w_boot], e0, w_inner.
  split; [exact w_domain|]. split; [apply w_edge|]. split; [reflexivity|].
  split; [vm_compute; reflexivity|]. split; [vm_compute; reflexivity|].
  split; [vm_compute; intros H; apply H; reflexivity|].
  vm_compute. tauto.
Qed.

Local Close Scope Q_scope.
(** the hypotheses of the per-branch theorems are satisfiable: the branch above (c,d) *)
Lemma w_deep_branch :
  exists e c, In (e, c) (edges w_ref) /\ 2 <= topo_depth w_ref c /\ [w_boot] <> [].
Proof.
  exists e0, (wnode [wtip "c"; wtip "d"]). split; [simpl; tauto|]. split; [vm_compute; lia|discriminate].
Qed.

(** * every branch of a good tree has a tip on both sides: p >= 1 *)
Lemma slots_leaves_nonempty : forall s : list slot,
    s <> [] -> n_up s = 0 ->
    flat_map (fun x => match x with Some (_, ch) => leaves ch | None => [] end) s <> [].
Proof.
  intros s NE U. destruct s as [|[[e c]|] r]; [congruence| |unfold n_up in U; simpl in U; lia].
  simpl. intros H. apply app_eq_nil in H. destruct H as [H _]. exact (leaves_nonempty c H).
Qed.

Theorem topo_depth_pos : forall ref e c,
    good ref -> In (e, c) (edges ref) -> 1 <= topo_depth ref c.
Proof.
  intros ref e c G Hin. destruct (model_args ref e c G Hin) as [_ [_ [_ E]]]. rewrite E.
  pose proof (leaves_nonempty c) as NA.
  assert (LA : 1 <= length (leaves c)) by (destruct (leaves c); [congruence|simpl; lia]).
  assert (LX : length (leaves c) < length (leaves ref)).
  { pose proof (c_sub ref e c G Hin) as Hs. destruct G as [W [D N]].
    destruct ref as [n cm sl]. unfold degree in D. cbn [uslots] in D.
    apply subs_in in Hs. destruct Hs as [e0 [c0 [Hs Hc]]]. cbn [uslots] in Hs.
    assert (L0 : length (leaves c) <= length (leaves c0)).
    { destruct Hc as [->|Hc]; [lia|]. destruct (subs_segment c0 c Hc) as [l1 [l2 E0]].
      rewrite E0, !app_length. lia. }
    rewrite (leaves_root n cm sl (root_kids n cm sl W D)).
    apply wf_inv in W. destruct W as [U _].
    apply in_split in Hs. destruct Hs as [s1 [s2 ->]].
    rewrite flat_map_app. cbn [flat_map]. rewrite !app_length.
    assert (U12 : n_up s1 = 0 /\ n_up s2 = 0).
    { unfold n_up in *. rewrite filter_app, app_length in U. simpl in U. lia. }
    rewrite app_length in D. simpl in D.
    destruct s1 as [|x s1'].
    - destruct s2 as [|y s2']; [simpl in D; lia|].
      pose proof (slots_leaves_nonempty (y :: s2') ltac:(discriminate) (proj2 U12)) as NE.
      destruct (flat_map _ (y :: s2')); [congruence|simpl; lia].
    - pose proof (slots_leaves_nonempty (x :: s1') ltac:(discriminate) (proj1 U12)) as NE.
      destruct (flat_map _ (x :: s1')); [congruence|simpl; lia]. }
  lia.
Qed.

(** (i) without the hypothesis on p *)
Theorem min_transfer_dist_delta_good : forall (ref boot : utree) (e : einfo) (c : utree),
    good ref -> good boot ->
    (forall x, In x (leaves ref) <-> In x (leaves boot)) ->
    In (e, c) (edges ref) ->
    min_transfer_dist (length (tips ref)) (topo_depth ref c) (ntax_right c) (below c) false boot
    = delta (leaves ref) (light (leaves ref) (leaves c)) boot.
Proof.
  intros ref boot e c G Gb S Hin. apply (min_transfer_dist_delta ref boot e c G Gb S Hin).
  eapply topo_depth_pos; eassumption.
Qed.

(** * rejection, at full strength: the offending tree may also carry a tip name twice *)
Local Open Scope string_scope.
Theorem dup_reference_rejected : forall ref boots,
    has_dup (tip_names ref) = true ->
    oerr (fbp ref boots) = dup_msg /\ oerr (tbe ref boots) = dup_msg.
Proof. intros ref boots H. unfold fbp, tbe. rewrite H. split; reflexivity. Qed.

Lemma has_dup_leaves : forall t, wf t = true -> 2 <= degree t ->
                                 (has_dup (tip_names t) = true <-> ~ NoDup (leaves t)).
Proof.
  intros t W D. rewrite (tip_names_leaves t W D). rewrite <- has_dup_false.
  destruct (has_dup (leaves t)); split; intros; congruence.
Qed.

Theorem bad_bootstrap_tree_rejected : forall ref boots b,
    good ref -> In b boots -> wf b = true -> 2 <= degree b ->
    ~ (NoDup (leaves b) /\ same_taxa_p ref b) ->
    oerr (fbp ref boots) <> "" /\ oerr (tbe ref boots) <> "".
Proof.
  intros ref boots b G Hb W D Bad.
  assert (Dr : has_dup (tip_names ref) = false).
  { destruct G as [Wr [Dr N]]. rewrite (tip_names_leaves ref Wr Dr). apply has_dup_false. exact N. }
  assert (E : no_err (boot_err ref b) = false).
  { unfold boot_err. destruct (has_dup (tip_names b)) eqn:Hd; [reflexivity|].
    destruct (no_err (compare_tip_indexes (tip_names ref) (tip_names b))) eqn:C; [|reflexivity].
    exfalso. apply Bad.
    assert (N : NoDup (leaves b)).
    { rewrite (tip_names_leaves b W D) in Hd. apply has_dup_false. exact Hd. }
    split; [exact N|]. apply (boot_err_ok ref b G (conj W (conj D N))).
    unfold boot_err. rewrite Hd. apply String.eqb_eq. exact C. }
  assert (F : no_err (first_err ref boots) = false).
  { rewrite first_err_ok. destruct (forallb _ boots) eqn:A; [|reflexivity].
    rewrite forallb_forall in A. rewrite (A b Hb) in E. discriminate. }
  rewrite (fbp_err ref boots Dr), (tbe_err ref boots Dr).
  unfold no_err in F. apply String.eqb_neq in F. split; exact F.
Qed.

(** non-vacuity: a bootstrap tree with the name c twice, after a good one *)
Definition w_boot_dup : utree := wroot [wtip "a"; wtip "b"; wnode [wtip "c"; wtip "c"]].
Lemma w_dup_example :
  wf w_boot_dup = true /\ 2 <= degree w_boot_dup /\ ~ NoDup (leaves w_boot_dup) /\
  oerr (fbp w_ref [w_boot; w_boot_dup]) = dup_msg /\ oerr (tbe w_ref [w_boot; w_boot_dup]) = dup_msg.
Proof.
  split; [reflexivity|]. split; [unfold degree; simpl; lia|]. split.
  - simpl. intros N. inversion N as [|? ? _ N1]; subst. inversion N1 as [|? ? _ N2]; subst.
    inversion N2 as [|? ? H _]; subst. apply H. left. reflexivity.
  - split; vm_compute; reflexivity.
Qed.
