(** [round64_pos] (Model/NewickNum.v: correct rounding of a positive rational to binary64)
    returns a binary64 value unchanged, whatever fraction represents it. *)
From Coq Require Import ZArith QArith Bool Lia.
From GT Require Import Model.NewickNum.
Local Close Scope Q_scope.
Local Open Scope Z_scope.

Definition scA (n e : Z) : Z := if 0 <=? e then n else n * 2 ^ (- e).
Definition scB (d e : Z) : Z := if 0 <=? e then d * 2 ^ e else d.

Lemma scaled_eq : forall n d e,
    (if 0 <=? e then (n, d * 2 ^ e) else (n * 2 ^ (- e), d)) = (scA n e, scB d e).
Proof. intros. unfold scA, scB. destruct (0 <=? e); reflexivity. Qed.

Lemma pow2_pos : forall x, 0 <= x -> 0 < 2 ^ x.
Proof. intros. apply Z.pow_pos_nonneg; lia. Qed.

Lemma pow2_split : forall a b, 0 <= a -> 0 <= b -> 2 ^ (a + b) = 2 ^ a * 2 ^ b.
Proof. intros. apply Z.pow_add_r; assumption. Qed.

Lemma scB_pos : forall d e, 0 < d -> 0 < scB d e.
Proof.
  intros d e Hd. unfold scB. destruct (0 <=? e) eqn:E; [|exact Hd].
  apply Z.leb_le in E. apply Z.mul_pos_pos; [exact Hd|apply pow2_pos; exact E].
Qed.

Section Exact.
  Variables n d k s t : Z.
  Hypothesis Hn : 0 < n.
  Hypothesis Hd : 0 < d.
  Hypothesis Hk : 0 < k < 2 ^ 53.
  Hypothesis Hs : 0 <= s.
  Hypothesis Ht : 0 <= t.
  Hypothesis Hrep : n * 2 ^ s = k * d * 2 ^ t.

  (** n/d = k * 2^(t-s) *)

  (** at any binary exponent not above t-s the scaled quotient is exact *)
  Lemma sc_exact : forall e, e <= t - s -> scA n e = (k * 2 ^ (t - s - e)) * scB d e.
  Proof.
    intros e He. unfold scA, scB. destruct (0 <=? e) eqn:E.
    - apply Z.leb_le in E.
      apply (Z.mul_reg_r _ _ (2 ^ s)); [pose proof (pow2_pos s Hs); lia|].
      rewrite Hrep.
      replace t with ((t - s - e) + e + s) at 1 by lia.
      rewrite !pow2_split by lia. ring.
    - apply Z.leb_gt in E.
      apply (Z.mul_reg_r _ _ (2 ^ s)); [pose proof (pow2_pos s Hs); lia|].
      replace (n * 2 ^ (- e) * 2 ^ s) with (n * 2 ^ s * 2 ^ (- e)) by ring.
      rewrite Hrep.
      replace (t - s - e) with (t + (- e) - s) by lia.
      assert (Hx : 2 ^ (t + - e) = 2 ^ (t + - e - s) * 2 ^ s).
      { rewrite <- pow2_split by lia. f_equal. lia. }
      rewrite pow2_split in Hx by lia. nia.
  Qed.

  (** a scaled quotient of at least 2^52 means the exponent is not above t-s *)
  Lemma sc_high : forall e, 2 ^ 52 * scB d e <= scA n e -> e <= t - s.
  Proof.
    intros e H. destruct (Z_le_gt_dec e (t - s)) as [|Hgt]; [assumption|exfalso].
    unfold scA, scB in H. destruct (0 <=? e) eqn:E.
    - apply Z.leb_le in E.
      (* n * 2^s = k d 2^t < 2^53 d 2^t <= 2^52 d 2^(e+s) *)
      assert (H1 : n * 2 ^ s < 2 ^ 53 * d * 2 ^ t).
      { rewrite Hrep. pose proof (pow2_pos t Ht). nia. }
      assert (H2 : 2 ^ 53 * d * 2 ^ t <= 2 ^ 52 * d * 2 ^ (e + s)).
      { replace (e + s) with ((t + 1) + (e + s - t - 1)) by lia.
        rewrite (pow2_split (t + 1)) by lia. rewrite (pow2_split t 1) by lia.
        pose proof (pow2_pos (e + s - t - 1) ltac:(lia)). pose proof (pow2_pos t Ht).
        change (2 ^ 53) with (2 * 2 ^ 52). change (2 ^ 1) with 2. nia. }
      rewrite pow2_split in H2 by lia.
      pose proof (pow2_pos s Hs). nia.
    - apply Z.leb_gt in E.
      assert (H1 : n * 2 ^ s * 2 ^ (- e) < 2 ^ 53 * d * 2 ^ t * 2 ^ (- e)).
      { rewrite Hrep. pose proof (pow2_pos t Ht). pose proof (pow2_pos (- e) ltac:(lia)). nia. }
      assert (H2 : 2 ^ 53 * (2 ^ t * 2 ^ (- e)) <= 2 ^ 52 * 2 ^ s).
      { rewrite <- (pow2_split t (- e)) by lia.
        replace s with ((t + - e + 1) + (s - t + e - 1)) at 1 by lia.
        rewrite (pow2_split (t + - e + 1)) by lia. rewrite (pow2_split (t + - e) 1) by lia.
        pose proof (pow2_pos (s - t + e - 1) ltac:(lia)). pose proof (pow2_pos (t + - e) ltac:(lia)).
        change (2 ^ 53) with (2 * 2 ^ 52). change (2 ^ 1) with 2. nia. }
      pose proof (pow2_pos s Hs). nia.
  Qed.

  (** the estimate from the binary logarithms is at most one too high *)
  Lemma sc_log : Z.log2 n - Z.log2 d - 52 - 1 <= t - s.
  Proof.
    destruct (Z.log2_spec n Hn) as [Hl1 _]. destruct (Z.log2_spec d Hd) as [_ Hl2].
    pose proof (Z.log2_nonneg n). pose proof (Z.log2_nonneg d).
    assert (H1 : 2 ^ (Z.log2 n + s) < 2 ^ (54 + Z.log2 d + t)).
    { rewrite pow2_split by lia.
      replace (54 + Z.log2 d + t) with (53 + (Z.succ (Z.log2 d)) + t) by lia.
      rewrite !pow2_split by lia.
      pose proof (pow2_pos s Hs). pose proof (pow2_pos t Ht).
      assert (n * 2 ^ s < 2 ^ 53 * 2 ^ Z.succ (Z.log2 d) * 2 ^ t).
      { rewrite Hrep.
        assert (k * d < 2 ^ 53 * 2 ^ Z.succ (Z.log2 d)) by (apply Z.mul_lt_mono_nonneg; lia).
        apply Z.mul_lt_mono_pos_r; assumption. }
      assert (2 ^ Z.log2 n * 2 ^ s <= n * 2 ^ s) by (apply Z.mul_le_mono_nonneg_r; lia).
      lia. }
    apply Z.pow_lt_mono_r_iff in H1; lia.
  Qed.

  Theorem round64_exact : -1074 <= t - s <= 971 ->
      exists r, round64_pos n d = Some r /\ Qeq r (Qmake n (Z.to_pos d)).
  Proof.
    intros HE. unfold round64_pos.
    set (e0 := Z.log2 n - Z.log2 d - 52).
    rewrite (scaled_eq n d e0). cbv beta iota zeta.
    set (e1 := if scA n e0 / scB d e0 <? 2 ^ 52 then e0 - 1 else e0).
    assert (He1 : e1 <= t - s).
    { unfold e1. destruct (scA n e0 / scB d e0 <? 2 ^ 52) eqn:E.
      - pose proof sc_log. unfold e0. lia.
      - apply Z.ltb_ge in E. apply sc_high.
        pose proof (scB_pos d e0 Hd).
        pose proof (Z.mul_div_le (scA n e0) (scB d e0) H). nia. }
    set (e := Z.max e1 (-1074)).
    assert (He : e <= t - s) by (unfold e; lia).
    assert (Hem : -1074 <= e) by (unfold e; lia).
    rewrite (scaled_eq n d e). cbv beta iota zeta.
    pose proof (sc_exact e He) as Hq. pose proof (scB_pos d e Hd) as Hb.
    set (q := k * 2 ^ (t - s - e)) in *.
    rewrite Hq. rewrite Z.div_mul by lia. rewrite Z.mod_mul by lia.
    replace (2 * 0 <? scB d e) with true by (symmetry; apply Z.ltb_lt; lia).
    assert (Hov : (971 <? e) || (e =? 971) && (q =? 2 ^ 53) = false).
    { apply orb_false_iff. split; [apply Z.ltb_ge; lia|].
      destruct (e =? 971) eqn:E9; [|reflexivity]. apply Z.eqb_eq in E9.
      unfold q. replace (t - s - e) with 0 by lia. simpl. apply Z.eqb_neq. lia. }
    rewrite Hov.
    destruct (0 <=? e) eqn:E.
    - apply Z.leb_le in E. eexists. split; [reflexivity|].
      unfold Qeq. simpl. rewrite Z2Pos.id by lia.
      unfold scA, scB in Hq. replace (0 <=? e) with true in Hq by (symmetry; apply Z.leb_le; lia).
      rewrite Hq. ring.
    - apply Z.leb_gt in E. eexists. split; [reflexivity|].
      rewrite Qred_correct. unfold Qeq. simpl.
      rewrite !Z2Pos.id by (try lia; apply pow2_pos; lia).
      unfold scA, scB in Hq. replace (0 <=? e) with false in Hq by (symmetry; apply Z.leb_gt; lia).
      rewrite <- Hq. ring.
  Qed.
End Exact.
