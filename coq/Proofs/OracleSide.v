(** C05, the boolean test [is_side] of Judge/C05.v ("the requested tips are one side of a split")
    against the statement [side_of] used by the theorems, and the set [present] of the judge
    against the [group] of the model. *)
From Coq Require Import String ZArith QArith Bool Arith Lia List Permutation Sorted Setoid Morphisms.
From GT Require Import Base.Sexp Base.UTree Spec.Obs Model.Reroot Model.Outgroup Spec.Unrooted Judge.C05
     Proofs.RerootBase Proofs.Reroot Proofs.Unroot Proofs.Splits Proofs.USplits Proofs.C05Main
     Proofs.OutgroupKeep Proofs.OutgroupClade Proofs.OutgroupMain Proofs.OutgroupSide Proofs.OutgroupRemoveSplits Proofs.OracleC05.
Import ListNotations.
Local Close Scope Q_scope.
Local Arguments leaves : simpl never.
Local Arguments bsplits : simpl never.

(** * lists of distinct names as sets *)
Lemma sset_eq_perm A B : NoDup A -> NoDup B -> sset A = sset B -> Permutation A B.
Proof.
  intros NA NB E. apply NoDup_Permutation; auto. intros x. rewrite <- (sset_In A), <- (sset_In B). now rewrite E.
Qed.

Lemma NoDup_app_intro_str (a b : list string) :
  NoDup a -> NoDup b -> (forall x, In x a -> In x b -> False) -> NoDup (a ++ b).
Proof.
  induction a as [|x a IH]; simpl; intros Ha Hb H; auto.
  inversion Ha as [|? ? Hx Ha']; subst. constructor.
  - rewrite in_app_iff. intros [F|F]; [contradiction|]. apply (H x); auto.
  - apply IH; auto. intros y Hy1 Hy2. apply (H y); auto.
Qed.

Definition comp (L X : list string) : list string := filter (fun x => negb (smem x X)) L.

Lemma comp_perm L X : NoDup L -> NoDup X -> incl X L -> Permutation (X ++ comp L X) L.
Proof.
  intros NL NX HI. apply NoDup_Permutation; auto.
  - apply NoDup_app_intro_str; auto.
    + unfold comp. now apply NoDup_filter.
    + intros x H1 H2. unfold comp in H2. apply filter_In in H2 as [_ H2].
      apply negb_true_iff in H2. apply smem_In in H1. congruence.
  - intros x. rewrite in_app_iff. unfold comp. rewrite filter_In, negb_true_iff. split.
    + intros [H|[H _]]; auto.
    + intros H. destruct (smem x X) eqn:E; [left; now apply smem_In | right; auto].
Qed.

(** * the canonical key determines the bipartition *)
Lemma canon_key_sides L X G :
  NoDup L -> NoDup X -> NoDup G -> incl X L -> incl G L -> G <> [] ->
  canon_side (sset L) (sset X) = canon_side (sset L) (sset G) ->
  Permutation X G \/ Permutation (X ++ G) L.
Proof.
  intros NL NX NG IX IG GN E.
  pose proof (comp_perm L X NL NX IX) as PX. pose proof (comp_perm L G NL NG IG) as PG.
  assert (NX' : NoDup (comp L X)) by (unfold comp; now apply NoDup_filter).
  assert (NG' : NoDup (comp L G)) by (unfold comp; now apply NoDup_filter).
  unfold canon_side in E. destruct (sset L) as [|m r] eqn:EL.
  - exfalso. destruct G as [|g G']; [congruence|].
    assert (In g (sset L)) by (apply sset_In, IG; now left). rewrite EL in H. destruct H.
  - rewrite <- EL in E.
    destruct (smem m (sset X)) eqn:E1, (smem m (sset G)) eqn:E2.
    + (* both complements *)
      rewrite (sdiff_complement L X (comp L X) NL PX), (sdiff_complement L G (comp L G) NL PG) in E.
      left. apply NoDup_Permutation; auto. intros x.
      assert (Hc : In x (comp L X) <-> In x (comp L G)) by (rewrite <- (sset_In (comp L X)), <- (sset_In (comp L G)); now rewrite E).
      unfold comp in Hc. rewrite !filter_In, !negb_true_iff in Hc. split; intros H.
      * destruct (smem x G) eqn:Eg; [now apply smem_In|]. exfalso.
        assert (smem x X = false) by (apply Hc; split; auto). apply smem_In in H. congruence.
      * destruct (smem x X) eqn:Ex; [now apply smem_In|]. exfalso.
        assert (smem x G = false) by (apply Hc; split; auto). apply smem_In in H. congruence.
    + rewrite (sdiff_complement L X (comp L X) NL PX) in E.
      right. etransitivity; [|exact PX]. apply Permutation_app_head. symmetry. now apply sset_eq_perm.
    + rewrite (sdiff_complement L G (comp L G) NL PG) in E.
      right. etransitivity; [|exact PG]. rewrite (sset_eq_perm X (comp L G) NX NG' E). apply Permutation_app_comm.
    + left. now apply sset_eq_perm.
Qed.

Lemma key_of_side L L0 G :
  NoDup L -> (Permutation L0 G \/ Permutation (L0 ++ G) L) ->
  canon_side (sset L) (sset L0) = canon_side (sset L) (sset G).
Proof.
  intros NL [H|H]; [now rewrite (sset_perm _ _ H) | now apply canon_side_complement].
Qed.

(** * [is_side] and [side_of] *)
Lemma side_of_is_side t G :
  NoDup (leaves t) -> side_of t G -> G <> [] -> incl G (leaves t) ->
  (exists x, In x (leaves t) /\ ~ In x G) ->
  is_side t (sset G) = true.
Proof.
  intros ND (e & L0 & b & Hin & Hs) GN IG (x & Hx & Hn). unfold is_side.
  assert (E1 : sset_eqb (sset G) [] = false).
  { apply sset_eqb_false. intros E. destruct G as [|g G']; [congruence|].
    assert (In g (sset (g :: G'))) by (apply sset_In; now left). rewrite E in H. destruct H. }
  assert (E2 : sset_eqb (sset G) (tipset t) = false).
  { apply sset_eqb_false. intros E. apply Hn. apply sset_In. rewrite E. unfold tipset. now apply sset_In. }
  rewrite E1, E2. cbn [negb andb]. apply existsb_exists.
  exists (canon_split (tipset t) (e, L0, b)). split.
  - rewrite branch_splits_bsplits. now apply in_map.
  - unfold canon_split. cbn [sside fst snd]. apply sset_eqb_eq. unfold tipset.
    rewrite (key_of_side (leaves t) L0 G ND Hs). reflexivity.
Qed.

Lemma is_side_side_of t G :
  NoDup (leaves t) -> NoDup G -> incl G (leaves t) ->
  is_side t (sset G) = true -> side_of t G.
Proof.
  intros ND NG IG H. unfold is_side in H.
  apply andb_true_iff in H as [H H3]. apply andb_true_iff in H as [H1 H2].
  apply existsb_exists in H3 as [s [Hs Hk]]. apply sset_eqb_eq in Hk.
  rewrite branch_splits_bsplits in Hs. apply in_map_iff in Hs as [[[e L0] b] [<- Hin]].
  unfold canon_split in Hk. cbn [sside fst snd] in Hk.
  assert (GN : G <> []).
  { intros ->. simpl in H1. discriminate. }
  assert (IX : incl L0 (leaves t)).
  { pose proof (bsplits_sides_incl t) as F. rewrite Forall_forall in F. exact (F _ Hin). }
  assert (NX : NoDup L0).
  { destruct (bsplits_In_node t _ Hin) as (p & vv & _ & Hn & E). simpl in E. subst L0.
    eapply node_at_NoDup; eauto. }
  exists e, L0, b. split; auto.
  unfold tipset in Hk.
  exact (canon_key_sides (leaves t) L0 G ND NX NG IX IG GN Hk).
Qed.
