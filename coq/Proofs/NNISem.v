(** C17, what Apply does to the observables: well-formedness, the tips, the branches.
    Local facts on the picture around the central branch (Proofs/NNIBase.v), then lifted
    through the path from the root. *)
From Coq Require Import String ZArith QArith Bool Arith Lia List Permutation Setoid Morphisms.
From GT Require Import Base.UTree Spec.Obs Spec.Unrooted Model.Reroot Model.NNI
     Proofs.RerootBase Proofs.Reorder Proofs.Splits Proofs.NNIBase.
Import ListNotations.
Local Close Scope Q_scope.
Local Arguments n_up : simpl never.
Local Arguments leaves : simpl never.
Local Arguments bsplits : simpl never.
Local Arguments kleaves : simpl never.
Local Arguments kbs : simpl never.

(** * a node only matters through the multiset of its slots *)
Lemma forallb_perm {A} (f : A -> bool) l l' : Permutation l l' -> forallb f l = forallb f l'.
Proof.
  induction 1; simpl; auto.
  - now rewrite IHPermutation.
  - now rewrite !andb_assoc, (andb_comm (f y)).
  - congruence.
Qed.

Definition ko (s : slot) : list (einfo * utree) := match s with Some p => [p] | None => [] end.
Definition wfk (s : slot) : bool := match s with Some (_, c) => wf_sub c | None => true end.
Definition upk (s : slot) : nat := match s with Some _ => 0 | None => 1 end.

Lemma kids_pl k (x : slot) a b : Permutation (kids_of (pl k x (a, b))) (ko x ++ ko a ++ ko b).
Proof.
  rewrite (Permutation_kids_of _ _ (pl_perm k x (a, b))). simpl.
  destruct x, a, b; reflexivity.
Qed.

Lemma n_up_pl3 k (x : slot) a b : n_up (pl k x (a, b)) = upk x + upk a + upk b.
Proof. rewrite n_up_pl. destruct x, a, b; reflexivity. Qed.

Lemma wfk_pl k (x : slot) a b :
  forallb (fun p => wf_sub (snd p)) (kids_of (pl k x (a, b))) = wfk x && wfk a && wfk b.
Proof.
  rewrite (forallb_perm _ _ _ (kids_pl k x a b)).
  destruct x as [[? ?]|], a as [[? ?]|], b as [[? ?]|]; simpl; rewrite ?andb_true_r; auto using andb_assoc.
Qed.

Lemma wf_sub_pl n c k x a b :
  wf_sub (UNode n c (pl k x (a, b))) = Nat.eqb (upk x + upk a + upk b) 1 && (wfk x && wfk a && wfk b).
Proof. now rewrite wf_sub_unfold, n_up_pl3, wfk_pl. Qed.
Lemma wf_pl n c k x a b :
  wf (UNode n c (pl k x (a, b))) = Nat.eqb (upk x + upk a + upk b) 0 && (wfk x && wfk a && wfk b).
Proof. now rewrite wf_unfold, n_up_pl3, wfk_pl. Qed.

Lemma kleaves_perm K K' : Permutation K K' -> Permutation (kleaves K) (kleaves K').
Proof. apply Permutation_flat_map. Qed.
Lemma kbs_perm K K' : Permutation K K' -> Permutation (kbs K) (kbs K').
Proof. apply Permutation_flat_map. Qed.

Lemma leaves_pl n c k x a b :
  ko x ++ ko a ++ ko b <> [] ->
  Permutation (leaves (UNode n c (pl k x (a, b)))) (kleaves (ko x) ++ kleaves (ko a) ++ kleaves (ko b)).
Proof.
  intros NE. rewrite leaves_unfold. pose proof (kids_pl k x a b) as HP.
  destruct (kids_of (pl k x (a, b))) as [|q K] eqn:E.
  - apply Permutation_nil in HP. contradiction.
  - rewrite (kleaves_perm _ _ HP). now rewrite !kleaves_app.
Qed.

Lemma bsplits_pl n c k x a b :
  Permutation (bsplits (UNode n c (pl k x (a, b)))) (kbs (ko x) ++ kbs (ko a) ++ kbs (ko b)).
Proof. rewrite bsplits_unfold, (kbs_perm _ _ (kids_pl k x a b)). now rewrite !kbs_app. Qed.

Lemma isleaf_pl n c k q a b : isleaf (UNode n c (pl k (Some q) (a, b))) = false.
Proof.
  apply isleaf_false. intros E. pose proof (kids_pl k (Some q) a b) as HP. rewrite E in HP.
  apply Permutation_nil in HP. discriminate.
Qed.

Lemma kleaves_one p : kleaves [p] = leaves (snd p).
Proof. unfold kleaves. simpl. apply app_nil_r. Qed.
Lemma kbs_one p : kbs [p] = (fst p, leaves (snd p), isleaf (snd p)) :: bsplits (snd p).
Proof. unfold kbs. simpl. now rewrite app_nil_r. Qed.
Lemma kleaves_nil : kleaves [] = [].
Proof. reflexivity. Qed.
Lemma kbs_nil : kbs [] = [].
Proof. reflexivity. Qed.

(** * the picture: corners *)
Definition stay (cross : bool) (P : picture) : einfo * utree := if cross then p_y2 P else p_y1 P.

(** leaves behind a neighbour of n1: a child's own leaves, for the parent the leaves [O]
    outside the picture *)
Definition corner (O : list string) (s : slot) : list string :=
  match s with Some (_, c) => leaves c | None => O end.

Section Local.
  Variables (k j : nat) (cross : bool) (P : picture).
  Hypothesis Hk : k < 3.
  Hypothesis Hj : j < 3.

  Let mv := moved cross P.
  Let st := stay cross P.

  Lemma leaves_n2 : Permutation (leaves (pic_n2 j P)) (leaves (snd mv) ++ leaves (snd st)).
  Proof.
    unfold pic_n2. rewrite leaves_pl by (simpl; discriminate). simpl.
    rewrite !kleaves_one. subst mv st. unfold moved, stay. destruct cross; simpl; perm.
  Qed.

  Lemma bsplits_n2 : Permutation (bsplits (pic_n2 j P)) (kbs [mv] ++ kbs [st]).
  Proof.
    unfold pic_n2. rewrite bsplits_pl. simpl.
    subst mv st. unfold moved, stay. destruct cross; simpl; perm.
  Qed.

  (** the lower node after the exchange holds [v] instead of the moved child *)
  Lemma put_cross_ko (v : slot) :
    let ys := put cross v (Some (p_y1 P), Some (p_y2 P)) in
    Permutation (ko (fst ys) ++ ko (snd ys)) (ko v ++ [st]).
  Proof. subst st. unfold stay, put. destruct cross; simpl; [reflexivity|]. destruct v; simpl; perm. Qed.

  Lemma n2'_kids (v : slot) :
    Permutation (kids_of (pl j None (put cross v (Some (p_y1 P), Some (p_y2 P))))) (ko v ++ [st]).
  Proof.
    pose proof (put_cross_ko v) as H. cbv zeta in H.
    destruct (put cross v (Some (p_y1 P), Some (p_y2 P))) as [u1 u2] eqn:E. simpl in H.
    rewrite kids_pl. simpl. exact H.
  Qed.

  (** ** plain case: n1_2 = [mv1] is a child of n1 *)
  Section Plain.
    Variable mv1 : einfo * utree.
    Hypothesis Hx : snd (p_xs P) = Some mv1.

    Let s := pic_n1 k j P.
    Let s' := pic_plain k j cross P mv1.
    Let n2' := UNode (p_ny P) (p_cy P) (pl j None (put cross (Some mv1) (Some (p_y1 P), Some (p_y2 P)))).

    Lemma xs_plain : p_xs P = (fst (p_xs P), Some mv1).
    Proof. destruct (p_xs P); simpl in *; congruence. Qed.

    Lemma leaves_n2'_plain : Permutation (leaves n2') (leaves (snd mv1) ++ leaves (snd st)).
    Proof.
      subst n2'. rewrite leaves_unfold. pose proof (n2'_kids (Some mv1)) as H. simpl in H.
      destruct (kids_of _) as [|q K] eqn:E.
      - apply Permutation_nil in H. discriminate.
      - rewrite (kleaves_perm _ _ H). unfold kleaves. simpl. now rewrite app_nil_r.
    Qed.

    Lemma bsplits_n2'_plain : Permutation (bsplits n2') (kbs [mv1] ++ kbs [st]).
    Proof.
      subst n2'. rewrite bsplits_unfold. pose proof (n2'_kids (Some mv1)) as H. simpl in H.
      rewrite (kbs_perm _ _ H). change (mv1 :: [st]) with ([mv1] ++ [st]). now rewrite kbs_app.
    Qed.

    Lemma isleaf_n2'_plain : isleaf n2' = false.
    Proof.
      subst n2'. apply isleaf_false. intros E. pose proof (n2'_kids (Some mv1)) as H. rewrite E in H.
      apply Permutation_nil in H. discriminate.
    Qed.

    Lemma wf_sub_n2'_plain :
      wf_sub (pic_n2 j P) = true -> wf_sub (snd mv1) = true -> wf_sub n2' = true.
    Proof.
      subst n2'. unfold pic_n2. rewrite !wf_sub_pl. simpl. unfold put.
      destruct cross, mv1 as [e1 a], (p_y1 P) as [? ?], (p_y2 P) as [? ?]; simpl;
        rewrite ?andb_true_r; intros H1 H2; apply andb_true_iff in H1; destruct H1; now apply andb_true_iff.
    Qed.

    Lemma plain_eq :
      s' = UNode (p_nx P) (p_cx P) (pl k (Some (p_ec P, n2')) (fst (p_xs P), Some mv)).
    Proof.
      subst s' n2' mv. unfold pic_plain. rewrite xs_plain at 1. reflexivity.
    Qed.
    Lemma s_eq :
      s = UNode (p_nx P) (p_cx P) (pl k (Some (p_ec P, pic_n2 j P)) (fst (p_xs P), Some mv1)).
    Proof. subst s. unfold pic_n1. rewrite xs_plain at 1. reflexivity. Qed.

    Lemma plain_leaves : Permutation (leaves s) (leaves s').
    Proof.
      rewrite plain_eq, s_eq. rewrite !leaves_pl by (simpl; discriminate). simpl.
      rewrite !kleaves_one. simpl. rewrite leaves_n2, leaves_n2'_plain. fold mv st. perm.
    Qed.

    Lemma plain_wf_sub : wf_sub s = true -> wf_sub s' = true.
    Proof.
      rewrite plain_eq, s_eq, !wf_sub_pl. simpl. intros H.
      apply andb_true_iff in H. destruct H as [H0 H]. rewrite H0. simpl.
      destruct mv1 as [e1 a] eqn:E1. rewrite <- E1 in *.
      apply andb_true_iff in H. destruct H as [H H3]. apply andb_true_iff in H. destruct H as [H1 H2].
      assert (W2 := H1). unfold pic_n2 in W2. rewrite wf_sub_pl in W2. simpl in W2.
      rewrite wf_sub_n2'_plain; auto; [|now rewrite E1].
      rewrite H2. simpl. subst mv. unfold moved.
      destruct cross, (p_y1 P) as [? ?], (p_y2 P) as [? ?]; simpl in *;
        rewrite ?andb_true_r in W2; apply andb_true_iff in W2; tauto.
    Qed.

    Lemma plain_wf : wf s = true -> wf s' = true.
    Proof.
      rewrite plain_eq, s_eq, !wf_pl. simpl. intros H.
      apply andb_true_iff in H. destruct H as [H0 H]. rewrite H0. simpl.
      destruct mv1 as [e1 a] eqn:E1. rewrite <- E1 in *.
      apply andb_true_iff in H. destruct H as [H H3]. apply andb_true_iff in H. destruct H as [H1 H2].
      assert (W2 := H1). unfold pic_n2 in W2. rewrite wf_sub_pl in W2. simpl in W2.
      rewrite wf_sub_n2'_plain; auto; [|now rewrite E1].
      rewrite H2. simpl. subst mv. unfold moved.
      destruct cross, (p_y1 P) as [? ?], (p_y2 P) as [? ?]; simpl in *;
        rewrite ?andb_true_r in W2; apply andb_true_iff in W2; tauto.
    Qed.

    (** the branches: the central one now separates n1_2 + the staying child from the rest *)
    Definition rest_plain : list (einfo * list string * bool) :=
      kbs [mv] ++ kbs [st] ++ kbs (ko (fst (p_xs P))) ++ kbs [mv1].

    Lemma plain_bsplits_before :
      Permutation (bsplits s) ((p_ec P, leaves (pic_n2 j P), false) :: rest_plain).
    Proof.
      rewrite s_eq, bsplits_pl. simpl ko. rewrite kbs_one at 1. cbn [fst snd].
      unfold pic_n2 at 2. rewrite isleaf_pl. fold (pic_n2 j P).
      rewrite bsplits_n2. unfold rest_plain. fold mv st. perm.
    Qed.

    Lemma plain_bsplits_after :
      Permutation (bsplits s') ((p_ec P, leaves n2', false) :: rest_plain).
    Proof.
      rewrite plain_eq, bsplits_pl. simpl ko. rewrite kbs_one at 1. cbn [fst snd].
      rewrite isleaf_n2'_plain, bsplits_n2'_plain. unfold rest_plain. perm.
    Qed.
  End Plain.

  (** ** flip case: n1_2 is the parent of n1, the result is rooted at n2 *)
  Section Flip.
    Hypothesis Hx : snd (p_xs P) = None.

    Let s := pic_n1 k j P.
    Let s' := pic_flip k j cross P.
    Let n1' := UNode (p_nx P) (p_cx P) (pl k None (fst (p_xs P), Some mv)).

    Lemma xs_flip : p_xs P = (fst (p_xs P), None).
    Proof. destruct (p_xs P); simpl in *; congruence. Qed.

    Lemma s_eq_flip :
      s = UNode (p_nx P) (p_cx P) (pl k (Some (p_ec P, pic_n2 j P)) (fst (p_xs P), None)).
    Proof. subst s. unfold pic_n1. rewrite xs_flip at 1. reflexivity. Qed.

    Lemma flip_eq :
      s' = UNode (p_ny P) (p_cy P)
                 (pl j (Some (p_ec P, n1')) (put cross None (Some (p_y1 P), Some (p_y2 P)))).
    Proof. subst s' n1' mv. unfold pic_flip. rewrite xs_flip at 1. reflexivity. Qed.

    Lemma put_none_kids :
      let ys := put cross None (Some (p_y1 P), Some (p_y2 P)) in
      ys = (fst ys, snd ys) /\ Permutation (ko (fst ys) ++ ko (snd ys)) [st] /\
      upk (fst ys) + upk (snd ys) = 1 /\ wfk (fst ys) && wfk (snd ys) = wf_sub (snd st).
    Proof.
      subst st. unfold stay, put. destruct cross, (p_y1 P) as [? ?], (p_y2 P) as [? ?]; simpl;
        rewrite ?andb_true_r; repeat split; auto.
    Qed.

    Lemma leaves_n1' :
      Permutation (leaves n1') (corner [] (fst (p_xs P)) ++ leaves (snd mv)).
    Proof.
      subst n1'. rewrite leaves_pl by (simpl; destruct (ko (fst (p_xs P))); discriminate). simpl.
      rewrite kleaves_one. destruct (fst (p_xs P)) as [[e c]|]; simpl; [rewrite kleaves_one|]; simpl; perm.
    Qed.

    Lemma flip_leaves : Permutation (leaves s) (leaves s').
    Proof.
      rewrite flip_eq, s_eq_flip. destruct put_none_kids as (E & HK & _). cbv zeta in E, HK. rewrite E.
      rewrite !leaves_pl by (simpl; discriminate). simpl ko. rewrite !kleaves_one. cbn [fst snd].
      rewrite leaves_n2, leaves_n1'. fold mv st.
      rewrite <- !kleaves_app, (kleaves_perm _ _ HK), kleaves_one.
      destruct (fst (p_xs P)) as [[e c]|]; simpl; [rewrite kleaves_one|]; simpl; perm.
    Qed.

    Lemma flip_wf_sub : wf_sub s = true -> wf_sub s' = true.
    Proof.
      rewrite flip_eq, s_eq_flip. destruct put_none_kids as (E & _ & HU & HW). cbv zeta in E, HU, HW. rewrite E.
      rewrite !wf_sub_pl. rewrite HU. simpl. rewrite <- andb_assoc, HW.
      subst n1'. rewrite wf_sub_pl. simpl.
      intros H. apply andb_true_iff in H. destruct H as [H0 H].
      rewrite andb_true_r in H. apply andb_true_iff in H. destruct H as [H1 H2].
      unfold pic_n2 in H1. rewrite wf_sub_pl in H1. simpl in H1.
      assert (U1 : upk (fst (p_xs P)) = 0) by (destruct (fst (p_xs P)); simpl in *; [reflexivity|discriminate]).
      rewrite U1, H2. simpl. subst mv st. unfold moved, stay.
      destruct cross, (p_y1 P) as [? ?], (p_y2 P) as [? ?]; simpl in *;
        rewrite ?andb_true_r in H1; apply andb_true_iff in H1; destruct H1 as [-> ->]; reflexivity.
    Qed.

    Definition rest_flip : list (einfo * list string * bool) :=
      kbs [mv] ++ kbs [st] ++ kbs (ko (fst (p_xs P))).

    Lemma flip_bsplits_before :
      Permutation (bsplits s) ((p_ec P, leaves (pic_n2 j P), false) :: rest_flip).
    Proof.
      rewrite s_eq_flip, bsplits_pl. simpl ko. rewrite kbs_one at 1. cbn [fst snd].
      unfold pic_n2 at 2. rewrite isleaf_pl. fold (pic_n2 j P).
      rewrite bsplits_n2. unfold rest_flip. fold mv st. simpl. perm.
    Qed.

    Lemma isleaf_n1' : isleaf n1' = false.
    Proof.
      subst n1'. apply isleaf_false. intros E. pose proof (kids_pl k None (fst (p_xs P)) (Some mv)) as HP.
      rewrite E in HP. apply Permutation_nil in HP. simpl in HP. destruct (ko (fst (p_xs P))); discriminate.
    Qed.

    Lemma flip_bsplits_after :
      Permutation (bsplits s') ((p_ec P, leaves n1', false) :: rest_flip).
    Proof.
      rewrite flip_eq. destruct put_none_kids as (E & HK & _). cbv zeta in E, HK. rewrite E.
      rewrite bsplits_pl. simpl ko. rewrite kbs_one at 1. cbn [fst snd].
      rewrite isleaf_n1'. rewrite <- kbs_app, (kbs_perm _ _ HK).
      subst n1'. rewrite bsplits_pl. simpl ko. unfold rest_flip. simpl. perm.
    Qed.
  End Flip.
End Local.
