(** C17, what Apply does to the observables: well-formedness, the tips, the branches.
    Local facts on the picture around the central branch (Proofs/NNIBase.v), then lifted
    through the path from the root. *)
From Coq Require Import String ZArith QArith Bool Arith Lia List Permutation Setoid Morphisms.
From GT Require Import Base.UTree Spec.Obs Spec.Unrooted Model.Reroot Model.NNI
     Proofs.RerootBase Proofs.Reorder Proofs.Splits Proofs.NNIBase.
Import ListNotations.
Local Close Scope Q_scope.
Local Arguments n_up : simpl never.
Local Arguments leaves : simpl never.
Local Arguments bsplits : simpl never.
Local Arguments kleaves : simpl never.
Local Arguments kbs : simpl never.

(** * a node only matters through the multiset of its slots *)
Lemma forallb_perm {A} (f : A -> bool) l l' : Permutation l l' -> forallb f l = forallb f l'.
Proof.
  induction 1; simpl; auto.
  - now rewrite IHPermutation.
  - now rewrite !andb_assoc, (andb_comm (f y)).
  - congruence.
Qed.

Definition ko (s : slot) : list (einfo * utree) := match s with Some p => [p] | None => [] end.
Definition wfk (s : slot) : bool := match s with Some (_, c) => wf_sub c | None => true end.
Definition upk (s : slot) : nat := match s with Some _ => 0 | None => 1 end.

Lemma kids_pl k (x : slot) a b : Permutation (kids_of (pl k x (a, b))) (ko x ++ ko a ++ ko b).
Proof.
  rewrite (Permutation_kids_of _ _ (pl_perm k x (a, b))). simpl.
  destruct x, a, b; reflexivity.
Qed.

Lemma n_up_pl3 k (x : slot) a b : n_up (pl k x (a, b)) = upk x + upk a + upk b.
Proof. rewrite n_up_pl. destruct x, a, b; reflexivity. Qed.

Lemma wfk_pl k (x : slot) a b :
  forallb (fun p => wf_sub (snd p)) (kids_of (pl k x (a, b))) = wfk x && wfk a && wfk b.
Proof.
  rewrite (forallb_perm _ _ _ (kids_pl k x a b)).
  destruct x as [[? ?]|], a as [[? ?]|], b as [[? ?]|]; simpl; rewrite ?andb_true_r; auto using andb_assoc.
Qed.

Lemma wf_sub_pl n c k x a b :
  wf_sub (UNode n c (pl k x (a, b))) = Nat.eqb (upk x + upk a + upk b) 1 && (wfk x && wfk a && wfk b).
Proof. now rewrite wf_sub_unfold, n_up_pl3, wfk_pl. Qed.
Lemma wf_pl n c k x a b :
  wf (UNode n c (pl k x (a, b))) = Nat.eqb (upk x + upk a + upk b) 0 && (wfk x && wfk a && wfk b).
Proof. now rewrite wf_unfold, n_up_pl3, wfk_pl. Qed.

Lemma kleaves_perm K K' : Permutation K K' -> Permutation (kleaves K) (kleaves K').
Proof. apply Permutation_flat_map. Qed.
Lemma kbs_perm K K' : Permutation K K' -> Permutation (kbs K) (kbs K').
Proof. apply Permutation_flat_map. Qed.

Lemma leaves_pl n c k x a b :
  ko x ++ ko a ++ ko b <> [] ->
  Permutation (leaves (UNode n c (pl k x (a, b)))) (kleaves (ko x) ++ kleaves (ko a) ++ kleaves (ko b)).
Proof.
  intros NE. rewrite leaves_unfold. pose proof (kids_pl k x a b) as HP.
  destruct (kids_of (pl k x (a, b))) as [|q K] eqn:E.
  - apply Permutation_nil in HP. contradiction.
  - rewrite (kleaves_perm _ _ HP). now rewrite !kleaves_app.
Qed.

Lemma bsplits_pl n c k x a b :
  Permutation (bsplits (UNode n c (pl k x (a, b)))) (kbs (ko x) ++ kbs (ko a) ++ kbs (ko b)).
Proof. rewrite bsplits_unfold, (kbs_perm _ _ (kids_pl k x a b)). now rewrite !kbs_app. Qed.

Lemma isleaf_pl n c k q a b : isleaf (UNode n c (pl k (Some q) (a, b))) = false.
Proof.
  apply isleaf_false. intros E. pose proof (kids_pl k (Some q) a b) as HP. rewrite E in HP.
  apply Permutation_nil in HP. discriminate.
Qed.

Lemma kleaves_one p : kleaves [p] = leaves (snd p).
Proof. unfold kleaves. simpl. apply app_nil_r. Qed.
Lemma kbs_one p : kbs [p] = (fst p, leaves (snd p), isleaf (snd p)) :: bsplits (snd p).
Proof. unfold kbs. simpl. now rewrite app_nil_r. Qed.
Lemma wfk_some p : wfk (Some p) = wf_sub (snd p).
Proof. now destruct p. Qed.
Lemma kleaves_nil : kleaves [] = [].
Proof. reflexivity. Qed.
Lemma kbs_nil : kbs [] = [].
Proof. reflexivity. Qed.

(** * the picture: corners *)
Definition stay (cross : bool) (P : picture) : einfo * utree := if cross then p_y2 P else p_y1 P.

(** leaves behind a neighbour of n1: a child's own leaves, for the parent the leaves [O]
    outside the picture *)
Definition corner (O : list string) (s : slot) : list string :=
  match s with Some (_, c) => leaves c | None => O end.

Section Local.
  Variables (k j : nat) (cross : bool) (P : picture).
  Hypothesis Hk : k < 3.
  Hypothesis Hj : j < 3.

  Let mv := moved cross P.
  Let st := stay cross P.

  Lemma leaves_n2 : Permutation (leaves (pic_n2 j P)) (leaves (snd mv) ++ leaves (snd st)).
  Proof.
    unfold pic_n2. rewrite leaves_pl by (simpl; discriminate). cbn [ko].
    rewrite kleaves_nil, !kleaves_one. subst mv st. unfold moved, stay. destruct cross; cbn [app]; perm.
  Qed.

  Lemma bsplits_n2 : Permutation (bsplits (pic_n2 j P)) (kbs [mv] ++ kbs [st]).
  Proof.
    unfold pic_n2. rewrite bsplits_pl. cbn [ko]. rewrite kbs_nil.
    subst mv st. unfold moved, stay. destruct cross; cbn [app]; perm.
  Qed.

  Lemma isleaf_n2 : isleaf (pic_n2 j P) = false.
  Proof.
    unfold pic_n2. apply isleaf_false. intros E.
    pose proof (kids_pl j None (Some (p_y1 P)) (Some (p_y2 P))) as HP. rewrite E in HP.
    apply Permutation_nil in HP. discriminate.
  Qed.

  Lemma n2_kids_wf : wf_sub (pic_n2 j P) = true -> wf_sub (snd mv) = true /\ wf_sub (snd st) = true.
  Proof.
    unfold pic_n2. rewrite wf_sub_pl. rewrite !wfk_some. change (wfk Up) with true. cbn [upk Nat.add Nat.eqb andb].
    intros H. apply andb_true_iff in H. subst mv st. unfold moved, stay. destruct cross; tauto.
  Qed.

  (** the lower node after the exchange holds [v] instead of the moved child *)
  Lemma put_cross_ko (v : slot) :
    let ys := put cross v (Some (p_y1 P), Some (p_y2 P)) in
    Permutation (ko (fst ys) ++ ko (snd ys)) (ko v ++ [st]).
  Proof. subst st. unfold stay, put. destruct cross; simpl; [reflexivity|]. destruct v; simpl; perm. Qed.

  Lemma n2'_kids (v : slot) :
    Permutation (kids_of (pl j None (put cross v (Some (p_y1 P), Some (p_y2 P))))) (ko v ++ [st]).
  Proof.
    pose proof (put_cross_ko v) as H. cbv zeta in H.
    destruct (put cross v (Some (p_y1 P), Some (p_y2 P))) as [u1 u2] eqn:E. simpl in H.
    rewrite kids_pl. simpl. exact H.
  Qed.

  (** ** plain case: n1_2 = [mv1] is a child of n1 *)
  Section Plain.
    Variable mv1 : einfo * utree.
    Hypothesis Hx : snd (p_xs P) = Some mv1.

    Let s := pic_n1 k j P.
    Let s' := pic_plain k j cross P mv1.
    Let n2' := UNode (p_ny P) (p_cy P) (pl j None (put cross (Some mv1) (Some (p_y1 P), Some (p_y2 P)))).

    Lemma xs_plain : p_xs P = (fst (p_xs P), Some mv1).
    Proof. revert Hx. destruct (p_xs P); simpl; congruence. Qed.

    Lemma leaves_n2'_plain : Permutation (leaves n2') (leaves (snd mv1) ++ leaves (snd st)).
    Proof.
      subst n2'. rewrite leaves_unfold. pose proof (n2'_kids (Some mv1)) as H. simpl in H.
      destruct (kids_of _) as [|q K] eqn:E.
      - apply Permutation_nil in H. discriminate.
      - rewrite (kleaves_perm _ _ H). unfold kleaves. simpl. now rewrite app_nil_r.
    Qed.

    Lemma bsplits_n2'_plain : Permutation (bsplits n2') (kbs [mv1] ++ kbs [st]).
    Proof.
      subst n2'. rewrite bsplits_unfold. pose proof (n2'_kids (Some mv1)) as H. simpl in H.
      rewrite (kbs_perm _ _ H). change (mv1 :: [st]) with ([mv1] ++ [st]). now rewrite kbs_app.
    Qed.

    Lemma isleaf_n2'_plain : isleaf n2' = false.
    Proof.
      subst n2'. apply isleaf_false. intros E. pose proof (n2'_kids (Some mv1)) as H. rewrite E in H.
      apply Permutation_nil in H. discriminate.
    Qed.

    Lemma wf_sub_n2'_plain :
      wf_sub (pic_n2 j P) = true -> wf_sub (snd mv1) = true -> wf_sub n2' = true.
    Proof.
      subst n2'. unfold pic_n2, put. destruct cross; cbn [fst snd]; rewrite !wf_sub_pl.
      all: destruct mv1 as [e1 a], (p_y1 P) as [? u1], (p_y2 P) as [? u2]; simpl; intros H1 H2;
        apply andb_true_iff in H1; destruct H1 as [H1a H1b]; simpl in H2; rewrite ?H1a, ?H1b, ?H2; reflexivity.
    Qed.

    Lemma plain_eq :
      s' = UNode (p_nx P) (p_cx P) (pl k (Some (p_ec P, n2')) (fst (p_xs P), Some mv)).
    Proof.
      unfold s', n2', mv, pic_plain. rewrite xs_plain at 1. reflexivity.
    Qed.
    Lemma s_eq :
      s = UNode (p_nx P) (p_cx P) (pl k (Some (p_ec P, pic_n2 j P)) (fst (p_xs P), Some mv1)).
    Proof. unfold s, pic_n1. rewrite xs_plain at 1. reflexivity. Qed.

    Lemma plain_leaves : Permutation (leaves s) (leaves s').
    Proof.
      rewrite plain_eq, s_eq. rewrite !leaves_pl by (simpl; discriminate). simpl.
      rewrite !kleaves_one. simpl. rewrite leaves_n2, leaves_n2'_plain. fold mv st. perm.
    Qed.

    Lemma plain_wf_gen (u : nat) :
      Nat.eqb (upk (Some (p_ec P, pic_n2 j P)) + upk (fst (p_xs P)) + upk (Some mv1)) u &&
      (wfk (Some (p_ec P, pic_n2 j P)) && wfk (fst (p_xs P)) && wfk (Some mv1)) = true ->
      Nat.eqb (upk (Some (p_ec P, n2')) + upk (fst (p_xs P)) + upk (Some mv)) u &&
      (wfk (Some (p_ec P, n2')) && wfk (fst (p_xs P)) && wfk (Some mv)) = true.
    Proof.
      cbn [upk]. intros H. apply andb_true_iff in H. destruct H as [H0 H]. rewrite H0.
      apply andb_true_iff in H. destruct H as [H H3]. apply andb_true_iff in H. destruct H as [H1 H2].
      rewrite H2. rewrite wfk_some in H1, H3. cbn [snd] in H1.
      destruct (n2_kids_wf H1) as [Wm Ws].
      rewrite !wfk_some. cbn [snd]. rewrite (wf_sub_n2'_plain H1 H3). fold mv in Wm. now rewrite Wm.
    Qed.

    Lemma plain_wf_sub : wf_sub s = true -> wf_sub s' = true.
    Proof. rewrite plain_eq, s_eq, !wf_sub_pl. apply plain_wf_gen. Qed.

    Lemma plain_wf : wf s = true -> wf s' = true.
    Proof. rewrite plain_eq, s_eq, !wf_pl. apply plain_wf_gen. Qed.

    (** the branches: the central one now separates n1_2 + the staying child from the rest *)
    Definition rest_plain : list (einfo * list string * bool) :=
      kbs [mv] ++ kbs [st] ++ kbs (ko (fst (p_xs P))) ++ kbs [mv1].

    Lemma plain_bsplits_before :
      Permutation (bsplits s) ((p_ec P, leaves (pic_n2 j P), false) :: rest_plain).
    Proof.
      rewrite s_eq, bsplits_pl. cbn [ko]. rewrite kbs_one at 1. cbn [fst snd].
      rewrite isleaf_n2, bsplits_n2. unfold rest_plain. fold mv st. perm.
    Qed.

    Lemma plain_bsplits_after :
      Permutation (bsplits s') ((p_ec P, leaves n2', false) :: rest_plain).
    Proof.
      rewrite plain_eq, bsplits_pl. cbn [ko]. rewrite kbs_one at 1. cbn [fst snd].
      rewrite isleaf_n2'_plain, bsplits_n2'_plain. unfold rest_plain. fold mv st. perm.
    Qed.
  End Plain.

  (** ** flip case: n1_2 is the parent of n1, the result is rooted at n2 *)
  Section Flip.
    Hypothesis Hx : snd (p_xs P) = None.

    Let s := pic_n1 k j P.
    Let s' := pic_flip k j cross P.
    Let n1' := UNode (p_nx P) (p_cx P) (pl k None (fst (p_xs P), Some mv)).

    Lemma xs_flip : p_xs P = (fst (p_xs P), None).
    Proof. revert Hx. destruct (p_xs P); simpl; congruence. Qed.

    Lemma s_eq_flip :
      s = UNode (p_nx P) (p_cx P) (pl k (Some (p_ec P, pic_n2 j P)) (fst (p_xs P), None)).
    Proof. unfold s, pic_n1. rewrite xs_flip at 1. reflexivity. Qed.

    Lemma flip_eq :
      s' = UNode (p_ny P) (p_cy P)
                 (pl j (Some (p_ec P, n1')) (put cross None (Some (p_y1 P), Some (p_y2 P)))).
    Proof. unfold s', n1', mv, pic_flip. rewrite xs_flip at 1. reflexivity. Qed.

    Lemma put_none_kids :
      let ys := put cross None (Some (p_y1 P), Some (p_y2 P)) in
      ys = (fst ys, snd ys) /\ Permutation (ko (fst ys) ++ ko (snd ys)) [st] /\
      upk (fst ys) + upk (snd ys) = 1 /\ wfk (fst ys) && wfk (snd ys) = wf_sub (snd st).
    Proof.
      subst st. unfold stay, put. destruct cross, (p_y1 P) as [? ?], (p_y2 P) as [? ?]; simpl;
        rewrite ?andb_true_r; repeat split; auto.
    Qed.

    Lemma leaves_n1' :
      Permutation (leaves n1') (corner [] (fst (p_xs P)) ++ leaves (snd mv)).
    Proof.
      subst n1'. rewrite leaves_pl by (simpl; destruct (ko (fst (p_xs P))); discriminate). simpl.
      rewrite kleaves_one. destruct (fst (p_xs P)) as [[e c]|]; simpl; [rewrite kleaves_one|]; simpl; perm.
    Qed.

    Lemma flip_leaves : Permutation (leaves s) (leaves s').
    Proof.
      rewrite flip_eq, s_eq_flip. destruct put_none_kids as (E & HK & _). cbv zeta in E, HK. rewrite E.
      rewrite !leaves_pl by (simpl; discriminate). simpl ko. rewrite !kleaves_one. cbn [fst snd].
      rewrite leaves_n2, leaves_n1'. fold mv st.
      rewrite <- !kleaves_app, (kleaves_perm _ _ HK), kleaves_one.
      destruct (fst (p_xs P)) as [[e c]|]; cbn [ko corner app]; rewrite ?kleaves_one, ?kleaves_nil; cbn [snd]; perm.
    Qed.

    Lemma flip_wf_sub : wf_sub s = true -> wf_sub s' = true.
    Proof.
      rewrite flip_eq, s_eq_flip. unfold n1', mv, pic_n2, moved, put.
      destruct cross; cbn [fst snd]; repeat (rewrite ?wf_sub_pl, ?wfk_some; cbn [snd]);
        change (wfk Up) with true; cbn [upk];
        destruct (fst (p_xs P)) as [[e4 c]|]; cbn [upk wfk Nat.add Nat.eqb andb];
        destruct (wf_sub (snd (p_y1 P))), (wf_sub (snd (p_y2 P))); try destruct (wf_sub c); simpl; auto.
    Qed.

    Definition rest_flip : list (einfo * list string * bool) :=
      kbs [mv] ++ kbs [st] ++ kbs (ko (fst (p_xs P))).

    Lemma flip_bsplits_before :
      Permutation (bsplits s) ((p_ec P, leaves (pic_n2 j P), false) :: rest_flip).
    Proof.
      rewrite s_eq_flip, bsplits_pl. cbn [ko]. rewrite kbs_one at 1. cbn [fst snd].
      rewrite isleaf_n2, bsplits_n2, kbs_nil. unfold rest_flip. fold mv st. perm.
    Qed.

    Lemma isleaf_n1' : isleaf n1' = false.
    Proof.
      subst n1'. apply isleaf_false. intros E. pose proof (kids_pl k None (fst (p_xs P)) (Some mv)) as HP.
      rewrite E in HP. apply Permutation_nil in HP. simpl in HP. destruct (ko (fst (p_xs P))); discriminate.
    Qed.

    Lemma flip_bsplits_after :
      Permutation (bsplits s') ((p_ec P, leaves n1', false) :: rest_flip).
    Proof.
      rewrite flip_eq. destruct put_none_kids as (E & HK & _). cbv zeta in E, HK. rewrite E.
      rewrite bsplits_pl. cbn [ko]. rewrite kbs_one at 1. cbn [fst snd].
      rewrite isleaf_n1'. rewrite <- kbs_app, (kbs_perm _ _ HK).
      unfold n1' at 2. rewrite bsplits_pl. cbn [ko]. rewrite kbs_nil. unfold rest_flip. perm.
    Qed.
  End Flip.
End Local.

(** * lifting through the path from the root *)
Lemma kids_of_nth sl k x :
  nth_error sl k = Some (Some x) ->
  kids_of sl = kids_of (firstn k sl) ++ x :: kids_of (skipn (S k) sl).
Proof.
  revert k; induction sl as [|s r IH]; intros [|k]; simpl; intros H; try discriminate.
  - now inversion H.
  - rewrite (IH _ H). now destruct s.
Qed.

Lemma kids_of_set_nth_some sl k x y :
  nth_error sl k = Some (Some x) ->
  kids_of (set_nth k (Some y) sl) = kids_of (firstn k sl) ++ y :: kids_of (skipn (S k) sl).
Proof.
  unfold set_nth. revert k; induction sl as [|s r IH]; intros [|k]; simpl; intros H; try discriminate.
  - reflexivity.
  - rewrite (IH _ H). now destruct s.
Qed.

Lemma n_up_set_nth_some sl k x y :
  nth_error sl k = Some (Some x) -> n_up (set_nth k (Some y) sl) = n_up sl.
Proof.
  intros H. pose proof (length_set_nth k (Some y) sl) as L. rewrite !length_slots in L.
  rewrite (kids_of_set_nth_some _ _ _ y H), (kids_of_nth _ _ _ H) in L.
  rewrite !app_length in L. simpl in L. lia.
Qed.

Lemma leaves_kids_app n c sl A x B :
  kids_of sl = A ++ x :: B -> leaves (UNode n c sl) = kleaves A ++ leaves (snd x) ++ kleaves B.
Proof.
  intros H. rewrite leaves_unfold, H.
  change (x :: B) with ([x] ++ B). rewrite !kleaves_app, kleaves_one.
  destruct A; reflexivity.
Qed.

Definition central := (einfo * list string * bool)%type.

(** [s'] has the tips of [s], both are inner nodes, and their branches are the same
    (same side) but for [c0] replaced by [c1] *)
Definition lrel (c0 c1 : central) (s s' : utree) : Prop :=
  Permutation (leaves s) (leaves s') /\ isleaf s = false /\ isleaf s' = false /\
  (wf_sub s = true -> wf_sub s' = true) /\
  exists rest rest', Permutation (bsplits s) (c0 :: rest) /\ Permutation (bsplits s') (c1 :: rest') /\
                     PermR bs_same rest rest'.

Lemma lrel_step c0 c1 s s' n c sl k e :
  lrel c0 c1 s s' -> nth_error sl k = Some (Some (e, s)) ->
  lrel c0 c1 (UNode n c sl) (UNode n c (set_nth k (Some (e, s')) sl)).
Proof.
  intros (HL & I0 & I1 & HW & rest & rest' & B0 & B1 & HR) E.
  pose proof (kids_of_nth _ _ _ E) as K0.
  pose proof (kids_of_set_nth_some _ _ _ (e, s') E) as K1.
  set (A := kids_of (firstn k sl)) in *. set (B := kids_of (skipn (S k) sl)) in *.
  repeat split.
  - rewrite (leaves_kids_app _ _ _ _ _ _ K0), (leaves_kids_app _ _ _ _ _ _ K1). cbn [snd]. now rewrite HL.
  - apply isleaf_false. rewrite K0. now destruct A.
  - apply isleaf_false. rewrite K1. now destruct A.
  - rewrite !wf_sub_unfold, (n_up_set_nth_some _ _ _ _ E), K0, K1, !forallb_app. cbn [forallb snd].
    intros H. apply andb_true_iff in H. destruct H as [H0 H]. rewrite H0.
    apply andb_true_iff in H. destruct H as [HA H]. apply andb_true_iff in H. destruct H as [Hs HB].
    now rewrite HA, HB, (HW Hs).
  - exists (kbs A ++ (e, leaves s, isleaf s) :: rest ++ kbs B),
           (kbs A ++ (e, leaves s', isleaf s') :: rest' ++ kbs B).
    repeat split.
    + rewrite bsplits_unfold, K0.
      change ((e, s) :: B) with ([(e, s)] ++ B). rewrite !kbs_app, kbs_one. cbn [fst snd].
      rewrite B0. perm.
    + rewrite bsplits_unfold, K1.
      change ((e, s') :: B) with ([(e, s')] ++ B). rewrite !kbs_app, kbs_one. cbn [fst snd].
      rewrite B1. perm.
    + apply PermR_app; [apply bs_same_Equivalence|reflexivity|].
      apply PR_skip.
      * repeat split; cbn [fst snd]; auto. congruence.
      * apply PermR_app; [apply bs_same_Equivalence|exact HR|reflexivity].
Qed.

Lemma lrel_path c0 c1 f p : forall t t' s s',
  node_at t p = Some s -> f s = Some s' -> at_path f p t = Some t' ->
  lrel c0 c1 s s' -> lrel c0 c1 t t'.
Proof.
  induction p as [|k q IH]; intros t t' s s' Hn Hf Ha HL; simpl in *.
  - inversion Hn; subst. rewrite Hf in Ha. now inversion Ha; subst.
  - destruct t as [n c sl]. simpl in Hn.
    destruct (nth_error sl k) as [[[e ch]|]|] eqn:E; try discriminate.
    destruct (at_path f q ch) as [ch'|] eqn:E'; [|discriminate]. inversion Ha; subst.
    apply (lrel_step c0 c1 ch ch'); auto. eapply (IH ch ch' s s'); eauto.
Qed.

(** well-formedness at the root *)
Lemma wf_step s s' n c sl k e :
  (wf_sub s = true -> wf_sub s' = true) -> nth_error sl k = Some (Some (e, s)) ->
  wf (UNode n c sl) = true -> wf (UNode n c (set_nth k (Some (e, s')) sl)) = true.
Proof.
  intros HW E.
  rewrite !wf_unfold, (n_up_set_nth_some _ _ _ _ E), (kids_of_nth _ _ _ E),
    (kids_of_set_nth_some _ _ _ (e, s') E), !forallb_app. cbn [forallb snd].
  intros H. apply andb_true_iff in H. destruct H as [H0 H]. rewrite H0.
  apply andb_true_iff in H. destruct H as [HA H]. apply andb_true_iff in H. destruct H as [Hs HB].
  now rewrite HA, HB, (HW Hs).
Qed.

(** * the leaves outside a subtree *)
Fixpoint outside (t : utree) (p : list nat) : list string :=
  match p with
  | [] => []
  | k :: q =>
    match t with
    | UNode _ _ sl =>
      kleaves (kids_of (firstn k sl)) ++ kleaves (kids_of (skipn (S k) sl)) ++
      match nth_error sl k with Some (Some (_, ch)) => outside ch q | _ => [] end
    end
  end.

Lemma leaves_outside p : forall t s,
  node_at t p = Some s -> Permutation (leaves t) (outside t p ++ leaves s).
Proof.
  induction p as [|k q IH]; intros t s H; simpl in H.
  - inversion H; subst. reflexivity.
  - destruct t as [n c sl]. simpl in H. cbn [outside].
    destruct (nth_error sl k) as [[[e ch]|]|] eqn:E; try discriminate.
    rewrite (leaves_kids_app _ _ _ _ _ _ (kids_of_nth _ _ _ E)). cbn [snd].
    rewrite (IH _ _ H). perm.
Qed.

Lemma leaves_nonempty t : leaves t <> [].
Proof.
  induction t as [n c sl IH] using utree_ind'. rewrite leaves_unfold.
  destruct (kids_of sl) as [|[e ch] K] eqn:E; [discriminate|].
  assert (In (Some (e, ch)) sl) by (apply kids_of_In; rewrite E; now left).
  rewrite Forall_forall in IH. specialize (IH _ H). cbn in IH.
  change ((e, ch) :: K) with ([(e, ch)] ++ K). rewrite kleaves_app, kleaves_one. cbn [snd].
  destruct (leaves ch); [contradiction|discriminate].
Qed.

Lemma kleaves_nonempty K : K <> [] -> kleaves K <> [].
Proof.
  destruct K as [|p K]; [congruence|]. intros _.
  change (p :: K) with ([p] ++ K). rewrite kleaves_app, kleaves_one.
  pose proof (leaves_nonempty (snd p)). destruct (leaves (snd p)); [contradiction|discriminate].
Qed.

(** a root with two children: something lies outside every proper subtree *)
Lemma outside_nonempty t p s :
  2 <= length (kids t) -> p <> [] -> node_at t p = Some s -> outside t p <> [].
Proof.
  destruct p as [|k q]; [congruence|]. intros H2 _ Hn. destruct t as [n c sl]. simpl in Hn.
  cbn [outside]. destruct (nth_error sl k) as [[[e ch]|]|] eqn:E; try discriminate.
  unfold kids in H2. cbn [uslots] in H2. rewrite (kids_of_nth _ _ _ E), app_length in H2. cbn [length] in H2.
  revert H2. generalize (kids_of (firstn k sl)) as A, (kids_of (skipn (S k) sl)) as B. intros A B H2.
  destruct A as [|a A].
  - destruct B as [|b B]; [simpl in H2; lia|].
    rewrite kleaves_nil. cbn [app]. intros X. apply app_eq_nil in X. destruct X as [X _].
    revert X. apply kleaves_nonempty. discriminate.
  - intros X. apply app_eq_nil in X. destruct X as [X _]. revert X. apply kleaves_nonempty. discriminate.
Qed.
