(** Trees equal up to [Qeq] on their numbers ([utree_eqb], the comparison the judges use between
    the model's result and the tree decoded from the observation) have the same observables:
    leaves, well-formedness, depths, pair distances, branches, [usplits] -- equal where only names
    are involved, pointwise [Qeq] where numbers are. *)
From Coq Require Import String ZArith QArith Bool Arith Lia Lqa List Permutation Setoid Morphisms.
From GT Require Import Base.UTree Spec.Obs Model.Reroot Spec.Unrooted
     Proofs.RerootBase Proofs.Reroot Proofs.Reorder Proofs.Splits Proofs.USplits.
Import ListNotations.
Local Close Scope Q_scope.
Local Arguments n_up : simpl never.

(** * the relation, unfolded *)
Definition eeq (e e' : einfo) : Prop :=
  (elen e == elen e')%Q /\ (esup e == esup e')%Q /\ (epv e == epv e')%Q /\ ecom e = ecom e'.

Lemma einfo_eqb_eeq e e' : einfo_eqb e e' = true -> eeq e e'.
Proof.
  unfold einfo_eqb, qeqb. intros H.
  apply andb_true_iff in H as [H H4]. apply andb_true_iff in H as [H H3].
  apply andb_true_iff in H as [H1 H2].
  apply Qeq_bool_iff in H1, H2, H3. apply list_eqb_eq in H4. repeat split; auto.
Qed.

Definition slots_eqb : list slot -> list slot -> bool :=
  fix go (l1 l2 : list slot) : bool :=
    match l1, l2 with
    | [], [] => true
    | None :: r1, None :: r2 => go r1 r2
    | Some (e1, t1) :: r1, Some (e2, t2) :: r2 => einfo_eqb e1 e2 && utree_eqb t1 t2 && go r1 r2
    | _, _ => false
    end.

Lemma utree_eqb_eq n c sl n' c' sl' :
  utree_eqb (UNode n c sl) (UNode n' c' sl') =
  String.eqb n n' && list_eqb String.eqb c c' && slots_eqb sl sl'.
Proof. reflexivity. Qed.

Definition teq (t g : utree) : Prop := utree_eqb t g = true.
Definition kid_teq (P : utree -> utree -> Prop) (p q : einfo * utree) : Prop :=
  eeq (fst p) (fst q) /\ teq (snd p) (snd q) /\ P (snd p) (snd q).

Lemma slots_eqb_kids sl : forall sl', slots_eqb sl sl' = true ->
  Forall2 (kid_teq (fun _ _ => True)) (kids_of sl) (kids_of sl') /\
  n_up sl = n_up sl' /\ length sl = length sl'.
Proof.
  induction sl as [|[[e t]|] r IH]; intros [|[[e' t']|] r'] H; simpl in H; try discriminate.
  - repeat split; constructor.
  - apply andb_true_iff in H as [H H3]. apply andb_true_iff in H as [H1 H2].
    destruct (IH r' H3) as (A & B & C). rewrite !n_up_cons. simpl. repeat split; auto.
    constructor; auto. split; [now apply einfo_eqb_eeq|split; auto].
  - destruct (IH r' H) as (A & B & C). rewrite !n_up_cons. simpl. repeat split; auto.
Qed.

(** induction: to prove [P t g] for equal trees, assume it for the children *)
Lemma teq_ind' (P : utree -> utree -> Prop) :
  (forall n c sl sl',
      Forall2 (kid_teq P) (kids_of sl) (kids_of sl') ->
      n_up sl = n_up sl' -> length sl = length sl' ->
      P (UNode n c sl) (UNode n c sl')) ->
  forall t g, teq t g -> P t g.
Proof.
  intros HP. induction t as [n c sl IH] using utree_ind'. intros [n' c' sl'] H.
  unfold teq in H. rewrite utree_eqb_eq in H.
  apply andb_true_iff in H as [H H3]. apply andb_true_iff in H as [H1 H2].
  apply String.eqb_eq in H1. apply list_eqb_eq in H2. subst n' c'.
  destruct (slots_eqb_kids sl sl' H3) as (A & B & C).
  apply HP; auto.
  clear B C. revert sl' H3 A. induction IH as [|[[e t]|] r Hs Hr IHr]; intros [|[[e' t']|] r'] H3 A;
    simpl in *; try discriminate; auto.
  - apply andb_true_iff in H3 as [H H3']. apply andb_true_iff in H as [H1 H2].
    inversion A; subst. constructor; auto.
    destruct H4 as (X & Y & _). split; [exact X|split; [exact Y|apply Hs; exact Y]].
Qed.

Lemma teq_kids t g : teq t g ->
  Forall2 (kid_teq (fun _ _ => True)) (kids t) (kids g) /\ degree g = degree t /\ uname g = uname t.
Proof.
  destruct t as [n c sl], g as [n' c' sl']. unfold teq. rewrite utree_eqb_eq. intros H.
  apply andb_true_iff in H as [H H3]. apply andb_true_iff in H as [H1 H2].
  apply String.eqb_eq in H1. destruct (slots_eqb_kids sl sl' H3) as (A & B & C).
  unfold kids, degree. simpl. auto.
Qed.

(** * observables *)
Lemma Forall2_kids_nil {A B} (R : A -> B -> Prop) K K' : Forall2 R K K' -> (K = [] <-> K' = []).
Proof. destruct 1; split; intros; auto; discriminate. Qed.

Theorem teq_leaves t g : teq t g -> leaves g = leaves t.
Proof.
  revert t g. apply teq_ind'. intros n c sl sl' HK _ _.
  rewrite !leaves_unfold. pose proof (Forall2_kids_nil _ _ _ HK) as N.
  destruct (kids_of sl) as [|k0 K0] eqn:EK, (kids_of sl') as [|k1 K1] eqn:EK'; auto.
  - assert (X : k1 :: K1 = []) by (apply N; reflexivity). discriminate.
  - assert (X : k0 :: K0 = []) by (apply N; reflexivity). discriminate.
  - unfold kleaves. clear N EK EK'. induction HK as [|p q K K' Hp HK IH]; simpl; auto.
    destruct Hp as (_ & _ & Hp). now rewrite Hp, IH.
Qed.

Theorem teq_isleaf t g : teq t g -> isleaf g = isleaf t.
Proof.
  intros H. destruct (teq_kids t g H) as (A & _). unfold isleaf.
  destruct A; reflexivity.
Qed.

Theorem teq_wf t g : teq t g -> wf_sub g = wf_sub t /\ wf g = wf t.
Proof.
  revert t g. apply teq_ind'. intros n c sl sl' HK U _.
  rewrite !wf_unfold, !wf_sub_unfold, <- U.
  assert (F : forallb (fun p => wf_sub (snd p)) (kids_of sl') = forallb (fun p => wf_sub (snd p)) (kids_of sl)).
  { induction HK as [|p q K K' Hp HK IH]; simpl; auto.
    destruct Hp as (_ & _ & Hp & _). now rewrite Hp, IH. }
  now rewrite F.
Qed.

(** weights that only read the numbers up to Qeq *)
Definition wproper (w : einfo -> Q) : Prop := forall e e', eeq e e' -> (w e == w e')%Q.

Lemma len0_wproper : wproper len0.
Proof. intros e e' (H & _). apply (pos_proper _ _ H). Qed.
Lemma elen_wproper : wproper elen.
Proof. intros e e' (H & _). exact H. Qed.

Lemma Forall2_app_inv_both {A B} (R : A -> B -> Prop) a a' b b' :
  Forall2 R a a' -> Forall2 R b b' -> Forall2 R (a ++ b) (a' ++ b').
Proof. apply Forall2_app. Qed.

Lemma shift_F2 q q' l l' :
  (q == q')%Q -> Forall2 pq_eq l l' -> Forall2 pq_eq (shift q l) (shift q' l').
Proof.
  intros Hq. induction 1 as [|x y l l' [H1 H2] H IH]; simpl; constructor; auto.
  split; simpl; auto. now rewrite Hq, H2.
Qed.

Theorem teq_depths w t g : wproper w -> teq t g -> Forall2 pq_eq (depths w t) (depths w g).
Proof.
  intros Hw. revert t g. apply teq_ind'. intros n c sl sl' HK _ _.
  rewrite !depths_unfold. pose proof (Forall2_kids_nil _ _ _ HK) as N.
  destruct (kids_of sl) as [|k0 K0] eqn:EK, (kids_of sl') as [|k1 K1] eqn:EK'.
  - constructor; [split; reflexivity|constructor].
  - assert (X : k1 :: K1 = []) by (apply N; reflexivity). discriminate.
  - assert (X : k0 :: K0 = []) by (apply N; reflexivity). discriminate.
  - clear N EK EK'. unfold kD. induction HK as [|p q K K' Hp HK IH]; simpl; [constructor|].
    destruct Hp as (He & _ & Hp). apply Forall2_app; auto. apply shift_F2; auto.
Qed.

Lemma cross_F2 a a' b b' :
  Forall2 pq_eq a a' -> Forall2 pq_eq b b' -> Forall2 tq_eq (cross a b) (cross a' b').
Proof.
  intros Ha Hb. unfold cross. induction Ha as [|x x' a a' [X1 X2] Ha IH]; simpl; [constructor|].
  apply Forall2_app; auto.
  clear IH Ha. induction Hb as [|y y' b b' [Y1 Y2] Hb IH]; simpl; constructor; auto.
  split; simpl; [congruence|]. now rewrite X2, Y2.
Qed.

Lemma cross_all_F2 L L' :
  Forall2 (Forall2 pq_eq) L L' -> Forall2 tq_eq (cross_all L) (cross_all L').
Proof.
  induction 1 as [|d d' r r' Hd Hr IH]; simpl; [constructor|].
  apply Forall2_app; auto.
  clear IH. induction Hr as [|x x' r r' Hx Hr IHr]; simpl; [constructor|].
  apply Forall2_app; auto. apply Forall2_app; apply cross_F2; auto.
Qed.

Theorem teq_pairdists w t g : wproper w -> teq t g -> Forall2 tq_eq (pairdists w t) (pairdists w g).
Proof.
  intros Hw. revert t g. apply teq_ind'. intros n c sl sl' HK _ _.
  rewrite !pairdists_unfold. apply Forall2_app.
  - apply cross_all_F2. unfold kD.
    induction HK as [|p q K K' Hp HK IH]; simpl; constructor; auto.
    destruct Hp as (He & Ht & _). apply shift_F2; auto. now apply teq_depths.
  - unfold kpd. induction HK as [|p q K K' Hp HK IH]; simpl; [constructor|].
    destruct Hp as (_ & _ & Hp). apply Forall2_app; auto.
Qed.

(** branches *)
Definition bs3 (x y : einfo * list string * bool) : Prop :=
  eeq (fst (fst x)) (fst (fst y)) /\ snd (fst x) = snd (fst y) /\ snd x = snd y.

Theorem teq_bsplits t g : teq t g -> Forall2 bs3 (bsplits t) (bsplits g).
Proof.
  revert t g. apply teq_ind'. intros n c sl sl' HK _ _.
  rewrite !bsplits_unfold. unfold kbs.
  induction HK as [|p q K K' Hp HK IH]; simpl; [constructor|].
  destruct Hp as (He & Ht & Hp). constructor.
  - unfold bs3. cbn [fst snd]. split; [exact He|].
    split; symmetry; [now apply teq_leaves|now apply teq_isleaf].
  - apply Forall2_app; auto.
Qed.

Lemma canon_split_bs3 all x y : bs3 x y -> split_qeq (canon_split all x) (canon_split all y).
Proof.
  destruct x as [[e X] f], y as [[e' X'] f']. intros ((H1 & H2 & _) & H3 & H4). simpl in *. subst.
  unfold canon_split. repeat split; cbn [sside slen ssup stip fst snd]; auto.
Qed.

Theorem teq_branch_splits all t g :
  teq t g -> Forall2 split_qeq (branch_splits all t) (branch_splits all g).
Proof.
  intros H. rewrite !branch_splits_bsplits.
  pose proof (teq_bsplits t g H) as F. induction F; simpl; constructor; auto.
  now apply canon_split_bs3.
Qed.

(** [usplits] *)
Lemma add_split_F2 s s' a a' :
  split_qeq s s' -> Forall2 split_qeq a a' -> Forall2 split_qeq (add_split s a) (add_split s' a').
Proof.
  intros Hs. induction 1 as [|x x' a a' Hx Ha IH]; simpl.
  - constructor; auto.
  - unfold split_key_eqb. destruct Hs as (S1 & S2 & S3 & S4). destruct Hx as (X1 & X2 & X3 & X4).
    rewrite <- S1, <- X1. destruct (sset_eqb (sside s) (sside x)).
    + constructor; auto. rewrite !merge_split_eq. repeat split; cbn [sside slen ssup stip]; auto.
      * now apply merge_len_proper.
      * now apply qmax_proper.
      * congruence.
    + constructor; [repeat split; auto|]. apply IH.
Qed.

Lemma foldsplits_F2 l l' : Forall2 split_qeq l l' -> Forall2 split_qeq (foldsplits l) (foldsplits l').
Proof.
  unfold foldsplits. intros H.
  assert (G : forall acc acc', Forall2 split_qeq acc acc' ->
              Forall2 split_qeq (fold_left (fun acc s => add_split s acc) l acc)
                      (fold_left (fun acc s => add_split s acc) l' acc')).
  { induction H as [|s s' l l' Hs H IH]; simpl; intros acc acc' Ha; auto.
    apply IH. now apply add_split_F2. }
  apply G. constructor.
Qed.

Theorem teq_tipset t g : teq t g -> tipset g = tipset t.
Proof. intros H. unfold tipset. now rewrite (teq_leaves t g H). Qed.

Theorem teq_usplits t g : teq t g -> Forall2 split_qeq (usplits t) (usplits g).
Proof.
  intros H. rewrite !usplits_eq, (teq_tipset t g H). apply foldsplits_F2. now apply teq_branch_splits.
Qed.

Lemma find_split_F2 k a a' :
  Forall2 split_qeq a a' -> orel split_qeq (find_split k a) (find_split k a').
Proof.
  unfold find_split. induction 1 as [|x x' a a' Hx Ha IH]; simpl; auto.
  pose proof Hx as (X1 & _). rewrite <- X1. destruct (sset_eqb (sside x) k); simpl; auto.
Qed.

Theorem teq_lookup t g k : teq t g -> orel split_qeq (find_split k (usplits t)) (find_split k (usplits g)).
Proof. intros H. apply find_split_F2. now apply teq_usplits. Qed.
