(** C20, the rooted "uniform" generator, exact form of the known defect:
    (a) for every n >= 3 and every choice vector the two first tips stay on different sides of
        the root: no clade of the result contains both Tip0 and Tip1;
    (b) for every n >= 3 some rooted labelled topology listed by the enumerator is never
        produced (pigeonhole: fewer choice vectors than topologies). *)
From Coq Require Import String ZArith QArith Bool Arith Lia List Permutation.
From GT Require Import Base.UTree Spec.Obs Spec.GenShape Spec.Counting Model.Reroot Model.Rand2 Model.TreeGen Model.Sampling
     Proofs.RerootBase Proofs.C05Main Proofs.SamplingBase Proofs.SamplingRefute
     Proofs.TreeGenNames Proofs.TreeGenGraft Proofs.TreeGenLoop Proofs.TreeGenMain
     Proofs.TreeGenTopo Proofs.TreeGenTopo2 Proofs.TreeGenUnif Proofs.OracleSets.
Import ListNotations.
Local Close Scope Q_scope.

(** ** (a) Tip1 stays below the first root branch, Tip0 below the second *)
Lemma graft_tnames_mono k e1 e2 tip t nm :
  In nm (tnames t) -> In nm (tnames (graft_id k e1 e2 tip t)).
Proof.
  induction t as [n c sl IH] using utree_ind'. intros H.
  rewrite graft_id_unfold. unfold tnames in *. rewrite mu_unfold in *. rewrite map_length.
  apply in_app_or in H. apply in_or_app. destruct H as [H|H]; [now left|right].
  unfold mu_sl in *. rewrite in_flat_map in *. destruct H as [s [Hs Hn]].
  exists (G k e1 e2 tip s). split; [now apply in_map|].
  rewrite Forall_forall in IH. specialize (IH s Hs).
  destruct s as [[e ch]|]; [|destruct Hn]. cbn [G]. cbn [app] in Hn.
  destruct (Nat.eqb (eid e) k).
  - cbn [app]. unfold graft_node. rewrite mu_unfold. cbn [length Nat.eqb app].
    rewrite mu_sl_cons_some. apply in_or_app. right. rewrite mu_sl_cons_none, mu_sl_cons_some.
    apply in_or_app. left. exact Hn.
  - cbn [app]. now apply IH.
Qed.

Definition rsep (t : utree) : Prop :=
  exists n c e0 x e1 y, t = UNode n c [Some (e0, x); Some (e1, y)] /\
    In (tip_name 1) (tnames x) /\ In (tip_name 0) (tnames y).

Lemma rsep_init : rsep (st_tree (init_state true)).
Proof. unfold st_tree. simpl. eexists _, _, _, _, _, _. split; [reflexivity|]. split; now left. Qed.

Lemma tnames_graft_node e1 e2 tip ch nm : In nm (tnames ch) -> In nm (tnames (graft_node e1 e2 tip ch)).
Proof.
  intros H. unfold graft_node, tnames. rewrite mu_unfold. cbn [length Nat.eqb app].
  rewrite mu_sl_cons_some. apply in_or_app. right. rewrite mu_sl_cons_none, mu_sl_cons_some.
  apply in_or_app. left. exact H.
Qed.

Lemma rsep_step st i k : rsep (st_tree st) -> rsep (st_tree (graft_step st i k)).
Proof.
  destruct st as [[t m] asg]. unfold st_tree, graft_step. cbn [fst].
  intros [n [c [e0 [x [e1 [y [-> [H1 H0]]]]]]]].
  rewrite graft_id_unfold. cbn [map G].
  destruct (Nat.eqb (eid e0) k), (Nat.eqb (eid e1) k);
    eexists _, _, _, _, _, _; (split; [reflexivity|]); split;
    try (now apply tnames_graft_node); try (now apply graft_tnames_mono).
Qed.

Lemma rsep_loop cs : forall i st, rsep (st_tree st) -> rsep (st_tree (unif_loop i cs st)).
Proof.
  induction cs as [|k cs IH]; intros i st H; simpl; auto. apply IH. now apply rsep_step.
Qed.

Lemma tnames_leaves_sub t : wf_sub t = true -> tnames t = leaves t.
Proof. intros W. rewrite tnames_tip_names. unfold tip_names. symmetry. now apply leaves_tips_sub. Qed.

Theorem uniform_rooted_separates n cs ls t :
  3 <= n -> in_bounds cs (uniform_bounds n true) -> uniform_tree n true cs ls = GOk t ->
  forall A, In A (topo_key true t) -> ~ (In (tip_name 0) A /\ In (tip_name 1) A).
Proof.
  intros Hn Hb Ht A HA [A0 A1].
  destruct (uniform_tree_ok n true cs ls Hn Hb) as [t' [Et G]]. rewrite Ht in Et. inversion Et; subst t'.
  destruct G as (W & B & R & P & ND & L).
  (* shape of the result *)
  rewrite uniform_bounds_eq in Hb by auto.
  assert (Lc : length cs = n - 2).
  { apply in_bounds_length in Hb. now rewrite map_length, seq_length in Hb. }
  unfold uniform_tree in Ht. destruct (Nat.ltb_spec n 3); [lia|]. cbn [andb negb] in Ht.
  rewrite Lc, Nat.eqb_refl in Ht. cbn [negb] in Ht.
  pose proof (rsep_loop cs 2 (init_state true) rsep_init) as S.
  destruct (unif_loop 2 cs (init_state true)) as [[t0 m] asg]. unfold st_tree in S. cbn [fst] in S.
  unfold close_state, finish in Ht. inversion Ht as [Ht']. clear Ht.
  destruct S as [nn [cc [e0 [x [e1 [y [-> [H1 H0]]]]]]]].
  rewrite set_lens_unfold in Ht'. cbn [map] in Ht'.
  set (f := fun k => last_assign asg ls k nilv) in *.
  (* the two root subtrees *)
  rewrite <- Ht' in W, ND, HA.
  rewrite wf_def in W. apply andb_true_iff in W as [_ W]. unfold sub_all in W. cbn [forallb] in W.
  apply andb_true_iff in W as [Wx W]. apply andb_true_iff in W as [Wy _].
  rewrite <- (set_lens_tnames f) in H1, H0.
  rewrite (tnames_leaves_sub _ Wx) in H1. rewrite (tnames_leaves_sub _ Wy) in H0.
  simpl leaves in ND. rewrite app_nil_r in ND.
  (* A is a clade of the result *)
  unfold topo_key in HA. rewrite lset_In in HA. apply filter_In in HA as [HA _].
  rewrite clades_unfold in HA. unfold slots_clades in HA. cbn [flat_map] in HA.
  assert (Sx : forall z, In z (sset (leaves (set_lens f x))) -> In z (leaves (set_lens f x)))
    by (intros z; apply OracleSets.sset_In).
  assert (Sy : forall z, In z (sset (leaves (set_lens f y))) -> In z (leaves (set_lens f y)))
    by (intros z; apply OracleSets.sset_In).
  simpl in HA. rewrite app_nil_r in HA.
  assert (C : incl A (leaves (set_lens f x)) \/ incl A (leaves (set_lens f y))).
  { destruct HA as [<-|HA]; [left; exact Sx|].
    apply in_app_or in HA as [HA|HA]; [left; now apply clades_sub|].
    destruct HA as [<-|HA]; [right; exact Sy|]. right. now apply clades_sub. }
  destruct C as [C|C].
  - eapply NoDup_app_disj; [exact ND|apply C; exact A0|exact H0].
  - eapply NoDup_app_disj; [exact ND|exact H1|apply C; exact A1].
Qed.

(** ** (b) some rooted topology is never produced *)
Lemma exists_not_in {A} (dec : forall a b : A, {a = b} + {a <> b}) (E K : list A) :
  NoDup E -> length K < length E -> exists e, In e E /\ ~ In e K.
Proof.
  intros ND HL.
  assert (H : ~ incl E K).
  { intros Hi. pose proof (NoDup_incl_length ND Hi). lia. }
  clear ND HL. induction E as [|a E IH].
  - exfalso. apply H. intros x [].
  - destruct (in_dec dec a K) as [Ha|Ha].
    + destruct IH as [e [He Hn]].
      * intros Hi. apply H. intros x [<-|Hx]; auto.
      * exists e. split; [now right|assumption].
    + exists a. split; [now left|assumption].
Qed.

Definition key_dec : forall a b : list (list string), {a = b} + {a <> b} :=
  list_eq_dec (list_eq_dec string_dec).

Lemma uniform_rooted_key_ls n cs ls t :
  3 <= n -> uniform_tree n true cs ls = GOk t ->
  exists t0, uniform_tree n true cs [] = GOk t0 /\ topo_key true t0 = topo_key true t.
Proof.
  intros Hn Ht. unfold uniform_tree in *. destruct (Nat.ltb_spec n 3); [lia|]. cbn [andb negb] in *.
  destruct (negb (Nat.eqb (length cs) (n - 2))); [discriminate|].
  destruct (unif_loop 2 cs (init_state true)) as [[t0 m] asg].
  unfold close_state, finish in *. inversion Ht; subst t.
  eexists. split; [reflexivity|].
  unfold topo_key, tipset.
  destruct (set_lens_leaves_clades (fun k => last_assign asg [] k nilv) t0) as [L1 C1].
  destruct (set_lens_leaves_clades (fun k => last_assign asg ls k nilv) t0) as [L2 C2].
  now rewrite L1, C1, L2, C2.
Qed.

Theorem uniform_rooted_misses n ts : 3 <= n ->
  all_topologies n true (map tip_name (seq 0 n)) = Ok ts ->
  exists key, In key (map (topo_key true) ts) /\
    forall cs ls t, in_bounds cs (uniform_bounds n true) -> uniform_tree n true cs ls = GOk t ->
                    topo_key true t <> key.
Proof.
  intros Hn Hts.
  set (K := uniform_keys n true).
  set (E := map (topo_key true) ts).
  assert (NE : NoDup E).
  { unfold E. eapply all_topologies_rooted_distinct_given; [| | |exact Hts]; try lia.
    - now rewrite map_length, seq_length.
    - apply tip_names_NoDup. }
  assert (LE : length E = n_rooted n).
  { unfold E. rewrite map_length.
    destruct (all_topologies_rooted_length_names n (map tip_name (seq 0 n))) as [ts' [E' L']]; [lia| |].
    - right. now rewrite map_length, seq_length.
    - rewrite Hts in E'. inversion E'; subst. exact L'. }
  assert (LK : length K <= length (all_choices (uniform_bounds n true))).
  { unfold K, uniform_keys. generalize (all_choices (uniform_bounds n true)). intros l.
    induction l as [|cs l IH]; [simpl; lia|]. cbn [flat_map length]. rewrite app_length.
    destruct (uniform_tree n true cs []); cbn [length]; lia. }
  pose proof (uniform_rooted_space_too_small n Hn) as Small.
  destruct (exists_not_in key_dec E K NE) as [key [HE HK]]; [lia|].
  exists key. split; auto. intros cs ls t Hb Ht Heq.
  destruct (uniform_rooted_key_ls n cs ls t Hn Ht) as [t0 [E0 K0]].
  apply HK. unfold K, uniform_keys. apply in_flat_map. exists cs. split.
  - now apply all_choices_in.
  - rewrite E0. left. congruence.
Qed.
