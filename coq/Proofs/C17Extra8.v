(** C17, extra 8: completeness of the enumeration at the level of branches -- every branch
    of Tree.Edges() both of whose ends have three neighbours gets both exchanges. *)
From Coq Require Import String ZArith QArith Bool Arith Lia List Permutation.
From GT Require Import Base.UTree Spec.Obs Spec.Unrooted Spec.NNISpec Model.Reroot Model.NNI
     Proofs.RerootBase Proofs.NNIBase Proofs.NNISem Proofs.NNIMain Proofs.NNICount Proofs.NNIList Proofs.NNITop.
Import ListNotations.
Local Close Scope Q_scope.
Local Open Scope list_scope.

Lemma in_combine_seq_nth {A} (l : list A) : forall s i x,
  nth_error l i = Some x -> In (s + i, x) (combine (seq s (length l)) l).
Proof.
  induction l as [|a l IH]; intros s [|i] x H; cbn in *; try discriminate.
  - inversion H; subst. left. f_equal. lia.
  - right. replace (s + S i) with (S s + i) by lia. apply IH. exact H.
Qed.

Lemma Forall2_in_r {A B} (R : A -> B -> Prop) l m :
  Forall2 R l m -> forall b, In b m -> exists a, In a l /\ R a b.
Proof.
  induction 1 as [|a0 b0 l m Hab F IH]; intros b Hb; [destruct Hb|].
  destruct Hb as [<-|Hb].
  - exists a0. split; [now left|exact Hab].
  - destruct (IH b Hb) as (a & Ha & Hr). exists a. split; [now right|exact Hr].
Qed.

(** every branch [x] of Tree.Edges() both of whose ends have three neighbours is proposed
    with both exchanges *)
Theorem nni_complete t x cross :
  wf t = true -> In x (edges_pc t) -> both3 x = true ->
  exists r, In r (nni_list t) /\ designates t (r_path r, r_k r) x /\ r_cross r = cross.
Proof.
  intros W Hx B.
  destruct (Forall2_in_r _ _ _ (edge_locs_designate t) x Hx) as (loc & Hl & D).
  destruct (In_nth_error _ _ Hl) as [i Hi].
  pose proof (nni_at_length t i loc x W D) as L. rewrite B in L.
  destruct (nni_at_shape t i loc) as [E|(j & f & E)]; [rewrite E in L; discriminate|].
  exists (mkNNI i (fst loc) (snd loc) j cross f). split.
  - unfold nni_list. apply in_flat_map. exists (i, loc). split.
    + exact (in_combine_seq_nth _ 0 i loc Hi).
    + cbn [fst snd]. rewrite E. destruct cross; cbn; auto.
  - cbn [r_path r_k r_cross]. destruct loc as [p k]. split; [exact D|reflexivity].
Qed.

(** and conversely a proposal designates such a branch *)
Theorem nni_sound t r :
  In r (nni_list t) ->
  exists x, In x (edges_pc t) /\ both3 x = true /\ designates t (r_path r, r_k r) x.
Proof.
  intros I. destruct (nni_list_in _ _ I) as [N _].
  destruct (nni_list_degrees _ _ I) as (n1 & ec & n2 & H1 & H2 & D1 & D2).
  pose proof (edge_locs_designate t) as F.
  assert (G : forall l m, Forall2 (designates t) l m -> forall i loc, nth_error l i = Some loc ->
              exists x, In x m /\ designates t loc x).
  { induction 1 as [|a b l m Hab F' IH]; intros [|i] loc Hn; cbn in Hn; try discriminate.
    - inversion Hn; subst. exists b. split; [now left|exact Hab].
    - destruct (IH _ _ Hn) as (x & Hx & Hd). exists x. split; [now right|exact Hd]. }
  destruct (G _ _ F _ _ N) as (x & Hx & Hd). exists x. split; [exact Hx|]. split; [|exact Hd].
  destruct Hd as [A1 A2]. cbn [fst snd] in A1, A2. rewrite H1 in A1. inversion A1 as [E1].
  rewrite <- E1 in A2. rewrite H2 in A2. inversion A2 as [[E2 E3]].
  unfold both3. rewrite <- E1, <- E3, D1, D2. reflexivity.
Qed.

(** * Apply keeps the name and the comments of every node (tips and inner nodes) *)
Fixpoint node_data (t : utree) : list (string * list string) :=
  match t with
  | UNode n c sl =>
    (n, c) :: flat_map (fun s => match s with Some (_, ch) => node_data ch | None => [] end) sl
  end.
Definition slot_nd (s : slot) : list (string * list string) :=
  match s with Some (_, ch) => node_data ch | None => [] end.

Lemma node_data_unfold n c sl : node_data (UNode n c sl) = (n, c) :: flat_map slot_nd sl.
Proof. reflexivity. Qed.

Lemma nth_error_decomp {A} (l : list A) : forall k x,
  nth_error l k = Some x -> l = firstn k l ++ x :: skipn (S k) l /\ skipn k l = x :: skipn (S k) l.
Proof.
  induction l as [|a l IH]; intros [|k] x H; cbn in *; try discriminate.
  - inversion H; subst. auto.
  - destruct (IH _ _ H) as [E1 E2]. split; [f_equal; exact E1|exact E2].
Qed.

Lemma nd_set_nth sl k e ch ch' :
  nth_error sl k = Some (Some (e, ch)) -> Permutation (node_data ch) (node_data ch') ->
  Permutation (flat_map slot_nd sl) (flat_map slot_nd (set_nth k (Some (e, ch')) sl)).
Proof.
  intros E HP. destruct (nth_error_decomp _ _ _ E) as [E1 E2].
  unfold set_nth. rewrite E2. rewrite E1 at 1.
  rewrite !flat_map_app. cbn [flat_map slot_nd].
  apply Permutation_app_head. apply Permutation_app_tail. exact HP.
Qed.

Lemma nd_path f p : forall t t' s s',
  node_at t p = Some s -> f s = Some s' -> at_path f p t = Some t' ->
  Permutation (node_data s) (node_data s') -> Permutation (node_data t) (node_data t').
Proof.
  induction p as [|k q IH]; intros t t' s s' Hn Hf Ha HP; simpl in *.
  - inversion Hn; subst. rewrite Hf in Ha. now inversion Ha; subst.
  - destruct t as [n c sl]. simpl in Hn.
    destruct (nth_error sl k) as [[[e ch]|]|] eqn:E; try discriminate.
    destruct (at_path f q ch) as [ch'|] eqn:E'; [|discriminate]. inversion Ha; subst.
    rewrite !node_data_unfold. apply perm_skip. apply (nd_set_nth sl k e ch ch' E).
    eapply (IH ch ch' s s'); eauto.
Qed.

Lemma nd_pl k (x : slot) p : Permutation (flat_map slot_nd (pl k x p)) (slot_nd x ++ slot_nd (fst p) ++ slot_nd (snd p)).
Proof.
  rewrite (Permutation_flat_map slot_nd (pl_perm k x p)). cbn [flat_map]. now rewrite app_nil_r.
Qed.

Lemma nd_picture k j cross P :
  Permutation (node_data (pic_n1 k j P)) (node_data (pic_after k j cross P)).
Proof.
  unfold pic_after, pic_n1, pic_n2, pic_plain, pic_flip, moved, put.
  destruct P as [nx cx [x1 x2] ec ny cy [ey1 y1] [ey2 y2]]. cbn [p_nx p_cx p_xs p_ec p_ny p_cy p_y1 p_y2 fst snd].
  destruct x2 as [[emv mv1]|], cross;
    rewrite !node_data_unfold; repeat (rewrite !nd_pl; cbn [slot_nd fst snd]; rewrite ?node_data_unfold);
    cbn [app]; rewrite ?app_nil_r;
    generalize (slot_nd x1); intros L1;
    generalize (node_data y1); intros L2; generalize (node_data y2); intros L3;
    try (generalize (node_data mv1); intros L4); perm.
Qed.

Theorem apply_node_data t r t' :
  wf t = true -> In r (nni_list t) -> apply r t = Some t' ->
  Permutation (node_data t) (node_data t').
Proof.
  intros W I Ha. pose proof (nni_list_valid _ _ I) as V.
  destruct (valid_picture _ _ W V) as (P & Hn & Hk & Hj & _).
  rewrite apply_unfold in Ha.
  pose proof (apply_local _ _ (r_cross r) P Hk Hj) as HL.
  exact (nd_path _ _ _ _ _ _ Hn HL Ha (nd_picture _ _ _ P)).
Qed.

(** * complete in the sense of splits: around a branch both of whose ends have three
    neighbours the tips fall into A, C (the other two neighbours of the upper end) and Y1, Y2
    (the two children of the lower end); the branch separates Y1+Y2 from A+C.  The only other
    two resolutions, A+Y1 | C+Y2 and A+Y2 | C+Y1, are both proposed (plain and cross
    exchange), every other branch keeping its data and side. *)
Definition resolves (t t' : utree) (ec : einfo) (s1 s2 : list string) : Prop :=
  exists new rest rest',
    (Permutation new s1 \/ Permutation new s2) /\
    Permutation (bsplits t') ((ec, new, false) :: rest') /\
    (exists old, Permutation (bsplits t) ((ec, old, false) :: rest)) /\
    PermR bs_same rest rest'.

Theorem nni_complete_splits t x :
  wf t = true -> In x (edges_pc t) -> both3 x = true ->
  exists r0 r1 t0 t1 A C Y1 Y2 old rest,
    In r0 (nni_list t) /\ In r1 (nni_list t) /\
    designates t (r_path r0, r_k r0) x /\ designates t (r_path r1, r_k r1) x /\
    r_cross r0 = false /\ r_cross r1 = true /\
    apply r0 t = Some t0 /\ apply r1 t = Some t1 /\
    Permutation (leaves t) (A ++ C ++ Y1 ++ Y2) /\
    Y1 <> [] /\ Y2 <> [] /\ (2 <= length (kids t) -> A <> [] /\ C <> []) /\
    Permutation old (Y1 ++ Y2) /\
    Permutation (bsplits t) ((snd (fst x), old, false) :: rest) /\
    resolves t t0 (snd (fst x)) (A ++ Y1) (C ++ Y2) /\
    resolves t t1 (snd (fst x)) (A ++ Y2) (C ++ Y1).
Proof.
  intros W Hx B3.
  destruct (nni_complete t x false W Hx B3) as (r0 & I0 & D0 & C0).
  pose proof (nni_list_pair _ _ I0) as I1. rewrite C0 in I1. cbn [negb] in I1.
  set (r1 := mkNNI (r_edge r0) (r_path r0) (r_k r0) (r_j r0) true (r_flip r0)) in *.
  destruct (undo_apply_list t r0 W I0) as (t0 & A0 & _).
  destruct (undo_apply_list t r1 W I1) as (t1 & A1 & _).
  destruct (valid_picture _ _ W (nni_list_valid _ _ I0)) as (P & Hn & Hk & Hj & _).
  assert (Eec : p_ec P = snd (fst x)).
  { destruct D0 as [N1 N2]. cbn [fst snd] in N1, N2. rewrite Hn in N1. inversion N1 as [E1].
    rewrite <- E1 in N2. unfold pic_n1 in N2. cbn [uslots] in N2. rewrite pl_nth_k in N2 by exact Hk.
    now inversion N2. }
  pose proof (apply_picture r0 t t0 P W Hn Hk Hj A0) as H0. cbv zeta in H0.
  pose proof (apply_picture r1 t t1 P W Hn Hk Hj A1) as H1. cbv zeta in H1.
  change (r_path r1) with (r_path r0) in H1. change (r_k r1) with (r_k r0) in H1.
  change (r_j r1) with (r_j r0) in H1. change (r_cross r1) with true in H1. rewrite C0 in H0.
  unfold cornerB, cornerD, moved, stay in H0, H1. rewrite Eec in H0, H1.
  set (A := cornerA (outside t (r_path r0)) P) in *. set (C := cornerC (outside t (r_path r0)) P) in *.
  set (Y1 := leaves (snd (p_y1 P))) in *. set (Y2 := leaves (snd (p_y2 P))) in *.
  destruct H0 as (_ & _ & L0 & NB0 & ND0 & AC0 & O0 & N0 & rest0 & rest0' & S0 & S0' & R0).
  destruct H1 as (_ & _ & _ & _ & _ & _ & _ & N1 & rest1 & rest1' & S1 & S1' & R1).
  exists r0, r1, t0, t1, A, C, Y1, Y2, (leaves (pic_n2 (r_j r0) P)), rest0.
  repeat (split; [first [exact I0|exact I1|exact D0|exact C0|reflexivity|exact A0|exact A1|exact ND0|exact NB0|exact AC0|exact S0]|]).
  split; [rewrite L0; perm|]. split; [exact ND0|]. split; [exact NB0|]. split; [exact AC0|].
  split; [rewrite O0; perm|]. split; [exact S0|]. split.
  - eexists _, rest0, rest0'. split; [exact N0|]. split; [exact S0'|]. split; [eexists; exact S0|exact R0].
  - eexists _, rest1, rest1'. split; [exact N1|]. split; [exact S1'|]. split; [eexists; exact S1|exact R1].
Qed.

Local Open Scope string_scope.
Lemma witness6_complete_facts :
  wf witness6 = true /\ binary witness6 = true /\
  map (fun x => (leaves (snd x))) (filter both3 (edges_pc witness6)) = [["a"; "b"]; ["c"; "d"]; ["e"; "f"]] /\
  map (fun r => (r_edge r, r_cross r)) (nni_list witness6) =
  [(0, false); (0, true); (3, false); (3, true); (6, false); (6, true)].
Proof. vm_compute. repeat split; reflexivity. Qed.

(** a tree with named and commented inner nodes and distinct branch data: the rooted
    (a,(b,(c,d)n2[c2])n1[c1])r[c0]; its two neighbours (central branch inverted) keep all of it *)
Definition ei (l s : Z) : einfo := mkE (inject_Z l) (inject_Z s) (-1) [].
Definition witness_named : utree :=
  UNode "r" ["c0"] [Some (ei 1 (-1), lf "a");
    Some (ei 2 (-1), UNode "n1" ["c1"] [Some (ei 3 (-1), lf "b"); None;
       Some (mkE (inject_Z 4) 0 (-1) ["cc"], UNode "n2" ["c2"] [None; Some (ei 5 (-1), lf "c"); Some (ei 6 (-1), lf "d")])])].
Lemma witness_named_facts :
  wf witness_named = true /\ binary witness_named = true /\
  node_data witness_named = [("r", ["c0"]); ("a", []); ("n1", ["c1"]); ("b", []); ("n2", ["c2"]); ("c", []); ("d", [])] /\
  map (fun r => match apply r witness_named with
                | Some t' => (node_data t', map fst (edges t'))
                | None => ([], []) end) (nni_list witness_named) =
  [([("r", ["c0"]); ("a", []); ("n2", ["c2"]); ("n1", ["c1"]); ("b", []); ("d", []); ("c", [])],
    [ei 1 (-1); ei 2 (-1); mkE (inject_Z 4) 0 (-1) ["cc"]; ei 3 (-1); ei 6 (-1); ei 5 (-1)]);
   ([("r", ["c0"]); ("a", []); ("n2", ["c2"]); ("n1", ["c1"]); ("b", []); ("c", []); ("d", [])],
    [ei 1 (-1); ei 2 (-1); mkE (inject_Z 4) 0 (-1) ["cc"]; ei 3 (-1); ei 5 (-1); ei 6 (-1)])].
Proof. vm_compute. repeat split; reflexivity. Qed.
