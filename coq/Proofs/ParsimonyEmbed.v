(** The passes commute with an injective embedding of the alphabet: running them over a
    larger alphabet, with the tip vectors embedded, gives the embedded vectors and the same
    number of steps.  (Used for: sequence variant at one site = character variant.) *)
From Coq Require Import String ZArith QArith Bool Arith Lia List.
From GT Require Import Base.UTree Spec.Obs Spec.Parsimony Model.Reroot Model.Parsimony
     Proofs.ParsimonyVec Proofs.ParsimonyHartigan Proofs.ParsimonyReroot Proofs.ParsimonyCtx
     Proofs.ParsimonyDown Proofs.ParsimonyFinal Proofs.ParsimonyUnamb Proofs.ParsimonyDeltran.
Import ListNotations.
Local Close Scope Q_scope.

Fixpoint find_idx (j : nat) (l : list nat) : option nat :=
  match l with
  | [] => None
  | x :: r => if Nat.eqb x j then Some 0 else option_map S (find_idx j r)
  end.

Lemma find_idx_some : forall l j i, find_idx j l = Some i -> nth_error l i = Some j.
Proof.
  induction l as [|x l IH]; intros j i H; simpl in H; [discriminate|].
  destruct (Nat.eqb x j) eqn:E.
  - inversion H; subst. apply Nat.eqb_eq in E. subst. reflexivity.
  - destruct (find_idx j l) as [i'|] eqn:F; simpl in H; [|discriminate].
    inversion H; subst. simpl. apply IH. exact F.
Qed.

Lemma find_idx_nth : forall l i j, NoDup l -> nth_error l i = Some j -> find_idx j l = Some i.
Proof.
  induction l as [|x l IH]; intros i j Hnd Hn; [destruct i; discriminate|].
  inversion Hnd; subst. destruct i; simpl in *.
  - inversion Hn; subst. rewrite Nat.eqb_refl. reflexivity.
  - destruct (Nat.eqb x j) eqn:E.
    + apply Nat.eqb_eq in E. subst. exfalso. apply H1. eapply nth_error_In; eauto.
    + rewrite (IH i j H2 Hn). reflexivity.
Qed.

Fixpoint vmap (f : vec -> vec) (t : vtree) : vtree :=
  match t with VNode v ks => VNode (f v) (map (vmap f) ks) end.

Lemma vmap_node : forall f v ks, vmap f (VNode v ks) = VNode (f v) (map (vmap f) ks).
Proof. reflexivity. Qed.
Lemma vroot_vmap : forall f t, vroot (vmap f t) = f (vroot t).
Proof. intros f [v ks]. reflexivity. Qed.
Lemma vkids_vmap : forall f t, vkids (vmap f t) = map (vmap f) (vkids t).
Proof. intros f [v ks]. reflexivity. Qed.
Lemma is_vtip_vmap : forall f t, is_vtip (vmap f t) = is_vtip t.
Proof. intros f [v [|c ks]]; reflexivity. Qed.

(** every neighbour vector has a state: the maximum count is positive *)
Lemma vmax_pos : forall k l, l <> [] -> Forall (vec_ok k) l -> 1 <= vmax (vsum k l).
Proof.
  intros k [|v l] Hne Hf; [congruence|]. inversion Hf; subst.
  destruct H1 as [_ [_ [y Hy]]].
  pose proof (nth_le_vmax (vsum k (v :: l)) y) as M.
  rewrite nth_vsum in M.
  - simpl in M. lia.
  - eapply Forall_impl; [|exact Hf]. intros w [L _]. exact L.
Qed.

Lemma kvecs_fake : forall l, kvecs (map fake l) = l.
Proof. induction l; simpl; [reflexivity|]. unfold kvecs in *. simpl. rewrite IHl. reflexivity. Qed.

Lemma cp_vec_ok_list : forall k l, l <> [] -> Forall (vec_ok k) l -> vec_ok k (compute_parsimony (vsum k l)).
Proof.
  intros k l Hne Hf. rewrite <- (kvecs_fake l). apply cp_vec_ok.
  - unfold rs_ok. apply Forall_forall. intros r Hr. apply in_map_iff in Hr. destruct Hr as [v [Er Hv]].
    subst r. simpl. rewrite Forall_forall in Hf. apply Hf. exact Hv.
  - destruct l; [congruence | discriminate].
Qed.

(** number of children lacking the kept state = children - maximal count *)
Lemma miss_count : forall k vs, Forall (good k) vs ->
  length (filter (fun v => Nat.eqb (nth (first_max (vsum k vs)) v 0) 0) vs) + vmax (vsum k vs) = length vs.
Proof.
  intros k vs Hg.
  assert (H01 : Forall (fun v => nth (first_max (vsum k vs)) v 0 <= 1) vs).
  { eapply Forall_impl; [|exact Hg]. intros v [_ B]. apply B. }
  pose proof (nsum_count _ vs H01) as Q.
  rewrite <- (nth_vsum k) in Q.
  - rewrite first_max_spec in Q. exact Q.
  - eapply Forall_impl; [|exact Hg]. intros v [L _]. exact L.
Qed.

Section Embed.
Variable pi : list nat.
Variable k2 : nat.
Hypothesis Hnd : NoDup pi.
Hypothesis Hlt : forall j, In j pi -> j < k2.
Notation k1 := (length pi).

Definition E (v : vec) (j : nat) : nat :=
  match find_idx j pi with Some i => nth i v 0 | None => 0 end.
Definition embed (v : vec) : vec := map (E v) (seq 0 k2).

Lemma embed_length : forall v, length (embed v) = k2.
Proof. intros. unfold embed. rewrite map_length, seq_length. reflexivity. Qed.

Lemma nth_embed : forall v j, nth j (embed v) 0 = if Nat.ltb j k2 then E v j else 0.
Proof.
  intros v j. unfold embed. destruct (Nat.ltb j k2) eqn:L.
  - apply Nat.ltb_lt in L.
    rewrite (nth_indep _ 0 (E v 0)) by (rewrite map_length, seq_length; exact L).
    rewrite map_nth, seq_nth by exact L. reflexivity.
  - apply Nat.ltb_ge in L. apply nth_overflow. rewrite map_length, seq_length. exact L.
Qed.

Lemma E_at : forall v i j, nth_error pi i = Some j -> E v j = nth i v 0 /\ j < k2.
Proof.
  intros v i j H. unfold E. rewrite (find_idx_nth pi i j Hnd H). split; [reflexivity|].
  apply Hlt. eapply nth_error_In; eauto.
Qed.

Lemma E_cases : forall v j, E v j = 0 \/ exists i, nth_error pi i = Some j /\ E v j = nth i v 0.
Proof.
  intros v j. unfold E. destruct (find_idx j pi) as [i|] eqn:F; [right | left; reflexivity].
  exists i. split; [apply find_idx_some; exact F | reflexivity].
Qed.

(** equality with an embedded vector, pointwise *)
Lemma embed_ext : forall w v, length w = k2 -> (forall j, j < k2 -> nth j w 0 = E v j) -> w = embed v.
Proof.
  intros w v L H. apply (nth_ext _ _ 0 0); [rewrite embed_length; exact L|].
  intros j Hj. rewrite L in Hj. rewrite nth_embed. apply Nat.ltb_lt in Hj. rewrite Hj.
  apply H. apply Nat.ltb_lt. exact Hj.
Qed.

Lemma nth_embed_lt : forall v j, j < k2 -> nth j (embed v) 0 = E v j.
Proof. intros v j H. rewrite nth_embed. apply Nat.ltb_lt in H. rewrite H. reflexivity. Qed.

Lemma embed_vzero : embed (vzero k1) = vzero k2.
Proof.
  symmetry. apply embed_ext; [apply vzero_length|].
  intros j _. rewrite nth_vzero. unfold E. destruct (find_idx j pi); [rewrite nth_vzero|]; reflexivity.
Qed.

Lemma vadd_embed : forall a b, length a = k1 -> length b = k1 -> vadd (embed a) (embed b) = embed (vadd a b).
Proof.
  intros a b La Lb. apply embed_ext; [rewrite vadd_length; apply embed_length|].
  intros j Hj. rewrite nth_vadd by (rewrite !embed_length; lia).
  rewrite !nth_embed_lt by exact Hj. unfold E.
  destruct (find_idx j pi); [|reflexivity]. rewrite nth_vadd by lia. reflexivity.
Qed.

Lemma fold_vadd_embed : forall l acc, length acc = k1 -> Forall (fun v => length v = k1) l ->
  fold_left vadd (map embed l) (embed acc) = embed (fold_left vadd l acc).
Proof.
  induction l as [|v l IH]; intros acc La Hf; simpl; [reflexivity|].
  inversion Hf; subst. rewrite vadd_embed by assumption. apply IH; [rewrite vadd_length; exact La | assumption].
Qed.

Lemma vsum_embed : forall l, Forall (fun v => length v = k1) l -> vsum k2 (map embed l) = embed (vsum k1 l).
Proof.
  intros l Hf. unfold vsum. rewrite <- embed_vzero. apply fold_vadd_embed; [apply vzero_length | exact Hf].
Qed.

Lemma vmax_embed : forall v, length v = k1 -> vmax (embed v) = vmax v.
Proof.
  intros v L. apply Nat.le_antisymm.
  - apply vmax_le. intros x. rewrite nth_embed. destruct (Nat.ltb x k2); [|lia].
    destruct (E_cases v x) as [Z|[i [_ Ei]]]; [lia | rewrite Ei; apply nth_le_vmax].
  - destruct v as [|c v']; [simpl in *; unfold vmax; simpl; lia|].
    set (v := c :: v') in *.
    assert (Hi : first_max v < k1) by (rewrite <- L; apply first_max_lt; discriminate).
    destruct (nth_error pi (first_max v)) as [j|] eqn:Ej; [|apply nth_error_None in Ej; lia].
    destruct (E_at v _ j Ej) as [Ev Hj].
    rewrite <- (first_max_spec v), <- Ev, <- (nth_embed_lt v j Hj). apply nth_le_vmax.
Qed.

Lemma cp_embed : forall v, length v = k1 -> 1 <= vmax v ->
  compute_parsimony (embed v) = embed (compute_parsimony v).
Proof.
  intros v L Hpos. apply embed_ext; [rewrite compute_parsimony_length; apply embed_length|].
  intros j Hj. rewrite nth_compute_parsimony, embed_length, vmax_embed by exact L.
  apply Nat.ltb_lt in Hj. rewrite Hj. apply Nat.ltb_lt in Hj. rewrite nth_embed_lt by exact Hj.
  unfold E. destruct (find_idx j pi) as [i|] eqn:F.
  - apply find_idx_some in F. assert (i < k1) by (apply nth_error_Some; congruence).
    rewrite nth_compute_parsimony, L. apply Nat.ltb_lt in H. rewrite H. reflexivity.
  - destruct (Nat.eqb 0 (vmax v)) eqn:Q; [apply Nat.eqb_eq in Q; lia | reflexivity].
Qed.

Lemma existsb_embed : forall (f : nat -> bool) s, f 0 = false -> length s = k1 ->
  existsb f (embed s) = existsb f s.
Proof.
  intros f s H0 L.
  destruct (existsb f s) eqn:Es.
  - apply existsb_exists in Es. destruct Es as [x [Hin Hx]].
    destruct (In_nth _ _ 0 Hin) as [i [Hi Ex]]. rewrite L in Hi.
    destruct (nth_error pi i) as [j|] eqn:Ej; [|apply nth_error_None in Ej; lia].
    destruct (E_at s i j Ej) as [Ev Hj].
    apply existsb_exists. exists x. split; [|exact Hx].
    rewrite <- Ex, <- Ev, <- (nth_embed_lt s j Hj). apply nth_In. rewrite embed_length. exact Hj.
  - destruct (existsb f (embed s)) eqn:Ee; [|reflexivity].
    apply existsb_exists in Ee. destruct Ee as [x [Hin Hx]].
    destruct (In_nth _ _ 0 Hin) as [j [Hj Ex]]. rewrite embed_length in Hj.
    rewrite nth_embed_lt in Ex by exact Hj.
    destruct (E_cases s j) as [Z|[i [Ei Ev]]].
    + rewrite Z in Ex. subst x. congruence.
    + assert (existsb f s = true); [|congruence].
      apply existsb_exists. exists x. split; [|exact Hx].
      rewrite <- Ex, Ev. apply nth_In. rewrite L. apply nth_error_Some. congruence.
Qed.

Lemma map_embed : forall (g : nat -> nat) s, g 0 = 0 -> map g (embed s) = embed (map g s).
Proof.
  intros g s H0. apply embed_ext; [rewrite map_length; apply embed_length|].
  intros j Hj. rewrite nth_map_01 by exact H0. rewrite nth_embed_lt by exact Hj.
  unfold E. destruct (find_idx j pi); [rewrite nth_map_01 by exact H0; reflexivity | exact H0].
Qed.

Lemma refine_embed : forall p c, length p = k1 -> length c = k1 ->
  refine (embed p) (embed c) = embed (refine p c).
Proof.
  intros p c Lp Lc. unfold refine.
  rewrite vadd_embed by assumption.
  rewrite existsb_embed by (auto; rewrite vadd_length; exact Lc).
  destruct (existsb _ (vadd c p)); [|reflexivity].
  apply map_embed. reflexivity.
Qed.

Lemma good_embed : forall v, good k1 v -> good k2 (embed v).
Proof.
  intros v [L B]. split; [apply embed_length|].
  intros x. rewrite nth_embed. destruct (Nat.ltb x k2); [|lia].
  destruct (E_cases v x) as [Z|[i [_ Ei]]]; [lia | rewrite Ei; apply B].
Qed.

(** * the up-pass *)
Variables tv1 tv2 : string -> vec.

Definition tips_emb (c : utree) : Prop :=
  forall n, In n (leaves c) -> vec_ok k1 (tv1 n) /\ tv2 n = embed (tv1 n).

Definition emb_res (r : vtree * nat) : vtree * nat := (vmap embed (fst r), snd r).

Definition up_ok (c : utree) : Prop :=
  uppass tv2 k2 c = emb_res (uppass tv1 k1 c) /\ vall (vec_ok k1) (fst (uppass tv1 k1 c)).

Lemma vall_root : forall (P : vec -> Prop) t, vall P t -> P (vroot t).
Proof. intros P [v ks] H. apply H. simpl. left. reflexivity. Qed.

Lemma up_node : forall n cm sl,
  Nat.eqb (length sl) 1 = false -> kids_of sl <> [] ->
  Forall (fun s => match s with Some (_, d) => up_ok d | None => True end) sl ->
  up_ok (UNode n cm sl).
Proof.
  intros n cm sl Hnt Hk Hf.
  assert (Hrs : kid_results tv2 k2 sl = map emb_res (kid_results tv1 k1 sl)).
  { clear Hnt Hk. induction Hf as [|[[e d]|] sl Hs Hf IH]; simpl; auto.
    destruct Hs as [Hs _]. rewrite Hs, IH. reflexivity. }
  assert (Hall : Forall (vall (vec_ok k1)) (map fst (kid_results tv1 k1 sl))).
  { clear Hnt Hk Hrs. induction Hf as [|[[e d]|] sl Hs Hf IH]; simpl; auto.
    constructor; [apply Hs | exact IH]. }
  set (rs := kid_results tv1 k1 sl) in *.
  assert (Hne : rs <> []) by (apply kid_results_nonempty; exact Hk).
  assert (Hvok : Forall (vec_ok k1) (kvecs rs)).
  { unfold kvecs. rewrite <- map_map. apply Forall_forall. intros v Hv.
    apply in_map_iff in Hv. destruct Hv as [t [Et Ht]]. subst v.
    rewrite Forall_forall in Hall. apply vall_root. apply Hall. exact Ht. }
  assert (Hlen : Forall (fun v => length v = k1) (kvecs rs)).
  { eapply Forall_impl; [|exact Hvok]. intros v [L _]. exact L. }
  assert (Hgood : Forall (good k1) (kvecs rs)).
  { eapply Forall_impl; [|exact Hvok]. intros v [L [B _]]. split; assumption. }
  assert (Hkv : kvecs (map emb_res rs) = map embed (kvecs rs)).
  { unfold kvecs. rewrite !map_map. apply map_ext. intros r. simpl. apply vroot_vmap. }
  assert (Hkne : kvecs rs <> []) by (unfold kvecs; destruct rs; [congruence | discriminate]).
  pose proof (vmax_pos k1 (kvecs rs) Hkne Hvok) as Hpos.
  split.
  - assert (Hsumc : sumc (map emb_res rs) = sumc rs).
    { unfold sumc. clear. induction rs; simpl; auto. }
    assert (Hfst : map fst (map emb_res rs) = map (vmap embed) (map fst rs)).
    { rewrite !map_map. reflexivity. }
    assert (Hg2 : Forall (good k2) (map embed (kvecs rs))).
    { apply Forall_forall. intros w Hw. apply in_map_iff in Hw. destruct Hw as [v [Ev Hv]]. subst w.
      apply good_embed. rewrite Forall_forall in Hgood. apply Hgood. exact Hv. }
    pose proof (miss_count k1 (kvecs rs) Hgood) as M1.
    pose proof (miss_count k2 (map embed (kvecs rs)) Hg2) as M2.
    rewrite map_length in M2.
    assert (Hvm : vmax (vsum k2 (map embed (kvecs rs))) = vmax (vsum k1 (kvecs rs))).
    { rewrite vsum_embed by exact Hlen. apply vmax_embed. apply vsum_length. }
    rewrite !uppass_unfold, Hnt. cbv zeta. rewrite Hrs. fold rs.
    rewrite !Hkv, Hsumc, Hfst.
    assert (Hcp : compute_parsimony (vsum k2 (map embed (kvecs rs))) = embed (compute_parsimony (vsum k1 (kvecs rs)))).
    { rewrite vsum_embed by exact Hlen. apply cp_embed; [apply vsum_length | exact Hpos]. }
    rewrite Hcp. unfold emb_res. simpl. f_equal. lia.
  - rewrite uppass_unfold, Hnt. cbv zeta. simpl fst. apply vall_node. split.
    + fold rs. apply cp_vec_ok_list; assumption.
    + exact Hall.
Qed.

Theorem uppass_embed : forall c, wf_sub c = true -> tips_emb c -> up_ok c.
Proof.
  induction c using utree_ind'. intros Hw Ht.
  pose proof (wf_sub_tip_leaf n c sl Hw) as Htl.
  destruct (is_leaf (UNode n c sl)) eqn:El.
  - assert (In n (leaves (UNode n c sl))).
    { simpl. unfold is_leaf, kids in El. simpl in El. destruct (kids_of sl); [left; reflexivity | discriminate]. }
    destruct (Ht n H0) as [Vok Ee]. split.
    + rewrite !uppass_unfold, Htl. unfold emb_res. simpl. rewrite Ee. reflexivity.
    + rewrite uppass_unfold, Htl. simpl. apply vall_node. split; [exact Vok | constructor].
  - apply up_node; auto.
    + unfold is_leaf, kids in El. simpl in El. destruct (kids_of sl); congruence.
    + pose proof (wf_sub_slots n c sl Hw) as Hws.
      apply Forall_forall. intros [[e d]|] Hin; auto.
      rewrite Forall_forall in H, Hws. apply (H _ Hin); [apply (Hws _ Hin)|].
      intros m Hm. apply Ht. eapply leaves_child; eauto.
Qed.

(** * the second passes *)
Lemma vec_ok_len : forall v, vec_ok k1 v -> length v = k1.
Proof. intros v [L _]. exact L. Qed.

Lemma Forall_vec_ok_len : forall l, Forall (vec_ok k1) l -> Forall (fun v => length v = k1) l.
Proof. intros l H. eapply Forall_impl; [|exact H]. apply vec_ok_len. Qed.

Lemma down_kids_embed : forall basem roots l s,
  Forall (vec_ok k1) basem -> Forall (vec_ok k1) roots ->
  (basem <> [] \/ 2 <= length roots) ->
  Forall (fun vt => forall up, vall (vec_ok k1) vt -> vec_ok k1 up ->
                    downpass false (embed up) k2 (vmap embed vt) = vmap embed (downpass false up k1 vt)) l ->
  Forall (vall (vec_ok k1)) l ->
  down_kids (map embed basem) (map embed roots) k2 s (map (vmap embed) l)
  = map (vmap embed) (down_kids basem roots k1 s l).
Proof.
  intros basem roots l s Hb Hr Hmany. revert s.
  induction l as [|c l IH]; intros s Hf Hg; simpl; [reflexivity|].
  inversion Hf; inversion Hg; subst.
  assert (Hne : basem ++ remove_nth s roots <> []).
  { destruct Hmany as [Q|Q].
    - intro R. apply app_eq_nil in R. destruct R. contradiction.
    - intro R. apply app_eq_nil in R. destruct R as [_ R]. revert R. apply remove_nth_nonempty. exact Q. }
  assert (Hok : Forall (vec_ok k1) (basem ++ remove_nth s roots)).
  { apply Forall_app. split; [exact Hb|].
    apply Forall_forall. intros v Hv. rewrite Forall_forall in Hr. apply Hr.
    clear -Hv. revert s Hv. induction roots as [|a r IHr]; intros s Hv; [destruct s; destruct Hv|].
    destruct s; simpl in Hv; [right; exact Hv|]. destruct Hv as [Q|Q]; [left; exact Q | right; eapply IHr; eauto]. }
  f_equal; [|apply IH; assumption].
  rewrite <- map_remove_nth, <- map_app, vsum_embed by (apply Forall_vec_ok_len; exact Hok).
  rewrite cp_embed by (try apply vsum_length; apply vmax_pos; assumption).
  apply H1; [assumption | apply cp_vec_ok_list; assumption].
Qed.

Theorem downpass_embed : forall vt isroot up,
  vall (vec_ok k1) vt -> (isroot = false -> vec_ok k1 up) ->
  (isroot = true -> vkids vt = [] \/ 2 <= length (vkids vt)) ->
  downpass isroot (embed up) k2 (vmap embed vt) = vmap embed (downpass isroot up k1 vt).
Proof.
  induction vt using vtree_ind'. intros isroot up Hg Hup Hroot.
  destruct ks as [|c0 ks]; [reflexivity|].
  apply vall_node in Hg. destruct Hg as [Hv Hk].
  assert (Hm : map (vmap embed) (c0 :: ks) <> []) by discriminate.
  change (vmap embed (VNode v (c0 :: ks))) with (VNode (embed v) (map (vmap embed) (c0 :: ks))).
  rewrite (downpass_node' isroot (embed up) k2 _ _ Hm).
  rewrite (downpass_node' isroot up k1 v (c0 :: ks)) by discriminate.
  set (roots := map vroot (c0 :: ks)).
  assert (Hroots : map vroot (map (vmap embed) (c0 :: ks)) = map embed roots).
  { unfold roots. rewrite !map_map. apply map_ext. intros t. apply vroot_vmap. }
  rewrite Hroots.
  set (basem := if isroot then [] else [up]).
  assert (Hbm : (if isroot then [] else [embed up]) = map embed basem) by (unfold basem; destruct isroot; reflexivity).
  rewrite Hbm.
  assert (Hrok : Forall (vec_ok k1) roots).
  { unfold roots. apply Forall_forall. intros w Hw. apply in_map_iff in Hw. destruct Hw as [t [Et Ht]]. subst w.
    apply vall_root. rewrite Forall_forall in Hk. apply Hk. exact Ht. }
  assert (Hbok : Forall (vec_ok k1) basem).
  { unfold basem. destruct isroot; [constructor|]. constructor; [apply Hup; reflexivity | constructor]. }
  assert (Hmany : basem <> [] \/ 2 <= length roots).
  { unfold basem. destruct isroot; [|left; discriminate]. right.
    destruct (Hroot eq_refl) as [Q|Q]; simpl in Q; [discriminate|].
    unfold roots. rewrite map_length. exact Q. }
  simpl vmap. f_equal.
  - destruct isroot; [reflexivity|].
    rewrite <- map_app, vsum_embed by (apply Forall_vec_ok_len; apply Forall_app; split; assumption).
    apply cp_embed; [apply vsum_length|]. apply vmax_pos; [discriminate|]. apply Forall_app. split; assumption.
  - apply down_kids_embed; auto.
    eapply Forall_impl; [|exact H]. intros t Ht up' Gt Gup. apply Ht; [exact Gt | intros _; exact Gup | discriminate].
Qed.

Definition haslen (v : vec) : Prop := length v = k1.

Theorem deltran_embed : forall vt par,
  vall haslen vt -> (forall p, par = Some p -> length p = k1) ->
  deltran (option_map embed par) (vmap embed vt) = vmap embed (deltran par vt).
Proof.
  induction vt using vtree_ind'. intros par Hg Hp.
  destruct ks as [|c0 ks]; [reflexivity|].
  apply vall_node in Hg. destruct Hg as [Hv Hk]. unfold haslen in Hv.
  change (vmap embed (VNode v (c0 :: ks))) with (VNode (embed v) (map (vmap embed) (c0 :: ks))).
  rewrite deltran_node by discriminate. rewrite (deltran_node par v (c0 :: ks)) by discriminate.
  assert (Hv' : match option_map embed par with Some p => refine p (embed v) | None => embed v end
                = embed (match par with Some p => refine p v | None => v end)).
  { destruct par as [p|]; simpl; [|reflexivity]. apply refine_embed; [apply Hp; reflexivity | exact Hv]. }
  rewrite Hv', vmap_node. f_equal.
  rewrite !map_map. apply map_ext_in. intros t Ht.
  rewrite Forall_forall in H, Hk.
  apply (H t Ht (Some _)); [apply Hk; exact Ht|].
  intros p Ep. inversion Ep; subst p.
  destruct par as [p0|]; [|exact Hv].
  unfold refine. destruct (existsb _ _); [rewrite map_length, vadd_length|]; exact Hv.
Qed.

Theorem acctran_embed : forall skip vt v',
  vall (vec_ok k1) vt -> length v' = k1 ->
  acctran skip (embed v') (vmap embed vt) = vmap embed (acctran skip v' vt).
Proof.
  induction vt using vtree_ind'. intros v' Hg Lv'.
  apply vall_node in Hg. destruct Hg as [Hv Hk].
  simpl. f_equal. rewrite !map_map. apply map_ext_in. intros t Ht.
  rewrite Forall_forall in H, Hk.
  rewrite is_vtip_vmap, vroot_vmap.
  assert (Lt : length (vroot t) = k1) by (apply vec_ok_len; apply vall_root; apply Hk; exact Ht).
  destruct (skip && is_vtip t).
  - apply (H t Ht); [apply Hk; exact Ht | exact Lt].
  - rewrite refine_embed by assumption.
    apply (H t Ht); [apply Hk; exact Ht|].
    unfold refine. destruct (existsb _ _); [rewrite map_length, vadd_length|]; exact Lt.
Qed.

(** * the whole reconstruction *)
Theorem parsimony_embed : forall skip a t,
  wf t = true -> 2 <= degree t -> tips_emb t ->
  parsimony skip tv2 k2 a t = emb_res (parsimony skip tv1 k1 a t).
Proof.
  intros skip a [n cm sl] Hwf Hd Ht.
  unfold degree in Hd. simpl in Hd.
  assert (Htip : is_tip (UNode n cm sl) = false) by (unfold is_tip, degree; simpl; apply Nat.eqb_neq; lia).
  assert (Hnt : Nat.eqb (length sl) 1 = false) by (apply Nat.eqb_neq; lia).
  pose proof (wf_slots n cm sl Hwf) as Hws.
  assert (Hkids : 2 <= length (kids_of sl)).
  { simpl in Hwf. apply andb_prop in Hwf. destruct Hwf as [Hu _]. apply Nat.eqb_eq in Hu.
    pose proof (length_up_kids sl). lia. }
  assert (Hk : kids_of sl <> []) by (destruct (kids_of sl); simpl in *; [lia | discriminate]).
  assert (Hup : up_ok (UNode n cm sl)).
  { apply up_node; auto. apply Forall_forall. intros [[e d]|] Hin; auto.
    rewrite Forall_forall in Hws. apply uppass_embed; [apply (Hws _ Hin)|].
    intros m Hm. apply Ht. eapply leaves_child; eauto. }
  destruct Hup as [Hu Hall].
  unfold parsimony. rewrite Htip, Hu.
  destruct (uppass tv1 k1 (UNode n cm sl)) as [u s] eqn:Eu. unfold emb_res. simpl fst in *. simpl snd.
  assert (Hku : 2 <= length (vkids u)).
  { assert (u = fst (uppass tv1 k1 (UNode n cm sl))) by (rewrite Eu; reflexivity).
    rewrite uppass_unfold, Hnt in H. cbv zeta in H. simpl in H. subst u. simpl.
    rewrite map_length, kid_results_length. exact Hkids. }
  f_equal.
  destruct a; simpl passes.
  - (* deltran *)
    assert (Hd0 : downpass true (embed []) k2 (vmap embed u) = vmap embed (downpass true [] k1 u)).
    { apply downpass_embed; [exact Hall | discriminate | intros _; right; exact Hku]. }
    assert (Hdd : downpass true [] k2 (vmap embed u) = downpass true (embed []) k2 (vmap embed u)).
    { destruct u as [v [|c0 ks]]; [reflexivity|]. reflexivity. }
    rewrite Hdd, Hd0.
    change (@None vec) with (option_map embed None) at 1.
    apply deltran_embed; [|discriminate].
    assert (Gu : vall (good k1) u).
    { intros w Hw. destruct (Hall w Hw) as [L [B _]]. split; assumption. }
    intros w Hw. apply (downpass_good k1 u true [] Gu w Hw).
  - rewrite vroot_vmap. apply acctran_embed; [exact Hall | apply vec_ok_len; apply vall_root; exact Hall].
  - assert (Hdd : downpass true [] k2 (vmap embed u) = downpass true (embed []) k2 (vmap embed u)).
    { destruct u as [v [|c0 ks]]; reflexivity. }
    rewrite Hdd. apply downpass_embed; [exact Hall | discriminate | intros _; right; exact Hku].
  - reflexivity.
Qed.

End Embed.
