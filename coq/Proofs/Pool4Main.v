(** Final statement forms for Properties/C11Pool4.v. *)
From Coq Require Import Bool Arith Lia List Permutation.
From GT Require Import Model.Pool Model.Pool2 Model.PoolPipe Model.PoolErr Model.PoolErrGuard
     Model.PoolCancel Model.PoolIds.
From GT Require Import Proofs.Pool Proofs.PoolLive Proofs.Pool2 Proofs.PoolPipe Proofs.PoolErr
     Proofs.PoolErrFirst Proofs.PoolErrGuard Proofs.PoolCancel Proofs.PoolIds.
Import ListNotations.

Local Arguments run2 {job res err}.
Local Arguments init2 {job res err}.
Local Arguments precvd {job res err} _.
Local Arguments pcaller_done {job res err} _.
Local Arguments perrs {job res err} _.
Local Arguments prun {job res err}.
Local Arguments pinit {job res err}.
Local Arguments abs2 {job res err}.
Local Arguments olist {job}.
Local Arguments efirst {job err} _.
Local Arguments erun {job err}.
Local Arguments einit {job err}.
Local Arguments efinished {job err} _.
Local Arguments grun {job err}.
Local Arguments krun {job res}.
Local Arguments kinit {job res}.
Local Arguments kfinished {job res} _.
Local Arguments iout {payload res} _.
Local Arguments irun {payload res}.
Local Arguments iinit {payload res}.
Local Arguments ifinished {payload res} _.

(** * (1) reader -> workers -> caller *)
Section M1.
  Variables (job res err : Type).
  Variable f : job -> res.
  Variable fails : job -> bool.
  Variable e_of : job -> err.

  Lemma pipe_lockstep on_fail done_on_exit cj cr (items : list job) e k sched :
    abs2 (prun f fails e_of on_fail done_on_exit cj cr sched (pinit items e k))
    = run2 f fails e_of on_fail done_on_exit cj cr sched (init2 (items ++ olist e) k).
  Proof. apply pipe_is_pool2. Qed.

  Lemma pipe_stop_end_to_end done_on_exit cj cr (items : list job) e k sched :
    (forall x, In x items -> fails x = false) -> (forall x, e = Some x -> fails x = true) ->
    1 <= k ->
    let s := prun f fails e_of Stop done_on_exit cj cr sched (pinit items e k) in
    pcaller_done s = true ->
    Permutation (precvd s) (map f items) /\ perrs s = map e_of (olist e).
  Proof. intros Hi He Hk. apply pipe_end_to_end; auto. Qed.

  Lemma pipe_error_reaches_caller done_on_exit cj cr (items : list job) x k sched :
    (forall y, In y items -> fails y = false) -> fails x = true -> 1 <= k ->
    let s := prun f fails e_of Stop done_on_exit cj cr sched (pinit items (Some x) k) in
    pcaller_done s = true ->
    Permutation (precvd s) (map f items) /\ perrs s = [e_of x].
  Proof.
    intros Hi Hx Hk. apply (pipe_end_to_end _ _ _ f fails e_of Stop done_on_exit cj cr items (Some x) k sched);
      auto. intros y E. injection E as <-. exact Hx.
  Qed.

  Lemma pipe_continue_end_to_end done_on_exit cj cr (items : list job) e k sched :
    1 <= k ->
    let s := prun f fails e_of Continue done_on_exit cj cr sched (pinit items e k) in
    pcaller_done s = true ->
    Permutation (precvd s) (map f (items ++ olist e))
    /\ Permutation (perrs s) (map e_of (filter fails (items ++ olist e))).
  Proof. intros Hk. apply pipe_end_to_end_continue; auto. Qed.

  Lemma pipe_no_deadlock on_fail cj cr (items : list job) e k sched :
    exists cont,
      pcaller_done (prun f fails e_of on_fail true cj cr cont
                      (prun f fails e_of on_fail true cj cr sched (pinit items e k))) = true.
  Proof. apply pipe_deadlock_free. left. reflexivity. Qed.
End M1.

Lemma pipe_example :
  let s := prun (fun j => 10 * j) (fun j => j =? 99) (fun j => 1000 + j) Stop true 1 0
                [0;3;0;4;0;3;4;3;0;4;3;1;2] (pinit [1;2] (Some 99) 2) in
  pcaller_done s = true /\ precvd s = [10; 20] /\ perrs s = [1099].
Proof. vm_compute. repeat split. Qed.

(** * (2) the first error is set and kept *)
Lemma mutex_first_error_set (job err : Type) (fails : job -> bool) (e_of : job -> err)
      (jobs : list job) n sched :
  1 <= n ->
  let s := erun fails e_of ByMutex sched (einit jobs n) in
  efinished s = true -> (exists j, In j jobs /\ fails j = true) ->
  exists j, In j jobs /\ fails j = true /\ efirst s = Some (e_of j).
Proof. apply first_error_set. Qed.

Lemma mutex_first_error_kept (job err : Type) (fails : job -> bool) (e_of : job -> err)
      (jobs : list job) n sched cont x :
  efirst (erun fails e_of ByMutex sched (einit jobs n)) = Some x ->
  efirst (erun fails e_of ByMutex cont (erun fails e_of ByMutex sched (einit jobs n))) = Some x.
Proof. apply first_error_kept. Qed.

(** * (3a) guard clause that returns with the mutex locked *)
Lemma guard_deadlocks (job err : Type) (fails : job -> bool) (e_of : job -> err)
      j1 j2 j3 (rest : list job) n cont :
  fails j1 = true -> fails j2 = true -> fails j3 = true -> 3 <= n ->
  efinished (grun fails e_of cont (grun fails e_of [0;0;0; 1;2;3; 1;1;1; 2;2]
                                        (einit (j1 :: j2 :: j3 :: rest) n))) = false.
Proof.
  intros F1 F2 F3 Hn. destruct n as [|[|[|n]]]; try lia. apply guard_clause_deadlocks; auto.
Qed.

Lemma guard_terminates_refuted :
  ~ (forall (fails : nat -> bool) (jobs : list nat) n sched,
       exists cont, efinished (grun fails (fun j => j) cont
                                    (grun fails (fun j => j) sched (einit jobs n))) = true).
Proof.
  intros H. destruct (H (fun _ => true) [1;2;3] 3 [0;0;0; 1;2;3; 1;1;1; 2;2]) as (cont & Hc).
  rewrite (guard_deadlocks nat nat (fun _ => true) (fun j => j) 1 2 3 [] 3 cont) in Hc; auto.
  discriminate.
Qed.

(** two failing workers are not enough to see it: both reach Done (the mutex stays locked) *)
Lemma guard_example_two :
  let s := grun (fun _ => true) (fun j => j) [0;0;0; 1;2; 1;1;1; 2;2] (einit [1;2] 2) in
  efinished s = true /\ efirst s = Some 1 /\ emutex _ _ s = true.
Proof. vm_compute. repeat split. Qed.

(** * (3b) cancellation *)
Lemma cancel_done_terminates (job res : Type) (f : job -> res) (jobs : list job) n sched :
  exists cont, kfinished (krun f true cont (krun f true sched (kinit jobs n))) = true.
Proof. apply cancel_with_done_terminates. reflexivity. Qed.

Lemma cancel_return_hangs (job res : Type) (f : job -> res) j (rest : list job) n cont :
  1 <= n ->
  kfinished (krun f false cont (krun f false [1; 0; 2] (kinit (j :: rest) n))) = false.
Proof. intros Hn. destruct n; [lia|]. apply cancel_without_done_hangs. Qed.

Lemma cancel_return_terminates_refuted :
  ~ (forall (jobs : list nat) n sched,
       exists cont, kfinished (krun (fun j => j) false cont
                                    (krun (fun j => j) false sched (kinit jobs n))) = true).
Proof.
  intros H. destruct (H [1] 1 [1;0;2]) as (cont & Hc).
  rewrite (cancel_return_hangs nat nat (fun j => j) 1 [] 1 cont) in Hc; auto. discriminate.
Qed.

Lemma cancel_example :
  let s := krun (fun j => 10 * j) true [0;0;0; 2;2; 1; 3; 2; 0; 2] (kinit [1;2;3] 2) in
  kfinished s = true /\ kout _ _ s = [10].
Proof. vm_compute. repeat split. Qed.

(** * (3c) result ids *)
Lemma own_id_results_labelled (payload res : Type) (f : payload -> res)
      (jobs : list (nat * payload)) n sched k r :
  In (k, r) (iout (irun f true sched (iinit jobs n))) ->
  exists j, In j jobs /\ k = fst j /\ r = f (snd j).
Proof. intros H. apply (results_labelled _ _ f jobs n sched (k, r) H). Qed.

Definition ids_swap_sched : list nat := [0;0;0;1;2;2;1;1;2;1;2].

Lemma shared_counter_example :
  let go own := irun (fun p : nat => p) own ids_swap_sched (iinit [(0,10);(1,20)] 2) in
  ifinished (go false) = true /\ iout (go false) = [(1, 10); (0, 20)]
  /\ ifinished (go true) = true /\ iout (go true) = [(0, 10); (1, 20)].
Proof. vm_compute. repeat split. Qed.

Lemma shared_counter_results_labelled_refuted :
  ~ (forall (jobs : list (nat * nat)) n sched k r,
       In (k, r) (iout (irun (fun p : nat => p) false sched (iinit jobs n))) ->
       exists j, In j jobs /\ k = fst j /\ r = snd j).
Proof.
  intros H. destruct (H [(0,10);(1,20)] 2 ids_swap_sched 1 10) as (j & Hj & Hk & Hr).
  - vm_compute. left. reflexivity.
  - simpl in Hj. destruct Hj as [<-|[<-|[]]]; simpl in *; discriminate.
Qed.
