(** C07 on rooted trees: the oracle functions [collapse_ok] / [resolve_ok] accept the model's output
    for the commands' default flags (the two root branches stay and are merged by [usplits]). *)
From Coq Require Import String ZArith QArith Bool Arith Lia List Permutation Sorted Setoid Morphisms.
From GT Require Import Base.UTree Spec.Obs Spec.Induced Spec.Contract Model.Reroot Model.Rand Spec.Unrooted
     Proofs.RerootBase Proofs.PruneBase Proofs.PairKeys Model.Prune Model.Collapse Proofs.PruneStep Proofs.PruneSub Proofs.PruneRoot
     Proofs.CollapseBase Proofs.CollapseSplits Proofs.CollapseExact Proofs.CollapseResolveBase Proofs.CollapseResolve Proofs.CollapseDepth
     Proofs.OracleDist Proofs.OracleSets Proofs.CollapseOracle Proofs.CollapseOracleFull Proofs.RootedUSplits.
From GT Require Proofs.USplits.
Import ListNotations.
Local Close Scope Q_scope.
Local Arguments n_up : simpl never.
Local Arguments leaves : simpl never.
Local Arguments wf_sub : simpl never.
Local Arguments no_single_sub : simpl never.

Notation keyA A := (fun p : einfo * utree => canon_side A (sset (leaves (snd p)))).

(** [usplits] of any tree whose root has two neighbours, when the keys are as in a rooted tree *)
Lemma usplits_two n cm e1 T1 e2 T2 A :
  tipset (UNode n cm [Some (e1, T1); Some (e2, T2)]) = A ->
  keyA A (e1, T1) = keyA A (e2, T2) ->
  NoDup (map (keyA A) ((e1, T1) :: branches T1 ++ branches T2)) ->
  usplits (UNode n cm [Some (e1, T1); Some (e2, T2)]) =
  merge_split (csplit A (e1, T1)) (csplit A (e2, T2)) :: map (csplit A) (branches T1) ++ map (csplit A) (branches T2).
Proof.
  intros EA Ek Hn. rewrite USplits.usplits_eq, EA, branch_splits_csplit.
  rewrite branches_unfold, !brs_cons_some. change (brs []) with (@nil (einfo * utree)). rewrite app_nil_r.
  simpl map. rewrite map_app. simpl map. apply foldsplits_rooted.
  - exact Ek.
  - revert Hn. simpl map. rewrite !map_app, !map_map. auto.
Qed.

Lemma merge_same_len_sup a b a' b' :
  slen a = slen a' -> slen b = slen b' -> ssup a = ssup a' -> ssup b = ssup b' ->
  same_len_sup (merge_split a b) (merge_split a' b') = true.
Proof.
  intros H1 H2 H3 H4. unfold same_len_sup, merge_split. simpl. rewrite H1, H2, H3, H4.
  now rewrite !qeqb_refl.
Qed.

(** generic acceptance: the expected list and the result list correspond one to one *)
Lemma collapse_ok_intro cr t g E G :
  wf g = true -> sset_eqb (Obs.ssort (leaves t)) (Obs.ssort (leaves g)) = true ->
  expected_after_collapse cr t = E -> usplits g = G ->
  NoDup (map sside E) -> NoDup (map sside G) -> length E = length G ->
  (forall x, In x E -> exists y, In y G /\ sside y = sside x /\ same_len_sup x y = true) ->
  (forall y, In y G -> exists x, In x E /\ sside x = sside y /\ same_len_sup x y = true) ->
  collapse_ok cr t g = None.
Proof.
  intros Hw Ht EE EG NE NG HL F1 F2. unfold collapse_ok. rewrite Hw, Ht, EE, EG. simpl negb. cbv iota.
  assert (S1 : splits_sub same_key E G = true).
  { apply splits_sub_intro; auto. intros x Hx. destruct (F1 x Hx) as [y [H1 [H2 _]]]. exists y. auto. }
  assert (S2 : splits_sub same_key G E = true).
  { apply splits_sub_intro; auto. intros y Hy. destruct (F2 y Hy) as [x [H1 [H2 _]]]. exists x. auto. }
  rewrite S1, S2. simpl negb. cbv iota.
  assert (S3 : splits_eq same_len_sup E G = true).
  { unfold splits_eq. rewrite !andb_true_iff. split; [split|].
    - now apply Nat.eqb_eq.
    - apply splits_sub_intro; auto.
    - apply splits_sub_intro; auto. }
  rewrite S3. reflexivity.
Qed.

(** * Collapse *)
Section RootedCollapse.
  Variable cr : crit.
  Variable s : einfo -> utree -> bool.
  Variables (n : string) (cm : list string) (e1 e2 : einfo) (c1 c2 : utree).
  Let t := UNode n cm [Some (e1, c1); Some (e2, c2)].
  Hypothesis Hw : wf t = true.
  Hypothesis Hs : no_single t = true.
  Hypothesis Hn : NoDup (leaves t).
  Hypothesis Hinner : is_tip c1 = false \/ is_tip c2 = false.
  Let A := tipset t.
  Let nA := length (tipset t).
  Notation sel := (fun (_ : nat) (e : einfo) (c : utree) => s e c).
  (** on the branches that are not root branches the criterion is the selection *)
  Hypothesis Hcrit : forall p, In p (branches c1 ++ branches c2) -> crit_holds nA cr (csplit A p) = s (fst p) (snd p).

  Let g := remove_edges false false sel t.

  Lemma rebuilt_props c k :
    wf_sub c = true ->
    wf_sub (rebuilt false sel c k) = true /\ Permutation (leaves (rebuilt false sel c k)) (leaves c) /\
    veq (map view (branches (rebuilt false sel c k))) (map view (filter (stays s) (branches c))).
  Proof.
    intros Hwc. unfold rebuilt. destruct (Collapse.proc true false sel c true k 0) as [b a] eqn:Ep.
    destruct (proc_basic true false sel c true _ _ _ _ Hwc Ep) as [B1 [B2 [B3 B4]]].
    split; [|split].
    - rewrite wf_sub_unfold, n_up_app, B1, B2, B3, (wf_sub_up c Hwc). reflexivity.
    - apply rebuilt_leaves; auto.
    - rewrite branches_unfold. generalize (proc_exact false s c k 0 b a Hwc Ep).
      rewrite (map_ext (view_adj false s) view (view_adj_false s)). auto.
  Qed.

  Lemma adj_false k e c : adj false sel k e c = e.
  Proof. unfold adj. now rewrite andb_false_r. Qed.

  Theorem rooted_collapse_oracle_accepts : collapse_ok cr t g = None.
  Proof.
    destruct (rooted_parts n cm e1 e2 c1 c2 Hw Hs Hinner) as [Hw1 [Hw2 [Hs1 [Hs2 EL]]]].
    assert (Eg : g = UNode n cm [Some (e1, rebuilt false sel c1 1); Some (e2, rebuilt false sel c2 (S (1 + span c1)))]).
    { unfold g, t. rewrite remove_edges_rooted by auto. now rewrite !adj_false. }
    set (T1 := rebuilt false sel c1 1) in *. set (T2 := rebuilt false sel c2 (S (1 + span c1))) in *.
    destruct (rebuilt_props c1 1 Hw1) as [WT1 [LT1 VT1]]. destruct (rebuilt_props c2 (S (1 + span c1)) Hw2) as [WT2 [LT2 VT2]].
    fold T1 in WT1, LT1, VT1. fold T2 in WT2, LT2, VT2.
    assert (Hwg : wf g = true) by (unfold g; now apply remove_edges_wf).
    assert (Htg : sset_eqb (Obs.ssort (leaves t)) (Obs.ssort (leaves g)) = true) by (unfold g; now apply collapse_tips).
    assert (HLg : Permutation (leaves g) (leaves t)) by (unfold g; now apply remove_edges_leaves).
    assert (HAg : tipset g = A) by (apply tipset_perm; auto).
    set (keyv := fun v : einfo * list string => canon_side A (sset (snd v))).
    assert (Hkv : forall x y, vrel x y -> keyv x = keyv y).
    { intros x y [_ P]. unfold keyv. now rewrite (sset_perm _ _ P). }
    (* keys in t *)
    generalize (rooted_keys_nodup n cm e1 e2 c1 c2 Hw Hs Hn Hinner). fold t. fold A. intros Nt.
    assert (Nt' : NoDup (map (keyA A) ((e1, c1) :: filter (stays s) (branches c1) ++ filter (stays s) (branches c2)))).
    { simpl map in *. inversion Nt as [|? ? H1 H2]; subst. constructor.
      - intros H. apply H1. rewrite map_app in *. apply in_app_or in H. apply in_or_app.
        destruct H as [H|H]; [left|right]; apply in_map_iff in H; destruct H as [p [E Hp]]; apply filter_In in Hp;
          apply in_map_iff; exists p; tauto.
      - rewrite map_app in *. apply NoDup_app_intro.
        + apply NoDup_map_filter'. now apply NoDup_app_l in H2.
        + apply NoDup_map_filter'. now apply NoDup_app_r in H2.
        + intros x X1 X2. apply (NoDup_app_disjoint _ _ x H2).
          * apply in_map_iff in X1. destruct X1 as [p [E Hp]]. apply filter_In in Hp. apply in_map_iff. exists p. tauto.
          * apply in_map_iff in X2. destruct X2 as [p [E Hp]]. apply filter_In in Hp. apply in_map_iff. exists p. tauto. }
    (* keys in g *)
    assert (K1 : canon_side A (sset (leaves T1)) = canon_side A (sset (leaves c1))) by (now rewrite (sset_perm _ _ LT1)).
    assert (K2 : canon_side A (sset (leaves T2)) = canon_side A (sset (leaves c2))) by (now rewrite (sset_perm _ _ LT2)).
    assert (P1 : Permutation (map (keyA A) (branches T1)) (map (keyA A) (filter (stays s) (branches c1)))).
    { generalize (PermR_map_perm vrel keyv _ _ Hkv VT1). now rewrite !map_map. }
    assert (P2 : Permutation (map (keyA A) (branches T2)) (map (keyA A) (filter (stays s) (branches c2)))).
    { generalize (PermR_map_perm vrel keyv _ _ Hkv VT2). now rewrite !map_map. }
    assert (Ng : NoDup (map (keyA A) ((e1, T1) :: branches T1 ++ branches T2))).
    { eapply Permutation_NoDup; [|exact Nt']. simpl map. rewrite K1, !map_app. constructor.
      symmetry. now apply Permutation_app. }
    assert (Ug : usplits g = merge_split (csplit A (e1, T1)) (csplit A (e2, T2)) ::
                             map (csplit A) (branches T1) ++ map (csplit A) (branches T2)).
    { rewrite Eg. apply usplits_two; auto.
      - rewrite <- Eg. exact HAg.
      - simpl. rewrite K1, K2. generalize (root_key_shared n cm e1 e2 c1 c2 Hw Hs Hn Hinner). simpl. auto. }
    assert (Ut := rooted_usplits n cm e1 e2 c1 c2 Hw Hs Hn Hinner). fold t in Ut. fold A in Ut.
    set (M := root_split n cm e1 e2 c1 c2) in *.
    assert (EX : expected_after_collapse cr t =
                 M :: map (csplit A) (filter (stays s) (branches c1)) ++ map (csplit A) (filter (stays s) (branches c2))).
    { assert (RM : is_root_split t M = true) by apply root_split_is_root.
      assert (NR : forall p, In p (branches c1 ++ branches c2) -> is_root_split t (csplit A p) = false).
      { intros p Hp. exact (nonroot_not_root n cm e1 e2 c1 c2 Hw Hs Hn Hinner p Hp). }
      unfold expected_after_collapse. rewrite Ut. simpl filter.
      rewrite RM. rewrite orb_true_r. simpl.
      f_equal. rewrite filter_app, !filter_map_comm. f_equal; f_equal; apply filter_ext_in; intros p Hp.
      - assert (Hp' : In p (branches c1 ++ branches c2)) by (apply in_or_app; auto).
        fold nA. rewrite (Hcrit p Hp'), (NR p Hp').
        unfold csplit at 1. simpl stip.
        assert (Wp : wf_sub (snd p) = true).
        { destruct c1 as [n1 cm1 sl1]. destruct p as [e c]. destruct (branches_sub (UNode n1 cm1 sl1) e c (wf_sub_kids _ Hw1) Hp); auto. }
        rewrite (isleaf_tip _ Wp). unfold stays, coll. destruct (s (fst p) (snd p)), (is_tip (snd p)); reflexivity.
      - assert (Hp' : In p (branches c1 ++ branches c2)) by (apply in_or_app; auto).
        fold nA. rewrite (Hcrit p Hp'), (NR p Hp').
        unfold csplit at 1. simpl stip.
        assert (Wp : wf_sub (snd p) = true).
        { destruct c2 as [n2 cm2 sl2]. destruct p as [e c]. destruct (branches_sub (UNode n2 cm2 sl2) e c (wf_sub_kids _ Hw2) Hp); auto. }
        rewrite (isleaf_tip _ Wp). unfold stays, coll. destruct (s (fst p) (snd p)), (is_tip (snd p)); reflexivity. }
    set (M' := merge_split (csplit A (e1, T1)) (csplit A (e2, T2))) in *.
    assert (EM : sside M' = sside M) by (unfold M', M, root_split; simpl; exact K1).
    assert (SM : same_len_sup M M' = true) by (unfold M, M', root_split; apply merge_same_len_sup; reflexivity).
    (* tails *)
    assert (TF : forall F BT, veq (map view BT) (map view F) ->
                              (forall x, In x (map (csplit A) F) -> exists y, In y (map (csplit A) BT) /\ sside y = sside x /\ same_len_sup x y = true) /\
                              (forall y, In y (map (csplit A) BT) -> exists x, In x (map (csplit A) F) /\ sside x = sside y /\ same_len_sup x y = true)).
    { intros F BT HV. split.
      - intros x Hx. apply in_map_iff in Hx. destruct Hx as [p [<- Hp]].
        assert (Hin : In (view p) (map view F)) by now apply in_map.
        symmetry in HV. destruct (PermR_In _ _ vrel_Equivalence _ _ HV _ Hin) as [v [Hv [V1 V2]]].
        apply in_map_iff in Hv. destruct Hv as [p' [<- Hp']].
        exists (csplit A p'). split; [now apply in_map|]. simpl in V1, V2. split.
        + unfold csplit. simpl. now rewrite (sset_perm _ _ V2).
        + unfold same_len_sup, csplit. simpl. rewrite <- V1. now rewrite !qeqb_refl.
      - intros y Hy. apply in_map_iff in Hy. destruct Hy as [p' [<- Hp']].
        assert (Hin : In (view p') (map view BT)) by now apply in_map.
        destruct (PermR_In _ _ vrel_Equivalence _ _ HV _ Hin) as [v [Hv [V1 V2]]].
        apply in_map_iff in Hv. destruct Hv as [p [<- Hp]].
        exists (csplit A p). split; [now apply in_map|]. simpl in V1, V2. split.
        + unfold csplit. simpl. now rewrite (sset_perm _ _ V2).
        + unfold same_len_sup, csplit. simpl. rewrite V1. now rewrite !qeqb_refl. }
    destruct (TF _ _ VT1) as [F1a F1b]. destruct (TF _ _ VT2) as [F2a F2b].
    apply (collapse_ok_intro cr t g _ _ Hwg Htg EX Ug).
    - simpl map. rewrite map_app, !map_map. revert Nt'. simpl map. rewrite map_app. auto.
    - simpl map. rewrite map_app, !map_map. revert Ng. simpl map. rewrite map_app. auto.
    - simpl. rewrite !app_length, !map_length. f_equal.
      apply PermR_length in VT1. apply PermR_length in VT2. rewrite !map_length in VT1, VT2. lia.
    - intros x [<-|Hx]; [exists M'; split; [now left|split; auto]|].
      apply in_app_or in Hx. destruct Hx as [Hx|Hx].
      + destruct (F1a x Hx) as [y [H1 H2]]. exists y. split; auto. right. apply in_or_app. auto.
      + destruct (F2a x Hx) as [y [H1 H2]]. exists y. split; auto. right. apply in_or_app. auto.
    - intros y [<-|Hy]; [exists M; split; [now left|split; auto]|].
      apply in_app_or in Hy. destruct Hy as [Hy|Hy].
      + destruct (F1b y Hy) as [x [H1 H2]]. exists x. split; auto. right. apply in_or_app. auto.
      + destruct (F2b y Hy) as [x [H1 H2]]. exists x. split; auto. right. apply in_or_app. auto.
  Qed.
End RootedCollapse.

(** the depth criterion read on the split of a branch is the model's selection *)
Lemma depth_crit_match mn mx t e c :
  wf t = true -> 2 <= degree t -> NoDup (leaves t) -> In (e, c) (branches t) ->
  crit_holds (length (tipset t)) (CDepth mn mx) (csplit (tipset t) (e, c)) = sel_depth t mn mx c.
Proof.
  intros Hw Hd Hn Hp.
  rewrite (sel_depth_light mn mx t e c Hw Hd Hp). cbv zeta.
  unfold crit_holds, csplit. simpl sside.
  destruct (clade_proper t e c Hw Hd Hp) as [Hwc [L1 L2]].
  assert (Hsub : forall x, In x (sset (leaves c)) -> In x (tipset t)).
  { intros x Hx. unfold tipset. rewrite sset_In in *. exact (branches_incl t (e, c) Hp x Hx). }
  assert (NDc : NoDup (leaves c)) by exact (branches_nodup t (e, c) Hn Hp).
  assert (ES : length (sset (leaves c)) = length (leaves c)).
  { rewrite sset_ssort by auto. symmetry. apply Permutation_length, ssort_perm. }
  assert (EA : length (tipset t) = length (leaves t)).
  { unfold tipset. rewrite sset_ssort by auto. symmetry. apply Permutation_length, ssort_perm. }
  assert (EK : Nat.min (length (canon_side (tipset t) (sset (leaves c))))
                       (length (tipset t) - length (canon_side (tipset t) (sset (leaves c)))) =
               Nat.min (length (leaves t) - length (leaves c)) (length (leaves c))).
  { unfold canon_side. destruct (tipset t) as [|m r] eqn:ET.
    - simpl in EA. lia.
    - rewrite <- ET in *. destruct (smem m (sset (leaves c))).
      + rewrite sdiff_length; auto; try apply sset_canon. rewrite ES, EA. lia.
      + rewrite ES, EA. lia. }
  rewrite EK. reflexivity.
Qed.

(** the three commands on rooted trees, default flags *)
Theorem rooted_collapse_len_oracle l t :
  rooted_dom t -> collapse_ok (CLen l) t (collapse_len l false false t) = None.
Proof.
  intros [Hw [Hs [Hn [n [cm [e1 [c1 [e2 [c2 [-> Hi]]]]]]]]]]. unfold collapse_len.
  apply (rooted_collapse_oracle_accepts (CLen l) (fun e _ => sel_len l e)); auto.
Qed.

Theorem rooted_collapse_sup_oracle x t :
  rooted_dom t -> collapse_ok (CSup x) t (collapse_sup x false t) = None.
Proof.
  intros [Hw [Hs [Hn [n [cm [e1 [c1 [e2 [c2 [-> Hi]]]]]]]]]]. unfold collapse_sup.
  apply (rooted_collapse_oracle_accepts (CSup x) (fun e _ => sel_sup x e)); auto.
Qed.

Theorem rooted_collapse_depth_oracle mn mx t :
  rooted_dom t ->
  exists g, collapse_depth mn mx false false t = Ok g /\ collapse_ok (CDepth mn mx) t g = None.
Proof.
  intros [Hw [Hs [Hn [n [cm [e1 [c1 [e2 [c2 [-> Hi]]]]]]]]]].
  set (t := UNode n cm [Some (e1, c1); Some (e2, c2)]) in *.
  assert (Hd : 2 <= degree t) by (unfold t, degree; simpl; lia).
  rewrite collapse_depth_ok by auto. eexists. split; [reflexivity|].
  apply (rooted_collapse_oracle_accepts (CDepth mn mx) (fun _ c => sel_depth t mn mx c)); auto.
  intros [e c] Hp. simpl fst. simpl snd. apply depth_crit_match; auto.
  unfold t. rewrite branches_unfold, !brs_cons_some. change (brs []) with (@nil (einfo * utree)). rewrite app_nil_r.
  right. apply in_app_or in Hp. apply in_or_app. destruct Hp; [left|right; now right]; auto.
Qed.

(** * Resolve *)
Lemma nontip_two_leaves c : wf_sub c = true -> no_single_sub c = true -> is_tip c = false -> 2 <= length (leaves c).
Proof.
  intros Hw Hs Ht. destruct (nontip_leaves c Hw Ht) as [_ EL]. rewrite EL.
  generalize (wf_sub_up c Hw) (nss_degree c Hs). unfold degree, is_tip, degree in *. apply Nat.eqb_neq in Ht.
  intros Hu Hd. generalize (length_slots (uslots c)). rewrite Hu. intros El.
  destruct (kids_of (uslots c)) as [|p1 [|p2 r]]; simpl in El; try lia.
  rewrite !kleaves_cons, !app_length.
  generalize (leaves_nonempty (snd p1)) (leaves_nonempty (snd p2)).
  destruct (leaves (snd p1)), (leaves (snd p2)); simpl; try congruence; intros; lia.
Qed.

Lemma tip_one_leaf c : wf_sub c = true -> is_tip c = true -> length (leaves c) = 1.
Proof.
  intros Hw Ht. generalize (wf_sub_up c Hw). destruct c as [n cm sl]. unfold is_tip, degree in Ht. simpl in *.
  apply Nat.eqb_eq in Ht. intros Hu. generalize (length_slots sl). rewrite Hu, Ht. intros E.
  rewrite leaves_unfold. destruct (kids_of sl); [reflexivity|simpl in E; lia].
Qed.

Lemma resolve_rooted_shape n cm e1 c1 e2 c2 cs :
  exists cs1 cs2,
    resolve (UNode n cm [Some (e1, c1); Some (e2, c2)]) cs =
    UNode n cm [Some (e1, resolve c1 cs1); Some (e2, resolve c2 cs2)].
Proof.
  rewrite resolve_eq. simpl rgo. rewrite resolve_here_small by (simpl; lia). eauto.
Qed.

Theorem rooted_resolve_oracle_accepts t cs : rooted_dom t -> resolve_ok t (resolve t cs) = None.
Proof.
  intros [Hw [Hs [Hn [n [cm [e1 [c1 [e2 [c2 [Et Hi]]]]]]]]]].
  assert (HL : Permutation (leaves (resolve t cs)) (leaves t)) by (apply resolve_leaves; auto).
  assert (Hwg : wf (resolve t cs) = true) by (apply resolve_wf; auto).
  assert (Hsg : no_single (resolve t cs) = true) by (apply resolve_no_single; auto).
  assert (Hng : NoDup (leaves (resolve t cs))) by (eapply Permutation_NoDup; [symmetry; exact HL|auto]).
  assert (Hbin : Forall (fun x => degree x <= 3) (nodes (resolve t cs))) by (apply resolve_binary; auto).
  assert (Htg : sset_eqb (Obs.ssort (leaves t)) (Obs.ssort (leaves (resolve t cs))) = true) by (now apply resolve_tips).
  assert (Hmg : matrix_eqb (dist_matrix len0 t) (dist_matrix len0 (resolve t cs)) = true) by (now apply resolve_matrix).
  assert (HA : tipset (resolve t cs) = tipset t) by (apply tipset_perm; auto).
  subst t. destruct (resolve_rooted_shape n cm e1 c1 e2 c2 cs) as [cs1 [cs2 Eg]].
  set (t := UNode n cm [Some (e1, c1); Some (e2, c2)]) in *.
  set (c1' := resolve c1 cs1) in *. set (c2' := resolve c2 cs2) in *.
  set (g := resolve t cs) in *. set (A := tipset t) in *.
  destruct (rooted_parts n cm e1 e2 c1 c2 Hw Hs Hi) as [Hw1 [Hw2 [Hs1 [Hs2 EL]]]].
  destruct (resolve_sub c1 cs1 Hw1) as [W1 [_ [L1 [_ [_ [nw1 [N1 V1]]]]]]].
  destruct (resolve_sub c2 cs2 Hw2) as [W2 [_ [L2 [_ [_ [nw2 [N2 V2]]]]]]].
  fold c1' in W1, L1, V1. fold c2' in W2, L2, V2.
  assert (Hig : is_tip c1' = false \/ is_tip c2' = false).
  { destruct Hi as [Hi|Hi]; [left|right].
    - destruct (is_tip c1') eqn:E; auto. generalize (tip_one_leaf c1' W1 E) (nontip_two_leaves c1 Hw1 Hs1 Hi).
      rewrite (Permutation_length L1). lia.
    - destruct (is_tip c2') eqn:E; auto. generalize (tip_one_leaf c2' W2 E) (nontip_two_leaves c2 Hw2 Hs2 Hi).
      rewrite (Permutation_length L2). lia. }
  rewrite Eg in Hwg, Hsg, Hng, HA.
  assert (Ut := rooted_usplits n cm e1 e2 c1 c2 Hw Hs Hn Hi). fold t in Ut. fold A in Ut.
  assert (Ug := rooted_usplits n cm e1 e2 c1' c2' Hwg Hsg Hng Hig). rewrite HA in Ug. rewrite <- Eg in Ug.
  assert (Nt := rooted_keys_nodup n cm e1 e2 c1 c2 Hw Hs Hn Hi). fold t in Nt. fold A in Nt.
  assert (Ngk := rooted_keys_nodup n cm e1 e2 c1' c2' Hwg Hsg Hng Hig). rewrite HA in Ngk.
  set (M := root_split n cm e1 e2 c1 c2) in *. set (M' := root_split n cm e1 e2 c1' c2') in *.
  assert (K1 : canon_side A (sset (leaves c1')) = canon_side A (sset (leaves c1))) by (now rewrite (sset_perm _ _ L1)).
  assert (EM : sside M' = sside M).
  { unfold M', M, root_split. simpl. rewrite HA. exact K1. }
  assert (SM : same_len_sup M M' = true).
  { unfold M, M', root_split. apply merge_same_len_sup; reflexivity. }
  assert (NX : NoDup (map sside (M :: map (csplit A) (branches c1) ++ map (csplit A) (branches c2)))).
  { simpl map. rewrite map_app, !map_map. revert Nt. simpl map. rewrite map_app. auto. }
  assert (NY : NoDup (map sside (M' :: map (csplit A) (branches c1') ++ map (csplit A) (branches c2')))).
  { simpl map. rewrite map_app, !map_map. revert Ngk. simpl map. rewrite map_app. unfold M', root_split. simpl. rewrite HA. auto. }
  (* tails *)
  assert (TF : forall B B' nw, Forall is_new nw -> veq2 (map view2 B') (map view2 B ++ nw) ->
              (forall x, In x (map (csplit A) B) -> exists y, In y (map (csplit A) B') /\ sside y = sside x /\ same_len_sup x y = true) /\
              (forall y, In y (map (csplit A) B') ->
                         (exists x, In x (map (csplit A) B) /\ sside x = sside y) \/
                         (qeqb (slen y) 0%Q && qeqb (ssup y) nilv = true))).
  { intros B B' nw Hnw HV. split.
    - intros x Hx. apply in_map_iff in Hx. destruct Hx as [p [<- Hp]].
      assert (Hin : In (view2 p) (map view2 B ++ nw)) by (apply in_or_app; left; now apply in_map).
      symmetry in HV. destruct (PermR_In _ _ vrel2_Equivalence _ _ HV _ Hin) as [v [Hv [X1 X2]]].
      apply in_map_iff in Hv. destruct Hv as [p' [<- Hp']].
      exists (csplit A p'). split; [now apply in_map|]. unfold view2 in X1, X2. simpl in X1, X2. split.
      + unfold csplit. simpl. now rewrite (sset_perm _ _ X2).
      + unfold same_len_sup, csplit. simpl. unfold edata in X1. injection X1 as E1 E2 E3.
        rewrite E1, E2. now rewrite !qeqb_refl.
    - intros y Hy. apply in_map_iff in Hy. destruct Hy as [p' [<- Hp']].
      assert (Hin : In (view2 p') (map view2 B')) by now apply in_map.
      destruct (PermR_In _ _ vrel2_Equivalence _ _ HV _ Hin) as [v [Hv [X1 X2]]].
      apply in_app_or in Hv. destruct Hv as [Hv|Hv].
      + left. apply in_map_iff in Hv. destruct Hv as [p [<- Hp]]. exists (csplit A p). split; [now apply in_map|].
        unfold view2 in X2. simpl in X2. unfold csplit. simpl. now rewrite (sset_perm _ _ X2).
      + right. rewrite Forall_forall in Hnw. specialize (Hnw v Hv). unfold is_new in Hnw.
        unfold view2 in X1. simpl in X1. rewrite Hnw in X1. unfold edata in X1. injection X1 as E1 E2 E3.
        unfold csplit. simpl slen. simpl ssup. rewrite E1, E2. reflexivity. }
  destruct (TF _ _ _ N1 V1) as [F1a F1b]. destruct (TF _ _ _ N2 V2) as [F2a F2b].
  unfold resolve_ok. fold g. rewrite <- Eg in Hwg. rewrite Hwg, Htg. simpl negb. cbv iota.
  assert (Bin : binary g = true).
  { unfold binary. rewrite <- Eg in Hsg. rewrite Hsg.
    assert (Hdg : degree g = 2) by (rewrite Eg; reflexivity). rewrite Hdg. change (Nat.leb 2 2) with true. rewrite !andb_true_r.
    apply (Forall_forallb (fun x => degree x <= 3)); [intros x Hx; now apply Nat.leb_le|auto]. }
  rewrite Bin. simpl negb. cbv iota.
  assert (S1 : splits_sub same_len_sup (usplits t) (usplits g) = true).
  { rewrite Ut, Ug. apply splits_sub_intro; auto.
    intros x [<-|Hx]; [exists M'; split; [now left|auto]|].
    apply in_app_or in Hx. destruct Hx as [Hx|Hx].
    - destruct (F1a x Hx) as [y [H1 H2]]. exists y. split; auto. right. apply in_or_app. auto.
    - destruct (F2a x Hx) as [y [H1 H2]]. exists y. split; auto. right. apply in_or_app. auto. }
  rewrite S1. simpl negb. cbv iota.
  assert (S2 : forallb (fun sp => qeqb (slen sp) 0%Q && qeqb (ssup sp) nilv) (added_splits t g) = true).
  { apply forallb_forall. intros sp Hsp. unfold added_splits in Hsp. apply filter_In in Hsp.
    destruct Hsp as [Hsp Hnone]. rewrite Ug in Hsp. rewrite Ut in Hnone.
    assert (Hex : forall x, In x (M :: map (csplit A) (branches c1) ++ map (csplit A) (branches c2)) -> sside x = sside sp -> False).
    { intros x Hx Ek. rewrite <- Ek, (find_split_in _ x NX Hx) in Hnone. discriminate. }
    destruct Hsp as [<-|Hsp]; [exfalso; apply (Hex M); [now left|now symmetry]|].
    apply in_app_or in Hsp. destruct Hsp as [Hsp|Hsp].
    - destruct (F1b sp Hsp) as [[x [Hx Ek]]|Hz]; auto. exfalso. apply (Hex x); auto. right. apply in_or_app. auto.
    - destruct (F2b sp Hsp) as [[x [Hx Ek]]|Hz]; auto. exfalso. apply (Hex x); auto. right. apply in_or_app. auto. }
  rewrite S2. simpl negb. cbv iota. rewrite Hmg. reflexivity.
Qed.

(** * removeRoot = true on a rooted tree *)
(** when neither root branch is a selected inner branch, removeRoot changes nothing *)
Theorem remove_edges_rooted_rr rt s n cm e1 c1 e2 c2 :
  wf (UNode n cm [Some (e1, c1); Some (e2, c2)]) = true ->
  no_single (UNode n cm [Some (e1, c1); Some (e2, c2)]) = true ->
  stays s (e1, c1) = true -> stays s (e2, c2) = true ->
  remove_edges true rt (fun _ e c => s e c) (UNode n cm [Some (e1, c1); Some (e2, c2)]) =
  remove_edges false rt (fun _ e c => s e c) (UNode n cm [Some (e1, c1); Some (e2, c2)]).
Proof.
  intros Hw Hs S1 S2. rewrite remove_edges_rooted by auto.
  unfold remove_edges. rewrite proc_eq, !proc_go_some. cbv zeta.
  rewrite decide_true. unfold stays in S1, S2. apply negb_true_iff in S1, S2. rewrite S1.
  unfold rebuilt. destruct (Collapse.proc true rt (fun _ e c => s e c) c1 true 1 0) as [b1 a1].
  rewrite !proc_go_some. cbv zeta. rewrite decide_true, S2.
  cbn [Nat.add]. destruct (Collapse.proc true rt (fun _ e c => s e c) c2 true (S (S (span c1))) 0) as [b2 a2].
  simpl. reflexivity.
Qed.

(** removeRoot = true on a rooted tree when a root branch IS contracted: no two branches of the result
    share a bipartition any more, so [usplits] of the result lists one split per branch, each with
    the length and support of that branch (nothing is merged) *)
Theorem rooted_rr_usplits s n cm e1 c1 e2 c2 :
  wf (UNode n cm [Some (e1, c1); Some (e2, c2)]) = true ->
  no_single (UNode n cm [Some (e1, c1); Some (e2, c2)]) = true ->
  NoDup (leaves (UNode n cm [Some (e1, c1); Some (e2, c2)])) ->
  is_tip c1 = false \/ is_tip c2 = false ->
  stays s (e1, c1) = false \/ stays s (e2, c2) = false ->
  let t := UNode n cm [Some (e1, c1); Some (e2, c2)] in
  let g := remove_edges true false (fun _ e c => s e c) t in
  usplits g = map (csplit (tipset t)) (branches g) /\
  veq (map view (branches g)) (map view (filter (stays s) (branches t))).
Proof.
  intros Hw Hs Hn Hi Hst t g.
  assert (HV : veq (map view (branches g)) (map view (filter (stays s) (branches t)))).
  { unfold g. generalize (remove_edges_exact false s t Hw).
    rewrite (map_ext (view_adj false s) view (view_adj_false s)). auto. }
  split; auto.
  assert (HL : Permutation (leaves g) (leaves t)) by (unfold g; now apply remove_edges_leaves).
  assert (HA : tipset g = tipset t) by (apply tipset_perm; auto).
  set (A := tipset t) in *.
  set (keyv := fun v : einfo * list string => canon_side A (sset (snd v))).
  assert (Hkv : forall x y, vrel x y -> keyv x = keyv y).
  { intros x y [_ P]. unfold keyv. now rewrite (sset_perm _ _ P). }
  generalize (rooted_keys_nodup n cm e1 e2 c1 c2 Hw Hs Hn Hi). fold t. fold A. intros Nt.
  generalize (root_key_shared n cm e1 e2 c1 c2 Hw Hs Hn Hi). fold t. fold A. cbv beta. simpl snd. intros Ek.
  assert (NF : NoDup (map (keyA A) (filter (stays s) (branches t)))).
  { unfold t. rewrite branches_unfold, !brs_cons_some. change (brs []) with (@nil (einfo * utree)). rewrite app_nil_r.
    simpl map in Nt. inversion Nt as [|? ? N1 N2]; subst. rewrite map_app in N1, N2.
    assert (F1 : NoDup (map (keyA A) (filter (stays s) (branches c1)))) by (apply NoDup_map_filter'; now apply NoDup_app_l in N2).
    assert (F2 : NoDup (map (keyA A) (filter (stays s) (branches c2)))) by (apply NoDup_map_filter'; now apply NoDup_app_r in N2).
    assert (D12 : forall x, In x (map (keyA A) (filter (stays s) (branches c1))) -> In x (map (keyA A) (filter (stays s) (branches c2))) -> False).
    { intros x X1 X2. apply (NoDup_app_disjoint _ _ x N2).
      - apply in_map_iff in X1. destruct X1 as [p [E Hp]]. apply filter_In in Hp. apply in_map_iff. exists p. tauto.
      - apply in_map_iff in X2. destruct X2 as [p [E Hp]]. apply filter_In in Hp. apply in_map_iff. exists p. tauto. }
    assert (K0out : forall x, In x (map (keyA A) (filter (stays s) (branches c1)) ++ map (keyA A) (filter (stays s) (branches c2))) ->
                              x <> canon_side A (sset (leaves c1))).
    { intros x Hx E. apply N1. rewrite <- E. apply in_app_or in Hx. apply in_or_app.
      destruct Hx as [Hx|Hx]; [left|right]; apply in_map_iff in Hx; destruct Hx as [p [E' Hp]]; apply filter_In in Hp;
        apply in_map_iff; exists p; tauto. }
    simpl filter. rewrite filter_app. simpl filter.
    destruct (stays s (e1, c1)) eqn:S1, (stays s (e2, c2)) eqn:S2.
    - destruct Hst; discriminate.
    - simpl map. rewrite map_app. constructor.
      + intros Hx. apply (K0out _ Hx). reflexivity.
      + apply NoDup_app_intro; auto.
    - rewrite map_app. simpl map. eapply Permutation_NoDup; [apply Permutation_middle|]. constructor.
      + rewrite <- Ek. intros Hx. apply (K0out _ Hx). reflexivity.
      + apply NoDup_app_intro; auto.
    - rewrite map_app. apply NoDup_app_intro; auto. }
  assert (Ng : NoDup (map (keyA A) (branches g))).
  { generalize (PermR_map_perm vrel keyv _ _ Hkv HV). rewrite !map_map. intros P.
    eapply Permutation_NoDup; [symmetry; exact P|exact NF]. }
  rewrite <- HA. apply usplits_of_nodup. rewrite HA. exact Ng.
Qed.
