(** C07, collapse by depth: Edge.TopoDepth as modelled ([topo_depth], from the tip counts on the
    two sides) is the size of the light side of the bipartition, and CollapseTopoDepth never
    refuses on a well-formed tree whose root has at least two neighbours. *)
From Coq Require Import String ZArith QArith Bool Arith Lia List Permutation.
From GT Require Import Base.UTree Spec.Obs Model.Reroot Spec.Unrooted Proofs.RerootBase Proofs.PruneBase
     Model.Prune Model.Collapse Proofs.PruneStep Proofs.PruneSub Proofs.Prune Proofs.CollapseBase.
Import ListNotations.
Local Close Scope Q_scope.
Local Arguments n_up : simpl never.
Local Arguments leaves : simpl never.
Local Arguments wf_sub : simpl never.

Lemma kleaves_length_in ks ek k : In (ek, k) ks -> length (leaves k) <= length (kleaves ks).
Proof.
  induction ks as [|p r IH]; [intros []|]. rewrite kleaves_cons, app_length.
  intros [->|H]; simpl; [lia|]. specialize (IH H). lia.
Qed.

Lemma branches_sub : forall t e c,
    forallb (fun p => wf_sub (snd p)) (kids t) = true -> In (e, c) (branches t) ->
    wf_sub c = true /\ exists ek k, In (ek, k) (kids t) /\ length (leaves c) <= length (leaves k).
Proof.
  induction t as [n cm sl IH] using utree_ind'. intros e c Hw Hin.
  unfold kids in *. simpl uslots in *. rewrite branches_unfold in Hin. unfold brs in Hin.
  rewrite in_flat_map in Hin. destruct Hin as [[[ek k]|] [Hs Hin]]; [|destruct Hin].
  assert (Hk : In (ek, k) (kids_of sl)) by (apply kids_of_In; auto).
  rewrite forallb_forall in Hw. generalize (Hw _ Hk). simpl. intros Hwk.
  destruct Hin as [E|Hin].
  - inversion E; subst. split; auto. exists e, c. split; auto.
  - rewrite Forall_forall in IH. specialize (IH _ Hs). simpl in IH.
    destruct (IH e c (wf_sub_kids k Hwk) Hin) as [H1 [e2 [k2 [H2 H3]]]]. split; auto.
    exists ek, k. split; auto.
    (* leaves k2 is part of leaves k *)
    destruct k as [nk cmk slk]. unfold kids in H2. simpl in H2.
    generalize (kleaves_length_in (kids_of slk) e2 k2 H2). intros H4.
    rewrite (leaves_unfold nk cmk slk). destruct (kids_of slk) eqn:E; [destruct H2|]. lia.
Qed.

(** a clade is a proper part of the tips when the root has two neighbours or more *)
Lemma clade_proper t e c :
  wf t = true -> 2 <= degree t -> In (e, c) (branches t) ->
  wf_sub c = true /\ 1 <= length (leaves c) /\ length (leaves c) < length (leaves t).
Proof.
  destruct t as [n cm sl]. intros Hw Hd Hin. rewrite wf_unfold in Hw.
  apply andb_true_iff in Hw. destruct Hw as [Hu Hw]. apply Nat.eqb_eq in Hu.
  destruct (branches_sub (UNode n cm sl) e c Hw Hin) as [H1 [ek [k [H2 H3]]]]. split; auto.
  split.
  { generalize (leaves_nonempty c). destruct (leaves c); [congruence|simpl; lia]. }
  unfold kids in H2. simpl in H2. unfold degree in Hd. simpl in Hd.
  generalize (length_slots sl). rewrite Hu. intros El. rewrite leaves_unfold.
  destruct (kids_of sl) as [|p1 [|p2 r]] eqn:E; simpl in El; try lia.
  rewrite !kleaves_cons, !app_length.
  assert (N1 : 1 <= length (leaves (snd p1))).
  { generalize (leaves_nonempty (snd p1)). destruct (leaves (snd p1)); [congruence|simpl; lia]. }
  assert (N2 : 1 <= length (leaves (snd p2))).
  { generalize (leaves_nonempty (snd p2)). destruct (leaves (snd p2)); [congruence|simpl; lia]. }
  destruct H2 as [->|[->|H2]]; simpl in *; try lia.
  generalize (kleaves_length_in r ek k H2). lia.
Qed.

Lemma tips_count_sub c : wf_sub c = true -> length (tips c) = length (leaves c).
Proof. intros H. now rewrite <- (tips_sub c H), map_length. Qed.
Lemma tips_count t : wf t = true -> 2 <= degree t -> length (tips t) = length (leaves t).
Proof. intros H Hd. rewrite <- (tip_names_leaves t H Hd). unfold tip_names. now rewrite map_length. Qed.

(** Edge.TopoDepth = number of tips on the light side *)
Theorem topo_depth_light t e c :
  wf t = true -> 2 <= degree t -> In (e, c) (branches t) ->
  topo_depth t c = Nat.min (length (leaves t) - length (leaves c)) (length (leaves c)).
Proof.
  intros Hw Hd Hin. destruct (clade_proper t e c Hw Hd Hin) as [Hc _].
  unfold topo_depth, ntax_left, ntax_right. now rewrite tips_count, tips_count_sub.
Qed.

Lemma edges_branches : forall t, incl (edges_below t) (branches t).
Proof.
  induction t as [n cm sl IH] using utree_ind'. intros [e c] Hin.
  simpl in Hin. rewrite branches_unfold. unfold brs. rewrite in_flat_map in *.
  destruct Hin as [[[e1 c1]|] [Hs Hin]]; [|destruct Hin]. exists (Some (e1, c1)). split; auto.
  destruct Hin as [E|Hin]; [now left|]. right.
  destruct (Nat.ltb 1 (degree c1)); [|destruct Hin].
  rewrite Forall_forall in IH. exact (IH _ Hs _ Hin).
Qed.

(** CollapseTopoDepth never refuses ("subtree sizes not computed") on such trees, and selects
    by the size of the light side *)
Theorem collapse_depth_ok mn mx rr rt t :
  wf t = true -> 2 <= degree t ->
  collapse_depth mn mx rr rt t = Ok (remove_edges rr rt (fun _ _ c => sel_depth t mn mx c) t).
Proof.
  intros Hw Hd. unfold collapse_depth.
  destruct (existsb (fun p => Nat.eqb (ntax_left t (snd p)) 0 || Nat.eqb (ntax_right (snd p)) 0) (edges t)) eqn:E; auto.
  apply existsb_exists in E. destruct E as [[e c] [Hin E]]. simpl in E.
  apply edges_branches in Hin. destruct (clade_proper t e c Hw Hd Hin) as [Hc [H1 H2]].
  unfold ntax_left, ntax_right in E. rewrite tips_count, tips_count_sub in E by auto.
  apply orb_true_iff in E. destruct E as [E|E]; apply Nat.eqb_eq in E; lia.
Qed.

Theorem sel_depth_light mn mx t e c :
  wf t = true -> 2 <= degree t -> In (e, c) (branches t) ->
  sel_depth t mn mx c =
  let d := Z.of_nat (Nat.min (length (leaves t) - length (leaves c)) (length (leaves c))) in
  ((mn <=? d)%Z && (d <=? mx)%Z).
Proof. intros Hw Hd Hin. unfold sel_depth. now rewrite (topo_depth_light t e c). Qed.
