(** Base lemmas for C06/C07: filtering the distance observables by a predicate on tip names,
    compatibility of [cross]/[cross_all] with permutation-up-to-Qeq, and the observables of a
    node as an aggregate of the contributions of its children. *)
From Coq Require Import String ZArith QArith Bool Arith Lia List Permutation Setoid Morphisms.
From GT Require Import Base.UTree Spec.Obs Model.Reroot Spec.Unrooted Proofs.RerootBase.
Import ListNotations.
Local Close Scope Q_scope.

(** * lists of (tip, depth) up to order and Qeq *)
Definition deq (l l' : list (string * Q)) : Prop := PermR pq_eq l l'.
Global Instance deq_Equivalence : Equivalence deq.
Proof. unfold deq. apply PermR_Equivalence. exact pq_eq_Equivalence. Qed.

Lemma deq_perm l l' : Permutation l l' -> deq l l'.
Proof. apply PermR_of_perm; exact pq_eq_Equivalence. Qed.
Lemma deq_app a a' b b' : deq a a' -> deq b b' -> deq (a ++ b) (a' ++ b').
Proof. apply PermR_app; exact pq_eq_Equivalence. Qed.
Lemma deq_Forall2 l l' : Forall2 pq_eq l l' -> deq l l'.
Proof. apply PermR_of_Forall2. Qed.

Lemma PermR_map {A B} (R : A -> A -> Prop) (R' : B -> B -> Prop) (f : A -> B) l l' :
  (forall x y, R x y -> R' (f x) (f y)) -> PermR R l l' -> PermR R' (map f l) (map f l').
Proof.
  intros Hf. induction 1; simpl.
  - constructor.
  - constructor; auto.
  - apply PR_swap.
  - eapply PR_trans; eauto.
Qed.

Lemma PermR_filter {A} (R : A -> A -> Prop) (p : A -> bool) l l' :
  Equivalence R -> (forall x y, R x y -> p x = p y) -> PermR R l l' -> PermR R (filter p l) (filter p l').
Proof.
  intros HR Hp. induction 1; simpl.
  - constructor.
  - rewrite (Hp x y H). destruct (p y); [constructor|]; auto.
  - destruct (p x), (p y); try apply PR_swap; apply PermR_refl; auto.
  - eapply PR_trans; eauto.
Qed.

Lemma PermR_names {A} (R : A -> A -> Prop) (f : A -> string) l l' :
  (forall x y, R x y -> f x = f y) -> PermR R l l' -> Permutation (map f l) (map f l').
Proof.
  intros Hf. induction 1; simpl.
  - constructor.
  - rewrite (Hf x y H). constructor; auto.
  - apply perm_swap.
  - etransitivity; eauto.
Qed.

Lemma deq_names l l' : deq l l' -> Permutation (map fst l) (map fst l').
Proof. apply PermR_names. intros x y [H _]; exact H. Qed.

(** * shift *)
Lemma shift_app q a b : shift q (a ++ b) = shift q a ++ shift q b.
Proof. apply map_app. Qed.

Lemma shift_deq q q' l l' : (q == q')%Q -> deq l l' -> deq (shift q l) (shift q' l').
Proof.
  intros Hq H. unfold shift.
  transitivity (map (fun p : string * Q => (fst p, (q' + snd p)%Q)) l).
  - apply deq_Forall2. apply Forall2_map_same. intros x _. split; simpl; auto. now rewrite Hq.
  - apply PermR_map with (R := pq_eq); auto.
    intros x y [H1 H2]. split; simpl; auto. now rewrite H2.
Qed.

Lemma shift_shift q r l : Forall2 pq_eq (shift q (shift r l)) (shift (q + r)%Q l).
Proof.
  unfold shift. rewrite map_map. apply Forall2_map_same. intros x _. split; simpl; auto. ring.
Qed.

Lemma shift_names q l : map fst (shift q l) = map fst l.
Proof. unfold shift. rewrite map_map. reflexivity. Qed.

(** * cross, cross_all up to deq *)
Lemma cross_cons x a b :
  cross (x :: a) b = map (fun y : string * Q => (fst x, fst y, (snd x + snd y)%Q)) b ++ cross a b.
Proof. reflexivity. Qed.

Lemma cross_deq_l a a' b : deq a a' -> dists_equiv (cross a b) (cross a' b).
Proof.
  induction 1.
  - reflexivity.
  - rewrite !cross_cons. apply dists_equiv_app; auto.
    apply dists_equiv_Forall2. apply Forall2_map_same. intros z _.
    destruct H as [H1 H2]. split; simpl; [congruence|]. now rewrite H2.
  - rewrite !cross_cons. apply dists_equiv_perm. perm.
  - etransitivity; eauto.
Qed.

Lemma cross_deq_r a b b' : deq b b' -> dists_equiv (cross a b) (cross a b').
Proof.
  intros H. induction a as [|x a IH].
  - reflexivity.
  - rewrite !cross_cons. apply dists_equiv_app; auto.
    apply PermR_map with (R := pq_eq); auto.
    intros y z [H1 H2]. split; simpl; [congruence|]. now rewrite H2.
Qed.

Lemma cross_deq a a' b b' : deq a a' -> deq b b' -> dists_equiv (cross a b) (cross a' b').
Proof. intros H1 H2. etransitivity; [apply cross_deq_l, H1 | apply cross_deq_r, H2]. Qed.

Lemma symcross_deq a a' b b' : deq a a' -> deq b b' -> dists_equiv (symcross a b) (symcross a' b').
Proof. intros H1 H2. unfold symcross. apply dists_equiv_app; apply cross_deq; auto. Qed.

Lemma cross_all_unfold d r :
  cross_all (d :: r) = flat_map (fun d' => symcross d d') r ++ cross_all r.
Proof. reflexivity. Qed.

Lemma cross_all_deq ds ds' : Forall2 deq ds ds' -> dists_equiv (cross_all ds) (cross_all ds').
Proof.
  induction 1 as [|d d' r r' Hd Hr IH].
  - reflexivity.
  - rewrite !cross_all_unfold. apply dists_equiv_app; auto.
    clear IH. induction Hr; simpl; [reflexivity|].
    apply dists_equiv_app; auto. apply symcross_deq; auto.
Qed.

Lemma concat_deq ds ds' : Forall2 deq ds ds' -> deq (concat ds) (concat ds').
Proof. induction 1; simpl; [reflexivity|]. apply deq_app; auto. Qed.

Lemma concat_dists_equiv ps ps' : Forall2 dists_equiv ps ps' -> dists_equiv (concat ps) (concat ps').
Proof. induction 1; simpl; [reflexivity|]. apply dists_equiv_app; auto. Qed.

Lemma cross_nil_l b : cross [] b = [].
Proof. reflexivity. Qed.

Lemma cross_all_nil_head r : cross_all ([] :: r) = cross_all r.
Proof.
  rewrite cross_all_unfold.
  assert (flat_map (fun d' : list (string * Q) => symcross [] d') r = []) as ->; auto.
  induction r; simpl; auto. rewrite IHr. unfold symcross. now rewrite cross_nil_r.
Qed.

(** * filtering by a predicate on names *)
Section Filter.
  Variable k : string -> bool.
  Definition fD (l : list (string * Q)) : list (string * Q) := filter (fun p => k (fst p)) l.
  Definition fP (l : list (string * string * Q)) : list (string * string * Q) :=
    filter (fun p => k (fst (fst p)) && k (snd (fst p))) l.

  Lemma fD_app a b : fD (a ++ b) = fD a ++ fD b.
  Proof. apply filter_app. Qed.
  Lemma fP_app a b : fP (a ++ b) = fP a ++ fP b.
  Proof. apply filter_app. Qed.

  Lemma fD_shift q l : fD (shift q l) = shift q (fD l).
  Proof.
    unfold fD, shift. induction l as [|x l IH]; simpl; auto.
    destruct (k (fst x)); simpl; now rewrite IH.
  Qed.

  Lemma fP_cross a b : fP (cross a b) = cross (fD a) (fD b).
  Proof.
    induction a as [|x a IH]; [reflexivity|].
    rewrite cross_cons, fP_app, IH. unfold fD at 2. simpl.
    assert (E : fP (map (fun y : string * Q => (fst x, fst y, (snd x + snd y)%Q)) b) =
                if k (fst x) then map (fun y : string * Q => (fst x, fst y, (snd x + snd y)%Q)) (fD b) else []).
    { clear IH. unfold fP, fD. destruct (k (fst x)) eqn:Ex.
      - induction b as [|y b IHb]; simpl; auto. rewrite Ex. simpl.
        destruct (k (fst y)); simpl; now rewrite IHb.
      - induction b as [|y b IHb]; simpl; auto. rewrite Ex. simpl. exact IHb. }
    rewrite E. destruct (k (fst x)); reflexivity.
  Qed.

  Lemma fP_symcross a b : fP (symcross a b) = symcross (fD a) (fD b).
  Proof. unfold symcross. now rewrite fP_app, !fP_cross. Qed.

  Lemma fP_cross_all ds : fP (cross_all ds) = cross_all (map fD ds).
  Proof.
    induction ds as [|d r IH]; [reflexivity|].
    simpl map. rewrite !cross_all_unfold, fP_app, IH. f_equal.
    clear IH. induction r as [|d' r IH]; simpl; auto.
    now rewrite fP_app, fP_symcross, IH.
  Qed.

  Lemma fD_concat ds : fD (concat ds) = concat (map fD ds).
  Proof. induction ds; simpl; auto. now rewrite fD_app, IHds. Qed.
  Lemma fP_concat ps : fP (concat ps) = concat (map fP ps).
  Proof. induction ps; simpl; auto. now rewrite fP_app, IHps. Qed.

  Lemma fD_id l : (forall x, In x (map fst l) -> k x = true) -> fD l = l.
  Proof.
    unfold fD. induction l as [|x l IH]; simpl; intros H; auto.
    rewrite (H (fst x)) by auto. f_equal. apply IH. intros; apply H; auto.
  Qed.

  Lemma fP_id l :
    (forall a b d, In (a, b, d) l -> k a = true /\ k b = true) -> fP l = l.
  Proof.
    unfold fP. induction l as [|[[a b] d] l IH]; simpl; intros H; auto.
    destruct (H a b d (or_introl eq_refl)) as [-> ->]. simpl. f_equal. apply IH.
    intros; eapply H; eauto.
  Qed.

  Lemma fD_deq l l' : deq l l' -> deq (fD l) (fD l').
  Proof.
    apply PermR_filter; [exact pq_eq_Equivalence|]. intros x y [H _]. now rewrite H.
  Qed.
  Lemma fP_dists_equiv l l' : dists_equiv l l' -> dists_equiv (fP l) (fP l').
  Proof.
    apply PermR_filter; [exact tq_eq_Equivalence|]. intros x y [H _]. now rewrite H.
  Qed.

  Lemma fD_names l : map fst (fD l) = filter k (map fst l).
  Proof. unfold fD. induction l as [|x l IH]; simpl; auto. destruct (k (fst x)); simpl; now rewrite IH. Qed.
End Filter.

Lemma fD_fD k1 k2 l : fD k1 (fD k2 l) = fD (fun x => k1 x && k2 x) l.
Proof.
  unfold fD. induction l as [|x l IH]; simpl; auto.
  destruct (k2 (fst x)); simpl; rewrite ?andb_true_r, ?andb_false_r.
  - destruct (k1 (fst x)); now rewrite IH.
  - exact IH.
Qed.
Lemma fP_fP k1 k2 l : fP k1 (fP k2 l) = fP (fun x => k1 x && k2 x) l.
Proof.
  unfold fP. induction l as [|x l IH]; simpl; auto.
  destruct (k2 (fst (fst x))), (k2 (snd (fst x))), (k1 (fst (fst x))) eqn:E1, (k1 (snd (fst x))) eqn:E2;
    simpl; rewrite ?E1, ?E2; simpl; rewrite ?IH; reflexivity.
Qed.
Lemma fP_ext k1 k2 l : (forall x, k1 x = k2 x) -> fP k1 l = fP k2 l.
Proof. intros H. unfold fP. apply filter_ext. intros x. now rewrite !H. Qed.
Lemma fD_ext k1 k2 l : (forall x, k1 x = k2 x) -> fD k1 l = fD k2 l.
Proof. intros H. unfold fD. apply filter_ext. intros x. now rewrite !H. Qed.

(** * a node as the aggregate of its children's contributions *)
Definition contrib : Type := (list (string * Q) * list (string * string * Q))%type.
Definition aggD (cs : list contrib) : list (string * Q) := concat (map fst cs).
Definition aggP (cs : list contrib) : list (string * string * Q) :=
  cross_all (map fst cs) ++ concat (map snd cs).
Definition ceq (x y : contrib) : Prop := deq (fst x) (fst y) /\ dists_equiv (snd x) (snd y).
Definition fC (k : string -> bool) (x : contrib) : contrib := (fD k (fst x), fP k (snd x)).

Lemma Permutation_concat {A} (l l' : list (list A)) : Permutation l l' -> Permutation (concat l) (concat l').
Proof.
  induction 1; simpl; auto.
  - now apply Permutation_app_head.
  - perm.
  - etransitivity; eauto.
Qed.

Lemma aggD_perm cs cs' : Permutation cs cs' -> Permutation (aggD cs) (aggD cs').
Proof. intros H. apply Permutation_concat, Permutation_map, H. Qed.
Lemma aggP_perm cs cs' : Permutation cs cs' -> Permutation (aggP cs) (aggP cs').
Proof.
  intros H. unfold aggP. apply Permutation_app.
  - apply cross_all_perm, Permutation_map, H.
  - apply Permutation_concat, Permutation_map, H.
Qed.

Lemma aggD_ceq cs cs' : Forall2 ceq cs cs' -> deq (aggD cs) (aggD cs').
Proof.
  intros H. apply concat_deq. induction H; simpl; constructor; auto. apply H.
Qed.
Lemma aggP_ceq cs cs' : Forall2 ceq cs cs' -> dists_equiv (aggP cs) (aggP cs').
Proof.
  intros H. unfold aggP. apply dists_equiv_app.
  - apply cross_all_deq. induction H; simpl; constructor; auto. apply H.
  - apply concat_dists_equiv. induction H; simpl; constructor; auto. apply H.
Qed.

Lemma aggD_nil cs : aggD (([], []) :: cs) = aggD cs.
Proof. reflexivity. Qed.
Lemma aggP_nil cs : aggP (([], []) :: cs) = aggP cs.
Proof. unfold aggP. simpl map. now rewrite cross_all_nil_head. Qed.

Lemma fD_aggD k cs : fD k (aggD cs) = aggD (map (fC k) cs).
Proof. unfold aggD. rewrite fD_concat, !map_map. reflexivity. Qed.
Lemma fP_aggP k cs : fP k (aggP cs) = aggP (map (fC k) cs).
Proof. unfold aggP. rewrite fP_app, fP_cross_all, fP_concat, !map_map. reflexivity. Qed.

Lemma ceq_refl x : ceq x x.
Proof. split; reflexivity. Qed.
Lemma Forall2_ceq_refl l : Forall2 ceq l l.
Proof. induction l; constructor; auto using ceq_refl. Qed.

Section Node.
  Variable w : einfo -> Q.
  Definition contrib_of (p : einfo * utree) : contrib :=
    (shift (w (fst p)) (depths w (snd p)), pairdists w (snd p)).
  Definition contribs (ks : list (einfo * utree)) : list contrib := map contrib_of ks.

  Lemma depths_agg n c sl :
    kids_of sl <> [] -> depths w (UNode n c sl) = aggD (contribs (kids_of sl)).
  Proof.
    intros H. rewrite depths_unfold. destruct (kids_of sl) eqn:E; [congruence|].
    unfold aggD, contribs, kD. now rewrite map_map.
  Qed.
  Lemma depths_leaf n c sl : kids_of sl = [] -> depths w (UNode n c sl) = [(n, 0%Q)].
  Proof. intros H. now rewrite depths_unfold, H. Qed.
  Lemma pairdists_agg n c sl : pairdists w (UNode n c sl) = aggP (contribs (kids_of sl)).
  Proof.
    rewrite pairdists_unfold. unfold aggP, contribs, kD, kpd. rewrite !map_map.
    f_equal. now rewrite flat_map_concat_map.
  Qed.

  (** names *)
  Lemma depths_names t : map fst (depths w t) = leaves t.
  Proof.
    induction t as [n c sl IH] using utree_ind'.
    rewrite depths_unfold, leaves_unfold. destruct (kids_of sl) eqn:E; [reflexivity|].
    rewrite <- E. clear E.
    assert (IH' : Forall (fun p : einfo * utree => map fst (depths w (snd p)) = leaves (snd p)) (kids_of sl)).
    { clear -IH. induction IH as [|[[e ch]|] r H _ IHr]; simpl; auto. }
    clear IH. unfold kD, kleaves. induction IH' as [|[e ch] r H _ IHr]; simpl; auto.
    rewrite map_app, shift_names, IHr. simpl in H. now rewrite H.
  Qed.

  Lemma cross_names a b x y d : In (x, y, d) (cross a b) -> In x (map fst a) /\ In y (map fst b).
  Proof.
    unfold cross. rewrite in_flat_map. intros [p [Hp H]]. rewrite in_map_iff in H.
    destruct H as [q [E Hq]]. inversion E; subst. split; apply in_map; auto.
  Qed.

  Lemma cross_all_names ds x y d :
    In (x, y, d) (cross_all ds) -> In x (map fst (concat ds)) /\ In y (map fst (concat ds)).
  Proof.
    induction ds as [|d0 r IH]; simpl; [tauto|].
    rewrite in_app_iff, in_flat_map, !map_app, !in_app_iff. intros [[d' [Hd' H]]|H].
    - assert (Hsub : forall z, In z (map fst d') -> In z (map fst (concat r))).
      { intros z Hz. rewrite in_map_iff in Hz. destruct Hz as [q [<- Hq]].
        apply in_map. apply in_concat. eauto. }
      rewrite in_app_iff in H. destruct H as [H|H]; apply cross_names in H; destruct H; auto.
    - destruct (IH H); auto.
  Qed.

  Lemma pairdists_names t x y d : In (x, y, d) (pairdists w t) -> In x (leaves t) /\ In y (leaves t).
  Proof.
    revert x y d. induction t as [n c sl IH] using utree_ind'. intros x y d.
    rewrite pairdists_unfold, leaves_unfold, in_app_iff.
    assert (IH' : Forall (fun p : einfo * utree => forall x y d, In (x, y, d) (pairdists w (snd p)) ->
                            In x (leaves (snd p)) /\ In y (leaves (snd p))) (kids_of sl)).
    { clear -IH. induction IH as [|[[e ch]|] r H _ IHr]; simpl; auto. }
    clear IH. intros [H|H].
    - apply cross_all_names in H.
      assert (E : map fst (concat (kD w (kids_of sl))) = kleaves (kids_of sl)).
      { clear. unfold kD, kleaves. induction (kids_of sl) as [|[e ch] r IHr]; simpl; auto.
        now rewrite map_app, shift_names, depths_names, IHr. }
      rewrite E in H. destruct (kids_of sl); [destruct H as [[] _]|exact H].
    - unfold kpd in H. rewrite in_flat_map in H. destruct H as [p [Hp H]].
      rewrite Forall_forall in IH'. destruct (IH' p Hp _ _ _ H) as [H1 H2].
      destruct (kids_of sl) eqn:E; [destruct Hp|]. rewrite <- E in *.
      unfold kleaves. rewrite !in_flat_map. split; exists p; auto.
  Qed.

  (** a child below which the filter keeps everything *)
  Lemma fC_id k p :
    (forall x, In x (leaves (snd p)) -> k x = true) -> fC k (contrib_of p) = contrib_of p.
  Proof.
    intros H. unfold fC, contrib_of. simpl. f_equal.
    - apply fD_id. intros x. rewrite shift_names, depths_names. apply H.
    - apply fP_id. intros a b d Hin. apply pairdists_names in Hin. destruct Hin; split; apply H; auto.
  Qed.

  Lemma fC_id_all k ks :
    (forall x, In x (kleaves ks) -> k x = true) -> map (fC k) (contribs ks) = contribs ks.
  Proof.
    unfold contribs, kleaves. induction ks as [|p ks IH]; simpl; intros H; auto.
    rewrite fC_id, IH; auto.
    - intros x Hx. apply H. rewrite in_app_iff. auto.
    - intros x Hx. apply H. rewrite in_app_iff. auto.
  Qed.
End Node.
