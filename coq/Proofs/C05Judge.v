(** C05: the judges of Judge/C05.v answer VOk on every observation that is an observation of the
    model's output in the sense the judges themselves use: the tree field decodes to a tree [g]
    with [utree_eqb t' g = true] (equal to the model's tree up to Qeq -- the text of a number is
    not unique), an empty audit, and the tables of ReinitIndexes on [g].  Uses the invariance of
    the oracles under [utree_eqb] (Proofs/OracleEq.v) and the data-level acceptance theorems. *)
From Coq Require Import String ZArith QArith Bool Arith Lia List Permutation.
From GT Require Import Base.Sexp Base.UTree Base.Codec Spec.Obs Model.Reroot Model.Rand Model.Index Model.Outgroup
     Spec.Unrooted Judge.Common Judge.C05
     Proofs.Reroot Proofs.Unroot Proofs.Reorder Proofs.Splits Proofs.USplits Proofs.C05Main Proofs.IndexSplit
     Proofs.OracleDist Proofs.OracleSup Proofs.OracleIndex Proofs.OracleC05 Proofs.OracleOut Proofs.OracleRm
     Proofs.OracleMid Proofs.OracleAll Proofs.OutgroupKeep Proofs.OutgroupRemoveMain Proofs.OutgroupMidpoint
     Proofs.OutgroupClade Proofs.TreeEq Proofs.OracleEq.
Import ListNotations.
Local Close Scope Q_scope.
Local Open Scope string_scope.

(** * reflexivity of the comparison *)
Lemma qeqb_refl a : qeqb a a = true.
Proof. apply Qeq_bool_refl. Qed.
Lemma einfo_eqb_refl e : einfo_eqb e e = true.
Proof. unfold einfo_eqb. now rewrite !qeqb_refl, list_eqb_refl_string. Qed.
Lemma utree_eqb_refl t : utree_eqb t t = true.
Proof.
  induction t as [n c sl IH] using utree_ind'. simpl.
  rewrite String.eqb_refl, list_eqb_refl_string. simpl.
  induction IH as [|[[e ch]|] l Hs H IHl]; auto.
  now rewrite einfo_eqb_refl, Hs, IHl.
Qed.

(** * observations *)
(** the observation [r] shows the tree [t'] (up to Qeq); [wi]: with the index fields *)
Definition obs_tree (wi : bool) (t' : utree) (r : sexp) : Prop :=
  get_string "err" r = Some "" /\
  exists g, get_tree "tree" r = Some g /\ utree_eqb t' g = true /\
            get_strings "audit" r = Some [] /\
            (wi = true ->
             let '(idx, st, bs) := tables_obs g in
             get_strings "tipidx" r = Some idx /\
             (x <- get "tipstate" r ;; dec_list dec_tipstate x) = Some st /\
             (x <- get "bitsets" r ;; dec_list dec_Z x) = Some bs).

Definition obs_refusal (r : sexp) : Prop :=
  exists m, get_string "err" r = Some m /\ String.eqb m "" = false.

Definition obs_result (wi : bool) (m : res utree) (r : sexp) : Prop :=
  match m with Err _ => obs_refusal r | Ok t' => obs_tree wi t' r end.

Lemma good_teq t' g : teq t' g -> good t' -> good g.
Proof.
  intros H (W & D & ND). destruct (teq_kids t' g H) as (_ & Dg & _).
  repeat split.
  - now rewrite (proj2 (teq_wf t' g H)).
  - lia.
  - now rewrite (teq_leaves t' g H).
Qed.

Lemma index_ok_obs g r :
  good g ->
  (let '(idx, st, bs) := tables_obs g in
   get_strings "tipidx" r = Some idx /\
   (x <- get "tipstate" r ;; dec_list dec_tipstate x) = Some st /\
   (x <- get "bitsets" r ;; dec_list dec_Z x) = Some bs) ->
  index_ok g r = None.
Proof.
  intros G. pose proof (index_ok_tables g G) as T. unfold index_ok.
  destruct (tables_obs g) as [[idx st] bs]. intros (I1 & I2 & I3). now rewrite I1, I2, I3.
Qed.

(** the common tail of the judges: audit, an oracle that accepts the model's tree and does not
    distinguish Qeq-equal trees, the index clause, the correspondence test *)
Lemma tail_accepts (wi useidx : bool) t' r (oracle : utree -> option string) :
  obs_tree wi t' r -> (useidx = true -> wi = true) ->
  oracle t' = None -> (forall g, teq t' g -> oracle g = oracle t') -> good t' ->
  exists g, get_tree "tree" r = Some g /\ utree_eqb t' g = true /\
            first_some [audit_ok r; oracle g; if useidx then index_ok g r else None] = None.
Proof.
  intros (He & g & Hg & Heq & Ha & Hi) Hw Ho Hinv G.
  exists g. repeat split; auto.
  unfold first_some, audit_ok. cbn [fold_right]. rewrite Ha, (Hinv g Heq), Ho.
  destruct useidx; auto. rewrite (index_ok_obs g r (good_teq t' g Heq G) (Hi (Hw eq_refl))). reflexivity.
Qed.

(** closed string comparisons *)
Ltac eval_eqb :=
  repeat match goal with
         | |- context[String.eqb ?a ?b] =>
           let v := eval vm_compute in (String.eqb a b) in
           match v with
           | true => change (String.eqb a b) with true
           | false => change (String.eqb a b) with false
           end
         end.

(** * goodness of the results *)
Lemma good_of_perm t t' :
  NoDup (leaves t) -> wf t' = true -> 2 <= degree t' -> Permutation (leaves t') (leaves t) -> good t'.
Proof. intros ND W D P. repeat split; auto. eapply Permutation_NoDup; [symmetry; exact P|exact ND]. Qed.

(** * Reroot / UnRoot / Rotate / Sort: judge_basic *)
Theorem judge_basic_reroot c o t i :
  get_tree "tree" c = Some t -> get_nat "i" c = Some i ->
  wf t = true -> 2 <= degree t -> NoDup (leaves t) ->
  obs_result true (reroot t i) o ->
  exists b tag, judge_basic "reroot" c o = VOk b tag.
Proof.
  intros Ht Hi W D ND Ho. unfold judge_basic. rewrite Ht.
  destruct (reroot t i) as [t'|m] eqn:H; simpl in Ho.
  - pose proof Ho as (He & _). rewrite He. eval_eqb. cbv iota. rewrite Hi. cbn [obind]. rewrite H.
    cbn [negb orb].
    destruct (reroot_all t i t' W D H) as (W' & D' & L & _).
    destruct (tail_accepts true true t' o (same_tree_obs t) Ho (fun x => x)
                (oracle_accepts_reroot t i t' W D ND H) (same_tree_obs_teq t t')
                (good_of_perm t t' ND W' D' L)) as (g & Hg & Heq & Hf).
    rewrite Hg, Hf, Heq. cbn [negb]. eauto.
  - destruct Ho as (msg & He & Hm). rewrite He. eval_eqb. cbv iota. rewrite Hi. cbn [obind].
    rewrite H, Hm. eauto.
Qed.

Theorem judge_basic_unroot c o t :
  get_tree "tree" c = Some t ->
  wf t = true -> 2 <= degree t -> (rooted t = true -> root_has_inner_child t = true) -> NoDup (leaves t) ->
  obs_tree true (unroot t) o ->
  exists b tag, judge_basic "unroot" c o = VOk b tag.
Proof.
  intros Ht W D Hi ND Ho. unfold judge_basic. rewrite Ht.
  pose proof Ho as (He & _). rewrite He. eval_eqb. cbv iota. cbn [negb orb].
  destruct (unroot_stage t W D Hi) as (W' & D' & L & _).
  destruct (tail_accepts true true (unroot t) o (same_tree_obs t) Ho (fun x => x)
              (oracle_accepts_unroot t W Hi ND) (same_tree_obs_teq t (unroot t))
              (good_of_perm t _ ND W' D' L)) as (g & Hg & Heq & Hf).
  rewrite Hg, Hf, Heq. cbn [negb]. eauto.
Qed.

Lemma judge_basic_tperm op c o t t' :
  (op = "rotate" \/ op = "sort") ->
  get_tree "tree" c = Some t -> wf t = true -> 2 <= degree t -> NoDup (leaves t) ->
  tperm t t' -> obs_tree false t' o ->
  (if String.eqb op "reroot" then i <- get_nat "i" c ;; Some (reroot t i)
   else if String.eqb op "unroot" then Some (Ok (unroot t))
   else if String.eqb op "rotate" then
     raw <- (x <- get "raw" o ;; dec_list dec_N x) ;;
     d <- draws (rotate_bounds t) raw ;;
     Some (Ok (fst (rotate_all t (fst d))))
   else if String.eqb op "sort" then Some (Ok (sort_by_tips t))
   else None) = Some (Ok t') ->
  exists b tag, judge_basic op c o = VOk b tag.
Proof.
  intros Hop Ht W D ND T Ho Hm. unfold judge_basic. rewrite Ht.
  pose proof Ho as (He & _). rewrite He, Hm. eval_eqb. cbv iota.
  assert (Eidx : String.eqb op "reroot" || String.eqb op "unroot" = false)
    by (destruct Hop; subst op; reflexivity).
  rewrite Eidx.
  destruct (tperm_all t t' T) as (W' & D' & L & _).
  destruct (tail_accepts false false t' o (same_tree_obs t) Ho (fun x => x)
              (oracle_accepts_tperm t t' W ND T) (same_tree_obs_teq t t')
              (good_of_perm t t' ND (W' W) ltac:(lia) L)) as (g & Hg & Heq & Hf).
  rewrite Hg, Hf, Heq. cbn [negb]. eauto.
Qed.

Theorem judge_basic_sort c o t :
  get_tree "tree" c = Some t -> wf t = true -> 2 <= degree t -> NoDup (leaves t) ->
  obs_tree false (sort_by_tips t) o ->
  exists b tag, judge_basic "sort" c o = VOk b tag.
Proof.
  intros Ht W D ND Ho.
  apply (judge_basic_tperm "sort" c o t (sort_by_tips t)); auto. apply sort_by_tips_tperm.
Qed.

Theorem judge_basic_rotate c o t raw d :
  get_tree "tree" c = Some t -> wf t = true -> 2 <= degree t -> NoDup (leaves t) ->
  (x <- get "raw" o ;; dec_list dec_N x) = Some raw -> draws (rotate_bounds t) raw = Some d ->
  obs_tree false (fst (rotate_all t (fst d))) o ->
  exists b tag, judge_basic "rotate" c o = VOk b tag.
Proof.
  intros Ht W D ND Hr Hd Ho.
  apply (judge_basic_tperm "rotate" c o t (fst (rotate_all t (fst d)))); auto.
  - apply rotate_all_tperm.
  - eval_eqb. cbv iota. rewrite Hr. cbn [obind]. rewrite Hd. reflexivity.
Qed.

(** the hand-built stream is judged as a plain reroot *)
Theorem judge_handbuilt c o t i :
  get_string "op" c = Some "handbuilt" ->
  get_tree "tree" c = Some t -> get_nat "i" c = Some i ->
  wf t = true -> 2 <= degree t -> NoDup (leaves t) ->
  obs_result true (reroot t i) o ->
  exists b tag, judge c o = VOk b tag.
Proof.
  intros Hop Ht Hi W D ND Ho. unfold judge. rewrite Hop. eval_eqb. cbv iota.
  eapply judge_basic_reroot; eauto.
Qed.

(** * RerootOutGroup / RerootMidPoint: judge_root_on, judge_root *)
Definition multi_tree_ok (remove : bool) (t : utree) : Prop :=
  wf t = true /\ 2 <= degree t /\ (rooted t = true -> root_has_inner_child t = true) /\
  NoDup (leaves t) /\ ~ In "" (leaves t) /\
  (remove = false ->
   (forall x, In x (bsplits t) -> (0 <= elen (fst (fst x)))%Q) /\
   (forall p, In p (kids t) -> good_sup (fst p))).

Lemma outgroup_oracles remove strict t names t' :
  multi_tree_ok remove t -> reroot_outgroup remove strict t names = Ok t' ->
  oracle_outgroup_ok remove strict t t' names = None /\ good t'.
Proof.
  intros (W & D & Hi & ND & Hne & Hl) H. destruct remove.
  - split; [eapply oracle_outgroup_remove_accepts; eauto|].
    destruct (reroot_outgroup_remove strict t names t' W D Hi ND H) as (W' & D' & Rm & PL & _).
    repeat split; auto.
    assert (NDA : NoDup (leaves t' ++ Rm)) by (eapply Permutation_NoDup; [exact PL | exact ND]).
    exact (GT.Proofs.OutgroupClade.NoDup_app_l _ _ NDA).
  - destruct (Hl eq_refl) as [Hn Hs]. split; [eapply oracle_outgroup_accepts; eauto|].
    destruct (reroot_outgroup_keep_preserves strict t names t' W D Hi H) as (W' & D' & L & _).
    apply (good_of_perm t); auto. lia.
Qed.

Theorem judge_root_on_outgroup remove strict names t wi c r :
  get_strings "names" c = Some names ->
  get_bool "remove" c = Some remove -> get_bool "strict" c = Some strict ->
  multi_tree_ok remove t -> get_string "panic" r = None ->
  obs_result true (reroot_outgroup remove strict t names) r ->
  exists b tag, judge_root_on "outgroup" t wi c r = VOk b tag.
Proof.
  intros Hn Hr Hs Ht Hp Ho. unfold judge_root_on. eval_eqb. cbv iota.
  rewrite Hn, Hr, Hs. cbn [obind]. rewrite Hp.
  destruct (reroot_outgroup remove strict t names) as [t'|m] eqn:H; simpl in Ho.
  - pose proof Ho as (He & _). rewrite He. eval_eqb. cbn [negb].
    destruct (outgroup_oracles remove strict t names t' Ht H) as [O1 G].
    destruct (tail_accepts true wi t' r (fun g => oracle_outgroup_ok remove strict t g names) Ho
                (fun _ => eq_refl) O1 (fun g Hg => oracle_outgroup_ok_teq remove strict t t' g names Hg) G)
      as (g & Hg & Heq & Hf).
    rewrite Hg, Hf, Heq. cbn [negb]. eauto.
  - destruct Ho as (msg & He & Hm). rewrite He, Hm. cbn [negb]. unfold oracle_outgroup_refused. eauto.
Qed.

(** midpoint: trees with a negative length get the reduced oracle *)
Definition mid_tree_ok (t : utree) : Prop :=
  wf t = true /\ 2 <= degree t /\ (rooted t = true -> root_has_inner_child t = true) /\
  NoDup (leaves t) /\
  (has_neg t = false ->
   (forall x, In x (bsplits t) -> (0 <= elen (fst (fst x)))%Q) /\
   (forall p, In p (kids t) -> good_sup (fst p))).

Lemma oracle_reduced_of_perm t t' :
  wf t' = true -> Permutation (leaves t') (leaves t) -> oracle_reduced t t' = None.
Proof.
  intros W L. unfold oracle_reduced. rewrite W. simpl.
  rewrite (ssort_eq_perm _ _ L). unfold sset_eqb. now rewrite list_eqb_refl_string.
Qed.

Theorem judge_root_on_midpoint t wi c r :
  mid_tree_ok t -> get_string "panic" r = None ->
  obs_result true (reroot_midpoint t) r ->
  exists b tag, judge_root_on "midpoint" t wi c r = VOk b tag.
Proof.
  intros (W & D & Hi & ND & Hl) Hp Ho. unfold judge_root_on. eval_eqb. cbv iota.
  rewrite Hp.
  destruct (reroot_midpoint t) as [t'|m] eqn:H; simpl in Ho.
  - pose proof Ho as (He & _). rewrite He. eval_eqb. cbn [negb].
    destruct (reroot_midpoint_wf_leaves t t' W D Hi H) as (W' & D' & L).
    assert (G : good t') by (apply (good_of_perm t); auto; lia).
    destruct (has_neg t) eqn:HN.
    + destruct (tail_accepts true wi t' r (oracle_reduced t) Ho (fun _ => eq_refl)
                  (oracle_reduced_of_perm t t' W' L) (oracle_reduced_teq t t') G) as (g & Hg & Heq & Hf).
      rewrite Hg, Hf, Heq. cbn [negb]. eauto.
    + destruct (Hl eq_refl) as [Hn Hs].
      destruct (oracle_midpoint_accepts t t' W D Hi ND Hn Hs H) as [O1 _].
      destruct (tail_accepts true wi t' r (oracle_midpoint_ok t) Ho (fun _ => eq_refl)
                  O1 (oracle_midpoint_ok_teq t t') G) as (g & Hg & Heq & Hf).
      rewrite Hg, Hf, Heq. cbn [negb]. eauto.
  - destruct Ho as (msg & He & Hm). rewrite He, Hm. cbn [negb]. destruct (has_neg t); eauto.
Qed.

(** the wrapper: no pre-edit *)
Lemma judge_root_plain op c o t :
  get "pre" c = None -> get_tree "tree" c = Some t ->
  judge_root op c o = judge_root_on op t true c o.
Proof.
  intros Hpre Ht. unfold judge_root, pre_kind. rewrite Hpre, Ht. eval_eqb. reflexivity.
Qed.

Theorem judge_root_outgroup remove strict names t c o :
  get "pre" c = None -> get_tree "tree" c = Some t ->
  get_strings "names" c = Some names ->
  get_bool "remove" c = Some remove -> get_bool "strict" c = Some strict ->
  multi_tree_ok remove t -> get_string "panic" o = None ->
  obs_result true (reroot_outgroup remove strict t names) o ->
  exists b tag, judge_root "outgroup" c o = VOk b tag.
Proof.
  intros Hpre Ht Hn Hr Hs Hok Hp Ho. rewrite (judge_root_plain _ c o t Hpre Ht).
  eapply judge_root_on_outgroup; eauto.
Qed.

Theorem judge_root_midpoint t c o :
  get "pre" c = None -> get_tree "tree" c = Some t ->
  mid_tree_ok t -> get_string "panic" o = None ->
  obs_result true (reroot_midpoint t) o ->
  exists b tag, judge_root "midpoint" c o = VOk b tag.
Proof.
  intros Hpre Ht Hok Hp Ho. rewrite (judge_root_plain _ c o t Hpre Ht).
  now apply judge_root_on_midpoint.
Qed.
