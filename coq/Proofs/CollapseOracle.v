(** C07: from the branch-level theorems to the observables of the judge ([dist_matrix],
    [usplits] as sets of canonical sides, tip set). *)
From Coq Require Import String ZArith QArith Bool Arith Lia List Permutation Sorted Setoid Morphisms.
From GT Require Import Base.UTree Spec.Obs Spec.Induced Model.Reroot Model.Rand Spec.Unrooted Proofs.RerootBase Proofs.PruneBase
     Model.Prune Model.Collapse Proofs.CollapseBase Proofs.CollapseSplits Proofs.CollapseExact Proofs.CollapseDist
     Proofs.CollapseResolve Proofs.OracleDist Proofs.OracleSets.
Import ListNotations.
Local Close Scope Q_scope.
Local Arguments leaves : simpl never.
Local Arguments pairdists : simpl never.

Definition ukeys (t : utree) : list (list string) := map sside (usplits t).

Lemma tipset_perm t t' : Permutation (leaves t') (leaves t) -> tipset t' = tipset t.
Proof. intros H. unfold tipset. now apply sset_perm. Qed.

Lemma tips_eqb_perm t t' :
  Permutation (leaves t') (leaves t) -> sset_eqb (Obs.ssort (leaves t)) (Obs.ssort (leaves t')) = true.
Proof.
  intros H. unfold sset_eqb. rewrite (ssort_eq_perm _ _ H). apply list_eqb_refl_string.
Qed.

(** a branch of t' with the same leaves below as a branch of t defines the same bipartition *)
Lemma key_of_same_clade t t' c c' :
  Permutation (leaves t') (leaves t) -> Permutation (leaves c') (leaves c) ->
  canon_side (tipset t') (sset (leaves c')) = canon_side (tipset t) (sset (leaves c)).
Proof. intros H1 H2. now rewrite (tipset_perm _ _ H1), (sset_perm _ _ H2). Qed.

(** * Resolve *)
Theorem resolve_matrix t cs :
  wf t = true -> NoDup (leaves t) ->
  matrix_eqb (dist_matrix len0 t) (dist_matrix len0 (resolve t cs)) = true.
Proof.
  intros Hw Hn. apply dist_matrix_of_equiv; auto.
  - now apply resolve_leaves.
  - now apply resolve_dists.
Qed.

Theorem resolve_tips t cs :
  wf t = true -> sset_eqb (Obs.ssort (leaves t)) (Obs.ssort (leaves (resolve t cs))) = true.
Proof. intros Hw. apply tips_eqb_perm. now apply resolve_leaves. Qed.

(** every bipartition of the input is a bipartition of the result *)
Theorem resolve_keys t cs key :
  wf t = true -> In key (ukeys t) -> In key (ukeys (resolve t cs)).
Proof.
  intros Hw Hk. unfold ukeys in *. apply usplits_keys in Hk. destruct Hk as [[e c] [Hp ->]]. simpl snd.
  destruct (resolve_branches t cs Hw) as [news [_ HV]].
  assert (Hin : In (view2 (e, c)) (map view2 (branches t) ++ news)).
  { apply in_or_app. left. now apply in_map. }
  symmetry in HV.
  destruct (PermR_In _ _ vrel2_Equivalence _ _ HV _ Hin) as [y [Hy [_ Y2]]].
  apply in_map_iff in Hy. destruct Hy as [[e' c'] [<- Hp']]. simpl in Y2.
  apply usplits_keys. exists (e', c'). split; auto. simpl snd. symmetry.
  apply key_of_same_clade; [now apply resolve_leaves | now symmetry].
Qed.

(** * Collapse *)
Section Collapse.
  Variable rr rt : bool.
  Variable sel : nat -> einfo -> utree -> bool.

  Theorem collapse_tips t :
    wf t = true -> sset_eqb (Obs.ssort (leaves t)) (Obs.ssort (leaves (remove_edges rr rt sel t))) = true.
  Proof. intros Hw. apply tips_eqb_perm. now apply remove_edges_leaves. Qed.

  (** no new bipartition *)
  Theorem collapse_keys_sound t key :
    wf t = true -> In key (ukeys (remove_edges rr rt sel t)) -> In key (ukeys t).
  Proof.
    intros Hw Hk. unfold ukeys in *. apply usplits_keys in Hk. destruct Hk as [[e' c'] [Hp' ->]]. simpl snd.
    destruct (remove_edges_branches_sound rr rt sel t Hw e' c' Hp') as [e [c [Hp [P _]]]].
    apply usplits_keys. exists (e, c). split; auto. simpl snd.
    apply key_of_same_clade; auto. now apply remove_edges_leaves.
  Qed.

  (** the bipartition of a tip branch or of a branch that is not selected remains *)
  Theorem collapse_keys_complete t e c :
    wf t = true -> In (e, c) (branches t) -> (is_tip c = true \/ forall k, sel k e c = false) ->
    In (canon_side (tipset t) (sset (leaves c))) (ukeys (remove_edges rr rt sel t)).
  Proof.
    intros Hw Hp Hkeep.
    destruct (remove_edges_branches_complete rr rt sel t Hw e c Hp Hkeep) as [e' [c' [Hp' [P _]]]].
    unfold ukeys. apply usplits_keys. exists (e', c'). split; auto. simpl snd. symmetry.
    apply key_of_same_clade; auto. now apply remove_edges_leaves.
  Qed.

  (** contracting zero-length branches: same matrix *)
  Theorem collapse_zero_matrix t :
    (forall k e c, sel k e c = true -> (len0 e == 0)%Q) ->
    wf t = true -> NoDup (leaves t) ->
    matrix_eqb (dist_matrix len0 t) (dist_matrix len0 (remove_edges rr rt sel t)) = true.
  Proof.
    intros Hz Hw Hn. apply dist_matrix_of_equiv; auto.
    - now apply remove_edges_leaves.
    - now apply remove_edges_dists.
  Qed.
End Collapse.

(** the exact set of bipartitions after a collapse (removeRoot, or unrooted default) *)
Theorem collapse_keys_exact rt s t key :
  wf t = true ->
  (In key (ukeys (remove_edges true rt (fun _ e c => s e c) t)) <->
   exists p, In p (branches t) /\ stays s p = true /\ key = canon_side (tipset t) (sset (leaves (snd p)))).
Proof.
  intros Hw. generalize (remove_edges_exact rt s t Hw). intros HV.
  assert (HL : Permutation (leaves (remove_edges true rt (fun _ e c => s e c) t)) (leaves t))
    by now apply remove_edges_leaves.
  unfold ukeys. rewrite usplits_keys. split.
  - intros [[e' c'] [Hp' ->]]. simpl snd.
    assert (Hin : In (view (e', c')) (map view (branches (remove_edges true rt (fun _ e c => s e c) t))))
      by now apply in_map.
    destruct (PermR_In _ _ vrel_Equivalence _ _ HV _ Hin) as [y [Hy [_ Y2]]].
    apply in_map_iff in Hy. destruct Hy as [[e c] [<- Hp]]. apply filter_In in Hp. destruct Hp as [Hp Hs].
    exists (e, c). split; auto. split; auto. simpl in *. now apply key_of_same_clade.
  - intros [[e c] [Hp [Hs ->]]]. simpl snd.
    assert (Hin : In (view_adj rt s (e, c)) (map (view_adj rt s) (filter (stays s) (branches t)))).
    { apply in_map. apply filter_In. auto. }
    symmetry in HV.
    destruct (PermR_In _ _ vrel_Equivalence _ _ HV _ Hin) as [y [Hy [_ Y2]]].
    apply in_map_iff in Hy. destruct Hy as [[e' c'] [<- Hp']]. simpl in Y2.
    exists (e', c'). split; auto. simpl snd. symmetry. apply key_of_same_clade; auto. now symmetry.
Qed.

Theorem collapse_keys_exact_unrooted rt s t key :
  wf t = true -> no_single t = true -> 3 <= degree t ->
  (In key (ukeys (remove_edges false rt (fun _ e c => s e c) t)) <->
   exists p, In p (branches t) /\ stays s p = true /\ key = canon_side (tipset t) (sset (leaves (snd p)))).
Proof.
  intros Hw Hs Hd. rewrite remove_edges_transfer by auto. now apply collapse_keys_exact.
Qed.
