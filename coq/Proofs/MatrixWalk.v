(** C14, part 1: what the depth-first walks of pathLengths record.
    Main result [tip_rows_pairdists]: the multiset of all (start tip, reached tip, value)
    triples written by the walks of [Model.Matrix.tip_rows] is the multiset [pairdists w t]
    of the specification (path sums between all ordered pairs of distinct leaves). *)
From Coq Require Import String ZArith QArith Bool Arith Lia List Permutation Setoid Morphisms.
From GT Require Import Base.UTree Spec.Obs Model.Reroot Spec.Unrooted
     Proofs.RerootBase Proofs.PruneBase Model.Matrix.
Import ListNotations.
Local Close Scope Q_scope.
Local Arguments n_up : simpl never.

(** * slots and children *)
Lemma flat_map_kids {B} (F : einfo -> utree -> list B) sl :
  flat_map (fun s : slot => match s with Some (e, c) => F e c | None => [] end) sl
  = flat_map (fun p => F (fst p) (snd p)) (kids_of sl).
Proof. induction sl as [|[[e c]|] r IH]; simpl; auto. now rewrite IH. Qed.

Lemma Forall_slots_kids (P : utree -> Prop) sl :
  Forall (fun s : slot => match s with Some (_, t) => P t | None => True end) sl ->
  Forall (fun p : einfo * utree => P (snd p)) (kids_of sl).
Proof. induction 1 as [|[[e c]|] r H _ IH]; simpl; auto. Qed.

Lemma cross_perm_r a b b' : Permutation b b' -> Permutation (cross a b) (cross a b').
Proof.
  intros H. unfold cross. induction a as [|x a IH]; simpl; auto.
  apply Permutation_app; auto. now apply Permutation_map.
Qed.

Definition triples (rows : list (string * list (string * Q))) : list (string * string * Q) :=
  flat_map (fun r => map (fun p => (fst r, fst p, snd p)) (snd r)) rows.

Lemma triples_app a b : triples (a ++ b) = triples a ++ triples b.
Proof. apply flat_map_app. Qed.

Section Walk.
  Variable w : einfo -> Q.

  (** ** walking down: the depths, shifted *)
  Lemma walk_down_depths t : forall a, wf_sub t = true -> deq (walk_down w a t) (shift a (depths w t)).
  Proof.
    induction t as [n c sl IH] using utree_ind'. intros a H.
    rewrite wf_sub_unfold in H. apply andb_true_iff in H as [Hu F]. apply Nat.eqb_eq in Hu.
    rewrite depths_unfold. simpl walk_down. rewrite (length_slots sl), Hu.
    apply Forall_slots_kids in IH.
    destruct (kids_of sl) as [|k0 K] eqn:E.
    - simpl. apply deq_Forall2. constructor; [|constructor]. split; simpl; auto. ring.
    - replace (Nat.eqb (1 + length (k0 :: K)) 1) with false by (simpl; reflexivity).
      rewrite flat_map_kids, E. clear E Hu sl.
      induction IH as [|[e ch] r H _ IHr]; simpl.
      + reflexivity.
      + simpl in F. apply andb_true_iff in F as [F1 F2]. rewrite shift_app.
        apply deq_app; auto.
        etransitivity; [apply (H _ F1)|]. simpl.
        symmetry. apply deq_Forall2, shift_shift.
  Qed.

  (** ** one node: the parts seen from it *)
  Section Node.
    Variable U : list (string * Q).

    Definition part (s : slot) : list (string * Q) :=
      match s with None => U | Some (e, c) => shift (w e) (depths w c) end.
    Definition is_child (s : slot) : bool := match s with None => false | Some _ => true end.
    Definition SU (l : list slot) : list (string * Q) := flat_map part l.
    Definition CK (l : list slot) : list (string * Q) := flat_map part (filter is_child l).
    Definition SUp (l : list slot) : list (string * Q) := flat_map part (filter is_up l).
    Definition KD (l : list slot) : list (list (string * Q)) := map part (filter is_child l).

    Lemma SU_app a b : SU (a ++ b) = SU a ++ SU b.
    Proof. apply flat_map_app. Qed.
    Lemma SU_single s : SU [s] = part s.
    Proof. unfold SU. simpl. apply app_nil_r. Qed.
    Lemma CK_KD l : CK l = concat (KD l).
    Proof. unfold CK, KD. now rewrite flat_map_concat_map. Qed.
    Lemma KD_kids l : KD l = kD w (kids_of l).
    Proof. unfold KD, kD. induction l as [|[[e c]|] r IH]; simpl; auto. now rewrite IH. Qed.
    Lemma SU_split l : Permutation (SU l) (SUp l ++ CK l).
    Proof.
      unfold SU, SUp, CK. induction l as [|[[e c]|] r IH]; simpl; auto.
      - rewrite IH. perm.
      - rewrite IH. perm.
    Qed.

    (** the triples "child part x everything else at the node", children of [l] only *)
    Fixpoint Hs (pre l : list slot) : list (string * string * Q) :=
      match l with
      | [] => []
      | s :: r => (if is_child s then cross (part s) (SU pre ++ SU r) else []) ++ Hs (pre ++ [s]) r
      end.

    Lemma Hs_pre l : forall pre, Permutation (Hs pre l) (cross (CK l) (SU pre) ++ Hs [] l).
    Proof.
      induction l as [|s r IH]; intros pre.
      - reflexivity.
      - simpl Hs. rewrite (IH (pre ++ [s])), (IH [s]). rewrite SU_app, !SU_single.
        destruct s as [[e c]|]; simpl is_child; unfold CK; simpl filter; simpl flat_map; fold (CK r).
        + rewrite cross_app_l. rewrite !cross_app_r. unfold part. perm.
        + rewrite !cross_app_r. unfold part. perm.
    Qed.

    Lemma Hs_sem l : Permutation (Hs [] l) (cross (CK l) (SUp l) ++ cross_all (KD l)).
    Proof.
      induction l as [|s r IH].
      - reflexivity.
      - simpl Hs. rewrite (Hs_pre r [s]), IH. unfold SU at 2. simpl flat_map. rewrite app_nil_r.
        destruct s as [[e c]|]; simpl is_child.
        + unfold CK, SUp, KD. simpl filter. simpl flat_map. simpl map.
          fold (CK r). fold (SUp r). fold (KD r).
          rewrite cross_all_cons, <- CK_KD. unfold symcross.
          rewrite cross_app_l. simpl app.
          rewrite (cross_perm_r _ _ _ (SU_split r)), cross_app_r. unfold part. perm.
        + unfold CK, SUp, KD. simpl filter. simpl flat_map.
          fold (CK r). fold (SUp r). fold (KD r).
          rewrite cross_app_r. unfold part. perm.
    Qed.
  End Node.

  (** ** the inner loop of [walks], as a function *)
  Fixpoint walks_go (n : string) (istip : bool) (up : Q -> list (string * Q)) (pre l : list slot)
    : list (string * list (string * Q)) :=
    match l with
    | [] => []
    | None :: r => walks_go n istip up (pre ++ [None]) r
    | Some (e, c) :: r =>
      walks w c (fun a => let a' := (a + w e)%Q in
                          if istip then [(n, a')] else side w up a' pre ++ side w up a' r)
      ++ walks_go n istip up (pre ++ [Some (e, c)]) r
    end.

  Lemma walks_unfold n c sl up :
    walks w (UNode n c sl) up =
    (if Nat.eqb (length sl) 1 then [(n, side w up 0%Q sl)] else []) ++
    walks_go n (Nat.eqb (length sl) 1) up [] sl.
  Proof.
    simpl. f_equal.
    match goal with
    | |- ?F [] sl = _ =>
      assert (H : forall l pre, F pre l = walks_go n (Nat.eqb (length sl) 1) up pre l)
    end.
    { induction l as [|[[e ch]|] r IH]; intros pre; simpl; auto. now rewrite IH. }
    apply H.
  Qed.

  Lemma side_sem U up : (forall a, deq (up a) (shift a U)) ->
    forall l a, forallb (fun p => wf_sub (snd p)) (kids_of l) = true ->
                deq (side w up a l) (shift a (SU U l)).
  Proof.
    intros Hup. induction l as [|[[e c]|] r IH]; intros a F; simpl.
    - reflexivity.
    - simpl in F. apply andb_true_iff in F as [F1 F2].
      unfold SU. simpl flat_map. rewrite shift_app. apply deq_app; [|apply IH; auto].
      etransitivity; [apply walk_down_depths; auto|].
      symmetry. apply deq_Forall2, shift_shift.
    - unfold SU. simpl flat_map. rewrite shift_app. apply deq_app; [apply Hup|apply IH; auto].
  Qed.

  Lemma triples_cross_deq x V V' :
    deq V V' -> dists_equiv (map (fun p => (x, fst p, snd p)) V) (map (fun p => (x, fst p, snd p)) V').
  Proof.
    apply PermR_map. intros [a q] [a' q'] [H1 H2]. simpl in *. subst. split; simpl; auto.
  Qed.

  Definition walks_ok (t : utree) : Prop :=
    forall up U, (forall a, deq (up a) (shift a U)) -> wf_sub t = true ->
                 dists_equiv (triples (walks w t up)) (cross (depths w t) U ++ pairdists w t).

  Lemma go_sem n up U :
    (forall a, deq (up a) (shift a U)) ->
    forall l pre,
      Forall (fun p : einfo * utree => walks_ok (snd p)) (kids_of l) ->
      forallb (fun p => wf_sub (snd p)) (kids_of l) = true ->
      forallb (fun p => wf_sub (snd p)) (kids_of pre) = true ->
      dists_equiv (triples (walks_go n false up pre l)) (Hs U pre l ++ kpd w (kids_of l)).
  Proof.
    intros Hup. induction l as [|[[e c]|] r IH]; intros pre HP F Fp.
    - simpl. reflexivity.
    - simpl kids_of in *. simpl in F. apply andb_true_iff in F as [F1 F2].
      inversion HP as [|? ? Hc HPr]; subst. simpl in Hc.
      simpl walks_go. rewrite triples_app. simpl Hs. simpl is_child. unfold kpd. simpl flat_map.
      fold (kpd w (kids_of r)).
      assert (Fp' : forallb (fun p => wf_sub (snd p)) (kids_of (pre ++ [Some (e, c)])) = true).
      { rewrite kids_of_app, forallb_app, Fp. simpl. now rewrite F1. }
      specialize (IH (pre ++ [Some (e, c)]) HPr F2 Fp').
      set (V := SU U pre ++ SU U r).
      assert (Hk : forall a, deq (side w up (a + w e)%Q pre ++ side w up (a + w e)%Q r)
                                 (shift a (shift (w e) V))).
      { intros a. etransitivity.
        - apply deq_app; apply side_sem; eauto.
        - rewrite <- shift_app. fold V. etransitivity; [|symmetry; apply deq_Forall2, shift_shift].
          reflexivity. }
      specialize (Hc _ _ Hk F1).
      etransitivity; [apply dists_equiv_app; [exact Hc|exact IH]|].
      assert (Hm : dists_equiv (cross (depths w c) (shift (w e) V)) (cross (shift (w e) (depths w c)) V)).
      { symmetry. apply dists_equiv_Forall2, cross_shift_move. }
      etransitivity.
      { apply dists_equiv_app; [apply dists_equiv_app; [exact Hm|reflexivity]|reflexivity]. }
      apply dists_equiv_perm. unfold part. perm.
    - simpl kids_of in *. simpl walks_go. simpl Hs. simpl is_child.
      apply (IH (pre ++ [None])); auto.
      rewrite kids_of_app. simpl. now rewrite app_nil_r.
  Qed.

  Lemma depths_inner n c sl :
    kids_of sl <> [] -> depths w (UNode n c sl) = concat (kD w (kids_of sl)).
  Proof. intros H. rewrite depths_unfold. destruct (kids_of sl); congruence. Qed.

  Lemma SUp_one U sl : n_up sl = 1 -> Permutation (SUp U sl) U.
  Proof.
    intros Hu. unfold SUp. induction sl as [|[p|] r IHr].
    - unfold n_up in Hu. simpl in Hu. lia.
    - simpl. rewrite n_up_cons in Hu. apply IHr. simpl in Hu. exact Hu.
    - simpl. rewrite n_up_cons in Hu.
      assert (Hz : n_up r = 0) by (simpl in Hu; lia).
      clear -Hz. assert (flat_map (part U) (filter is_up r) = []) as ->; [|now rewrite app_nil_r].
      induction r as [|[p|] r IH]; simpl; auto; rewrite n_up_cons in Hz; simpl in Hz; try lia; auto.
  Qed.

  Theorem walks_sem t : walks_ok t.
  Proof.
    induction t as [n c sl IH] using utree_ind'. intros up U Hup H.
    rewrite wf_sub_unfold in H. apply andb_true_iff in H as [Hu F]. apply Nat.eqb_eq in Hu.
    apply Forall_slots_kids in IH.
    assert (D : kids_of sl = [] \/ kids_of sl <> [])
      by (destruct (kids_of sl); [left|right]; congruence).
    destruct D as [E|Hne].
    - (* a tip: its single slot is the parent *)
      assert (Hsl : sl = [None]).
      { assert (Hl := length_slots sl). rewrite Hu, E in Hl. simpl in Hl.
        destruct sl as [|[p|] [|s2 r2]]; try discriminate. reflexivity. }
      subst sl. rewrite walks_unfold, depths_unfold, pairdists_unfold.
      simpl. rewrite !app_nil_r.
      etransitivity; [apply triples_cross_deq, Hup|].
      apply dists_equiv_Forall2. unfold shift. rewrite !map_map.
      apply Forall2_map_same. intros [y q] _. split; simpl; auto. reflexivity.
    - assert (Hlen : Nat.eqb (length sl) 1 = false).
      { rewrite length_slots, Hu. destruct (kids_of sl); [congruence|reflexivity]. }
      rewrite walks_unfold, depths_inner, pairdists_unfold, Hlen by exact Hne.
      simpl app.
      etransitivity; [apply (go_sem n up U Hup sl []); auto|].
      apply dists_equiv_perm. rewrite Hs_sem, <- (KD_kids U), (CK_KD U).
      rewrite (cross_perm_r _ _ _ (SUp_one U sl Hu)). perm.
  Qed.

  (** ** the root *)
  Theorem tip_rows_pairdists t :
    wf t = true -> degree t <> 1 -> dists_equiv (triples (tip_rows w t)) (pairdists w t).
  Proof.
    destruct t as [n c sl]. intros H Hd. unfold tip_rows.
    rewrite wf_unfold in H. apply andb_true_iff in H as [Hu F]. apply Nat.eqb_eq in Hu.
    unfold degree in Hd. simpl in Hd.
    rewrite walks_unfold. apply Nat.eqb_neq in Hd. rewrite Hd. simpl app.
    assert (Hup : forall a : Q, deq ((fun _ : Q => @nil (string * Q)) a) (shift a [])) by (intros; reflexivity).
    etransitivity.
    { apply (go_sem n _ [] Hup sl []); auto.
      apply Forall_forall. intros p _. apply walks_sem. }
    rewrite pairdists_unfold. apply dists_equiv_perm. rewrite Hs_sem, <- (KD_kids []).
    assert (HU : SUp [] sl = []).
    { unfold SUp. clear. induction sl as [|[p|] r IH]; simpl; auto. }
    rewrite HU, cross_nil_r. reflexivity.
  Qed.
End Walk.
