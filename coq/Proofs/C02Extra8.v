(** C02: the channel protocol of utils.ReadMultiTrees (Model/C02Extra8.v): no deadlock, no send on
    a closed channel, the consumer receives exactly the records the reader computed, under every
    fair schedule both sides finish. *)
From Coq Require Import String Bool Arith Lia List.
From GT Require Import Base.UTree Model.MultiTree Proofs.MultiTree Model.C02Extra8.
Import ListNotations.

Section Chan.
  Variable rec : Type.
  Variable is_err : rec -> bool.
  Variable cap : nat.
  Variable stop_on_err : bool.
  Hypothesis cap_pos : 1 <= cap.

  Notation cst := (cst rec).
  Notation prod_step := (prod_step rec cap).
  Notation cons_step := (cons_step rec is_err stop_on_err).
  Notation step := (step rec is_err cap stop_on_err).
  Notation run := (run rec is_err cap stop_on_err).
  Notation enabled := (enabled rec cap).
  Notation err_last := (err_last rec is_err).

  Definition inv (l : list rec) (s : cst) : Prop :=
    (closed rec s = true -> pending rec s = []) /\
    (cstop rec s = true -> buf rec s = [] /\ pending rec s = []) /\
    (stop_on_err = true -> err_last (buf rec s ++ pending rec s)) /\
    got rec s ++ buf rec s ++ pending rec s = l.

  Lemma inv_init : forall l, (stop_on_err = true -> err_last l) -> inv l (init rec l).
  Proof.
    intros l H. unfold inv, init; simpl. repeat split; try discriminate; assumption.
  Qed.

  Lemma err_last_app_tail : forall a b, err_last (a ++ b) -> err_last b.
  Proof.
    induction a as [|x a IH]; intros b H; simpl in *; [assumption|]. apply IH. apply H.
  Qed.

  Ltac triv_inv := unfold inv; simpl; intuition (auto; try discriminate).

  Lemma inv_prod : forall l s, inv l s -> inv l (prod_step s).
  Proof.
    intros l [p b c g k] (I1 & I2 & I3 & I4). unfold C02Extra8.prod_step; simpl in *.
    destruct p as [|r p].
    - destruct c; triv_inv.
    - destruct (length b <? cap); [|triv_inv].
      unfold inv; simpl. split; [|split; [|split]].
      + intros Hc. specialize (I1 Hc). discriminate.
      + intros Hk. destruct (I2 Hk) as [_ X]. discriminate.
      + intros Hs. rewrite <- app_assoc. simpl. apply I3. assumption.
      + rewrite <- app_assoc. simpl. assumption.
  Qed.

  Lemma inv_cons : forall l s, inv l s -> inv l (cons_step s).
  Proof.
    intros l [p b c g k] (I1 & I2 & I3 & I4). unfold C02Extra8.cons_step; simpl in *.
    destruct k; [triv_inv|].
    destruct b as [|r b].
    - destruct c; triv_inv.
    - unfold inv; simpl. split; [|split; [|split]].
      + assumption.
      + intros H. apply andb_true_iff in H. destruct H as [Hs He].
        destruct (I3 Hs) as [X _]. specialize (X He). apply app_eq_nil in X. exact X.
      + intros Hs. destruct (I3 Hs) as [_ X]. exact X.
      + rewrite <- app_assoc. simpl. assumption.
  Qed.

  Lemma inv_step : forall l s a, inv l s -> inv l (step s a).
  Proof. intros l s [|] H; simpl; [apply inv_cons|apply inv_prod]; assumption. Qed.

  Lemma inv_run : forall l sch s, inv l s -> inv l (run sch s).
  Proof.
    intros l sch. induction sch as [|a sch IH]; intros s H; simpl; [assumption|].
    apply IH. apply inv_step. assumption.
  Qed.

  (** a step that is not enabled stutters, an enabled one decreases the measure *)
  Lemma step_disabled : forall s a, enabled s a = false -> step s a = s.
  Proof.
    intros [p b c g k] [|]; unfold C02Extra8.enabled, C02Extra8.cons_enabled, C02Extra8.prod_enabled,
      C02Extra8.step, C02Extra8.cons_step, C02Extra8.prod_step; simpl; intros H.
    - destruct k; [reflexivity|]. destruct b; [|discriminate]. simpl in H. rewrite H. reflexivity.
    - destruct p.
      + destruct c; [reflexivity|discriminate].
      + rewrite H. reflexivity.
  Qed.

  Lemma step_enabled : forall s a, enabled s a = true -> mu rec (step s a) < mu rec s.
  Proof.
    intros [p b c g k] [|]; unfold C02Extra8.enabled, C02Extra8.cons_enabled, C02Extra8.prod_enabled,
      C02Extra8.step, C02Extra8.cons_step, C02Extra8.prod_step, mu; simpl; intros H.
    - destruct k; [discriminate|]. destruct b as [|r b].
      + simpl in H. rewrite H. simpl. lia.
      + simpl. destruct (stop_on_err && is_err r); lia.
    - destruct p as [|r p].
      + destruct c; [discriminate|]. simpl. destruct k; lia.
      + rewrite H. simpl. rewrite app_length. simpl. destruct c, k; lia.
  Qed.

  Lemma step_noninc : forall s a, mu rec (step s a) <= mu rec s.
  Proof.
    intros s a. destruct (enabled s a) eqn:E.
    - apply Nat.lt_le_incl. apply step_enabled. assumption.
    - rewrite step_disabled by assumption. lia.
  Qed.

  Lemma run_noninc : forall sch s, mu rec (run sch s) <= mu rec s.
  Proof.
    induction sch as [|a sch IH]; intros s; simpl; [lia|].
    etransitivity; [apply IH|apply step_noninc].
  Qed.

  (** no deadlock: in every reachable state that is not final some agent can move *)
  Lemma progress : forall l s, inv l s -> final rec s = false -> exists a, enabled s a = true.
  Proof.
    intros l [p b c g k] (I1 & I2 & I3 & I4) F. unfold final in F; simpl in *.
    destruct k.
    - destruct (I2 eq_refl) as [-> ->]. destruct c; [discriminate|]. exists false. reflexivity.
    - destruct b as [|r b].
      + destruct c.
        * exists true. reflexivity.
        * exists false. unfold C02Extra8.enabled, C02Extra8.prod_enabled; simpl.
          destruct p; [reflexivity|]. apply Nat.ltb_lt. lia.
      + exists true. reflexivity.
  Qed.

  (** a round in which both agents are scheduled makes progress *)
  Lemma round_decreases_aux : forall r s a,
      enabled s a = true -> In a r -> mu rec (run r s) < mu rec s.
  Proof.
    induction r as [|b r IH]; intros s a E Hin; [destruct Hin|]. simpl.
    destruct (enabled s b) eqn:Eb.
    - eapply Nat.le_lt_trans; [apply run_noninc|]. apply step_enabled. assumption.
    - rewrite step_disabled by assumption. apply (IH s a E).
      destruct Hin as [->|Hin]; [congruence|assumption].
  Qed.

  Lemma round_decreases : forall l r s, inv l s -> final rec s = false -> fair_round r ->
      mu rec (run r s) < mu rec s.
  Proof.
    intros l r s I F [Ht Hf]. destruct (progress l s I F) as [a E].
    apply (round_decreases_aux r s a E). destruct a; assumption.
  Qed.

  Lemma final_run : forall l sch s, inv l s -> final rec s = true -> run sch s = s.
  Proof.
    intros l sch. induction sch as [|a sch IH]; intros s I F; simpl; [reflexivity|].
    assert (E : step s a = s).
    { apply step_disabled. destruct I as (I1 & I2 & _). destruct s as [p b c g k]. unfold final in F; simpl in *.
      apply andb_true_iff in F. destruct F as [-> ->]. destruct (I2 eq_refl) as [-> ->].
      destruct a; reflexivity. }
    rewrite E. apply IH; assumption.
  Qed.

  Fixpoint run_rounds (rs : list (list bool)) (s : cst) : cst :=
    match rs with [] => s | r :: rs' => run_rounds rs' (run r s) end.

  Lemma rounds_final : forall l rs s, inv l s -> Forall fair_round rs -> mu rec s <= length rs ->
      final rec (run_rounds rs s) = true.
  Proof.
    intros l rs. induction rs as [|r rs IH]; intros s I Hf Hm; simpl.
    - destruct (final rec s) eqn:F; [reflexivity|]. exfalso.
      destruct (progress l s I F) as [a E]. apply step_enabled in E. simpl in Hm. lia.
    - inversion Hf as [|? ? Hr Hrs]; subst.
      destruct (final rec s) eqn:F.
      + rewrite (final_run l r s I F). 
        clear IH Hm. revert Hrs. clear Hf Hr. induction rs as [|r' rs IH']; intros Hrs; simpl; [assumption|].
        rewrite (final_run l r' s I F). apply IH'. inversion Hrs; assumption.
      + apply IH; [apply inv_run; assumption|assumption|].
        pose proof (round_decreases l r s I F Hr). simpl in Hm. lia.
  Qed.

  Lemma inv_run_rounds : forall l rs s, inv l s -> inv l (run_rounds rs s).
  Proof.
    intros l rs. induction rs as [|r rs IH]; intros s I; simpl; [assumption|]. apply IH. apply inv_run. assumption.
  Qed.

  Lemma final_got : forall l s, inv l s -> final rec s = true -> got rec s = l /\ buf rec s = [] /\ pending rec s = [].
  Proof.
    intros l [p b c g k] (I1 & I2 & I3 & I4) F. unfold final in F; simpl in *.
    apply andb_true_iff in F. destruct F as [-> ->]. destruct (I2 eq_refl) as [-> ->].
    simpl in I4. rewrite app_nil_r in I4. auto.
  Qed.

  (** main statement: under every schedule made of at least 2|l|+2 fair rounds both sides finish,
      the channel is closed, nothing is left in the buffer and the consumer holds exactly l *)
  Theorem chan_fair_delivers : forall l rs,
      (stop_on_err = true -> err_last l) -> Forall fair_round rs -> 2 * length l + 2 <= length rs ->
      let s := run_rounds rs (init rec l) in
      final rec s = true /\ got rec s = l /\ buf rec s = [] /\ pending rec s = [].
  Proof.
    intros l rs He Hf Hn s.
    assert (I : inv l (init rec l)) by (apply inv_init; assumption).
    assert (F : final rec s = true).
    { apply (rounds_final l); [assumption|assumption|]. unfold mu, init; simpl. lia. }
    split; [assumption|]. apply (final_got l); [apply inv_run_rounds; assumption|assumption].
  Qed.

  (** safety under EVERY schedule (fair or not): what the consumer holds is a prefix of what the
      reader computed, nothing is lost or reordered; the goroutine never sends on a closed channel *)
  Theorem chan_safety : forall l sch,
      (stop_on_err = true -> err_last l) ->
      let s := run sch (init rec l) in
      got rec s ++ buf rec s ++ pending rec s = l /\ (closed rec s = true -> pending rec s = []).
  Proof.
    intros l sch He s. destruct (inv_run l sch (init rec l) (inv_init l He)) as (I1 & I2 & I3 & I4).
    split; assumption.
  Qed.

  Theorem chan_no_deadlock : forall l sch,
      (stop_on_err = true -> err_last l) ->
      let s := run sch (init rec l) in
      final rec s = true \/ exists a, step s a <> s.
  Proof.
    intros l sch He s. destruct (final rec s) eqn:F; [left; reflexivity|right].
    destruct (progress l s (inv_run l sch _ (inv_init l He)) F) as [a E]. exists a.
    intros Heq. pose proof (step_enabled s a E) as H. rewrite Heq in H. lia.
  Qed.
End Chan.

(** * the records of the Newick stream reader satisfy [err_last]: with a consumer that returns at
    the first error the goroutine still reaches close (no goroutine left blocked) *)
Definition is_ierr (i : item) : bool := match i with IErr _ _ => true | ITree _ _ => false end.

Lemma ids_from_err_last : forall l k, ids_from k l -> err_last item is_ierr l.
Proof.
  induction l as [|i l IH]; intros k H; simpl; [exact I|].
  destruct i as [id t|id m]; simpl in H; destruct H as [_ H].
  - split; [discriminate|]. eapply IH. eassumption.
  - subst l. split; [reflexivity|exact I].
Qed.

Lemma read_multi_err_last : forall (np : string -> utree + string) reads l,
    read_multi np reads = MDone l -> err_last item is_ierr l.
Proof. intros np reads l H. eapply ids_from_err_last. eapply read_multi_ids. eassumption. Qed.

(** the whole pipeline on every byte string: split, parse, send through the channel of 10, any
    consumer policy, any schedule of enough fair rounds *)
Theorem multi_channel_total :
  forall (np : string -> utree + string) (stop_on_err : bool) reads,
  exists l, read_multi np reads = MDone l /\
    forall rs, Forall fair_round rs -> 2 * length l + 2 <= length rs ->
      let s := run_rounds item is_ierr 10 stop_on_err rs (init item l) in
      final item s = true /\ got item s = l /\ buf item s = [] /\ pending item s = [].
Proof.
  intros np so reads. destruct (read_multi_total np reads) as [l Hl]. exists l. split; [assumption|].
  intros rs Hf Hn. apply chan_fair_delivers; [lia| |assumption|assumption].
  intros _. eapply read_multi_err_last. eassumption.
Qed.

(** without [err_last] (PhyloXML: IterateTrees sends one record per phylogeny, each with its own
    error) a consumer that returns at the first error leaves the goroutine blocked on a full
    buffer for ever: a state that is not final and in which no agent can move *)
Definition leak_records : list bool := true :: repeat false 11.
Definition leak_rounds : list (list bool) := repeat [false; true] 40.

Lemma stop_on_err_leak :
  let s := run_rounds bool (fun b => b) 10 true leak_rounds (init bool leak_records) in
  final bool s = false /\ cstop bool s = true /\ closed bool s = false /\ length (pending bool s) = 1 /\
  (forall a, step bool (fun b => b) 10 true s a = s).
Proof.
  vm_compute. repeat split; try reflexivity. intros [|]; reflexivity.
Qed.

(** * the single-character option read *)
Lemma single_char_option_safe : forall lit, single_char_option lit <> IPanic.
Proof.
  intros lit. unfold single_char_option, byte0.
  destruct lit as [|c r]; simpl; [discriminate|]. destruct r; simpl; discriminate.
Qed.

Lemma single_char_option_unfixed_panics : single_char_option_unfixed EmptyString = IPanic.
Proof. reflexivity. Qed.

(** the case split of Model/Nexus.v [data_format] on the literal is this function *)
Lemma single_char_option_shape : forall lit,
    single_char_option lit = match lit with String c EmptyString => IChar c | _ => IErrLen end.
Proof. intros [|c [|d r]]; reflexivity. Qed.

(** * indexing a delivered tree: ReinitIndexes on ANY tree (whatever the tip names: empty,
    repeated, a lone root) returns its tables or one of its two errors *)
From GT Require Import Model.Reroot Model.Index.
Lemma index_tables_total : forall t,
    (exists tb, index_tables t = Ok tb) \/
    index_tables t = Err "Cannot create a tip index when several tips have the same name" \/
    index_tables t = Err "No tips in the index, tip name index is not initialized".
Proof.
  intros t. unfold index_tables.
  destruct (has_dup_sorted (sorted_tip_names t)); [right; left; reflexivity|].
  destruct (Nat.eqb (length (sorted_tip_names t)) 0); [right; right; reflexivity|left; eauto].
Qed.
