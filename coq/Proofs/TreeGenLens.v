(** C16: branch lengths of the generated trees are the values returned by gostats.Exp: when
    those are non-negative, every branch of the result has a non-negative length. *)
From Coq Require Import String ZArith QArith Bool Arith Lia List Permutation.
From GT Require Import Base.UTree Spec.Obs Spec.GenShape Spec.Counting Model.Reroot Model.Rand2 Model.TreeGen
     Proofs.RerootBase Proofs.C05Main Proofs.SamplingBase Proofs.TreeGenNames Proofs.TreeGenGraft
     Proofs.TreeGenLoop Proofs.TreeGenMain.
Import ListNotations.
Local Close Scope Q_scope.
Local Arguments n_up : simpl never.

Definition nonneg (l : Q) : Prop := Qle_bool 0%Q l = true.

Lemma lens_nonneg_def n c sl :
  lens_nonneg (UNode n c sl) =
  forallb (fun s => match s with
                    | Some (e, ch) => Qle_bool 0%Q (elen e) && lens_nonneg ch
                    | None => true end) sl.
Proof. reflexivity. Qed.

Lemma last_assign_in k L : forall asg ls acc,
  length asg <= length ls -> incl ls L -> In k asg \/ In acc L ->
  In (last_assign asg ls k acc) L.
Proof.
  induction asg as [|a asg IH]; intros ls acc Hlen Hincl H.
  - simpl. destruct H as [[]|H]. destruct ls; exact H.
  - destruct ls as [|l ls]; [simpl in Hlen; lia|].
    cbn [last_assign]. apply IH.
    + simpl in Hlen. lia.
    + intros x Hx. apply Hincl. now right.
    + destruct (Nat.eqb_spec a k) as [->|Hne].
      * right. apply Hincl. now left.
      * destruct H as [[H|H]|H]; [contradiction|now left|now right].
Qed.

Lemma set_lens_nonneg f t :
  (forall k, In k (eids t) -> nonneg (f k)) -> lens_nonneg (set_lens f t) = true.
Proof.
  induction t as [n c sl IH] using utree_ind'. intros H.
  rewrite set_lens_unfold, lens_nonneg_def. rewrite eids_unfold in H.
  induction IH as [|s r Hs Hr IHr]; [reflexivity|].
  cbn [map forallb]. destruct s as [[e ch]|].
  - rewrite eids_sl_cons_some in H. cbn [elen].
    rewrite (H (eid e)) by (apply in_or_app; left; now left).
    rewrite Hs by (intros k Hk; apply H; apply in_or_app; left; now right).
    apply IHr. intros k Hk. apply H. apply in_or_app. now right.
  - apply IHr. exact H.
Qed.

Lemma forallb_replace_up (p : slot -> bool) sl x :
  forallb p sl = true -> p x = true -> forallb p (replace_up sl x) = true.
Proof.
  induction sl as [|[q|] r IH]; simpl; intros H Hx; auto.
  - apply andb_true_iff in H as [H1 H2]. now rewrite H1, IH.
  - apply andb_true_iff in H as [_ H]. now rewrite Hx, H.
Qed.

Theorem close_state_lens rooted i st ls t : 3 <= i -> inv rooted i st ->
  length (st_asg st) <= length ls -> Forall nonneg ls ->
  close_state rooted ls st = GOk t -> lens_nonneg t = true.
Proof.
  intros Hi [Hids Hm Htips Hshape Hasg Hlen] Hls Hnn.
  destruct st as [[t0 m] asg]. unfold st_tree, st_m, st_asg in *. cbn [fst snd] in *.
  unfold close_state. set (f := fun k => last_assign asg ls k nilv).
  assert (Hf : forall k, In k (eids t0) -> nonneg (f k)).
  { intros k Hk. rewrite Forall_forall in Hnn. apply Hnn.
    unfold f. apply last_assign_in; auto; [apply incl_refl|left].
    apply Hasg. eapply Permutation_in in Hk; [|exact Hids]. apply in_seq in Hk. lia. }
  pose proof (set_lens_nonneg f t0 Hf) as N.
  unfold finish, shape in *. destruct rooted.
  - destruct Hshape as [W [D B]].
    intros E. inversion E; subst. exact N.
  - destruct Hshape as [e [c [-> [W [B D]]]]].
    assert (D3 : degree c = 3).
    { destruct D as [D|D]; auto. exfalso.
      rewrite eids_unfold, eids_sl_cons_some in Hids. unfold eids_sl, mu_sl in Hids. simpl in Hids.
      rewrite D in Hids. apply Permutation_length in Hids. rewrite seq_length in Hids. simpl in Hids.
      unfold unif_bound in Hm. lia. }
    rewrite set_lens_unfold in *. cbn [map] in *.
    set (e' := mkE (f (eid e)) (esup e) (epv e) (ecom e)) in *.
    assert (Dc : degree (set_lens f c) = 3) by now rewrite set_lens_degree.
    destruct (set_lens f c) as [n' c' sl'] eqn:Ec.
    unfold degree in Dc. simpl in Dc.
    rewrite (reroot_first_tip_root _ _ _ _ _ Dc).
    intros E. inversion E; subst.
    rewrite lens_nonneg_def in N. cbn [forallb] in N.
    apply andb_true_iff in N as [N _]. apply andb_true_iff in N as [N1 N2].
    rewrite lens_nonneg_def in *. apply forallb_replace_up; auto.
    now rewrite N1.
Qed.

(** ** number of Float64 draws of the plans *)
Lemma plan_floats_app a b : plan_floats (a ++ b) = plan_floats a + plan_floats b.
Proof. unfold plan_floats. now rewrite filter_app, app_length. Qed.

Lemma plan_floats_steps4 (f : nat -> nat) l :
  plan_floats (flat_map (fun i => [DInt (f i); DFloat; DFloat; DFloat]) l) = 3 * length l.
Proof.
  induction l as [|x l IH]; [reflexivity|].
  cbn [flat_map]. rewrite plan_floats_app, IH. unfold plan_floats at 1. simpl. lia.
Qed.
Lemma plan_floats_steps3 {A} (l : list A) :
  plan_floats (flat_map (fun _ => [DFloat; DFloat; DFloat]) l) = 3 * length l.
Proof.
  induction l as [|x l IH]; [reflexivity|].
  cbn [flat_map]. rewrite plan_floats_app, IH. unfold plan_floats at 1. simpl. lia.
Qed.
Lemma init_plan_floats rooted : plan_floats (init_plan rooted) = if rooted then 2 else 1.
Proof. now destruct rooted. Qed.

Lemma uniform_plan_floats n rooted : 3 <= n ->
  plan_floats (uniform_plan n rooted) = (if rooted then 2 else 1) + 3 * (n - 2).
Proof.
  intros H. unfold uniform_plan. rewrite small_false by auto.
  now rewrite plan_floats_app, init_plan_floats, plan_floats_steps4, seq_length.
Qed.
Lemma yule_plan_floats n rooted : 3 <= n ->
  plan_floats (yule_plan n rooted) = (if rooted then 2 else 1) + 3 * (n - 2).
Proof.
  intros H. unfold yule_plan. rewrite small_false by auto.
  now rewrite plan_floats_app, init_plan_floats, (plan_floats_steps4 (fun i => i)), seq_length.
Qed.
Lemma caterpillar_plan_floats n rooted : 3 <= n ->
  plan_floats (caterpillar_plan n rooted) = (if rooted then 2 else 1) + 3 * (n - 2).
Proof.
  intros H. unfold caterpillar_plan. rewrite small_false by auto.
  now rewrite plan_floats_app, init_plan_floats, plan_floats_steps3, seq_length.
Qed.

(** ** the three insertion generators *)
Theorem uniform_tree_lens n rooted cs ls t :
  3 <= n -> in_bounds cs (uniform_bounds n rooted) ->
  length ls = plan_floats (uniform_plan n rooted) -> Forall nonneg ls ->
  uniform_tree n rooted cs ls = GOk t -> lens_nonneg t = true.
Proof.
  intros Hn Hb Hl Hnn. rewrite uniform_bounds_eq in Hb by auto.
  assert (L : length cs = n - 2).
  { apply in_bounds_length in Hb. now rewrite map_length, seq_length in Hb. }
  unfold uniform_tree.
  destruct (Nat.ltb_spec n 3); [lia|]. cbn [andb].
  rewrite L, Nat.eqb_refl. cbn [negb].
  assert (I : inv rooted (2 + length cs) (unif_loop 2 cs (init_state rooted))).
  { apply unif_loop_inv; [lia|apply inv_init|now rewrite L]. }
  replace (2 + length cs) with n in I by lia.
  apply (close_state_lens rooted n); auto.
  rewrite (inv_asg_len _ _ _ I), Hl, uniform_plan_floats; auto.
Qed.

Theorem yule_tree_lens n rooted cs ls t :
  3 <= n -> in_bounds cs (yule_bounds n rooted) ->
  length ls = plan_floats (yule_plan n rooted) -> Forall nonneg ls ->
  yule_tree n rooted cs ls = GOk t -> lens_nonneg t = true.
Proof.
  intros Hn Hb Hl Hnn. rewrite yule_bounds_eq in Hb by auto.
  assert (L : length cs = n - 2).
  { apply in_bounds_length in Hb. now rewrite seq_length in Hb. }
  unfold yule_tree.
  destruct (Nat.ltb_spec n 3); [lia|]. cbn [andb].
  rewrite L, Nat.eqb_refl. cbn [negb].
  destruct (yule_loop_inv rooted cs 2 (init_state rooted)) as [st [E I]];
    [lia|apply inv_init|now rewrite L|].
  rewrite E. replace (2 + length cs) with n in I by lia.
  apply (close_state_lens rooted n); auto.
  rewrite (inv_asg_len _ _ _ I), Hl, yule_plan_floats; auto.
Qed.

Theorem caterpillar_tree_lens n rooted ls t :
  3 <= n -> length ls = plan_floats (caterpillar_plan n rooted) -> Forall nonneg ls ->
  caterpillar_tree n rooted ls = GOk t -> lens_nonneg t = true.
Proof.
  intros Hn Hl Hnn. unfold caterpillar_tree.
  destruct (Nat.ltb_spec n 3); [lia|]. cbn [andb].
  destruct (cat_loop_inv rooted (n - 2) 2 (init_state rooted)) as [st [E I]]; [lia|apply inv_init|].
  rewrite E. replace (2 + (n - 2)) with n in I by lia.
  apply (close_state_lens rooted n); auto.
  rewrite (inv_asg_len _ _ _ I), Hl, caterpillar_plan_floats; auto.
Qed.
