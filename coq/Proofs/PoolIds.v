(** Model/PoolIds.v: with the record's own id every result is labelled with the id of the record
    it was computed from, under every schedule; with a shared counter read after the receive the
    labels of two results can be exchanged. *)
From Coq Require Import Bool Arith Lia List.
From GT Require Import Model.Pool Model.PoolIds Proofs.Pool.
Import ListNotations.

Local Arguments ipending {payload res} _.
Local Arguments iclosed {payload res} _.
Local Arguments iqueue {payload res} _.
Local Arguments iws {payload res} _.
Local Arguments icounter {payload res} _.
Local Arguments iout {payload res} _.
Local Arguments mkI {payload res}.
Local Arguments istep {payload res}.
Local Arguments irun {payload res}.
Local Arguments iinit {payload res}.
Local Arguments iworker_step {payload res}.
Local Arguments iproducer_step {payload res}.

Section IdsProofs.
  Variables (payload res : Type).
  Variable f : payload -> res.

  Local Notation state := (ist payload res).
  Local Notation job := (ijob payload).
  Local Notation stepf := (istep f true).
  Local Notation runf := (irun f true).

  Variable jobs : list job.

  (** a result (k, r) is correctly labelled *)
  Definition labelled (x : nat * res) : Prop :=
    exists j, In j jobs /\ fst x = fst j /\ snd x = f (snd j).

  Definition wok (w : istate payload) : Prop :=
    match w with
    | IGot j => In j jobs
    | IBusy j k => In j jobs /\ k = fst j
    | _ => True
    end.

  Record iinv (s : state) : Prop := mkII {
    ii_pend : forall j, In j (ipending s) -> In j jobs;
    ii_queue : forall j, In j (iqueue s) -> In j jobs;
    ii_ws : forall w, In w (iws s) -> wok w;
    ii_out : forall x, In x (iout s) -> labelled x
  }.

  Lemma in_set_nth {A} (l : list A) i x y : In y (set_nth i x l) -> y = x \/ In y l.
  Proof.
    unfold set_nth. intros H. apply in_app_or in H. destruct H as [H|H].
    - right. rewrite <- (firstn_skipn i l). apply in_or_app. left. exact H.
    - destruct (skipn i l) as [|z r] eqn:E; [destruct H|].
      destruct H as [H|H]; auto. right.
      rewrite <- (firstn_skipn i l). apply in_or_app. right. rewrite E. right. exact H.
  Qed.

  Lemma iinv_step s a : iinv s -> iinv (stepf s a).
  Proof.
    intros Hs. pose proof Hs as [Hp Hq Hw Ho]. destruct a as [|i]; simpl.
    - unfold iproducer_step. destruct (ipending s) as [|j p] eqn:P; split; simpl; auto.
      + intros j' H. apply Hp. right. exact H.
      + intros j' H. apply in_app_or in H. destruct H as [H|[<-|[]]]; auto. apply Hp. left. reflexivity.
    - unfold iworker_step. destruct (nth_error (iws s) i) as [w|] eqn:E; [|exact Hs].
      pose proof (Hw w (nth_error_In _ _ E)) as Hwok.
      destruct w as [|j|j k|]; [| | |exact Hs].
      + destruct (iqueue s) as [|j q] eqn:Q.
        * destruct (iclosed s); [|exact Hs]. split; simpl; auto; try (intros j' []; fail).
          intros w H. apply in_set_nth in H. destruct H as [->|H]; simpl; auto.
        * split; simpl; auto.
          -- intros j' H. apply Hq. right. exact H.
          -- intros w H. apply in_set_nth in H. destruct H as [->|H]; auto.
             simpl. apply Hq. left. reflexivity.
      + split; simpl; auto.
        intros w H. apply in_set_nth in H. destruct H as [->|H]; auto. simpl. auto.
      + split; simpl; auto.
        * intros w H. apply in_set_nth in H. destruct H as [->|H]; simpl; auto.
        * intros x H. apply in_app_or in H. destruct H as [H|[<-|[]]]; auto.
          destruct Hwok as [Hj ->]. exists j. auto.
  Qed.

  (** every result carries the id of the record it was computed from *)
  Lemma results_labelled n sched : forall x, In x (iout (runf sched (iinit jobs n))) -> labelled x.
  Proof.
    assert (G : forall sched s, iinv s -> iinv (runf sched s)).
    { induction sched0 as [|a sc IH]; intros s H; simpl; auto. apply IH, iinv_step, H. }
    assert (I0 : iinv (iinit jobs n)).
    { split; simpl; auto.
      - intros j [].
      - intros w H. apply repeat_spec in H. subst. exact I.
      - intros x []. }
    apply (ii_out _ (G sched _ I0)).
  Qed.
End IdsProofs.
