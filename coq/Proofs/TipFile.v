(** C06, CLI layer: a model of cmd/root.go parseStringFile / parseTipsFile.
    Readln glues the pieces bufio.ReadLine returns for a long line ([readln]); every line is split at
    the commas and the pieces are appended ([parse_lines]).  Theorem: however the names are grouped
    into comma-separated lines, and however long lines are cut into pieces by the reader, the
    parsed list is the list of names, so the set of pruned tips does not depend on the layout. *)
From Coq Require Import String Ascii Bool Arith List.
From GT Require Import Model.TipFile.
Import ListNotations.
Local Open Scope string_scope.

Lemma split_on_nonempty c s : split_on c s <> [].
Proof. destruct s; simpl; [discriminate|]. destruct (Ascii.eqb a c); [discriminate|]. destruct (split_on c s); discriminate. Qed.

Lemma split_on_plain c x : has_char c x = false -> split_on c x = [x].
Proof.
  induction x as [|a r IH]; simpl; auto. intros H. apply orb_false_iff in H. destruct H as [H1 H2].
  rewrite H1, (IH H2). reflexivity.
Qed.

Lemma split_on_app c x y :
  has_char c x = false -> split_on c (x ++ String c y) = x :: split_on c y.
Proof.
  induction x as [|a r IH]; simpl; intros H.
  - now rewrite Ascii.eqb_refl.
  - apply orb_false_iff in H. destruct H as [H1 H2]. rewrite H1, (IH H2). reflexivity.
Qed.

Lemma split_join c l :
  l <> [] -> (forall x, In x l -> has_char c x = false) -> split_on c (join c l) = l.
Proof.
  induction l as [|x r IH]; intros Hne H; [congruence|].
  destruct r as [|y r'].
  - simpl. apply split_on_plain. apply H. now left.
  - change (join c (x :: y :: r')) with (x ++ String c (join c (y :: r'))).
    rewrite split_on_app by (apply H; now left). f_equal. apply IH; [discriminate|].
    intros z Hz. apply H. now right.
Qed.

(** the grouping into lines does not matter *)
Theorem parse_layout_independent c (groups : list (list string)) :
  (forall g, In g groups -> g <> []) ->
  (forall g x, In g groups -> In x g -> has_char c x = false) ->
  parse_lines c (map (join c) groups) = concat groups.
Proof.
  intros Hne Hc. unfold parse_lines. induction groups as [|g gs IH]; simpl; auto.
  rewrite split_join.
  - f_equal. apply IH; intros; [apply Hne|eapply Hc]; simpl; eauto.
  - apply Hne. now left.
  - intros x Hx. apply (Hc g x); simpl; auto.
Qed.

(** two layouts of the same names give the same parsed list: one name per line, all on one line,
    or anything in between *)
Corollary parse_any_two_layouts c (g1 g2 : list (list string)) :
  (forall g, In g g1 -> g <> []) -> (forall g, In g g2 -> g <> []) ->
  (forall g x, In g g1 -> In x g -> has_char c x = false) ->
  (forall g x, In g g2 -> In x g -> has_char c x = false) ->
  concat g1 = concat g2 ->
  parse_lines c (map (join c) g1) = parse_lines c (map (join c) g2).
Proof. intros. rewrite !parse_layout_independent; auto. Qed.

(** a blank line contributes the empty name (which is no tip: absent names are ignored) *)
Lemma parse_blank_line c : parse_lines c [EmptyString] = [EmptyString].
Proof. reflexivity. Qed.

Lemma app_assoc_s (a b c : string) : (a ++ b) ++ c = a ++ (b ++ c).
Proof. induction a; simpl; auto. now rewrite IHa. Qed.

(** however the reader cuts a long line into pieces, Readln returns the line *)
Lemma readln_pieces a b : readln (a ++ b) = readln a ++ readln b.
Proof.
  unfold readln. induction a as [|x a IH]; simpl; auto. rewrite IH. now rewrite app_assoc_s.
Qed.
Theorem readln_independent_of_cut (p1 p2 : list string) :
  readln p1 = readln p2 -> split_on "," (readln p1) = split_on "," (readln p2).
Proof. intros ->. reflexivity. Qed.
Lemma readln_two_cuts x y z : readln [x ++ y; z] = readln [x; y ++ z].
Proof. unfold readln. simpl. now rewrite !app_assoc_s. Qed.

Example parse_example :
  parse_lines "," ["t1,t2"; "t3"; ""; "t4,t5,t6"] = ["t1"; "t2"; "t3"; ""; "t4"; "t5"; "t6"] /\
  parse_lines "," ["t1"; "t2"; "t3"; ""; "t4"; "t5"; "t6"] = ["t1"; "t2"; "t3"; ""; "t4"; "t5"; "t6"].
Proof. split; reflexivity. Qed.
