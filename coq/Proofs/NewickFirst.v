(** Reading "the first tree" of a Newick file whose first line is a written tree gives the
    first record of the multi-tree reader: the single-tree parser stops at the ';' that ends
    the writer's text, whatever follows (generalisation of C01's root_steps / parse_raw_write
    to an arbitrary continuation; the proof of [root_steps_k] follows Proofs/NewickRound.v). *)
From Coq Require Import String Ascii ZArith QArith Bool Arith Lia List.
From GT Require Import Base.UTree Model.Newick Spec.NewickSpec Model.MultiTree
     Proofs.NewickLex Proofs.NewickFuel Proofs.NewickStep Proofs.NewickCanon Proofs.NewickTrim Proofs.NewickRound
     Proofs.NewickUtf8 Proofs.NewickTheorem Proofs.MultiTree Proofs.MultiTreeSpec.
Import ListNotations.
Local Close Scope Q_scope.
Local Open Scope string_scope.

Section First.
  Variable fmt : Q -> string.
  Variable numeric : string -> bool.
  Variable parse_num : string -> option Q.
  Variable numok : Q -> bool.
  Hypothesis SC : strconv_ok fmt numeric parse_num numok.

  Notation step := (step numeric parse_num).
  Notation steps := (steps numeric parse_num).
  Notation joinF := (joinF fmt).
  Notation ckids := (ckids fmt parse_num).
  Notation addkids := (addkids fmt parse_num).
  Notation SubP := (SubP fmt numeric parse_num).
  Notation canon_root := (canon_root fmt parse_num).

  Lemma root_steps_k : forall t k, wfN numeric numok t = true ->
      exists q,
        steps st0 (write fmt t ++ k) (mkS [mkF (uname t) (ucom t) (ckids (kids t)) None] None 0%Z q false) (";" ++ k).
  Proof.
    intros [n c sl] k Hwf. set (K := ";" ++ k). apply wfN_inv in Hwf. destruct Hwf as [Hup [Hlen [Hname [Hcom Hkids]]]].
    assert (HF : Forall (fun x => SubP (fst x) (snd x)) (kids_of sl)).
    { eapply Forall_impl; [|exact Hkids]. intros [e' ch'] Hx. eapply sub_all; [exact SC|exact Hx]. }
    unfold write. rewrite !app_assoc_s. change (";" ++ k) with K. rewrite write_node_eq, (n_up_length sl), Hup. simpl uname. simpl ucom. unfold kids. simpl uslots.
    destruct (kids_of sl) as [|[e1 ch1] r] eqn:Ekids; [simpl in Hlen; lia|].
    replace (Nat.ltb 1 (0 + length ((e1, ch1) :: r))) with true
      by (symmetry; apply Nat.ltb_lt; simpl in *; lia).
    set (G := addkids (mkF "" [] [] None) ((e1, ch1) :: r)).
    destruct (fields_addkids fmt parse_num ((e1, ch1) :: r) (mkF "" [] [] None)) as [G1 [G2 [G3 G4]]].
    fold G in G1, G2, G3, G4. simpl in G1, G2, G3, G4.
    assert (Hopen : steps st0
                          ((("(" ++ joinF true ((e1, ch1) :: r) ++ ")") ++ n) ++ write_coms c ++ K)
                          (mkS [G] None 0%Z (Some CLOSEPAR) false)
                          (n ++ write_coms c ++ K)).
    { replace ((("(" ++ joinF true ((e1, ch1) :: r) ++ ")") ++ n) ++ write_coms c ++ K)
        with (String "(" (joinF true ((e1, ch1) :: r) ++ String ")" (n ++ write_coms c ++ K)))
        by (simpl; rewrite !app_assoc_s; reflexivity).
      eapply steps_step; [apply step_open_root|].
      replace 0%Z with (1 - 1)%Z at 2 by reflexivity.
      apply kids_steps; [exact HF|lia]. }
    assert (Hcoms : forall f pe0, fedge f = None ->
               exists q pe', (pe' = pe0 \/ pe' = false) /\
                 steps (mkS [f] None 0%Z (Some CLOSEPAR) pe0) (write_coms c ++ K)
                       (mkS [add_ncoms c f] None 0%Z q pe') K).
    { intros f pe0 _.
      destruct (ncoms_steps numeric parse_num c K f [] None 0%Z (Some CLOSEPAR) pe0 Hcom) as [q [pe' [_ [Hpe Hs]]]];
        [left; reflexivity|].
      exists q, pe'. split; assumption. }
    destruct (String.eqb n "") eqn:En.
    - apply String.eqb_eq in En. subst n.
      destruct (Hcoms G false G3) as [q [pe' [Hpe Hs]]].
      assert (pe' = false) by (destruct Hpe; assumption). subst pe'.
      exists q. eapply steps_trans; [exact Hopen|].
      replace (mkF "" c (ckids ((e1, ch1) :: r)) None) with (add_ncoms c G); [exact Hs|].
      unfold add_ncoms. rewrite G1, G2, G3, G4. reflexivity.
    - unfold inner_name_ok in Hname. rewrite En in Hname. simpl in Hname.
      apply andb_true_iff in Hname. destruct Hname as [Hname Hnl].
      apply andb_true_iff in Hname. destruct Hname as [Hname _].
      apply andb_true_iff in Hname. destruct Hname as [Hchars Hblank].
      apply negb_true_iff in Hnl. unfold numeric_looking in Hnl.
      apply orb_false_iff in Hnl. destruct Hnl as [Hnum _].
      assert (Hlex : lexable n).
      { apply name_lexable; try assumption. intro; subst n. discriminate. }
      pose proof (step_name_root numeric parse_num n (write_coms c ++ K) G [] None 0%Z false Hlex
                                 (stops_coms c K eq_refl) Hnum G3) as Hst.
      destruct (Hcoms (set_name n G) false G3) as [q [pe' [Hpe Hs]]].
      assert (pe' = false) by (destruct Hpe; assumption). subst pe'.
      exists q. eapply steps_trans; [exact Hopen|].
      eapply steps_step; [exact Hst|].
      replace (mkF n c (ckids ((e1, ch1) :: r)) None) with (add_ncoms c (set_name n G)); [exact Hs|].
      unfold add_ncoms, set_name. simpl. rewrite G2, G3, G4. reflexivity.
  Qed.


  (** the parser stops at the ';' of the writer's text: what follows is not read *)
  Theorem parse_raw_write_k : forall t k, wfN numeric numok t = true ->
      parse_raw numeric parse_num (write fmt t ++ k) = POk (canon_root t).
  Proof.
    intros t k Hwf. destruct (root_steps_k t k Hwf) as [q Hs].
    pose proof (steps_parse_iter _ _ _ _ _ _ Hs) as Hiter.
    assert (Hw : exists r, write fmt t = String "(" r).
    { destruct t as [n c sl]. pose proof Hwf as Hwf'. apply wfN_inv in Hwf'. destruct Hwf' as [Hup [Hlen _]].
      unfold write. rewrite write_node_eq, (n_up_length sl), Hup.
      replace (Nat.ltb 1 (0 + length (kids_of sl))) with true by (symmetry; apply Nat.ltb_lt; simpl; lia).
      eexists. simpl. reflexivity. }
    destruct Hw as [r Hw].
    unfold parse_raw, parse_fuel.
    replace (scan_iw numeric (write fmt t ++ k)) with (OPENPAR, "(", r ++ k, write fmt t ++ k)
      by (rewrite Hw; reflexivity).
    cbv beta iota. simpl negb. cbv iota.
    rewrite Hiter. cbn [Newick.parse_iter String.length].
    change (";" ++ k) with (String ";" k).
    rewrite step_eot. cbv beta iota. simpl.
    change (POk (trim_tips (canon_root t)) = POk (canon_root t)).
    rewrite trim_canon_root with (numeric := numeric) (numok := numok); [reflexivity|exact Hwf].
  Qed.

  Lemma sanitize_app_ok : forall a k, tok_ok a -> utf8_sanitize (a ++ k) = a ++ utf8_sanitize k.
  Proof.
    intros a k Ha. unfold utf8_sanitize. rewrite ufold_app. unfold tok_ok in Ha. rewrite Ha.
    destruct (ufold uclean k) as [o st]. rewrite app_assoc_s. reflexivity.
  Qed.

  Theorem parse_write_k : forall t k, wfN numeric numok t = true ->
      parse numeric parse_num (write fmt t ++ k) = POk (canon_root t).
  Proof.
    intros t k Hwf. unfold parse.
    rewrite (sanitize_app_ok _ _ (tok_ok_write fmt numeric parse_num numok SC t Hwf)).
    apply parse_raw_write_k. exact Hwf.
  Qed.

  (** * first tree = head of the iteration, Newick stream *)
  Definition np_nw (s : string) : utree + string :=
    match parse numeric parse_num s with
    | POk t => inl t
    | PErr m => inr m
    | POutOfFuel => inr "out of fuel"
    end.

  Lemma write_ends_semi : forall t, exists b, write fmt t = b ++ ";".
  Proof. intros t. unfold write. eexists. rewrite <- app_assoc_s. reflexivity. Qed.

  (** a file whose first line is the text of a tree inside C01's quantifier, followed by anything: ReadTreeReader and the
      first record of ReadMultiTrees deliver that tree.  (The agreement of the two readers itself needs no hypothesis on
      the layout any more: Proofs/MultiTree.v, first_tree_is_head.) *)
  Theorem newick_first_is_head : forall t lines,
      wfN numeric numok t = true ->
      first_tree_newick np_nw (whole_lines (write fmt t :: lines)) = inl (canon_root t) /\
      head_multi (read_multi np_nw (whole_lines (write fmt t :: lines))) = Some (ITree 0 (canon_root t)).
  Proof.
    intros t lines Hwf. split.
    - destruct (write_ends_semi t) as [b Hb].
      assert (E : ends_semi (write fmt t) = true).
      { rewrite Hb. apply (ends_semi_true b ""). reflexivity. }
      pose proof (rus_lines (write fmt t :: lines)) as R. cbn [first_close append] in R. rewrite E in R.
      unfold first_tree_newick. rewrite R. unfold np_nw.
      rewrite (parse_write fmt numeric parse_num numok SC t Hwf). reflexivity.
    - rewrite read_multi_lines. cbn [split_lines append].
      destruct (write_ends_semi t) as [b Hb].
      assert (E : ends_semi (write fmt t) = true).
      { rewrite Hb. apply (ends_semi_true b ""). reflexivity. }
      rewrite E. cbn [deliver]. unfold np_nw at 1.
      rewrite (parse_write fmt numeric parse_num numok SC t Hwf). reflexivity.
  Qed.
End First.
