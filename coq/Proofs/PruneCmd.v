(** C06: RemoveTips does not depend on the tip-name table it finds (the theorem behind "judged on the
    tree dumped just before the call"), and the multi-tree command is the single-tree pruning of
    every input tree, so every output tree satisfies the oracle with respect to ITS input tree. *)
From Coq Require Import String ZArith QArith Bool Arith Lia List Permutation.
From GT Require Import Base.UTree Spec.Obs Spec.Induced Model.Reroot Model.Prune Model.PruneCmd
     Proofs.Prune Proofs.PruneTotal Proofs.PruneOracle Proofs.OracleSets.
Import ListNotations.
Local Close Scope Q_scope.
Local Arguments leaves : simpl never.

(** whatever the table was (empty, stale after a graft or a SetName, left by an earlier RemoveTips or
    copied by Clone), the pruned tree and the table afterwards are the same *)
Theorem remove_tips_index_irrelevant idx idx' revert names t :
  remove_tips_indexed idx revert names t = remove_tips_indexed idx' revert names t.
Proof. unfold remove_tips_indexed, tip_index_after. reflexivity. Qed.

Theorem remove_tips_indexed_tree idx revert names t t' idx1 :
  remove_tips_indexed idx revert names t = Ok (t', idx1) ->
  remove_tips revert names t = Ok t' /\ idx1 = tip_names t'.
Proof.
  unfold remove_tips_indexed, tip_index_after. destruct (remove_tips revert names t); intros H; inversion H; auto.
Qed.

(** the command on a file of trees *)
Theorem prune_file_each revert names : forall ts outs,
    prune_file revert names ts = Ok outs ->
    Forall2 (fun t t' => remove_tips revert names t = Ok t') ts outs.
Proof.
  induction ts as [|t r IH]; simpl; intros outs H.
  - inversion H. constructor.
  - destruct (remove_tips revert names t) as [t'|m] eqn:E; [|discriminate].
    destruct (prune_file revert names r) as [l|m]; [|discriminate]. inversion H; subst. constructor; auto.
Qed.

Theorem prune_file_comp_each revert comp : forall ts outs,
    prune_file_comp revert comp ts = Ok outs ->
    Forall2 (fun t t' => remove_tips revert (specific_tips t comp) t = Ok t') ts outs.
Proof.
  induction ts as [|t r IH]; simpl; intros outs H.
  - inversion H. constructor.
  - destruct (remove_tips revert (specific_tips t comp) t) as [t'|m] eqn:E; [|discriminate].
    destruct (prune_file_comp revert comp r) as [l|m]; [|discriminate]. inversion H; subst. constructor; auto.
Qed.

Definition dom (t : utree) : Prop :=
  wf t = true /\ no_single t = true /\ 2 <= degree t /\ NoDup (leaves t).

Definition accepted (revert : bool) (names : list string) (t t' : utree) : Prop :=
  let R := ssort (filter (kept revert names) (leaves t)) in
  wf t' = true /\ induced_tips t' R = true /\ no_single t' = true /\
  induced_splits t t' R = true /\ induced_dists t t' R = true.

(** every output tree is accepted by the oracle of Judge/C06.v with respect to its own input tree *)
Theorem prune_file_oracle revert names ts outs :
  Forall dom ts -> prune_file revert names ts = Ok outs ->
  Forall2 (accepted revert names) ts outs.
Proof.
  intros Hd H. apply prune_file_each in H. induction H as [|t t' r l E _ IH]; [constructor|].
  inversion Hd as [|? ? [H1 [H2 [H3 H4]]] Hr]; subst. constructor; [|now apply IH].
  unfold accepted. now apply remove_tips_oracle.
Qed.

Theorem prune_file_comp_oracle revert comp ts outs :
  Forall dom ts -> prune_file_comp revert comp ts = Ok outs ->
  Forall2 (fun t t' => accepted revert (specific_tips t comp) t t') ts outs.
Proof.
  intros Hd H. apply prune_file_comp_each in H. induction H as [|t t' r l E _ IH]; [constructor|].
  inversion Hd as [|? ? [H1 [H2 [H3 H4]]] Hr]; subst. constructor; [|now apply IH].
  unfold accepted. now apply remove_tips_oracle.
Qed.

(** with -c (no -r) the tips that remain in a tree are its tips that are tips of the compared tree *)
Theorem comp_kept t comp x :
  wf t = true -> 2 <= degree t -> In x (leaves t) ->
  kept false (specific_tips t comp) x = name_in x (tip_names comp).
Proof.
  intros Hw Hd Hx. unfold kept, selected, specific_tips. rewrite (tip_names_leaves t) by auto.
  destruct (name_in x (tip_names comp)) eqn:E.
  - apply negb_true_iff. apply name_in_false. intros Hin. apply filter_In in Hin. rewrite E in Hin. destruct Hin; discriminate.
  - apply negb_false_iff. apply name_in_In. apply filter_In. rewrite E. auto.
Qed.
