(** C16, AllTopologies (tree/treegen.go), model in Model/TreeGen.v:
    - the number of trees returned is (2n-5)!! (unrooted) / (2n-3)!! (rooted);
    - every returned tree is well formed, binary (resp. planted binary) and has exactly the
      requested tips.
    Distinctness of the returned topologies is in TreeGenTopo2.v. *)
From Coq Require Import String Ascii ZArith QArith Bool Arith Lia List Permutation.
From GT Require Import Base.UTree Spec.Obs Spec.GenShape Spec.Unrooted Model.Reroot Model.Rand2
     Model.TreeGen Proofs.RerootBase.
Import ListNotations.
Local Close Scope Q_scope.
Local Open Scope list_scope.
Local Arguments n_up : simpl never.

(** * The inner loop of [grafts] as a top-level function *)
Fixpoint grafts_go (tip : utree) (n : string) (c : list string) (pre l : list slot) {struct l}
  : list utree :=
  match l with
  | [] => []
  | None :: r => grafts_go tip n c (pre ++ [None]) r
  | Some (e, ch) :: r =>
    UNode n c (pre ++ Some (eL nilv, graft_node (eL nilv) (eL nilv) tip ch) :: r)
    :: map (fun ch' => UNode n c (pre ++ Some (e, ch') :: r)) (grafts tip ch)
    ++ grafts_go tip n c (pre ++ [Some (e, ch)]) r
  end.

Lemma grafts_go_eq tip n c l : forall pre,
  (fix go (pre : list slot) (l : list slot) : list utree :=
     match l with
     | [] => []
     | None :: r => go (pre ++ [None]) r
     | Some (e, ch) :: r =>
       UNode n c (pre ++ Some (eL nilv, graft_node (eL nilv) (eL nilv) tip ch) :: r)
       :: map (fun ch' => UNode n c (pre ++ Some (e, ch') :: r)) (grafts tip ch)
       ++ go (pre ++ [Some (e, ch)]) r
     end) pre l = grafts_go tip n c pre l.
Proof.
  induction l as [|[[e ch]|] r IH]; intros pre.
  - reflexivity.
  - simpl grafts_go. rewrite <- IH. reflexivity.
  - simpl grafts_go. rewrite <- IH. reflexivity.
Qed.

Lemma grafts_unfold tip n c sl : grafts tip (UNode n c sl) = grafts_go tip n c [] sl.
Proof. exact (grafts_go_eq tip n c sl []). Qed.

(** * Counting *)
(** number of branches (= [Some] slots) of the whole tree *)
Definition slots_edges (f : utree -> nat) (sl : list slot) : nat :=
  fold_right (fun s acc => match s with Some (_, c) => S (f c) + acc | None => acc end) 0 sl.
Fixpoint n_edges (t : utree) : nat :=
  match t with
  | UNode _ _ sl =>
    fold_right (fun s acc => match s with Some (_, c) => S (n_edges c) + acc | None => acc end) 0 sl
  end.

Lemma n_edges_unfold n c sl : n_edges (UNode n c sl) = slots_edges n_edges sl.
Proof. reflexivity. Qed.

Lemma slots_edges_app f a b : slots_edges f (a ++ b) = slots_edges f a + slots_edges f b.
Proof. induction a as [|[[e ch]|] r IH]; simpl; auto. rewrite IH. lia. Qed.

Lemma grafts_go_count tip n c l :
  Forall (fun s => match s with
                   | Some (_, t) => length (grafts tip t) = n_edges t /\
                                    Forall (fun t' => n_edges t' = n_edges t + 2 + n_edges tip) (grafts tip t)
                   | None => True end) l ->
  forall pre,
    length (grafts_go tip n c pre l) = slots_edges n_edges l /\
    Forall (fun t' => n_edges t' = slots_edges n_edges pre + slots_edges n_edges l + 2 + n_edges tip)
           (grafts_go tip n c pre l).
Proof.
  induction 1 as [|[[e ch]|] r Hs Hr IH]; intros pre.
  - simpl. split; auto.
  - destruct Hs as [Hl Hf]. destruct (IH (pre ++ [Some (e, ch)])) as [IHl IHf].
    simpl grafts_go. split.
    + simpl. rewrite app_length, map_length, Hl, IHl. lia.
    + constructor; [|apply Forall_app; split].
      * rewrite n_edges_unfold, slots_edges_app. simpl. lia.
      * apply Forall_map. eapply Forall_impl; [|exact Hf]. intros t' Ht'. simpl in Ht'.
        rewrite n_edges_unfold, slots_edges_app. simpl. lia.
      * eapply Forall_impl; [|exact IHf]. intros t' Ht'. simpl in Ht'.
        rewrite Ht', slots_edges_app. simpl. lia.
  - destruct (IH (pre ++ [None])) as [IHl IHf]. simpl grafts_go. split.
    + exact IHl.
    + eapply Forall_impl; [|exact IHf]. intros t' Ht'. simpl in Ht'.
      rewrite Ht', slots_edges_app. simpl. lia.
Qed.

Lemma grafts_count tip t :
  length (grafts tip t) = n_edges t /\
  Forall (fun t' => n_edges t' = n_edges t + 2 + n_edges tip) (grafts tip t).
Proof.
  induction t as [n c sl IH] using utree_ind'.
  rewrite grafts_unfold. destruct (grafts_go_count tip n c sl IH []) as [H1 H2].
  split; [exact H1|]. eapply Forall_impl; [|exact H2]. intros t' Ht'. simpl in Ht'.
  rewrite Ht', n_edges_unfold. lia.
Qed.

(** one tree per branch *)
Theorem grafts_length tip t : length (grafts tip t) = n_edges t.
Proof. apply grafts_count. Qed.

(** every graft adds two branches *)
Theorem grafts_n_edges nm t :
  Forall (fun t' => n_edges t' = n_edges t + 2) (grafts (tip_node nm) t).
Proof.
  eapply Forall_impl; [|apply (grafts_count (tip_node nm) t)].
  intros t' Ht'. simpl in Ht'. lia.
Qed.

(** [n_edges] is the length of Tree.Edges() as soon as the nodes of degree <= 1 below the root
    have no child, e.g. when they are well formed *)
Lemma edges_below_n_edges t :
  sub_all wf_sub (uslots t) = true -> length (edges_below t) = n_edges t.
Proof.
  induction t as [n c sl IH] using utree_ind'. simpl uslots.
  simpl edges_below. rewrite n_edges_unfold.
  induction sl as [|[[e ch]|] r IHr]; simpl; intros H; auto.
  - apply andb_prop in H. destruct H as [Hc Hr]. inversion IH as [|? ? Hch IH']; subst.
    rewrite app_length, (IHr IH' Hr). simpl. f_equal. f_equal.
    destruct ch as [n' c' sl']. unfold degree. simpl uslots.
    assert (Hsub : sub_all wf_sub sl' = true) by (simpl in Hc; apply andb_prop in Hc; apply Hc).
    rewrite wf_sub_unfold in Hc. apply andb_prop in Hc. destruct Hc as [Hup Hk].
    apply Nat.eqb_eq in Hup.
    destruct (Nat.ltb 1 (length sl')) eqn:E.
    + apply Hch. exact Hsub.
    + apply Nat.ltb_ge in E. rewrite length_slots, Hup in E.
      assert (Hk0 : kids_of sl' = []) by (destruct (kids_of sl'); [reflexivity|simpl in E; lia]).
      rewrite n_edges_unfold. clear - Hk0.
      induction sl' as [|[[e ch]|] r IH]; simpl in *; auto; discriminate.
  - inversion IH; subst. auto.
Qed.

Theorem grafts_length_edges tip t :
  sub_all wf_sub (uslots t) = true -> length (grafts tip t) = length (edges_below t).
Proof. intros H. now rewrite grafts_length, edges_below_n_edges. Qed.

(** [m (m+2) ... (m + 2 (fuel-1))] *)
Fixpoint topo_count (fuel m : nat) : nat :=
  match fuel with O => 1 | S f => m * topo_count f (m + 2) end.

Lemma length_flat_map_const {A B} (f : A -> list B) k l :
  Forall (fun x => length (f x) = k) l -> length (flat_map f l) = length l * k.
Proof.
  induction 1 as [|x r Hx Hr IH]; simpl; auto. rewrite app_length, Hx, IH. lia.
Qed.

Lemma topo_rec_length names fuel : forall total t,
  length (topo_rec fuel names total t) = topo_count fuel (n_edges t).
Proof.
  induction fuel as [|f IH]; intros total t; simpl; auto.
  rewrite (length_flat_map_const _ (topo_count f (n_edges t + 2))).
  - now rewrite grafts_length.
  - eapply Forall_impl; [|apply grafts_n_edges]. intros t' Ht'. simpl in Ht'.
    now rewrite IH, Ht'.
Qed.

Lemma odd_fact_topo_count fuel : forall k,
  odd_fact (k + fuel) = odd_fact k * topo_count fuel (2 * k + 1).
Proof.
  induction fuel as [|f IH]; intros k.
  - simpl. rewrite Nat.add_0_r. lia.
  - replace (k + S f) with (S k + f) by lia. rewrite IH.
    replace (2 * S k + 1) with (2 * k + 1 + 2) by lia.
    change (odd_fact (S k)) with ((2 * k + 1) * odd_fact k).
    change (topo_count (S f) (2 * k + 1)) with ((2 * k + 1) * topo_count f (2 * k + 1 + 2)).
    lia.
Qed.

Theorem all_topologies_unrooted_length_names n names : 3 <= n -> names = [] \/ length names = n ->
  exists ts, all_topologies n false names = Ok ts /\ length ts = n_unrooted n.
Proof.
  intros Hn Hnames. unfold all_topologies.
  assert (E1 : Nat.ltb n 3 = false) by (apply Nat.ltb_ge; lia).
  assert (E2 : (Nat.ltb 0 (length names) && negb (Nat.eqb (length names) n)) = false).
  { destruct Hnames as [->|H]; [reflexivity|]. rewrite H, Nat.eqb_refl. apply andb_false_r. }
  rewrite E1, E2. rewrite andb_false_r. simpl andb. cbv iota.
  eexists; split; [reflexivity|].
  rewrite topo_rec_length. unfold n_unrooted.
  replace (n - 2) with (1 + (n - 3)) by lia. rewrite odd_fact_topo_count.
  simpl n_edges. simpl odd_fact. simpl (2 * 1 + 1). lia.
Qed.

Theorem all_topologies_rooted_length_names n names : 2 <= n -> names = [] \/ length names = n ->
  exists ts, all_topologies n true names = Ok ts /\ length ts = n_rooted n.
Proof.
  intros Hn Hnames. unfold all_topologies.
  assert (E1 : Nat.ltb n 2 = false) by (apply Nat.ltb_ge; lia).
  assert (E2 : (Nat.ltb 0 (length names) && negb (Nat.eqb (length names) n)) = false).
  { destruct Hnames as [->|H]; [reflexivity|]. rewrite H, Nat.eqb_refl. apply andb_false_r. }
  rewrite E1, E2. rewrite andb_false_r. simpl andb. cbv iota.
  eexists; split; [reflexivity|].
  rewrite topo_rec_length. unfold n_rooted.
  replace (n - 1) with (0 + (n - 1)) at 2 by lia. rewrite odd_fact_topo_count.
  simpl n_edges. simpl odd_fact. simpl (2 * 0 + 1). lia.
Qed.

Theorem all_topologies_unrooted_length n : 3 <= n ->
  exists ts, all_topologies n false [] = Ok ts /\ length ts = n_unrooted n.
Proof. intros H. apply all_topologies_unrooted_length_names; auto. Qed.

Theorem all_topologies_rooted_length n : 2 <= n ->
  exists ts, all_topologies n true [] = Ok ts /\ length ts = n_rooted n.
Proof. intros H. apply all_topologies_rooted_length_names; auto. Qed.

Theorem all_topologies_unrooted_err n names : n < 3 ->
  exists m, all_topologies n false names = Err m.
Proof.
  intros H. unfold all_topologies. apply Nat.ltb_lt in H. rewrite H. simpl. eauto.
Qed.

Theorem all_topologies_rooted_err n names : n < 2 ->
  exists m, all_topologies n true names = Err m.
Proof.
  intros H. unfold all_topologies. apply Nat.ltb_lt in H. rewrite H.
  rewrite andb_false_r. simpl. eauto.
Qed.

Theorem all_topologies_names_err n rooted names :
  names <> [] -> length names <> n -> exists m, all_topologies n rooted names = Err m.
Proof.
  intros H1 H2. unfold all_topologies.
  destruct (Nat.ltb n 3 && negb rooted); [eauto|].
  destruct (Nat.ltb n 2 && rooted); [eauto|].
  assert (E : (Nat.ltb 0 (length names) && negb (Nat.eqb (length names) n)) = true).
  { apply andb_true_intro; split.
    - apply Nat.ltb_lt. destruct names; [congruence|simpl; lia].
    - apply negb_true_iff, Nat.eqb_neq, H2. }
  rewrite E. eauto.
Qed.

(** * The trees *)
Lemma sub_all_app p a b : sub_all p (a ++ b) = sub_all p a && sub_all p b.
Proof. apply forallb_app. Qed.

Lemma sub_all_kids p sl : sub_all p sl = forallb (fun q => p (snd q)) (kids_of sl).
Proof. induction sl as [|[[e ch]|] r IH]; simpl; auto. now rewrite IH. Qed.

Lemma wf_sub_eq n c sl : wf_sub (UNode n c sl) = Nat.eqb (n_up sl) 1 && sub_all wf_sub sl.
Proof. reflexivity. Qed.
Lemma wf_eq n c sl : wf (UNode n c sl) = Nat.eqb (n_up sl) 0 && sub_all wf_sub sl.
Proof. reflexivity. Qed.
Lemma bin_sub_eq n c sl :
  bin_sub (UNode n c sl) = (Nat.eqb (length sl) 1 || Nat.eqb (length sl) 3) && sub_all bin_sub sl.
Proof. reflexivity. Qed.

Lemma leaves_kleaves t : kids t <> [] -> leaves t = kleaves (kids t).
Proof.
  destruct t as [n c sl]. unfold kids. simpl uslots. intros H. rewrite leaves_unfold.
  destruct (kids_of sl); [congruence|reflexivity].
Qed.

(** what one graft does to the node it is applied to *)
Definition graft_ok (nm : string) (t t' : utree) : Prop :=
  uname t' = uname t /\ ucom t' = ucom t /\
  n_up (uslots t') = n_up (uslots t) /\ length (uslots t') = length (uslots t) /\
  kids t <> [] /\ kids t' <> [] /\
  sub_all wf_sub (uslots t') = true /\ sub_all bin_sub (uslots t') = true /\
  Permutation (kleaves (kids t')) (nm :: kleaves (kids t)).

Lemma replace_child_ok nm n c pre e ch e' ch' r :
  wf_sub ch' = true -> bin_sub ch' = true -> Permutation (leaves ch') (nm :: leaves ch) ->
  sub_all wf_sub (pre ++ Some (e, ch) :: r) = true ->
  sub_all bin_sub (pre ++ Some (e, ch) :: r) = true ->
  graft_ok nm (UNode n c (pre ++ Some (e, ch) :: r)) (UNode n c (pre ++ Some (e', ch') :: r)).
Proof.
  intros Hw Hb Hp Hsw Hsb.
  rewrite sub_all_app in Hsw, Hsb. simpl in Hsw, Hsb.
  apply andb_prop in Hsw. destruct Hsw as [Hsw1 Hsw2]. apply andb_prop in Hsw2. destruct Hsw2 as [_ Hsw2].
  apply andb_prop in Hsb. destruct Hsb as [Hsb1 Hsb2]. apply andb_prop in Hsb2. destruct Hsb2 as [_ Hsb2].
  unfold graft_ok, kids. simpl uname. simpl ucom. simpl uslots.
  repeat split.
  - rewrite !n_up_app, !n_up_cons. reflexivity.
  - rewrite !app_length. reflexivity.
  - rewrite kids_of_app. simpl. intros E. apply app_eq_nil in E. destruct E; discriminate.
  - rewrite kids_of_app. simpl. intros E. apply app_eq_nil in E. destruct E; discriminate.
  - rewrite sub_all_app. simpl. now rewrite Hsw1, Hw, Hsw2.
  - rewrite sub_all_app. simpl. now rewrite Hsb1, Hb, Hsb2.
  - rewrite !kids_of_app. simpl. rewrite !kleaves_app. simpl.
    rewrite Hp. simpl. symmetry. apply Permutation_middle.
Qed.

Lemma graft_node_facts nm ch :
  wf_sub ch = true -> bin_sub ch = true ->
  wf_sub (graft_node (eL nilv) (eL nilv) (tip_node nm) ch) = true /\
  bin_sub (graft_node (eL nilv) (eL nilv) (tip_node nm) ch) = true /\
  leaves (graft_node (eL nilv) (eL nilv) (tip_node nm) ch) = nm :: leaves ch.
Proof.
  intros Hw Hb. unfold graft_node, tip_node. repeat split.
  - rewrite wf_sub_eq. simpl. now rewrite Hw.
  - rewrite bin_sub_eq. simpl. now rewrite Hb.
  - simpl. now rewrite app_nil_r.
Qed.

Lemma grafts_go_ok nm n c l :
  Forall (fun s => match s with
                   | Some (_, t) =>
                     sub_all wf_sub (uslots t) = true -> sub_all bin_sub (uslots t) = true ->
                     Forall (graft_ok nm t) (grafts (tip_node nm) t)
                   | None => True end) l ->
  forall pre,
    sub_all wf_sub (pre ++ l) = true -> sub_all bin_sub (pre ++ l) = true ->
    Forall (graft_ok nm (UNode n c (pre ++ l))) (grafts_go (tip_node nm) n c pre l).
Proof.
  induction 1 as [|[[e ch]|] r Hs Hr IH]; intros pre Hsw Hsb.
  - constructor.
  - simpl grafts_go.
    assert (Hch : wf_sub ch = true /\ bin_sub ch = true).
    { rewrite sub_all_app in Hsw, Hsb. simpl in Hsw, Hsb.
      apply andb_prop in Hsw. destruct Hsw as [_ Hsw]. apply andb_prop in Hsw.
      apply andb_prop in Hsb. destruct Hsb as [_ Hsb]. apply andb_prop in Hsb. tauto. }
    destruct Hch as [Hw Hb].
    constructor; [|apply Forall_app; split].
    + destruct (graft_node_facts nm ch Hw Hb) as [G1 [G2 G3]].
      apply replace_child_ok; auto. now rewrite G3.
    + apply Forall_map.
      destruct ch as [n' c' sl'].
      rewrite wf_sub_eq in Hw. apply andb_prop in Hw. destruct Hw as [Hw1 Hw2].
      rewrite bin_sub_eq in Hb. apply andb_prop in Hb. destruct Hb as [Hb1 Hb2].
      eapply Forall_impl; [|exact (Hs Hw2 Hb2)].
      intros [n2 c2 sl2] (Q1 & Q2 & Q3 & Q4 & Q5 & Q6 & Q7 & Q8 & Q9).
      simpl uname in *. simpl ucom in *. simpl uslots in *. subst n2 c2.
      apply replace_child_ok; auto.
      * rewrite wf_sub_eq, Q3, Hw1. exact Q7.
      * rewrite bin_sub_eq, Q4, Hb1. exact Q8.
      * rewrite (leaves_kleaves (UNode n' c' sl2) Q6), (leaves_kleaves (UNode n' c' sl') Q5).
        exact Q9.
    + specialize (IH (pre ++ [Some (e, ch)])). rewrite <- !app_assoc in IH. simpl in IH.
      apply IH; assumption.
  - simpl grafts_go.
    specialize (IH (pre ++ [None])). rewrite <- !app_assoc in IH. simpl in IH.
    apply IH; assumption.
Qed.

Lemma grafts_ok nm t :
  sub_all wf_sub (uslots t) = true -> sub_all bin_sub (uslots t) = true ->
  Forall (graft_ok nm t) (grafts (tip_node nm) t).
Proof.
  induction t as [n c sl IH] using utree_ind'. intros Hw Hb.
  rewrite grafts_unfold. exact (grafts_go_ok nm n c sl IH [] Hw Hb).
Qed.

(** ** Tree.Clone *)
Definition cl_slots (sl : list slot) : list slot :=
  flat_map (fun s => match s with
                     | None => []
                     | Some (e, ch) => [Some (clone_e e, clone_sub ch)]
                     end) sl.

Lemma clone_sub_eq n c sl : clone_sub (UNode n c sl) = UNode n c (None :: cl_slots sl).
Proof. reflexivity. Qed.
Lemma clone_eq n c sl : clone (UNode n c sl) = UNode n c (cl_slots sl).
Proof. reflexivity. Qed.

Lemma n_up_cl_slots sl : n_up (cl_slots sl) = 0.
Proof. induction sl as [|[[e ch]|] r IH]; simpl; auto. Qed.
Lemma length_cl_slots sl : length (cl_slots sl) = length (kids_of sl).
Proof. induction sl as [|[[e ch]|] r IH]; simpl; auto. Qed.
Lemma kids_of_cl_slots sl :
  kids_of (cl_slots sl) = map (fun p => (clone_e (fst p), clone_sub (snd p))) (kids_of sl).
Proof. induction sl as [|[[e ch]|] r IH]; simpl; auto. now rewrite IH. Qed.
Lemma sub_all_cl_slots p sl :
  sub_all p (cl_slots sl) = forallb (fun q => p (clone_sub (snd q))) (kids_of sl).
Proof. induction sl as [|[[e ch]|] r IH]; simpl; auto. now rewrite IH. Qed.

Lemma Forall_slots_kids (P : utree -> Prop) sl :
  Forall (fun s => match s with Some (_, t) => P t | None => True end) sl ->
  Forall (fun q => P (snd q)) (kids_of sl).
Proof. induction 1 as [|[[e ch]|] r Hs Hr IH]; simpl; auto. Qed.

(** the copy of a subtree is always well formed *)
Lemma clone_sub_wf t : wf_sub (clone_sub t) = true.
Proof.
  induction t as [n c sl IH] using utree_ind'.
  rewrite clone_sub_eq, wf_sub_eq, n_up_cons, n_up_cl_slots. simpl.
  rewrite sub_all_cl_slots. apply Forall_slots_kids in IH.
  apply forallb_forall. intros q Hq. rewrite Forall_forall in IH. exact (IH q Hq).
Qed.

Theorem clone_wf t : wf (clone t) = true.
Proof.
  destruct t as [n c sl]. rewrite clone_eq, wf_eq, n_up_cl_slots. simpl.
  rewrite sub_all_cl_slots. apply forallb_forall. intros q _. apply clone_sub_wf.
Qed.

Lemma kleaves_clone ks :
  Forall (fun q => leaves (clone_sub (snd q)) = leaves (snd q)) ks ->
  kleaves (map (fun p => (clone_e (fst p), clone_sub (snd p))) ks) = kleaves ks.
Proof. induction 1 as [|q r Hq Hr IH]; simpl; auto. now rewrite Hq, IH. Qed.

Lemma clone_sub_leaves t : leaves (clone_sub t) = leaves t.
Proof.
  induction t as [n c sl IH] using utree_ind'.
  rewrite clone_sub_eq, !leaves_unfold. apply Forall_slots_kids in IH.
  change (kids_of (None :: cl_slots sl)) with (kids_of (cl_slots sl)).
  rewrite kids_of_cl_slots. destruct (kids_of sl) as [|q ks] eqn:E; [reflexivity|].
  rewrite <- E in *. rewrite kleaves_clone by exact IH. rewrite E. reflexivity.
Qed.

Theorem clone_leaves t : leaves (clone t) = leaves t.
Proof.
  destruct t as [n c sl]. rewrite clone_eq, !leaves_unfold, kids_of_cl_slots.
  destruct (kids_of sl) as [|q ks] eqn:E; [reflexivity|].
  rewrite <- E. rewrite kleaves_clone; [rewrite E; reflexivity|].
  apply Forall_forall. intros x _. apply clone_sub_leaves.
Qed.

Lemma clone_sub_bin t : wf_sub t = true -> bin_sub t = true -> bin_sub (clone_sub t) = true.
Proof.
  induction t as [n c sl IH] using utree_ind'. intros Hw Hb.
  rewrite wf_sub_eq in Hw. apply andb_prop in Hw. destruct Hw as [Hw1 Hw2].
  rewrite bin_sub_eq in Hb. apply andb_prop in Hb. destruct Hb as [Hb1 Hb2].
  rewrite clone_sub_eq, bin_sub_eq. apply Nat.eqb_eq in Hw1.
  assert (El : length (None :: cl_slots sl) = length sl).
  { simpl. rewrite length_cl_slots, (length_slots sl), Hw1. reflexivity. }
  rewrite El, Hb1. simpl. rewrite sub_all_cl_slots.
  rewrite sub_all_kids in Hw2, Hb2. apply Forall_slots_kids in IH.
  rewrite forallb_forall in *. rewrite Forall_forall in IH. intros q Hq.
  apply IH; auto.
Qed.

(** ** the invariant of the recursion *)
Definition topo_inv (d : nat) (L : list string) (t : utree) : Prop :=
  n_up (uslots t) = 0 /\ length (uslots t) = d /\ kids t <> [] /\
  sub_all wf_sub (uslots t) = true /\ sub_all bin_sub (uslots t) = true /\
  Permutation (leaves t) L.

Lemma topo_inv_perm d L L' t : Permutation L L' -> topo_inv d L t -> topo_inv d L' t.
Proof.
  intros HP (H1 & H2 & H3 & H4 & H5 & H6). repeat split; auto. now rewrite H6.
Qed.

Lemma grafts_inv d L nm t :
  topo_inv d L t -> Forall (topo_inv d (nm :: L)) (grafts (tip_node nm) t).
Proof.
  intros (H1 & H2 & H3 & H4 & H5 & H6).
  eapply Forall_impl; [|exact (grafts_ok nm t H4 H5)].
  intros t' (Q1 & Q2 & Q3 & Q4 & Q5 & Q6 & Q7 & Q8 & Q9).
  repeat split; auto; try congruence.
  rewrite (leaves_kleaves t' Q6), Q9. constructor.
  rewrite <- (leaves_kleaves t Q5). exact H6.
Qed.

Lemma topo_rec_inv d names fuel : forall total t L,
  topo_inv d L t ->
  Forall (fun t' => exists t0, t' = clone t0 /\
                               topo_inv d (L ++ map (topo_name names) (seq total fuel)) t0)
         (topo_rec fuel names total t).
Proof.
  induction fuel as [|f IH]; intros total t L Ht.
  - simpl. constructor; [|constructor]. exists t. split; auto. now rewrite app_nil_r.
  - simpl topo_rec. apply Forall_flat_map.
    eapply Forall_impl; [|exact (grafts_inv d L (topo_name names total) t Ht)].
    intros t1 Ht1. simpl in Ht1.
    eapply Forall_impl; [|exact (IH (S total) t1 _ Ht1)].
    intros t' [t0 [E Ht0]]. exists t0. split; auto.
    eapply topo_inv_perm; [|exact Ht0]. simpl. apply Permutation_middle.
Qed.

(** what [clone] makes of the invariant *)
Lemma clone_inv d L t :
  topo_inv d L t ->
  wf (clone t) = true /\ degree (clone t) = d /\
  sub_all bin_sub (uslots (clone t)) = true /\ Permutation (leaves (clone t)) L.
Proof.
  intros (H1 & H2 & H3 & H4 & H5 & H6). split; [apply clone_wf|].
  split; [|split; [|now rewrite clone_leaves]].
  - destruct t as [n c sl]. rewrite clone_eq. unfold degree. simpl uslots in *.
    rewrite length_cl_slots. rewrite length_slots, H1 in H2. exact H2.
  - destruct t as [n c sl]. rewrite clone_eq. simpl uslots in *.
    rewrite sub_all_cl_slots. rewrite sub_all_kids in H4, H5.
    rewrite forallb_forall in *. intros q Hq. apply clone_sub_bin; auto.
Qed.

Definition start_unrooted (names : list string) : utree :=
  UNode "" [] [Some (eL nilv, tip_node (topo_name names 0));
               Some (eL nilv, tip_node (topo_name names 1));
               Some (eL nilv, tip_node (topo_name names 2))].
Definition start_rooted (names : list string) : utree :=
  UNode "" [] [Some (eL nilv, tip_node (topo_name names 0))].

Lemma start_unrooted_inv names :
  topo_inv 3 (map (topo_name names) (seq 0 3)) (start_unrooted names).
Proof. unfold topo_inv, start_unrooted, tip_node. simpl. repeat split; auto; discriminate. Qed.
Lemma start_rooted_inv names :
  topo_inv 1 (map (topo_name names) (seq 0 1)) (start_rooted names).
Proof. unfold topo_inv, start_rooted, tip_node. simpl. repeat split; auto; discriminate. Qed.

Lemma all_topologies_unrooted_eq n names ts : 3 <= n ->
  all_topologies n false names = Ok ts -> ts = topo_rec (n - 3) names 3 (start_unrooted names).
Proof.
  intros Hn. unfold all_topologies.
  assert (E1 : Nat.ltb n 3 = false) by (apply Nat.ltb_ge; lia).
  rewrite E1, andb_false_r. simpl andb. cbv iota.
  destruct (Nat.ltb 0 (length names) && negb (Nat.eqb (length names) n)); [discriminate|].
  intros H. inversion H. reflexivity.
Qed.

Lemma all_topologies_rooted_eq n names ts : 2 <= n ->
  all_topologies n true names = Ok ts -> ts = topo_rec (n - 1) names 1 (start_rooted names).
Proof.
  intros Hn. unfold all_topologies.
  assert (E1 : Nat.ltb n 2 = false) by (apply Nat.ltb_ge; lia).
  rewrite E1, andb_false_r. simpl andb. cbv iota.
  destruct (Nat.ltb 0 (length names) && negb (Nat.eqb (length names) n)); [discriminate|].
  intros H. inversion H. reflexivity.
Qed.

Theorem all_topologies_unrooted_trees_names n names ts : 3 <= n ->
  all_topologies n false names = Ok ts ->
  Forall (fun t => wf t = true /\ binary false t = true /\
                   Permutation (leaves t) (map (fun k => topo_name names k) (seq 0 n))) ts.
Proof.
  intros Hn H. rewrite (all_topologies_unrooted_eq n names ts Hn H).
  eapply Forall_impl; [|exact (topo_rec_inv 3 names (n - 3) 3 _ _ (start_unrooted_inv names))].
  intros t [t0 [-> Ht0]]. destruct (clone_inv _ _ _ Ht0) as (C1 & C2 & C3 & C4).
  split; [exact C1|]. split.
  - unfold binary. rewrite C2, C3. reflexivity.
  - rewrite C4, <- map_app, <- seq_app. replace (3 + (n - 3)) with n by lia. reflexivity.
Qed.

Theorem all_topologies_rooted_trees_names n names ts : 2 <= n ->
  all_topologies n true names = Ok ts ->
  Forall (fun t => wf t = true /\ planted t = true /\
                   Permutation (leaves t) (map (fun k => topo_name names k) (seq 0 n))) ts.
Proof.
  intros Hn H. rewrite (all_topologies_rooted_eq n names ts Hn H).
  eapply Forall_impl; [|exact (topo_rec_inv 1 names (n - 1) 1 _ _ (start_rooted_inv names))].
  intros t [t0 [-> Ht0]]. destruct (clone_inv _ _ _ Ht0) as (C1 & C2 & C3 & C4).
  assert (C4' : Permutation (leaves (clone t0)) (map (fun k => topo_name names k) (seq 0 n))).
  { rewrite C4, <- map_app, <- seq_app. replace (1 + (n - 1)) with n by lia. reflexivity. }
  split; [exact C1|]. split; [|exact C4'].
  destruct (clone t0) as [nm c sl]. unfold degree in C2. simpl uslots in *.
  destruct sl as [|[[e ch]|] [|s2 r]]; try discriminate.
  - simpl. simpl in C3. rewrite andb_true_r in C3. rewrite C3, andb_true_r.
    (* the child of the root is not a tip: it would be the only leaf *)
    destruct (is_tip ch) eqn:Et; [|reflexivity]. exfalso.
    rewrite wf_eq in C1. apply andb_prop in C1. destruct C1 as [_ C1]. simpl in C1.
    rewrite andb_true_r in C1. destruct ch as [n' c' sl'].
    unfold is_tip, degree in Et. simpl uslots in Et. apply Nat.eqb_eq in Et.
    rewrite wf_sub_eq in C1. apply andb_prop in C1. destruct C1 as [C1 _].
    apply Nat.eqb_eq in C1. rewrite length_slots, C1 in Et.
    assert (Hk : kids_of sl' = []) by (destruct (kids_of sl'); [reflexivity|simpl in Et; lia]).
    apply Permutation_length in C4'. rewrite map_length, seq_length in C4'.
    rewrite leaves_unfold in C4'. simpl kids_of in C4'. unfold kleaves in C4'.
    simpl flat_map in C4'. rewrite Hk in C4'.
    simpl in C4'. lia.
Qed.

Theorem all_topologies_unrooted_trees n ts : 3 <= n -> all_topologies n false [] = Ok ts ->
  Forall (fun t => wf t = true /\ binary false t = true /\
                   Permutation (leaves t) (map (fun k => topo_name [] k) (seq 0 n))) ts.
Proof. apply all_topologies_unrooted_trees_names. Qed.

Theorem all_topologies_rooted_trees n ts : 2 <= n -> all_topologies n true [] = Ok ts ->
  Forall (fun t => wf t = true /\ planted t = true /\
                   Permutation (leaves t) (map (fun k => topo_name [] k) (seq 0 n))) ts.
Proof. apply all_topologies_rooted_trees_names. Qed.
