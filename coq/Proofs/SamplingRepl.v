(** Sampling WITH replacement (cmd/sample.go, replace branch; Model/Sampling.v [sample_replace]):
    in the space of all choice vectors within [replace_bounds k n], every one of the n^k output
    vectors is produced by exactly ((n-1)!)^k of the (n!)^k choice vectors.

    Proof: induction over the items (outer loop), for the generalised event "the output
    matches a PATTERN" (a slot of the pattern is either a required item or "don't care"):
    the count is the product over the slots of (n-1)! (required item) or n! (don't care). *)
From Coq Require Import Bool Arith Lia List Permutation.
From GT Require Import Model.Reroot Model.Sampling Spec.Counting Proofs.SamplingBase Proofs.SamplingCount.
Import ListNotations.

(** ** size of the space *)
Lemma replace_bounds_S k n : replace_bounds k (S n) = replace_bounds k n ++ repeat (S n) k.
Proof. unfold replace_bounds. rewrite seq_S, flat_map_app. simpl. now rewrite app_nil_r. Qed.

Theorem replace_space_size n k : length (all_choices (replace_bounds k n)) = fact n ^ k.
Proof.
  rewrite all_choices_length. induction n as [|n IH].
  - simpl. now rewrite Nat.pow_1_l.
  - rewrite replace_bounds_S, prod_app, prod_repeat, IH.
    change (fact (S n)) with (S n * fact n). rewrite Nat.pow_mul_l. lia.
Qed.

(** ** one pass of the inner loop in closed form *)
Fixpoint zipstep {A} (x : A) (c : list nat) (o : list (option A)) : list (option A) :=
  match c, o with
  | r :: c', a :: o' => (if Nat.eqb r 0 then Some x else a) :: zipstep x c' o'
  | _, _ => []
  end.

Lemma zipstep_length {A} (x : A) c : forall o, length c = length o -> length (zipstep x c o) = length o.
Proof. induction c as [|r c IH]; intros [|a o] H; simpl in *; auto; try discriminate. Qed.

Lemma slot_loop_closed {A} (x : A) : forall c k j pre o rest,
  length pre = j -> length c = k -> length o = k ->
  slot_loop x j k (c ++ rest) (pre ++ o) = Some (pre ++ zipstep x c o, rest).
Proof.
  induction c as [|r c IH]; intros k j pre o rest Hj Hc Ho; simpl in Hc; subst k.
  - destruct o; [|discriminate]. reflexivity.
  - destruct o as [|a o]; [discriminate|]. simpl in Ho. injection Ho as Ho.
    simpl. subst j. rewrite set_nth_app_exact.
    replace (if Nat.eqb r 0 then pre ++ Some x :: o else pre ++ a :: o)
      with ((pre ++ [if Nat.eqb r 0 then Some x else a]) ++ o)
      by (destruct (Nat.eqb r 0); now rewrite <- app_assoc).
    rewrite (IH (length c) (S (length pre)) _ o rest); auto.
    + now rewrite <- app_assoc.
    + rewrite app_length. simpl. lia.
Qed.

Lemma slot_loop_closed0 {A} (x : A) c k o rest :
  length c = k -> length o = k ->
  slot_loop x 0 k (c ++ rest) o = Some (zipstep x c o, rest).
Proof. intros Hc Ho. exact (slot_loop_closed x c k 0 [] o rest eq_refl Hc Ho). Qed.

Lemma repl_loop_app {A} k (ys : list A) cs2 : forall xs cs1 out,
  length cs1 = k * length xs -> length out = k ->
  repl_loop k (xs ++ ys) (cs1 ++ cs2) out
  = match repl_loop k xs cs1 out with Some o => repl_loop k ys cs2 o | None => None end.
Proof.
  induction xs as [|x xs IH]; intros cs1 out Hc Ho.
  - simpl in Hc. rewrite Nat.mul_0_r in Hc. destruct cs1; [|discriminate]. reflexivity.
  - simpl length in Hc.
    rewrite <- (firstn_skipn k cs1).
    assert (Hf : length (firstn k cs1) = k) by (rewrite firstn_length; nia).
    assert (Hs : length (skipn k cs1) = k * length xs) by (rewrite skipn_length; nia).
    set (c := firstn k cs1) in *. set (r := skipn k cs1) in *.
    simpl. rewrite <- app_assoc.
    rewrite (slot_loop_closed0 x c k out (r ++ cs2)); auto.
    rewrite (slot_loop_closed0 x c k out r); auto.
    simpl. apply IH; auto. rewrite zipstep_length; congruence.
Qed.

Lemma repl_loop_single {A} k (x : A) c o :
  length c = k -> length o = k -> repl_loop k [x] c o = Some (zipstep x c o).
Proof.
  intros Hc Ho. pose proof (slot_loop_closed0 x c k o [] Hc Ho) as H.
  rewrite app_nil_r in H. simpl. now rewrite H.
Qed.

Definition ovalid (n : nat) (a : option nat) : Prop :=
  match a with Some x => x < n | None => True end.

Lemma replace_bounds_length k n : length (replace_bounds k n) = k * n.
Proof.
  induction n as [|n IH]; [simpl; lia|].
  rewrite replace_bounds_S, app_length, repeat_length, IH. lia.
Qed.

Lemma sample_replace_S k n cs1 c o :
  length cs1 = k * n -> length c = k ->
  sample_replace k (seq 0 n) cs1 = Some o -> length o = k ->
  sample_replace k (seq 0 (S n)) (cs1 ++ c) = Some (zipstep n c o).
Proof.
  unfold sample_replace. intros H1 Hc Ho Hl.
  rewrite seq_S, repl_loop_app; simpl.
  - rewrite Ho. destruct (slot_loop n 0 k c o) as [[o' cs']|] eqn:E.
    + pose proof (repl_loop_single k n c o Hc Hl) as H. simpl in H. rewrite E in H. exact H.
    + pose proof (repl_loop_single k n c o Hc Hl) as H. simpl in H. rewrite E in H. discriminate.
  - now rewrite seq_length.
  - apply repeat_length.
Qed.

(** for vectors within bounds the loop terminates normally, all slots present and < n *)
Lemma sample_replace_inv k n : forall cs, in_bounds cs (replace_bounds k n) ->
  exists o, sample_replace k (seq 0 n) cs = Some o /\ length o = k /\ Forall (ovalid n) o.
Proof.
  induction n as [|n IH]; intros cs H.
  - inversion H; subst. exists (repeat None k). split; [reflexivity|]. split; [apply repeat_length|].
    apply Forall_forall. intros a Ha. apply repeat_spec in Ha. subst. exact I.
  - rewrite replace_bounds_S in H. apply in_bounds_app_inv in H as [cs1 [c [-> [H1 H2]]]].
    destruct (IH _ H1) as [o [Ho [Hl Hv]]].
    pose proof (in_bounds_length _ _ H1) as L1. rewrite replace_bounds_length in L1.
    pose proof (in_bounds_length _ _ H2) as L2. rewrite repeat_length in L2.
    exists (zipstep n c o). split; [now apply sample_replace_S|].
    split; [rewrite zipstep_length; congruence|].
    clear - Hv. revert c. induction Hv as [|a o Ha Hv IHv]; intros [|r c]; simpl; auto.
    constructor; auto. destruct (Nat.eqb r 0); simpl; [lia|].
    destruct a; simpl in *; auto.
Qed.

(** ** patterns *)
Definition pm (a b : option nat) : bool :=
  match a with None => true | Some x => onat_eqb b (Some x) end.
Fixpoint omatch (t o : list (option nat)) : bool :=
  match t, o with
  | [], [] => true
  | a :: t', b :: o' => pm a b && omatch t' o'
  | _, _ => false
  end.
Definition omatch_o (t : list (option nat)) (o : option (list (option nat))) : bool :=
  match o with Some out => omatch t out | None => false end.

(** number of draws r < n+1 compatible with the pattern slot, and what the pattern slot
    requires of the previous content *)
Definition kf (n : nat) (a : option nat) : nat :=
  match a with None => S n | Some y => if Nat.eqb y n then 1 else n end.
Definition strip1 (n : nat) (a : option nat) : option nat :=
  match a with None => None | Some y => if Nat.eqb y n then None else Some y end.
Definition wgt (n : nat) (a : option nat) : nat :=
  match a with None => fact n | Some _ => fact (n - 1) end.

Lemma seq_0_S n : seq 0 (S n) = 0 :: seq 1 n.
Proof. reflexivity. Qed.

Lemma slot_count n a b : ovalid n b ->
  count_where (fun r => pm a (if Nat.eqb r 0 then Some n else b)) (seq 0 (S n))
  = kf n a * b2n (pm (strip1 n a) b).
Proof.
  intros Hb. rewrite seq_0_S.
  change (0 :: seq 1 n) with ([0] ++ seq 1 n). rewrite count_where_app.
  rewrite (count_where_ext _ (fun _ => pm a b) (seq 1 n)).
  2:{ intros r Hr. apply in_seq in Hr. destruct r; [lia|]. reflexivity. }
  rewrite count_where_const, seq_length. unfold count_where. simpl.
  destruct a as [y|]; simpl.
  - destruct (Nat.eqb n y) eqn:E.
    + apply Nat.eqb_eq in E. subst y. rewrite Nat.eqb_refl. simpl.
      destruct b as [z|]; simpl in *; [|lia].
      destruct (Nat.eqb z n) eqn:E; [apply Nat.eqb_eq in E; lia|]. simpl. lia.
    + rewrite Nat.eqb_sym, E. simpl. lia.
  - lia.
Qed.

Lemma pass_count n : forall t o, length t = length o -> Forall (ovalid n) o ->
  count_where (fun c => omatch t (zipstep n c o)) (all_choices (repeat (S n) (length o)))
  = prod (map (kf n) t) * b2n (omatch (map (strip1 n) t) o).
Proof.
  induction t as [|a t IH]; intros [|b o] Hl Hv; simpl in Hl; try discriminate.
  - reflexivity.
  - injection Hl as Hl. inversion Hv as [|? ? Hb Hv']; subst.
    simpl length. simpl repeat.
    rewrite (count_where_all_choices_prod _
               (fun r => pm a (if Nat.eqb r 0 then Some n else b))
               (fun c => omatch t (zipstep n c o))) by reflexivity.
    rewrite slot_count, IH; auto.
    simpl. unfold prod at 2. simpl. fold (prod (map (kf n) t)).
    destruct (pm (strip1 n a) b), (omatch (map (strip1 n) t) o); simpl; lia.
Qed.

Lemma wgt_step n t : Forall (ovalid (S n)) t ->
  prod (map (kf n) t) * prod (map (wgt n) (map (strip1 n) t)) = prod (map (wgt (S n)) t).
Proof.
  induction 1 as [|a t Ha Ht IH]; [reflexivity|].
  simpl map. unfold prod in *. simpl fold_right.
  rewrite <- IH.
  assert (E : kf n a * wgt n (strip1 n a) = wgt (S n) a).
  { destruct a as [y|]; simpl.
    - destruct (Nat.eqb y n) eqn:E; simpl.
      + rewrite Nat.sub_0_r. lia.
      + apply Nat.eqb_neq in E. simpl in Ha. rewrite Nat.sub_0_r.
        destruct n as [|m]; [lia|]. simpl. rewrite Nat.sub_0_r. lia.
    - lia. }
  rewrite <- E. lia.
Qed.

Lemma strip_valid n t : Forall (ovalid (S n)) t -> Forall (ovalid n) (map (strip1 n) t).
Proof.
  induction 1 as [|a t Ha Ht IH]; simpl; constructor; auto.
  destruct a as [y|]; simpl in *; auto.
  destruct (Nat.eqb y n) eqn:E; simpl; auto. apply Nat.eqb_neq in E. lia.
Qed.

(** ** the generalised count *)
Lemma replace_pattern_count k n : forall t, length t = k -> Forall (ovalid n) t ->
  count_where (fun cs => omatch_o t (sample_replace k (seq 0 n) cs)) (all_choices (replace_bounds k n))
  = prod (map (wgt n) t).
Proof.
  induction n as [|n IH]; intros t Hl Hv.
  - simpl. unfold count_where. simpl. unfold sample_replace. simpl.
    assert (E : omatch t (repeat None k) = true /\ prod (map (wgt 0) t) = 1).
    { subst k. clear - Hv. induction Hv as [|a t Ha Ht IH]; [now split|].
      destruct a; simpl in Ha; [lia|]. destruct IH as [IH1 IH2]. simpl. rewrite IH1.
      split; auto. unfold prod in *. simpl. now rewrite IH2. }
    destruct E as [E1 E2]. now rewrite E1, E2.
  - rewrite replace_bounds_S, count_where_all_choices_app.
    rewrite (sum_over_ext _ (fun c1 => prod (map (kf n) t) *
               b2n (omatch_o (map (strip1 n) t) (sample_replace k (seq 0 n) c1)))).
    + rewrite sum_over_mul_l, sum_over_b2n, IH.
      * now apply wgt_step.
      * now rewrite map_length.
      * now apply strip_valid.
    + intros c1 Hc1. apply all_choices_in in Hc1.
      destruct (sample_replace_inv k n c1 Hc1) as [o [Ho [Lo Vo]]].
      pose proof (in_bounds_length _ _ Hc1) as L1. rewrite replace_bounds_length in L1.
      rewrite Ho. simpl omatch_o.
      rewrite (count_where_ext _ (fun c => omatch t (zipstep n c o))).
      * rewrite <- Lo at 1. apply pass_count; auto. congruence.
      * intros c Hc. apply all_choices_in in Hc. apply in_bounds_length in Hc.
        rewrite repeat_length in Hc. cbv beta. change (0 :: seq 1 n) with (seq 0 (S n)).
        now rewrite (sample_replace_S k n c1 c o).
Qed.

(** ** the property *)
Lemma omatch_out_is v : forall out, omatch (map Some v) out = onat_list_eqb out (map Some v).
Proof.
  induction v as [|x v IH]; intros [|b out]; simpl; auto. now rewrite IH.
Qed.

Theorem sample_replace_uniform n k v : 1 <= n -> in_bounds v (repeat n k) ->
  count_where (fun cs => out_is v (sample_replace k (seq 0 n) cs)) (all_choices (replace_bounds k n))
  = fact (n - 1) ^ k.
Proof.
  intros _ Hv.
  rewrite (count_where_ext _ (fun cs => omatch_o (map Some v) (sample_replace k (seq 0 n) cs))).
  2:{ intros cs _. unfold out_is, omatch_o. destruct (sample_replace k (seq 0 n) cs); auto.
      now rewrite omatch_out_is. }
  pose proof (in_bounds_length _ _ Hv) as L. rewrite repeat_length in L.
  rewrite replace_pattern_count.
  - subst k. clear. induction v as [|x v IH]; [reflexivity|].
    simpl. unfold prod in *. simpl. now rewrite IH.
  - now rewrite map_length.
  - assert (F : Forall (fun x => x < n) v).
    { unfold in_bounds in Hv. remember (repeat n k) as l eqn:El.
      assert (Hl : forall b, In b l -> b = n) by (intros b Hb; subst l; now apply repeat_spec in Hb).
      clear El L. induction Hv as [|x b v l Hx Hv IH]; constructor.
      - rewrite <- (Hl b) by now left. exact Hx.
      - apply IH. intros; apply Hl; now right. }
    clear - F. induction F; simpl; constructor; auto.
Qed.
