(** Bitsets: ClearBitSets / UpdateBitSet write the bitsets of the branches of the tree they are
    called on, and nothing else -- neither the structure, nor the bitsets of any other branch
    of the store (another tree, a clone).  The first statements do not depend on the store. *)
From Coq Require Import String ZArith QArith Bool Arith Lia List.
From GT Require Import Base.UTree Model.Reroot Model.Heap Model.HeapSpec Model.HeapBits Proofs.HeapBase Proofs.HeapRep Proofs.HeapEdgesSeq.
Import ListNotations.
Local Close Scope Q_scope.

Lemma all_false_map (v : bitset) : forallb negb (map (fun _ => false) v) = true.
Proof. induction v; [reflexivity|exact IHv]. Qed.
Lemma all_false_repeat n : forallb negb (repeat false n) = true.
Proof. induction n; [reflexivity|exact IHn]. Qed.

(** * store-independent frame statements *)
Lemma clear_bits_frame len : forall es b x, ~ In x es -> clear_bits len es b x = b x.
Proof.
  induction es as [|e es IH]; intros b x H; [reflexivity|]. cbn [clear_bits fold_left]. change (fold_left (clear_one len) es (clear_one len b e)) with (clear_bits len es (clear_one len b e)).
  rewrite IH by (intros Hx; apply H; right; exact Hx). unfold clear_one, bset.
  destruct (Nat.eqb_spec x e) as [->|_]; [exfalso; apply H; left; reflexivity|reflexivity].
Qed.

Lemma clear_bits_set len : forall es b x, In x es -> exists v, clear_bits len es b x = Some v /\ forallb negb v = true.
Proof.
  induction es as [|e es IH]; intros b x H; [destruct H|]. cbn [clear_bits fold_left]. change (fold_left (clear_one len) es (clear_one len b e)) with (clear_bits len es (clear_one len b e)).
  destruct (in_dec Nat.eq_dec x es) as [Hx|Hx]; [exact (IH _ x Hx)|].
  destruct H as [->|H]; [|contradiction]. rewrite clear_bits_frame by exact Hx. unfold clear_one, bset. rewrite Nat.eqb_refl.
  eexists. split; [reflexivity|]. destruct (b x) as [v|]; [apply all_false_map|apply all_false_repeat].
Qed.

Lemma update_bits_frame : forall rows b b' x, update_bits rows b = Some b' -> ~ In x (map fst rows) -> b' x = b x.
Proof.
  unfold update_bits. induction rows as [|row rows IH]; intros b b' x H Hx; [injection H as <-; reflexivity|].
  cbn [fold_left] in H. remember (update_one (Some b) row) as ob eqn:Eo. cbn [update_one] in Eo. destruct (b (fst row)) as [v|] eqn:E; subst ob.
  - rewrite (IH _ b' x H) by (intros Hy; apply Hx; right; exact Hy). unfold bset.
    destruct (Nat.eqb_spec x (fst row)) as [->|_]; [exfalso; apply Hx; left; reflexivity|reflexivity].
  - exfalso. clear - H. induction rows as [|r rows IHr]; [discriminate|exact (IHr H)].
Qed.

(** * on the store of Model/Heap.v: two trees of one store *)
Lemma rows_ids idx : forall E, map fst (flat_map (fun o : option (nat * list nat) => match o with Some x => [x] | None => [] end) (map (row_of idx) E)) = 
                              map (fun p : nat * einfo * ltree => fst (fst p)) (filter (fun p => match row_of idx p with Some _ => true | None => false end) E).
Proof.
  induction E as [|p E IH]; [reflexivity|]. cbn [map flat_map filter]. unfold row_of at 1 3.
  destruct (forallb _ _); cbn [app map fst filter]; [f_equal|]; exact IH.
Qed.

Theorem clear_bitsets_at_frame r len bh bh' lt : dump_at (fst bh) r = Some lt -> clear_bitsets_at r len bh = HOk bh' ->
  fst bh' = fst bh /\ (forall x, ~ In x (leids lt) -> snd bh' x = snd bh x) /\
  (forall x, In x (leids lt) -> exists v, snd bh' x = Some v /\ forallb negb v = true).
Proof.
  intros Hd H. unfold clear_bitsets_at in H. rewrite Hd in H. destruct (Nat.eqb len 0); [discriminate|]. injection H as <-. cbn [fst snd].
  split; [reflexivity|]. split; [intros x Hx; apply clear_bits_frame; exact Hx|intros x Hx; apply clear_bits_set; exact Hx].
Qed.

Theorem update_bitsets_at_frame r idx bh bh' lt : dump_at (fst bh) r = Some lt -> update_bitsets_at r idx bh = HOk bh' ->
  fst bh' = fst bh /\ forall x, ~ In x (leids lt) -> snd bh' x = snd bh x.
Proof.
  intros Hd H. unfold update_bitsets_at in H. rewrite Hd in H. destruct (forallb _ _); [|discriminate].
  destruct (update_bits _ (snd bh)) as [b'|] eqn:E; [|discriminate]. injection H as <-. cbn [fst snd]. split; [reflexivity|].
  intros x Hx. apply (update_bits_frame _ _ _ x E). rewrite rows_ids. intros Hy. apply Hx. rewrite <- ledges_ids.
  apply in_map_iff in Hy. destruct Hy as (p & Ep & Hp). apply filter_In in Hp. apply in_map_iff. exists p. split; [exact Ep|exact (proj1 Hp)].
Qed.

(** the statement asked for: re-indexing one tree (ClearBitSets then UpdateBitSet) leaves the
    structure of the store and the bitsets of every other tree of the store untouched *)
Theorem reindex_other_tree_untouched r len idx bh bh1 bh2 lt lt2 r2 :
  dump_at (fst bh) r = Some lt -> dump_at (fst bh) r2 = Some lt2 ->
  (forall x, In x (leids lt) -> ~ In x (leids lt2)) ->
  clear_bitsets_at r len bh = HOk bh1 -> update_bitsets_at r idx bh1 = HOk bh2 ->
  fst bh2 = fst bh /\ dump_at (fst bh2) r2 = Some lt2 /\ forall x, In x (leids lt2) -> snd bh2 x = snd bh x.
Proof.
  intros D1 D2 Dis C U.
  destruct (clear_bitsets_at_frame r len bh bh1 lt D1 C) as (F1 & N1 & _).
  assert (D1' : dump_at (fst bh1) r = Some lt) by (rewrite F1; exact D1).
  destruct (update_bitsets_at_frame r idx bh1 bh2 lt D1' U) as (F2 & N2).
  assert (F : fst bh2 = fst bh) by congruence. split; [exact F|]. split; [rewrite F; exact D2|].
  intros x Hx. assert (Nx : ~ In x (leids lt)) by (intros H; exact (Dis x H Hx)). rewrite (N2 x Nx). exact (N1 x Nx).
Qed.
