(** Newick -> Nexus (no translate table) -> parse: the general statement.
    [write_nexus] then [nexus_parse] delivers, in order and under the names tree<id>, what
    the Newick parser reads from the Newick text of each tree. *)
From Coq Require Import String Ascii ZArith Bool Arith Lia List Permutation.
From GT Require Import Base.Sexp Base.UTree Spec.Obs Model.Nexus Proofs.NexusLex Proofs.NexusWords Proofs.NexusRoundTrip.
Import ListNotations.
Local Open Scope string_scope.

(** * the taxon map of the writer has distinct keys; sorting keeps them *)
Lemma assoc_get_none : forall m n, assoc_get n m = None -> ~ In n (map fst m).
Proof.
  induction m as [|[x y] m IH]; intros n H; simpl in *; [tauto|].
  destruct (String.eqb x n) eqn:E; [discriminate|].
  apply String.eqb_neq in E. intros [C|C]; [contradiction|]. exact (IH n H C).
Qed.

Lemma nodup_snoc : forall (l : list string) x, NoDup l -> ~ In x l -> NoDup (l ++ [x]).
Proof.
  induction l as [|a l IH]; intros x H N; simpl.
  - constructor; [tauto|constructor].
  - inversion H; subst. constructor.
    + intros C. apply in_app_or in C. destruct C as [C|[C|[]]]; [contradiction|]. subst. apply N. left. reflexivity.
    + apply IH; [assumption|]. intros C. apply N. right. exact C.
Qed.

Lemma add_tips_nodup : forall names m, NoDup (map fst m) -> NoDup (map fst (add_tips names m)).
Proof.
  unfold add_tips. induction names as [|n r IH]; intros m H; simpl; [exact H|].
  apply IH. destruct (assoc_get n m) eqn:E; [exact H|].
  rewrite map_app. simpl. apply nodup_snoc; [exact H|apply assoc_get_none; exact E].
Qed.

Lemma final_map_nodup : forall l m, NoDup (map fst m) -> NoDup (map fst (final_map l m)).
Proof.
  unfold final_map. induction l as [|p r IH]; intros m H; simpl; [exact H|].
  apply IH. apply add_tips_nodup. exact H.
Qed.

Lemma minsert_perm : forall x l, Permutation (minsert x l) (x :: l).
Proof.
  induction l as [|y l IH]; simpl; [apply Permutation_refl|].
  destruct (String.leb x y); [apply Permutation_refl|].
  eapply Permutation_trans; [apply perm_skip; exact IH|apply perm_swap].
Qed.

Lemma ssort_perm : forall l, Permutation (ssort l) l.
Proof.
  induction l as [|x l IH]; simpl; [constructor|].
  eapply Permutation_trans; [apply minsert_perm|]. apply perm_skip. exact IH.
Qed.

Section Main.
  Variable wnewick : utree -> string.
  Variable nparse : string -> utree + string.

  Definition labels_of (l : list (nat * utree)) : list string := ssort (map fst (final_map l [])).

  Lemma labels_nodup : forall l, NoDup (labels_of l).
  Proof.
    intros l. unfold labels_of. eapply Permutation_NoDup; [apply Permutation_sym; apply ssort_perm|].
    apply final_map_nodup. constructor.
  Qed.

  Lemma labels_length : forall l, length (labels_of l) = length (final_map l []).
  Proof.
    intros l. unfold labels_of. rewrite (Permutation_length (ssort_perm _)). apply map_length.
  Qed.

  (** the tree part of Parse on the strings read back *)
  Lemma build_trees_ok : forall (labels : list string) (st : nexus_st) (its : list (string * string * utree)),
      ns_taxlabels st = Some labels ->
      Forall (fun x => let '(_, s, t) := x in
                       nparse (s ++ ";") = inl t /\
                       forallb (fun n => mem n labels) (tip_names t) = true /\
                       length (tips t) = length labels) its ->
      build_trees nparse st (map (fun x => fst (fst x)) its) (map (fun x => snd (fst x)) its)
                  (map (fun _ => None) (map (fun x => fst (fst x)) its)) =
      inl (map (fun x => (fst (fst x), snd x)) its).
  Proof.
    intros labels st its HL. induction its as [|[[n s] t] r IH]; intros H; [reflexivity|].
    inversion H as [|? ? H0 Hr]; subst. cbn in H0. destruct H0 as [H1 [H2 H3]].
    cbn [map fst snd build_trees]. rewrite H1. rewrite HL. rewrite H2. cbn [negb].
    rewrite H3. rewrite Nat.eqb_refl. cbn [negb]. rewrite (IH Hr). reflexivity.
  Qed.

  (** every tree of the list: its Newick text is readable inside a TREE command, the Newick
      parser reads [p t] from it, and [p t] has exactly the declared taxa *)
  Definition tree_ok (labels : list string) (p : utree -> utree) (t : utree) : Prop :=
    newick_ok (wnewick t) = true /\
    nparse (wnewick t) = inl (p t) /\
    forallb (fun n => mem n labels) (tip_names (p t)) = true /\
    length (tips (p t)) = length labels.

  Theorem nexus_round_trip_plain : forall (l : list (nat * utree)) (p : utree -> utree),
      (Z.of_nat (length (final_map l [])) < two63)%Z ->
      Forall label_ok (labels_of l) ->
      Forall (fun it => tree_ok (labels_of l) p (snd it)) l ->
      nexus_parse nparse (write_nexus wnewick false l) =
      POk (mkDoc (map (fun it => ("tree" ++ itoa (fst it), p (snd it))) l) false).
  Proof.
    intros l p Hn HL HT.
    assert (HN : Forall (fun it => newick_ok (wnewick (snd it)) = true) l).
    { eapply Forall_impl; [|exact HT]. intros a [H _]. exact H. }
    unfold nexus_parse.
    rewrite (write_nexus_doc_text wnewick l HN). fold (labels_of l).
    rewrite parse_doc_text; [|exact Hn|exact HL|apply labels_nodup| |unfold nexus_fuel; lia].
    2:{ unfold entries_of. apply Forall_forall. intros e He. apply in_map_iff in He.
        destruct He as [it [He Hi]]. subst e. rewrite Forall_forall in HN.
        exact (proj1 (newick_ok_entry (fst it) _ (HN it Hi))). }
    unfold finish, doc_state.
    cbn [ns_taxantax ns_taxlabels ns_trees ns_table ns_data ns_missing ns_gap ns_tabs].
    rewrite <- labels_length. unfold zlength.
    replace (Z.of_nat (length (labels_of l)) =? -1)%Z with false by (symmetry; apply Z.eqb_neq; lia).
    rewrite Z.eqb_refl. cbn [negb andb orb Ascii.eqb Bool.eqb].
    set (its := map (fun it => ("tree" ++ itoa (fst it), entry_body (entry_of (fst it) (wnewick (snd it))), p (snd it))) l).
    assert (E1 : map entry_name (entries_of wnewick l) = map (fun x => fst (fst x)) its).
    { unfold its, entries_of. rewrite !map_map. apply map_ext_in. intros it Hi. cbn [fst snd].
      unfold entry_of. destruct (chop_semi (wnewick (snd it))); reflexivity. }
    assert (E2 : map entry_body (entries_of wnewick l) = map (fun x => snd (fst x)) its).
    { unfold its, entries_of. rewrite !map_map. reflexivity. }
    rewrite E1, E2.
    rewrite (build_trees_ok (labels_of l)); [| reflexivity |].
    - f_equal. f_equal. unfold its. rewrite map_map. reflexivity.
    - unfold its. apply Forall_forall. intros x Hx. apply in_map_iff in Hx. destruct Hx as [it [Hx Hi]]. subst x.
      rewrite Forall_forall in HT. destruct (HT it Hi) as [A [B [C D]]].
      destruct (newick_ok_entry (fst it) _ A) as [_ Hb]. rewrite <- Hb. auto.
  Qed.
End Main.
