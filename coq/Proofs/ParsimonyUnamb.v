(** An output that is unambiguous at every node is itself most parsimonious (ACCTRAN and
    DOWNPASS). *)
From Coq Require Import String ZArith QArith Bool Arith Lia List.
From GT Require Import Base.UTree Spec.Obs Spec.Parsimony Model.Reroot Model.Parsimony
     Proofs.ParsimonyVec Proofs.ParsimonyHartigan Proofs.ParsimonyReroot Proofs.ParsimonyCtx
     Proofs.ParsimonyDown Proofs.ParsimonyFinal Proofs.ParsimonyAcctran Proofs.ParsimonyTips.
Import ListNotations.
Local Close Scope Q_scope.

(** the labelling read off a vtree: at every node the first state with the largest count *)
Definition lab_slots (rec : utree -> vtree -> ltree) : list slot -> list vtree -> list (option ltree) :=
  fix go (a : list slot) (ks : list vtree) : list (option ltree) :=
    match a with
    | [] => []
    | None :: a' => None :: go a' ks
    | Some (_, c) :: a' =>
      match ks with
      | vc :: ks' => Some (rec c vc) :: go a' ks'
      | [] => Some (rec c (VNode [] [])) :: go a' []
      end
    end.

Fixpoint lab_of (t : utree) (vt : vtree) : ltree :=
  match t with
  | UNode _ _ sl => LNode (first_max (vroot vt)) (lab_slots lab_of sl (vkids vt))
  end.

Lemma lab_of_unfold : forall n cm sl vt,
  lab_of (UNode n cm sl) vt = LNode (first_max (vroot vt)) (lab_slots lab_of sl (vkids vt)).
Proof. reflexivity. Qed.

Lemma shape_lab_of : forall t vt, shape_ok t (lab_of t vt) = true.
Proof.
  induction t using utree_ind'. intros vt. rewrite lab_of_unfold, shape_ok_unfold.
  generalize (vkids vt). induction H as [|[[e d]|] sl Hs Hf IH]; intros ks; simpl; auto.
  destruct ks as [|vc ks]; simpl; rewrite Hs; simpl; apply IH.
Qed.

(** exactly one state *)
Definition single (v : vec) : Prop := exists y, nth y v 0 = 1 /\ forall z, nth z v 0 = 1 -> z = y.

Lemma vmax_le : forall v b, (forall x, nth x v 0 <= b) -> vmax v <= b.
Proof.
  intros v b H. unfold vmax.
  assert (G : forall a, a <= b -> fold_left Nat.max v a <= b).
  { induction v as [|c v IH]; intros a Ha; simpl; [exact Ha|].
    apply IH.
    - intros x. apply (H (S x)).
    - specialize (H 0). simpl in H. lia. }
  apply G. lia.
Qed.

Lemma single_first_max : forall k v y, good k v -> nth y v 0 = 1 -> (forall z, nth z v 0 = 1 -> z = y) ->
  first_max v = y.
Proof.
  intros k v y [_ B] Hy Hu. apply Hu.
  rewrite first_max_spec.
  pose proof (vmax_le v 1 B). pose proof (nth_le_vmax v y). lia.
Qed.

Section Unamb.
Variable tv : string -> vec.
Variable ts : string -> list nat.
Variable k : nat.

Notation kid_results := (kid_results tv k).
Notation edge_slot := (edge_slot tv ts k).

(** the step count of an inner node *)
Lemma C_formula : forall n cm sl, Nat.eqb (length sl) 1 = false -> kids_of sl <> [] ->
  Forall edge_slot sl ->
  let rs := kid_results sl in
  let sum := vsum k (kvecs rs) in
  C tv k (UNode n cm sl) + vmax sum = sumc rs + length rs /\
  U tv k (UNode n cm sl) = compute_parsimony sum /\
  rs_ok k rs /\ rs <> [].
Proof.
  intros n cm sl Hnt Hk Hf rs sum.
  pose proof (kid_results_ok tv ts k sl Hf) as Hrs. fold rs in Hrs.
  pose proof (kid_results_nonempty tv k sl Hk) as Hne. fold rs in Hne.
  assert (HU : U tv k (UNode n cm sl) = compute_parsimony sum).
  { unfold U. rewrite uppass_unfold, Hnt. reflexivity. }
  assert (HC : C tv k (UNode n cm sl) =
               sumc rs + length (filter (fun v => Nat.eqb (nth (first_max sum) v 0) 0) (kvecs rs))).
  { unfold C. rewrite uppass_unfold, Hnt. reflexivity. }
  split; [|split; [exact HU | split; assumption]].
  assert (Hlenk : Forall (fun v => length v = k) (kvecs rs)).
  { apply kvecs_forall. eapply Forall_impl; [|exact Hrs]. intros r [H _]. exact H. }
  assert (H01 : Forall (fun v => nth (first_max sum) v 0 <= 1) (kvecs rs)).
  { apply kvecs_forall. eapply Forall_impl; [|exact Hrs]. intros r [_ [H _]]. apply H. }
  pose proof (nsum_count (first_max sum) (kvecs rs) H01) as Q.
  rewrite <- (nth_vsum k) in Q by exact Hlenk. fold sum in Q. rewrite first_max_spec in Q.
  unfold kvecs in Q at 2. rewrite map_length in Q. rewrite HC. lia.
Qed.

(** ** ACCTRAN *)
Lemma acctran_unfold : forall skip v' v ks,
  acctran skip v' (VNode v ks) =
  VNode v' (map (fun c => acctran skip (if skip && is_vtip c then vroot c else refine v' (vroot c)) c) ks).
Proof. reflexivity. Qed.

Lemma vroot_acctran : forall skip v' vt, vroot (acctran skip v' vt) = v'.
Proof. intros. destruct vt. reflexivity. Qed.

Lemma lroot_lab_of : forall t vt, lroot (lab_of t vt) = first_max (vroot vt).
Proof. intros. destruct t. reflexivity. Qed.

(** if every branch costs exactly what the up-pass accounts for, so does the node *)
Lemma slots_cost_eq : forall (g : vtree -> vtree) a sl,
  Forall (fun s => match s with
                   | Some (_, d) =>
                     branch_cost ts (cost ts) a d (lab_of d (g (fst (uppass tv k d))))
                     = C tv k d + miss a (U tv k d)
                   | None => True end) sl ->
  cost_slots ts (cost ts) a sl (lab_slots lab_of sl (map g (map fst (kid_results sl))))
  = contrib a (kid_results sl).
Proof.
  induction sl as [|[[e d]|] sl IH]; intros Hf; simpl; [reflexivity| |].
  - inversion Hf; subst. rewrite H1, IH by assumption. unfold U, C. lia.
  - inversion Hf; subst. apply IH. assumption.
Qed.

Lemma leaf_branch : forall a d l, wf_sub d = true -> is_leaf d = true -> tip_ok tv ts k (uname d) ->
  branch_cost ts (cost ts) a d l = C tv k d + miss a (U tv k d).
Proof.
  intros a [n cm sl] l Hw Hl [_ [B _]].
  unfold branch_cost. rewrite Hl. unfold C, U, miss.
  rewrite uppass_unfold, (wf_sub_tip_leaf n cm sl Hw), Hl. simpl in *. rewrite B.
  destruct (mem a (ts n)); reflexivity.
Qed.

Theorem acc_unamb_sub : forall skip c v',
  inner c ->
  Forall (fun s => match s with Some (_, d) => wf_sub d = true | None => True end) (uslots c) ->
  (forall m, In m (leaves c) -> tip_ok tv ts k m) ->
  good k v' -> single v' -> nth (first_max v') (U tv k c) 0 = 1 ->
  vall single (acctran skip v' (fst (uppass tv k c))) ->
  cost ts c (lab_of c (acctran skip v' (fst (uppass tv k c)))) = C tv k c.
Proof.
  induction c using utree_ind'.
  intros v' [Hleaf Hnt] Hwf Htips Gv' Sv' HaU Hall.
  rename c into cm. simpl in Hnt, Hwf.
  assert (Hf : Forall edge_slot sl).
  { apply Forall_forall. intros [[e d]|] Hin; simpl; auto.
    rewrite Forall_forall in Hwf. apply edge_ok_all; [apply (Hwf _ Hin)|].
    intros m Hm. apply Htips. eapply leaves_child; eauto. }
  assert (Hk : kids_of sl <> []).
  { unfold is_leaf, kids in Hleaf. simpl in Hleaf. destruct (kids_of sl); congruence. }
  destruct (C_formula n cm sl Hnt Hk Hf) as [HC [HU [Hrs Hne]]].
  set (a := first_max v') in *.
  destruct Sv' as [a' [Ha' Hua']].
  assert (Ea : a = a') by (eapply single_first_max; eauto). subst a'.
  set (g := fun c => acctran skip (if skip && is_vtip c then vroot c else refine v' (vroot c)) c).
  assert (Hcost : cost ts (UNode n cm sl) (lab_of (UNode n cm sl) (acctran skip v' (fst (uppass tv k (UNode n cm sl)))))
                  = contrib a (kid_results sl)).
  { rewrite uppass_unfold, Hnt in Hall |- *. cbv zeta in Hall |- *. simpl fst in Hall |- *.
    rewrite acctran_unfold in Hall |- *. rewrite lab_of_unfold, cost_unfold. simpl vroot. simpl vkids.
    fold a. fold g in Hall |- *.
    apply vall_node in Hall. destruct Hall as [_ Hall].
    apply slots_cost_eq.
    apply Forall_forall. intros [[e d]|] Hin; [|exact I].
    rewrite Forall_forall in H, Hwf, Hall.
    pose proof (Hwf _ Hin) as Hwd. simpl in Hwd.
    assert (Hdt : forall m, In m (leaves d) -> tip_ok tv ts k m).
    { intros m Hm. apply Htips. eapply leaves_child; eauto. }
    destruct (is_leaf d) eqn:Edl.
    - apply leaf_branch; auto. apply Hdt. destruct d as [nd cd sld]. simpl.
      unfold is_leaf, kids in Edl. simpl in Edl. destruct (kids_of sld); [left; reflexivity | discriminate].
    - (* an inner child *)
      assert (Hdin : inner d) by (apply wf_sub_inner; assumption).
      assert (Hdk : kids_of (uslots d) <> []).
      { unfold is_leaf, kids in Edl. destruct (kids_of (uslots d)); congruence. }
      assert (Hgd : g (fst (uppass tv k d)) = acctran skip (refine v' (U tv k d)) (fst (uppass tv k d))).
      { unfold g. rewrite (vtip_inner tv k d Hdin Hdk), andb_false_r. reflexivity. }
      assert (Hallg : vall single (g (fst (uppass tv k d)))).
      { apply Hall. apply in_map. apply in_map. unfold kid_results. apply in_flat_map.
        exists (Some (e, d)). split; [exact Hin | left; reflexivity]. }
      rewrite Hgd in Hallg |- *.
      destruct (node_ok_sub tv ts k d Hwd Edl Hdt) as [[LU [BU [yU HyU]]] _].
      assert (GU : good k (U tv k d)) by (split; assumption).
      set (vd := refine v' (U tv k d)) in *.
      assert (Gvd : good k vd) by (apply refine_good; assumption).
      assert (Svd : single vd).
      { apply Hallg. destruct d as [nd cd sld]. rewrite uppass_unfold. destruct Hdin as [_ Q]. simpl in Q.
        rewrite Q. cbv zeta. simpl fst. rewrite acctran_unfold. simpl. left. reflexivity. }
      destruct Svd as [z [Hz Huz]].
      assert (Ez : first_max vd = z) by (eapply single_first_max; eauto).
      destruct d as [nd cd sld].
      assert (Hroot : lroot (lab_of (UNode nd cd sld) (acctran skip vd (fst (uppass tv k (UNode nd cd sld))))) = z).
      { rewrite lroot_lab_of, vroot_acctran. exact Ez. }
      assert (HzU : nth z (U tv k (UNode nd cd sld)) 0 = 1) by (eapply (refine_sub k v'); eauto).
      assert (IHd : cost ts (UNode nd cd sld) (lab_of (UNode nd cd sld) (acctran skip vd (fst (uppass tv k (UNode nd cd sld)))))
                    = C tv k (UNode nd cd sld)).
      { apply (H _ Hin vd); auto.
        - apply (wf_sub_slots nd cd sld Hwd).
        - exists z. split; assumption.
        - rewrite Ez. exact HzU. }
      unfold branch_cost. rewrite Edl, Hroot, IHd. unfold miss.
      destruct (refine_cases k v' _ Gv' GU) as [[_ [Hi _]]|[Hno He]].
      + (* intersection: z = a *)
        fold vd in Hi. apply Hi in Hz. destruct Hz as [Hzv _].
        rewrite (Hua' z Hzv), Nat.eqb_refl. rewrite (Hua' z Hzv) in HzU. rewrite HzU. lia.
      + (* no intersection: a is not a state of d *)
        assert (Hna : nth a (U tv k (UNode nd cd sld)) 0 = 0).
        { pose proof (BU a). destruct (Nat.eq_dec (nth a (U tv k (UNode nd cd sld)) 0) 1) as [Q|Q]; [|lia].
          exfalso. apply (Hno a). split; assumption. }
        destruct (Nat.eqb a z) eqn:Eaz.
        * apply Nat.eqb_eq in Eaz. subst z. congruence.
        * rewrite Hna. lia. }
  rewrite Hcost.
  destruct (contrib_formula k (kid_results sl) Hrs Hne) as [Hc _].
  specialize (Hc a).
  rewrite HU in HaU. apply (cp_max_iff k (kid_results sl) a Hrs Hne) in HaU. lia.
Qed.

End Unamb.

(** * reading labels and vectors along paths *)
Lemma lab_slots_nth : forall sl ks i e c vc,
  nth_error sl i = Some (Some (e, c)) -> nth_error ks (kidx sl i) = Some vc ->
  nth_error (lab_slots lab_of sl ks) i = Some (Some (lab_of c vc)).
Proof.
  induction sl as [|s sl IH]; intros ks i e c vc Hs Hk.
  - destruct i; discriminate.
  - destruct i.
    + simpl in Hs. inversion Hs; subst. rewrite kidx_0 in Hk.
      destruct ks as [|v0 ks]; simpl in Hk; [discriminate|]. inversion Hk; subst. reflexivity.
    + simpl in Hs. destruct s as [[e1 c1]|].
      * rewrite kidx_S_some in Hk. destruct ks as [|v0 ks]; simpl in Hk; [discriminate|].
        simpl. eapply IH; eauto.
      * rewrite kidx_S_none in Hk. simpl. eapply IH; eauto.
Qed.

Lemma label_at_lab_of : forall q t vt v, vec_at t vt q = Some v ->
  label_at (lab_of t vt) q = Some (first_max v).
Proof.
  induction q as [|i q IH]; intros t vt v Hv.
  - simpl in Hv. inversion Hv; subst. unfold label_at. simpl. rewrite lroot_lab_of. reflexivity.
  - destruct t as [n cm sl]. simpl in Hv.
    destruct (nth_error sl i) as [[[e c]|]|] eqn:Ei; try discriminate.
    destruct (nth_error (vkids vt) (kidx sl i)) as [vc|] eqn:Ek; [|discriminate].
    unfold label_at. rewrite lab_of_unfold. simpl lsub.
    rewrite (lab_slots_nth sl (vkids vt) i e c vc Ei Ek).
    apply (IH c vc v Hv).
Qed.

Lemma vec_at_In : forall q t vt v, vec_at t vt q = Some v -> In v (vflat vt).
Proof.
  induction q as [|i q IH]; intros t vt v Hv.
  - simpl in Hv. inversion Hv; subst. destruct vt. simpl. left. reflexivity.
  - simpl in Hv. destruct (nth_error (uslots t) i) as [[[e c]|]|]; try discriminate.
    destruct (nth_error (vkids vt) (kidx (uslots t) i)) as [vc|] eqn:Ek; [|discriminate].
    destruct vt as [w ks]. simpl in *. right. apply in_flat_map. exists vc. split.
    + eapply nth_error_In; eauto.
    + eapply IH; eauto.
Qed.

Lemma vsame_vsub_defined : forall p t a b sa, vsame a b -> vsub t a p = Some sa -> exists sb, vsub t b p = Some sb.
Proof.
  induction p as [|i p IH]; intros t a b sa Hs Ha; simpl in *; [eauto|].
  destruct (nth_error (uslots t) i) as [[[e c]|]|]; try discriminate.
  destruct a as [v1 k1]. destruct b as [v2 k2]. apply vsame_unfold in Hs. destruct Hs as [_ L].
  simpl in *.
  destruct (nth_error k1 (kidx (uslots t) i)) as [ac|] eqn:E1; [|discriminate].
  destruct (vsame_list_nth k1 k2 _ ac L E1) as [bc [E2 Hsc]]. rewrite E2. eauto.
Qed.

Lemma uppass_vsub_defined : forall tv k q t x,
  (wf_sub t = true \/ (wf t = true /\ 2 <= degree t)) ->
  node_at t q = Some x -> exists s, vsub t (fst (uppass tv k t)) q = Some s.
Proof.
  induction q as [|i q IH]; intros t x Hw Hq; [simpl; eauto|].
  destruct t as [n cm sl]. simpl in Hq.
  destruct (nth_error sl i) as [[[e d]|]|] eqn:Ei; try discriminate.
  assert (Hnt : Nat.eqb (length sl) 1 = false /\ wf_sub d = true).
  { destruct Hw as [Hw|[Hw Hd]].
    - split.
      + rewrite (wf_sub_tip_leaf n cm sl Hw). unfold is_leaf, kids. simpl.
        pose proof (kids_of_nth sl i _ Ei). destruct (kids_of sl); simpl in *; [lia | reflexivity].
      + pose proof (wf_sub_slots n cm sl Hw) as Hs. rewrite Forall_forall in Hs.
        apply (Hs _ (nth_error_In _ _ Ei)).
    - split.
      + unfold degree in Hd. simpl in Hd. apply Nat.eqb_neq. lia.
      + pose proof (wf_slots n cm sl Hw) as Hs. rewrite Forall_forall in Hs.
        apply (Hs _ (nth_error_In _ _ Ei)). }
  destruct Hnt as [Hnt Hwd].
  rewrite uppass_unfold, Hnt. cbv zeta. simpl fst. simpl vsub. rewrite Ei.
  rewrite nth_error_map, (kid_results_nth tv k sl i e d Ei). simpl.
  eapply IH; eauto.
Qed.

(** the cost only depends on the labels of the inner nodes *)
Lemma cost_slots_ext : forall ts x sl ll1 ll2,
  shape_slots shape_ok sl ll1 = true -> shape_slots shape_ok sl ll2 = true ->
  (forall i e d m1 m2, nth_error sl i = Some (Some (e, d)) ->
     nth_error ll1 i = Some (Some m1) -> nth_error ll2 i = Some (Some m2) ->
     branch_cost ts (cost ts) x d m1 = branch_cost ts (cost ts) x d m2) ->
  cost_slots ts (cost ts) x sl ll1 = cost_slots ts (cost ts) x sl ll2.
Proof.
  induction sl as [|s sl IH]; intros ll1 ll2 H1 H2 Hb.
  - destruct ll1, ll2; try discriminate. reflexivity.
  - destruct ll1 as [|m1 ll1]; [destruct s as [[? ?]|]; discriminate|].
    destruct ll2 as [|m2 ll2]; [destruct s as [[? ?]|]; discriminate|].
    destruct s as [[e d]|]; destruct m1 as [m1|]; destruct m2 as [m2|]; simpl in H1, H2; try discriminate.
    + apply andb_prop in H1. apply andb_prop in H2. destruct H1 as [_ H1]. destruct H2 as [_ H2].
      simpl. rewrite (Hb 0 e d m1 m2 eq_refl eq_refl eq_refl). f_equal.
      apply IH; auto. intros i. apply (Hb (S i)).
    + simpl. apply IH; auto. intros i. apply (Hb (S i)).
Qed.

Lemma cost_ext : forall ts t l1 l2, shape_ok t l1 = true -> shape_ok t l2 = true ->
  (forall q x, node_at t q = Some x -> is_leaf x = false -> label_at l1 q = label_at l2 q) ->
  cost ts t l1 = cost ts t l2.
Proof.
  induction t using utree_ind'. intros [x1 ll1] [x2 ll2] H1 H2 Hl.
  rewrite shape_ok_unfold in H1, H2. rewrite !cost_unfold.
  destruct (is_leaf (UNode n c sl)) eqn:El.
  - unfold is_leaf, kids in El. simpl in El.
    assert (kids_of sl = []) by (destruct (kids_of sl); [reflexivity | discriminate]).
    rewrite !cost_no_kids by assumption. reflexivity.
  - pose proof (Hl [] _ eq_refl El) as Hr. unfold label_at in Hr. simpl in Hr. inversion Hr; subst x2.
    apply cost_slots_ext; auto.
    intros i e d m1 m2 Hi Hm1 Hm2. unfold branch_cost.
    destruct (is_leaf d) eqn:Ed; [reflexivity|].
    destruct (shape_slots_nth sl ll1 i e d H1 Hi) as [m1' [E1 S1]]. rewrite Hm1 in E1. inversion E1; subst m1'.
    destruct (shape_slots_nth sl ll2 i e d H2 Hi) as [m2' [E2 S2]]. rewrite Hm2 in E2. inversion E2; subst m2'.
    assert (Hq : forall q y, node_at d q = Some y -> is_leaf y = false -> label_at m1 q = label_at m2 q).
    { intros q y Hq Hy. specialize (Hl (i :: q) y). simpl in Hl. rewrite Hi in Hl.
      specialize (Hl Hq Hy). unfold label_at in *. simpl in Hl. rewrite Hm1, Hm2 in Hl. exact Hl. }
    pose proof (Hq [] d eq_refl Ed) as Hr0. unfold label_at in Hr0. simpl in Hr0. inversion Hr0 as [Hr1].
    rewrite Hr1. f_equal.
    rewrite Forall_forall in H. apply (H _ (nth_error_In _ _ Hi)); auto.
Qed.

Section UnambTop.
Variable tv : string -> vec.
Variable ts : string -> list nat.
Variable k : nat.
Variable T : utree.
Hypothesis Hwf : wf T = true.
Hypothesis Hdeg : 2 <= degree T.
Hypothesis tips : forall n, In n (leaves T) -> tip_ok tv ts k n.

Lemma mincost_optimal : forall l, shape_ok T l = true -> cost ts T l = up_steps tv k T -> optimal ts T l.
Proof.
  intros l Hs Hc. assert (Hd1 : degree T <> 1) by lia.
  destruct (up_steps_mincost tv ts k T Hwf Hd1 tips) as [_ Hmin].
  split; [exact Hs|]. intros l' Hs'. rewrite Hc. apply Hmin. exact Hs'.
Qed.

(** C12 (ACCTRAN): an output that is unambiguous at every node is most parsimonious *)
Theorem acctran_unambiguous : forall skip,
  vall single (fst (parsimony skip tv k Acctran T)) ->
  optimal ts T (lab_of T (fst (parsimony skip tv k Acctran T))).
Proof.
  intros skip Hall.
  destruct (root_facts tv ts k T Hwf Hdeg tips) as [Htip [Hin [Hk Hw]]].
  assert (Hd1 : degree T <> 1) by lia.
  assert (Hleaf : is_leaf T = false) by apply Hin.
  destruct (root_node_ok tv ts k T Hwf Hd1 Hleaf tips) as [[LU [BU _]] _].
  unfold parsimony in *. rewrite Htip in *.
  destruct (uppass tv k T) as [u s] eqn:Eu. simpl in *.
  assert (Eu' : u = fst (uppass tv k T)) by (rewrite Eu; reflexivity).
  assert (Es : s = up_steps tv k T) by (unfold up_steps; rewrite Eu; reflexivity).
  rewrite Eu' in *. fold (U tv k T) in *.
  assert (SU : single (U tv k T)).
  { apply Hall. destruct (fst (uppass tv k T)). rewrite acctran_unfold. simpl. left. reflexivity. }
  apply mincost_optimal; [apply shape_lab_of|].
  rewrite (acc_unamb_sub tv ts k skip T (U tv k T) Hin Hw tips (conj LU BU) SU); [reflexivity | | exact Hall].
  destruct SU as [y [Hy Huy]].
  rewrite (single_first_max k (U tv k T) y (conj LU BU) Hy Huy). exact Hy.
Qed.

(** C12 (DOWNPASS): an output that is unambiguous at every node is most parsimonious *)
Theorem downpass_unambiguous : forall skip,
  vall single (fst (parsimony skip tv k Downpass T)) ->
  optimal ts T (lab_of T (fst (parsimony skip tv k Downpass T))).
Proof.
  intros skip Hall.
  assert (Hd1 : degree T <> 1) by lia.
  destruct (up_steps_mincost tv ts k T Hwf Hd1 tips) as [[L [HsL HcL]] Hmin].
  assert (HoptL : optimal ts T L).
  { split; [exact HsL|]. intros l' Hs'. rewrite HcL. apply Hmin. exact Hs'. }
  set (vt := fst (parsimony skip tv k Downpass T)) in *.
  apply mincost_optimal; [apply shape_lab_of|]. rewrite <- HcL.
  apply cost_ext; [apply shape_lab_of | exact HsL|].
  intros q x Hq Hx.
  (* the vector at q is defined *)
  assert (Hdef : exists v, vec_at T vt q = Some v).
  { destruct (root_facts tv ts k T Hwf Hdeg tips) as [Htip _].
    destruct (uppass_vsub_defined tv k q T x (or_intror (conj Hwf Hdeg)) Hq) as [su Hsu].
    unfold vt, parsimony. rewrite Htip. destruct (uppass tv k T) as [u s]. simpl in *.
    destruct (vsame_vsub_defined q T u _ su (downpass_vsame k u true []) Hsu) as [sb Hsb].
    exists (vroot sb). rewrite vec_at_vsub, Hsb. reflexivity. }
  destruct Hdef as [v Hv].
  rewrite (label_at_lab_of q T vt v Hv).
  destruct (shape_lsub q T L x HsL Hq) as [lc [Hlc _]].
  unfold label_at at 1. rewrite Hlc. f_equal.
  pose proof (Hall v (vec_at_In q T vt v Hv)) as [y [Hy Huy]].
  assert (Gv : good k v).
  { unfold vt, parsimony in Hv.
    destruct (root_facts tv ts k T Hwf Hdeg tips) as [Htip _]. rewrite Htip in Hv.
    pose proof (uppass_good_root tv ts k T Hwf Hdeg tips) as Gu.
    destruct (uppass tv k T) as [u s]. simpl in *.
    apply (downpass_good k u true [] Gu). eapply vec_at_In; eauto. }
  rewrite (single_first_max k v y Gv Hy Huy).
  symmetry. apply Huy.
  apply (downpass_exact tv ts k T Hwf Hdeg tips skip q x v Hq Hx Hv).
  exists L. split; [exact HoptL|]. unfold label_at. rewrite Hlc. reflexivity.
Qed.

End UnambTop.
