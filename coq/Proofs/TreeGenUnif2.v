(** C20 / C16: the unrooted uniform generator reaches exactly the labelled unrooted topologies
    listed by AllTopologies (same set of keys).

    "Every uniform tree has the key of an enumerated tree" is a simulation: while it is built
    the uniform tree is planted at Tip0; the enumerated trees are rooted at the node where the
    paths between Tip0, Tip1, Tip2 meet.  The sets of bipartitions, each written as the side
    that does not contain Tip0 ([away]), coincide step by step.  The converse inclusion follows
    by counting (injectivity, Proofs/TreeGenUnif.v, and equal cardinalities). *)
From Coq Require Import String Ascii ZArith QArith Bool Arith Lia List Permutation Sorted.
From GT Require Import Base.UTree Spec.Obs Spec.GenShape Spec.Unrooted Spec.Counting
     Model.Reroot Model.Rand2 Model.TreeGen Model.Sampling
     Proofs.RerootBase Proofs.Splits Proofs.SamplingBase Proofs.SamplingRefute Proofs.TreeGenNames
     Proofs.TreeGenGraft Proofs.TreeGenLoop Proofs.TreeGenMain
     Proofs.TreeGenTopo Proofs.TreeGenTopo2 Proofs.TreeGenUnif.
Import ListNotations.
Local Close Scope Q_scope.
Local Open Scope list_scope.
Local Arguments n_up : simpl never.

(** * [lset] is canonical *)
Definition llt (a b : list string) : Prop := lcompare a b = Lt.

Lemma lcompare_refl a : lcompare a a = Eq.
Proof.
  induction a as [|x a IH]; simpl; auto.
  assert (E : String.compare x x = Eq) by (apply OrderedTypeEx.String_as_OT.cmp_eq; reflexivity).
  now rewrite E.
Qed.

Lemma scompare_gt_lt a b : String.compare a b = Gt -> String.compare b a = Lt.
Proof. intros H. rewrite String.compare_antisym, H. reflexivity. Qed.
Lemma scompare_lt_gt a b : String.compare a b = Lt -> String.compare b a = Gt.
Proof. intros H. rewrite String.compare_antisym, H. reflexivity. Qed.

Lemma lcompare_gt_lt a : forall b, lcompare a b = Gt -> lcompare b a = Lt.
Proof.
  induction a as [|x a IH]; intros [|y b]; simpl; intros H; try discriminate; auto.
  destruct (String.compare x y) eqn:E; try discriminate.
  - apply OrderedTypeEx.String_as_OT.cmp_eq in E. subst y.
    assert (E : String.compare x x = Eq) by (apply OrderedTypeEx.String_as_OT.cmp_eq; reflexivity).
    rewrite E. auto.
  - apply scompare_gt_lt in E. now rewrite E.
Qed.

Lemma llt_trans a : forall b c, llt a b -> llt b c -> llt a c.
Proof.
  unfold llt. induction a as [|x a IH]; intros [|y b] [|z c]; simpl; intros H1 H2;
    try discriminate; auto.
  destruct (String.compare x y) eqn:E1; try discriminate.
  - apply OrderedTypeEx.String_as_OT.cmp_eq in E1. subst y.
    destruct (String.compare x z) eqn:E2; try discriminate; auto. eapply IH; eauto.
  - destruct (String.compare y z) eqn:E2; try discriminate.
    + apply OrderedTypeEx.String_as_OT.cmp_eq in E2. subst z. now rewrite E1.
    + assert (E3 : String.compare x z = Lt) by (eapply slt_trans; eauto). now rewrite E3.
Qed.

Lemma llt_irrefl a : ~ llt a a.
Proof. unfold llt. rewrite lcompare_refl. discriminate. Qed.

Lemma linsert_sorted x l : StronglySorted llt l -> StronglySorted llt (linsert x l).
Proof.
  induction 1 as [|z r Hs IH Hz]; simpl.
  - repeat constructor.
  - destruct (lcompare x z) eqn:E.
    + now constructor.
    + constructor; [now constructor|]. constructor; auto.
      rewrite Forall_forall in *. intros y Hy. eapply llt_trans; [exact E|auto].
    + constructor; auto. rewrite Forall_forall in *. intros y Hy.
      apply linsert_In in Hy. destruct Hy as [->|Hy]; auto. now apply lcompare_gt_lt.
Qed.

Lemma lset_sorted l : StronglySorted llt (lset l).
Proof. unfold lset. induction l; simpl; [constructor|]. now apply linsert_sorted. Qed.

Lemma lsorted_ext l1 : forall l2,
  StronglySorted llt l1 -> StronglySorted llt l2 -> (forall x, In x l1 <-> In x l2) -> l1 = l2.
Proof.
  induction l1 as [|a r1 IH]; intros [|b r2] S1 S2 H.
  - reflexivity.
  - exfalso. apply (H b). now left.
  - exfalso. apply (H a). now left.
  - inversion S1 as [|? ? S1' F1]; subst. inversion S2 as [|? ? S2' F2]; subst.
    rewrite Forall_forall in F1, F2.
    assert (a = b).
    { destruct (proj1 (H a) (or_introl eq_refl)) as [E|Ha]; auto.
      destruct (proj2 (H b) (or_introl eq_refl)) as [E|Hb]; auto.
      exfalso. apply (llt_irrefl a). eapply llt_trans; [apply F1, Hb|apply F2, Ha]. }
    subst b. f_equal. apply IH; auto. intros x. split; intros Hx.
    + destruct (proj1 (H x) (or_intror Hx)) as [E|Hx']; auto.
      subst x. exfalso. apply (llt_irrefl a). now apply F1.
    + destruct (proj2 (H x) (or_intror Hx)) as [E|Hx']; auto.
      subst x. exfalso. apply (llt_irrefl a). now apply F2.
Qed.

Lemma lset_ext l l' : (forall x, In x l <-> In x l') -> lset l = lset l'.
Proof.
  intros H. apply lsorted_ext; try apply lset_sorted. intros x. rewrite !lset_In. apply H.
Qed.

(** * The exact effect of one graft on the set of clades *)
(** [G] are the clades after grafting [x] on the branch with clade [A] of a tree with clades
    [T]: [x] is added to the clades strictly above the branch *)
Definition EX (x : string) (T G : list (list string)) (A : list string) : Prop :=
  forall B', In B' G <->
    (B' = [x] \/ B' = A \/ B' = sinsert x A \/
     (exists B, In B T /\ incl A B /\ B <> A /\ B' = sinsert x B) \/
     (exists B, In B T /\ ~ incl A B /\ B' = B)).

Lemma EX_wrap x P R T G A :
  EX x T G A -> (forall B, In B (P ++ R) -> ~ incl A B) -> EX x (P ++ T ++ R) (P ++ G ++ R) A.
Proof.
  intros H HPR B'. specialize (H B'). rewrite !in_app_iff. split.
  - intros [HB|[HB|HB]].
    + right; right; right; right. exists B'. rewrite !in_app_iff. split; auto. split; auto.
      apply HPR. apply in_or_app; auto.
    + apply H in HB. destruct HB as [E|[E|[E|[[B [HB [I [N E]]]]|[B [HB [I E]]]]]]]; auto.
      * right; right; right; left. exists B. rewrite !in_app_iff. auto.
      * right; right; right; right. exists B. rewrite !in_app_iff. auto.
    + right; right; right; right. exists B'. rewrite !in_app_iff. split; auto. split; auto.
      apply HPR. apply in_or_app; auto.
  - intros [E|[E|[E|[[B [HB [I [N E]]]]|[B [HB [I E]]]]]]].
    + right; left. apply H. auto.
    + right; left. apply H. auto.
    + right; left. apply H. auto.
    + rewrite !in_app_iff in HB. destruct HB as [HB|[HB|HB]].
      * exfalso. apply (HPR B); auto. apply in_or_app; auto.
      * right; left. apply H. right; right; right; left. exists B. auto.
      * exfalso. apply (HPR B); auto. apply in_or_app; auto.
    + rewrite !in_app_iff in HB. subst B'. destruct HB as [HB|[HB|HB]]; auto.
      right; left. apply H. right; right; right; right. exists B. auto.
Qed.

Lemma EX_head x D K :
  (forall B, In B K -> ~ incl D B) -> EX x (D :: K) (sinsert x D :: [x] :: D :: K) D.
Proof.
  intros HK B'. split.
  - intros [<-|[<-|[<-|HB]]]; auto.
    right; right; right; right. exists B'. simpl. auto.
  - intros [E|[E|[E|[[B [HB [I [N E]]]]|[B [HB [I E]]]]]]]; subst.
    + simpl; auto.
    + simpl; auto.
    + simpl; auto.
    + exfalso. destruct HB as [<-|HB]; [congruence|]. exact (HK B HB I).
    + destruct HB as [<-|HB]; [|simpl; auto]. exfalso. apply I. apply incl_refl.
Qed.

Lemma EX_deep x D K K' A :
  EX x K K' A -> incl A D -> D <> A -> EX x (D :: K) (sinsert x D :: K') A.
Proof.
  intros H HAD HD B'. specialize (H B'). split.
  - intros [<-|HB].
    + right; right; right; left. exists D. simpl. auto.
    + apply H in HB. destruct HB as [E|[E|[E|[[B [HB [I [N E]]]]|[B [HB [I E]]]]]]]; auto.
      * right; right; right; left. exists B. simpl. auto.
      * right; right; right; right. exists B. simpl. auto.
  - intros [E|[E|[E|[[B [HB [I [N E]]]]|[B [HB [I E]]]]]]].
    + right. apply H. auto.
    + right. apply H. auto.
    + right. apply H. auto.
    + destruct HB as [<-|HB]; [left; auto|]. right. apply H.
      right; right; right; left. exists B. auto.
    + destruct HB as [<-|HB]; [contradiction|]. right. apply H.
      right; right; right; right. exists B. auto.
Qed.

(** [EX] only looks at sets *)
Lemma EX_set x T1 T2 G1 G2 A :
  (forall B, In B T1 <-> In B T2) -> EX x T1 G1 A -> EX x T2 G2 A ->
  forall B, In B G1 <-> In B G2.
Proof.
  intros HT H1 H2 B. rewrite (H1 B), (H2 B).
  assert (E4 : (exists B0, In B0 T1 /\ incl A B0 /\ B0 <> A /\ B = sinsert x B0) <->
               (exists B0, In B0 T2 /\ incl A B0 /\ B0 <> A /\ B = sinsert x B0)).
  { split; intros [B0 [H0 R]]; exists B0; (split; [apply HT; exact H0|exact R]). }
  assert (E5 : (exists B0, In B0 T1 /\ ~ incl A B0 /\ B = B0) <->
               (exists B0, In B0 T2 /\ ~ incl A B0 /\ B = B0)).
  { split; intros [B0 [H0 R]]; exists B0; (split; [apply HT; exact H0|exact R]). }
  rewrite E4, E5. reflexivity.
Qed.

(** * One graft is exact, on the tree *)
Lemma other_not_incl pre r ch A B :
  NoDup (kleaves (kids_of pre) ++ leaves ch ++ kleaves (kids_of r)) ->
  A <> [] -> incl A (leaves ch) ->
  In B (slots_clades pre ++ slots_clades r) -> ~ incl A B.
Proof.
  intros ND HA HAc HB Hinc. destruct A as [|y A']; [congruence|].
  assert (Hy : In y (leaves ch)) by (apply HAc; simpl; auto).
  assert (HyB : In y B) by (apply Hinc; simpl; auto).
  apply in_app_or in HB. destruct HB as [HB|HB]; rewrite slots_clades_kids in HB;
    destruct (kclades_incl _ _ HB) as [_ HI].
  - apply (NoDup_app_disj _ _ y ND); [apply HI, HyB|apply in_or_app; auto].
  - apply NoDup_app_r in ND. apply (NoDup_app_disj _ _ y ND); [exact Hy|apply HI, HyB].
Qed.

Lemma kleaves_replace pre e ch r :
  kleaves (kids_of (pre ++ Some (e, ch) :: r)) =
  kleaves (kids_of pre) ++ leaves ch ++ kleaves (kids_of r).
Proof. rewrite kids_of_app, kleaves_app. reflexivity. Qed.

Lemma proper_facts ch :
  wf_sub ch = true -> bin_sub ch = true -> NoDup (leaves ch) ->
  forall A, In A (clades ch) -> ~ incl (sset (leaves ch)) A /\ sset (leaves ch) <> A.
Proof.
  intros W B ND A HA. destruct (sub_nodup ch W B ND) as [_ HP].
  destruct (HP A HA) as [y [Hy1 Hy2]].
  assert (HyD : In y (sset (leaves ch))) by (apply sset_In; exact Hy1).
  split.
  - intros H. apply Hy2. apply H. exact HyD.
  - intros E. apply Hy2. rewrite <- E. exact HyD.
Qed.

Lemma grafts_go_EX x n c l :
  Forall (fun s => match s with
                   | Some (_, t) =>
                     NoDup (leaves t) ->
                     sub_all wf_sub (uslots t) = true -> sub_all bin_sub (uslots t) = true ->
                     Forall2 (fun g A => EX x (clades t) (clades g) A)
                             (grafts (tip_node x) t) (clades t)
                   | None => True end) l ->
  forall pre,
    NoDup (kleaves (kids_of (pre ++ l))) ->
    sub_all wf_sub (pre ++ l) = true -> sub_all bin_sub (pre ++ l) = true ->
    Forall2 (fun g A => EX x (slots_clades (pre ++ l)) (clades g) A)
            (grafts_go (tip_node x) n c pre l) (slots_clades l).
Proof.
  induction 1 as [|[[e ch]|] r Hs Hr IH]; intros pre ND Hsw Hsb.
  - constructor.
  - assert (Hch : wf_sub ch = true /\ bin_sub ch = true).
    { rewrite sub_all_app in Hsw, Hsb. simpl in Hsw, Hsb.
      apply andb_prop in Hsw. destruct Hsw as [_ Hsw]. apply andb_prop in Hsw.
      apply andb_prop in Hsb. destruct Hsb as [_ Hsb]. apply andb_prop in Hsb. tauto. }
    destruct Hch as [Hw Hb].
    pose proof (clades_replace n c pre e ch r) as ET. rewrite clades_unfold in ET.
    rewrite kleaves_replace in ND.
    assert (NDch : NoDup (leaves ch)).
    { apply NoDup_app_r in ND. now apply NoDup_app_l in ND. }
    pose proof (proper_facts ch Hw Hb NDch) as HP.
    set (D := sset (leaves ch)) in *.
    assert (HDne : D <> []) by (apply sset_nonempty, leaves_nonempty).
    assert (HDin : incl D (leaves ch)).
    { intros y Hy. apply (proj1 (sset_In _ _)) in Hy. exact Hy. }
    simpl grafts_go.
    change (slots_clades (Some (e, ch) :: r)) with ((D :: clades ch) ++ slots_clades r).
    simpl app. constructor; [|apply Forall2_app].
    + rewrite ET, clades_replace, clades_graft_node. fold D.
      apply EX_wrap.
      * apply EX_head. intros B HB. apply (HP B HB).
      * intros B HB. eapply other_not_incl; eauto.
    + destruct ch as [n' c' sl'].
      rewrite wf_sub_eq in Hw. apply andb_prop in Hw. destruct Hw as [Hw1 Hw2].
      rewrite bin_sub_eq in Hb. apply andb_prop in Hb. destruct Hb as [Hb1 Hb2].
      pose proof (grafts_ok x (UNode n' c' sl') Hw2 Hb2) as Hok.
      eapply Forall2_map_in; [exact (Hs NDch Hw2 Hb2)|exact Hok|].
      intros g' A HA HEX (Q1 & Q2 & Q3 & Q4 & Q5 & Q6 & Q7 & Q8 & Q9).
      rewrite ET, clades_replace.
      assert (EL : sset (leaves g') = sinsert x D).
      { rewrite (leaves_kleaves g' Q6). rewrite (sset_perm _ _ Q9).
        rewrite <- (leaves_kleaves _ Q5). reflexivity. }
      rewrite EL. apply EX_wrap.
      * apply EX_deep; auto.
        -- intros y Hy. apply sset_In. exact (clades_sub _ _ HA y Hy).
        -- apply (HP A HA).
      * intros B HB. eapply other_not_incl; eauto.
        -- eapply clades_nonempty; eauto.
        -- now apply clades_sub.
    + specialize (IH (pre ++ [Some (e, ch)])). rewrite <- !app_assoc in IH. simpl in IH.
      apply IH; auto. now rewrite kleaves_replace.
  - simpl grafts_go. change (slots_clades (None :: r)) with (slots_clades r).
    specialize (IH (pre ++ [None])). rewrite <- !app_assoc in IH. simpl in IH.
    apply IH; assumption.
Qed.

Lemma leaves_kids_nodup n c sl :
  NoDup (leaves (UNode n c sl)) -> NoDup (kleaves (kids_of sl)).
Proof.
  rewrite leaves_unfold. destruct (kids_of sl); [constructor|auto].
Qed.

Lemma grafts_EX x t :
  NoDup (leaves t) ->
  sub_all wf_sub (uslots t) = true -> sub_all bin_sub (uslots t) = true ->
  Forall2 (fun g A => EX x (clades t) (clades g) A) (grafts (tip_node x) t) (clades t).
Proof.
  induction t as [n c sl IH] using utree_ind'. intros ND Hw Hb.
  rewrite grafts_unfold, clades_unfold.
  apply (grafts_go_EX x n c sl IH []); auto. simpl. now apply leaves_kids_nodup in ND.
Qed.

Lemma Forall2_In_r {A B} (R : A -> B -> Prop) l1 l2 b :
  Forall2 R l1 l2 -> In b l2 -> exists a, In a l1 /\ R a b.
Proof.
  induction 1 as [|x y l1 l2 Hxy H IH]; simpl; intros Hb; [tauto|].
  destruct Hb as [->|Hb]; [exists x; auto|].
  destruct (IH Hb) as [a [Ha Hab]]. exists a; auto.
Qed.

(** the same for [graft_id] *)
Lemma graft_id_EX x k e1 e2 t : forall C,
  NoDup (eids t) -> In (k, C) (idclades t) -> ~ In x (leaves t) -> NoDup (leaves t) ->
  sub_all wf_sub (uslots t) = true -> sub_all bin_sub (uslots t) = true ->
  EX x (clades t) (clades (graft_id k e1 e2 (tip_node x) t)) C.
Proof.
  induction t as [n c sl IH] using utree_ind'. intros C Hnd Hin Hx ND Hsw Hsb.
  simpl uslots in Hsw, Hsb.
  assert (Hk : In k (eids_sl sl)).
  { rewrite <- eids_unfold with (n := n) (c := c), <- idclades_fst.
    apply in_map_iff. exists (k, C). auto. }
  rewrite eids_unfold in Hnd.
  destruct (G_one k e1 e2 (tip_node x) sl Hnd Hk) as [pre [e [ch [post [E1 [E2 [N D]]]]]]].
  rewrite graft_id_unfold, E2. subst sl.
  assert (Hfst : NoDup (map fst (idclades (UNode n c (pre ++ Some (e, ch) :: post))))).
  { rewrite idclades_fst, eids_unfold. exact Hnd. }
  assert (Hhere : forall p, In p ((eid e, sset (leaves ch)) :: idclades ch) ->
                            In p (idclades (UNode n c (pre ++ Some (e, ch) :: post)))).
  { intros p Hp. rewrite idclades_unfold, idclades_sl_app. apply in_or_app. right.
    change (idclades_sl idclades (Some (e, ch) :: post))
      with (((eid e, sset (leaves ch)) :: idclades ch) ++ idclades_sl idclades post).
    apply in_or_app. left. exact Hp. }
  rewrite Forall_forall in IH.
  assert (Hs : In (Some (e, ch)) (pre ++ Some (e, ch) :: post))
    by (apply in_or_app; right; left; reflexivity).
  assert (IHch := IH _ Hs). simpl in IHch.
  assert (Hch : wf_sub ch = true /\ bin_sub ch = true).
  { rewrite sub_all_app in Hsw, Hsb. simpl in Hsw, Hsb.
    apply andb_prop in Hsw. destruct Hsw as [_ Hsw]. apply andb_prop in Hsw.
    apply andb_prop in Hsb. destruct Hsb as [_ Hsb]. apply andb_prop in Hsb. tauto. }
  destruct Hch as [Hw Hb].
  pose proof (clades_replace n c pre e ch post) as ET.
  apply leaves_kids_nodup in ND. rewrite kleaves_replace in ND.
  assert (NDch : NoDup (leaves ch)).
  { apply NoDup_app_r in ND. now apply NoDup_app_l in ND. }
  pose proof (proper_facts ch Hw Hb NDch) as HP.
  assert (Hxl : ~ In x (leaves ch)).
  { intros H. apply Hx. exact (leaves_child n c _ e ch Hs x H). }
  set (D0 := sset (leaves ch)) in *.
  assert (HDne : D0 <> []) by (apply sset_nonempty, leaves_nonempty).
  assert (HDin : incl D0 (leaves ch)).
  { intros y Hy. apply (proj1 (sset_In _ _)) in Hy. exact Hy. }
  unfold G. destruct D as [D|[D1 D2]].
  - assert (EC : C = D0).
    { eapply fst_unique; [exact Hfst|exact Hin|]. apply Hhere. left. now rewrite D. }
    subst C. apply Nat.eqb_eq in D. rewrite D.
    rewrite ET, clades_replace, clades_graft_node. fold D0.
    apply EX_wrap.
    + apply EX_head. intros B HB. apply (HP B HB).
    + intros B HB. eapply other_not_incl; eauto.
  - assert (HC' : exists C', In (k, C') (idclades ch)).
    { rewrite <- idclades_fst in D2. apply in_map_iff in D2. destruct D2 as [[k0 C'] [E H]].
      simpl in E. subst k0. eauto. }
    destruct HC' as [C' HC'].
    assert (EC : C = C').
    { eapply fst_unique; [exact Hfst|exact Hin|]. apply Hhere. right. exact HC'. }
    subst C'. apply Nat.eqb_neq in D1. rewrite D1.
    assert (HCc : In C (clades ch)).
    { rewrite <- idclades_snd. apply in_map_iff. exists (k, C). auto. }
    destruct ch as [n' c' sl'].
    pose proof Hw as Hw'. pose proof Hb as Hb'.
    rewrite wf_sub_eq in Hw'. apply andb_prop in Hw'. destruct Hw' as [_ Hw2].
    rewrite bin_sub_eq in Hb'. apply andb_prop in Hb'. destruct Hb' as [_ Hb2].
    pose proof (IHch C N HC' Hxl NDch Hw2 Hb2) as IG.
    destruct (graft_id_GR x k e1 e2 (UNode n' c' sl') C N HC' Hxl) as [_ IP].
    rewrite ET, clades_replace.
    assert (EL : sset (leaves (graft_id k e1 e2 (tip_node x) (UNode n' c' sl'))) = sinsert x D0).
    { rewrite (sset_perm _ _ IP). reflexivity. }
    rewrite EL. apply EX_wrap.
    + apply EX_deep; auto.
      * intros y Hy. apply sset_In. exact (clades_sub _ _ HCc y Hy).
      * apply (HP C HCc).
    + intros B HB. eapply other_not_incl; eauto.
      * eapply clades_nonempty; eauto.
      * now apply clades_sub.
Qed.

(** * The same graft seen from the tip [r]: sides that do not contain [r] *)
Lemma mem_sdiff a B y : In y (sdiff a B) <-> In y a /\ ~ In y B.
Proof.
  unfold sdiff. rewrite filter_In, negb_true_iff. split; intros [H1 H2]; split; auto.
  - intros H. apply smem_In in H. congruence.
  - destruct (smem y B) eqn:E; auto. apply smem_In in E. contradiction.
Qed.

Lemma incl_decidable (A B : list string) : {incl A B} + {~ incl A B}.
Proof.
  induction A as [|a A IH].
  - left. intros y [].
  - destruct (in_dec string_dec a B) as [Ha|Ha].
    + destruct IH as [IH|IH].
      * left. intros y [<-|Hy]; auto.
      * right. intros H. apply IH. intros y Hy. apply H. simpl; auto.
    + right. intros H. apply Ha. apply H. simpl; auto.
Qed.

Section AwayEX.
  Variables (r r1 r2 x : string) (all : list string).
  Hypothesis Sall : StronglySorted slt all.
  Hypothesis Rin : In r all.
  Hypothesis R1in : In r1 all.
  Hypothesis R2in : In r2 all.
  Hypothesis Xout : ~ In x all.

  Let all' := sinsert x all.
  Let aw := away r all.
  Let aw' := away r all'.

  Definition good (B : list string) : Prop :=
    StronglySorted slt B /\ incl B all /\ B <> [] /\ few3 r r1 r2 B.

  Lemma Sall' : StronglySorted slt all'.
  Proof. apply sinsert_sorted, Sall. Qed.

  Lemma rx : r <> x.
  Proof. intros E. apply Xout. now rewrite <- E. Qed.

  Lemma sdiff_plus B : incl B all ->
    sdiff all' (sinsert x B) = sdiff all B.
  Proof.
    intros HB. apply sorted_ext.
    - unfold sdiff. apply filter_sorted, Sall'.
    - unfold sdiff. apply filter_sorted, Sall.
    - intros y. rewrite !mem_sdiff. unfold all'. rewrite !sinsert_In.
      destruct (string_dec y x) as [->|N]; [tauto|]. tauto.
  Qed.

  Lemma sdiff_plain B : incl B all ->
    sdiff all' B = sinsert x (sdiff all B).
  Proof.
    intros HB. apply sorted_ext.
    - unfold sdiff. apply filter_sorted, Sall'.
    - apply sinsert_sorted. unfold sdiff. apply filter_sorted, Sall.
    - intros y. rewrite sinsert_In, !mem_sdiff. unfold all'. rewrite sinsert_In.
      destruct (string_dec y x) as [->|N].
      + split; [intros _; left; reflexivity|]. intros _. split; [left; reflexivity|].
        intros H. apply Xout. apply HB. exact H.
      + tauto.
  Qed.

  Lemma aw'_single : aw' [x] = [x].
  Proof.
    unfold aw', away. rewrite smem_false; auto. simpl. intros [E|[]]. apply rx. auto.
  Qed.

  (** how the two sides of the new tip relate *)
  Lemma aw_cases B : incl B all ->
    (~ In r B /\ aw B = B /\ aw' B = B /\ aw' (sinsert x B) = sinsert x B) \/
    (In r B /\ aw B = sdiff all B /\ aw' B = sinsert x (sdiff all B) /\
     aw' (sinsert x B) = sdiff all B).
  Proof.
    intros HB. unfold aw, aw', away.
    destruct (in_dec string_dec r B) as [H|H].
    - right. assert (T : smem r B = true) by (now apply smem_In).
      assert (T' : smem r (sinsert x B) = true) by (apply smem_In, sinsert_In; auto).
      rewrite T, T', sdiff_plus, sdiff_plain; auto.
    - left. assert (T : smem r B = false) by (now apply smem_false).
      assert (T' : smem r (sinsert x B) = false).
      { apply smem_false. intros H'. apply sinsert_In in H'. destruct H' as [E|H']; auto.
        now apply rx. }
      rewrite T, T'. auto.
  Qed.

  Lemma few3_proper B : few3 r r1 r2 B -> exists y, In y all /\ ~ In y B.
  Proof.
    unfold few3, many3. intros H.
    destruct (smem r B) eqn:E0; [|exists r; split; auto; intros H'; apply smem_In in H'; congruence].
    destruct (smem r1 B) eqn:E1; [simpl in H; discriminate|].
    exists r1. split; auto. intros H'. apply smem_In in H'. congruence.
  Qed.

  Lemma few3_nocomp B1 B2 : few3 r r1 r2 B1 -> few3 r r1 r2 B2 ->
    (forall y, In y all -> (In y B1 <-> ~ In y B2)) -> False.
  Proof.
    unfold few3, many3. intros H1 H2 HC.
    assert (F : forall y, In y all -> smem y B1 = negb (smem y B2)).
    { intros y Hy. specialize (HC y Hy). destruct (smem y B2) eqn:E2; simpl.
      - apply smem_false. intros H. apply HC in H. apply H. now apply smem_In.
      - apply smem_In. apply HC. intros H. apply smem_In in H. congruence. }
    rewrite (F r Rin), (F r1 R1in), (F r2 R2in) in H1.
    destruct (smem r B2), (smem r1 B2), (smem r2 B2); simpl in *; discriminate.
  Qed.

  Variable T : list (list string).
  Hypothesis Tgood : forall B, In B T -> good B.
  Hypothesis Tlam : forall B1 B2, In B1 T -> In B2 T ->
    incl B1 B2 \/ incl B2 B1 \/ (forall y, In y B1 -> ~ In y B2).

  Lemma sdiff_eq_compl A B : incl A all -> incl B all ->
    sdiff all B = A -> forall y, In y all -> (In y A <-> ~ In y B).
  Proof.
    intros HA HB E y Hy. rewrite <- E, mem_sdiff. tauto.
  Qed.

  Lemma aw_inj A B : In A T -> In B T -> aw B = aw A -> B = A.
  Proof.
    intros HA HB E.
    destruct (Tgood A HA) as (SA & IA & NA & FA). destruct (Tgood B HB) as (SB & IB & NB & FB).
    destruct (aw_cases A IA) as [(RA & EA & _)|(RA & EA & _)];
      destruct (aw_cases B IB) as [(RB & EB & _)|(RB & EB & _)]; rewrite EA, EB in E.
    - exact E.
    - exfalso. apply (few3_nocomp A B FA FB). now apply sdiff_eq_compl.
    - exfalso. apply (few3_nocomp B A FB FA). apply sdiff_eq_compl; auto.
    - apply sorted_ext; auto. intros y.
      assert (H : In y all -> (In y (sdiff all B) <-> In y (sdiff all A))) by (now rewrite E).
      rewrite !mem_sdiff in H.
      destruct (in_dec string_dec y A) as [HyA|HyA], (in_dec string_dec y B) as [HyB|HyB];
        try tauto.
      + pose proof (IA y HyA) as Hall. specialize (H Hall). tauto.
      + pose proof (IB y HyB) as Hall. specialize (H Hall). tauto.
  Qed.

  (** [x] is added to the away-side of [B] iff ([B] is above the branch) xor ([r] is in [B]) *)
  Lemma anc_away A B : In A T -> In B T -> B <> A ->
    (incl (aw A) (aw B) <-> (incl A B <-> ~ In r B)).
  Proof.
    intros HA HB NE.
    destruct (Tgood A HA) as (SA & IA & NA & FA). destruct (Tgood B HB) as (SB & IB & NB & FB).
    destruct (aw_cases A IA) as [(RA & EA & _)|(RA & EA & _)];
      destruct (aw_cases B IB) as [(RB & EB & _)|(RB & EB & _)]; rewrite EA, EB.
    - tauto.
    - split.
      + intros H. split; [|tauto]. intros HAB. exfalso.
        destruct A as [|y A']; [congruence|].
        assert (Hy : In y (sdiff all B)) by (apply H; simpl; auto).
        apply mem_sdiff in Hy. apply (proj2 Hy). apply HAB. simpl; auto.
      + intros H. assert (NAB : ~ incl A B) by tauto.
        destruct (Tlam A B HA HB) as [L|[L|L]]; [contradiction| |].
        * exfalso. apply RA. apply L. exact RB.
        * intros y Hy. apply mem_sdiff. split; auto.
    - split.
      + intros H. exfalso.
        destruct (Tlam A B HA HB) as [L|[L|L]].
        * apply RB. apply L. exact RA.
        * destruct (few3_proper A FA) as [y [Hy1 Hy2]].
          apply Hy2. apply L. apply H. apply mem_sdiff. auto.
        * apply (few3_nocomp B A FB FA). intros y Hy. split.
          -- intros HyB HyA. exact (L y HyA HyB).
          -- intros HyA. apply H. apply mem_sdiff. auto.
      + intros [_ H]. exfalso. assert (HAB : incl A B) by tauto. apply RB. apply HAB. exact RA.
    - split.
      + intros H. split; [|tauto]. intros HAB. exfalso. apply NE.
        apply sorted_ext; auto. intros y. split; [|apply HAB].
        intros HyB. destruct (in_dec string_dec y A) as [HyA|HyA]; auto. exfalso.
        assert (Hy : In y (sdiff all B)) by (apply H; apply mem_sdiff; auto).
        apply mem_sdiff in Hy. tauto.
      + intros H. assert (NAB : ~ incl A B) by tauto.
        destruct (Tlam A B HA HB) as [L|[L|L]]; [contradiction| |].
        * intros y Hy. apply mem_sdiff in Hy. apply mem_sdiff. split; [tauto|].
          intros HyB. apply (proj2 Hy). apply L. exact HyB.
        * exfalso. exact (L r RA RB).
  Qed.

  Theorem away_EX G A : In A T -> EX x T G A -> EX x (map aw T) (map aw' G) (aw A).
  Proof.
    intros HA HEX B'.
    destruct (Tgood A HA) as (SA & IA & NA & FA).
    (* the image of a clade other than [A] *)
    assert (Hother : forall B, In B T -> B <> A ->
              (incl (aw A) (aw B) /\ aw B <> aw A /\
               ((incl A B /\ ~ In r B /\ aw' (sinsert x B) = sinsert x (aw B)) \/
                (~ incl A B /\ In r B /\ aw' B = sinsert x (aw B)))) \/
              (~ incl (aw A) (aw B) /\
               ((incl A B /\ In r B /\ aw' (sinsert x B) = aw B) \/
                (~ incl A B /\ ~ In r B /\ aw' B = aw B)))).
    { intros B HB NE. destruct (Tgood B HB) as (SB & IB & NB & FB).
      pose proof (anc_away A B HA HB NE) as K.
      assert (K' : aw B <> aw A) by (intros E; apply NE; now apply aw_inj).
      destruct (incl_decidable A B) as [I|I];
        destruct (aw_cases B IB) as [(RB & EB & EB1 & EB2)|(RB & EB & EB1 & EB2)].
      - left. split; [tauto|]. split; auto. left. rewrite EB2, EB. auto.
      - right. split; [tauto|]. left. rewrite EB2, EB. auto.
      - right. split; [tauto|]. right. rewrite EB1, EB. auto.
      - left. split; [tauto|]. split; auto. right. rewrite EB1, EB. auto. }
    assert (HAA : ([x] = aw' [x]) /\
                  ((aw A = aw' A /\ sinsert x (aw A) = aw' (sinsert x A)) \/
                   (aw A = aw' (sinsert x A) /\ sinsert x (aw A) = aw' A))).
    { split; [now rewrite aw'_single|].
      destruct (aw_cases A IA) as [(RA & EA & EA1 & EA2)|(RA & EA & EA1 & EA2)].
      - left. rewrite EA, EA1, EA2. auto.
      - right. rewrite EA, EA1, EA2. auto. }
    destruct HAA as [Hx HAA].
    assert (GA : In A G) by (apply HEX; auto).
    assert (GAx : In (sinsert x A) G) by (apply HEX; auto).
    assert (Gx : In [x] G) by (apply HEX; auto).
    split.
    - intros HB'. apply in_map_iff in HB'. destruct HB' as [B0 [<- HB0]].
      apply HEX in HB0.
      destruct HB0 as [->|[->|[->|[[B [HB [I [N ->]]]]|[B [HB [I ->]]]]]]].
      + left. now rewrite aw'_single.
      + destruct HAA as [[E1 E2]|[E1 E2]]; rewrite <- ?E1, <- ?E2; auto.
      + destruct HAA as [[E1 E2]|[E1 E2]]; rewrite <- ?E1, <- ?E2; auto.
      + destruct (Hother B HB N) as [(J1 & J2 & [(K1 & K2 & K3)|(K1 & K2 & K3)])
                                    |(J1 & [(K1 & K2 & K3)|(K1 & K2 & K3)])]; try contradiction.
        * right; right; right; left. exists (aw B). rewrite K3. repeat split; auto.
          now apply in_map.
        * right; right; right; right. exists (aw B). rewrite K3. repeat split; auto.
          now apply in_map.
      + assert (N : B <> A) by (intros ->; apply I; apply incl_refl).
        destruct (Hother B HB N) as [(J1 & J2 & [(K1 & K2 & K3)|(K1 & K2 & K3)])
                                    |(J1 & [(K1 & K2 & K3)|(K1 & K2 & K3)])]; try contradiction.
        * right; right; right; left. exists (aw B). rewrite K3. repeat split; auto.
          now apply in_map.
        * right; right; right; right. exists (aw B). rewrite K3. repeat split; auto.
          now apply in_map.
    - intros [->|[->|[->|[[Bb [HBb [I [N ->]]]]|[Bb [HBb [I ->]]]]]]].
      + rewrite Hx. now apply in_map.
      + destruct HAA as [[E1 E2]|[E1 E2]]; rewrite E1; now apply in_map.
      + destruct HAA as [[E1 E2]|[E1 E2]]; rewrite E2; now apply in_map.
      + apply in_map_iff in HBb. destruct HBb as [B [<- HB]].
        assert (NE : B <> A) by (intros ->; now apply N).
        destruct (Hother B HB NE) as [(J1 & J2 & [(K1 & K2 & K3)|(K1 & K2 & K3)])
                                     |(J1 & _)]; try contradiction.
        * rewrite <- K3. apply in_map. apply HEX. right; right; right; left. exists B. auto.
        * rewrite <- K3. apply in_map. apply HEX. right; right; right; right. exists B. auto.
      + apply in_map_iff in HBb. destruct HBb as [B [<- HB]].
        assert (NE : B <> A) by (intros ->; apply I; apply incl_refl).
        destruct (Hother B HB NE) as [(J1 & _)
                                     |(J1 & [(K1 & K2 & K3)|(K1 & K2 & K3)])]; try contradiction.
        * rewrite <- K3. apply in_map. apply HEX. right; right; right; left. exists B.
          repeat split; auto.
        * rewrite <- K3. apply in_map. apply HEX. right; right; right; right. exists B. auto.
  Qed.
End AwayEX.

(** * The clades of a tree with distinct tips are nested or disjoint *)
Definition lam (T : list (list string)) : Prop :=
  forall B1 B2, In B1 T -> In B2 T ->
    incl B1 B2 \/ incl B2 B1 \/ (forall y, In y B1 -> ~ In y B2).

Lemma kclades_lam ks :
  Forall (fun p => lam (clades (snd p))) ks -> NoDup (kleaves ks) -> lam (kclades ks).
Proof.
  induction 1 as [|[e c] ks Hc Hks IH]; intros ND; [intros B1 B2 []|].
  change (kleaves ((e, c) :: ks)) with (leaves c ++ kleaves ks) in ND.
  change (kclades ((e, c) :: ks)) with ((sset (leaves c) :: clades c) ++ kclades ks).
  simpl snd in *.
  assert (Hleft : forall B, In B (sset (leaves c) :: clades c) -> incl B (leaves c)).
  { intros B [<-|HB].
    - intros y Hy. apply (proj1 (sset_In _ _)) in Hy. exact Hy.
    - now apply clades_sub. }
  assert (Hsup : forall B, In B (clades c) -> incl B (sset (leaves c))).
  { intros B HB y Hy. apply sset_In. exact (clades_sub c B HB y Hy). }
  assert (Hdisj : forall B1 B2, In B1 (sset (leaves c) :: clades c) -> In B2 (kclades ks) ->
                                forall y, In y B1 -> ~ In y B2).
  { intros B1 B2 H1 H2 y Hy1 Hy2. destruct (kclades_incl ks B2 H2) as [_ I2].
    apply (NoDup_app_disj _ _ y ND); [apply (Hleft B1 H1), Hy1|apply I2, Hy2]. }
  intros B1 B2 H1 H2. apply in_app_or in H1. apply in_app_or in H2.
  destruct H1 as [H1|H1], H2 as [H2|H2].
  - destruct H1 as [<-|H1], H2 as [<-|H2].
    + left. apply incl_refl.
    + right; left. now apply Hsup.
    + left. now apply Hsup.
    + now apply Hc.
  - right; right. now apply Hdisj.
  - right; right. intros y Hy1 Hy2. exact (Hdisj B2 B1 H2 H1 y Hy2 Hy1).
  - apply IH; auto. eapply NoDup_app_r; eauto.
Qed.

Lemma clades_lam t : NoDup (leaves t) -> lam (clades t).
Proof.
  induction t as [n c sl IH] using utree_ind'. intros ND.
  apply leaves_kids_nodup in ND. rewrite clades_unfold, slots_clades_kids.
  apply Forall_slots_kids in IH. apply kclades_lam; auto.
  apply Forall_forall. intros p Hp. rewrite Forall_forall in IH. apply IH; auto.
  eapply kleaves_nodup_in; eauto.
Qed.

(** * The enumerator with the names Tip0 .. Tip(n-1) *)
Definition tnames_n (n : nat) : list string := map tip_name (seq 0 n).

Lemma topo_name_tip n k : k < n -> topo_name (tnames_n n) k = tip_name k.
Proof.
  intros Hk. unfold topo_name, tnames_n.
  destruct (map tip_name (seq 0 n)) as [|a l] eqn:E.
  { apply (f_equal (@length string)) in E. rewrite map_length, seq_length in E. simpl in E. lia. }
  rewrite <- E.
  rewrite (nth_indep _ EmptyString (tip_name 0)) by (rewrite map_length, seq_length; exact Hk).
  rewrite map_nth, seq_nth by exact Hk. reflexivity.
Qed.

Lemma topo_names_tip n a b : a + b <= n ->
  map (topo_name (tnames_n n)) (seq a b) = map tip_name (seq a b).
Proof.
  intros H. apply map_ext_in. intros k Hk. apply in_seq in Hk. apply topo_name_tip. lia.
Qed.

Definition star3 : utree :=
  UNode "" [] [Some (eL nilv, tip_node (tip_name 0)); Some (eL nilv, tip_node (tip_name 1));
               Some (eL nilv, tip_node (tip_name 2))].

Lemma start_unrooted_star n : 3 <= n -> start_unrooted (tnames_n n) = star3.
Proof.
  intros Hn. unfold start_unrooted, star3. rewrite !topo_name_tip by lia. reflexivity.
Qed.

Lemma topo_pre_snoc names f : forall total t u g,
  In u (topo_pre f names total t) ->
  In g (grafts (tip_node (topo_name names (total + f))) u) ->
  In g (topo_pre (S f) names total t).
Proof.
  induction f as [|f IH]; intros total t u g Hu Hg.
  - simpl in Hu. destruct Hu as [<-|[]]. rewrite Nat.add_0_r in Hg.
    simpl. apply in_flat_map. exists g. split; auto. simpl; auto.
  - simpl in Hu. apply in_flat_map in Hu. destruct Hu as [a [Ha Hu]].
    replace (total + S f) with (S total + f) in Hg by lia.
    pose proof (IH (S total) a u g Hu Hg) as H.
    change (topo_pre (S (S f)) names total t)
      with (flat_map (topo_pre (S f) names (S total))
                     (grafts (tip_node (topo_name names total)) t)).
    apply in_flat_map. exists a. auto.
Qed.

Lemma enum_facts n f u : 3 + f <= n ->
  In u (topo_pre f (tnames_n n) 3 star3) ->
  topo_inv 3 (map tip_name (seq 0 (3 + f))) u /\
  (forall A, In A (clades u) -> few3 (tip_name 0) (tip_name 1) (tip_name 2) A).
Proof.
  intros Hn Hu. rewrite <- (start_unrooted_star n) in Hu by lia.
  pose proof (topo_pre_inv 3 (tnames_n n) f 3 _ _ (start_unrooted_inv (tnames_n n))) as Hinv.
  rewrite !topo_names_tip in Hinv by lia. rewrite <- map_app, <- seq_app in Hinv.
  rewrite Forall_forall in Hinv. split; [now apply Hinv|].
  assert (ND0 : NoDup (map (topo_name (tnames_n n)) (seq 0 3))).
  { rewrite topo_names_tip by lia. apply tip_names_NoDup. }
  assert (ND : NoDup (map (topo_name (tnames_n n)) (seq 0 3) ++
                      map (topo_name (tnames_n n)) (seq 3 f))).
  { rewrite !topo_names_tip by lia. rewrite <- map_app, <- seq_app. apply tip_names_NoDup. }
  assert (R : In (topo_name (tnames_n n) 0) (map (topo_name (tnames_n n)) (seq 0 3)) /\
              In (topo_name (tnames_n n) 1) (map (topo_name (tnames_n n)) (seq 0 3)) /\
              In (topo_name (tnames_n n) 2) (map (topo_name (tnames_n n)) (seq 0 3)))
    by (simpl; repeat split; auto 6).
  destruct R as (R1 & R2 & R3).
  pose proof (topo_pre_few3 _ _ _ 3 (tnames_n n) f 3 _ _ R1 R2 R3
                            (start_unrooted_inv (tnames_n n)) ND
                            (start_unrooted_few3 (tnames_n n) ND0)) as Hfew.
  rewrite Forall_forall in Hfew. specialize (Hfew u Hu).
  rewrite !topo_name_tip in Hfew by lia. exact Hfew.
Qed.

(** * The simulation *)
Definition all_n (i : nat) : list string := sset (map tip_name (seq 0 i)).
(** the clades of the planted tree are the sides away from Tip0 of the enumerated tree *)
Definition simrel (i : nat) (P u : utree) : Prop :=
  forall B, In B (clades P) <-> In B (map (away tip0 (all_n i)) (clades u)).

Lemma all_n_S i : all_n (S i) = sinsert (tip_name i) (all_n i).
Proof.
  unfold all_n. rewrite seq_S, map_app. simpl.
  rewrite (sset_perm (map tip_name (seq 0 i) ++ [tip_name i]) (tip_name i :: map tip_name (seq 0 i))).
  - reflexivity.
  - symmetry. apply Permutation_cons_append.
Qed.

Lemma tip_in_all j i : j < i -> In (tip_name j) (all_n i).
Proof. intros H. apply sset_In. apply in_map. apply in_seq. lia. Qed.
Lemma tip_notin_all i : ~ In (tip_name i) (all_n i).
Proof.
  intros H. apply (proj1 (sset_In _ _)) in H. apply in_map_iff in H. destruct H as [j [E Hj]].
  apply tip_name_inj in E. subst j. apply in_seq in Hj. lia.
Qed.

Lemma sim_base : simrel 3 (st_tree (graft_step init0 2 0)) star3.
Proof. intros B. vm_compute. tauto. Qed.

Lemma sim_step n i S u k : 3 <= i -> i < n ->
  J i S -> k < st_m S ->
  In u (topo_pre (i - 3) (tnames_n n) 3 star3) -> simrel i (st_tree S) u ->
  exists g, In g (grafts (tip_node (tip_name i)) u) /\
            simrel (Datatypes.S i) (st_tree (graft_step S i k)) g.
Proof.
  intros Hi Hin HJ Hk Hu Hsim.
  set (x := tip_name i). set (all := all_n i).
  (* the planted side *)
  destruct (J_planted i S ltac:(lia) HJ) as [e [c [Et [W [Bc TI]]]]].
  destruct (step_GR i S k ltac:(lia) HJ Hk) as [C [IC [_ [_ Hx]]]].
  destruct HJ as [Hinv Hl]. destruct Hinv as [Hids Hm Htips Hshape Hasg Hlen].
  assert (Hnd : NoDup (eids (st_tree S))).
  { eapply Permutation_NoDup; [symmetry; exact Hids|apply seq_NoDup]. }
  destruct TI as (_ & _ & KP & WP & BP & PP).
  assert (NDP : NoDup (leaves (st_tree S))).
  { eapply Permutation_NoDup; [symmetry; exact PP|apply tip_names_NoDup]. }
  assert (EXP : EX x (clades (st_tree S)) (clades (st_tree (graft_step S i k))) C).
  { destruct S as [[t m] asg]. unfold st_tree, graft_step in *. cbn [fst snd] in *.
    exact (graft_id_EX x k (eI m) (eI (Datatypes.S m)) t C Hnd IC Hx NDP WP BP). }
  assert (HC : In C (clades (st_tree S))).
  { rewrite <- idclades_snd. apply in_map_iff. exists (k, C). auto. }
  apply Hsim in HC. apply in_map_iff in HC. destruct HC as [A [EA HA]].
  (* the enumerated side *)
  destruct (enum_facts n (i - 3) u ltac:(lia) Hu) as [TU FU].
  replace (3 + (i - 3)) with i in TU by lia.
  destruct TU as (_ & _ & KU & WU & BU & PU).
  assert (NDU : NoDup (leaves u)).
  { eapply Permutation_NoDup; [symmetry; exact PU|apply tip_names_NoDup]. }
  destruct (Forall2_In_r _ _ _ _ (grafts_EX x u NDU WU BU) HA) as [g [Hg EXU]].
  exists g. split; [exact Hg|].
  assert (Tgood : forall B, In B (clades u) -> good tip0 (tip_name 1) (tip_name 2) all B).
  { intros B HB. split; [eapply clades_sorted; eauto|]. split; [|split].
    - intros y Hy. apply sset_In. eapply Permutation_in; [exact PU|].
      exact (clades_sub u B HB y Hy).
    - eapply clades_nonempty; eauto.
    - now apply FU. }
  pose proof (away_EX tip0 (tip_name 1) (tip_name 2) x all (sset_sorted _)
                      (tip_in_all 0 i ltac:(lia)) (tip_in_all 1 i ltac:(lia))
                      (tip_in_all 2 i ltac:(lia)) (tip_notin_all i)
                      (clades u) Tgood (clades_lam u NDU) (clades g) A HA EXU) as EXA.
  subst all x. rewrite EA in EXA. intros B. rewrite all_n_S.
  exact (EX_set _ _ _ _ _ C Hsim EXP EXA B).
Qed.

Lemma okcs_single k : okcs [k] -> k = 0.
Proof.
  unfold okcs, in_bounds. simpl. intros H. inversion H; subst. unfold unif_bound in *. lia.
Qed.

Lemma sim_loop n cs : 3 <= n -> okcs cs -> 1 <= length cs -> 2 + length cs <= n ->
  exists u, In u (topo_pre (length cs - 1) (tnames_n n) 3 star3) /\
            simrel (2 + length cs) (st_tree (unif_loop 2 cs init0)) u.
Proof.
  intros Hn. induction cs as [|k cs IH] using rev_ind; intros Hok Hl1 Hl2.
  - simpl in Hl1. lia.
  - rewrite app_length in *. simpl length in *.
    destruct cs as [|k0 cs0].
    + simpl app in *. apply okcs_single in Hok. subst k. exists star3. split.
      * simpl. auto.
      * exact sim_base.
    + apply okcs_snoc in Hok. destruct Hok as [Hok Hk].
      destruct (IH Hok ltac:(simpl; lia) ltac:(lia)) as [u [Hu Hsim]].
      pose proof (loop_J _ Hok) as HJ.
      set (i := 2 + length (k0 :: cs0)) in *.
      assert (Hi : 3 <= i) by (unfold i; simpl; lia).
      rewrite <- (inv_m _ _ _ (J_inv _ _ HJ)) in Hk.
      replace (length (k0 :: cs0) - 1) with (i - 3) in Hu by (unfold i; lia).
      destruct (sim_step n i _ u k Hi ltac:(lia) HJ Hk Hu Hsim) as [g [Hg Hsim']].
      exists g. split.
      * replace (length (k0 :: cs0) + 1 - 1) with (Datatypes.S (i - 3)) by (unfold i; simpl; lia).
        eapply topo_pre_snoc; [exact Hu|].
        replace (3 + (i - 3)) with i by lia. rewrite topo_name_tip by lia. exact Hg.
      * rewrite unif_loop_snoc. fold i.
        replace (2 + (length (k0 :: cs0) + 1)) with (Datatypes.S i) by (unfold i; lia).
        exact Hsim'.
Qed.

(** * From the simulation to the keys *)
Lemma canon_compl all Y :
  StronglySorted slt all -> StronglySorted slt Y -> incl Y all ->
  canon_side all (sdiff all Y) = canon_side all Y.
Proof.
  intros Sall SY IY. unfold canon_side. destruct all as [|m all0] eqn:E.
  - destruct Y as [|y Y']; [reflexivity|]. exfalso. apply (IY y). simpl; auto.
  - rewrite <- E in *.
    assert (Hm : In m all) by (rewrite E; simpl; auto).
    rewrite (smem_sdiff all m Y Hm). destruct (smem m Y); simpl; auto.
    now apply sdiff_sdiff.
Qed.

Lemma canon_away r all Y :
  StronglySorted slt all -> StronglySorted slt Y -> incl Y all ->
  canon_side all (away r all Y) = canon_side all Y.
Proof.
  intros. unfold away. destruct (smem r Y); auto. now apply canon_compl.
Qed.

Lemma canon_canon all Y :
  StronglySorted slt all -> StronglySorted slt Y -> incl Y all ->
  canon_side all (canon_side all Y) = canon_side all Y.
Proof.
  intros. destruct (canon_side_cases all Y) as [E|E]; rewrite E at 1; auto.
  now apply canon_compl.
Qed.

Lemma canon_good all Y :
  StronglySorted slt all -> StronglySorted slt Y -> incl Y all ->
  StronglySorted slt (canon_side all Y) /\ incl (canon_side all Y) all.
Proof.
  intros Sall SY IY. destruct (canon_side_cases all Y) as [E|E]; rewrite E; auto. split.
  - unfold sdiff. now apply filter_sorted.
  - intros y Hy. apply mem_sdiff in Hy. tauto.
Qed.

(** two families of sides with the same away-sides have the same canonical sides *)
Lemma canon_of_away r all (X Z : list (list string)) :
  StronglySorted slt all ->
  (forall B, In B X -> StronglySorted slt B /\ incl B all) ->
  (forall B, In B Z -> StronglySorted slt B /\ incl B all) ->
  (forall B, In B (map (away r all) X) <-> In B (map (away r all) Z)) ->
  forall Y, In Y (map (canon_side all) X) <-> In Y (map (canon_side all) Z).
Proof.
  intros Sall HX HZ H.
  assert (D : forall X Z,
             (forall B, In B X -> StronglySorted slt B /\ incl B all) ->
             (forall B, In B Z -> StronglySorted slt B /\ incl B all) ->
             (forall B, In B (map (away r all) X) -> In B (map (away r all) Z)) ->
             forall Y, In Y (map (canon_side all) X) -> In Y (map (canon_side all) Z)).
  { clear X Z HX HZ H. intros X Z HX HZ H Y HY. apply in_map_iff in HY. destruct HY as [B [<- HB]].
    assert (H1 := H _ (in_map (away r all) _ _ HB)).
    apply in_map_iff in H1. destruct H1 as [B' [E HB']].
    destruct (HX B HB) as [SB IB]. destruct (HZ B' HB') as [SB' IB'].
    apply in_map_iff. exists B'. split; auto.
    rewrite <- (canon_away r all B') by auto. rewrite E. now apply canon_away. }
  intros Y. split; apply D; auto; intros B; apply H.
Qed.

Theorem uniform_key_enumerated n cs ls t ts :
  3 <= n -> in_bounds cs (uniform_bounds n false) -> uniform_tree n false cs ls = GOk t ->
  all_topologies n false (tnames_n n) = Ok ts ->
  In (topo_key false t) (map (topo_key false) ts).
Proof.
  intros Hn Hb Ht Hts.
  destruct (uniform_unrooted_final n cs ls t Hn Hb Ht)
    as (Hok & L & e & c & n1 & c1 & sl1 & e1 & Est & -> & Lc & Cc & U & D).
  destruct (sim_loop n cs Hn Hok ltac:(lia) ltac:(lia)) as [u [Hu Hsim]].
  replace (length cs - 1) with (n - 3) in Hu by lia.
  replace (2 + length cs) with n in Hsim by lia.
  rewrite (all_topologies_unrooted_eq n _ ts Hn Hts), topo_rec_pre, map_map.
  rewrite start_unrooted_star by exact Hn.
  apply in_map_iff. exists u. split; [|exact Hu].
  destruct (enum_facts n (n - 3) u ltac:(lia) Hu) as [TU _].
  replace (3 + (n - 3)) with n in TU by lia.
  (* the planted tree *)
  pose proof (loop_J cs Hok) as HJ. replace (2 + length cs) with n in HJ by lia.
  pose proof (J_leaves _ _ HJ) as P. rewrite Est in *.
  assert (El : leaves (UNode tip0 [] [Some (e, c)]) = leaves c).
  { rewrite leaves_unfold. simpl. unfold kleaves. simpl. apply app_nil_r. }
  rewrite El in P.
  assert (F0 : ~ In tip0 (map tip_name (seq 1 (n - 1)))).
  { intros H. apply in_map_iff in H. destruct H as [j [E Hj]]. apply tip_name_inj in E.
    subst j. apply in_seq in Hj. lia. }
  assert (K1 : kids_of sl1 <> []).
  { intros E. rewrite length_slots, U, E in D. simpl in D. lia. }
  assert (R1 : ~ In tip0 (leaves (UNode n1 c1 sl1))).
  { rewrite Lc. intros H. apply F0. exact (Permutation_in _ P H). }
  destruct (final_key tip0 n1 c1 sl1 e1 U K1 R1) as [A1 F1].
  set (t := UNode n1 c1 (replace_up sl1 (Some (e1, UNode tip0 [] [None])))) in *.
  assert (Eall : sinsert tip0 (sset (leaves (UNode n1 c1 sl1))) = all_n n).
  { unfold all_n. rewrite Lc.
    change (sinsert tip0 (sset (leaves c))) with (sset (tip0 :: leaves c)).
    apply sset_perm. rewrite P. replace n with (Datatypes.S (n - 1)) at 2 by lia. reflexivity. }
  rewrite Eall in A1, F1.
  unfold topo_key. rewrite A1, (clone_tipset _ 3 u TU), clone_clades.
  fold (all_n n). apply lset_ext.
  assert (Sall : StronglySorted slt (all_n n)) by apply sset_sorted.
  assert (Ec : clades (UNode tip0 [] [Some (e, c)]) = sset (leaves c) :: clades c).
  { rewrite clades_unfold. simpl. now rewrite app_nil_r. }
  assert (Gt : forall B, In B (clades t) -> StronglySorted slt B /\ incl B (all_n n)).
  { intros B HB. split; [eapply clades_sorted; eauto|].
    intros y Hy. rewrite <- A1. unfold tipset. apply sset_In. exact (clades_sub t B HB y Hy). }
  assert (Gu : forall B, In B (clades u) -> StronglySorted slt B /\ incl B (all_n n)).
  { intros B HB. split; [eapply clades_sorted; eauto|].
    destruct TU as (_ & _ & _ & _ & _ & PU).
    intros y Hy. apply sset_In. eapply Permutation_in; [exact PU|]. exact (clades_sub u B HB y Hy). }
  assert (Gct : forall B, In B (map (canon_side (all_n n)) (clades t)) ->
                          StronglySorted slt B /\ incl B (all_n n)).
  { intros B HB. apply in_map_iff in HB. destruct HB as [B0 [<- HB0]].
    destruct (Gt B0 HB0). now apply canon_good. }
  (* canonical sides of [t] = canonical sides of its canonical sides *)
  assert (Hcc : forall Y, In Y (map (canon_side (all_n n)) (clades t)) <->
                          In Y (map (canon_side (all_n n)) (map (canon_side (all_n n)) (clades t)))).
  { intros Y. rewrite map_map. split; intros HY; apply in_map_iff in HY;
      destruct HY as [B [<- HB]]; apply in_map_iff; exists B; (split; [|exact HB]);
      destruct (Gt B HB); first [now apply canon_canon | symmetry; now apply canon_canon]. }
  intros Y. rewrite Hcc.
  apply (canon_of_away tip0 (all_n n)); auto.
  intros B. rewrite F1, <- (Hsim B), Ec, Lc, Cc. reflexivity.
Qed.

(** * The converse by counting *)
Lemma NoDup_map_inj_in {A B} (f : A -> B) l :
  (forall a b, In a l -> In b l -> f a = f b -> a = b) -> NoDup l -> NoDup (map f l).
Proof.
  intros Hinj ND. induction ND as [|a l Ha ND IH]; simpl; constructor.
  - intros H. apply in_map_iff in H. destruct H as [b [E Hb]].
    assert (b = a) by (apply Hinj; simpl; auto). subst b. contradiction.
  - apply IH. intros. apply Hinj; simpl; auto.
Qed.

Definition ukey (n : nat) (cs : list nat) : list (list string) :=
  match uniform_tree n false cs [] with GOk t => topo_key false t | _ => [] end.

Theorem uniform_unrooted_complete n ts : 3 <= n ->
  all_topologies n false (map tip_name (seq 0 n)) = Ok ts ->
  forall key, In key (map (topo_key false) ts) <->
    exists cs ls t, in_bounds cs (uniform_bounds n false) /\
                    uniform_tree n false cs ls = GOk t /\ topo_key false t = key.
Proof.
  intros Hn Hts key. fold (tnames_n n) in Hts. split.
  - (* counting *)
    set (K := map (ukey n) (all_choices (uniform_bounds n false))).
    set (E := map (topo_key false) ts).
    assert (NDK : NoDup K).
    { apply NoDup_map_inj_in; [|apply all_choices_NoDup].
      intros cs cs' Hc Hc' HE. apply all_choices_in in Hc. apply all_choices_in in Hc'.
      destruct (uniform_tree_ok n false cs [] Hn Hc) as [t [Ht _]].
      destruct (uniform_tree_ok n false cs' [] Hn Hc') as [t' [Ht' _]].
      unfold ukey in HE. rewrite Ht, Ht' in HE.
      eapply uniform_unrooted_injective; eauto. }
    assert (LK : length K = n_unrooted n).
    { unfold K. rewrite map_length. now apply uniform_unrooted_space_size. }
    assert (LE : length E = n_unrooted n).
    { unfold E. rewrite map_length.
      destruct (all_topologies_unrooted_length_names n (tnames_n n) Hn) as [ts' [H1 H2]].
      - right. unfold tnames_n. now rewrite map_length, seq_length.
      - rewrite Hts in H1. inversion H1; subst. exact H2. }
    assert (IKE : incl K E).
    { intros k Hk. unfold K in Hk. apply in_map_iff in Hk. destruct Hk as [cs [<- Hc]].
      apply all_choices_in in Hc.
      destruct (uniform_tree_ok n false cs [] Hn Hc) as [t [Ht _]].
      unfold ukey. rewrite Ht. eapply uniform_key_enumerated; eauto. }
    assert (IEK : incl E K) by (apply NoDup_length_incl; auto; lia).
    intros Hkey. apply IEK in Hkey. unfold K in Hkey. apply in_map_iff in Hkey.
    destruct Hkey as [cs [Ek Hc]]. apply all_choices_in in Hc.
    destruct (uniform_tree_ok n false cs [] Hn Hc) as [t [Ht _]].
    unfold ukey in Ek. rewrite Ht in Ek. exists cs, [], t. auto.
  - intros [cs [ls [t [Hb [Ht <-]]]]]. eapply uniform_key_enumerated; eauto.
Qed.
