(** Heap model: the converse construction.  [heap_of t] is a good heap whose abstraction is
    [t], for every well-formed [t]: the abstraction is onto well-formed trees. *)
From Coq Require Import String ZArith QArith Bool Arith Lia Permutation List.
From GT Require Import Base.UTree Model.Reroot Model.Heap Proofs.Enum Proofs.HeapBase Proofs.HeapRep Proofs.HeapGood.
Import ListNotations.
Local Close Scope Q_scope.

Lemma alookup_NoDup_In {A} k (v : A) m : NoDup (map fst m) -> In (k, v) m -> alookup k m = Some v.
Proof.
  induction m as [|[k0 v0] m IH]; intros Hnd Hin; [destruct Hin|]. cbn in *.
  inversion Hnd as [|? ? Hni Hnd']; subst. destruct Hin as [[= -> ->]|Hin].
  - rewrite Nat.eqb_refl. reflexivity.
  - destruct (Nat.eqb_spec k k0) as [->|_]; [|exact (IH Hnd' Hin)].
    exfalso. apply Hni. apply in_map_iff. exists (k0, v). split; [reflexivity|exact Hin].
Qed.

Definition dflt (p : option (nat * nat)) : nat * nat := match p with Some x => x | None => (0, 0) end.

Definition rec_of (p : option (nat * nat)) (n : string) (c : list string) (sl : list lslot) : hnode :=
  mkHN n c
    (map (fun s : lslot => match s with None => fst (dflt p) | Some (_, _, ch) => lid ch end) sl)
    (map (fun s : lslot => match s with None => snd (dflt p) | Some (e, _, _) => e end) sl).

Lemma lnode_recs_eq prev i n c sl :
  lnode_recs prev (LNode i n c sl) =
  (i, rec_of (Some prev) n c sl) ::
  flat_map (fun s : lslot => match s with None => [] | Some (e, _, ch) => lnode_recs (i, e) ch end) sl.
Proof. reflexivity. Qed.

Lemma lnode_recs_keys : forall lt prev, map fst (lnode_recs prev lt) = lids lt.
Proof.
  induction lt as [i n c sl IH] using ltree_ind'. intros prev. rewrite lnode_recs_eq, lids_eq. cbn [map fst]. f_equal.
  induction IH as [|s sl Hs _ IHsl]; [reflexivity|]. cbn [flat_map]. rewrite map_app, IHsl. f_equal.
  destruct s as [[[e ei] ch]|]; [apply Hs|reflexivity].
Qed.

Lemma lnode_recs_In : forall lt prev p i n c sl, In (p, LNode i n c sl) (lsubs prev lt) ->
  In (i, rec_of p n c sl) (lnode_recs (dflt prev) lt).
Proof.
  induction lt as [i0 n0 c0 sl0 IH] using ltree_ind'. intros prev p i n c sl Hin.
  rewrite lsubs_eq in Hin. rewrite lnode_recs_eq. destruct Hin as [[= <- <- <- <- <-]|Hin].
  - left. unfold rec_of. destruct prev; reflexivity.
  - right. apply in_flat_map in Hin. destruct Hin as [s [Hs Hin]]. apply in_flat_map. exists s. split; [exact Hs|].
    rewrite Forall_forall in IH. specialize (IH s Hs). destruct s as [[[e ei] ch]|]; [|destruct Hin].
    exact (IH (Some (i0, e)) _ _ _ _ _ Hin).
Qed.

Lemma ledge_recs_keys : forall lt, map fst (ledge_recs lt) = leids lt.
Proof.
  induction lt as [i n c sl IH] using ltree_ind'. cbn [ledge_recs leids].
  induction IH as [|s sl Hs _ IHsl]; [reflexivity|]. cbn [flat_map]. rewrite map_app, IHsl. f_equal.
  destruct s as [[[e ei] ch]|]; [|reflexivity]. cbn. f_equal. exact Hs.
Qed.

Lemma ledge_recs_In : forall lt prev p i n c sl e ei ch, In (p, LNode i n c sl) (lsubs prev lt) ->
  In (Some (e, ei, ch)) sl -> In (e, mkHE i (lid ch) ei) (ledge_recs lt).
Proof.
  induction lt as [i0 n0 c0 sl0 IH] using ltree_ind'. intros prev p i n c sl e ei ch Hin Hs.
  rewrite lsubs_eq in Hin. cbn [ledge_recs]. destruct Hin as [[= <- <- <- <- <-]|Hin].
  - apply in_flat_map. exists (Some (e, ei, ch)). split; [exact Hs|left; reflexivity].
  - apply in_flat_map in Hin. destruct Hin as [s [Hs0 Hin]]. apply in_flat_map. exists s. split; [exact Hs0|].
    rewrite Forall_forall in IH. specialize (IH s Hs0). destruct s as [[[e' ei'] ch']|]; [|destruct Hin].
    right. eapply IH; eassumption.
Qed.

(** any heap holding these records is shaped like the tree *)
Lemma shape_of_recs h : forall sub p,
  (forall pn pe, p = Some (pn, pe) -> ~ In pn (lids sub)) ->
  (p = None -> lnup (lslots sub) = 0) ->
  NoDup (lids sub) ->
  (forall p' i n c sl, In (p', LNode i n c sl) (lsubs p sub) -> alookup i (hnodes h) = Some (rec_of p' n c sl)) ->
  (forall p' i n c sl e ei ch, In (p', LNode i n c sl) (lsubs p sub) -> In (Some (e, ei, ch)) sl ->
      alookup e (hedges h) = Some (mkHE i (lid ch) ei)) ->
  shape true h p sub.
Proof.
  induction sub as [i n c sl IH] using ltree_ind'. intros p Hp Hroot Hnd HN HE.
  apply shape_unfold. exists (rec_of p n c sl). split; [apply HN; apply lsubs_self|].
  split; [reflexivity|]. split; [reflexivity|]. split; [unfold rec_of; cbn; rewrite !map_length; reflexivity|].
  assert (HN' : forall e ei ch, In (Some (e, ei, ch)) sl ->
     forall p' i' n' c' sl', In (p', LNode i' n' c' sl') (lsubs (Some (i, e)) ch) -> alookup i' (hnodes h) = Some (rec_of p' n' c' sl')).
  { intros e ei ch Hs p' i' n' c' sl' Hin. apply HN. eapply lsubs_trans; [eapply lsubs_child; exact Hs|exact Hin]. }
  assert (HE' : forall e ei ch, In (Some (e, ei, ch)) sl ->
     forall p' i' n' c' sl' e' ei' ch', In (p', LNode i' n' c' sl') (lsubs (Some (i, e)) ch) -> In (Some (e', ei', ch')) sl' ->
       alookup e' (hedges h) = Some (mkHE i' (lid ch') ei')).
  { intros e ei ch Hs p' i' n' c' sl' e' ei' ch' Hin Hs'. eapply HE; [|exact Hs']. eapply lsubs_trans; [eapply lsubs_child; exact Hs|exact Hin]. }
  assert (HE0 : forall e ei ch, In (Some (e, ei, ch)) sl -> alookup e (hedges h) = Some (mkHE i (lid ch) ei)).
  { intros e ei ch Hs. eapply HE; [apply lsubs_self|exact Hs]. }
  assert (Hch : forall e ei ch, In (Some (e, ei, ch)) sl -> NoDup (lids ch) /\ ~ In i (lids ch)).
  { intros e ei ch Hs. split; [|eapply lids_head_notin; eassumption].
    rewrite lids_eq in Hnd. inversion Hnd as [|? ? _ Hnd']; subst. exact (NoDup_flat_map_in _ _ _ Hnd' Hs). }
  assert (Hpn : forall e ei ch, In (Some (e, ei, ch)) sl -> forall pn pe, p = Some (pn, pe) -> lid ch <> pn).
  { intros e ei ch Hs pn pe E Hl. apply (Hp pn pe E). eapply in_lids_child; [exact Hs|]. rewrite <- Hl. apply lid_in_lids. }
  assert (Hnone : In None sl -> exists pn pe, p = Some (pn, pe)).
  { intros Hin. destruct p as [[pn pe]|]; [eauto|]. exfalso. cbn in Hroot. eapply lnup_zero_notin; [apply Hroot; reflexivity|exact Hin]. }
  unfold slots_of, rec_of. cbn [hneigh hbr].
  rewrite Forall_forall in IH. clear HN HE Hnd Hp Hroot.
  induction sl as [|s sl IHsl]; [constructor|]. cbn [map combine]. constructor.
  - destruct s as [[[e ei] ch]|]; cbn [slot_ok fst snd].
    + assert (Hs : In (Some (e, ei, ch)) (Some (e, ei, ch) :: sl)) by (left; reflexivity).
      repeat split.
      * intros E. destruct p as [[pn pe]|]; [|discriminate]. injection E as E1 E2. exact (Hpn _ _ _ Hs pn pe eq_refl (eq_sym E1)).
      * exists (mkHE i (lid ch) ei). split; [exact (HE0 _ _ _ Hs)|]. repeat split.
      * destruct (Hch _ _ _ Hs) as [N1 N2]. apply (IH _ Hs).
        -- intros pn pe [= <- <-]. exact N2.
        -- discriminate.
        -- exact N1.
        -- exact (HN' _ _ _ Hs).
        -- exact (HE' _ _ _ Hs).
    + destruct Hnone as [pn [pe ->]]; [left; reflexivity|]. reflexivity.
  - apply IHsl.
    + intros s' Hs'. apply IH. right. exact Hs'.
    + intros e ei ch Hs. apply (HN' e ei ch). right. exact Hs.
    + intros e ei ch Hs. apply (HE' e ei ch). right. exact Hs.
    + intros e ei ch Hs. apply (HE0 e ei ch). right. exact Hs.
    + intros e ei ch Hs. apply (Hch e ei ch). right. exact Hs.
    + intros e ei ch Hs. apply (Hpn e ei ch). right. exact Hs.
    + intros Hin. apply Hnone. right. exact Hin.
Qed.

Lemma le_fold_max x l : In x l -> x <= fold_right Nat.max 0 l.
Proof.
  induction l as [|y l IH]; intros Hin; [destruct Hin|]. cbn. destruct Hin as [->|Hin]; [lia|].
  specialize (IH Hin). lia.
Qed.

Theorem Rep_heap_of_l lt : lwf lt -> NoDup (lids lt) -> NoDup (leids lt) -> Rep (heap_of_l lt) lt.
Proof.
  intros Hwf Hnd Hned.
  assert (KN : NoDup (map fst (hnodes (heap_of_l lt)))) by (cbn; rewrite lnode_recs_keys; exact Hnd).
  assert (KE : NoDup (map fst (hedges (heap_of_l lt)))) by (cbn; rewrite ledge_recs_keys; exact Hned).
  constructor; try assumption.
  - reflexivity.
  - apply shape_of_recs.
    + discriminate.
    + intros _. destruct lt as [i n c sl]. apply lwf_iff in Hwf. apply Hwf.
    + exact Hnd.
    + intros p' i n c sl Hin. apply alookup_NoDup_In; [exact KN|].
      exact (lnode_recs_In lt None _ _ _ _ _ Hin).
    + intros p' i n c sl e ei ch Hin Hs. apply alookup_NoDup_In; [exact KE|].
      exact (ledge_recs_In lt None _ _ _ _ _ _ _ _ Hin Hs).
  - intros n. split.
    + intros Hin. destruct (in_lids_lsubs lt None n Hin) as [p [[i nm c sl] [Hs Hl]]]. cbn in Hl. subst i.
      rewrite (alookup_NoDup_In _ _ _ KN (lnode_recs_In lt None _ _ _ _ _ Hs)). discriminate.
    + intros Hn. destruct (alookup n (hnodes (heap_of_l lt))) eqn:E; [|congruence].
      apply alookup_In in E. cbn in E. rewrite lnode_recs_keys in E. exact E.
  - intros e. split.
    + intros Hin. destruct (in_leids_lsubs lt None e Hin) as (p & i & n & c & sl & ei & ch & H1 & H2).
      rewrite (alookup_NoDup_In _ _ _ KE (ledge_recs_In lt None _ _ _ _ _ _ _ _ H1 H2)). discriminate.
    + intros He. destruct (alookup e (hedges (heap_of_l lt))) eqn:E; [|congruence].
      apply alookup_In in E. cbn in E. rewrite ledge_recs_keys in E. exact E.
  - intros n Hn. cbn. apply le_fold_max in Hn. lia.
  - intros e He. cbn. apply le_fold_max in He. lia.
Qed.

(** * the pre-order labelling *)
Definition label_slots : nat -> list slot -> list lslot :=
  fix go (k' : nat) (l : list slot) : list lslot :=
    match l with
    | [] => []
    | None :: r => None :: go k' r
    | Some (ei, ch) :: r => Some (k', ei, label k' ch) :: go (k' + usize ch) r
    end.

Lemma label_eq k n c sl : label k (UNode n c sl) = LNode k n c (label_slots (S k) sl).
Proof. reflexivity. Qed.

Definition kids_size (sl : list slot) : nat :=
  fold_right (fun s acc => match s with Some (_, c) => usize c + acc | None => acc end) 0 sl.

Lemma usize_eq n c sl : usize (UNode n c sl) = S (kids_size sl).
Proof. reflexivity. Qed.

Lemma lid_label k t : lid (label k t) = k.
Proof. destruct t. reflexivity. Qed.

Lemma label_facts : forall t k,
  erase (label k t) = t /\ lids (label k t) = seq k (usize t) /\ leids (label k t) = seq (S k) (kids_size (uslots t)).
Proof.
  induction t as [n c sl IH] using utree_ind'. intros k. rewrite label_eq, erase_eq, lids_eq, leids_eq, usize_eq.
  cbn [uslots seq].
  assert (H : forall k', map erase_slot (label_slots k' sl) = sl /\
            flat_map (fun s : lslot => match s with Some (_, _, ch) => lids ch | None => [] end) (label_slots k' sl) = seq k' (kids_size sl) /\
            flat_map (fun s : lslot => match s with Some (e, _, ch) => e :: leids ch | None => [] end) (label_slots k' sl) = seq k' (kids_size sl)).
  { induction IH as [|s sl Hs _ IHsl]; intros k'; [repeat split|].
    destruct s as [[ei ch]|]; cbn [label_slots map flat_map kids_size fold_right erase_slot].
    - destruct (Hs k') as (E1 & E2 & E3). destruct (IHsl (k' + usize ch)) as (F1 & F2 & F3).
      rewrite E1, F1, E2, F2, E3, F3. split; [reflexivity|]. fold (kids_size sl).
      split; [rewrite seq_app; reflexivity|].
      destruct ch as [n' c' sl']. rewrite usize_eq. cbn [uslots]. cbn [seq].
      replace (k' + S (kids_size sl')) with (S k' + kids_size sl') by lia.
      symmetry. change (S (kids_size sl') + kids_size sl) with (S (kids_size sl' + kids_size sl)).
      cbn [seq]. rewrite seq_app. reflexivity.
    - destruct (IHsl k') as (F1 & F2 & F3). rewrite F1, F2, F3. repeat split. }
  destruct (H (S k)) as (H1 & H2 & H3). rewrite H1, H2, H3. repeat split.
Qed.

Theorem Rep_heap_of t : wf t = true -> Rep (heap_of t) (label 0 t).
Proof.
  intros Hwf. destruct (label_facts t 0) as (E1 & E2 & E3). apply Rep_heap_of_l.
  - unfold lwf. rewrite E1. exact Hwf.
  - rewrite E2. apply seq_NoDup.
  - rewrite E3. apply seq_NoDup.
Qed.

Theorem Good_heap_of t : wf t = true -> Good (heap_of t).
Proof. intros Hwf. eapply Rep_Good. apply Rep_heap_of. exact Hwf. Qed.

Theorem abs_heap_of t : wf t = true -> abs (heap_of t) = Some t.
Proof.
  intros Hwf. rewrite (Rep_abs _ _ (Rep_heap_of t Hwf)). destruct (label_facts t 0) as (E1 & _). rewrite E1. reflexivity.
Qed.
