(** C20: the selection loops as written in the Go code are biased.  Witnesses found by
    exhaustive enumeration of the choice vectors (vm_compute), and the general reasons. *)
From Coq Require Import String ZArith QArith Bool Arith Lia List Permutation.
From GT Require Import Base.UTree Spec.Obs Spec.GenShape Spec.Counting Model.Reroot Model.Rand Model.Rand2
     Model.TreeGen Model.Sampling Proofs.SamplingBase Proofs.TreeGenMain.
Import ListNotations.
Local Close Scope Q_scope.

(** ** cmd/sample.go (without --replace) and cmd/prune.go randomTips: rand.Intn(i) *)

(** number of choice vectors for which the reservoir content is the set [s] *)
Definition res_count (bnd : nat -> nat) (n k : nat) (s : list nat) : nat :=
  count_where (fun cs => out_set_is s (reservoir bnd k (seq 0 n) cs)) (all_choices (reservoir_bounds bnd k n)).

(** 2 items, 1 slot: the single choice vector keeps item 1; item 0 has probability 0 *)
Theorem reservoir_go_refuted :
  exists n k s s', 1 <= k /\ k <= n /\ In s (subsets k (seq 0 n)) /\ In s' (subsets k (seq 0 n)) /\
                   res_count go_bound n k s <> res_count go_bound n k s'.
Proof. exists 2, 1, [0], [1]. vm_compute. repeat split; auto; try lia; try discriminate. Qed.

Theorem reservoir_go_first_item_never :
  res_count go_bound 2 1 [0] = 0 /\ res_count go_bound 2 1 [1] = 1 /\
  res_count go_bound 3 1 [0] = 0 /\ res_count go_bound 4 2 [0; 1] = 0 /\ res_count go_bound 5 3 [0; 1; 2] = 0.
Proof. vm_compute. repeat split. Qed.

(** the item that arrives when the reservoir is just full always enters it: with bound i = k
    the draw j is always < k.  So the first k items are never the sample when n > k. *)
Lemma set_nth_length {A} j (x : A) l : j < length l -> length (set_nth j x l) = length l.
Proof.
  intros H. unfold set_nth. rewrite app_length, firstn_length.
  destruct (skipn j l) eqn:E.
  - assert (length (skipn j l) = 0) by now rewrite E. rewrite skipn_length in H0. lia.
  - assert (length (skipn j l) = S (length l0)) by now rewrite E. rewrite skipn_length in H0. simpl. lia.
Qed.

Lemma existsb_set_nth {A} (p : A -> bool) j x l : j < length l -> p x = true -> existsb p (set_nth j x l) = true.
Proof.
  intros H Hx. unfold set_nth. rewrite existsb_app. apply orb_true_iff. right.
  destruct (skipn j l) eqn:E.
  - assert (length (skipn j l) = 0) by now rewrite E. rewrite skipn_length in H0. lia.
  - simpl. now rewrite Hx.
Qed.

Lemma res_loop_has_late {A} (late : A -> bool) k : forall xs i cs out res,
  k <= i -> length out = k ->
  existsb (fun s => match s with Some x => late x | None => false end) out = true ->
  Forall (fun x => late x = true) xs ->
  res_loop go_bound k i xs cs out = Some res ->
  existsb (fun s => match s with Some x => late x | None => false end) res = true.
Proof.
  induction xs as [|x xs IH]; intros i cs out res Hi Hl He Hall H.
  - simpl in H. destruct (Nat.ltb_spec i k); [lia|]. inversion H as [E]. now rewrite <- E.
  - simpl in H. destruct (Nat.ltb_spec i k); [lia|].
    destruct cs as [|j cs]; [discriminate|].
    inversion Hall as [|? ? Hx Hxs].
    eapply IH; [| | |exact Hxs|exact H]; [lia| |].
    + destruct (Nat.ltb_spec j k); auto. rewrite set_nth_length; lia.
    + destruct (Nat.ltb_spec j k); auto. apply existsb_set_nth; [lia|exact Hx].
Qed.

Lemma res_loop_fill_length {A} bnd k : forall (xs : list A) i cs out res,
  length out = k -> res_loop bnd k i xs cs out = Some res -> k <= i + length xs -> length res = k.
Proof.
  induction xs as [|x xs IH]; intros i cs out res Hl H Hk.
  - simpl in *. destruct (Nat.ltb_spec i k); [lia|]. now inversion H; subst.
  - simpl in H. destruct (Nat.ltb_spec i k).
    + eapply IH; [|exact H|simpl in Hk; lia]. rewrite set_nth_length; lia.
    + destruct cs as [|j cs]; [discriminate|].
      eapply IH; [|exact H|simpl in Hk; lia].
      destruct (Nat.ltb_spec j k); auto. rewrite set_nth_length; lia.
Qed.

(** general statement: with more than k items (k >= 1), whatever the choices, the reservoir
    of cmd/sample.go / randomTips contains an item of index >= k; in particular the set of the
    first k items is never selected, although it should be with probability 1/C(n,k). *)
Theorem reservoir_go_never_initial n k cs res :
  1 <= k -> k < n -> in_bounds cs (reservoir_bounds go_bound k n) ->
  reservoir go_bound k (seq 0 n) cs = Some res ->
  existsb (fun s => match s with Some x => Nat.leb k x | None => false end) res = true.
Proof.
  intros Hk Hn Hb H. unfold reservoir in H.
  replace n with (k + (n - k)) in H by lia. rewrite seq_app in H. simpl in H.
  (* the first k items fill the slots *)
  assert (Fill : forall xs i out cs' r, i + length xs = k -> length out = k ->
            res_loop go_bound k i (xs ++ seq k (n - k)) cs' out = Some r ->
            exists out', length out' = k /\ res_loop go_bound k k (seq k (n - k)) cs' out' = Some r).
  { induction xs as [|x xs IH]; intros i out cs' r Hi Hl Hr.
    - simpl in *. replace i with k in Hr by lia. eauto.
    - simpl in Hr. simpl in Hi. destruct (Nat.ltb_spec i k); [|lia].
      eapply IH; [|  |exact Hr]; [lia|]. rewrite set_nth_length; lia. }
  destruct (Fill (seq 0 k) 0 (repeat None k) cs res) as [out' [Hl' Hr']];
    [now rewrite seq_length|now rewrite repeat_length|exact H|].
  (* item k: the bound is k, so the draw is < k and the item enters *)
  destruct (n - k) as [|d] eqn:Ed; [lia|].
  simpl in Hr'. destruct (Nat.ltb_spec k k); [lia|].
  destruct cs as [|j cs']; [discriminate|].
  unfold reservoir_bounds in Hb. rewrite Ed in Hb. simpl in Hb.
  unfold in_bounds in Hb. inversion Hb as [|j0 b0 cs0 bs0 Hj Hrest]. unfold go_bound in Hj.
  destruct (Nat.ltb_spec j k); [|lia].
  eapply (res_loop_has_late (fun x => Nat.leb k x)); [| | | |exact Hr'].
  - lia.
  - rewrite set_nth_length; lia.
  - apply existsb_set_nth; [lia|apply Nat.leb_refl].
  - apply Forall_forall. intros y Hy. apply in_seq in Hy. apply Nat.leb_le. lia.
Qed.

(** ** the rooted "uniform" generator *)

(** there are fewer choice vectors than rooted labelled topologies: 2*4*...*(2n-4) < (2n-3)!! *)
Lemma prod_app a b : prod (a ++ b) = prod a * prod b.
Proof. unfold prod. induction a as [|x a IH]; simpl; [lia|]. rewrite IH. lia. Qed.

Lemma rooted_space_S d :
  prod (map (unif_bound true) (seq 2 (S d))) = prod (map (unif_bound true) (seq 2 d)) * (2 * d + 2).
Proof.
  rewrite seq_S, map_app, prod_app. cbn [map]. unfold prod at 2. cbn [fold_right].
  unfold unif_bound. f_equal. lia.
Qed.

Lemma odd_fact_S k : odd_fact (S k) = (2 * k + 1) * odd_fact k.
Proof. reflexivity. Qed.

Lemma rooted_space_le d : prod (map (unif_bound true) (seq 2 d)) <= odd_fact (S d) /\ 1 <= odd_fact (S d).
Proof.
  induction d as [|d [IH1 IH2]].
  - simpl. lia.
  - rewrite rooted_space_S, (odd_fact_S (S d)). split; nia.
Qed.

Lemma rooted_space_lt d : prod (map (unif_bound true) (seq 2 (S d))) < odd_fact (S (S d)).
Proof.
  destruct (rooted_space_le d) as [G1 G2].
  rewrite rooted_space_S, (odd_fact_S (S d)). nia.
Qed.

(** for every n >= 3 the rooted generator has fewer equally likely choice vectors than there
    are rooted labelled topologies: it cannot reach all of them, let alone uniformly *)
Theorem uniform_rooted_space_too_small n : 3 <= n ->
  length (all_choices (uniform_bounds n true)) < n_rooted n.
Proof.
  intros H. rewrite all_choices_length, uniform_bounds_eq by auto.
  unfold n_rooted.
  replace (n - 2) with (S (n - 3)) by lia. replace (n - 1) with (S (S (n - 3))) by lia.
  apply rooted_space_lt.
Qed.

(** the unrooted generator has exactly as many choice vectors as unrooted labelled topologies *)
Lemma unrooted_space_S d :
  prod (map (unif_bound false) (seq 2 (S d))) = prod (map (unif_bound false) (seq 2 d)) * (2 * d + 1).
Proof.
  rewrite seq_S, map_app, prod_app. cbn [map]. unfold prod at 2. cbn [fold_right].
  unfold unif_bound. f_equal. lia.
Qed.

Theorem uniform_unrooted_space_size n : 3 <= n ->
  length (all_choices (uniform_bounds n false)) = n_unrooted n.
Proof.
  intros H. rewrite all_choices_length, uniform_bounds_eq by auto.
  unfold n_unrooted.
  induction (n - 2) as [|d IH]; [reflexivity|].
  rewrite unrooted_space_S, IH, odd_fact_S. lia.
Qed.

(** witnesses: 3 tips rooted, two choice vectors, three topologies; the cherry (Tip0,Tip1)
    is never produced *)
Definition uniform_keys (n : nat) (rooted : bool) : list (list (list string)) :=
  flat_map (fun cs => match uniform_tree n rooted cs [] with
                      | GOk t => [topo_key rooted t]
                      | _ => [] end) (all_choices (uniform_bounds n rooted)).

Theorem uniform_rooted_refuted :
  exists key, In key (match all_topologies 3 true (map tip_name (seq 0 3)) with
                      | Ok ts => map (topo_key true) ts | Err _ => [] end) /\
              ~ In key (uniform_keys 3 true).
Proof.
  exists [[tip_name 0]; [tip_name 0; tip_name 1]; [tip_name 1]; [tip_name 2]].
  split.
  - vm_compute. auto.
  - vm_compute. intros [H|[H|[]]]; discriminate.
Qed.
