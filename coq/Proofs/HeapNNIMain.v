(** Heap model: NNI, part 4: any heap described by [nni_desc] around a branch x -> y of a good
    heap is good; hence nni.Apply keeps the heap good. *)
From Coq Require Import String ZArith QArith Bool Arith Lia Permutation List.
From GT Require Import Base.UTree Model.Reroot Model.Heap Model.HeapEdit Proofs.Enum Proofs.HeapBase Proofs.HeapRep
     Proofs.HeapGood Proofs.HeapGoodRep Proofs.HeapRerootL Proofs.HeapReorder Proofs.HeapUnrootL Proofs.HeapUnroot
     Proofs.HeapCtx Proofs.HeapGraft Proofs.HeapCollapse Proofs.HeapPrune Proofs.HeapNNI Proofs.HeapNNIDown Proofs.HeapNNIUp.
Import ListNotations.
Local Close Scope Q_scope.

Lemma nth_slots_neigh hn i m e : length (hneigh hn) = length (hbr hn) -> nth_error (slots_of hn) i = Some (m, e) ->
  nth_error (hneigh hn) i = Some m /\ nth_error (hbr hn) i = Some e.
Proof.
  intros Hl H. split.
  - rewrite <- (slots_of_fst hn Hl), nth_error_map, H. reflexivity.
  - rewrite <- (slots_of_snd hn Hl), nth_error_map, H. reflexivity.
Qed.

Lemma exchange_distinct h x y xm ym ic ix iy e1 e2 ec hx hy hxm hym ed1 ed2 edc :
  Good h ->
  alookup x (hnodes h) = Some hx -> alookup y (hnodes h) = Some hy ->
  alookup xm (hnodes h) = Some hxm -> alookup ym (hnodes h) = Some hym ->
  nth_error (slots_of hx) ic = Some (y, ec) -> alookup ec (hedges h) = Some edc -> hleft edc = x ->
  nth_error (slots_of hx) ix = Some (xm, e1) -> xm <> y -> alookup e1 (hedges h) = Some ed1 ->
  nth_error (slots_of hy) iy = Some (ym, e2) -> ym <> x -> alookup e2 (hedges h) = Some ed2 ->
  x <> y /\ x <> xm /\ x <> ym /\ y <> xm /\ y <> ym /\ xm <> ym /\ e1 <> e2 /\ e1 <> ec /\ e2 <> ec.
Proof.
  intros G Hx Hy Hxm Hym Kc Ec Lc Kx Nxmy E1 Ky Nymx E2.
  destruct (Good_Rep h G) as [lt R].
  destruct (Rep_view h lt R x hx Hx) as (p1 & nmx & cmx & sl1 & V1 & V2 & V3 & V4 & V5 & V6).
  (* the central slot is a child slot *)
  destruct (Forall2_nth _ _ _ _ _ V3 Kc) as [sc [Sc Okc]].
  destruct sc as [[[ec' eic] Ysub]|]; cbn [slot_ok fst snd] in Okc.
  2:{ exfalso. subst p1. destruct (Rep_parent h lt R y ec _ V1) as (hm & ed0 & _ & _ & P3 & P4 & P5 & P6). cbn [lid] in P5, P6.
      rewrite Ec in P3. injection P3 as <-. apply P6. left. congruence. }
  destruct Okc as (Pne & -> & Ly & [edc' (Ec' & Ic' & _ & Rc')] & ShY). rewrite Ec in Ec'. injection Ec' as <-.
  destruct Ysub as [y' nmy cmy sl2]. cbn [lid] in Ly. subst y'.
  pose proof ShY as ShY0. apply shape_unfold in ShY. destruct ShY as [hy0 (B1 & B2 & B3 & B4 & B5)]. rewrite Hy in B1. injection B1 as <-.
  (* the slot of ym in y is a child slot *)
  destruct (Forall2_nth _ _ _ _ _ B5 Ky) as [sy [Sy Oky]].
  destruct sy as [[[e2' ei2] B]|]; cbn [slot_ok fst snd] in Oky; [|injection Oky as E0 _; congruence].
  destruct Oky as (_ & -> & LB & [ed2' (E2' & I2' & L2' & R2')] & ShB). rewrite E2 in E2'. injection E2' as <-.
  destruct B as [ym' nmB cmB slB]. cbn [lid] in LB. subst ym'.
  assert (Ed2 : ed2 = mkHE y ym ei2) by (destruct ed2; cbn in *; subst; reflexivity).
  assert (Edc : edc = mkHE x y eic) by (destruct edc; cbn in *; subst; reflexivity).
  assert (HsubY : In (Some (x, ec), LNode y nmy cmy sl2) (lsubs None lt)).
  { eapply lsubs_trans; [exact V1|]. eapply lsubs_child. eapply nth_error_In. exact Sc. }
  (* the slot of xm in x *)
  destruct (Forall2_nth _ _ _ _ _ V3 Kx) as [sx [Sx Okx]].
  assert (Nixc : ix <> ic) by (intros E0; rewrite E0, Kc in Kx; injection Kx as E3 _; congruence).
  destruct sx as [[[e1' ei1] A]|]; cbn [slot_ok fst snd] in Okx.
  - (* a child of x: the exchange happens below x *)
    destruct Okx as (_ & -> & LA & [ed1' (E1' & I1' & L1' & R1')] & ShA). rewrite E1 in E1'. injection E1' as <-.
    destruct A as [xm' nmA cmA slA]. cbn [lid] in LA. subst xm'.
    destruct (ND_sep h lt R p1 x nmx cmx sl1 ic ix ec eic y nmy cmy sl2 iy e1 ei1 xm nmA cmA slA e2 ei2 ym nmB cmB slB V1 Sc Sx Nixc Sy)
      as (_ & _ & _ & _ & _ & _ & _ & _ & _ & _ & _ & _ & _ & _ & _ & _ & _ & Dist). exact Dist.
  - (* the parent of x: the central branch is inverted *)
    subst p1. destruct (Rep_parent h lt R xm e1 _ V1) as (hm & ed0 & P1 & P2 & P3 & P4 & P5 & P6). cbn [lid] in P5, P6.
    rewrite Hxm in P1. injection P1 as <-. rewrite E1 in P3. injection P3 as <-.
    destruct (lsubs_parent _ _ _ _ _ V1) as [[E0 _]|(pP & nmP & cmP & slP & ei1 & HsubP & HsP)]; [discriminate|].
    destruct (In_nth_error _ _ HsP) as [kp Hkp].
    pose proof (shape_lsubs _ _ _ _ _ _ (rep_shape _ _ R) HsubP) as ShP. apply shape_unfold in ShP. destruct ShP as [hP0 (Q1 & Q2 & Q3 & Q4 & Q5)].
    rewrite Hxm in Q1. injection Q1 as <-.
    destruct (Forall2_nth_r _ _ _ _ _ Q5 Hkp) as [[c0 e0] [Kkp Okp]]. cbn [slot_ok fst snd lid] in Okp.
    destruct Okp as (_ & <- & <- & [ed1' (E1' & I1' & _)] & _). rewrite E1 in E1'. injection E1' as <-.
    destruct (NU_sep h lt R pP xm nmP cmP slP kp e1 ei1 x nmx cmx sl1 ic ec eic y nmy cmy sl2 iy e2 ei2 ym nmB cmB slB HsubP Hkp Sc Sy)
      as (_ & _ & _ & _ & _ & _ & Dist). exact Dist.
Qed.

Theorem exchange_good h h' x y xm ym ic ix iy jx jy e1 e2 ec hx hy hxm hym ed1 ed2 edc :
  Good h ->
  alookup x (hnodes h) = Some hx -> alookup y (hnodes h) = Some hy ->
  alookup xm (hnodes h) = Some hxm -> alookup ym (hnodes h) = Some hym ->
  nth_error (slots_of hx) ic = Some (y, ec) -> alookup ec (hedges h) = Some edc -> hleft edc = x ->
  nth_error (slots_of hx) ix = Some (xm, e1) -> xm <> y -> alookup e1 (hedges h) = Some ed1 ->
  nth_error (slots_of hy) iy = Some (ym, e2) -> ym <> x -> alookup e2 (hedges h) = Some ed2 ->
  index_of x (hneigh hxm) = Some jx -> index_of y (hneigh hym) = Some jy ->
  nni_desc h h' x y xm ym ix iy jx jy e1 e2 ec (Nat.eqb (hright ed1) x) hx hy hxm hym ed1 ed2 edc ->
  Good h'.
Proof.
  intros G Hx Hy Hxm Hym Kc Ec Lc Kx Nxmy E1 Ky Nymx E2 Jx Jy D.
  destruct (Good_Rep h G) as [lt R].
  destruct (Rep_view h lt R x hx Hx) as (p1 & nmx & cmx & sl1 & V1 & V2 & V3 & V4 & V5 & V6).
  (* the central slot is a child slot *)
  destruct (Forall2_nth _ _ _ _ _ V3 Kc) as [sc [Sc Okc]].
  destruct sc as [[[ec' eic] Ysub]|]; cbn [slot_ok fst snd] in Okc.
  2:{ exfalso. subst p1. destruct (Rep_parent h lt R y ec _ V1) as (hm & ed0 & _ & _ & P3 & P4 & P5 & P6). cbn [lid] in P5, P6.
      rewrite Ec in P3. injection P3 as <-. apply P6. left. congruence. }
  destruct Okc as (Pne & -> & Ly & [edc' (Ec' & Ic' & _ & Rc')] & ShY). rewrite Ec in Ec'. injection Ec' as <-.
  destruct Ysub as [y' nmy cmy sl2]. cbn [lid] in Ly. subst y'.
  pose proof ShY as ShY0. apply shape_unfold in ShY. destruct ShY as [hy0 (B1 & B2 & B3 & B4 & B5)]. rewrite Hy in B1. injection B1 as <-.
  (* the slot of ym in y is a child slot *)
  destruct (Forall2_nth _ _ _ _ _ B5 Ky) as [sy [Sy Oky]].
  destruct sy as [[[e2' ei2] B]|]; cbn [slot_ok fst snd] in Oky; [|injection Oky as E0 _; congruence].
  destruct Oky as (_ & -> & LB & [ed2' (E2' & I2' & L2' & R2')] & ShB). rewrite E2 in E2'. injection E2' as <-.
  destruct B as [ym' nmB cmB slB]. cbn [lid] in LB. subst ym'.
  assert (Ed2 : ed2 = mkHE y ym ei2) by (destruct ed2; cbn in *; subst; reflexivity).
  assert (Edc : edc = mkHE x y eic) by (destruct edc; cbn in *; subst; reflexivity).
  assert (HsubY : In (Some (x, ec), LNode y nmy cmy sl2) (lsubs None lt)).
  { eapply lsubs_trans; [exact V1|]. eapply lsubs_child. eapply nth_error_In. exact Sc. }
  (* the slot of xm in x *)
  destruct (Forall2_nth _ _ _ _ _ V3 Kx) as [sx [Sx Okx]].
  assert (Nixc : ix <> ic) by (intros E0; rewrite E0, Kc in Kx; injection Kx as E3 _; congruence).
  destruct sx as [[[e1' ei1] A]|]; cbn [slot_ok fst snd] in Okx.
  - (* a child of x: the exchange happens below x *)
    destruct Okx as (_ & -> & LA & [ed1' (E1' & I1' & L1' & R1')] & ShA). rewrite E1 in E1'. injection E1' as <-.
    destruct A as [xm' nmA cmA slA]. cbn [lid] in LA. subst xm'.
    assert (Ed1 : ed1 = mkHE x xm ei1) by (destruct ed1; cbn in *; subst; reflexivity).
    assert (Fl : Nat.eqb (hright ed1) x = false).
    { rewrite R1'. apply Nat.eqb_neq. intros E0.
      eapply (lids_head_notin _ _ _ _ V4); [eapply nth_error_In; exact Sx|]. rewrite <- E0. left. reflexivity. }
    rewrite Fl, Ed1, Ed2 in D.
    eapply Rep_Good.
    exact (ND_Rep h h' lt R p1 x nmx cmx sl1 ic ix ec eic y nmy cmy sl2 iy e1 ei1 xm nmA cmA slA e2 ei2 ym nmB cmB slB
                  V1 Sc Sx Nixc Sy hx hy hxm hym jx jy edc Hx Hy Hxm Hym Jx Jy Ec D).
  - (* the parent of x: the central branch is inverted *)
    subst p1. destruct (Rep_parent h lt R xm e1 _ V1) as (hm & ed0 & P1 & P2 & P3 & P4 & P5 & P6). cbn [lid] in P5, P6.
    rewrite Hxm in P1. injection P1 as <-. rewrite E1 in P3. injection P3 as <-.
    destruct (lsubs_parent _ _ _ _ _ V1) as [[E0 _]|(pP & nmP & cmP & slP & ei1 & HsubP & HsP)]; [discriminate|].
    destruct (In_nth_error _ _ HsP) as [kp Hkp].
    pose proof (shape_lsubs _ _ _ _ _ _ (rep_shape _ _ R) HsubP) as ShP. apply shape_unfold in ShP. destruct ShP as [hP0 (Q1 & Q2 & Q3 & Q4 & Q5)].
    rewrite Hxm in Q1. injection Q1 as <-.
    destruct (Forall2_nth_r _ _ _ _ _ Q5 Hkp) as [[c0 e0] [Kkp Okp]]. cbn [slot_ok fst snd lid] in Okp.
    destruct Okp as (_ & <- & <- & [ed1' (E1' & I1' & _)] & _). rewrite E1 in E1'. injection E1' as <-.
    assert (Ed1 : ed1 = mkHE xm x ei1) by (destruct ed1; cbn in *; subst; reflexivity).
    assert (Fl : Nat.eqb (hright ed1) x = true) by (rewrite P5; apply Nat.eqb_refl).
    assert (Ejx : jx = kp).
    { destruct (nth_slots_neigh hxm kp x e1 Q4 Kkp) as [Hn _].
      pose proof (index_of_NoDup x (hneigh hxm) kp (g_nodup _ G xm hxm Hxm) Hn) as I0. congruence. }
    subst jx. rewrite Fl, Ed1, Ed2, Edc in D.
    (* y's parent slot *)
    destruct (lwf_sub_lsubs lt None _ _ (or_introl (rep_wf _ _ R)) HsubY) as [E0|WY]; [discriminate|].
    apply lwf_sub_iff in WY. destruct WY as [WY1 _].
    assert (In None sl2) as HN by (apply lnup_pos_in; lia). destruct (In_nth_error _ _ HN) as [j Hj].
    eapply Rep_Good.
    exact (NU_Rep h h' lt R pP xm nmP cmP slP kp e1 ei1 x nmx cmx sl1 ic ix ec eic y nmy cmy sl2 j iy e2 ei2 ym nmB cmB slB
                  HsubP Hkp Sx Sc Hj Sy hx hy hxm hym jy Hx Hy Hxm Hym Jy D).
Qed.

Lemma nth_combine {A B} (l : list A) (m : list B) : forall i a b,
  nth_error l i = Some a -> nth_error m i = Some b -> nth_error (combine l m) i = Some (a, b).
Proof.
  revert m. induction l as [|x l IH]; intros [|y m] [|i] a b Ha Hb; cbn in *; try discriminate.
  - injection Ha as ->. injection Hb as ->. reflexivity.
  - apply IH; assumption.
Qed.

Lemma nth_error_lt_some {A} (l : list A) i : i < length l -> exists a, nth_error l i = Some a.
Proof. intros H. destruct (nth_error l i) eqn:E; [eauto|]. apply nth_error_None in E. lia. Qed.

Lemma mod3_facts i d : i < 3 -> (d = 1 \/ d = 2) -> Nat.modulo (i + d) 3 < 3 /\ Nat.modulo (i + d) 3 <> i.
Proof. intros Hi [->| ->]; destruct i as [|[|[|i]]]; cbn; lia. Qed.

(** nni.Apply on a proposal made by newNNI(t, e.Left(), e.Right(), cross) for a branch between
    two nodes of degree 3 (what NNIRearranger.Rearrange produces): it succeeds and the heap stays
    good *)
(** x above y: the branch from y to its other neighbour points away from y *)
Lemma flag_down h x y ym ec e2 edc ed2 : Good h -> has_slot h x y ec -> has_slot h y ym e2 ->
  alookup ec (hedges h) = Some edc -> alookup e2 (hedges h) = Some ed2 -> hleft edc = x -> e2 <> ec ->
  Nat.eqb (hright ed2) y = false.
Proof.
  intros G Hsc Hsy Ec E2 Lc Ne. apply Nat.eqb_neq. intros E0. apply Ne.
  eapply (g_one_parent _ G y ym e2 ed2 x ec edc); [exact Hsy|apply (g_sym _ G); exact Hsc|exact E2|exact Ec|exact E0|].
  destruct (g_ends _ G x y ec edc Hsc Ec) as [[_ X]|[X Y]]; [exact X|congruence].
Qed.

Theorem nni_apply_good h n1 n2 cross q hn1 hn2 ec edc : Good h ->
  alookup n1 (hnodes h) = Some hn1 -> alookup n2 (hnodes h) = Some hn2 ->
  In (n2, ec) (slots_of hn1) -> alookup ec (hedges h) = Some edc -> hleft edc = n1 ->
  length (hneigh hn1) = 3 -> length (hneigh hn2) = 3 ->
  new_nni_heap h n1 n2 cross = HOk q ->
  exists h', nni_apply_heap q h = HOk h' /\ Good h'.
Proof.
  intros G H1 H2 Hin Ec Lc D1 D2 Eq.
  pose proof (g_len _ G n1 hn1 H1) as L1. pose proof (g_len _ G n2 hn2 H2) as L2.
  pose proof (g_nodup _ G n1 hn1 H1) as Nd1. pose proof (g_nodup _ G n2 hn2 H2) as Nd2.
  destruct (In_nth_error _ _ Hin) as [ic Kc]. destruct (nth_slots_neigh hn1 ic n2 ec L1 Kc) as [Kcn Kcb].
  assert (Ic : index_of n2 (hneigh hn1) = Some ic) by (apply index_of_NoDup; assumption).
  assert (Lic : ic < 3) by (rewrite <- D1; apply nth_error_Some; congruence).
  assert (Hs12 : has_slot h n1 n2 ec) by (exists hn1; split; assumption).
  destruct (g_sym _ G n1 n2 ec Hs12) as [hn2' [H2' Hin2]]. rewrite H2 in H2'. injection H2' as <-.
  destruct (In_nth_error _ _ Hin2) as [j Kj]. destruct (nth_slots_neigh hn2 j n1 ec L2 Kj) as [Kjn Kjb].
  assert (Ij : index_of n1 (hneigh hn2) = Some j) by (apply index_of_NoDup; assumption).
  assert (Lj : j < 3) by (rewrite <- D2; apply nth_error_Some; congruence).
  (* what newNNI read *)
  unfold new_nni_heap, get_node in Eq. rewrite H1, H2 in Eq. cbn [hbind] in Eq. rewrite Ic, Ij in Eq. cbn [idx_plus] in Eq.
  unfold nth_res in Eq.
  destruct (nth_error (hneigh hn1) (Nat.modulo (ic + 1) 3)) as [n11|] eqn:E11; [|discriminate]. cbn [hbind] in Eq.
  destruct (nth_error (hneigh hn1) (Nat.modulo (ic + 2) 3)) as [n12|] eqn:E12; [|discriminate]. cbn [hbind] in Eq.
  destruct (nth_error (hneigh hn2) (Nat.modulo (j + 1) 3)) as [n21|] eqn:E21; [|discriminate]. cbn [hbind] in Eq.
  destruct (nth_error (hneigh hn2) (Nat.modulo (j + 2) 3)) as [n22|] eqn:E22; [|discriminate]. cbn [hbind] in Eq.
  injection Eq as <-.
  set (ix := Nat.modulo (ic + 2) 3) in *.
  set (iy := if cross then Nat.modulo (j + 1) 3 else Nat.modulo (j + 2) 3).
  set (ym := if cross then n21 else n22).
  assert (Eym : nth_error (hneigh hn2) iy = Some ym) by (unfold iy, ym; destruct cross; assumption).
  destruct (mod3_facts ic 2 Lic (or_intror eq_refl)) as [Lix Nix]. fold ix in Lix, Nix.
  assert (Liy : iy < 3 /\ iy <> j) by (unfold iy; destruct cross; [apply mod3_facts; [exact Lj|left; reflexivity]|apply mod3_facts; [exact Lj|right; reflexivity]]).
  destruct Liy as [Liy Niy].
  assert (Ix : index_of n12 (hneigh hn1) = Some ix) by (apply index_of_NoDup; assumption).
  assert (Iy : index_of ym (hneigh hn2) = Some iy) by (apply index_of_NoDup; assumption).
  destruct (nth_error_lt_some (hbr hn1) ix) as [e1 B1]; [rewrite <- L1, D1; exact Lix|].
  destruct (nth_error_lt_some (hbr hn2) iy) as [e2 B2]; [rewrite <- L2, D2; exact Liy|].
  pose proof (nth_combine _ _ _ _ _ E12 B1) as Kx. pose proof (nth_combine _ _ _ _ _ Eym B2) as Ky.
  change (combine (hneigh hn1) (hbr hn1)) with (slots_of hn1) in Kx. change (combine (hneigh hn2) (hbr hn2)) with (slots_of hn2) in Ky.
  assert (Hsx : has_slot h n1 n12 e1) by (exists hn1; split; [exact H1|eapply nth_error_In; exact Kx]).
  assert (Hsy : has_slot h n2 ym e2) by (exists hn2; split; [exact H2|eapply nth_error_In; exact Ky]).
  destruct (g_slot_exists _ G _ _ _ Hsx) as [Xm Xe]. destruct (g_slot_exists _ G _ _ _ Hsy) as [Ym Ye].
  destruct (alookup n12 (hnodes h)) as [hxm|] eqn:Hxm; [clear Xm|congruence].
  destruct (alookup ym (hnodes h)) as [hym|] eqn:Hym; [clear Ym|congruence].
  destruct (alookup e1 (hedges h)) as [ed1|] eqn:E1; [clear Xe|congruence].
  destruct (alookup e2 (hedges h)) as [ed2|] eqn:E2; [clear Ye|congruence].
  assert (Nxmy : n12 <> n2).
  { intros E0. apply Nix. apply (proj1 (NoDup_nth_error _) Nd1); [apply nth_error_Some; congruence|congruence]. }
  assert (Nymx : ym <> n1).
  { intros E0. apply Niy. apply (proj1 (NoDup_nth_error _) Nd2); [apply nth_error_Some; congruence|congruence]. }
  destruct (g_sym _ G _ _ _ Hsx) as [hxm' [Hxm' Inx]]. rewrite Hxm in Hxm'. injection Hxm' as <-.
  destruct (g_sym _ G _ _ _ Hsy) as [hym' [Hym' Iny]]. rewrite Hym in Hym'. injection Hym' as <-.
  destruct (index_of_In n1 (hneigh hxm) (slots_of_in_neigh _ _ _ Inx)) as [jx Jx].
  destruct (index_of_In n2 (hneigh hym) (slots_of_in_neigh _ _ _ Iny)) as [jy Jy].
  destruct (exchange_distinct h n1 n2 n12 ym ic ix iy e1 e2 ec hn1 hn2 hxm hym ed1 ed2 edc G H1 H2 Hxm Hym Kc Ec Lc Kx Nxmy E1 Ky Nymx E2)
    as (N1 & N2 & N3 & N4 & N5 & N6 & M1 & M2 & M3).
  destruct (nni_apply_eval h (mkHNNI n1 n2 n11 n12 n21 n22 cross) hn1 hn2 hxm hym ix iy jx jy ic e1 e2 ec ed1 ed2 edc) as [h' [Ev D]];
    cbn [q_n1 q_n2 q_n12 q_n21 q_n22 q_cross]; fold ym; try assumption.
  - rewrite D1. exact Lix.
  - rewrite D2. exact Liy.
  - apply nth_error_Some. destruct (index_of_spec _ _ _ Jx) as [X _]. congruence.
  - apply nth_error_Some. destruct (index_of_spec _ _ _ Jy) as [X _]. congruence.
  - exists h'. split; [exact Ev|]. cbn [q_n1 q_n2 q_n12 q_n21 q_n22 q_cross] in D. fold ym in D.
    rewrite (flag_down h n1 n2 ym ec e2 edc ed2 G Hs12 Hsy Ec E2 Lc M3), orb_false_r in D.
    exact (exchange_good h h' n1 n2 n12 ym ic ix iy jx jy e1 e2 ec hn1 hn2 hxm hym ed1 ed2 edc G H1 H2 Hxm Hym Kc Ec Lc Kx Nxmy E1 Ky Nymx E2 Jx Jy D).
Qed.

(** nni.Undo in any state where the proposal's nodes are placed as Apply leaves them: n1 - n2
    joined by the central branch, n22node hanging from n1 and n1_2 from n2, and either n1 is
    above n2 with n22node below n1, or n2 is above n1 *)
Theorem nni_undo_good_gen h q hx hy hxm hym ec e1 e2 edc ed1 ed2 :
  let x := q_n1 q in let y := q_n2 q in let ym := q_n12 q in
  let xm := if q_cross q then q_n21 q else q_n22 q in
  Good h ->
  alookup x (hnodes h) = Some hx -> alookup y (hnodes h) = Some hy ->
  alookup xm (hnodes h) = Some hxm -> alookup ym (hnodes h) = Some hym ->
  In (y, ec) (slots_of hx) -> alookup ec (hedges h) = Some edc ->
  In (xm, e1) (slots_of hx) -> xm <> y -> alookup e1 (hedges h) = Some ed1 ->
  In (ym, e2) (slots_of hy) -> ym <> x -> alookup e2 (hedges h) = Some ed2 ->
  (hleft edc = x /\ hright ed1 <> x) \/ hleft edc = y ->
  exists h', nni_undo_heap q h = HOk h' /\ Good h'.
Proof.
  intros x y ym xm G Hx Hy Hxm Hym Inc Ec Inx Nxmy E1 Iny Nymx E2 Hor.
  pose proof (g_len _ G x hx Hx) as L1. pose proof (g_len _ G y hy Hy) as L2.
  pose proof (g_nodup _ G x hx Hx) as Nd1. pose proof (g_nodup _ G y hy Hy) as Nd2.
  destruct (In_nth_error _ _ Inc) as [ic Kc]. destruct (nth_slots_neigh hx ic y ec L1 Kc) as [Kcn Kcb].
  destruct (In_nth_error _ _ Inx) as [ix Kx]. destruct (nth_slots_neigh hx ix xm e1 L1 Kx) as [Kxn Kxb].
  destruct (In_nth_error _ _ Iny) as [iy Ky]. destruct (nth_slots_neigh hy iy ym e2 L2 Ky) as [Kyn Kyb].
  assert (Ic : index_of y (hneigh hx) = Some ic) by (apply index_of_NoDup; assumption).
  assert (Ix : index_of xm (hneigh hx) = Some ix) by (apply index_of_NoDup; assumption).
  assert (Iy : index_of ym (hneigh hy) = Some iy) by (apply index_of_NoDup; assumption).
  assert (Hsc : has_slot h x y ec) by (exists hx; split; assumption).
  assert (Hsx : has_slot h x xm e1) by (exists hx; split; assumption).
  assert (Hsy : has_slot h y ym e2) by (exists hy; split; assumption).
  destruct (g_sym _ G _ _ _ Hsc) as [hy' [Hy' Incy]]. rewrite Hy in Hy'. injection Hy' as <-.
  destruct (In_nth_error _ _ Incy) as [jc Kcy].
  destruct (g_sym _ G _ _ _ Hsx) as [hxm' [Hxm' Inxm]]. rewrite Hxm in Hxm'. injection Hxm' as <-.
  destruct (g_sym _ G _ _ _ Hsy) as [hym' [Hym' Inym]]. rewrite Hym in Hym'. injection Hym' as <-.
  destruct (index_of_In x (hneigh hxm) (slots_of_in_neigh _ _ _ Inxm)) as [jx Jx].
  destruct (index_of_In y (hneigh hym) (slots_of_in_neigh _ _ _ Inym)) as [jy Jy].
  assert (Dist : x <> y /\ x <> xm /\ x <> ym /\ y <> xm /\ y <> ym /\ xm <> ym /\ e1 <> e2 /\ e1 <> ec /\ e2 <> ec).
  { destruct Hor as [[Lc _]|Lc].
    - exact (exchange_distinct h x y xm ym ic ix iy e1 e2 ec hx hy hxm hym ed1 ed2 edc G Hx Hy Hxm Hym Kc Ec Lc Kx Nxmy E1 Ky Nymx E2).
    - destruct (exchange_distinct h y x ym xm jc iy ix e2 e1 ec hy hx hym hxm ed2 ed1 edc G Hy Hx Hym Hxm Kcy Ec Lc Ky Nymx E2 Kx Nxmy E1)
        as (A1 & A2 & A3 & A4 & A5 & A6 & A7 & A8 & A9). repeat split; congruence. }
  destruct Dist as (N1 & N2 & N3 & N4 & N5 & N6 & M1 & M2 & M3).
  destruct (nni_undo_eval h q hx hy hxm hym ix iy jx jy ic e1 e2 ec ed1 ed2 edc) as [h' [Ev D]]; fold x y xm ym; try assumption.
  - apply nth_error_Some. congruence.
  - apply nth_error_Some. congruence.
  - apply nth_error_Some. destruct (index_of_spec _ _ _ Jx) as [X _]. congruence.
  - apply nth_error_Some. destruct (index_of_spec _ _ _ Jy) as [X _]. congruence.
  - exists h'. split; [exact Ev|]. fold x y xm ym in D. destruct Hor as [[Lc Hr1]|Lc].
    + assert (Fl2 : Nat.eqb (hright ed2) y = false).
      { apply Nat.eqb_neq. intros E0. apply M3.
        eapply (g_one_parent _ G y ym e2 ed2 x ec edc); [exact Hsy|apply (g_sym _ G); exact Hsc|exact E2|exact Ec|exact E0|].
        destruct (g_ends _ G x y ec edc Hsc Ec) as [[_ X]|[X _]]; [exact X|congruence]. }
      assert (Fl1 : Nat.eqb (hright ed1) x = false) by (apply Nat.eqb_neq; exact Hr1).
      rewrite Fl2 in D. cbn [orb] in D.
      exact (exchange_good h h' x y xm ym ic ix iy jx jy e1 e2 ec hx hy hxm hym ed1 ed2 edc G Hx Hy Hxm Hym Kc Ec Lc Kx Nxmy E1 Ky Nymx E2 Jx Jy D).
    + assert (Fl1 : Nat.eqb (hright ed1) x = false).
      { apply Nat.eqb_neq. intros E0. apply M2.
        eapply (g_one_parent _ G x xm e1 ed1 y ec edc); [exact Hsx|exact Hsc|exact E1|exact Ec|exact E0|].
        destruct (g_ends _ G x y ec edc Hsc Ec) as [[X _]|[_ X]]; [|exact X]. exfalso. rewrite Lc in X. exact (N1 (eq_sym X)). }
      rewrite Fl1, orb_false_r in D.
      apply nni_desc_sym in D; try assumption.
      exact (exchange_good h h' y x ym xm jc iy ix jy jx e2 e1 ec hy hx hym hxm ed2 ed1 edc G Hy Hx Hym Hxm Kcy Ec Lc Ky Nymx E2 Kx Nxmy E1 Jy Jx D).
Qed.


(** since the repair of Undo's test (e2.Right() == n2 || e1.Right() == n1) the orientation of
    the three branches does not matter: Undo keeps ANY good heap good, wherever the root is
    (in particular after Apply followed by any re-rooting) *)
Theorem nni_undo_good_any h q hx hy hxm hym ec e1 e2 edc ed1 ed2 :
  let x := q_n1 q in let y := q_n2 q in let ym := q_n12 q in
  let xm := if q_cross q then q_n21 q else q_n22 q in
  Good h ->
  alookup x (hnodes h) = Some hx -> alookup y (hnodes h) = Some hy ->
  alookup xm (hnodes h) = Some hxm -> alookup ym (hnodes h) = Some hym ->
  In (y, ec) (slots_of hx) -> alookup ec (hedges h) = Some edc ->
  In (xm, e1) (slots_of hx) -> xm <> y -> alookup e1 (hedges h) = Some ed1 ->
  In (ym, e2) (slots_of hy) -> ym <> x -> alookup e2 (hedges h) = Some ed2 ->
  exists h', nni_undo_heap q h = HOk h' /\ Good h'.
Proof.
  intros x y ym xm G Hx Hy Hxm Hym Inc Ec Inx Nxmy E1 Iny Nymx E2.
  pose proof (g_len _ G x hx Hx) as L1. pose proof (g_len _ G y hy Hy) as L2.
  pose proof (g_nodup _ G x hx Hx) as Nd1. pose proof (g_nodup _ G y hy Hy) as Nd2.
  destruct (In_nth_error _ _ Inc) as [ic Kc]. destruct (nth_slots_neigh hx ic y ec L1 Kc) as [Kcn Kcb].
  destruct (In_nth_error _ _ Inx) as [ix Kx]. destruct (nth_slots_neigh hx ix xm e1 L1 Kx) as [Kxn Kxb].
  destruct (In_nth_error _ _ Iny) as [iy Ky]. destruct (nth_slots_neigh hy iy ym e2 L2 Ky) as [Kyn Kyb].
  assert (Ic : index_of y (hneigh hx) = Some ic) by (apply index_of_NoDup; assumption).
  assert (Ix : index_of xm (hneigh hx) = Some ix) by (apply index_of_NoDup; assumption).
  assert (Iy : index_of ym (hneigh hy) = Some iy) by (apply index_of_NoDup; assumption).
  assert (Hsc : has_slot h x y ec) by (exists hx; split; assumption).
  assert (Hsx : has_slot h x xm e1) by (exists hx; split; assumption).
  assert (Hsy : has_slot h y ym e2) by (exists hy; split; assumption).
  destruct (g_sym _ G _ _ _ Hsc) as [hy' [Hy' Incy]]. rewrite Hy in Hy'. injection Hy' as <-.
  destruct (In_nth_error _ _ Incy) as [jc Kcy].
  destruct (g_sym _ G _ _ _ Hsx) as [hxm' [Hxm' Inxm]]. rewrite Hxm in Hxm'. injection Hxm' as <-.
  destruct (g_sym _ G _ _ _ Hsy) as [hym' [Hym' Inym]]. rewrite Hym in Hym'. injection Hym' as <-.
  destruct (index_of_In x (hneigh hxm) (slots_of_in_neigh _ _ _ Inxm)) as [jx Jx].
  destruct (index_of_In y (hneigh hym) (slots_of_in_neigh _ _ _ Inym)) as [jy Jy].
  assert (Dist : x <> y /\ x <> xm /\ x <> ym /\ y <> xm /\ y <> ym /\ xm <> ym /\ e1 <> e2 /\ e1 <> ec /\ e2 <> ec).
  { destruct (g_ends _ G x y ec edc Hsc Ec) as [[Lc _]|[Lc _]].
    - exact (exchange_distinct h x y xm ym ic ix iy e1 e2 ec hx hy hxm hym ed1 ed2 edc G Hx Hy Hxm Hym Kc Ec Lc Kx Nxmy E1 Ky Nymx E2).
    - destruct (exchange_distinct h y x ym xm jc iy ix e2 e1 ec hy hx hym hxm ed2 ed1 edc G Hy Hx Hym Hxm Kcy Ec Lc Ky Nymx E2 Kx Nxmy E1)
        as (A1 & A2 & A3 & A4 & A5 & A6 & A7 & A8 & A9). repeat split; congruence. }
  destruct Dist as (N1 & N2 & N3 & N4 & N5 & N6 & M1 & M2 & M3).
  destruct (nni_undo_eval h q hx hy hxm hym ix iy jx jy ic e1 e2 ec ed1 ed2 edc) as [h' [Ev D]]; fold x y xm ym; try assumption.
  - apply nth_error_Some. congruence.
  - apply nth_error_Some. congruence.
  - apply nth_error_Some. destruct (index_of_spec _ _ _ Jx) as [X _]. congruence.
  - apply nth_error_Some. destruct (index_of_spec _ _ _ Jy) as [X _]. congruence.
  - exists h'. split; [exact Ev|]. fold x y xm ym in D. destruct (g_ends _ G x y ec edc Hsc Ec) as [[Lc _]|[Lc _]].
    + assert (Fl2 : Nat.eqb (hright ed2) y = false).
      { apply Nat.eqb_neq. intros E0. apply M3.
        eapply (g_one_parent _ G y ym e2 ed2 x ec edc); [exact Hsy|apply (g_sym _ G); exact Hsc|exact E2|exact Ec|exact E0|].
        destruct (g_ends _ G x y ec edc Hsc Ec) as [[_ X]|[X _]]; [exact X|congruence]. }
      rewrite Fl2 in D. cbn [orb] in D.
      exact (exchange_good h h' x y xm ym ic ix iy jx jy e1 e2 ec hx hy hxm hym ed1 ed2 edc G Hx Hy Hxm Hym Kc Ec Lc Kx Nxmy E1 Ky Nymx E2 Jx Jy D).
    + assert (Fl1 : Nat.eqb (hright ed1) x = false).
      { apply Nat.eqb_neq. intros E0. apply M2.
        eapply (g_one_parent _ G x xm e1 ed1 y ec edc); [exact Hsx|exact Hsc|exact E1|exact Ec|exact E0|].
        destruct (g_ends _ G x y ec edc Hsc Ec) as [[X _]|[_ X]]; [|exact X]. exfalso. rewrite Lc in X. exact (N1 (eq_sym X)). }
      rewrite Fl1, orb_false_r in D.
      apply nni_desc_sym in D; try assumption.
      exact (exchange_good h h' y x ym xm jc iy ix jy jx e2 e1 ec hy hx hym hxm ed2 ed1 edc G Hy Hx Hym Hxm Kcy Ec Lc Ky Nymx E2 Kx Nxmy E1 Jy Jx D).
Qed.


(** the same for Apply, since the repair of its test (e1.Right() == n1 || e2.Right() == n2) *)
Theorem nni_apply_good_any h q hx hy hxm hym ec e1 e2 edc ed1 ed2 :
  let x := q_n1 q in let y := q_n2 q in let xm := q_n12 q in
  let ym := if q_cross q then q_n21 q else q_n22 q in
  Good h ->
  alookup x (hnodes h) = Some hx -> alookup y (hnodes h) = Some hy ->
  alookup xm (hnodes h) = Some hxm -> alookup ym (hnodes h) = Some hym ->
  In (y, ec) (slots_of hx) -> alookup ec (hedges h) = Some edc ->
  In (xm, e1) (slots_of hx) -> xm <> y -> alookup e1 (hedges h) = Some ed1 ->
  In (ym, e2) (slots_of hy) -> ym <> x -> alookup e2 (hedges h) = Some ed2 ->
  exists h', nni_apply_heap q h = HOk h' /\ Good h'.
Proof.
  intros x y xm ym G Hx Hy Hxm Hym Inc Ec Inx Nxmy E1 Iny Nymx E2.
  pose proof (g_len _ G x hx Hx) as L1. pose proof (g_len _ G y hy Hy) as L2.
  pose proof (g_nodup _ G x hx Hx) as Nd1. pose proof (g_nodup _ G y hy Hy) as Nd2.
  destruct (In_nth_error _ _ Inc) as [ic Kc]. destruct (nth_slots_neigh hx ic y ec L1 Kc) as [Kcn Kcb].
  destruct (In_nth_error _ _ Inx) as [ix Kx]. destruct (nth_slots_neigh hx ix xm e1 L1 Kx) as [Kxn Kxb].
  destruct (In_nth_error _ _ Iny) as [iy Ky]. destruct (nth_slots_neigh hy iy ym e2 L2 Ky) as [Kyn Kyb].
  assert (Ic : index_of y (hneigh hx) = Some ic) by (apply index_of_NoDup; assumption).
  assert (Ix : index_of xm (hneigh hx) = Some ix) by (apply index_of_NoDup; assumption).
  assert (Iy : index_of ym (hneigh hy) = Some iy) by (apply index_of_NoDup; assumption).
  assert (Hsc : has_slot h x y ec) by (exists hx; split; assumption).
  assert (Hsx : has_slot h x xm e1) by (exists hx; split; assumption).
  assert (Hsy : has_slot h y ym e2) by (exists hy; split; assumption).
  destruct (g_sym _ G _ _ _ Hsc) as [hy' [Hy' Incy]]. rewrite Hy in Hy'. injection Hy' as <-.
  destruct (In_nth_error _ _ Incy) as [jc Kcy].
  destruct (g_sym _ G _ _ _ Hsx) as [hxm' [Hxm' Inxm]]. rewrite Hxm in Hxm'. injection Hxm' as <-.
  destruct (g_sym _ G _ _ _ Hsy) as [hym' [Hym' Inym]]. rewrite Hym in Hym'. injection Hym' as <-.
  destruct (index_of_In x (hneigh hxm) (slots_of_in_neigh _ _ _ Inxm)) as [jx Jx].
  destruct (index_of_In y (hneigh hym) (slots_of_in_neigh _ _ _ Inym)) as [jy Jy].
  assert (Dist : x <> y /\ x <> xm /\ x <> ym /\ y <> xm /\ y <> ym /\ xm <> ym /\ e1 <> e2 /\ e1 <> ec /\ e2 <> ec).
  { destruct (g_ends _ G x y ec edc Hsc Ec) as [[Lc _]|[Lc _]].
    - exact (exchange_distinct h x y xm ym ic ix iy e1 e2 ec hx hy hxm hym ed1 ed2 edc G Hx Hy Hxm Hym Kc Ec Lc Kx Nxmy E1 Ky Nymx E2).
    - destruct (exchange_distinct h y x ym xm jc iy ix e2 e1 ec hy hx hym hxm ed2 ed1 edc G Hy Hx Hym Hxm Kcy Ec Lc Ky Nymx E2 Kx Nxmy E1)
        as (A1 & A2 & A3 & A4 & A5 & A6 & A7 & A8 & A9). repeat split; congruence. }
  destruct Dist as (N1 & N2 & N3 & N4 & N5 & N6 & M1 & M2 & M3).
  destruct (nni_apply_eval h q hx hy hxm hym ix iy jx jy ic e1 e2 ec ed1 ed2 edc) as [h' [Ev D]]; fold x y xm ym; try assumption.
  - apply nth_error_Some. congruence.
  - apply nth_error_Some. congruence.
  - apply nth_error_Some. destruct (index_of_spec _ _ _ Jx) as [X _]. congruence.
  - apply nth_error_Some. destruct (index_of_spec _ _ _ Jy) as [X _]. congruence.
  - exists h'. split; [exact Ev|]. fold x y xm ym in D. destruct (g_ends _ G x y ec edc Hsc Ec) as [[Lc _]|[Lc _]].
    + assert (Fl2 : Nat.eqb (hright ed2) y = false).
      { apply Nat.eqb_neq. intros E0. apply M3.
        eapply (g_one_parent _ G y ym e2 ed2 x ec edc); [exact Hsy|apply (g_sym _ G); exact Hsc|exact E2|exact Ec|exact E0|].
        destruct (g_ends _ G x y ec edc Hsc Ec) as [[_ X]|[X _]]; [exact X|congruence]. }
      rewrite Fl2, orb_false_r in D.
      exact (exchange_good h h' x y xm ym ic ix iy jx jy e1 e2 ec hx hy hxm hym ed1 ed2 edc G Hx Hy Hxm Hym Kc Ec Lc Kx Nxmy E1 Ky Nymx E2 Jx Jy D).
    + assert (Fl1 : Nat.eqb (hright ed1) x = false).
      { apply Nat.eqb_neq. intros E0. apply M2.
        eapply (g_one_parent _ G x xm e1 ed1 y ec edc); [exact Hsx|exact Hsc|exact E1|exact Ec|exact E0|].
        destruct (g_ends _ G x y ec edc Hsc Ec) as [[X _]|[_ X]]; [|exact X]. exfalso. rewrite Lc in X. exact (N1 (eq_sym X)). }
      rewrite Fl1 in D. cbn [orb] in D.
      apply nni_desc_sym in D; try assumption.
      exact (exchange_good h h' y x ym xm jc iy ix jy jx e2 e1 ec hy hx hym hxm ed2 ed1 edc G Hy Hx Hym Hxm Kcy Ec Lc Ky Nymx E2 Kx Nxmy E1 Jy Jx D).
Qed.


Theorem nni_apply_undo_good h n1 n2 cross q hn1 hn2 ec edc : Good h ->
  alookup n1 (hnodes h) = Some hn1 -> alookup n2 (hnodes h) = Some hn2 ->
  In (n2, ec) (slots_of hn1) -> alookup ec (hedges h) = Some edc -> hleft edc = n1 ->
  length (hneigh hn1) = 3 -> length (hneigh hn2) = 3 ->
  new_nni_heap h n1 n2 cross = HOk q ->
  exists h' h'', nni_apply_heap q h = HOk h' /\ Good h' /\ nni_undo_heap q h' = HOk h'' /\ Good h''.
Proof.
  intros G H1 H2 Hin Ec Lc D1 D2 Eq.
  pose proof (g_len _ G n1 hn1 H1) as L1. pose proof (g_len _ G n2 hn2 H2) as L2.
  pose proof (g_nodup _ G n1 hn1 H1) as Nd1. pose proof (g_nodup _ G n2 hn2 H2) as Nd2.
  destruct (In_nth_error _ _ Hin) as [ic Kc]. destruct (nth_slots_neigh hn1 ic n2 ec L1 Kc) as [Kcn Kcb].
  assert (Ic : index_of n2 (hneigh hn1) = Some ic) by (apply index_of_NoDup; assumption).
  assert (Lic : ic < 3) by (rewrite <- D1; apply nth_error_Some; congruence).
  assert (Hs12 : has_slot h n1 n2 ec) by (exists hn1; split; assumption).
  destruct (g_sym _ G n1 n2 ec Hs12) as [hn2' [H2' Hin2]]. rewrite H2 in H2'. injection H2' as <-.
  destruct (In_nth_error _ _ Hin2) as [j Kj]. destruct (nth_slots_neigh hn2 j n1 ec L2 Kj) as [Kjn Kjb].
  assert (Ij : index_of n1 (hneigh hn2) = Some j) by (apply index_of_NoDup; assumption).
  assert (Lj : j < 3) by (rewrite <- D2; apply nth_error_Some; congruence).
  (* what newNNI read *)
  unfold new_nni_heap, get_node in Eq. rewrite H1, H2 in Eq. cbn [hbind] in Eq. rewrite Ic, Ij in Eq. cbn [idx_plus] in Eq.
  unfold nth_res in Eq.
  destruct (nth_error (hneigh hn1) (Nat.modulo (ic + 1) 3)) as [n11|] eqn:E11; [|discriminate]. cbn [hbind] in Eq.
  destruct (nth_error (hneigh hn1) (Nat.modulo (ic + 2) 3)) as [n12|] eqn:E12; [|discriminate]. cbn [hbind] in Eq.
  destruct (nth_error (hneigh hn2) (Nat.modulo (j + 1) 3)) as [n21|] eqn:E21; [|discriminate]. cbn [hbind] in Eq.
  destruct (nth_error (hneigh hn2) (Nat.modulo (j + 2) 3)) as [n22|] eqn:E22; [|discriminate]. cbn [hbind] in Eq.
  injection Eq as <-.
  set (ix := Nat.modulo (ic + 2) 3) in *.
  set (iy := if cross then Nat.modulo (j + 1) 3 else Nat.modulo (j + 2) 3).
  set (ym := if cross then n21 else n22).
  assert (Eym : nth_error (hneigh hn2) iy = Some ym) by (unfold iy, ym; destruct cross; assumption).
  destruct (mod3_facts ic 2 Lic (or_intror eq_refl)) as [Lix Nix]. fold ix in Lix, Nix.
  assert (Liy : iy < 3 /\ iy <> j) by (unfold iy; destruct cross; [apply mod3_facts; [exact Lj|left; reflexivity]|apply mod3_facts; [exact Lj|right; reflexivity]]).
  destruct Liy as [Liy Niy].
  assert (Ix : index_of n12 (hneigh hn1) = Some ix) by (apply index_of_NoDup; assumption).
  assert (Iy : index_of ym (hneigh hn2) = Some iy) by (apply index_of_NoDup; assumption).
  destruct (nth_error_lt_some (hbr hn1) ix) as [e1 B1]; [rewrite <- L1, D1; exact Lix|].
  destruct (nth_error_lt_some (hbr hn2) iy) as [e2 B2]; [rewrite <- L2, D2; exact Liy|].
  pose proof (nth_combine _ _ _ _ _ E12 B1) as Kx. pose proof (nth_combine _ _ _ _ _ Eym B2) as Ky.
  change (combine (hneigh hn1) (hbr hn1)) with (slots_of hn1) in Kx. change (combine (hneigh hn2) (hbr hn2)) with (slots_of hn2) in Ky.
  assert (Hsx : has_slot h n1 n12 e1) by (exists hn1; split; [exact H1|eapply nth_error_In; exact Kx]).
  assert (Hsy : has_slot h n2 ym e2) by (exists hn2; split; [exact H2|eapply nth_error_In; exact Ky]).
  destruct (g_slot_exists _ G _ _ _ Hsx) as [Xm Xe]. destruct (g_slot_exists _ G _ _ _ Hsy) as [Ym Ye].
  destruct (alookup n12 (hnodes h)) as [hxm|] eqn:Hxm; [clear Xm|congruence].
  destruct (alookup ym (hnodes h)) as [hym|] eqn:Hym; [clear Ym|congruence].
  destruct (alookup e1 (hedges h)) as [ed1|] eqn:E1; [clear Xe|congruence].
  destruct (alookup e2 (hedges h)) as [ed2|] eqn:E2; [clear Ye|congruence].
  assert (Nxmy : n12 <> n2).
  { intros E0. apply Nix. apply (proj1 (NoDup_nth_error _) Nd1); [apply nth_error_Some; congruence|congruence]. }
  assert (Nymx : ym <> n1).
  { intros E0. apply Niy. apply (proj1 (NoDup_nth_error _) Nd2); [apply nth_error_Some; congruence|congruence]. }
  destruct (g_sym _ G _ _ _ Hsx) as [hxm' [Hxm' Inx]]. rewrite Hxm in Hxm'. injection Hxm' as <-.
  destruct (g_sym _ G _ _ _ Hsy) as [hym' [Hym' Iny]]. rewrite Hym in Hym'. injection Hym' as <-.
  destruct (index_of_In n1 (hneigh hxm) (slots_of_in_neigh _ _ _ Inx)) as [jx Jx].
  destruct (index_of_In n2 (hneigh hym) (slots_of_in_neigh _ _ _ Iny)) as [jy Jy].
  destruct (exchange_distinct h n1 n2 n12 ym ic ix iy e1 e2 ec hn1 hn2 hxm hym ed1 ed2 edc G H1 H2 Hxm Hym Kc Ec Lc Kx Nxmy E1 Ky Nymx E2)
    as (N1 & N2 & N3 & N4 & N5 & N6 & M1 & M2 & M3).
  destruct (nni_apply_eval h (mkHNNI n1 n2 n11 n12 n21 n22 cross) hn1 hn2 hxm hym ix iy jx jy ic e1 e2 ec ed1 ed2 edc) as [h' [Ev D]];
    cbn [q_n1 q_n2 q_n12 q_n21 q_n22 q_cross]; fold ym; try assumption.
  - rewrite D1. exact Lix.
  - rewrite D2. exact Liy.
  - apply nth_error_Some. destruct (index_of_spec _ _ _ Jx) as [X _]. congruence.
  - apply nth_error_Some. destruct (index_of_spec _ _ _ Jy) as [X _]. congruence.
  - cbn [q_n1 q_n2 q_n12 q_n21 q_n22 q_cross] in D. fold ym in D.
    rewrite (flag_down h n1 n2 ym ec e2 edc ed2 G Hs12 Hsy Ec E2 Lc M3), orb_false_r in D.
    pose proof (exchange_good h h' n1 n2 n12 ym ic ix iy jx jy e1 e2 ec hn1 hn2 hxm hym ed1 ed2 edc G H1 H2 Hxm Hym Kc Ec Lc Kx Nxmy E1 Ky Nymx E2 Jx Jy D) as G'.
    (* the state Apply leaves *)
    assert (Hl2 : hleft ed2 = n2).
    { destruct (g_ends _ G n2 ym e2 ed2 Hsy E2) as [[X _]|[_ X]]; [exact X|]. exfalso. apply M3.
      eapply (g_one_parent _ G n2 ym e2 ed2 n1 ec edc); [exact Hsy|apply (g_sym _ G); exact Hs12|exact E2|exact Ec|exact X|].
      destruct (g_ends _ G n1 n2 ec edc Hs12 Ec) as [[_ Y]|[Y _]]; [exact Y|congruence]. }
    assert (Hx' : alookup n1 (hnodes h') = Some (mkHN (hname hn1) (hcom hn1) (put_nth ix ym (hneigh hn1)) (put_nth ix e2 (hbr hn1)))).
    { rewrite (nd_nodes _ _ _ _ _ _ _ _ _ _ _ _ _ _ _ _ _ _ _ _ _ D), Nat.eqb_refl. reflexivity. }
    assert (Hy' : alookup n2 (hnodes h') = Some (mkHN (hname hn2) (hcom hn2) (put_nth iy n12 (hneigh hn2)) (put_nth iy e1 (hbr hn2)))).
    { rewrite (nd_nodes _ _ _ _ _ _ _ _ _ _ _ _ _ _ _ _ _ _ _ _ _ D). destruct (Nat.eqb_spec n2 n1); [congruence|]. rewrite Nat.eqb_refl. reflexivity. }
    assert (Hxm' : alookup n12 (hnodes h') <> None).
    { rewrite (nd_nodes _ _ _ _ _ _ _ _ _ _ _ _ _ _ _ _ _ _ _ _ _ D). destruct (Nat.eqb_spec n12 n1); [congruence|]. destruct (Nat.eqb_spec n12 n2); [congruence|].
      rewrite Nat.eqb_refl. discriminate. }
    assert (Hym' : alookup ym (hnodes h') <> None).
    { rewrite (nd_nodes _ _ _ _ _ _ _ _ _ _ _ _ _ _ _ _ _ _ _ _ _ D). destruct (Nat.eqb_spec ym n1); [congruence|]. destruct (Nat.eqb_spec ym n2); [congruence|].
      destruct (Nat.eqb_spec ym n12); [congruence|]. rewrite Nat.eqb_refl. discriminate. }
    destruct (alookup n12 (hnodes h')) as [hxm2|] eqn:Hxm2; [clear Hxm'|congruence].
    destruct (alookup ym (hnodes h')) as [hym2|] eqn:Hym2; [clear Hym'|congruence].
    assert (Ee1' : alookup e1 (hedges h') = Some (move_end ed1 n1 n2)).
    { rewrite (nd_edges _ _ _ _ _ _ _ _ _ _ _ _ _ _ _ _ _ _ _ _ _ D), Nat.eqb_refl. reflexivity. }
    assert (Ee2' : alookup e2 (hedges h') = Some (move_end ed2 n2 n1)).
    { rewrite (nd_edges _ _ _ _ _ _ _ _ _ _ _ _ _ _ _ _ _ _ _ _ _ D). destruct (Nat.eqb_spec e2 e1); [congruence|]. rewrite Nat.eqb_refl. reflexivity. }
    assert (Eec' : alookup ec (hedges h') = Some (if Nat.eqb (hright ed1) n1 then flip edc else edc)).
    { rewrite (nd_edges _ _ _ _ _ _ _ _ _ _ _ _ _ _ _ _ _ _ _ _ _ D). destruct (Nat.eqb_spec ec e1); [congruence|]. destruct (Nat.eqb_spec ec e2); [congruence|].
      rewrite Nat.eqb_refl. reflexivity. }
    assert (Sx' : slots_of (mkHN (hname hn1) (hcom hn1) (put_nth ix ym (hneigh hn1)) (put_nth ix e2 (hbr hn1))) = set_nth ix (ym, e2) (slots_of hn1)).
    { unfold slots_of, put_nth. cbn [hneigh hbr]. apply combine_set_nth_both. }
    assert (Sy' : slots_of (mkHN (hname hn2) (hcom hn2) (put_nth iy n12 (hneigh hn2)) (put_nth iy e1 (hbr hn2))) = set_nth iy (n12, e1) (slots_of hn2)).
    { unfold slots_of, put_nth. cbn [hneigh hbr]. apply combine_set_nth_both. }
    destruct (nni_undo_good_gen h' (mkHNNI n1 n2 n11 n12 n21 n22 cross) _ _ hym2 hxm2 ec e2 e1 (if Nat.eqb (hright ed1) n1 then flip edc else edc) (move_end ed2 n2 n1) (move_end ed1 n1 n2) G' Hx' Hy') as [h'' [Ev2 G'']];
      cbn [q_n1 q_n2 q_n12 q_n21 q_n22 q_cross]; fold ym.
    + exact Hym2.
    + exact Hxm2.
    + rewrite Sx'. eapply nth_error_In. rewrite nth_error_set_nth_ne by (intros E0; apply Nix; symmetry; exact E0). exact Kc.
    + exact Eec'.
    + rewrite Sx'. eapply nth_error_In. apply nth_error_set_nth_eq. apply nth_error_Some. congruence.
    + exact (not_eq_sym N5).
    + exact Ee2'.
    + rewrite Sy'. eapply nth_error_In. apply nth_error_set_nth_eq. apply nth_error_Some. congruence.
    + exact (not_eq_sym N2).
    + exact Ee1'.
    + destruct (Nat.eqb (hright ed1) n1).
      * right. cbn. destruct (g_ends _ G n1 n2 ec edc Hs12 Ec) as [[_ Y]|[Y _]]; [exact Y|congruence].
      * left. split; [exact Lc|]. unfold move_end. rewrite Hl2, Nat.eqb_refl. cbn.
        destruct (g_ends _ G n2 ym e2 ed2 Hsy E2) as [[_ X]|[X _]]; [rewrite X; exact (not_eq_sym N3)|congruence].
    + exists h', h''. split; [exact Ev|]. split; [exact G'|]. split; [exact Ev2|exact G''].
Qed.
