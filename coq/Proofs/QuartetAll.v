(** Quartets, all 4-tuples (continued): equivalence, canonical form, multiset, the map. *)
From Coq Require Import NArith ZArith Bool Lia List Permutation Sorted.
From GT Require Import Model.Index Model.HashMap Model.Quartet Proofs.HashMap Proofs.Quartet Proofs.QuartetAllBase.
Import ListNotations.

(** * an equivalence relation on all quartets *)
Theorem he_refl : forall q, q_hash_equals q q = true.
Proof. intros [a b c d]. he_any. Qed.

Theorem he_sym : forall q q', q_hash_equals q q' = true -> q_hash_equals q' q = true.
Proof.
  intros [a1 a2 a3 a4] [b1 b2 b3 b4] H. apply he_props in H. decomp; subst; he_any.
Qed.

Theorem he_trans : forall a b c,
    q_hash_equals a b = true -> q_hash_equals b c = true -> q_hash_equals a c = true.
Proof.
  intros [a1 a2 a3 a4] [b1 b2 b3 b4] [c1 c2 c3 c4] H1 H2.
  apply he_props in H1. apply he_props in H2. decomp; subst; he_any.
Qed.

Definition q_canon (q : quartet) : N * N * N * N := sortN4 (qt1 q) (qt2 q) (qt3 q) (qt4 q).
Definition q_of (s : N * N * N * N) : quartet := let '(a, b, c, d) := s in mkQ a b c d.

Lemma canon_sorted : forall q, let '(s1, s2, s3, s4) := q_canon q in (s1 <= s2 /\ s2 <= s3 /\ s3 <= s4)%N.
Proof.
  intros [a b c d]. unfold q_canon, sortN4, csN. simpl.
  repeat match goal with |- context[(?x <? ?y)%N] => destruct (N.ltb_spec x y) end; lia.
Qed.

(** a quartet is HashEquals to its canonical form *)
Lemma he_canon : forall q, q_hash_equals q (q_of (q_canon q)) = true.
Proof.
  intros [a b c d]. unfold q_canon, sortN4, csN, q_of. simpl.
  repeat match goal with |- context[(?x <? ?y)%N] => destruct (N.ltb_spec x y) end; he_any.
Qed.

Lemma he_canon_eq : forall q q', q_hash_equals q q' = true -> q_canon q = q_canon q'.
Proof.
  intros [a1 a2 a3 a4] [b1 b2 b3 b4] H. apply he_props in H. unfold q_canon. simpl.
  decomp; subst; nsearch 6.
Qed.

(** HashEquals = equal canonical form = same multiset of taxa, for all quartets *)
Theorem q_hash_equals_canon_iff : forall q q', q_hash_equals q q' = true <-> q_canon q = q_canon q'.
Proof.
  intros q q'. split; [apply he_canon_eq|]. intros E.
  eapply he_trans; [apply he_canon|]. rewrite E. apply he_sym, he_canon.
Qed.

(** ... and that is "same multiset of taxa" *)
Definition qlist (q : quartet) : list N := [qt1 q; qt2 q; qt3 q; qt4 q].

Ltac psolve :=
  cbn [app]; first [ apply perm_nil | apply perm_skip; psolve
                   | apply (@Permutation_cons_app _ _ [_] _ _); psolve
                   | apply (@Permutation_cons_app _ _ [_; _] _ _); psolve
                   | apply (@Permutation_cons_app _ _ [_; _; _] _ _); psolve ].

Lemma he_perm : forall q q', q_hash_equals q q' = true -> Permutation (qlist q) (qlist q').
Proof.
  intros [a1 a2 a3 a4] [b1 b2 b3 b4] H. apply he_props in H. unfold qlist. simpl.
  decomp; subst; psolve.
Qed.

Lemma sorted_perm_eq : forall l1 l2 : list N,
    StronglySorted N.le l1 -> StronglySorted N.le l2 -> Permutation l1 l2 -> l1 = l2.
Proof.
  induction l1 as [|a l1 IH]; intros l2 S1 S2 P.
  - apply Permutation_nil in P. now subst.
  - destruct l2 as [|b l2]; [apply Permutation_sym, Permutation_nil in P; discriminate|].
    inversion S1 as [|? ? S1' F1]; subst. inversion S2 as [|? ? S2' F2]; subst.
    assert (a = b).
    { assert (Ia : In a (b :: l2)) by (eapply Permutation_in; [exact P | now left]).
      assert (Ib : In b (a :: l1)) by (eapply Permutation_in; [apply Permutation_sym, P | now left]).
      rewrite Forall_forall in F1, F2.
      destruct Ia as [->|Ia]; auto. destruct Ib as [->|Ib]; auto.
      apply F2 in Ia. apply F1 in Ib. lia. }
    subst b. f_equal. apply IH; auto. now apply Permutation_cons_inv in P.
Qed.

Definition clist (q : quartet) : list N := qlist (q_of (q_canon q)).

Lemma clist_sorted : forall q, StronglySorted N.le (clist q).
Proof.
  intros q. pose proof (canon_sorted q) as H. unfold clist, qlist. destruct (q_canon q) as [[[s1 s2] s3] s4].
  simpl. destruct H as (A & B & C).
  repeat constructor; lia.
Qed.

Theorem q_hash_equals_perm_iff : forall q q', q_hash_equals q q' = true <-> Permutation (qlist q) (qlist q').
Proof.
  intros q q'. split; [apply he_perm|]. intros P.
  apply q_hash_equals_canon_iff.
  assert (E : clist q = clist q').
  { apply sorted_perm_eq; try apply clist_sorted.
    eapply Permutation_trans; [apply Permutation_sym, he_perm, he_canon|].
    eapply Permutation_trans; [exact P|]. apply he_perm, he_canon. }
  unfold clist, qlist in E. destruct (q_canon q) as [[[s1 s2] s3] s4], (q_canon q') as [[[u1 u2] u3] u4].
  simpl in E. congruence.
Qed.

(** * hence, for ALL quartets, the contract of a Hasher holds and the map refines the
    association list (no distinctness needed) *)
Theorem quartet_map_refines_all :
  forall (V : Type) (need : nat -> N -> bool) (cap : N) (ops : list (op quartet V)) rs mf,
    (cap < W64)%N ->
    run quartet V q_hash_code q_hash_equals need (new_hashmap quartet V cap) ops = Some (rs, mf) ->
    rs = fst (run_assoc quartet V q_hash_equals [] ops) /\
    Permutation (key_values quartet V mf) (snd (run_assoc quartet V q_hash_equals [] ops)) /\
    hm_total mf = length (snd (run_assoc quartet V q_hash_equals [] ops)).
Proof.
  intros V need cap ops rs mf Hc H.
  eapply (hashmap_refines_gen quartet V q_hash_code q_hash_equals need (fun _ => True)); eauto.
  - intros a b _ _. apply he_sym.
  - intros a b c _ _ _. apply he_trans.
  - intros a b _ _. apply quartet_hash_compat.
  - unfold ops_ok. apply Forall_forall. auto.
Qed.
